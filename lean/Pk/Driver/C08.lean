/-
  Line-protocol driver for property C08 (import result does not depend on how and when captures
  arrive).  C05 and C08 share one model (Pk/Model/Import.lean), one case format and one
  canonical result line; see Pk/Driver/C05.lean.
-/
import Pk.Driver.C05

namespace Pk.Driver.C08

def main : IO Unit := Pk.Driver.C05.main

end Pk.Driver.C08
