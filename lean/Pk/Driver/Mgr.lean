/-
  Line-protocol driver for the service-loop model (properties C06, C09, C10, C13, C16).
  Input : one JSON event per line — the "ev" objects written by harness/cmd/mgr (op + payload).
  Output: one JSON line per event: {"res": "ok"|"err"|"none", "st": <canonical state>, "subs": [...]}
-/
import Lean.Data.Json
import Pk.Model.Manager
import Pk.Driver.Util

namespace Pk.Driver.Mgr
open Lean Pk.Mgr

def jnat (j : Json) (k : String) : Nat := ((j.getObjValAs? Nat k).toOption).getD 0
def jstr (j : Json) (k : String) : String := ((j.getObjValAs? String k).toOption).getD ""
def jbool (j : Json) (k : String) : Bool := ((j.getObjValAs? Bool k).toOption).getD false
def jnats (j : Json) (k : String) : List Nat :=
  match j.getObjVal? k with
  | .ok (.arr a) => a.toList.filterMap (fun x => x.getNat?.toOption)
  | _ => []
def jstrs (j : Json) (k : String) : List String :=
  match j.getObjVal? k with
  | .ok (.arr a) => a.toList.filterMap (fun x => x.getStr?.toOption)
  | _ => []
def jfiles (j : Json) (k : String) : List (Nat × List Nat) :=
  match j.getObjVal? k with
  | .ok (.arr a) => a.toList.map (fun x => (jnat x "ord", jnats x "ids"))
  | _ => []

def facts (j : Json) : Facts :=
  match j.getObjVal? "facts" with
  | .ok f => { err := jbool f "err", main := jstrs f "main", sub := jstrs f "sub", mfeat := jnat f "mfeat",
               sfeat := jnat f "sfeat", idsok := jbool f "idsok", ids := jnats f "ids" }
  | _ => { err := true, main := [], sub := [], mfeat := 0, sfeat := 0, idsok := false, ids := [] }

def started (j : Json) : Started :=
  match j.getObjVal? "started" with
  | .ok s => { tag := (s.getObjValAs? String "tag").toOption }
  | _ => {}

def toEv (j : Json) : Ev :=
  if jbool j "noop" then .nop else
  match jstr j "op" with
  | "import" => .importPcaps (jstrs j "names")
  | "rel" =>
    match jstr j "job" with
    | "import" => .importDone (jnat j "processed") (jnat j "usednew") (jfiles j "created") (jnats j "upd") (jnats j "rst") (jnats j "add")
    | "tag" => .tagDone (jstr j "name") (jnats j "result")
    | "merge" => .mergeDone (jfiles j "merged")
    | "convert" => .convertDone
    | _ => .nop
  | "addtag" => .addTag (jstr j "name") (jstr j "color") (jstr j "def") (facts j)
  | "updq" => .updQuery (jstr j "name") (jstr j "def") (facts j)
  | "updcolor" => .updColor (jstr j "name") (jstr j "color")
  | "updname" => .updName (jstr j "name") (jstr j "new")
  | "updconv" => .updConv (jstr j "name") (jstrs j "convs")
  | "markadd" => .markAdd (jstr j "name") (jnats j "ids")
  | "markdel" => .markDel (jstr j "name") (jnats j "ids")
  | "deltag" => .delTag (jstr j "name")
  | "vopen" => .viewOpen (jnat j "k")
  | "vrel" => .viewRelease (jnat j "k")
  | _ => .nop

def jl (l : List Nat) : Json := Json.arr (l.map (fun (n : Nat) => (n : Json))).toArray
def jsl (l : List String) : Json := Json.arr (l.map Json.str).toArray

def tagJson (n : String) (t : Tag) : Json :=
  Json.mkObj [("name", n), ("def", t.defn), ("color", t.color), ("m", jl t.mat), ("u", jl t.unc),
    ("conv", jsl t.convs), ("refby", jsl t.refBy), ("main", jsl t.mainT), ("sub", jsl t.subT),
    ("mfeat", t.mfeat), ("sfeat", t.sfeat)]

def stJson (s : St) : Json :=
  Json.mkObj [
    ("tags", Json.arr (s.tags.map (fun (n, t) => tagJson n t)).toArray),
    ("idx", jl s.idx),
    ("files", Json.arr (s.used.map (fun (o, n) =>
        Json.mkObj [("ord", o), ("ids", jl ((nget s.files o).getD [])), ("use", n)])).toArray),
    ("next", s.next), ("all", s.all), ("queue", jsl s.queue),
    ("merge", s.merge), ("tag", s.tag), ("convert", s.convert),
    ("unm", s.unm), ("nrec", s.nrec), ("upd", jl s.upd), ("rst", jl s.rst), ("add", jl s.add),
    ("toconv", Json.mkObj (s.toconv.map (fun (c, ids) => (c, jl ids)))),
    ("cached", Json.mkObj (s.cached.map (fun (c, ids) => (c, jl ids)))),
    ("convs", jsl s.convs), ("pcaps", jsl s.pcaps),
    ("diverged", s.diverged), ("badchoice", s.badChoice)]

def resStr : Res → String
  | .ok => "ok" | .err => "err" | .none => "none"

/-- sub-events of a `settle` event are the values of keys sub000, sub001, … in order -/
def subEvents (j : Json) : List Json :=
  match j with
  | .obj kvs => (kvs.toList.filter (fun (k, _) => k.startsWith "sub")).map (·.2)
  | _ => []

def stepLine (s : St) (line : String) : St × String :=
  match Json.parse line with
  | .error e => (s, "{\"error\":" ++ (Json.str e).compress ++ "}")
  | .ok j =>
    if jstr j "op" == "settle" then
      let (s, subs) := (subEvents j).foldl (fun (acc : St × List Json) sj =>
        let (s', _) := step acc.1 (toEv sj) (started sj)
        (s', acc.2 ++ [stJson s'])) (s, [])
      (s, (Json.mkObj [("res", "none"), ("st", stJson s), ("subs", Json.arr subs.toArray)]).compress)
    else
      let (s', r) := step s (toEv j) (started j)
      (s', (Json.mkObj [("res", resStr r), ("st", stJson s')]).compress)

/-- initial state: the converters found at start-up are given on the command line -/
def init (convs : List String) : St :=
  { convs := convs, toconv := convs.map (fun c => (c, [])), cached := convs.map (fun c => (c, [])) }

def main (convs : List String) : IO Unit := runLines (init convs) stepLine

end Pk.Driver.Mgr
