/-
  `pkmodel c07`: model side of the C07 correspondence check (merging index files is invisible).
  Same register machine as C01; the C07 cases use its `merge` and `eqv` ops.
-/
import Pk.Driver.Index

namespace Pk.Driver.C07
def main : IO Unit := Pk.Driver.Index.main
end Pk.Driver.C07
