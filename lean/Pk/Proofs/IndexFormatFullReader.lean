/-
  What the reopened file of a writer holds (glue for the full C01 statements).
-/
import Pk.Proofs.IndexFormatFullPackets2
namespace Pk.Index
open Pk Pk.Bytes

theorem addImports_mem (rs : List SrcRef) : ∀ (imps : List ImportKey) (k : ImportKey), k ∈ addImports imps rs →
    k ∈ imps ∨ ∃ r ∈ rs, r.key = k := by
  induction rs with
  | nil => intro imps k h; exact Or.inl (by simpa [addImports] using h)
  | cons r rs ih =>
    intro imps k h
    simp only [addImports] at h
    rcases ih _ k h with h1 | ⟨r', hr', rfl⟩
    · split at h1
      · exact Or.inl h1
      · simp at h1
        rcases h1 with h1 | rfl
        · exact Or.inl h1
        · exact Or.inr ⟨r, by simp, rfl⟩
    · exact Or.inr ⟨r', by simp [hr'], rfl⟩

/-- every file name of the import table is the file name of a source reference of an added stream -/
theorem addAll_import_files (P : Bytes → Prop) (ss : List StreamIn) : ∀ (w w' : Writer),
    (∀ s ∈ ss, ∀ p ∈ s.packets, ∀ ref ∈ p.refs, P ref.file) → (∀ k ∈ w.imports, P k.1) →
    w.addAll ss = some w' → ∀ k ∈ w'.imports, P k.1 := by
  induction ss with
  | nil => intro w w' _ hw h; simp [Writer.addAll] at h; subst h; exact hw
  | cons s ss ih =>
    intro w w' hP hw h
    simp only [Writer.addAll] at h
    split at h
    · rename_i w1 h1
      refine ih w1 w' (fun x hx => hP x (by simp [hx])) ?_ h
      obtain ⟨himp, _⟩ := addStream_spec2 w w1 s h1
      intro k hk
      rw [himp] at hk
      rcases addImports_mem _ _ _ hk with h2 | ⟨r, hr, rfl⟩
      · exact hw k h2
      · simp only [List.mem_flatten, List.mem_map] at hr
        obtain ⟨l, ⟨p, hp, rfl⟩, hr⟩ := hr
        exact hP s (by simp) p hp r (by simpa [PacketIn.pmds] using hr)
    · simp at h

/-- sections of the reopened file (without the import table) -/
theorem reader_sections0 (w : Writer) (r : Reader) (hr : newReader w.finalize = .ok r) :
    r.f.streams = w.streams ∧ r.f.packets = w.packets ∧ r.f.data = w.blobs.flatten ∧ r.f.ref = w.ref := by
  obtain ⟨hfile, _, _, _, _⟩ := newReader_ok _ r hr
  exact ⟨by rw [hfile]; rfl, by rw [hfile]; rfl, by rw [hfile]; rfl, by rw [hfile]; rfl⟩

/-- sections of the reopened file -/
theorem reader_sections (w : Writer) (r : Reader) (hr : newReader w.finalize = .ok r)
    (hn : ∀ k ∈ w.imports, NoNul k.1) :
    r.f.streams = w.streams ∧ r.f.packets = w.packets ∧ r.f.data = w.blobs.flatten ∧ r.f.ref = w.ref ∧
    r.imports = w.imports := by
  obtain ⟨hfile, _, _, _, himp⟩ := newReader_ok _ r hr
  refine ⟨by rw [hfile]; rfl, by rw [hfile]; rfl, by rw [hfile]; rfl, by rw [hfile]; rfl, ?_⟩
  rw [himp, readImports_finalize w hn]

end Pk.Index
