/-
  Helper lemmas for C17 (bitmask containers).  Property theorems are in Pk/Props/C17.lean.
-/
import Pk.Model.Bits

namespace Pk.Proofs.Bits
open Pk.Bits

end Pk.Proofs.Bits
