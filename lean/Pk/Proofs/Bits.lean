/-
  Helper lemmas for C17 (bitmask containers): word-level facts shared by Long and Short.
  Property theorems are in Pk/Props/C17.lean.
-/
import Pk.Model.Bits

set_option linter.unusedSimpArgs false

namespace Pk.Proofs.Bits
open Pk.Bits

theorem getLsbD_bitW (b i : Nat) (hb : b < 64) : (Long.bitW b).getLsbD i = decide (i = b) := by
  simp [Long.bitW, BitVec.getLsbD_shiftLeft]
  by_cases h : i = b
  · subst h; simp; omega
  · simp [h]; omega


theorem getLsbD_low (bit i : Nat) (hb : bit < 64) :
    ((1#64 <<< bit) - 1#64).getLsbD i = decide (i < bit) := by
  have : (1#64 <<< bit) - 1#64 = BitVec.ofNat 64 (2^bit - 1) := by
    apply BitVec.eq_of_toNat_eq
    have h2 : 2^bit < 2^64 := Nat.pow_lt_pow_right (by omega) hb
    have h3 : 0 < 2^bit := Nat.two_pow_pos _
    simp [BitVec.toNat_sub, BitVec.shiftLeft_eq, Nat.shiftLeft_eq, Nat.mod_eq_of_lt h2]
    omega
  rw [this]
  simp [BitVec.getLsbD_ofNat, Nat.testBit_two_pow_sub_one]
  omega

theorem injectWord_getLsbD (m : W) (bit : Nat) (v : Bool) (i : Nat) (hb : bit < 64) (hi : i < 64) :
    (Long.injectWord m bit v).getLsbD i =
      if i < bit then m.getLsbD i else if i = bit then v else m.getLsbD (i - 1) := by
  unfold Long.injectWord
  simp only []
  cases v <;>
  simp only [BitVec.getLsbD_or, BitVec.getLsbD_and, BitVec.getLsbD_not, BitVec.getLsbD_shiftLeft, getLsbD_low _ _ hb, if_true, if_false, Bool.false_eq_true, BitVec.getLsbD_one] <;>
  by_cases h1 : i < bit <;> by_cases h2 : i = bit <;> simp [h1, h2, hi] <;> (try omega)
  all_goals
    have e1 : decide (i = 0) = false := by simp; omega
    have e2 : decide (i - 1 < 64) = true := by simp; omega
    have e3 : decide (i - 1 < bit) = false := by simp; omega
    have e4 : decide (i - bit = 0) = false := by simp; omega
    simp [e1, e2, e3, e4]

theorem extractWord_getLsbD (m : W) (bit : Nat) (i : Nat) (hb : bit < 64) (hi : i < 64) :
    (Short.extractWord m bit).getLsbD i =
      if i < bit then m.getLsbD i else m.getLsbD (i + 1) := by
  unfold Short.extractWord
  simp only [BitVec.getLsbD_or, BitVec.getLsbD_and, BitVec.getLsbD_not, BitVec.getLsbD_ushiftRight, getLsbD_low _ _ hb]
  by_cases h1 : i < bit <;> simp [h1, hi]
  rw [Nat.add_comm]

theorem len64_zero : Long.len64 0#64 = 0 := by simp [Long.len64, Nat.log2_zero]

theorem toNat_ne_zero {w : W} (h : w ≠ 0#64) : w.toNat ≠ 0 := by
  intro h'; apply h; apply BitVec.eq_of_toNat_eq; simpa using h'

theorem len64_of_ne {w : W} (h : w ≠ 0#64) : Long.len64 w = Nat.log2 w.toNat + 1 := by
  simp [Long.len64, h]

theorem len64_eq_zero (w : W) : Long.len64 w = 0 ↔ w = 0#64 := by
  constructor
  · intro h; by_cases hw : w = 0#64
    · exact hw
    · rw [len64_of_ne hw] at h; omega
  · intro h; subst h; exact len64_zero

theorem len64_le (w : W) : Long.len64 w ≤ 64 := by
  by_cases hw : w = 0#64
  · subst hw; simp [len64_zero]
  · rw [len64_of_ne hw]
    have := (Nat.log2_lt (toNat_ne_zero hw)).2 w.isLt
    omega

theorem getLsbD_of_len64_le (w : W) (i : Nat) (h : Long.len64 w ≤ i) : w.getLsbD i = false := by
  by_cases hw : w = 0#64
  · subst hw; simp
  · rw [len64_of_ne hw] at h
    rw [BitVec.getLsbD, Nat.testBit_lt_two_pow]
    exact Nat.lt_of_lt_of_le (Nat.lt_log2_self) (Nat.pow_le_pow_right (by omega) h)

theorem getLsbD_len64_pred {w : W} (hw : w ≠ 0#64) : w.getLsbD (Long.len64 w - 1) = true := by
  rw [len64_of_ne hw, BitVec.getLsbD]; simpa using Nat.testBit_log2 (toNat_ne_zero hw)

theorem countP_range_add (p : Nat → Bool) (a b : Nat) :
    (List.range (a + b)).countP p = (List.range a).countP p + (List.range b).countP (fun i => p (a + i)) := by
  rw [List.range_add, List.countP_append, List.countP_map]; rfl

theorem word_eq_zero_iff (w : W) : w = 0#64 ↔ ∀ i, i < 64 → w.getLsbD i = false := by
  constructor
  · intro h; subst h; simp
  · intro h; apply BitVec.eq_of_getLsbD_eq; intro i hi; simp [h i hi]

theorem word_ext {a b : W} (h : ∀ i, i < 64 → a.getLsbD i = b.getLsbD i) : a = b :=
  BitVec.eq_of_getLsbD_eq h

/-- setting the bits `lo, lo+1, …, lo+n-1` one after the other yields the interval (used for the
    `mk` operation of the word-based kinds in `Pk.Props.C17.longRange` / `shortRange`). -/
theorem foldl_set_range {α : Type} (set : α → Nat → α) (isSet : α → Nat → Bool)
    (hset : ∀ s b x, isSet (set s b) x = (x == b || isSet s x)) (init : α) (lo n x : Nat) :
    isSet ((List.range n).foldl (fun s i => set s (lo + i)) init) x
      = (decide (lo ≤ x) && decide (x < lo + n) || isSet init x) := by
  induction n with
  | zero => simp; intro h; omega
  | succ n ih =>
    rw [List.range_succ, List.foldl_append]
    simp only [List.foldl_cons, List.foldl_nil, hset, ih]
    by_cases h1 : x = lo + n
    · subst h1; simp
    · have e : decide (x < lo + (n + 1)) = decide (x < lo + n) := decide_eq_decide.mpr (by omega)
      rw [e]; simp [h1]

end Pk.Proofs.Bits
