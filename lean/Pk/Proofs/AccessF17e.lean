/-
  Witness of the recorded finding F17e (property C20) in the abstract execution model: the reader
  goroutine of a pcap-over-IP endpoint (g2) starts the goroutine that waits for cancellation (g3), then
  reads the connection's file (os.File.Fd inside pcap.OpenOfflineFile, t3); g3 closes the file (t4).
  No happens-before edge leads from the read to the close.
-/
import Pk.Model.Access
import Pk.Proofs.Access

namespace Pk.Proofs.Access
open Pk.Access

/-- "field" 0 = the os.File of the endpoint connection: read by the reader, written (closed) by the canceller -/
def eTable : Table := [⟨0, .worker, false, []⟩, ⟨0, .worker, true, []⟩]

def eHist : History :=
  [⟨4, 3, .worker, .acc 0 true⟩, ⟨3, 2, .worker, .acc 0 false⟩, ⟨2, 2, .worker, .spawn 3⟩,
   ⟨1, 1, .loop, .spawn 2⟩, ⟨0, 0, .init, .spawn 1⟩]

theorem eHist_exec : Exec eTable eHist := by
  simp [Exec, eHist, eTable, lockOK, accOK, holds, modeGe]

theorem eHist_threads : Threads eHist := by
  constructor
  case main_ctx => decide
  case ctx_const => decide
  case pre_first => decide
  case no_spawn_pre =>
    intro s hs c _
    have : ∀ s ∈ eHist, s.ctx ≠ .pre := by decide
    exact this s hs
  case born => decide
  case init_done => decide
  case watcher_children => decide
  case one_loop => decide
  case serial_jobs =>
    intro a ha b _ hs
    exfalso; revert a; decide

theorem eHist_hb_inv {x y : Event} (hb : HB eHist x y) : y.g = 3 → x.g = 3 ∨ x.t ≤ 2 := by
  induction hb with
  | po _ _ _ hg => intro h; left; omega
  | @start a b c ha hb hlt hk hg =>
    intro h
    rw [h] at hg; subst hg
    have : ∀ a ∈ eHist, a.kind = .spawn 3 → a.t ≤ 2 := by decide
    exact Or.inr (this a ha hk)
  | @msg a b m ha hb hlt hk _ =>
    exfalso
    simp only [eHist, List.mem_cons, List.mem_nil_iff, or_false] at ha
    rcases ha with rfl | rfl | rfl | rfl | rfl <;> cases hk
  | @lock a b l m1 m2 ha hb hlt hk _ _ =>
    exfalso
    simp only [eHist, List.mem_cons, List.mem_nil_iff, or_false] at ha
    rcases ha with rfl | rfl | rfl | rfl | rfl <;> cases hk
  | @trans a b c h1 h2 ih1 ih2 =>
    intro h
    rcases ih2 h with g | t
    · exact ih1 g
    · have := hb_lt h1; right; omega

theorem eHist_race : Race eHist ⟨3, 2, .worker, .acc 0 false⟩ ⟨4, 3, .worker, .acc 0 true⟩ := by
  refine ⟨by decide, by decide, by decide, ⟨0, false, true, rfl, rfl, Or.inr rfl⟩, ?_⟩
  intro hb
  have := eHist_hb_inv hb rfl
  revert this; decide

end Pk.Proofs.Access
