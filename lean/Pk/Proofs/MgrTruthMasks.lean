/- Helper lemmas for C06Reach: what the events record in the during-job masks while a tagging job is in flight. -/
import Pk.Proofs.MgrTagsStep
import Pk.Proofs.MgrSettleFrame
import Pk.Proofs.MgrTruthFrame
import Pk.Proofs.MgrTruthDrop
namespace Pk.Proofs.MgrTruth
open Pk.Mgr Pk.Proofs.MgrTags

namespace Masks
open Pk.Proofs.MgrSettle

/-- the flag, the during-job masks, the id bound and the converter list -/
def mp (s : St) : Bool × IdSet × IdSet × IdSet × Nat × List String :=
  (s.tag, s.upd, s.rst, s.add, s.all, s.convs)

theorem mp_eq {s s' : St} (h1 : s'.tag = s.tag) (h2 : s'.upd = s.upd) (h3 : s'.rst = s.rst)
    (h4 : s'.add = s.add) (h5 : s'.all = s.all) (h6 : s'.convs = s.convs) : mp s' = mp s := by
  unfold mp; rw [h1, h2, h3, h4, h5, h6]

theorem mp_tag {s s' : St} (h : mp s' = mp s) : s'.tag = s.tag := congrArg (·.1) h
theorem mp_upd {s s' : St} (h : mp s' = mp s) : s'.upd = s.upd := congrArg (·.2.1) h
theorem mp_rst {s s' : St} (h : mp s' = mp s) : s'.rst = s.rst := congrArg (·.2.2.1) h
theorem mp_add {s s' : St} (h : mp s' = mp s) : s'.add = s.add := congrArg (·.2.2.2.1) h
theorem mp_all {s s' : St} (h : mp s' = mp s) : s'.all = s.all := congrArg (·.2.2.2.2.1) h
theorem mp_convs {s s' : St} (h : mp s' = mp s) : s'.convs = s.convs := congrArg (·.2.2.2.2.2) h

theorem release_mp (s : St) (fs : List Nat) : mp (release s fs) = mp s := by unfold release; frame
theorem startImport_mp (s : St) : mp (startImport s) = mp s := rfl
theorem startMerge_mp (s : St) : mp (startMerge s) = mp s := by
  apply mp_eq <;> (unfold startMerge; frame)
theorem startConverter_mp (s : St) : mp (startConverter s) = mp s := by
  apply mp_eq <;> (unfold startConverter; frame)
theorem inherit_mp (s : St) : mp (inherit s) = mp s := rfl
theorem invalidateTags_mp (s : St) (a b c : IdSet) : mp (invalidateTags s a b c) = mp s := rfl
theorem invalidateConverters_mp (s : St) (u : IdSet) : mp (invalidateConverters s u) = mp s := by
  unfold invalidateConverters; frame
theorem setTag_mp (s : St) (n : String) (t : Tag) : mp (setTag s n t) = mp s := rfl
theorem addRefBy_mp (s : St) (a b : String) : mp (addRefBy s a b) = mp s := by unfold addRefBy; frame
theorem delRefBy_mp (s : St) (a b : String) : mp (delRefBy s a b) = mp s := by unfold delRefBy; frame
theorem muAdd_mp (t : Tag) (s : St) (a : List Nat) : mp (muAdd t s a).2 = mp s := by unfold muAdd; frame
theorem muFin_mp (s : St) (n : String) (u : IdSet) : mp (muFin s n u) = mp s := by unfold muFin; frame
theorem idQueue_mp (s : St) : mp (idQueue s) = mp s := by unfold idQueue; split <;> rfl

theorem foldl_mp {β} (f : St → β → St) (h : ∀ s b, mp (f s b) = mp s) (l : List β) (s : St) :
    mp (l.foldl f s) = mp s :=
  foldl_frame' h rfl

theorem uqRefs_mp (s : St) (name : String) (b a : List String) : mp (uqRefs s name b a) = mp s := by
  unfold uqRefs
  rw [foldl_mp _ (fun s r => addRefBy_mp s r name), foldl_mp _ (fun s r => delRefBy_mp s r name)]

theorem startTagging_of_tag (s : St) (c : Option String) (h : s.tag = true) : startTagging s c = s := by
  unfold startTagging; simp [h]

theorem jobTail_mp (s : St) (st : Started) (h : s.tag = true) : mp (jobTail s st) = mp s := by
  unfold jobTail
  rw [startMerge_mp, startConverter_mp, startTagging_of_tag s _ h]

theorem invDuring_of_tag (s : St) (ids : IdSet) (h : s.tag = true) :
    invalidatedDuringTaggingJob s ids = { s with rst := union s.rst ids } := by
  unfold invalidatedDuringTaggingJob; simp [h]

/-! the ids a mark edit makes pending -/
theorem muAdd_unc (t : Tag) (s : St) (a : List Nat) (x : Nat) :
    x ∈ (muAdd t s a).1.unc ↔ x ∈ t.unc ∨ (x ∈ a ∧ x ∉ t.mat) := by
  unfold muAdd
  split
  · rename_i h; simp only [List.isEmpty_iff] at h; simp [h]
  · simp only []
    split <;> simp only [mem_union, mem_muFresh]

theorem muDel_unc (t : Tag) (d : List Nat) (x : Nat) :
    x ∈ (muDel t d).unc ↔ x ∈ t.unc ∨ (x ∈ d ∧ x ∈ t.mat) := by
  unfold muDel
  split
  · rename_i h; simp only [List.isEmpty_iff] at h; simp [h]
  · simp only []
    split <;> simp only [mem_union, List.mem_filter, List.contains_iff_mem]

/-- what a mark edit records in `rst` while a job is in flight -/
theorem markUpdate_rst (s : St) (name : String) (a d : List Nat) (t : Tag) (hg : sget s.tags name = some t)
    (ht : s.tag = true) :
    (markUpdate s name a d).2 = Res.ok ∧ (markUpdate s name a d).1.tag = true ∧
    (markUpdate s name a d).1.rst = union s.rst (muDel (muAdd t s a).1 d).unc := by
  rw [markUpdate_eq, hg]
  simp only []
  have h0 : mp (inherit (setTag (muAdd t s a).2 name (muDel (muAdd t s a).1 d))) = mp s := by
    rw [inherit_mp, setTag_mp, muAdd_mp]
  have ht0 := (mp_tag h0).trans ht
  rw [invDuring_of_tag _ _ ht0]
  refine ⟨trivial, ?_, ?_⟩
  · rw [mp_tag (muFin_mp _ _ _)]; exact ht0
  · rw [mp_rst (muFin_mp _ _ _)]
    show union (inherit (setTag (muAdd t s a).2 name (muDel (muAdd t s a).1 d))).rst _ = _
    rw [mp_rst h0]

theorem markTail_rst (p : St × Res) (st : Started) (h : p.1.tag = true) :
    (markTail p st).1.rst = p.1.rst := by
  unfold markTail
  show (startConverter (startTagging p.1 st.tag)).rst = _
  rw [mp_rst (startConverter_mp _), startTagging_of_tag _ _ h]

/-! the fold of `convertDone` -/
theorem cdMark_convs (s : St) (p : String × IdSet) : (cdMark s p).convs = s.convs := by
  unfold cdMark; split <;> rfl
theorem cdMark_tag (s : St) (p : String × IdSet) : (cdMark s p).tag = s.tag := by
  unfold cdMark; split <;> rfl
theorem cdMark_upd_mono (s : St) (p : String × IdSet) (id : Nat) (h : id ∈ s.upd) : id ∈ (cdMark s p).upd := by
  unfold cdMark; split
  · exact h
  · simp [h]
theorem cdMark_upd_new (s : St) (p : String × IdSet) (hp : p.1 ∈ s.convs) (id : Nat) (h : id ∈ p.2) :
    id ∈ (cdMark s p).upd := by
  unfold cdMark
  simp [hp, h]

theorem foldl_cdMark_tag (l : List (String × IdSet)) (s : St) : (l.foldl cdMark s).tag = s.tag :=
  foldl_frame' (g := (·.tag)) (fun s x => cdMark_tag s x) rfl

theorem foldl_cdMark_upd_mono (l : List (String × IdSet)) (s : St) (id : Nat) (h : id ∈ s.upd) :
    id ∈ (l.foldl cdMark s).upd := by
  induction l generalizing s with
  | nil => exact h
  | cons q r ih => simp only [List.foldl_cons]; exact ih _ (cdMark_upd_mono s q id h)

theorem foldl_cdMark_upd (l : List (String × IdSet)) (s : St) (p : String × IdSet) (hp : p ∈ l)
    (hc : p.1 ∈ s.convs) (id : Nat) (h : id ∈ p.2) : id ∈ (l.foldl cdMark s).upd := by
  induction l generalizing s with
  | nil => cases hp
  | cons q r ih =>
    simp only [List.foldl_cons]
    rcases List.mem_cons.1 hp with e | e
    · subst e
      exact foldl_cdMark_upd_mono r _ id (cdMark_upd_new s p hc id h)
    · exact ih _ e (by rw [cdMark_convs]; exact hc)

end Masks
open Masks

theorem importDone_masks (s : St) (p u : Nat) (c : List (Nat × List Nat)) (a b d : List Nat) (st : Started)
    (jn : Nat) (held : List Nat) (hj : s.jImport = some (jn, held)) (hc : c ≠ []) (ht : s.tag = true) :
    (∀ id, id ∈ a → id ∈ (step s (.importDone p u c a b d) st).1.upd) ∧
    (∀ id, id ∈ b → id ∈ (step s (.importDone p u c a b d) st).1.rst) ∧
    (∀ id, id ∈ d → id ∈ (step s (.importDone p u c a b d) st).1.add) := by
  rw [step_importDone_eq, hj]
  simp only []
  have hce : c.isEmpty = false := by cases c <;> simp_all
  have hx : mp (release { s with all := jn + u, jImport := none } held) = mp { s with all := jn + u, jImport := none } :=
    release_mp _ _
  generalize release { s with all := jn + u, jImport := none } held = X at hx ⊢
  have hA : mp (idApply X (jn + u) c (ofList a) (ofList b) (ofList d)) =
      mp (idCreated X (jn + u) c (ofList a) (ofList b) (ofList d)) := by
    unfold idApply
    simp only [hce, Bool.false_eq_true, if_false]
    rw [invalidateConverters_mp, invalidateConverters_mp, invalidateTags_mp]
  generalize idApply X (jn + u) c (ofList a) (ofList b) (ofList d) = Y at hA ⊢
  have hY : mp { Y with queue := Y.queue.drop p } = mp Y := rfl
  generalize ({ Y with queue := Y.queue.drop p } : St) = Y' at hY ⊢
  have hQ := idQueue_mp Y'
  have htag : (idQueue Y').tag = true := by
    rw [mp_tag hQ, mp_tag hY, mp_tag hA]
    show X.tag = true
    rw [mp_tag hx]; exact ht
  have hJ := jobTail_mp (idQueue Y') st htag
  refine ⟨fun id h => ?_, fun id h => ?_, fun id h => ?_⟩
  · rw [mp_upd hJ, mp_upd hQ, mp_upd hY, mp_upd hA]
    show id ∈ union X.upd (ofList a)
    simp [h]
  · rw [mp_rst hJ, mp_rst hQ, mp_rst hY, mp_rst hA]
    show id ∈ union X.rst (ofList b)
    simp [h]
  · rw [mp_add hJ, mp_add hQ, mp_add hY, mp_add hA]
    show id ∈ union X.add (ofList d)
    simp [h]

theorem convertDone_masks (s : St) (st : Started) (sets : List (String × IdSet)) (held : List Nat)
    (hj : s.jConv = some (sets, held)) (ht : s.tag = true) :
    ∀ p, p ∈ sets → p.1 ∈ s.convs → ∀ id, id ∈ p.2 → id ∈ (step s .convertDone st).1.upd := by
  intro p hp hc id hid
  rw [step_convertDone_eq, hj]
  simp only []
  have h0 : id ∈ (sets.foldl cdMark { s with convert := false, jConv := none }).upd :=
    foldl_cdMark_upd sets { s with convert := false, jConv := none } p hp hc id hid
  have ht0 : (sets.foldl cdMark { s with convert := false, jConv := none }).tag = true := by
    rw [foldl_cdMark_tag]; exact ht
  generalize sets.foldl cdMark { s with convert := false, jConv := none } = Z at h0 ht0 ⊢
  have ht1 : (inherit Z).tag = true := ht0
  rw [mp_upd (release_mp _ _), mp_upd (startConverter_mp _), startTagging_of_tag _ _ ht1]
  exact h0

theorem updQuery_masks (s : St) (name defn : String) (f : Facts) (st : Started)
    (hok : (step s (.updQuery name defn f) st).2 = Res.ok) (ht : s.tag = true) :
    ∀ id, id < s.all → id ∈ (step s (.updQuery name defn f) st).1.rst := by
  revert hok
  rw [step_updQuery_eq]
  repeat' split
  all_goals first | (intro h; cases h; done) | skip
  intro _ id hid
  rename_i t _ _ _ _ _
  show id ∈ (uqApply s name t (uqTag2 (uqTag defn f) t s.all) st).rst
  unfold uqApply uqInv
  have h0 : mp (inherit (setTag (uqRefs s name t.refs (uqTag2 (uqTag defn f) t s.all).refs) name
      (uqTag2 (uqTag defn f) t s.all))) = mp s := by
    rw [inherit_mp, setTag_mp, uqRefs_mp]
  generalize inherit (setTag (uqRefs s name t.refs (uqTag2 (uqTag defn f) t s.all).refs) name
      (uqTag2 (uqTag defn f) t s.all)) = Z at h0 ⊢
  have htz : Z.tag = true := (mp_tag h0).trans ht
  rw [invDuring_of_tag _ _ htz]
  rw [mp_rst (startConverter_mp _), startTagging_of_tag _ _ (show ({ Z with rst := union Z.rst (rangeSet Z.all) } : St).tag = true from htz)]
  show id ∈ union Z.rst (rangeSet Z.all)
  rw [mp_all h0]
  simp [hid]

theorem markAdd_masks (s : St) (name : String) (ids : List Nat) (st : Started) (t : Tag)
    (hok : (step s (.markAdd name ids) st).2 = Res.ok) (hne : ids ≠ []) (hg : sget s.tags name = some t)
    (ht : s.tag = true) :
    ∀ id, (id ∈ t.unc ∨ (id ∈ ids ∧ id ∉ t.mat)) → id ∈ (step s (.markAdd name ids) st).1.rst := by
  have hie : ids.isEmpty = false := by cases ids <;> simp_all
  revert hok
  rw [step_markAdd_eq, hg]
  simp only [hie, Bool.false_eq_true, if_false]
  repeat' split
  all_goals first | (intro h; cases h; done) | skip
  intro _ id hid
  obtain ⟨_, h2, h3⟩ := markUpdate_rst s name ids [] t hg ht
  rw [markTail_rst _ _ h2, h3]
  simp only [mem_union, muDel_unc, muAdd_unc]
  simp [hid]

theorem markDel_masks (s : St) (name : String) (ids : List Nat) (st : Started) (t : Tag)
    (hok : (step s (.markDel name ids) st).2 = Res.ok) (hne : ids ≠ []) (hg : sget s.tags name = some t)
    (ht : s.tag = true) :
    ∀ id, (id ∈ t.unc ∨ (id ∈ ids ∧ id ∈ t.mat)) → id ∈ (step s (.markDel name ids) st).1.rst := by
  have hie : ids.isEmpty = false := by cases ids <;> simp_all
  revert hok
  rw [step_markDel_eq, hg]
  simp only [hie, Bool.false_eq_true, if_false]
  repeat' split
  all_goals first | (intro h; cases h; done) | skip
  intro _ id hid
  obtain ⟨_, h2, h3⟩ := markUpdate_rst s name [] ids t hg ht
  rw [markTail_rst _ _ h2, h3]
  simp only [mem_union, muDel_unc, muAdd_unc, muAdd_mat]
  rcases hid with h | ⟨h1, h2⟩ <;> simp [*]

/-! ## events that drop converter output (`updConv` / `delTag` detaching a converter from its last tag) -/

theorem union_nil_iff (a b : IdSet) : union a b = [] ↔ a = [] ∧ b = [] := by
  simp only [List.eq_nil_iff_forall_not_mem, mem_union]
  constructor
  · intro h; exact ⟨fun x hx => h x (Or.inl hx), fun x hx => h x (Or.inr hx)⟩
  · rintro ⟨h1, h2⟩ x (hx | hx)
    · exact h1 x hx
    · exact h2 x hx

theorem othersOf_nil_aux (n c : String) (T : List (String × Tag)) (acc : IdSet) :
    T.foldl (fun acc (p : String × Tag) => if p.1 != n && p.2.convs.contains c then union acc p.2.mat else acc) acc = [] ↔
      acc = [] ∧ ∀ p ∈ T, p.1 ≠ n → c ∈ p.2.convs → p.2.mat = [] := by
  induction T generalizing acc with
  | nil => simp
  | cons q T ih =>
    simp only [List.foldl_cons, ih, List.mem_cons, forall_eq_or_imp]
    by_cases h : (q.1 != n && q.2.convs.contains c) = true
    · simp only [h, if_true, union_nil_iff]
      simp only [Bool.and_eq_true, bne_iff_ne, ne_eq, List.contains_iff_mem] at h
      constructor
      · rintro ⟨⟨h1, h2⟩, h3⟩; exact ⟨h1, fun _ _ => h2, h3⟩
      · rintro ⟨h1, h2, h3⟩; exact ⟨⟨h1, h2 h.1 h.2⟩, h3⟩
    · simp only [h]
      simp only [Bool.and_eq_true, bne_iff_ne, ne_eq, List.contains_iff_mem, not_and] at h
      constructor
      · rintro ⟨h1, h3⟩; exact ⟨h1, fun a b => absurd b (h a), h3⟩
      · rintro ⟨h1, _, h3⟩; exact ⟨h1, h3⟩

/-- no OTHER tag with converter `c` attached matches anything -/
theorem othersOf_nil_iff (T : List (String × Tag)) (n c : String) :
    othersOf T n c = [] ↔ ∀ p ∈ T, p.1 ≠ n → c ∈ p.2.convs → p.2.mat = [] := by
  unfold othersOf
  rw [othersOf_nil_aux]
  simp

theorem sget_mem_pair {α} (l : List (String × α)) (k : String) (v : α) (h : sget l k = some v) : (k, v) ∈ l := by
  induction l with
  | nil => simp at h
  | cons p r ih =>
    obtain ⟨k2, v2⟩ := p
    rw [sget_cons] at h
    split at h
    · rename_i e; subst e; cases h; exact List.mem_cons_self
    · exact List.mem_cons_of_mem _ (ih h)

theorem mem_sins_cases {α} (k : String) (v : α) (l : List (String × α)) (x : String × α)
    (h : x ∈ sins k v l) : x = (k, v) ∨ x ∈ l := by
  induction l with
  | nil => simpa [sins] using h
  | cons a l ih =>
    obtain ⟨ak, av⟩ := a
    unfold sins at h
    split at h
    · simpa using h
    · split at h
      · simp only [List.mem_cons] at h ⊢
        rcases h with h | h
        · exact Or.inl h
        · exact Or.inr (Or.inr h)
      · simp only [List.mem_cons] at h ⊢
        rcases h with h | h
        · exact Or.inr (Or.inl h)
        · rcases ih h with h | h
          · exact Or.inl h
          · exact Or.inr (Or.inr h)

/-- every entry of `T` other than `name` has the converters and the matches of an entry of `T0` other than `name` -/
def Src (name : String) (T0 T : List (String × Tag)) : Prop :=
  ∀ p ∈ T, p.1 ≠ name → ∃ q ∈ T0, q.1 ≠ name ∧ q.2.convs = p.2.convs ∧ q.2.mat = p.2.mat

theorem Src.refl (name : String) (T : List (String × Tag)) : Src name T T :=
  fun p hp hn => ⟨p, hp, hn, rfl, rfl⟩

theorem src_sins_name {name : String} {T0 T : List (String × Tag)} (h : Src name T0 T) (t' : Tag) :
    Src name T0 (sins name t' T) := by
  intro p hp hn
  rcases mem_sins_cases _ _ _ _ hp with rfl | hp
  · exact absurd rfl hn
  · exact h p hp hn

theorem src_sins_rel {name m : String} {T0 T : List (String × Tag)} {t t' : Tag} (h : Src name T0 T)
    (hm : sget T m = some t) (hc : t'.convs = t.convs) (hmat : t'.mat = t.mat) : Src name T0 (sins m t' T) := by
  intro p hp hn
  rcases mem_sins_cases _ _ _ _ hp with rfl | hp
  · obtain ⟨q, hq, h1, h2, h3⟩ := h (m, t) (sget_mem_pair _ _ _ hm) hn
    exact ⟨q, hq, h1, h2.trans hc.symm, h3.trans hmat.symm⟩
  · exact h p hp hn

theorem src_map {name : String} {T0 T : List (String × Tag)} (h : Src name T0 T) (f : String → Tag → Tag)
    (hf : ∀ k t, (f k t).convs = t.convs ∧ (f k t).mat = t.mat) :
    Src name T0 (T.map fun p => (p.1, f p.1 p.2)) := by
  intro p hp hn
  obtain ⟨p0, hp0, rfl⟩ := List.mem_map.mp hp
  obtain ⟨q, hq, h1, h2, h3⟩ := h p0 hp0 hn
  exact ⟨q, hq, h1, h2.trans (hf _ _).1.symm, h3.trans (hf _ _).2.symm⟩

theorem inheritOne_convs_mat (all : Nat) (T : List (String × Tag)) (t : Tag) :
    (inheritOne all T t).convs = t.convs ∧ (inheritOne all T t).mat = t.mat := by
  unfold inheritOne
  split
  · exact ⟨rfl, rfl⟩
  · split <;> exact ⟨rfl, rfl⟩

theorem passStep_src (all : Nat) (name : String) (T0 : List (String × Tag)) (acc) (nt : String × Tag)
    (h : Src name T0 acc.1) : Src name T0 (passStep all acc nt).1 := by
  unfold passStep
  split
  · exact h
  · split
    · exact h
    · rename_i t ht
      split
      · exact src_sins_rel h ht (inheritOne_convs_mat _ _ _).1 (inheritOne_convs_mat _ _ _).2
      · exact h

theorem inherit_src {name : String} {T0 : List (String × Tag)} (s : St) (h : Src name T0 s.tags) :
    Src name T0 (inherit s).tags := by
  obtain ⟨res, h, _⟩ := inheritLoop_inv s.all (fun acc => Src name T0 acc.1)
    (passStep_src s.all name T0) (s.tags.length + 1) s.tags [] h
  exact h

theorem odF_convs_mat (all : Nat) (t : Tag) : (odF all t).convs = t.convs ∧ (odF all t).mat = t.mat := by
  unfold odF; split <;> exact ⟨rfl, rfl⟩

/-- the tag table after an `outputDropped` that acts -/
theorem outputDropped_tags (Z : St) (choice : Option String)
    (hp : Z.tags.any (fun nt => (nt.2.mfeat ||| nt.2.sfeat) &&& fData != 0) = true) :
    (outputDropped Z choice).tags =
      (inherit { Z with tags := Z.tags.map fun p => (p.1, odF Z.all p.2) }).tags := by
  rw [outputDropped_eq, if_pos hp]
  exact ((invalidatedDuring_same _ _).trans (startTagging_same _ _)).1

theorem outputDropped_idle (Z : St) (choice : Option String)
    (hp : ¬ Z.tags.any (fun nt => (nt.2.mfeat ||| nt.2.sfeat) &&& fData != 0) = true) :
    outputDropped Z choice = Z := by
  rw [outputDropped_eq, if_neg hp]

theorem outputDropped_src {name : String} {T0 : List (String × Tag)} (Z : St) (choice : Option String)
    (h : Src name T0 Z.tags) : Src name T0 (outputDropped Z choice).tags := by
  by_cases hp : Z.tags.any (fun nt => (nt.2.mfeat ||| nt.2.sfeat) &&& fData != 0) = true
  · rw [outputDropped_tags Z choice hp]
    apply inherit_src
    exact src_map h (fun _ t => odF Z.all t) (fun _ t => odF_convs_mat _ t)
  · rw [outputDropped_idle Z choice hp]; exact h

/-! the pieces of `detachConv` -/
def dcTag (tX : Tag) (c : String) : Tag := { tX with convs := tX.convs.filter (· != c) }
def dcOthers (X : St) (name c : String) (tX : Tag) : IdSet := othersOf (sins name (dcTag tX c) X.tags) name c
def dcBase (X : St) (name c : String) (tX : Tag) : St :=
  { X with tags := sins name (dcTag tX c) X.tags,
           toconv := sins c (inter ((sget X.toconv c).getD []) (dcOthers X name c tX)) X.toconv }

theorem detachConv_dc (X : St) (name c : String) (choice : Option String) (tX : Tag)
    (hx : sget X.tags name = some tX) :
    detachConv X name c choice =
      if (dcOthers X name c tX).isEmpty then
        outputDropped { dcBase X name c tX with cached := sins c [] X.cached } choice
      else dcBase X name c tX := by
  unfold detachConv
  rw [hx]
  rfl

theorem detachConv_src {name : String} {T0 : List (String × Tag)} (X : St) (c : String) (choice : Option String)
    (tX : Tag) (hx : sget X.tags name = some tX) (h : Src name T0 X.tags) :
    Src name T0 (detachConv X name c choice).tags := by
  rw [detachConv_dc X name c choice tX hx]
  split
  · exact outputDropped_src _ _ (src_sins_name h _)
  · exact src_sins_name h _

/-- the model's `others` at an intermediate state is empty when it is empty in the pre-state -/
theorem dcOthers_nil {name : String} {T0 : List (String × Tag)} (X : St) (c : String) (tX : Tag)
    (h : Src name T0 X.tags) (h0 : othersOf T0 name c = []) : dcOthers X name c tX = [] := by
  unfold dcOthers
  rw [othersOf_nil_iff] at h0 ⊢
  intro p hp hn hc
  obtain ⟨q, hq, h1, h2, h3⟩ := src_sins_name h (dcTag tX c) p hp hn
  rw [← h3]
  exact h0 q hq h1 (h2 ▸ hc)

theorem payload_any {T : List (String × Tag)} {n : String} {t : Tag} (hg : sget T n = some t) (hp : Payload t) :
    T.any (fun nt => (nt.2.mfeat ||| nt.2.sfeat) &&& fData != 0) = true := by
  rw [List.any_eq_true]
  exact ⟨(n, t), sget_mem_pair _ _ _ hg, by simpa [Payload] using hp⟩

theorem payload_of_attrs {t t' : Tag} (h : Attrs t' = Attrs t) (hp : Payload t) : Payload t' := by
  simp only [Attrs, Prod.mk.injEq] at h
  unfold Payload at hp ⊢
  rw [h.2.2.1, h.2.2.2.1]; exact hp

/-- a payload tag of the pre-state is a payload tag of every table with the same attributes -/
theorem payload_akeep {T0 T : List (String × Tag)} (hak : ∀ n, AKeep n T0 T)
    (hp : ∃ n t, sget T0 n = some t ∧ Payload t) : ∃ n t, sget T n = some t ∧ Payload t := by
  obtain ⟨n, t, hg, hpt⟩ := hp
  have := hak n
  unfold AKeep at this
  rw [hg] at this
  obtain ⟨t', h1, h2⟩ := Option.map_eq_some_iff.mp this
  exact ⟨n, t', h1, payload_of_attrs h2 hpt⟩

theorem dcBase_any (X : St) (name c : String) (tX : Tag) (hx : sget X.tags name = some tX)
    (hp : ∃ n t, sget X.tags n = some t ∧ Payload t) :
    (dcBase X name c tX).tags.any (fun nt => (nt.2.mfeat ||| nt.2.sfeat) &&& fData != 0) = true := by
  obtain ⟨n, t, hg, hpt⟩ := hp
  by_cases hn : name = n
  · subst hn
    rw [hx] at hg; cases hg
    exact payload_any (n := name) (t := dcTag tX c) (by simp [dcBase, sget_sins]) hpt
  · exact payload_any (n := n) (t := t) (by simp [dcBase, sget_sins, hn, hg]) hpt

/-- `outputDropped` while a tagging job runs: the flag stays, `rst` only grows, and if it acts every stream
    is recorded in `rst` -/
theorem outputDropped_rst (Z : St) (choice : Option String) (ht : Z.tag = true) :
    (outputDropped Z choice).tag = true ∧ (outputDropped Z choice).all = Z.all ∧
    (∀ id, id ∈ Z.rst → id ∈ (outputDropped Z choice).rst) ∧
    (Z.tags.any (fun nt => (nt.2.mfeat ||| nt.2.sfeat) &&& fData != 0) = true →
      ∀ id, id < Z.all → id ∈ (outputDropped Z choice).rst) := by
  by_cases hp : Z.tags.any (fun nt => (nt.2.mfeat ||| nt.2.sfeat) &&& fData != 0) = true
  · rw [outputDropped_eq, if_pos hp]
    generalize hW : inherit { Z with tags := Z.tags.map fun p => (p.1, odF Z.all p.2) } = W
    have h0 : mp W = mp Z := by rw [← hW]; rfl
    have htw : W.tag = true := (mp_tag h0).trans ht
    rw [invDuring_of_tag _ _ htw,
      startTagging_of_tag _ _ (show ({ W with rst := union W.rst (rangeSet Z.all) } : St).tag = true from htw)]
    refine ⟨htw, (mp_all h0 : W.all = Z.all), fun id h => ?_, fun _ id h => ?_⟩
    · show id ∈ union W.rst (rangeSet Z.all)
      rw [mp_rst h0]; simp [h]
    · show id ∈ union W.rst (rangeSet Z.all)
      simp [h]
  · rw [outputDropped_idle Z choice hp]
    exact ⟨ht, rfl, fun _ h => h, fun h => absurd h hp⟩

theorem detachConv_rst (X : St) (name c : String) (choice : Option String) (tX : Tag)
    (hx : sget X.tags name = some tX) (ht : X.tag = true) :
    (detachConv X name c choice).tag = true ∧ (detachConv X name c choice).all = X.all ∧
    (∀ id, id ∈ X.rst → id ∈ (detachConv X name c choice).rst) ∧
    (dcOthers X name c tX = [] → (∃ n t, sget X.tags n = some t ∧ Payload t) →
      ∀ id, id < X.all → id ∈ (detachConv X name c choice).rst) := by
  rw [detachConv_dc X name c choice tX hx]
  split
  · obtain ⟨h1, h2, h3, h4⟩ := outputDropped_rst { dcBase X name c tX with cached := sins c [] X.cached } choice ht
    exact ⟨h1, h2, h3, fun _ hp => h4 (dcBase_any X name c tX hx hp)⟩
  · rename_i hne
    exact ⟨ht, rfl, fun _ h => h, fun h0 => absurd (by rw [h0]; rfl) hne⟩

/-- the fold of `detachConv` calls of an `updConv` / `delTag` while a tagging job runs -/
theorem detachFold_rst (name : String) (choice : Option String) (T0 : List (String × Tag)) (all : Nat)
    (hname : ∃ t, sget T0 name = some t) (hp : ∃ n t, sget T0 n = some t ∧ Payload t)
    (L : List String) (X : St) (hall : X.all = all) (htag : X.tag = true)
    (hak : ∀ n, AKeep n T0 X.tags) (hsrc : Src name T0 X.tags) :
    (L.foldl (fun s c => detachConv s name c choice) X).tag = true ∧
    (L.foldl (fun s c => detachConv s name c choice) X).all = all ∧
    (∀ id, id ∈ X.rst → id ∈ (L.foldl (fun s c => detachConv s name c choice) X).rst) ∧
    ((∃ c, c ∈ L ∧ othersOf T0 name c = []) →
      ∀ id, id < all → id ∈ (L.foldl (fun s c => detachConv s name c choice) X).rst) := by
  induction L generalizing X with
  | nil => exact ⟨htag, hall, fun _ h => h, fun ⟨c, hc, _⟩ => by cases hc⟩
  | cons c L ih =>
    simp only [List.foldl_cons]
    obtain ⟨t0, ht0⟩ := hname
    obtain ⟨tX, hx⟩ : ∃ tX, sget X.tags name = some tX := by
      have := hak name
      unfold AKeep at this
      rw [ht0] at this
      obtain ⟨t', h1, _⟩ := Option.map_eq_some_iff.mp this
      exact ⟨t', h1⟩
    obtain ⟨s1, s2, s3, s4⟩ := detachConv_rst X name c choice tX hx htag
    have hak' : ∀ n, AKeep n T0 (detachConv X name c choice).tags :=
      fun n => (hak n).trans (detachConv_afr X name c choice n trivial)
    have hsrc' := detachConv_src X c choice tX hx hsrc
    obtain ⟨f1, f2, f3, f4⟩ := ih (detachConv X name c choice) (s2.trans hall) s1 hak' hsrc'
    refine ⟨f1, f2, fun id h => f3 id (s3 id h), ?_⟩
    rintro ⟨c', hc', h0⟩ id hid
    rcases List.mem_cons.mp hc' with rfl | hc'
    · exact f3 id (s4 (dcOthers_nil X c' tX hsrc h0) (payload_akeep hak hp) id (hall ▸ hid))
    · exact f4 ⟨c', hc', h0⟩ id hid

theorem attachConv_mp (s : St) (n c : String) : mp (attachConv s n c).1 = mp s := by
  unfold attachConv; frame

theorem dropped_masks (s : St) (e : Ev) (st : Started)
    (he : (∃ name convs, e = .updConv name convs) ∨ (∃ name, e = .delTag name))
    (hok : (step s e st).2 = Res.ok) (hd : DropsOutput s e)
    (hp : ∃ n t, sget s.tags n = some t ∧ Payload t) (ht : s.tag = true) :
    ∀ id, id < s.all → id ∈ (step s e st).1.rst := by
  obtain ⟨c, hc, h0⟩ := hd
  rcases he with ⟨name, convs, rfl⟩ | ⟨name, rfl⟩
  · revert hok
    rw [step_updConv_eq]
    simp only [detached, evName] at hc h0
    split
    · intro h; cases h
    · rename_i t hg
      rw [hg] at hc
      split
      · intro h; cases h
      · intro _ id hid
        obtain ⟨_, _, _, f4⟩ := detachFold_rst name st.tag s.tags s.all ⟨t, hg⟩ hp
          (t.convs.filter (fun c => !convs.contains c)) s rfl ht (fun n => AKeep.refl _ _) (Src.refl _ _)
        show id ∈ (startConverter (ucAttach (ucDetach s name t convs st.tag) name convs)).rst
        rw [mp_rst (startConverter_mp _)]
        unfold ucAttach
        rw [mp_rst (foldl_mp _ (fun s c => attachConv_mp s name c) _ _)]
        exact f4 ⟨c, hc, h0⟩ id hid
  · revert hok
    rw [step_delTag_eq]
    simp only [detached, evName] at hc h0
    split
    · intro h; cases h
    · rename_i t hg
      rw [hg] at hc
      split
      · intro h; cases h
      · intro _ id hid
        obtain ⟨_, _, _, f4⟩ := detachFold_rst name st.tag s.tags s.all ⟨t, hg⟩ hp
          t.convs s rfl ht (fun n => AKeep.refl _ _) (Src.refl _ _)
        show id ∈ (dtApply s name t st.tag).rst
        unfold dtApply
        rw [mp_rst (foldl_mp _ (fun s r => delRefBy_mp s r name) _ _)]
        exact f4 ⟨c, hc, h0⟩ id hid

end Pk.Proofs.MgrTruth
