/- Helper lemmas for C06Reach: what the events record in the during-job masks while a tagging job is in flight. -/
import Pk.Proofs.MgrTagsStep
import Pk.Proofs.MgrSettleFrame
namespace Pk.Proofs.MgrTruth
open Pk.Mgr Pk.Proofs.MgrTags

namespace Masks
open Pk.Proofs.MgrSettle

/-- the flag, the during-job masks, the id bound and the converter list -/
def mp (s : St) : Bool × IdSet × IdSet × IdSet × Nat × List String :=
  (s.tag, s.upd, s.rst, s.add, s.all, s.convs)

theorem mp_eq {s s' : St} (h1 : s'.tag = s.tag) (h2 : s'.upd = s.upd) (h3 : s'.rst = s.rst)
    (h4 : s'.add = s.add) (h5 : s'.all = s.all) (h6 : s'.convs = s.convs) : mp s' = mp s := by
  unfold mp; rw [h1, h2, h3, h4, h5, h6]

theorem mp_tag {s s' : St} (h : mp s' = mp s) : s'.tag = s.tag := congrArg (·.1) h
theorem mp_upd {s s' : St} (h : mp s' = mp s) : s'.upd = s.upd := congrArg (·.2.1) h
theorem mp_rst {s s' : St} (h : mp s' = mp s) : s'.rst = s.rst := congrArg (·.2.2.1) h
theorem mp_add {s s' : St} (h : mp s' = mp s) : s'.add = s.add := congrArg (·.2.2.2.1) h
theorem mp_all {s s' : St} (h : mp s' = mp s) : s'.all = s.all := congrArg (·.2.2.2.2.1) h
theorem mp_convs {s s' : St} (h : mp s' = mp s) : s'.convs = s.convs := congrArg (·.2.2.2.2.2) h

theorem release_mp (s : St) (fs : List Nat) : mp (release s fs) = mp s := by unfold release; frame
theorem startImport_mp (s : St) : mp (startImport s) = mp s := rfl
theorem startMerge_mp (s : St) : mp (startMerge s) = mp s := by
  apply mp_eq <;> (unfold startMerge; frame)
theorem startConverter_mp (s : St) : mp (startConverter s) = mp s := by
  apply mp_eq <;> (unfold startConverter; frame)
theorem inherit_mp (s : St) : mp (inherit s) = mp s := rfl
theorem invalidateTags_mp (s : St) (a b c : IdSet) : mp (invalidateTags s a b c) = mp s := rfl
theorem invalidateConverters_mp (s : St) (u : IdSet) : mp (invalidateConverters s u) = mp s := by
  unfold invalidateConverters; frame
theorem setTag_mp (s : St) (n : String) (t : Tag) : mp (setTag s n t) = mp s := rfl
theorem addRefBy_mp (s : St) (a b : String) : mp (addRefBy s a b) = mp s := by unfold addRefBy; frame
theorem delRefBy_mp (s : St) (a b : String) : mp (delRefBy s a b) = mp s := by unfold delRefBy; frame
theorem muAdd_mp (t : Tag) (s : St) (a : List Nat) : mp (muAdd t s a).2 = mp s := by unfold muAdd; frame
theorem muFin_mp (s : St) (n : String) (u : IdSet) : mp (muFin s n u) = mp s := by unfold muFin; frame
theorem idQueue_mp (s : St) : mp (idQueue s) = mp s := by unfold idQueue; split <;> rfl

theorem foldl_mp {β} (f : St → β → St) (h : ∀ s b, mp (f s b) = mp s) (l : List β) (s : St) :
    mp (l.foldl f s) = mp s :=
  foldl_frame' h rfl

theorem uqRefs_mp (s : St) (name : String) (b a : List String) : mp (uqRefs s name b a) = mp s := by
  unfold uqRefs
  rw [foldl_mp _ (fun s r => addRefBy_mp s r name), foldl_mp _ (fun s r => delRefBy_mp s r name)]

theorem startTagging_of_tag (s : St) (c : Option String) (h : s.tag = true) : startTagging s c = s := by
  unfold startTagging; simp [h]

theorem jobTail_mp (s : St) (st : Started) (h : s.tag = true) : mp (jobTail s st) = mp s := by
  unfold jobTail
  rw [startMerge_mp, startConverter_mp, startTagging_of_tag s _ h]

theorem invDuring_of_tag (s : St) (ids : IdSet) (h : s.tag = true) :
    invalidatedDuringTaggingJob s ids = { s with rst := union s.rst ids } := by
  unfold invalidatedDuringTaggingJob; simp [h]

/-! the ids a mark edit makes pending -/
theorem muAdd_unc (t : Tag) (s : St) (a : List Nat) (x : Nat) :
    x ∈ (muAdd t s a).1.unc ↔ x ∈ t.unc ∨ (x ∈ a ∧ x ∉ t.mat) := by
  unfold muAdd
  split
  · rename_i h; simp only [List.isEmpty_iff] at h; simp [h]
  · simp only []
    split <;> simp only [mem_union, mem_muFresh]

theorem muDel_unc (t : Tag) (d : List Nat) (x : Nat) :
    x ∈ (muDel t d).unc ↔ x ∈ t.unc ∨ (x ∈ d ∧ x ∈ t.mat) := by
  unfold muDel
  split
  · rename_i h; simp only [List.isEmpty_iff] at h; simp [h]
  · simp only []
    split <;> simp only [mem_union, List.mem_filter, List.contains_iff_mem]

/-- what a mark edit records in `rst` while a job is in flight -/
theorem markUpdate_rst (s : St) (name : String) (a d : List Nat) (t : Tag) (hg : sget s.tags name = some t)
    (ht : s.tag = true) :
    (markUpdate s name a d).2 = Res.ok ∧ (markUpdate s name a d).1.tag = true ∧
    (markUpdate s name a d).1.rst = union s.rst (muDel (muAdd t s a).1 d).unc := by
  rw [markUpdate_eq, hg]
  simp only []
  have h0 : mp (inherit (setTag (muAdd t s a).2 name (muDel (muAdd t s a).1 d))) = mp s := by
    rw [inherit_mp, setTag_mp, muAdd_mp]
  have ht0 := (mp_tag h0).trans ht
  rw [invDuring_of_tag _ _ ht0]
  refine ⟨trivial, ?_, ?_⟩
  · rw [mp_tag (muFin_mp _ _ _)]; exact ht0
  · rw [mp_rst (muFin_mp _ _ _)]
    show union (inherit (setTag (muAdd t s a).2 name (muDel (muAdd t s a).1 d))).rst _ = _
    rw [mp_rst h0]

theorem markTail_rst (p : St × Res) (st : Started) (h : p.1.tag = true) :
    (markTail p st).1.rst = p.1.rst := by
  unfold markTail
  show (startConverter (startTagging p.1 st.tag)).rst = _
  rw [mp_rst (startConverter_mp _), startTagging_of_tag _ _ h]

/-! the fold of `convertDone` -/
theorem cdMark_convs (s : St) (p : String × IdSet) : (cdMark s p).convs = s.convs := by
  unfold cdMark; split <;> rfl
theorem cdMark_tag (s : St) (p : String × IdSet) : (cdMark s p).tag = s.tag := by
  unfold cdMark; split <;> rfl
theorem cdMark_upd_mono (s : St) (p : String × IdSet) (id : Nat) (h : id ∈ s.upd) : id ∈ (cdMark s p).upd := by
  unfold cdMark; split
  · exact h
  · simp [h]
theorem cdMark_upd_new (s : St) (p : String × IdSet) (hp : p.1 ∈ s.convs) (id : Nat) (h : id ∈ p.2) :
    id ∈ (cdMark s p).upd := by
  unfold cdMark
  simp [hp, h]

theorem foldl_cdMark_tag (l : List (String × IdSet)) (s : St) : (l.foldl cdMark s).tag = s.tag :=
  foldl_frame' (g := (·.tag)) (fun s x => cdMark_tag s x) rfl

theorem foldl_cdMark_upd_mono (l : List (String × IdSet)) (s : St) (id : Nat) (h : id ∈ s.upd) :
    id ∈ (l.foldl cdMark s).upd := by
  induction l generalizing s with
  | nil => exact h
  | cons q r ih => simp only [List.foldl_cons]; exact ih _ (cdMark_upd_mono s q id h)

theorem foldl_cdMark_upd (l : List (String × IdSet)) (s : St) (p : String × IdSet) (hp : p ∈ l)
    (hc : p.1 ∈ s.convs) (id : Nat) (h : id ∈ p.2) : id ∈ (l.foldl cdMark s).upd := by
  induction l generalizing s with
  | nil => cases hp
  | cons q r ih =>
    simp only [List.foldl_cons]
    rcases List.mem_cons.1 hp with e | e
    · subst e
      exact foldl_cdMark_upd_mono r _ id (cdMark_upd_new s p hc id h)
    · exact ih _ e (by rw [cdMark_convs]; exact hc)

end Masks
open Masks

theorem importDone_masks (s : St) (p u : Nat) (c : List (Nat × List Nat)) (a b d : List Nat) (st : Started)
    (jn : Nat) (held : List Nat) (hj : s.jImport = some (jn, held)) (hc : c ≠ []) (ht : s.tag = true) :
    (∀ id, id ∈ a → id ∈ (step s (.importDone p u c a b d) st).1.upd) ∧
    (∀ id, id ∈ b → id ∈ (step s (.importDone p u c a b d) st).1.rst) ∧
    (∀ id, id ∈ d → id ∈ (step s (.importDone p u c a b d) st).1.add) := by
  rw [step_importDone_eq, hj]
  simp only []
  have hce : c.isEmpty = false := by cases c <;> simp_all
  have hx : mp (release { s with all := jn + u, jImport := none } held) = mp { s with all := jn + u, jImport := none } :=
    release_mp _ _
  generalize release { s with all := jn + u, jImport := none } held = X at hx ⊢
  have hA : mp (idApply X (jn + u) c (ofList a) (ofList b) (ofList d)) =
      mp (idCreated X (jn + u) c (ofList a) (ofList b) (ofList d)) := by
    unfold idApply
    simp only [hce, Bool.false_eq_true, if_false]
    rw [invalidateConverters_mp, invalidateConverters_mp, invalidateTags_mp]
  generalize idApply X (jn + u) c (ofList a) (ofList b) (ofList d) = Y at hA ⊢
  have hY : mp { Y with queue := Y.queue.drop p } = mp Y := rfl
  generalize ({ Y with queue := Y.queue.drop p } : St) = Y' at hY ⊢
  have hQ := idQueue_mp Y'
  have htag : (idQueue Y').tag = true := by
    rw [mp_tag hQ, mp_tag hY, mp_tag hA]
    show X.tag = true
    rw [mp_tag hx]; exact ht
  have hJ := jobTail_mp (idQueue Y') st htag
  refine ⟨fun id h => ?_, fun id h => ?_, fun id h => ?_⟩
  · rw [mp_upd hJ, mp_upd hQ, mp_upd hY, mp_upd hA]
    show id ∈ union X.upd (ofList a)
    simp [h]
  · rw [mp_rst hJ, mp_rst hQ, mp_rst hY, mp_rst hA]
    show id ∈ union X.rst (ofList b)
    simp [h]
  · rw [mp_add hJ, mp_add hQ, mp_add hY, mp_add hA]
    show id ∈ union X.add (ofList d)
    simp [h]

theorem convertDone_masks (s : St) (st : Started) (sets : List (String × IdSet)) (held : List Nat)
    (hj : s.jConv = some (sets, held)) (ht : s.tag = true) :
    ∀ p, p ∈ sets → p.1 ∈ s.convs → ∀ id, id ∈ p.2 → id ∈ (step s .convertDone st).1.upd := by
  intro p hp hc id hid
  rw [step_convertDone_eq, hj]
  simp only []
  have h0 : id ∈ (sets.foldl cdMark { s with convert := false, jConv := none }).upd :=
    foldl_cdMark_upd sets { s with convert := false, jConv := none } p hp hc id hid
  have ht0 : (sets.foldl cdMark { s with convert := false, jConv := none }).tag = true := by
    rw [foldl_cdMark_tag]; exact ht
  generalize sets.foldl cdMark { s with convert := false, jConv := none } = Z at h0 ht0 ⊢
  have ht1 : (inherit Z).tag = true := ht0
  rw [mp_upd (release_mp _ _), mp_upd (startConverter_mp _), startTagging_of_tag _ _ ht1]
  exact h0

theorem updQuery_masks (s : St) (name defn : String) (f : Facts) (st : Started)
    (hok : (step s (.updQuery name defn f) st).2 = Res.ok) (ht : s.tag = true) :
    ∀ id, id < s.all → id ∈ (step s (.updQuery name defn f) st).1.rst := by
  revert hok
  rw [step_updQuery_eq]
  repeat' split
  all_goals first | (intro h; cases h; done) | skip
  intro _ id hid
  rename_i t _ _ _ _ _
  show id ∈ (uqApply s name t (uqTag2 (uqTag defn f) t s.all) st).rst
  unfold uqApply uqInv
  have h0 : mp (inherit (setTag (uqRefs s name t.refs (uqTag2 (uqTag defn f) t s.all).refs) name
      (uqTag2 (uqTag defn f) t s.all))) = mp s := by
    rw [inherit_mp, setTag_mp, uqRefs_mp]
  generalize inherit (setTag (uqRefs s name t.refs (uqTag2 (uqTag defn f) t s.all).refs) name
      (uqTag2 (uqTag defn f) t s.all)) = Z at h0 ⊢
  have htz : Z.tag = true := (mp_tag h0).trans ht
  rw [invDuring_of_tag _ _ htz]
  rw [mp_rst (startConverter_mp _), startTagging_of_tag _ _ (show ({ Z with rst := union Z.rst (rangeSet Z.all) } : St).tag = true from htz)]
  show id ∈ union Z.rst (rangeSet Z.all)
  rw [mp_all h0]
  simp [hid]

theorem markAdd_masks (s : St) (name : String) (ids : List Nat) (st : Started) (t : Tag)
    (hok : (step s (.markAdd name ids) st).2 = Res.ok) (hne : ids ≠ []) (hg : sget s.tags name = some t)
    (ht : s.tag = true) :
    ∀ id, (id ∈ t.unc ∨ (id ∈ ids ∧ id ∉ t.mat)) → id ∈ (step s (.markAdd name ids) st).1.rst := by
  have hie : ids.isEmpty = false := by cases ids <;> simp_all
  revert hok
  rw [step_markAdd_eq, hg]
  simp only [hie, Bool.false_eq_true, if_false]
  repeat' split
  all_goals first | (intro h; cases h; done) | skip
  intro _ id hid
  obtain ⟨_, h2, h3⟩ := markUpdate_rst s name ids [] t hg ht
  rw [markTail_rst _ _ h2, h3]
  simp only [mem_union, muDel_unc, muAdd_unc]
  simp [hid]

theorem markDel_masks (s : St) (name : String) (ids : List Nat) (st : Started) (t : Tag)
    (hok : (step s (.markDel name ids) st).2 = Res.ok) (hne : ids ≠ []) (hg : sget s.tags name = some t)
    (ht : s.tag = true) :
    ∀ id, (id ∈ t.unc ∨ (id ∈ ids ∧ id ∈ t.mat)) → id ∈ (step s (.markDel name ids) st).1.rst := by
  have hie : ids.isEmpty = false := by cases ids <;> simp_all
  revert hok
  rw [step_markDel_eq, hg]
  simp only [hie, Bool.false_eq_true, if_false]
  repeat' split
  all_goals first | (intro h; cases h; done) | skip
  intro _ id hid
  obtain ⟨_, h2, h3⟩ := markUpdate_rst s name [] ids t hg ht
  rw [markTail_rst _ _ h2, h3]
  simp only [mem_union, muDel_unc, muAdd_unc, muAdd_mat]
  rcases hid with h | ⟨h1, h2⟩ <;> simp [*]

end Pk.Proofs.MgrTruth
