/-
  Host table invariants across `Writer.AddIndex` (helper lemmas for C07 and for `hostTable_aligned`).
-/
import Pk.Model.Merge
import Pk.Proofs.IndexFormatHosts

namespace Pk.Index
open Pk Pk.Bytes

/-- invariant of a reader host group -/
structure RHostGroup.Inv (g : RHostGroup) : Prop where
  size : g.hostSize = 4 ∨ g.hostSize = 16
  len : g.hosts.length = g.hostSize * g.hostCount
  nonempty : 0 < g.hostCount
  bound : g.hosts.length ≤ 65536

theorem toReader_inv (g : HostGroup) (h : g.Inv) : g.toReader.Inv := by
  have hal := h.aligned
  have hne := h.nonempty
  refine ⟨h.size, ?_, ?_, h.bound⟩
  · simp only [HostGroup.toReader]
    rcases h.size with hs | hs <;> rw [hs] at hal ⊢ <;> omega
  · simp only [HostGroup.toReader]
    rcases h.size with hs | hs <;> rw [hs] at hal ⊢ <;> omega

theorem addHosts_spec (rhg : RHostGroup) (hs : List Nat) : ∀ (g : HostGroup) (remap : List Nat) (n : Nat),
    g.Inv → ∀ {g' remap' n' failed}, addHosts rhg hs g remap n = (g', remap', n', failed) →
      g'.Inv ∧ g'.hostSize = g.hostSize ∧ n ≤ n' ∧ ∃ ext, g'.hosts = g.hosts ++ ext ∧ ext.length = (n' - n) * g.hostSize := by
  induction hs with
  | nil =>
    intro g remap n hg g' remap' n' failed h
    simp [addHosts] at h
    obtain ⟨rfl, _, rfl, _⟩ := h
    exact ⟨hg, rfl, Nat.le_refl _, [], by simp, by simp⟩
  | cons h hs ih =>
    intro g remap n hg g' remap' n' failed heq
    simp only [addHosts] at heq
    split at heq
    · simp at heq
      obtain ⟨rfl, _, rfl, _⟩ := heq
      exact ⟨hg, rfl, Nat.le_refl _, [], by simp, by simp⟩
    · rename_i g1 idx added hadd
      have hg1 := add_inv g _ hg hadd
      have hne : g.hosts.length ≠ 0 := by have := hg.nonempty; omega
      have hspec := add_hosts g _ hne hadd
      obtain ⟨hsz, hext⟩ := hspec
      have := ih g1 _ _ hg1 heq
      obtain ⟨hi, hsz', hle, ext, hx, hxl⟩ := this
      refine ⟨hi, by rw [hsz', hsz], ?_, ?_⟩
      · cases added <;> simp at hle ⊢ <;> omega
      · cases added with
        | false =>
          simp at hext hle hxl
          exact ⟨ext, by rw [hx, hext], by rw [hxl, hsz]⟩
        | true =>
          simp at hext hle hxl
          obtain ⟨he, hl⟩ := hext
          refine ⟨rhg.get h ++ ext, by rw [hx, he, List.append_assoc], ?_⟩
          simp only [List.length_append, hxl, hsz, ← hl]
          have : n' - n = (n' - (n + 1)) + 1 := by omega
          rw [this, Nat.add_mul]; omega

theorem popN_restore (g g' : HostGroup) (k : Nat) (ext : Bytes) (hs : g'.hostSize = g.hostSize)
    (hx : g'.hosts = g.hosts ++ ext) (hl : ext.length = k * g.hostSize) : g'.popN k = g := by
  cases g; cases g'
  simp only [HostGroup.popN] at *
  subst hs
  simp [hx, hl]

theorem placeGroup_inv (rhg : RHostGroup) (hr : rhg.Inv) (gs : List HostGroup) (hgs : GroupsInv gs) (idx : Nat) :
    GroupsInv (placeGroup rhg gs idx).1 := by
  induction gs generalizing idx with
  | nil =>
    simp only [placeGroup]
    intro g hg
    simp at hg
    subst hg
    refine ⟨hr.size, ?_, ?_, hr.bound⟩
    · simp [hr.len]
    · simp only [hr.len]
      have := hr.nonempty
      rcases hr.size with h | h <;> rw [h] <;> omega
  | cons g gs ih =>
    have hg : g.Inv := hgs g (by simp)
    have hrest : GroupsInv gs := fun x hx => hgs x (by simp [hx])
    simp only [placeGroup]
    cases hadd : addHosts rhg (List.range rhg.hostCount) g [] 0 with
    | mk g' r =>
      obtain ⟨remap, nAdded, failed⟩ := r
      have hspec := addHosts_spec rhg _ g [] 0 hg hadd
      obtain ⟨hi, hsz, _, ext, hx, hxl⟩ := hspec
      simp only
      cases failed with
      | true =>
        simp only [if_true]
        intro x hx'
        simp at hx'
        rcases hx' with rfl | hx'
        · rw [popN_restore g g' nAdded ext hsz hx (by simpa using hxl)]; exact hg
        · exact ih hrest (idx + 1) x hx'
      | false =>
        simp only [Bool.false_eq_true, if_false]
        intro x hx'
        simp at hx'
        rcases hx' with rfl | hx'
        · exact hi
        · exact hrest x hx'

theorem placeGroups_inv (rs : List RHostGroup) (hr : ∀ r ∈ rs, r.Inv) (gs : List HostGroup) (hgs : GroupsInv gs) :
    GroupsInv (placeGroups rs gs).1 := by
  induction rs generalizing gs with
  | nil => simpa [placeGroups] using hgs
  | cons r rs ih =>
    simp only [placeGroups]
    have h1 := placeGroup_inv r (hr r (by simp)) gs hgs 0
    exact ih (fun x hx => hr x (by simp [hx])) _ h1

def Reader.HostsInv (r : Reader) : Prop := ∀ g ∈ r.hostGroups, g.Inv

theorem take_inv (gs : List HostGroup) (h : GroupsInv gs) (n : Nat) : GroupsInv (gs.take n) :=
  fun g hg => h g (List.mem_of_mem_take hg)

theorem addIndex_inv (w w' : Writer) (r : Reader) (ok : Bool) (hr : r.HostsInv) (hw : GroupsInv w.hostGroups)
    (h : w.addIndex r = .ok (w', ok)) : GroupsInv w'.hostGroups := by
  unfold Writer.addIndex at h
  simp only at h
  have hp := placeGroups_inv r.hostGroups hr w.hostGroups hw
  split at h
  · simp at h
  · split at h
    · simp at h
      obtain ⟨rfl, _⟩ := h
      exact take_inv _ hp _
    · simp at h
      obtain ⟨rfl, _⟩ := h
      exact hp

end Pk.Index
