/-
  A positive witness for the full C07 statement: two well-formed single-stream index files that both contain
  stream 7 (different hosts, ports, times, source packets and payload), whose merge succeeds, fits the format
  limits, is well-formed again, and shows the stream of the newer file — before and after the merge.
  So the hypotheses of `MergeViewEq'` are jointly satisfiable and "newest wins" is visible.

  Both inputs are files the writer model produces (`mfx_a_written`, `mfx_b_written`: `AddStream` of one stream
  with three resp. two packets, `Finalize`, `NewReader`).  All computations by kernel reduction (`decide +kernel`).
-/
import Pk.Proofs.MergeFullDefs

namespace Pk.Index
open Pk Pk.Bytes

/-! ## boolean checkers -/

def mfx_okB (suf : List Reader) : Bool := match merge suf with | .ok _ => true | .error _ => false
def mfx_out (suf : List Reader) : List Reader := match merge suf with | .ok m => m | .error _ => []

theorem mfx_merge_out (suf : List Reader) (h : mfx_okB suf = true) : merge suf = .ok (mfx_out suf) := by
  unfold mfx_okB at h; unfold mfx_out
  split <;> simp_all

def mfx_fitsB (m : Reader) : Bool :=
  decide (m.f.packets.length ≤ 2 ^ 32) && decide (m.imports.length ≤ 2 ^ 32) && decide (m.hostGroups.length ≤ 65536)

theorem mfx_fits_of (m : Reader) (h : mfx_fitsB m = true) : m.Fits := by
  simp only [mfx_fitsB, Bool.and_eq_true, decide_eq_true_eq] at h
  exact ⟨h.1.1, h.1.2, h.2⟩

def mfx_hostsB (r : Reader) : Bool :=
  r.hostGroups.all fun g => decide (g.hostSize = 4 ∨ g.hostSize = 16) && decide (g.hosts.length = g.hostSize * g.hostCount) &&
    decide (0 < g.hostCount) && decide (g.hosts.length ≤ 65536)

theorem mfx_hosts_of (r : Reader) (h : mfx_hostsB r = true) : r.HostsInv := by
  intro g hg
  have := List.all_eq_true.mp h g hg
  simp only [Bool.and_eq_true, decide_eq_true_eq] at this
  exact ⟨this.1.1.1, this.1.1.2, this.1.2, this.2⟩

def mfx_skipsOkB : List PacketRec → Bool
  | [] => true
  | p :: ps => decide (p.flags % 2 = 1 → p.skip < ps.length) && mfx_skipsOkB ps

theorem mfx_skipsOkB_iff (c : List PacketRec) : mfx_skipsOkB c = true ↔ SkipsOk c := by
  induction c with
  | nil => simp [mfx_skipsOkB, SkipsOk]
  | cons p ps ih => simp only [mfx_skipsOkB, SkipsOk, Bool.and_eq_true, decide_eq_true_eq, ih]

def mfx_skipsB (r : Reader) : Bool :=
  r.f.streams.all fun s => match chainOf (r.f.packets.drop s.pstart) with
    | some c => mfx_skipsOkB c
    | none => true

theorem mfx_skips_of (r : Reader) (h : mfx_skipsB r = true) :
    ∀ s ∈ r.f.streams, ∀ c, chainOf (r.f.packets.drop s.pstart) = some c → SkipsOk c := by
  intro s hs c hc
  have := List.all_eq_true.mp h s hs
  simp only [hc] at this
  exact (mfx_skipsOkB_iff c).mp this

local instance mfx_decTimeOk (ref : Nat) (s : StreamRec) : Decidable (TimeOk ref s) := by
  unfold TimeOk; infer_instance
local instance mfx_decNoNul (ks : List ImportKey) : Decidable (NoNul ks) := by
  unfold NoNul; infer_instance

/-- all fields of `Reader.WF`, decidable ones as propositions, the others through their checkers -/
theorem mfx_wf_of (r : Reader) (h1 : mfx_hostsB r = true)
    (h2 : ∀ s ∈ r.f.streams, r.idMin ≤ s.id ∧ s.id ≤ r.idMax) (h3 : r.imports.Nodup) (h4 : NoNul r.imports)
    (h5 : ∀ s ∈ r.f.streams, TimeOk r.f.ref s) (h6 : ∀ s ∈ r.f.streams, s.cb + s.sb < 2 ^ 64)
    (h7 : mfx_skipsB r = true) : r.WF :=
  ⟨mfx_hosts_of r h1, h2, h3, h4, h5, h6, mfx_skips_of r h7⟩

/-! ## the two files -/

/-- older file: stream 7 = 10.0.0.1:1000 → 10.0.0.2:80, three packets of capture `a.p` at 1700000000 s + 5 ns,
    + 3 µs, + 4 µs; payload `[1,2]` client → server, `[3]` back; segmentation varints `[2,1]` -/
def mfx_a : Reader :=
  { f := { ref := 1700000000, data := [1, 2, 3, 2, 1], importNames := [97, 46, 112, 0],
           imports := [{ filename := 0, offset := 0 }],
           packets := [{ rel := 0, imp := 0, idx := 5, size := 2, skip := 0, flags := 1 },
                       { rel := 3, imp := 0, idx := 6, size := 1, skip := 0, flags := 3 },
                       { rel := 4, imp := 0, idx := 8, size := 0, skip := 255, flags := 0 }],
           v4 := [10, 0, 0, 1, 10, 0, 0, 2], v6 := [], hostGroups := [{ start := 0, count := 1, flags := 0 }],
           streams := [{ id := 7, first := 5, last := 4009, dataStart := 0, cb := 2, sb := 1, pstart := 0, flags := 1,
                         hg := 0, ch := 0, sh := 1, cp := 1000, sp := 80 }],
           lkId := [0], lkSrc := [0], lkFt := [0], lkLt := [0] },
    imports := [([97, 46, 112], 0)],
    hostGroups := [{ hosts := [10, 0, 0, 1, 10, 0, 0, 2], hostSize := 4, hostCount := 2 }],
    idMin := 7, idMax := 7 }

/-- newer file: stream 7 = 10.0.0.3:2000 → 10.0.0.4:443, two packets of capture `b.p` at 1700000100 s + 7 ns, + 2 µs;
    payload `[9,8,7]` client → server, `[6,5]` back; segmentation varints `[3,2]` -/
def mfx_b : Reader :=
  { f := { ref := 1700000100, data := [9, 8, 7, 6, 5, 3, 2], importNames := [98, 46, 112, 0],
           imports := [{ filename := 0, offset := 0 }],
           packets := [{ rel := 0, imp := 0, idx := 1, size := 3, skip := 0, flags := 1 },
                       { rel := 2, imp := 0, idx := 2, size := 2, skip := 255, flags := 2 }],
           v4 := [10, 0, 0, 3, 10, 0, 0, 4], v6 := [], hostGroups := [{ start := 0, count := 1, flags := 0 }],
           streams := [{ id := 7, first := 7, last := 2007, dataStart := 0, cb := 3, sb := 2, pstart := 0, flags := 1,
                         hg := 0, ch := 0, sh := 1, cp := 2000, sp := 443 }],
           lkId := [0], lkSrc := [0], lkFt := [0], lkLt := [0] },
    imports := [([98, 46, 112], 0)],
    hostGroups := [{ hosts := [10, 0, 0, 3, 10, 0, 0, 4], hostSize := 4, hostCount := 2 }],
    idMin := 7, idMax := 7 }

/-! ### both are files the writer produces -/

def mfx_sa : StreamIn :=
  { id := 7, client := [10, 0, 0, 1], server := [10, 0, 0, 2], cport := 1000, sport := 80, flags := 0,
    packets := [ { ts := 1700000000000000005, dir := 0, refs := [{ file := [97, 46, 112], index := 5 }] },
                 { ts := 1700000000000003005, dir := 1, refs := [{ file := [97, 46, 112], index := 6 }] },
                 { ts := 1700000000000004009, dir := 0, refs := [{ file := [97, 46, 112], index := 8 }] } ],
    data := [ { pos := 0, bytes := [1, 2] }, { pos := 1, bytes := [3] } ] }

def mfx_sb : StreamIn :=
  { id := 7, client := [10, 0, 0, 3], server := [10, 0, 0, 4], cport := 2000, sport := 443, flags := 0,
    packets := [ { ts := 1700000100000000007, dir := 0, refs := [{ file := [98, 46, 112], index := 1 }] },
                 { ts := 1700000100000002007, dir := 1, refs := [{ file := [98, 46, 112], index := 2 }] } ],
    data := [ { pos := 0, bytes := [9, 8, 7] }, { pos := 1, bytes := [6, 5] } ] }

/-- `AddStream` on an empty writer, `Finalize`, `NewReader` -/
def mfx_write (s : StreamIn) : Option Reader :=
  match ({} : Writer).addStream s with
  | .ok (w, true) => (match newReader w.finalize with | .ok r => some r | .error _ => none)
  | _ => none

theorem mfx_a_written : mfx_write mfx_sa = some mfx_a := by decide +kernel
theorem mfx_b_written : mfx_write mfx_sb = some mfx_b := by decide +kernel

/-! ## the merge -/

/-- the merged file: the stream of the newer file; the hosts of the older file stay in the host table
    (`AddIndex` does not take hosts back when it finds no new stream) -/
def mfx_m : Reader :=
  { f := { ref := 1700000100, data := [9, 8, 7, 6, 5, 3, 2], importNames := [98, 46, 112, 0],
           imports := [{ filename := 0, offset := 0 }],
           packets := [{ rel := 0, imp := 0, idx := 1, size := 3, skip := 0, flags := 1 },
                       { rel := 2, imp := 0, idx := 2, size := 2, skip := 255, flags := 2 }],
           v4 := [10, 0, 0, 3, 10, 0, 0, 4, 10, 0, 0, 1, 10, 0, 0, 2], v6 := [],
           hostGroups := [{ start := 0, count := 3, flags := 0 }],
           streams := [{ id := 7, first := 7, last := 2007, dataStart := 0, cb := 3, sb := 2, pstart := 0, flags := 1,
                         hg := 0, ch := 0, sh := 1, cp := 2000, sp := 443 }],
           lkId := [0], lkSrc := [0], lkFt := [0], lkLt := [0] },
    imports := [([98, 46, 112], 0)],
    hostGroups := [{ hosts := [10, 0, 0, 3, 10, 0, 0, 4, 10, 0, 0, 1, 10, 0, 0, 2], hostSize := 4, hostCount := 4 }],
    idMin := 7, idMax := 7 }

theorem mfx_merge_ab : merge [mfx_a, mfx_b] = .ok [mfx_m] := by
  have h : mfx_out [mfx_a, mfx_b] = [mfx_m] := by decide +kernel
  rw [← h]
  exact mfx_merge_out _ (by decide +kernel)

/-- what the user sees of stream 7, before and after the merge: the stream of the newer file -/
def mfx_v : StreamView :=
  { client := [10, 0, 0, 3], cport := 2000, server := [10, 0, 0, 4], sport := 443, proto := "TCP",
    first := 1700000100000000007, last := 1700000100000002007, cb := 3, sb := 2,
    packets := .ok [{ file := [98, 46, 112], index := 1, dir := 0, ts := 1700000100000000007 },
                    { file := [98, 46, 112], index := 2, dir := 1, ts := 1700000100000002007 }],
    data := .ok [{ dir := 0, content := [9, 8, 7], ts := 1700000100000000007 },
                 { dir := 1, content := [6, 5], ts := 1700000100000002007 }] }

/-- the stream of the older file, shadowed -/
def mfx_va : StreamView :=
  { client := [10, 0, 0, 1], cport := 1000, server := [10, 0, 0, 2], sport := 80, proto := "TCP",
    first := 1700000000000000005, last := 1700000000000004009, cb := 2, sb := 1,
    packets := .ok [{ file := [97, 46, 112], index := 5, dir := 0, ts := 1700000000000000005 },
                    { file := [97, 46, 112], index := 6, dir := 1, ts := 1700000000000003005 },
                    { file := [97, 46, 112], index := 8, dir := 0, ts := 1700000000000004005 }],
    data := .ok [{ dir := 0, content := [1, 2], ts := 1700000000000000005 },
                 { dir := 1, content := [3], ts := 1700000000000003005 }] }

theorem mfx_view_a : stackView [mfx_a] 7 = some (some mfx_va) := by decide +kernel
theorem mfx_view_b : stackView [mfx_b] 7 = some (some mfx_v) := by decide +kernel
theorem mfx_view_ab : stackView [mfx_a, mfx_b] 7 = some (some mfx_v) := by decide +kernel
theorem mfx_view_m : stackView [mfx_m] 7 = some (some mfx_v) := by decide +kernel

theorem mfx_a_wf : mfx_a.WF :=
  mfx_wf_of _ (by decide +kernel) (by decide +kernel) (by decide +kernel) (by decide +kernel) (by decide +kernel)
    (by decide +kernel) (by decide +kernel)
theorem mfx_b_wf : mfx_b.WF :=
  mfx_wf_of _ (by decide +kernel) (by decide +kernel) (by decide +kernel) (by decide +kernel) (by decide +kernel)
    (by decide +kernel) (by decide +kernel)
theorem mfx_m_wf : mfx_m.WF :=
  mfx_wf_of _ (by decide +kernel) (by decide +kernel) (by decide +kernel) (by decide +kernel) (by decide +kernel)
    (by decide +kernel) (by decide +kernel)
theorem mfx_m_fits : mfx_m.Fits := mfx_fits_of _ (by decide +kernel)

/-- the hypotheses of the full C07 theorem are jointly satisfiable with a successful merge of two files that show
    DIFFERENT streams under id 7; the newer one is what the user sees, before and after the merge -/
theorem mergeViewEq'_witness : ∃ (a b : Reader) (merged : List Reader), a.WF ∧ b.WF ∧ merge [a, b] = .ok merged ∧
    (∀ m ∈ merged, m.Fits) ∧ (∀ m ∈ merged, m.WF) ∧
    (∃ v, stackView [a, b] 7 = some (some v) ∧ stackView merged 7 = some (some v)) ∧
    stackView [a] 7 ≠ stackView [b] 7 := by
  refine ⟨mfx_a, mfx_b, [mfx_m], mfx_a_wf, mfx_b_wf, mfx_merge_ab, ?_, ?_, ⟨mfx_v, mfx_view_ab, mfx_view_m⟩, ?_⟩
  · intro m hm; rw [List.mem_singleton.mp hm]; exact mfx_m_fits
  · intro m hm; rw [List.mem_singleton.mp hm]; exact mfx_m_wf
  · rw [mfx_view_a, mfx_view_b]; decide +kernel


end Pk.Index
