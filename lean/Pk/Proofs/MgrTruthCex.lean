/-
  MgrTruthCex — the added payload contract `ImportAddsNew` (Pk/Props/C06ReachSpec.lean) cannot be dropped.

  Witness: the state reached from the initial state by `addTag tag/x "sport:80"` and `importPcaps ["a.pcap"]`
  (one tag with `mat = unc = []` and identity `gen = 0`, `ngen = 1`, `next = all = 0`, the import job in flight),
  and the completion
  `importDone 1 1 [(0,[0])] [] [] []`: one file holding the new stream 0, one new id, NOTHING reported as added.
  Every other contract of the step theorem holds (`Good`, `PayloadOK`, `EvFeatOK`, `TruthStep`, `ResultOK`,
  `JobTextOK`), but afterwards `next = 1` and tag/x decides stream 0 ("no") although the truth is "yes" and
  nobody evaluated it.
-/
import Pk.Props.C06ReachSpec
namespace Pk.Props.C06Reach
open Pk.Mgr Pk.Props.MgrReach Pk.Proofs.MgrTruth Pk.Proofs.MgrTags

def cexTag : Tag := { defn := "sport:80", mainT := [], subT := [], mfeat := 4, sfeat := 0, gen := 0 }
def cexSt : St :=
  { tags := [("tag/x", cexTag)], queue := ["a.pcap"], pcaps := ["a.pcap"], jImport := some (0, []), ngen := 1 }
def cexEv : Ev := .importDone 1 1 [(0, [0])] [] [] []
def cexT : Truth := fun _ _ => true

theorem cex_sget {n : String} {t : Tag} (h : sget cexSt.tags n = some t) : t = cexTag := by
  have h' : sget [("tag/x", cexTag)] n = some t := h
  rw [sget_cons] at h'
  split at h'
  · exact (Option.some.inj h').symm
  · simp at h'

theorem cex_name {n : String} {t : Tag} (h : sget cexSt.tags n = some t) : n = "tag/x" := by
  have h' : sget [("tag/x", cexTag)] n = some t := h
  rw [sget_cons] at h'
  split at h'
  · next hn => exact hn.symm
  · simp at h'

theorem cex_mem {nt : String × Tag} (h : nt ∈ cexSt.tags) : nt = ("tag/x", cexTag) := by
  have h' : nt ∈ [("tag/x", cexTag)] := h
  simpa using h'

theorem cex_reach : Reach cexSt := by
  refine ⟨?_, ?_, ?_, ?_, ?_, ?_, ?_, ?_, ?_, ?_, ?_, ?_, ?_, ?_, ?_, ?_⟩
  · show List.Pairwise _ [_]
    exact List.pairwise_singleton _ _
  · simp [C09.JobsWF, cexSt]
  · refine ⟨fun f => ?_, fun f => ?_, fun f => ?_, ?_, ?_, ?_, ?_, ?_⟩ <;>
      simp [C13.holders, C13.viewHeld, C13.jobHeld, cexSt, nget]
  · intro jn held h
    have : (0, ([] : List Nat)) = (jn, held) := Option.some.inj h
    cases this; rfl
  · intro id h; exact absurd h (Nat.not_lt_zero _)
  · exact Nat.le_refl _
  · exact Nat.le_refl _
  · intro n t h id hid
    rw [cex_sget h] at hid; cases hid
  · refine ⟨fun _ _ _ h => (by cases h), fun _ h => (by cases h), fun _ h => (by cases h), fun _ h => (by cases h),
      fun _ h => (by cases h), fun _ _ h => (by cases h)⟩
  · refine ⟨fun nt h id hid => ?_, fun _ _ _ h => (by cases h)⟩
    rw [cex_mem h] at hid; cases hid
  · intro n t h c hc
    rw [cex_sget h] at hc; cases hc
  · intro n t h c hc
    rw [cex_sget h] at hc; cases hc
  · refine ⟨fun _ _ _ _ h => (by cases h), ?_, ?_,
      fun _ _ _ h => (by cases h), fun _ _ _ h => (by cases h)⟩
    · intro n t h _
      rw [cex_sget h]; exact ⟨rfl, rfl⟩
    · intro n1 t1 n2 t2 h1 h2 _ _ _
      rw [cex_sget h1, cex_sget h2]; exact ⟨rfl, rfl⟩
  · intro nt h r hr
    rw [cex_mem h] at hr; cases hr
  · intro nt h r hr
    rw [cex_mem h] at hr; cases hr
  · refine ⟨?_, ?_⟩
    · rintro ⟨nt, hm, he⟩
      rw [cex_mem hm] at he
      exact absurd he (by decide)
    · intro c hc; cases hc


theorem cex_good : Good cexSt cexT cexT := by
  refine ⟨cex_reach, rfl, ?_, ?_, ?_, ?_⟩
  · refine ⟨fun n t h => ?_, fun _ _ _ h => (by cases h), fun n1 t1 n2 t2 h1 h2 _ => ?_⟩
    · rw [cex_sget h]; exact Nat.lt_succ_self 0
    · exact (cex_name h1).trans (cex_name h2).symm
  · refine ⟨fun n t h => ?_, fun _ _ _ h => (by cases h)⟩
    rw [cex_sget h]
    exact ⟨fun h => absurd rfl h, fun h => absurd rfl h⟩
  · intro n t _ id hid; exact absurd hid (Nat.not_lt_zero _)
  · intro jn snap held n ot h; cases h

theorem cex_payload : PayloadOK cexSt cexEv := by
  refine ⟨⟨⟨?_, ?_⟩, ?_⟩, ?_, trivial, ?_, trivial⟩
  · simp
  · intro o ho
    simp at ho; subst ho
    exact ⟨rfl, rfl⟩
  · intro jn held h
    have : (0, ([] : List Nat)) = (jn, held) := Option.some.inj h
    cases this
    refine ⟨rfl, fun _ => by simp, ?_⟩
    intro id h1 h2
    have : id = 0 := by omega
    subst this
    exact ⟨(0, [0]), by simp, by simp⟩
  · intro _; exact ⟨by decide, by decide⟩
  · intro jn held h
    have : (0, ([] : List Nat)) = (jn, held) := Option.some.inj h
    cases this
    exact ⟨fun _ h => (by cases h), fun _ h => (by cases h), fun _ h => (by cases h)⟩

theorem cex_truth : TruthStep cexSt cexEv cexT cexT := by
  refine ⟨fun _ n t _ id _ => rfl, fun _ => ?_⟩
  show ChangesIn cexSt (0 + 1) _ cexT cexT
  intro n t _ id _ hne
  exact absurd rfl hne

theorem cex_not_inv : ¬ C06.Inv (step cexSt cexEv {}).1 cexT := by
  intro h
  have h1 : sget (step cexSt cexEv {}).1.tags "tag/x" = some cexTag := by rfl
  have h2 : (0 : Nat) < (step cexSt cexEv {}).1.next := by decide
  have := (h "tag/x" cexTag h1 0 h2 (by intro h; cases h)).2 rfl
  cases this

/-- the witness does violate the contract that is being dropped -/
theorem cex_not_addsNew : ¬ ImportAddsNew cexSt cexEv := by
  intro h
  have := h 0 [] rfl 0 (Nat.le_refl _) (by decide)
  cases this

/-- without `ImportAddsNew` the step theorem is false: an import that hands out stream id 0 without reporting it
    in `add` leaves a tag deciding stream 0 although nobody evaluated it -/
theorem importAddsNew_counterexample :
    ¬ (∀ (s : St) (e : Ev) (st : Started) (T T' g : Truth), Good s T g → PayloadOK s e → EvFeatOK e →
        TruthStep s e T T' → ResultOK s e g → JobTextOK s e st T T' → C06.Inv (step s e st).1 T') := by
  intro h
  exact cex_not_inv (h cexSt cexEv {} cexT cexT cexT cex_good cex_payload trivial cex_truth trivial
    (fun _ _ _ hj => by cases hj))

end Pk.Props.C06Reach
