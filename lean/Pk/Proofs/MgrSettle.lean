/- Helper lemmas for C09: the job-flag invariant (`JobsWF`) through every event. -/
import Pk.Model.Manager
import Pk.Proofs.MgrSettleFrame
namespace Pk.Proofs.MgrSettle
open Pk.Mgr

/-- same body as `Pk.Props.C09.JobsWF` (that definition unfolds to this one) -/
def JobsWF (s : St) : Prop :=
  (s.tag = true ↔ s.jTag.isSome) ∧ (s.merge = true ↔ s.jMerge.isSome) ∧
  (s.convert = true ↔ s.jConv.isSome) ∧ (s.queue ≠ [] ↔ s.jImport.isSome)

/-! ### the job starters keep flag and record in step -/

theorem startTagging_wf (s : St) (c) (h : s.tag = true ↔ s.jTag.isSome) :
    ((startTagging s c).tag = true ↔ (startTagging s c).jTag.isSome) := by
  unfold startTagging
  repeat' split
  all_goals simp_all [getIndexesCopy]

theorem startMerge_wf (s : St) (h : s.merge = true ↔ s.jMerge.isSome) :
    ((startMerge s).merge = true ↔ (startMerge s).jMerge.isSome) := by
  unfold startMerge
  repeat' split
  all_goals simp_all [getIndexesCopy]

theorem startConverter_wf (s : St) (h : s.convert = true ↔ s.jConv.isSome) :
    ((startConverter s).convert = true ↔ (startConverter s).jConv.isSome) := by
  unfold startConverter
  split
  · exact h
  · dsimp only
    split
    · exact h
    · dsimp only [getIndexesCopy]; simp

@[simp] theorem startImport_jImport_isSome (s : St) : (startImport s).jImport.isSome = true := rfl

theorem JobsWF.congr {s X : St} (h : JobsWF s) (e1 : X.tag = s.tag) (e2 : X.jTag = s.jTag)
    (e3 : X.merge = s.merge) (e4 : X.jMerge = s.jMerge) (e5 : X.convert = s.convert)
    (e6 : X.jConv = s.jConv) (e7 : X.queue = s.queue) (e8 : X.jImport = s.jImport) : JobsWF X := by
  unfold JobsWF; rw [e1, e2, e3, e4, e5, e6, e7, e8]; exact h

theorem J1_of_eq {s X : St} (h : s.tag = true ↔ s.jTag.isSome) (e1 : X.tag = s.tag) (e2 : X.jTag = s.jTag) :
    (X.tag = true ↔ X.jTag.isSome) := by rw [e1, e2]; exact h
theorem J2_of_eq {s X : St} (h : s.merge = true ↔ s.jMerge.isSome) (e1 : X.merge = s.merge) (e2 : X.jMerge = s.jMerge) :
    (X.merge = true ↔ X.jMerge.isSome) := by rw [e1, e2]; exact h
theorem J3_of_eq {s X : St} (h : s.convert = true ↔ s.jConv.isSome) (e1 : X.convert = s.convert) (e2 : X.jConv = s.jConv) :
    (X.convert = true ↔ X.jConv.isSome) := by rw [e1, e2]; exact h
theorem J4_of_eq {s X : St} (h : s.queue ≠ [] ↔ s.jImport.isSome) (e1 : X.queue = s.queue) (e2 : X.jImport = s.jImport) :
    (X.queue ≠ [] ↔ X.jImport.isSome) := by rw [e1, e2]; exact h

/-- proves `JobsWF X` from `h : JobsWF s` when `X` differs from `s` only in other fields -/
syntax "jobs_frame " term : tactic
macro_rules | `(tactic| jobs_frame $h) => `(tactic|
  exact JobsWF.congr $h (by frame) (by frame) (by frame) (by frame) (by frame) (by frame) (by frame) (by frame))

theorem jobsWF_finish3 (X : St) (c) (h : JobsWF X) : JobsWF (startMerge (startConverter (startTagging X c))) := by
  obtain ⟨h1, h2, h3, h4⟩ := h
  refine ⟨?_, ?_, ?_, ?_⟩
  · simpa using startTagging_wf X c h1
  · exact startMerge_wf _ (by simpa using h2)
  · simpa using startConverter_wf _ (by simpa using h3)
  · simpa using h4

theorem jobsWF_finish2 (X : St) (c) (h : JobsWF X) : JobsWF (startConverter (startTagging X c)) := by
  obtain ⟨h1, h2, h3, h4⟩ := h
  refine ⟨?_, ?_, ?_, ?_⟩
  · simpa using startTagging_wf X c h1
  · simpa using h2
  · simpa using startConverter_wf _ (by simpa using h3)
  · simpa using h4

theorem jobsWF_startTagging (X : St) (c) (h : JobsWF X) : JobsWF (startTagging X c) := by
  obtain ⟨h1, h2, h3, h4⟩ := h
  exact ⟨startTagging_wf X c h1, by simpa using h2, by simpa using h3, by simpa using h4⟩

theorem jobsWF_startConverter (X : St) (h : JobsWF X) : JobsWF (startConverter X) := by
  obtain ⟨h1, h2, h3, h4⟩ := h
  exact ⟨by simpa using h1, by simpa using h2, startConverter_wf X h3, by simpa using h4⟩

theorem jobsWF_release (X : St) (fs) (h : JobsWF X) : JobsWF (release X fs) := by
  simpa [JobsWF] using h

/-! ### per event -/

theorem jobsWF_importPcaps (s : St) (names) (st : Started) (h : JobsWF s) :
    JobsWF (step s (.importPcaps names) st).1 := by
  simp only [step]
  split
  · exact h
  · dsimp only
    split
    · simp_all [JobsWF]
    · simp_all [JobsWF]

theorem jobsWF_importDone (s : St) (a b c d e f) (st : Started) (h : JobsWF s) :
    JobsWF (step s (.importDone a b c d e f) st).1 := by
  simp only [step]
  split
  · exact h
  · rename_i jnext held hj
    dsimp only
    apply jobsWF_finish3
    obtain ⟨h1, h2, h3, h4⟩ := h
    split
    · refine ⟨?_, ?_, ?_, ?_⟩
      · split <;> simpa using h1
      · split <;> simpa using h2
      · split <;> simpa using h3
      · split <;> simp_all
    · refine ⟨?_, ?_, ?_, ?_⟩
      · split <;> simpa using h1
      · split <;> simpa using h2
      · split <;> simpa using h3
      · split <;> simp_all

theorem jobsWF_tagDone (s : St) (a b) (st : Started) (h : JobsWF s) :
    JobsWF (step s (.tagDone a b) st).1 := by
  simp only [step]
  split
  · exact h
  · rename_i jn snap held hj
    split
    · exact h.congr rfl rfl rfl rfl rfl rfl rfl rfl
    · dsimp only
      apply jobsWF_release
      apply jobsWF_finish3
      obtain ⟨h1, h2, h3, h4⟩ := h
      refine ⟨?_, J2_of_eq h2 (by frame) (by frame), J3_of_eq h3 (by frame) (by frame), J4_of_eq h4 (by frame) (by frame)⟩
      have : ∀ X : St, X.jTag = none →
          (({ X with tag := false } : St).tag = true ↔ ({ X with tag := false } : St).jTag.isSome) := by
        intro X hX; simp [hX]
      apply this
      frame

theorem jobsWF_mergeDone (s : St) (a) (st : Started) (h : JobsWF s) :
    JobsWF (step s (.mergeDone a) st).1 := by
  simp only [step]
  split
  · exact h
  · rename_i off held hj
    dsimp only
    apply jobsWF_release
    obtain ⟨h1, h2, h3, h4⟩ := h
    refine ⟨J1_of_eq h1 (by frame) (by frame), ?_, J3_of_eq h3 (by frame) (by frame), J4_of_eq h4 (by frame) (by frame)⟩
    apply startMerge_wf
    have : ∀ X : St, X.jMerge = none →
        (({ X with merge := false } : St).merge = true ↔ ({ X with merge := false } : St).jMerge.isSome) := by
      intro X hX; simp [hX]
    apply this
    frame

theorem jobsWF_convertDone (s : St) (st : Started) (h : JobsWF s) :
    JobsWF (step s .convertDone st).1 := by
  simp only [step]
  split
  · exact h
  · rename_i sets held hj
    dsimp only
    apply jobsWF_release
    apply jobsWF_finish2
    obtain ⟨h1, h2, h3, h4⟩ := h
    refine ⟨J1_of_eq h1 (by frame) (by frame), J2_of_eq h2 (by frame) (by frame), ?_, J4_of_eq h4 (by frame) (by frame)⟩
    have e1 : ∀ X : St, X.convert = false → X.jConv = none → (X.convert = true ↔ X.jConv.isSome) := by
      intro X a b; simp [a, b]
    apply e1 <;> frame


/-! ### helpers that do not touch any job field -/

syntax "jobs_simp " term : tactic
macro_rules | `(tactic| jobs_simp $h) => `(tactic|
  exact JobsWF.congr $h (by simp) (by simp) (by simp) (by simp) (by simp) (by simp) (by simp) (by simp))

theorem jobsWF_foldl {β} (f : St → β → St) (hf : ∀ s x, JobsWF s → JobsWF (f s x)) (l : List β) (X : St)
    (h : JobsWF X) : JobsWF (l.foldl f X) := by
  induction l generalizing X with
  | nil => exact h
  | cons a l ih => exact ih _ (hf _ _ h)

theorem jobsWF_setTag (s : St) (n t) (h : JobsWF s) : JobsWF (setTag s n t) := by jobs_simp h
theorem jobsWF_tags (s : St) (v) (h : JobsWF s) : JobsWF { s with tags := v } := h
theorem jobsWF_addRefBy (s : St) (a b) (h : JobsWF s) : JobsWF (addRefBy s a b) := by jobs_simp h
theorem jobsWF_delRefBy (s : St) (a b) (h : JobsWF s) : JobsWF (delRefBy s a b) := by jobs_simp h
theorem jobsWF_inherit (s : St) (h : JobsWF s) : JobsWF (inherit s) := by jobs_simp h
theorem jobsWF_invDuring (s : St) (a) (h : JobsWF s) : JobsWF (invalidatedDuringTaggingJob s a) := by jobs_simp h
theorem jobsWF_attachConv (s : St) (a b) (h : JobsWF s) : JobsWF (attachConv s a b).1 := by jobs_simp h
theorem jobsWF_markUpdate (s : St) (a b c) (h : JobsWF s) : JobsWF (markUpdate s a b c).1 := by jobs_simp h
theorem jobsWF_getIndexesCopy (s : St) (n) (h : JobsWF s) : JobsWF (getIndexesCopy s n).1 := by jobs_simp h

-- CHANGED (dropped): new helper; `outputDropped` ends with `startTagging`, which keeps flag and record in step
theorem jobsWF_outputDropped (s : St) (ch) (h : JobsWF s) : JobsWF (outputDropped s ch) := by
  unfold outputDropped
  split
  · dsimp only
    apply jobsWF_startTagging
    apply jobsWF_invDuring
    apply jobsWF_inherit
    exact h
  · exact h

-- CHANGED (dropped): takes the tagging choice; no longer a pure frame fact
theorem jobsWF_detachConv (s : St) (a b) (ch : Option String) (h : JobsWF s) : JobsWF (detachConv s a b ch) := by
  unfold detachConv
  split
  · exact h
  · dsimp only
    split
    · apply jobsWF_outputDropped
      exact h.congr rfl rfl rfl rfl rfl rfl rfl rfl
    · exact h.congr rfl rfl rfl rfl rfl rfl rfl rfl

theorem jobsWF_addTag (s : St) (a b c d) (st : Started) (h : JobsWF s) :
    JobsWF (step s (.addTag a b c d) st).1 := by
  simp only [step]
  repeat' split
  all_goals first
    | exact h
    | (dsimp only
       apply jobsWF_foldl _ (fun s x hs => jobsWF_addRefBy s _ _ hs)
       first
        | exact jobsWF_setTag _ _ _ h
        | exact jobsWF_startTagging _ _ (jobsWF_setTag _ _ _ h))

theorem jobsWF_updQuery (s : St) (a b c) (st : Started) (h : JobsWF s) :
    JobsWF (step s (.updQuery a b c) st).1 := by
  simp only [step]
  repeat' split
  all_goals first
    | exact h
    | (dsimp only
       apply jobsWF_finish2
       apply jobsWF_invDuring
       apply jobsWF_inherit
       apply jobsWF_setTag
       apply jobsWF_foldl _ (fun s x hs => jobsWF_addRefBy s _ _ hs)
       apply jobsWF_foldl _ (fun s x hs => jobsWF_delRefBy s _ _ hs)
       exact h)

theorem jobsWF_updColor (s : St) (a b) (st : Started) (h : JobsWF s) :
    JobsWF (step s (.updColor a b) st).1 := by
  simp only [step]
  repeat' split
  all_goals first
    | exact h
    | exact jobsWF_setTag _ _ _ h

theorem jobsWF_updName (s : St) (a b) (st : Started) (h : JobsWF s) :
    JobsWF (step s (.updName a b) st).1 := by
  simp only [step]
  repeat' split
  all_goals first
    | exact h
    | (dsimp only
       apply jobsWF_foldl _ (fun s x hs => jobsWF_addRefBy _ _ _ (jobsWF_delRefBy s _ _ hs))
       exact h)

theorem jobsWF_updConv (s : St) (a b) (st : Started) (h : JobsWF s) :
    JobsWF (step s (.updConv a b) st).1 := by
  simp only [step]
  repeat' split
  all_goals first
    | exact h
    | (dsimp only
       apply jobsWF_startConverter
       apply jobsWF_foldl _ (fun s x hs => jobsWF_attachConv s _ _ hs)
       apply jobsWF_foldl _ (fun s x hs => jobsWF_detachConv s _ _ _ hs)
       exact h)

theorem jobsWF_markAdd (s : St) (a b) (st : Started) (h : JobsWF s) :
    JobsWF (step s (.markAdd a b) st).1 := by
  simp only [step]
  repeat' split
  all_goals first
    | exact h
    | (dsimp only
       apply jobsWF_startConverter
       apply jobsWF_startTagging
       exact jobsWF_markUpdate _ _ _ _ h)

theorem jobsWF_markDel (s : St) (a b) (st : Started) (h : JobsWF s) :
    JobsWF (step s (.markDel a b) st).1 := by
  simp only [step]
  repeat' split
  all_goals first
    | exact h
    | (dsimp only
       apply jobsWF_startConverter
       apply jobsWF_startTagging
       exact jobsWF_markUpdate _ _ _ _ h)

theorem jobsWF_delTag (s : St) (a) (st : Started) (h : JobsWF s) :
    JobsWF (step s (.delTag a) st).1 := by
  simp only [step]
  repeat' split
  all_goals first
    | exact h
    | (dsimp only
       apply jobsWF_foldl _ (fun s x hs => jobsWF_delRefBy s _ _ hs)
       apply jobsWF_tags
       apply jobsWF_foldl _ (fun s x hs => jobsWF_detachConv s _ _ _ hs)
       exact h)

theorem jobsWF_viewOpen (s : St) (a) (st : Started) (h : JobsWF s) :
    JobsWF (step s (.viewOpen a) st).1 := by
  simp only [step]
  repeat' split
  all_goals first
    | exact h
    | exact jobsWF_getIndexesCopy _ _ h

theorem jobsWF_viewRelease (s : St) (a) (st : Started) (h : JobsWF s) :
    JobsWF (step s (.viewRelease a) st).1 := by
  simp only [step]
  repeat' split
  all_goals first
    | exact h
    | exact jobsWF_release _ _ h

theorem jobsWF_step (s : St) (e : Ev) (st : Started) (h : JobsWF s) : JobsWF (step s e st).1 := by
  cases e with
  | nop => exact h
  | importPcaps a => exact jobsWF_importPcaps s a st h
  | importDone a b c d e f => exact jobsWF_importDone s a b c d e f st h
  | tagDone a b => exact jobsWF_tagDone s a b st h
  | mergeDone a => exact jobsWF_mergeDone s a st h
  | convertDone => exact jobsWF_convertDone s st h
  | addTag a b c d => exact jobsWF_addTag s a b c d st h
  | updQuery a b c => exact jobsWF_updQuery s a b c st h
  | updColor a b => exact jobsWF_updColor s a b st h
  | updName a b => exact jobsWF_updName s a b st h
  | updConv a b => exact jobsWF_updConv s a b st h
  | markAdd a b => exact jobsWF_markAdd s a b st h
  | markDel a b => exact jobsWF_markDel s a b st h
  | delTag a => exact jobsWF_delTag s a st h
  | viewOpen a => exact jobsWF_viewOpen s a st h
  | viewRelease a => exact jobsWF_viewRelease s a st h

end Pk.Proofs.MgrSettle
