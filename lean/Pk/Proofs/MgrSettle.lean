/- Helper lemmas for C09. -/
import Pk.Model.Manager
namespace Pk.Proofs.MgrSettle
open Pk.Mgr
end Pk.Proofs.MgrSettle
