/- Helper lemmas for C06Reach: the state invariants `GenInv` (identities in use are below the counter) and
   `TagFeatInv` (references carry the tag-reference feature) are preserved by every event. -/
import Pk.Props.C06ReachSpec
import Pk.Proofs.MgrTruthOrigin
namespace Pk.Props.C06Reach
open Pk.Mgr Pk.Props.MgrReach Pk.Proofs.MgrTruth Pk.Proofs.MgrTags

/-- the snapshot of the job in flight after an event is the old one, or an entry of the new table -/
theorem job_origin (s : St) (e : Ev) (st : Started) (hr : Reach s) (hev : C09.EvOK s e)
    (jn : String) (snap : Tag) (held : List Nat) (hj' : (step s e st).1.jTag = some (jn, snap, held)) :
    s.jTag = some (jn, snap, held) ∨
    (∃ ot, sget (step s e st).1.tags jn = some ot ∧ Attrs ot = Attrs snap) ∨
    -- CHANGED (dropped): `delTag` may start a job for the tag it then deletes
    (∃ t, sget s.tags jn = some t ∧ Attrs t = Attrs snap) := by
  by_cases hst : (∃ j, s.jTag = some j) ∧ ∀ n r, e ≠ .tagDone n r
  · obtain ⟨⟨j, hj⟩, hne⟩ := hst
    have htag : s.tag = true := hr.jobsWF.1.2 (by rw [hj]; rfl)
    obtain ⟨h1, _⟩ := job_stable s e st j hj htag hne
    rw [h1] at hj'
    cases hj'
    exact Or.inl hj
  · right
    have h0 : s.tag = false ∨ ∃ n r, e = .tagDone n r := by
      by_cases hd : ∃ n r, e = .tagDone n r
      · exact Or.inr hd
      · left
        cases ht : s.tag with
        | false => rfl
        | true =>
          exfalso
          have := hr.jobsWF.1.1 ht
          cases hj : s.jTag with
          | none => rw [hj] at this; cases this
          | some j => exact hst ⟨⟨j, hj⟩, fun n r h => hd ⟨n, r, h⟩⟩
    have hev' : ∀ n r, e = .tagDone n r → ∀ jn' snap' held', s.jTag = some (jn', snap', held') → jn' = n := by
      intro n r he jn' snap' held' hj
      subst he
      exact hev jn' snap' held' hj
    have href : ∀ name' t', e = .delTag name' → sget s.tags name' = some t' → t'.refBy = [] →
        ∀ n t, sget s.tags n = some t → name' ∉ t.refs := by
      intro name' t' _ ht' hrb n t ht hmem
      have := hr.refByWF (n, t) (Pk.Proofs.MgrConv.sget_mem _ _ _ ht) name' hmem t' ht'
      rw [hrb] at this; cases this
    rcases job_started s e st jn snap held hr.tagsWF hr.uncBounded href hr.jobsWF.1 hev' h0 hj' with
      ⟨ot, hot, _, _, _, e3, e4, e1, e2, e5, _⟩ | ⟨_, _, t, ht, e1, e2, e3, e4, e5⟩
    · exact Or.inl ⟨ot, hot, attrs_mk e1 e2 e3 e4 e5⟩
    · exact Or.inr ⟨t, ht, attrs_mk e1 e2 e3 e4 e5⟩

theorem genInv_step (s : St) (e : Ev) (st : Started) (hr : Reach s) (hev : C09.EvOK s e) (h : GenInv s) :
    GenInv (step s e st).1 := by
  have hle := (step_ngen s e st).1
  have part1 : ∀ n t', sget (step s e st).1.tags n = some t' → t'.gen < (step s e st).1.ngen := by
    intro n t' h'
    rcases entry_origin s e st hev n t' h' with
      ⟨n0, t, ht, ha⟩ | ⟨c, d, f, _, _, _, _, _, eg, en⟩ | ⟨d, f, t, _, ht, _, _, _, _, eg⟩ | ⟨res, snap, held, _, hj, ha⟩
    · rw [(attrs_eq ha).2.2.2.2]; exact Nat.lt_of_lt_of_le (h.1 n0 t ht) hle
    · rw [eg, en]; omega
    · rw [eg]; exact Nat.lt_of_lt_of_le (h.1 n t ht) hle
    · rw [(attrs_eq ha).2.2.2.2]; exact Nat.lt_of_lt_of_le (h.2.1 n snap held hj) hle
  refine ⟨part1, ?_, ?_⟩
  · intro jn snap held hj'
    rcases job_origin s e st hr hev jn snap held hj' with hj | ⟨ot, hot, ha⟩ | ⟨t, ht, ha⟩
    · exact Nat.lt_of_lt_of_le (h.2.1 jn snap held hj) hle
    · rw [← (attrs_eq ha).2.2.2.2]; exact part1 jn ot hot
    · rw [← (attrs_eq ha).2.2.2.2]; exact Nat.lt_of_lt_of_le (h.1 jn t ht) hle
  · intro n1 t1 n2 t2 h1 h2 hg
    rcases gen_origin s e st hev n1 t1 h1 with ⟨u1, hu1, g1⟩ | ⟨m1, u1, he1, hu1, g1, hgone1⟩ | ⟨c1, d1, f1, he1, g1⟩ <;>
    rcases gen_origin s e st hev n2 t2 h2 with ⟨u2, hu2, g2⟩ | ⟨m2, u2, he2, hu2, g2, hgone2⟩ | ⟨c2, d2, f2, he2, g2⟩
    · exact h.2.2 n1 u1 n2 u2 hu1 hu2 (by rw [← g1, ← g2]; exact hg)
    · have := h.2.2 n1 u1 m2 u2 hu1 hu2 (by rw [← g1, ← g2]; exact hg)
      subst this
      rw [hgone2] at h1; cases h1
    · have := h.1 n1 u1 hu1
      rw [← g1, hg, g2] at this; omega
    · have := h.2.2 m1 u1 n2 u2 hu1 hu2 (by rw [← g1, ← g2]; exact hg)
      subst this
      rw [hgone1] at h2; cases h2
    · rw [he1] at he2; cases he2; rfl
    · have := h.1 m1 u1 hu1
      rw [← g1, hg, g2] at this; omega
    · have := h.1 n2 u2 hu2
      rw [← g2, ← hg, g1] at this; omega
    · have := h.1 m2 u2 hu2
      rw [← g2, ← hg, g1] at this; omega
    · rw [he1] at he2; cases he2; rfl

theorem tagFeat_congr {t t' : Tag} (ha : Attrs t' = Attrs t) (h : TagFeat t) : TagFeat t' := by
  obtain ⟨e1, e2, e3, e4, _⟩ := attrs_eq ha
  unfold TagFeat
  rw [e1, e2, e3, e4]; exact h

theorem tagFeat_step (s : St) (e : Ev) (st : Started) (hr : Reach s) (hev : C09.EvOK s e) (hf : EvFeatOK e)
    (h : TagFeatInv s) : TagFeatInv (step s e st).1 := by
  have part1 : ∀ n t', sget (step s e st).1.tags n = some t' → TagFeat t' := by
    intro n t' h'
    rcases entry_origin s e st hev n t' h' with
      ⟨n0, t, ht, ha⟩ | ⟨c, d, f, he, e1, e2, e3, e4, _⟩ | ⟨d, f, t, he, _, e1, e2, e3, e4, _⟩ | ⟨res, snap, held, _, hj, ha⟩
    · exact tagFeat_congr ha (h.1 n0 t ht)
    · subst he
      unfold TagFeat; rw [e1, e2, e3, e4]; exact hf
    · subst he
      unfold TagFeat; rw [e1, e2, e3, e4]; exact hf
    · exact tagFeat_congr ha (h.2 n snap held hj)
  refine ⟨part1, ?_⟩
  intro jn snap held hj'
  rcases job_origin s e st hr hev jn snap held hj' with hj | ⟨ot, hot, ha⟩ | ⟨t, ht, ha⟩
  · exact h.2 jn snap held hj
  · exact tagFeat_congr ha.symm (part1 jn ot hot)
  · exact tagFeat_congr ha.symm (h.1 jn t ht)

theorem fTags_254 {x : Nat} (h : x &&& fTags ≠ 0) : x &&& (255 - fID) ≠ 0 := by
  intro h0
  apply h
  have e : fTags = (255 - fID) &&& fTags := by decide
  rw [e, ← Nat.and_assoc, h0, Nat.zero_and]

/-- `MarkRefOK` follows from the facts invariant -/
theorem markRefOK_of_feat (s : St) (e : Ev) (h : TagFeatInv s) : MarkRefOK s e := by
  have key : ∀ name : String, ∀ jn snap held, s.jTag = some (jn, snap, held) →
      (name ∈ snap.mainT → F254 snap) ∧ (name ∈ snap.subT → snap.sfeat ≠ 0) := by
    intro name jn snap held hj
    obtain ⟨h1, h2⟩ := h.2 jn snap held hj
    refine ⟨fun hm => fTags_254 (h1 (fun h0 => by rw [h0] at hm; cases hm)), fun hs h0 => ?_⟩
    have := h2 (fun h0 => by rw [h0] at hs; cases hs)
    rw [h0, Nat.zero_and] at this
    exact this rfl
  cases e with
  | markAdd name ids => exact key name
  | markDel name ids => exact key name
  | _ => trivial

end Pk.Props.C06Reach
