/-
  Lookup by stream id on a reopened file (helper lemmas for C01 `lookup_by_id_exact`).
-/
import Pk.Model.IndexFormat
import Pk.Proofs.IndexFormatHosts
namespace Pk.Index
open Pk Pk.Bytes

theorem minList_le (l : List Nat) (m : Nat) : minList l m ≤ m ∧ ∀ x ∈ l, minList l m ≤ x := by
  induction l generalizing m with
  | nil => simp [minList]
  | cons y ys ih =>
    simp only [minList]
    by_cases hc : m > y
    · simp only [hc, if_true]
      have := ih y
      refine ⟨by omega, ?_⟩
      intro x hx
      simp at hx
      rcases hx with rfl | hx
      · exact this.1
      · exact this.2 x hx
    · simp only [hc, if_false]
      have := ih m
      refine ⟨this.1, ?_⟩
      intro x hx
      simp at hx
      rcases hx with rfl | hx
      · omega
      · exact this.2 x hx

theorem le_maxList (l : List Nat) (m : Nat) : m ≤ maxList l m ∧ ∀ x ∈ l, x ≤ maxList l m := by
  induction l generalizing m with
  | nil => simp [maxList]
  | cons y ys ih =>
    simp only [maxList]
    by_cases hc : m < y
    · simp only [hc, if_true]
      have := ih y
      refine ⟨by omega, ?_⟩
      intro x hx
      simp at hx
      rcases hx with rfl | hx
      · exact this.1
      · exact this.2 x hx
    · simp only [hc, if_false]
      have := ih m
      refine ⟨this.1, ?_⟩
      intro x hx
      simp at hx
      rcases hx with rfl | hx
      · omega
      · exact this.2 x hx

theorem idIndex_go_none (l : List StreamRec) (i : Nat) (acc : Option Nat) (id : Nat) (h : ∀ s ∈ l, s.id ≠ id) :
    idIndex.go id l i acc = acc := by
  induction l generalizing i acc with
  | nil => rfl
  | cons s ss ih =>
    simp only [idIndex.go]
    have : s.id ≠ id := h s (by simp)
    simp only [this, if_false]
    exact ih _ _ (fun x hx => h x (by simp [hx]))

theorem idIndex_go_found (l : List StreamRec) (i : Nat) (acc : Option Nat) (id : Nat) (j : Nat) (s : StreamRec)
    (hj : l[j]? = some s) (hid : s.id = id) (hnd : (l.map (·.id)).Nodup) :
    idIndex.go id l i acc = some (i + j) := by
  induction l generalizing i acc j with
  | nil => simp at hj
  | cons t ts ih =>
    simp only [idIndex.go]
    simp only [List.map_cons, List.nodup_cons] at hnd
    cases j with
    | zero =>
      simp at hj
      subst hj
      simp only [hid, if_true]
      rw [idIndex_go_none]
      · simp
      · intro x hx heq
        apply hnd.1
        rw [hid]
        exact List.mem_map.mpr ⟨x, hx, heq⟩
    | succ j =>
      simp at hj
      have := ih (i + 1) (if t.id = id then some i else acc) j hj hnd.2
      rw [this]; congr 1; omega

theorem newReader_ok (f : FileModel) (r : Reader) (h : newReader f = .ok r) :
    r.f = f ∧ r.idMin = minList (f.streams.map (·.id)) (2 ^ 64 - 1) ∧ r.idMax = maxList (f.streams.map (·.id)) 0 ∧
    readHostGroups f.v4 f.v6 f.hostGroups = .ok r.hostGroups ∧ r.imports = readImports f.importNames f.imports := by
  unfold newReader at h
  split at h
  · simp at h
  · rename_i hgs heq
    split at h
    · simp at h
    · simp at h
      subst h
      simp [heq]

/-- lookup by stream id: every stored stream is found, and it is that stream -/
theorem streamByID_found (f : FileModel) (r : Reader) (h : newReader f = .ok r)
    (hnd : (f.streams.map (·.id)).Nodup) (i : Nat) (s : StreamRec) (hs : f.streams[i]? = some s) :
    r.streamByID s.id = some (i, s) := by
  obtain ⟨hf, hmin, hmax, _, _⟩ := newReader_ok f r h
  unfold Reader.streamByID
  have hmem : s.id ∈ f.streams.map (·.id) := List.mem_map.mpr ⟨s, List.mem_of_getElem? hs, rfl⟩
  have h1 := (minList_le (f.streams.map (·.id)) (2 ^ 64 - 1)).2 _ hmem
  have h2 := (le_maxList (f.streams.map (·.id)) 0).2 _ hmem
  have hg : ¬ (s.id < r.idMin ∨ s.id > r.idMax) := by rw [hmin, hmax]; omega
  simp only [hg, if_false, hf]
  have : idIndex f.streams s.id = some i := by
    unfold idIndex
    rw [idIndex_go_found f.streams 0 none s.id i s hs rfl hnd]; simp
  simp [this, hs]

/-- lookup by stream id: nothing else is found -/
theorem streamByID_absent (f : FileModel) (r : Reader) (h : newReader f = .ok r) (id : Nat)
    (hid : ∀ s ∈ f.streams, s.id ≠ id) : r.streamByID id = none := by
  obtain ⟨hf, _, _, _, _⟩ := newReader_ok f r h
  unfold Reader.streamByID
  split
  · rfl
  · have : idIndex r.f.streams id = none := by
      unfold idIndex; rw [hf]; exact idIndex_go_none _ _ _ _ hid
    simp [this]

end Pk.Index
