/-
  Helper lemmas for Pk/Props/C05More.lean, target (1): RST in the data phase; the packets of the
  half-closed phase (data of the open direction, packets of the closed direction, second FIN, RST).
-/
import Pk.Proofs.ImportReasmMoreTear4

namespace Pk.Proofs.ImportReasm
open Pk.Import

theorem pdir_ne_absurd {e : Endpoints} (hd : e.Distinct) {q : Pkt} {d : Bool} (h1 : DirPkt e q (!d)) (h2 : pdir e q = d) :
    False := by
  have := h1.pdir hd
  rw [h2] at this
  cases d <;> cases this

/-- data phase, RST of direction `d`: nothing is delivered, the state machine goes to `reset` -/
theorem est_rst_step {cp : ConvParams} {hs : Stream} (hd : cp.e.Distinct)
    (hl : ∀ d, SeqLinear (cp.isnOf d) (cp.BOf d).length)
    {done : List Pkt} {r : RState} {c : TcpConn} {cc cs : Nat} {chunks : List (Nat × Bytes)}
    (h : TSkel cp hs done r { state := .established, dir := false } false c cc cs chunks) (hest : EstInv cp done c cc cs)
    {p : Pkt} {d : Bool} (hp : RstOf cp p d) :
    ∃ c', TSkel cp hs (done ++ [p]) (reasmPacket r p) { state := .reset, dir := false } false c' cc cs chunks ∧
      DeadCore { state := .reset, dir := false } false c' := by
  obtain ⟨hcp, hrst⟩ := hp
  have hpd := hcp.1.pdir hd
  subst hpd
  obtain ⟨hi, _⟩ := hest (pdir cp.e p)
  obtain ⟨hio, _⟩ := hest (!pdir cp.e p)
  obtain ⟨h', hfeed, hcl, _⟩ := feed_rst (hl _) (pdir cp.e p)
    (convStream cp (hsWith hs { state := .established, dir := false } false) done chunks) _ p _ (touch_halfInv hi p.ts) hrst
  have hstep := convStep_accept_conv c p _ (check_est_rst p _ hrst.1.2.2) True [] h' (by rw [hfeed]; simp)
  have hoc : (halfOf c (!pdir cp.e p)).closed = false := hio.opn
  rw [hoc] at hstep
  simp only [Bool.and_false, Bool.or_false, if_true] at hstep
  refine ⟨_, skel_step hd h hcp hstep (h.ch.mono [p]), ?_, Or.inl rfl⟩
  have hoc' : (halfOf (setHalf c (pdir cp.e p) h') (!pdir cp.e p)).closed = false := by
    rw [halfOf_setHalf_ne]; exact hoc
  revert hoc'
  cases pdir cp.e p <;> simp [halfOf, setHalf] <;> intro h0 <;> simp [h0]

/-- half-closed phase, a segment of the open direction (it carries ACK) -/
theorem cw_seg_step {cp : ConvParams} {hs : Stream} (hd : cp.e.Distinct)
    (hl : ∀ d, SeqLinear (cp.isnOf d) (cp.BOf d).length)
    {done : List Pkt} {r : RState} {d : Bool} {c : TcpConn} {cc cs : Nat} {chunks : List (Nat × Bytes)}
    (h : TSkel cp hs done r { state := .closeWait, dir := d } false c cc cs chunks) (hcw : CWInv cp done d c cc cs)
    {p : Pkt} (hp : SegOf cp p (!d)) (hack : p.ack = true) :
    ∃ c' cc' cs' chunks', TSkel cp hs (done ++ [p]) (reasmPacket r p) { state := .closeWait, dir := d } false c' cc' cs' chunks' ∧
      CWInv cp (done ++ [p]) d c' cc' cs' := by
  obtain ⟨hcp, hseg⟩ := hp
  have hpd := hcp.1.pdir hd
  obtain ⟨hcl, hfull, hi, hcov⟩ := hcw
  obtain ⟨c1, h', e1, e2, e3, e4, e5, _⟩ := feed_step (hl _) (!d)
    (convStream cp (hsWith hs { state := .closeWait, dir := d } false) done chunks) _ p _ (touch_halfInv hi p.ts) hseg
  have hq : (touch (halfOf c (!d)) p.ts).queue = (halfOf c (!d)).queue := (touch_frame _ _).1
  rw [hq] at e5
  rw [← hpd] at e1
  have hstep := convStep_accept_conv c p _ (check_cw_seg p d _ hseg.1.2.1 hseg.1.2.2 hack) _ _ _ e1
  rw [hpd] at hstep
  have hc1 : h'.closed = false := e2.opn
  rw [hc1] at hstep
  simp only [Bool.false_and, Bool.or_false] at hstep
  have hget : (done ++ [p])[done.length]? = some p := by simp
  have hcnt := cntOf_setCnt cc cs (!d) c1
  rw [Bool.not_not] at hcnt
  have hcov' : ∀ x, Carried cp (done ++ [p]) (!d) x → x < c1 ∨ Covered (cp.isnOf (!d)) h'.queue x := by
    rintro x ⟨q, hm, hq1, hq2⟩
    rcases List.mem_append.mp hm with hm | hm
    · rcases hcov x ⟨q, hm, hq1, hq2⟩ with h1 | h1
      · exact e5 x (Or.inl h1)
      · exact e5 x (Or.inr (Or.inl h1))
    · rw [List.mem_singleton.mp hm] at hq2
      exact e5 x (Or.inr (Or.inr hq2))
  by_cases hcc : c1 = cntOf cc cs (!d)
  · rw [if_pos hcc] at hstep
    refine ⟨_, cc, cs, chunks, skel_step hd h hcp hstep (h.ch.mono [p]), ⟨?_, hfull, ?_, ?_⟩⟩
    · rw [halfOf_setHalf_ne']; exact hcl
    · rw [halfOf_setHalf, ← hcc]; exact e2
    · rw [halfOf_setHalf, ← hcc]; exact hcov'
  · rw [if_neg hcc] at hstep
    obtain ⟨k1, k2, k3⟩ := e4 (by omega)
    refine ⟨_, _, _, _, skel_step hd h hcp hstep
      (chunks2_add (h.ch.mono [p]) (!d) (by omega) e2.le hget hcp.1 k1 k2 k3 h.ch.lt), ⟨?_, ?_, ?_, ?_⟩⟩
    · rw [halfOf_setHalf_ne']; exact hcl
    · rw [hcnt.2]; exact hfull
    · rw [halfOf_setHalf, hcnt.1]; exact e2
    · rw [halfOf_setHalf, hcnt.1]; exact hcov'

/-- half-closed phase, any packet without RST of the direction that has sent its FIN (a
    retransmitted FIN, retransmitted or new data, ACKs): it is recorded, nothing else happens -/
theorem cw_own_step {cp : ConvParams} {hs : Stream} (hd : cp.e.Distinct)
    {done : List Pkt} {r : RState} {d : Bool} {c : TcpConn} {cc cs : Nat} {chunks : List (Nat × Bytes)}
    (h : TSkel cp hs done r { state := .closeWait, dir := d } false c cc cs chunks) (hcw : CWInv cp done d c cc cs)
    {p : Pkt} (hp : ConvPkt cp p d) (hrst : p.rst = false) :
    ∃ c', TSkel cp hs (done ++ [p]) (reasmPacket r p) { state := .closeWait, dir := d } false c' cc cs chunks ∧
      CWInv cp (done ++ [p]) d c' cc cs := by
  have hpd := hp.1.pdir hd
  obtain ⟨hcl, hfull, hi, hcov⟩ := hcw
  have hoc : (halfOf c (!d)).closed = false := hi.opn
  have hgoal : convStep (convStream cp (hsWith hs { state := .closeWait, dir := d } false) done chunks) c p d =
      (convStream cp (hsWith hs { state := .closeWait, dir := d } false) (done ++ [p]) chunks,
       setHalf c d (touch (halfOf c d) p.ts)) := by
    rw [convStep_inert _ c p _ (Or.inr hcl)]
    have hnb : ¬ ((setHalf c d (touch (halfOf c d) p.ts)).c2s.closed = true ∧
        (setHalf c d (touch (halfOf c d) p.ts)).s2c.closed = true) := by
      rw [setHalf_closed, hoc]; simp
    simp only [if_neg hnb]
    have hf : (convStream cp (hsWith hs { state := .closeWait, dir := d } false) done chunks).fsm =
        { state := .closeWait, dir := d } := rfl
    rw [hf, check_cw_own p d hrst, ← hpd, convStream_inert]
  refine ⟨_, skel_step hd h hp hgoal (h.ch.mono [p]), ⟨?_, hfull, ?_, ?_⟩⟩
  · rw [halfOf_setHalf, touch_closed]; exact hcl
  · rw [halfOf_setHalf_ne]; exact hi
  · rw [halfOf_setHalf_ne]
    rintro x ⟨q, hm, hq1, hq2⟩
    rcases List.mem_append.mp hm with hm | hm
    · exact hcov x ⟨q, hm, hq1, hq2⟩
    · rw [List.mem_singleton.mp hm] at hq1
      exact (pdir_ne_absurd hd hq1 hpd).elim

/-- half-closed phase, the FIN of the open direction (with ACK), arriving after everything before it:
    its data is delivered, both half-connections are closed, the stream is `Complete` -/
theorem cw_fin_step {cp : ConvParams} {hs : Stream} (hd : cp.e.Distinct)
    (hl : ∀ d, SeqLinear (cp.isnOf d) (cp.BOf d).length)
    {done : List Pkt} {r : RState} {d : Bool} {c : TcpConn} {cc cs : Nat} {chunks : List (Nat × Bytes)}
    (h : TSkel cp hs done r { state := .closeWait, dir := d } false c cc cs chunks) (hcw : CWInv cp done d c cc cs)
    {p : Pkt} (hp : FinOf cp done p (!d)) (hack : p.ack = true) :
    ∃ c' cc' cs' chunks', TSkel cp hs (done ++ [p]) (reasmPacket r p) { state := .lastAck, dir := d } true c' cc' cs' chunks' ∧
      DeadCore { state := .lastAck, dir := d } true c' ∧ cc' = cp.Bc.length ∧ cs' = cp.Bs.length := by
  obtain ⟨hcp, hfin, hcar⟩ := hp
  have hpd := hcp.1.pdir hd
  obtain ⟨hcl, hfull, hi, hcov⟩ := hcw
  have hle := carried_le hi hcov hcar
  have hfeed := feed_fin (hl _) (!d) (convStream cp (hsWith hs { state := .closeWait, dir := d } false) done chunks)
    _ p _ (touch_halfInv hi p.ts) hfin hle
  rw [← hpd] at hfeed
  have hstep := convStep_accept_conv c p _ (by rw [hpd]; exact check_cw_fin p d hfin.1.2.1 hfin.1.2.2 hack) _ _ _ hfeed
  rw [hpd, Bool.not_not, hcl] at hstep
  simp only [Bool.and_true, Bool.or_true] at hstep
  have hget : (done ++ [p])[done.length]? = some p := by simp
  have hend : pEnd (cp.isnOf (!d)) p = (cp.BOf (!d)).length := hfin.2.2.1
  have hcnt := cntOf_setCnt cc cs (!d) (cp.BOf (!d)).length
  rw [Bool.not_not] at hcnt
  have hdead : ∀ h0 : Half, h0.closed = true → DeadCore { state := .lastAck, dir := d } true (setHalf c (!d) h0) := by
    intro h0 hc0
    refine ⟨?_, Or.inr rfl⟩
    have h1 : (halfOf (setHalf c (!d) h0) (!d)).closed = true := by rw [halfOf_setHalf]; exact hc0
    have h2 : (halfOf (setHalf c (!d) h0) d).closed = true := by rw [halfOf_setHalf_ne']; exact hcl
    revert h1 h2
    cases d <;> simp [halfOf] <;> intro a b <;> simp [a, b]
  have hfin' : ∀ (x y : Nat), cntOf x y d = (cp.BOf d).length → cntOf x y (!d) = (cp.BOf (!d)).length →
      x = cp.Bc.length ∧ y = cp.Bs.length := by
    intro x y
    cases d <;> simp [cntOf, ConvParams.BOf] <;> intro a b <;> exact ⟨by assumption, by assumption⟩
  by_cases hfl : cntOf cc cs (!d) = (cp.BOf (!d)).length
  · rw [if_pos hfl] at hstep
    exact ⟨_, cc, cs, chunks, skel_step hd h hcp hstep (h.ch.mono [p]), hdead _ rfl, hfin' cc cs hfull hfl⟩
  · rw [if_neg hfl] at hstep
    have hlt : cntOf cc cs (!d) < (cp.BOf (!d)).length := by have := hi.le; omega
    exact ⟨_, _, _, _, skel_step hd h hcp hstep
      (chunks2_add (h.ch.mono [p]) (!d) hlt (Nat.le_refl _) hget hcp.1 hle (by omega) (by omega) h.ch.lt),
      hdead _ rfl, hfin' _ _ (by rw [hcnt.2]; exact hfull) hcnt.1⟩

/-- half-closed phase, RST of the direction that has sent its FIN: the state machine goes to `reset`;
    from now on nothing is assembled — the other direction's later data is lost -/
theorem cw_rst_own_step {cp : ConvParams} {hs : Stream} (hd : cp.e.Distinct)
    {done : List Pkt} {r : RState} {d : Bool} {c : TcpConn} {cc cs : Nat} {chunks : List (Nat × Bytes)}
    (h : TSkel cp hs done r { state := .closeWait, dir := d } false c cc cs chunks) (hcw : CWInv cp done d c cc cs)
    {p : Pkt} (hp : ConvPkt cp p d) (hrst : p.rst = true) :
    ∃ c', TSkel cp hs (done ++ [p]) (reasmPacket r p) { state := .reset, dir := d } false c' cc cs chunks ∧
      DeadCore { state := .reset, dir := d } false c' := by
  have hpd := hp.1.pdir hd
  obtain ⟨hcl, hfull, hi, hcov⟩ := hcw
  have hoc : (halfOf c (!d)).closed = false := hi.opn
  have hnb : ¬ ((setHalf c d (touch (halfOf c d) p.ts)).c2s.closed = true ∧
      (setHalf c d (touch (halfOf c d) p.ts)).s2c.closed = true) := by
    rw [setHalf_closed, hoc]; simp
  have hgoal : convStep (convStream cp (hsWith hs { state := .closeWait, dir := d } false) done chunks) c p d =
      (convStream cp (hsWith hs { state := .reset, dir := d } false) (done ++ [p]) chunks,
       setHalf c d (touch (halfOf c d) p.ts)) := by
    rw [convStep_inert _ c p _ (Or.inr hcl)]
    simp only [if_neg hnb]
    have hf : (convStream cp (hsWith hs { state := .closeWait, dir := d } false) done chunks).fsm =
        { state := .closeWait, dir := d } := rfl
    rw [hf, check_cw_rst p d d hrst, ← hpd, convStream_inert]
  refine ⟨_, skel_step hd h hp hgoal (h.ch.mono [p]), ?_, Or.inl rfl⟩
  cases h1 : (setHalf c d (touch (halfOf c d) p.ts)).c2s.closed <;>
    cases h2 : (setHalf c d (touch (halfOf c d) p.ts)).s2c.closed <;> simp_all

/-- half-closed phase, RST of the open direction: nothing is delivered, the state machine goes to
    `reset`.  If the RST is not beyond the expected sequence number (everything before it has
    arrived) the open half-connection is closed too, so that the stream becomes `Complete`;
    otherwise it stays open and the stream is never completed inside the window. -/
theorem cw_rst_step {cp : ConvParams} {hs : Stream} (hd : cp.e.Distinct)
    (hl : ∀ d, SeqLinear (cp.isnOf d) (cp.BOf d).length)
    {done : List Pkt} {r : RState} {d : Bool} {c : TcpConn} {cc cs : Nat} {chunks : List (Nat × Bytes)}
    (h : TSkel cp hs done r { state := .closeWait, dir := d } false c cc cs chunks) (hcw : CWInv cp done d c cc cs)
    {p : Pkt} (hp : RstOf cp p (!d)) :
    ∃ k' c', TSkel cp hs (done ++ [p]) (reasmPacket r p) { state := .reset, dir := d } k' c' cc cs chunks ∧
      DeadCore { state := .reset, dir := d } k' c' ∧
      ((∀ x, x < pOff (cp.isnOf (!d)) p → Carried cp done (!d) x) → k' = true) := by
  obtain ⟨hcp, hrst⟩ := hp
  have hpd := hcp.1.pdir hd
  obtain ⟨hcl, hfull, hi, hcov⟩ := hcw
  obtain ⟨h', hfeed, hcl', _⟩ := feed_rst (hl _) (!d)
    (convStream cp (hsWith hs { state := .closeWait, dir := d } false) done chunks) _ p _ (touch_halfInv hi p.ts) hrst
  rw [← hpd] at hfeed
  have hstep := convStep_accept_conv c p _ (check_cw_rst p d _ hrst.1.2.2) True [] h' (by rw [hfeed]; simp)
  rw [hpd, Bool.not_not, hcl] at hstep
  simp only [Bool.and_true, Bool.false_or, if_true] at hstep
  refine ⟨h'.closed, _, skel_step hd h hcp hstep (h.ch.mono [p]), ⟨?_, Or.inl rfl⟩, ?_⟩
  · have h1 : (halfOf (setHalf c (!d) h') (!d)).closed = h'.closed := by rw [halfOf_setHalf]
    have h2 : (halfOf (setHalf c (!d) h') d).closed = true := by rw [halfOf_setHalf_ne']; exact hcl
    revert h1 h2
    cases d <;> simp [halfOf] <;> intro a b <;> simp [a, b]
  · intro hall
    have hle := carried_le hi hcov hall
    rw [hcl']; simp [hle]

end Pk.Proofs.ImportReasm
