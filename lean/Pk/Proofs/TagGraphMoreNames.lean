/-
  Helper lemmas for C11More: the two tests the code uses to recognise a mark name agree on every string —
  `markPrefix` (`strings.HasPrefix(name, "mark/")`) and `parseTagName` (cut at the first `/`).
  The model's `parseTagName` goes through the legacy `String.splitOn`; its meaning for the separator `/`
  is derived here from the definition (`splitOn_slash`), with the position lemmas of Batteries.
-/
import Pk.Model.TagGraph
import Pk.Proofs.TagGraphMoreText
import Batteries.Data.String.Lemmas

namespace Pk.Proofs.TagGraphMore
open Pk.TagGraph
open String

theorem size_slash : '/'.utf8Size = 1 := by decide

theorem get_slash : (0 : Pos.Raw).get "/" = '/' := by
  have := get_of_valid [] ['/']
  simpa using this

theorem next_slash : (0 : Pos.Raw).next "/" = ⟨1⟩ := by
  have := next_of_valid [] '/' []
  simpa [size_slash] using this

theorem atEnd_slash : (⟨1⟩ : Pos.Raw).atEnd "/" = true := by
  simp [atEnd_iff]
  decide

theorem splitOnAux_slash (r : List Char) : ∀ (l m : List Char) (acc : List String),
    splitOnAux (ofList (l ++ m ++ r)) "/" ⟨utf8Len l⟩ ⟨utf8Len l + utf8Len m⟩ 0 acc =
      acc.reverse ++ (List.splitOnPPrepend (· == '/') r m.reverse).map ofList := by
  induction r with
  | nil =>
    intro l m acc
    unfold splitOnAux
    have hend : (⟨utf8Len l + utf8Len m⟩ : Pos.Raw).atEnd (ofList (l ++ m ++ [])) = true := by
      simp [-ofList_append, atEnd_iff, rawEndPos_ofList, utf8Len_append]
    rw [if_pos hend]
    simpa using extract_of_valid l m []
  | cons c r ih =>
    intro l m acc
    unfold splitOnAux
    have hend : ¬ (⟨utf8Len l + utf8Len m⟩ : Pos.Raw).atEnd (ofList (l ++ m ++ c :: r)) = true := by
      simp only [atEnd_iff, rawEndPos_ofList, utf8Len_append, utf8Len_cons, Pos.Raw.mk_le_mk]
      have := Char.utf8Size_pos c
      omega
    rw [if_neg hend]
    have hget : (⟨utf8Len l + utf8Len m⟩ : Pos.Raw).get (ofList (l ++ m ++ c :: r)) = c := by
      simpa [-ofList_append] using get_of_valid (l ++ m) (c :: r)
    have hnext : (⟨utf8Len l + utf8Len m⟩ : Pos.Raw).next (ofList (l ++ m ++ c :: r)) =
        ⟨utf8Len l + utf8Len m + c.utf8Size⟩ := by
      simpa [-ofList_append] using next_of_valid (l ++ m) c r
    rw [hget, get_slash]
    by_cases hc : (c == '/') = true
    · rw [if_pos hc]
      simp only [next_slash, atEnd_slash, if_true, hnext]
      have hc' : c = '/' := by simpa using hc
      subst hc'
      have hun : (⟨utf8Len l + utf8Len m + '/'.utf8Size⟩ : Pos.Raw).unoffsetBy ⟨1⟩ = ⟨utf8Len l + utf8Len m⟩ := by
        simp [Pos.Raw.unoffsetBy, size_slash]
      rw [hun]
      have hex := extract_of_valid l m ('/' :: r)
      rw [hex]
      have := ih (l ++ m ++ ['/']) [] (ofList m :: acc)
      simp only [List.append_assoc, List.cons_append, List.nil_append, utf8Len_append, utf8Len_cons, utf8Len_nil,
        Nat.add_zero, List.append_nil, Nat.zero_add] at this
      simp only [Nat.add_assoc, List.append_assoc] at this ⊢
      rw [this]
      simp [List.splitOnPPrepend_cons_eq_if]
    · rw [if_neg hc]
      have hun : (⟨utf8Len l + utf8Len m⟩ : Pos.Raw).unoffsetBy 0 = ⟨utf8Len l + utf8Len m⟩ := by
        simp [Pos.Raw.unoffsetBy]
      rw [hun, hnext]
      have := ih l (m ++ [c]) acc
      simp only [List.append_assoc, List.cons_append, List.nil_append, utf8Len_append, utf8Len_cons,
        utf8Len_nil] at this
      simp only [Nat.add_assoc, List.append_assoc, Nat.zero_add] at this ⊢
      rw [this]
      simp [List.splitOnPPrepend_cons_eq_if, hc]

/-- the legacy `splitOn` at `/` is the list-level split of the characters -/
theorem splitOn_slash (s : String) : s.splitOn "/" = (List.splitOnP (· == '/') s.toList).map ofList := by
  unfold splitOn
  have : ("/" == "") = false := by decide
  rw [this]
  simpa using splitOnAux_slash s.toList [] [] []

/-! ### the first `/` -/

theorem exists_first (c : Char) (l : List Char) (h : c ∈ l) : ∃ a b, l = a ++ c :: b ∧ c ∉ a := by
  induction l with
  | nil => cases h
  | cons x l ih =>
    by_cases hx : x = c
    · exact ⟨[], l, by simp [hx], by simp⟩
    · have hc : c ∈ l := by
        rcases List.mem_cons.mp h with h | h
        · exact absurd h.symm hx
        · exact h
      obtain ⟨a, b, hl, ha⟩ := ih hc
      refine ⟨x :: a, b, by simp [hl], ?_⟩
      simp only [List.mem_cons, not_or]
      exact ⟨fun h => hx h.symm, ha⟩

theorem first_unique (c : Char) : ∀ (w a t b : List Char), c ∉ w → c ∉ a → w ++ c :: t = a ++ c :: b → w = a := by
  intro w
  induction w with
  | nil =>
    intro a t b _ ha h
    cases a with
    | nil => rfl
    | cons x a =>
      simp only [List.nil_append, List.cons_append, List.cons.injEq] at h
      exact absurd (h.1 ▸ List.mem_cons_self) ha
  | cons y w ih =>
    intro a t b hw ha h
    cases a with
    | nil =>
      simp only [List.nil_append, List.cons_append, List.cons.injEq] at h
      exact absurd (h.1 ▸ List.mem_cons_self) hw
    | cons x a =>
      simp only [List.cons_append, List.cons.injEq] at h
      rw [h.1, ih a t b (fun hm => hw (List.mem_cons_of_mem _ hm)) (fun hm => ha (List.mem_cons_of_mem _ hm)) h.2]

/-- with the first `/` at `a ++ '/' :: b`: the word before it is `w` iff the string starts with `w/` -/
theorem prefix_iff_first (w a b : List Char) (hw : '/' ∉ w) (ha : '/' ∉ a) :
    (w ++ ['/']).isPrefixOf (a ++ '/' :: b) = decide (a = w) := by
  rw [Bool.eq_iff_iff]
  simp only [List.isPrefixOf_iff_prefix, decide_eq_true_eq]
  constructor
  · rintro ⟨t, ht⟩
    simp only [List.append_assoc, List.cons_append, List.nil_append] at ht
    exact (first_unique '/' w a t b hw ha ht).symm
  · rintro rfl
    exact ⟨b, by simp⟩

theorem ofList_beq (a : List Char) (w : String) : (ofList a == w) = decide (a = w.toList) := by
  rw [Bool.eq_iff_iff]
  simp only [beq_iff_eq, decide_eq_true_eq]
  constructor
  · rintro rfl; simp
  · rintro rfl; simp

/-- **the two mark-name tests agree on every string** -/
theorem markPrefix_eq_isMark (n : Name) : markPrefix n = (parseTagName n).2.2 := by
  rw [markPrefix_eq]
  unfold parseTagName cutSlash
  rw [splitOn_slash]
  by_cases hs : '/' ∈ n.toList
  · obtain ⟨a, b, hl, ha⟩ := exists_first '/' n.toList hs
    rw [hl, List.splitOnP_append_cons_of_forall_mem (by intro x hx; simp; rintro rfl; exact ha hx) '/' (by simp) b]
    obtain ⟨s1, rest, hrest⟩ := List.exists_cons_of_ne_nil (List.splitOnP_ne_nil (· == '/') b)
    rw [hrest]
    simp only [List.map_cons]
    have h1 := prefix_iff_first "mark".toList a b (by decide) ha
    have h2 := prefix_iff_first "generated".toList a b (by decide) ha
    have e1 : "mark/".toList = "mark".toList ++ ['/'] := by decide
    have e2 : "generated/".toList = "generated".toList ++ ['/'] := by decide
    rw [e1, e2, h1, h2]
    have : (ofList a == "mark" || ofList a == "generated") = (decide (a = "mark".toList) || decide (a = "generated".toList)) := by
      rw [ofList_beq, ofList_beq]
    rw [← this]
    generalize (ofList a == "mark" || ofList a == "generated") = X
    split
    · rename_i h
      cases X
      · rfl
      · simp at h
    · rfl
  · have hsingle : List.splitOnP (· == '/') n.toList = [n.toList] :=
      List.splitOnP_eq_singleton (by intro x hx; simp; rintro rfl; exact hs hx)
    rw [hsingle]
    simp only [List.map_cons, List.map_nil]
    have h1 : "mark/".toList.isPrefixOf n.toList = false := by
      rw [Bool.eq_false_iff]
      intro h
      rw [List.isPrefixOf_iff_prefix] at h
      obtain ⟨t, ht⟩ := h
      apply hs
      rw [← ht]
      have : '/' ∈ "mark/".toList := by decide
      exact List.mem_append_left _ this
    have h2 : "generated/".toList.isPrefixOf n.toList = false := by
      rw [Bool.eq_false_iff]
      intro h
      rw [List.isPrefixOf_iff_prefix] at h
      obtain ⟨t, ht⟩ := h
      apply hs
      rw [← ht]
      have : '/' ∈ "generated/".toList := by decide
      exact List.mem_append_left _ this
    rw [h1, h2]
    rfl

end Pk.Proofs.TagGraphMore
