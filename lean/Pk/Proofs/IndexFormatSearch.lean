/-
  `sort.Search` and the wrap budget of `Stream.Data` (helper lemmas for C01).
-/
import Pk.Proofs.IndexFormatMeta
namespace Pk.Index
open Pk Pk.Bytes

/-- the wrap budget computed by `Stream.Data` from the stream's duration is at least the number of
    2^32 µs wraps the relative packet times actually make -/
theorem expectWraps_ge_actual' (d : Nat) (h : d < 2 ^ 62) :
    ((d / 1000 / 2 ^ 32 : Nat) : Int) ≤ (i64 d + 1000).tdiv wrapNs := by
  rw [i64_small d (by omega)]
  rw [Int.tdiv_eq_ediv_of_nonneg (by omega)]
  unfold wrapNs
  omega

/-- `sort.Search`: for a predicate that is false below some `k ≤ n` and true from `k` on, the binary search
    returns `k` -/
theorem sortSearch_correct (f : Nat → Bool) (k : Nat) (hlo : ∀ i, i < k → f i = false) (hhi : ∀ i, k ≤ i → f i = true) :
    ∀ (n i j : Nat), j - i = n → i ≤ k → k ≤ j → sortSearch f i j = k := by
  intro n
  induction n using Nat.strongRecOn with
  | _ n ih =>
    intro i j hn hik hkj
    rw [sortSearch]
    by_cases hij : i < j
    · simp only [hij, dite_true]
      by_cases hm : f ((i + j) / 2) = true
      · simp only [hm, Bool.not_true, Bool.false_eq_true, if_false]
        have hkm : k ≤ (i + j) / 2 := by
          rcases Nat.lt_or_ge ((i + j) / 2) k with h | h
          · have := hlo _ h; rw [hm] at this; cases this
          · exact h
        exact ih ((i + j) / 2 - i) (by omega) i _ rfl hik hkm
      · have hm' : f ((i + j) / 2) = false := by cases hf : f ((i + j) / 2) <;> simp_all
        simp only [hm', Bool.not_false, if_true]
        have hkm : (i + j) / 2 < k := by
          rcases Nat.lt_or_ge ((i + j) / 2) k with h | h
          · exact h
          · have := hhi _ h; rw [hm'] at this; cases this
        exact ih (j - ((i + j) / 2 + 1)) (by omega) _ j rfl (by omega) hkj
    · simp only [hij, dite_false]; omega

end Pk.Index
