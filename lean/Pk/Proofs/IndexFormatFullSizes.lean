/-
  Payload sizes: what the packet records of a stream add up to per direction, against the content
  blocks and the segmentation runs the writer stores (helper lemmas for C01 `roundtrip_payload`).
-/
import Pk.Proofs.IndexFormatFullPackets2
import Pk.Proofs.IndexFormatFullRuns
namespace Pk.Index
open Pk Pk.Bytes

/-! ### the records as appended against the raw records -/

theorem recSize_strip (d : Nat) (r : PacketRec) : recSize d (strip r) = recSize d r := rfl

theorem dirSum_strip (d : Nat) (l : List PacketRec) : dirSum d (l.map strip) = dirSum d l := by
  simp [dirSum, List.map_map, Function.comp_def, recSize_strip]

theorem setSkips_flags (l : List PacketRec) : (setSkips l).1.map (·.flags) = l.map (·.flags) := by
  have h : ∀ (m : List PacketRec), m.map (·.flags) = (m.map strip).map (·.flags) := by
    intro m; rw [List.map_map]; rfl
  rw [h, setSkips_strip, ← h]

def OddFlags (l : List PacketRec) : Prop := ∀ r ∈ l, r.flags = 1 ∨ r.flags = 3

theorem setSkips_odd (l : List PacketRec) (h : OddFlags l) : OddFlags (setSkips l).1 := by
  intro r hr
  have : r.flags ∈ (setSkips l).1.map (·.flags) := List.mem_map.mpr ⟨r, hr, rfl⟩
  rw [setSkips_flags] at this
  obtain ⟨r', hr', he⟩ := List.mem_map.mp this
  rw [← he]; exact h r' hr'

theorem setSkips_ne (l : List PacketRec) (h : l ≠ []) : (setSkips l).1 ≠ [] := by
  intro hh
  have := congrArg List.length (setSkips_flags l)
  simp [hh] at this
  exact h (List.length_eq_zero_iff.mp this.symm)

theorem clearLast_dirSum (d : Nat) (l : List PacketRec) (h : OddFlags l) : dirSum d (clearLastHasNext l) = dirSum d l := by
  induction l with
  | nil => rfl
  | cons p t ih =>
    cases t with
    | nil =>
      have := h p (by simp)
      simp only [clearLastHasNext, dirSum, List.map_cons, List.map_nil, recSize]
      rcases this with hf | hf <;> simp [hf]
    | cons q r =>
      have := ih (fun x hx => h x (by simp [hx]))
      simp only [clearLastHasNext, dirSum, List.map_cons, List.sum_cons] at this ⊢
      rw [this]

theorem clearLast_hasNext (l : List PacketRec) (hne : l ≠ []) (h : OddFlags l) : HasNextOK (clearLastHasNext l) := by
  induction l with
  | nil => exact absurd rfl hne
  | cons p t ih =>
    cases t with
    | nil =>
      have := h p (by simp)
      simp only [clearLastHasNext, HasNextOK]
      rcases this with hf | hf <;> simp [hf]
    | cons q r =>
      have hp := h p (by simp)
      have := ih (by simp) (fun x hx => h x (by simp [hx]))
      cases hc : clearLastHasNext (q :: r) with
      | nil =>
        have := congrArg List.length hc
        rw [clearLast_length] at this; simp at this
      | cons a b =>
        rw [hc] at this
        simp only [clearLastHasNext]
        rw [hc]
        exact ⟨by omega, this⟩

theorem streamRaw_odd (imps : List ImportKey) (s : StreamIn) : OddFlags (streamRaw imps s) := by
  intro r hr
  unfold streamRaw at hr
  rw [allRecords_trips] at hr
  simp only [List.mem_flatten, List.mem_map] at hr
  obtain ⟨l, ⟨t, _, rfl⟩, hr⟩ := hr
  simp only [grp, List.mem_map] at hr
  obtain ⟨sz, _, rfl⟩ := hr
  simp only [mkRec, Trip.fl]
  by_cases h : t.1.dir = 0 <;> simp [h]

/-- shape of the records of a stream in the packet section -/
theorem streamRecs_shape (imps : List ImportKey) (s : StreamIn) (hne : streamRaw imps s ≠ []) :
    HasNextOK (streamRecs imps s) ∧ SkipSound (streamRecs imps s) ∧
    ∀ d, dirSum d (streamRecs imps s) = dirSum d (streamRaw imps s) := by
  have hodd := setSkips_odd _ (streamRaw_odd imps s)
  refine ⟨clearLast_hasNext _ (setSkips_ne _ hne) hodd, clearLast_sound _ (setSkips_spec _).2.1, ?_⟩
  intro d
  unfold streamRecs
  rw [clearLast_dirSum d _ hodd, ← dirSum_strip, setSkips_strip, dirSum_strip]

/-! ### the raw records against the chunk sizes -/

theorem splitAux_sum' (fuel n : Nat) (h : n ≤ fuel + 65535) : (splitAux fuel n).sum = n := by
  induction fuel generalizing n with
  | zero => simp [splitAux]
  | succ f ih =>
    simp only [splitAux]
    split
    · simp
    · simp only [List.sum_cons]; rw [ih _ (by omega)]; omega

theorem splitSizes_sum (n : Nat) : (splitSizes n).sum = n := splitAux_sum' n n (by omega)

theorem dirSum_append (d : Nat) (a b : List PacketRec) : dirSum d (a ++ b) = dirSum d a + dirSum d b := by
  simp [dirSum]

theorem dirSum_mk (d i x ρ fl : Nat) (szs : List Nat) :
    dirSum d (szs.map (mkRec i x ρ fl)) = if fl / 2 % 2 = d then szs.sum else 0 := by
  induction szs with
  | nil => simp [dirSum]
  | cons a t ih =>
    simp only [dirSum, List.map_cons, List.sum_cons] at ih ⊢
    rw [ih]
    simp only [recSize, mkRec]
    by_cases h : fl / 2 % 2 = d <;> simp [h]

def tripSum (d : Nat) (T : List Trip) : Nat := (T.map fun t => if t.1.dir = d then t.2.2 else 0).sum

theorem dirSum_trips (imps : List ImportKey) (ts0 : Int) (d : Nat) (T : List Trip) (h : ∀ t ∈ T, t.1.dir < 2) :
    dirSum d ((T.map (grp imps ts0)).flatten) = tripSum d T := by
  induction T with
  | nil => rfl
  | cons t T ih =>
    simp only [List.map_cons, List.flatten_cons, dirSum_append, tripSum, List.sum_cons]
    have := ih (fun x hx => h x (by simp [hx]))
    simp only [tripSum] at this
    rw [this]
    congr 1
    simp only [grp, dirSum_mk, splitSizes_sum, Trip.fl]
    have hdir := h t (by simp)
    by_cases h0 : t.1.dir = 0
    · simp [h0]
    · have h1 : t.1.dir = 1 := by omega
      simp [h1]

/-- payload recorded per direction, one term per packet -/
def pktSum (d : Nat) (data : List ChunkIn) : Nat → List PacketIn → Nat
  | _, [] => 0
  | k, p :: ps => (if p.dir = d then chunkSize data k else 0) + pktSum d data (k + 1) ps

theorem tripSum_append (d : Nat) (a b : List Trip) : tripSum d (a ++ b) = tripSum d a + tripSum d b := by
  simp [tripSum]

theorem tripSum_ge (d : Nat) (data : List ChunkIn) (ps : List PacketIn) : ∀ (k : Nat), (∀ p ∈ ps, p.refs ≠ []) →
    pktSum d data k ps ≤ tripSum d (trips data k ps) := by
  induction ps with
  | nil => intro k _; simp [pktSum]
  | cons p ps ih =>
    intro k h
    simp only [pktSum, trips, tripSum_append]
    have h1 := ih (k + 1) (fun q hq => h q (by simp [hq]))
    have h2 : (if p.dir = d then chunkSize data k else 0) ≤ tripSum d (p.pmds.map (fun r => (p, r, chunkSize data k))) := by
      have hne : p.pmds ≠ [] := by have := h p (by simp); simpa [PacketIn.pmds] using this
      cases hp : p.pmds with
      | nil => exact absurd hp hne
      | cons a l => simp [tripSum]
    omega

/-! ### the chunk sizes against the chunks -/

theorem chunkSize_snoc (init : List ChunkIn) (c : ChunkIn) (i : Nat) :
    chunkSize (init ++ [c]) i = if c.pos = i then c.bytes.length else chunkSize init i := by
  unfold chunkSize
  simp only [List.reverse_append, List.reverse_cons, List.reverse_nil, List.nil_append, List.cons_append, List.find?_cons]
  by_cases h : c.pos = i
  · have hb : (c.pos == i) = true := by simp [h]
    simp only [hb]; simp only [h, if_true]
  · have hb : (c.pos == i) = false := by simp [h]
    simp only [hb, h, if_false]

theorem chunkSize_absent (data : List ChunkIn) (i : Nat) (h : ∀ a ∈ data, a.pos ≠ i) : chunkSize data i = 0 := by
  unfold chunkSize
  have : data.reverse.find? (fun d => d.pos == i) = none := by
    rw [List.find?_eq_none]
    intro a ha
    simp at ha
    simp [h a ha]
  rw [this]

theorem pktSum_past (d : Nat) (init : List ChunkIn) (c : ChunkIn) (ps : List PacketIn) : ∀ (k : Nat), c.pos < k →
    pktSum d (init ++ [c]) k ps = pktSum d init k ps := by
  induction ps with
  | nil => intro k _; rfl
  | cons p ps ih =>
    intro k hk
    simp only [pktSum, chunkSize_snoc]
    have : ¬ (c.pos = k) := by omega
    simp only [this, if_false]
    rw [ih (k + 1) (by omega)]

theorem pktSum_snoc (d : Nat) (init : List ChunkIn) (c : ChunkIn) (hab : ∀ a ∈ init, a.pos ≠ c.pos) (ps : List PacketIn) :
    ∀ (k : Nat), k ≤ c.pos → c.pos < k + ps.length →
    pktSum d (init ++ [c]) k ps = pktSum d init k ps +
      (if (ps[c.pos - k]?).map (·.dir) = some d then c.bytes.length else 0) := by
  induction ps with
  | nil => intro k h1 h2; simp at h2; omega
  | cons p ps ih =>
    intro k h1 h2
    simp only [pktSum, chunkSize_snoc]
    by_cases hk : c.pos = k
    · subst hk
      simp only [if_true, Nat.sub_self, List.getElem?_cons_zero, Option.map_some, Option.some.injEq]
      rw [pktSum_past d init c ps (c.pos + 1) (by omega), chunkSize_absent init c.pos hab]
      split <;> omega
    · simp only [hk, if_false]
      have h3 : c.pos - k = (c.pos - (k + 1)) + 1 := by omega
      rw [ih (k + 1) (by omega) (by simp at h2; omega), h3, List.getElem?_cons_succ]
      omega

theorem pktSum_nil (d : Nat) (ps : List PacketIn) : ∀ (k : Nat), pktSum d [] k ps = 0 := by
  induction ps with
  | nil => intro k; rfl
  | cons p ps ih => intro k; simp [pktSum, ih, chunkSize]

/-- payload per direction, one term per chunk -/
def chSum (d : Nat) (packets : List PacketIn) (data : List ChunkIn) : Nat :=
  (data.map fun c => if dirOf packets c.pos = some d then c.bytes.length else 0).sum

theorem pktSum_eq_chSum_rev (d : Nat) (packets : List PacketIn) (l : List ChunkIn) :
    (l.reverse.map (·.pos)).Pairwise (· < ·) → (∀ c ∈ l, c.pos < packets.length) →
    pktSum d l.reverse 0 packets = chSum d packets l.reverse := by
  induction l with
  | nil => intro _ _; simp [pktSum_nil, chSum]
  | cons c l ih =>
    intro hpw hlt
    simp only [List.reverse_cons, List.map_append, List.map_cons, List.map_nil] at hpw ⊢
    rw [List.pairwise_append] at hpw
    obtain ⟨hp1, _, hp3⟩ := hpw
    have hab : ∀ a ∈ l.reverse, a.pos ≠ c.pos := by
      intro a ha
      have := hp3 a.pos (List.mem_map.mpr ⟨a, ha, rfl⟩) c.pos (by simp)
      omega
    rw [pktSum_snoc d l.reverse c hab packets 0 (Nat.zero_le _) (by have := hlt c (by simp); omega),
      ih hp1 (fun x hx => hlt x (by simp [hx]))]
    simp [chSum, dirOf]

theorem pktSum_eq_chSum (d : Nat) (packets : List PacketIn) (data : List ChunkIn)
    (hpw : (data.map (·.pos)).Pairwise (· < ·)) (hlt : ∀ c ∈ data, c.pos < packets.length) :
    pktSum d data 0 packets = chSum d packets data := by
  have := pktSum_eq_chSum_rev d packets data.reverse (by simpa using hpw) (by simpa using hlt)
  simpa using this

/-! ### the chunks against the content blocks and the segmentation runs -/

theorem dirBytes_cons (d : Nat) (c : Nat × Bytes) (cs : List (Nat × Bytes)) :
    dirBytes d (c :: cs) = (if c.1 = d then c.2 else []) ++ dirBytes d cs := by
  unfold dirBytes
  by_cases h : c.1 = d
  · simp [h]
  · simp [h]

theorem chunkDirs_spec (packets : List PacketIn) (data : List ChunkIn) : ∀ (cds : List (Nat × Bytes)),
    chunkDirs packets data = some cds →
    (∀ c ∈ data, c.pos < packets.length) ∧ (∀ c ∈ cds, ∃ p ∈ packets, p.dir = c.1) ∧
    (∀ d, (dirBytes d cds).length = chSum d packets data) ∧
    (cds.map (·.2.length)).sum = (data.map (·.bytes.length)).sum := by
  induction data with
  | nil => intro cds h; simp [chunkDirs] at h; subst h; simp [dirBytes, chSum]
  | cons c data ih =>
    intro cds h
    simp only [chunkDirs] at h
    split at h
    · rename_i dir r hdir hr
      simp at h; subst h
      obtain ⟨h1, h2, h3, h4⟩ := ih r hr
      have hpos : c.pos < packets.length ∧ ∃ p ∈ packets, p.dir = dir := by
        unfold dirOf at hdir
        cases hp : packets[c.pos]? with
        | none => simp [hp] at hdir
        | some p =>
          simp [hp] at hdir
          have := List.getElem?_eq_some_iff.mp hp
          obtain ⟨hlt, he⟩ := this
          exact ⟨hlt, p, by rw [← he]; exact List.getElem_mem _, hdir⟩
      refine ⟨?_, ?_, ?_, by simp [h4]⟩
      · intro x hx
        simp at hx
        rcases hx with rfl | hx
        · exact hpos.1
        · exact h1 x hx
      · intro x hx
        simp at hx
        rcases hx with rfl | hx
        · exact hpos.2
        · exact h2 x hx
      · intro d
        rw [dirBytes_cons]
        simp only [List.length_append, h3 d, chSum, List.map_cons, List.sum_cons, hdir, Option.some.injEq]
        split <;> simp
    · simp at h

theorem chSum_le (d : Nat) (packets : List PacketIn) (data : List ChunkIn) :
    chSum d packets data ≤ (data.map (·.bytes.length)).sum := by
  induction data with
  | nil => simp [chSum]
  | cons c t ih =>
    simp only [chSum, List.map_cons, List.sum_cons] at ih ⊢
    split <;> omega

theorem runSum_cds (d : Nat) (cds : List (Nat × Bytes)) :
    runSum d (cds.map fun c => (c.1, c.2.length)) = (dirBytes d cds).length := by
  induction cds with
  | nil => simp [runSum, dirBytes]
  | cons c t ih =>
    rw [dirBytes_cons, List.map_cons, runSum_cons, ih]
    simp only [List.length_append]
    split <;> simp

theorem runSum_segRuns (d : Nat) (l : List (Nat × Nat)) : runSum d (segRuns l) = runSum d l := by
  induction l with
  | nil => rfl
  | cons x rest ih =>
    obtain ⟨e, n⟩ := x
    simp only [segRuns]
    cases hs : segRuns rest with
    | nil =>
      rw [hs] at ih
      simp only [runSum_cons] at ih ⊢
      rw [← ih]
    | cons y rs =>
      obtain ⟨e', n'⟩ := y
      rw [hs] at ih
      simp only
      by_cases hee : e = e'
      · subst hee
        simp only [if_true, runSum_cons] at ih ⊢
        rw [← ih]
        split <;> omega
      · simp only [hee, if_false]
        rw [runSum_cons, ih, runSum_cons]

theorem segRuns_dirs (l : List (Nat × Nat)) : ∀ x ∈ segRuns l, ∃ y ∈ l, y.1 = x.1 := by
  induction l with
  | nil => intro x hx; simp [segRuns] at hx
  | cons a rest ih =>
    obtain ⟨e, n⟩ := a
    intro x hx
    simp only [segRuns] at hx
    cases hs : segRuns rest with
    | nil =>
      rw [hs] at hx
      simp at hx; subst hx
      exact ⟨(e, n), by simp, rfl⟩
    | cons y rs =>
      obtain ⟨e', n'⟩ := y
      rw [hs] at hx ih
      simp only at hx
      split at hx
      · simp at hx
        rcases hx with rfl | hx
        · exact ⟨(e, n), by simp, rfl⟩
        · obtain ⟨y, hy, he⟩ := ih x (by simp [hx])
          exact ⟨y, by simp [hy], he⟩
      · simp at hx
        rcases hx with rfl | hx
        · exact ⟨(e, n), by simp, rfl⟩
        · obtain ⟨y, hy, he⟩ := ih x (by simpa using hx)
          exact ⟨y, by simp [hy], he⟩

theorem mem_le_runSum (R : List (Nat × Nat)) (x : Nat × Nat) (hx : x ∈ R) : x.2 ≤ runSum x.1 R := by
  induction R with
  | nil => simp at hx
  | cons y t ih =>
    rw [runSum_cons]
    simp at hx
    rcases hx with rfl | hx
    · simp
    · have := ih hx; omega

end Pk.Index
