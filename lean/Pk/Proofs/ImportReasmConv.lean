/-
  Helper lemmas for Pk/Props/C05Reasm.lean, target (4): the whole reference reassembler (`reasm`,
  `tcpPacket`, `tcpFlush`) on a wire that holds one TCP conversation.
  This file: the references of queued pages, the flush that does nothing.
-/
import Pk.Proofs.ImportReasmCor

namespace Pk.Proofs.ImportReasm
open Pk.Import

/-! ### queued pages keep their packet references -/

theorem overlapWalk_refs (P : PRef → Prop) (s e : Nat) : ∀ (revq after : List Page) (bytes : Bytes),
    (∀ pg ∈ revq, P pg.ref) → (∀ pg ∈ after, P pg.ref) →
    (∀ pg ∈ (overlapWalk s e revq after bytes).1, P pg.ref) ∧
    (∀ pg ∈ (overlapWalk s e revq after bytes).2.1, P pg.ref) := by
  intro revq
  induction revq with
  | nil => intro after bytes _ h2; simp only [overlapWalk]; exact ⟨(by intro pg hm; cases hm), h2⟩
  | cons cur prev ih =>
    intro after bytes h1 h2
    have hc := h1 cur (List.mem_cons_self ..)
    have hp : ∀ pg ∈ prev, P pg.ref := fun pg hm => h1 pg (List.mem_cons_of_mem _ hm)
    have hcons : ∀ (x : Page), P x.ref → ∀ pg ∈ x :: after, P pg.ref := by
      intro x hx pg hm
      rcases List.mem_cons.mp hm with rfl | hm
      · exact hx
      · exact h2 pg hm
    have hrev : ∀ (x : Page), P x.ref → ∀ pg ∈ (x :: prev).reverse, P pg.ref := by
      intro x hx pg hm
      rcases List.mem_cons.mp (List.mem_reverse.mp hm) with rfl | hm
      · exact hx
      · exact hp pg hm
    rw [overlapWalk]
    split
    · exact ih _ _ hp (hcons cur hc)
    · simp only
      split
      · exact ⟨hrev cur hc, h2⟩
      · split
        · exact ih _ _ hp h2
        · split
          · exact ⟨hrev _ hc, h2⟩
          · split
            · exact ih _ _ hp (hcons _ hc)
            · split
              · exact ih _ _ hp (hcons _ hc)
              · exact ih _ _ hp (hcons cur hc)

theorem checkOverlap_refs (P : PRef → Prop) (h : Half) (q : Bool) (s : Nat) (b : Bytes) (r : PRef) (f : Bool)
    (hq : ∀ pg ∈ h.queue, P pg.ref) (hr : P r) :
    ∀ pg ∈ (checkOverlap h q s b r f).1.queue, P pg.ref := by
  have := overlapWalk_refs P s (seqAdd s b.length) h.queue.reverse [] b
    (fun pg hm => hq pg (List.mem_reverse.mp hm)) (by intro pg hm; cases hm)
  unfold checkOverlap
  generalize overlapWalk s (seqAdd s b.length) h.queue.reverse [] b = w at this
  obtain ⟨bf, af, bs⟩ := w
  obtain ⟨w1, w2⟩ := this
  simp only at w1 w2 ⊢
  split
  · intro pg hm
    simp only [List.mem_append, List.mem_singleton] at hm
    rcases hm with (hm | rfl) | hm
    · exact w1 pg hm
    · exact hr
    · exact w2 pg hm
  · intro pg hm
    rcases List.mem_append.mp hm with hm | hm
    · exact w1 pg hm
    · exact w2 pg hm

theorem checkOverlap_frame (h : Half) (q : Bool) (s : Nat) (b : Bytes) (r : PRef) (f : Bool) :
    (checkOverlap h q s b r f).1.lastSeen = h.lastSeen := by
  unfold checkOverlap
  simp only
  split <;> rfl

theorem addContiguous_left (q : List Page) : ∀ (l : Nat), ∀ pg ∈ (addContiguous q l).2.1, pg ∈ q := by
  induction q with
  | nil => intro l pg hm; simp [addContiguous] at hm
  | cons a rest ih =>
    intro l pg hm
    rw [addContiguous] at hm
    split at hm
    · exact List.mem_cons_of_mem _ (ih _ pg hm)
    · exact hm

theorem sendToConnection_refs (P : PRef → Prop) (st : Stream) (h : Half) (s : Nat) (b : Bytes) (r : PRef) (f : Bool)
    (hq : ∀ pg ∈ h.queue, P pg.ref) :
    (∀ pg ∈ (sendToConnection st h s b r f).2.1.queue, P pg.ref) ∧
    (sendToConnection st h s b r f).2.1.lastSeen = h.lastSeen := by
  unfold sendToConnection
  simp only
  split
  · split
    · exact ⟨(by intro pg hm; cases hm), rfl⟩
    · exact ⟨fun pg hm => hq pg (addContiguous_left _ _ pg hm), rfl⟩
  · split
    · exact ⟨(by intro pg hm; cases hm), rfl⟩
    · exact ⟨fun pg hm => hq pg (addContiguous_left _ _ pg hm), rfl⟩

/-- the part of `assembleHalf` after the decision "queue or deliver" -/
def phase2 (st : Stream) (g : Half) (seq : Nat) (queue : Bool) (p : Pkt) : Stream × Half :=
  let isEnd := p.rst || p.fin
  if queue then
    let (h', _) := checkOverlap g true seq p.payload p.ref isEnd
    (st, h')
  else
    let (bytes, seq') := overlapExisting g seq p.payload
    let (h', bytes') := checkOverlap g false seq' bytes p.ref isEnd
    if bytes'.length ≠ 0 ∨ isEnd ∨ p.syn then
      let (st', h'', nextSeq) := sendToConnection st h' seq' bytes' p.ref isEnd
      (st', { h'' with nextSeq := some (if p.fin then seqAdd nextSeq 1 else nextSeq) })
    else (st, h')

/-- the decision "queue or deliver" of `assembleHalf` -/
def phase1 (h : Half) (p : Pkt) : Nat × Half × Bool :=
  match h.nextSeq with
  | none =>
    if p.syn then (seqAdd p.seq 1, { h with nextSeq := some (seqAdd p.seq 1) }, false)
    else (p.seq, h, true)
  | some nx => if seqDiff nx p.seq > 0 then (p.seq, h, true) else (p.seq, h, false)

theorem assembleHalf_eq (st : Stream) (h : Half) (p : Pkt) :
    assembleHalf st h p =
      if h.closed then (st, h) else phase2 st (phase1 h p).2.1 (phase1 h p).1 (phase1 h p).2.2 p := by
  unfold assembleHalf phase2 phase1
  rfl

theorem phase1_frame (h : Half) (p : Pkt) :
    (phase1 h p).2.1.queue = h.queue ∧ (phase1 h p).2.1.lastSeen = h.lastSeen := by
  unfold phase1
  split
  · split <;> exact ⟨rfl, rfl⟩
  · split <;> exact ⟨rfl, rfl⟩

theorem phase2_refs (P : PRef → Prop) (st : Stream) (g : Half) (seq : Nat) (queue : Bool) (p : Pkt)
    (hq : ∀ pg ∈ g.queue, P pg.ref) (hr : P p.ref) :
    (∀ pg ∈ (phase2 st g seq queue p).2.queue, P pg.ref) ∧ (phase2 st g seq queue p).2.lastSeen = g.lastSeen := by
  unfold phase2
  cases queue with
  | true =>
    simp only [if_true]
    exact ⟨checkOverlap_refs P g true seq p.payload p.ref _ hq hr, by rw [checkOverlap_frame]⟩
  | false =>
    simp only [Bool.false_eq_true, if_false]
    have c1 := checkOverlap_refs P g false (overlapExisting g seq p.payload).2 (overlapExisting g seq p.payload).1
      p.ref (p.rst || p.fin) hq hr
    have c2 := checkOverlap_frame g false (overlapExisting g seq p.payload).2 (overlapExisting g seq p.payload).1
      p.ref (p.rst || p.fin)
    split
    · have s1 := sendToConnection_refs P st _ (overlapExisting g seq p.payload).2
        (checkOverlap g false (overlapExisting g seq p.payload).2 (overlapExisting g seq p.payload).1 p.ref (p.rst || p.fin)).2
        p.ref (p.rst || p.fin) c1
      exact ⟨s1.1, by rw [← c2]; exact s1.2⟩
    · exact ⟨c1, c2⟩

/-- whatever the packet: pages queued afterwards were queued before or belong to this packet, and
    `lastSeen` is not touched by the assembler -/
theorem assembleHalf_refs (P : PRef → Prop) (st : Stream) (h : Half) (p : Pkt)
    (hq : ∀ pg ∈ h.queue, P pg.ref) (hr : P p.ref) :
    (∀ pg ∈ (assembleHalf st h p).2.queue, P pg.ref) ∧ (assembleHalf st h p).2.lastSeen = h.lastSeen := by
  rw [assembleHalf_eq]
  split
  · exact ⟨hq, rfl⟩
  · have f := phase1_frame h p
    have := phase2_refs P st (phase1 h p).2.1 (phase1 h p).1 (phase1 h p).2.2 p (by rw [f.1]; exact hq) hr
    exact ⟨this.1, by rw [this.2, f.2]⟩

/-! ### a flush that finds nothing old -/

theorem skipFlushLoop_id (ts : Nat) (n : Nat) (st : Stream) (h : Half)
    (hq : ∀ pg ∈ h.queue, ¬ (pg.ref.ts + timeout < ts)) : skipFlushLoop ts n st h = (st, h) := by
  cases n with
  | zero => rfl
  | succ n =>
    rw [skipFlushLoop]
    split
    · rfl
    · split
      · rfl
      · rename_i pg rest hqq
        have := hq pg (by rw [hqq]; exact List.mem_cons_self ..)
        rw [if_neg this]

/-- `FlushCloseOlderThan` on the only connection, when neither a queued page nor the connection is
    older than the timeout: nothing happens -/
theorem tcpFlush_single (k ts : Nat) (c : TcpConn) (st : Stream) (u : Bool) (hs : c.stream = 0)
    (h1 : ∀ pg ∈ c.c2s.queue, ¬ (pg.ref.ts + timeout < ts)) (h2 : ∀ pg ∈ c.s2c.queue, ¬ (pg.ref.ts + timeout < ts))
    (hls : ¬ (c.c2s.lastSeen + timeout < ts)) :
    tcpFlush k ts [c] #[st] u = ([c], #[st], u) := by
  have hold : ¬ (c.lastSeen + timeout < ts) := by
    unfold TcpConn.lastSeen; omega
  rw [tcpFlush]
  split
  · simp [tcpFlush]
  · simp only [skipFlushLoop_id ts _ _ c.s2c h2, skipFlushLoop_id ts _ _ c.c2s h1, hs, hold, hls]
    simp [tcpFlush]
    refine ⟨?_, ?_⟩
    · cases c; simp only at hs; subst hs; rfl
    · intro a b hab
      rcases hab with hab | hab
      · rw [a] at hab; cases hab
      · rw [b] at hab; cases hab

end Pk.Proofs.ImportReasm
