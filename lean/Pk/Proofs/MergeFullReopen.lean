/-
  `Finalize` then `NewReader` for a writer that satisfies `WInv` and is within the capacity limits:
  the reader shows, for every record, the view the writer tracks (`WView`), and it is well-formed.
-/
import Pk.Proofs.MergeFullStack

namespace Pk.Index
open Pk Pk.Bytes

/-- `hostgroups_decode_gen` with the capacity bound in hosts (2^32 per family) instead of bytes -/
theorem hostgroups_decode_cap (gs : List HostGroup) (hgs : GroupsInv gs) :
    ∀ (p4 p6 : Bytes) (a b : Nat), p4.length = 4 * a → p6.length = 16 * b →
      (p4 ++ v4of gs).length ≤ 4 * 2 ^ 32 → (p6 ++ v6of gs).length ≤ 16 * 2 ^ 32 →
      readHostGroups (p4 ++ v4of gs) (p6 ++ v6of gs) (hostEntries gs a b) = .ok (gs.map HostGroup.toReader) := by
  induction gs with
  | nil => intros; simp [hostEntries, readHostGroups]
  | cons g gs ih =>
    intro p4 p6 a b h4 h6 hb4 hb6
    have hg : g.Inv := hgs g (by simp)
    have hrest : GroupsInv gs := fun x hx => hgs x (by simp [hx])
    have hal := hg.aligned
    have hne := hg.nonempty
    have hbd := hg.bound
    rcases hg.size with hs | hs
    · -- IPv4 group
      have hn : g.hosts.length = 4 * (g.hosts.length / 4) := by rw [hs] at hal; omega
      have hcnt : (g.hosts.length / 4 + 65536 - 1) % 65536 + 1 = g.hosts.length / 4 := by omega
      rw [v4of_cons4 g gs hs, v6of_cons4 g gs hs] at *
      simp only [List.length_append] at hb4
      have ha : a % 2 ^ 32 = a := Nat.mod_eq_of_lt (by omega)
      simp only [hostEntries, hs, show (4 : Nat) ≠ 16 by decide, if_false, readHostGroups, ha]
      simp only [show (0 : Nat) % 2 = 0 by rfl, if_true, hcnt]
      have hfit : ¬ (a * 4 + 4 * (g.hosts.length / 4) > (p4 ++ (g.hosts ++ v4of gs)).length) := by
        simp only [List.length_append]; omega
      simp only [hfit, if_false]
      have ih' := ih hrest (p4 ++ g.hosts) p6 (a + g.hosts.length / 4) b
        (by simp only [List.length_append]; omega) h6
        (by simp only [List.length_append, List.append_assoc] at *; omega) hb6
      rw [List.append_assoc] at ih'
      rw [ih']
      simp only [List.map_cons, HostGroup.toReader, hs]
      congr 2
      have := drop_take_mid p4 g.hosts (v4of gs)
      simpa [List.append_assoc, Nat.mul_comm, ← hn, h4] using this
    · -- IPv6 group
      have hn : g.hosts.length = 16 * (g.hosts.length / 16) := by rw [hs] at hal; omega
      have hcnt : (g.hosts.length / 16 + 65536 - 1) % 65536 + 1 = g.hosts.length / 16 := by omega
      rw [v4of_cons16 g gs hs, v6of_cons16 g gs hs] at *
      simp only [List.length_append] at hb6
      have hb : b % 2 ^ 32 = b := Nat.mod_eq_of_lt (by omega)
      simp only [hostEntries, hs, if_true, readHostGroups, hb]
      simp only [show (1 : Nat) % 2 = 0 ↔ False by decide, if_false, hcnt]
      have hfit : ¬ (b * 16 + 16 * (g.hosts.length / 16) > (p6 ++ (g.hosts ++ v6of gs)).length) := by
        simp only [List.length_append]; omega
      simp only [hfit, if_false]
      have ih' := ih hrest p4 (p6 ++ g.hosts) a (b + g.hosts.length / 16) h4
        (by simp only [List.length_append]; omega) hb4
        (by simp only [List.length_append, List.append_assoc] at *; omega)
      rw [List.append_assoc] at ih'
      rw [ih']
      simp only [List.map_cons, HostGroup.toReader, hs]
      congr 2
      have := drop_take_mid p6 g.hosts (v6of gs)
      simpa [List.append_assoc, Nat.mul_comm, ← hn, h6] using this

theorem v4of_length_le (gs : List HostGroup) (h : GroupsInv gs) : (v4of gs).length ≤ 65536 * gs.length := by
  induction gs with
  | nil => simp [v4of]
  | cons g gs ih =>
    have hg : g.Inv := h g (by simp)
    have ih' := ih (fun x hx => h x (by simp [hx]))
    have hb := hg.bound
    rcases hg.size with hs | hs
    · rw [v4of_cons4 g gs hs]; simp only [List.length_append, List.length_cons]; omega
    · rw [v4of_cons16 g gs hs]; simp only [List.length_cons]; omega

theorem v6of_length_le (gs : List HostGroup) (h : GroupsInv gs) : (v6of gs).length ≤ 65536 * gs.length := by
  induction gs with
  | nil => simp [v6of]
  | cons g gs ih =>
    have hg : g.Inv := h g (by simp)
    have ih' := ih (fun x hx => h x (by simp [hx]))
    have hb := hg.bound
    rcases hg.size with hs | hs
    · rw [v6of_cons4 g gs hs]; simp only [List.length_cons]; omega
    · rw [v6of_cons16 g gs hs]; simp only [List.length_append, List.length_cons]; omega

theorem hostgroups_decode_fits (w : Writer) (h : GroupsInv w.hostGroups) (hn : w.hostGroups.length ≤ 65536) :
    readHostGroups w.finalize.v4 w.finalize.v6 w.finalize.hostGroups = .ok (w.hostGroups.map HostGroup.toReader) := by
  have h4 := v4of_length_le _ h
  have h6 := v6of_length_le _ h
  have := hostgroups_decode_cap w.hostGroups h [] [] 0 0 rfl rfl (by simp only [List.nil_append]; omega)
    (by simp only [List.nil_append]; omega)
  simpa [Writer.finalize, v4of, v6of] using this

theorem readHostGroups_length (v4 v6 : Bytes) (es : List HGEntry) (gs : List RHostGroup)
    (h : readHostGroups v4 v6 es = .ok gs) : gs.length = es.length := by
  induction es generalizing gs with
  | nil => simp [readHostGroups] at h; subst h; rfl
  | cons e es ih =>
    simp only [readHostGroups] at h
    cases hr : readHostGroups v4 v6 es with
    | error e' =>
      rw [hr] at h
      split at h <;> (try split at h) <;> simp at h
    | ok gs' =>
      rw [hr] at h
      have := ih gs' hr
      split at h <;> (try split at h) <;> simp at h <;> (subst h; simp [this])

theorem hostEntries_length (gs : List HostGroup) (a b : Nat) : (hostEntries gs a b).length = gs.length := by
  induction gs generalizing a b with
  | nil => rfl
  | cons g gs ih =>
    simp only [hostEntries]
    split <;> simp [ih]

/-- a reopened file is within the capacity limits iff the writer was -/
theorem reopen_fits (w : Writer) (m : Reader) (hm : newReader w.finalize = .ok m) (hfit : m.Fits) : w.Fits := by
  obtain ⟨hf, _, _, hrg, hri⟩ := newReader_ok _ m hm
  obtain ⟨f1, f2, f3⟩ := hfit
  refine ⟨?_, ?_, ?_⟩
  · rw [hf] at f1; exact f1
  · rw [hri] at f2
    simpa [readImports, Writer.finalize] using f2
  · have := readHostGroups_length _ _ _ _ hrg
    rw [this] at f3
    have e : w.finalize.hostGroups = hostEntries w.hostGroups 0 0 := rfl
    rw [e, hostEntries_length] at f3
    exact f3

/-- the fields of a reopened file -/
theorem reopen_fields (w : Writer) (hw : WInv w) (hfit : w.Fits) (m : Reader) (hm : newReader w.finalize = .ok m) :
    m.f.ref = w.ref ∧ m.f.packets = w.packets ∧ m.f.data = w.blobs.flatten ∧ m.f.streams = w.streams ∧
    m.imports = w.imports ∧ m.hostGroups = w.hostGroups.map HostGroup.toReader := by
  obtain ⟨hf, _, _, hrg, hri⟩ := newReader_ok _ m hm
  rw [hostgroups_decode_fits w hw.groups hfit.groups] at hrg
  refine ⟨by rw [hf]; rfl, by rw [hf]; rfl, by rw [hf]; rfl, by rw [hf]; rfl, ?_, ?_⟩
  · rw [hri]; exact finalize_imports w hw.importsNoNul
  · injection hrg with h; exact h.symm

theorem reopen_idRange (f : FileModel) (m : Reader) (hm : newReader f = .ok m) :
    ∀ s ∈ m.f.streams, m.idMin ≤ s.id ∧ s.id ≤ m.idMax := by
  obtain ⟨hf, hmin, hmax, _, _⟩ := newReader_ok _ m hm
  intro s hs
  rw [hf] at hs
  have hmem : s.id ∈ f.streams.map (·.id) := List.mem_map.mpr ⟨s, hs, rfl⟩
  rw [hmin, hmax]
  exact ⟨(minList_le _ _).2 _ hmem, (le_maxList _ _).2 _ hmem⟩

/-- the reopened file shows what the writer tracked -/
theorem reopen_view (w : Writer) (hw : WInv w) (hfit : w.Fits) (m : Reader) (hm : newReader w.finalize = .ok m)
    (s : StreamRec) (v : StreamView) (hv : WView w s v) : m.view s = some v := by
  obtain ⟨e1, e2, e3, _, e5, e6⟩ := reopen_fields w hw hfit m hm
  obtain ⟨k, hl, hk, rfl⟩ := hv
  have hl' : Located m.imports.length m.f.packets m.f.data m.hostGroups s k := by
    rw [e2, e3, e5, e6]; exact hl
  rw [view_of_located m s k hl' hk]
  unfold Reader.firstPacket Reader.lastPacket Writer.fp Writer.lp
  rw [e1, e5]

/-- the reopened file is well-formed -/
theorem reopen_wf (w : Writer) (hw : WInv w) (hfit : w.Fits) (m : Reader) (hm : newReader w.finalize = .ok m) : m.WF := by
  obtain ⟨e1, e2, e3, e4, e5, e6⟩ := reopen_fields w hw hfit m hm
  refine ⟨?_, reopen_idRange _ m hm, by rw [e5]; exact hw.importsNodup, by rw [e5]; exact hw.importsNoNul, ?_, ?_, ?_⟩
  · intro g hg
    rw [e6] at hg
    obtain ⟨g0, hg0, rfl⟩ := List.mem_map.mp hg
    exact toReader_inv g0 (hw.groups g0 hg0)
  · intro s hs
    rw [e4] at hs; rw [e1]
    exact (hw.streams s hs).1
  · intro s hs
    rw [e4] at hs
    obtain ⟨_, k, _, hk⟩ := hw.streams s hs
    exact hk.2.2
  · intro s hs c hc
    rw [e4] at hs; rw [e2] at hc
    obtain ⟨_, k, hl, hk⟩ := hw.streams s hs
    have := hl.2.1
    rw [hc] at this
    injection this with h
    rw [h]; exact hk.1

end Pk.Index
