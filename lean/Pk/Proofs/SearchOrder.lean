/-
  Helper lemmas for C02: the sort comparators form a strict weak order.
-/
import Pk.Model.Search

namespace Pk.Proofs.Search
open Pk.Search

/-- strict weak order on a Bool-valued relation -/
structure SWO {α : Type} (r : α → α → Bool) : Prop where
  irrefl : ∀ a, r a a = false
  trans : ∀ a b c, r a b = true → r b c = true → r a c = true
  incomp : ∀ a b c, r a b = false → r b c = false → r a c = false

namespace SWO
variable {α : Type} {r : α → α → Bool}

theorem asymm (h : SWO r) : ∀ a b, r a b = true → r b a = false := by
  intro a b hab
  cases hba : r b a with
  | false => rfl
  | true => have := h.trans a b a hab hba; rw [h.irrefl] at this; cases this

theorem lt_of_lt_of_le (h : SWO r) : ∀ a b c, r a b = true → r c b = false → r a c = true := by
  intro a b c hab hcb
  cases hac : r a c with
  | true => rfl
  | false => have := h.incomp a c b hac hcb; rw [hab] at this; cases this

theorem lt_of_le_of_lt (h : SWO r) : ∀ a b c, r b a = false → r b c = true → r a c = true := by
  intro a b c hba hbc
  cases hac : r a c with
  | true => rfl
  | false => have := h.incomp b a c hba hac; rw [hbc] at this; cases this

theorem flip (h : SWO r) : SWO (fun a b => r b a) where
  irrefl := fun a => h.irrefl a
  trans := fun a b c hab hbc => h.trans c b a hbc hab
  incomp := fun a b c hab hbc => h.incomp c b a hbc hab

theorem comap {β : Type} (h : SWO r) (g : β → α) : SWO (fun a b => r (g a) (g b)) where
  irrefl := fun a => h.irrefl (g a)
  trans := fun a b c => h.trans (g a) (g b) (g c)
  incomp := fun a b c => h.incomp (g a) (g b) (g c)

def lex (r s : α → α → Bool) (a b : α) : Bool :=
  if r a b then true else if r b a then false else s a b

theorem lex_swo {s : α → α → Bool} (hr : SWO r) (hs : SWO s) : SWO (lex r s) where
  irrefl := by intro a; simp [lex, hr.irrefl, hs.irrefl]
  trans := by
    intro a b c
    unfold lex
    have t1 := hr.trans a b c
    have i1 := hr.incomp a b c
    have i2 := hr.incomp c b a
    have a1 := hr.asymm a b
    have a2 := hr.asymm b c
    have l1 := hr.lt_of_lt_of_le a b c
    have l2 := hr.lt_of_le_of_lt a b c
    have st := hs.trans a b c
    cases hab : r a b <;> cases hbc : r b c <;> cases hba : r b a <;> cases hcb : r c b <;> simp_all
  incomp := by
    intro a b c
    unfold lex
    have i1 := hr.incomp a b c
    have i2 := hr.incomp c b a
    have l1 := hr.lt_of_lt_of_le c b a
    have l2 := hr.lt_of_le_of_lt c b a
    have st := hs.incomp a b c
    cases hab : r a b <;> cases hbc : r b c <;> cases hba : r b a <;> cases hcb : r c b <;> simp_all

end SWO

private theorem natLt_swo : SWO (fun a b : Nat => decide (a < b)) where
  irrefl := by intro a; simp
  trans := by intro a b c; simp; omega
  incomp := by intro a b c; simp; omega

private theorem bytesLt_irrefl : ∀ a, bytesLt a a = false := by
  intro a
  induction a with
  | nil => rfl
  | cons x xs ih => simp [bytesLt, ih]

private theorem bytesLt_trans : ∀ a b c, bytesLt a b = true → bytesLt b c = true → bytesLt a c = true := by
  intro a
  induction a with
  | nil =>
    intro b c
    cases b <;> cases c <;> simp [bytesLt]
  | cons x xs ih =>
    intro b c
    cases b with
    | nil => simp [bytesLt]
    | cons y ys =>
      cases c with
      | nil => simp [bytesLt]
      | cons z zs =>
        simp only [bytesLt]
        intro h1 h2
        split at h1
        · split at h2
          · rw [if_pos (by omega)]
          · split at h2
            · cases h2
            · rw [if_pos (by omega)]
        · split at h1
          · cases h1
          · split at h2
            · rw [if_pos (by omega)]
            · split at h2
              · cases h2
              · rw [if_neg (by omega), if_neg (by omega)]
                exact ih ys zs h1 h2

private theorem bytesLt_incomp : ∀ a b c, bytesLt a b = false → bytesLt b c = false → bytesLt a c = false := by
  intro a
  induction a with
  | nil =>
    intro b c
    cases b <;> cases c <;> simp [bytesLt]
  | cons x xs ih =>
    intro b c
    cases b with
    | nil => cases c <;> simp [bytesLt]
    | cons y ys =>
      cases c with
      | nil => simp [bytesLt]
      | cons z zs =>
        simp only [bytesLt]
        intro h1 h2
        split at h1
        · cases h1
        · split at h2
          · cases h2
          · split at h1
            · rw [if_neg (by omega), if_pos (by omega)]
            · split at h2
              · rw [if_neg (by omega), if_pos (by omega)]
              · rw [if_neg (by omega), if_neg (by omega)]
                exact ih ys zs h1 h2

private theorem bytesLt_swo : SWO bytesLt := ⟨bytesLt_irrefl, bytesLt_trans, bytesLt_incomp⟩

private theorem fieldLt_swo (f : Field) : SWO (fieldLt f) := by
  cases f
  · exact natLt_swo.comap (fun r : Rec => r.id)
  · exact natLt_swo.comap (fun r : Rec => r.cbytes)
  · exact natLt_swo.comap (fun r : Rec => r.sbytes)
  · exact natLt_swo.comap (fun r : Rec => r.ftime)
  · exact natLt_swo.comap (fun r : Rec => r.ltime)
  · exact bytesLt_swo.comap (fun r : Rec => r.chost)
  · exact bytesLt_swo.comap (fun r : Rec => r.shost)
  · exact natLt_swo.comap (fun r : Rec => r.cport)
  · exact natLt_swo.comap (fun r : Rec => r.sport)

private theorem keyLt_swo (k : SortKey) : SWO (keyLt k) := by
  cases hd : k.desc
  · have : keyLt k = fieldLt k.field := by funext a b; simp [keyLt, hd]
    rw [this]; exact fieldLt_swo _
  · have : keyLt k = fun a b => fieldLt k.field b a := by funext a b; simp [keyLt, hd]
    rw [this]; exact (fieldLt_swo _).flip

theorem less_swo (keys : List SortKey) : SWO (less keys) := by
  induction keys with
  | nil => exact ⟨fun _ => rfl, fun _ _ _ h => by simp [less] at h, fun _ _ _ _ _ => rfl⟩
  | cons k ks ih =>
    have : less (k :: ks) = SWO.lex (keyLt k) (less ks) := by funext a b; rfl
    rw [this]; exact SWO.lex_swo (keyLt_swo k) ih

theorem less_irrefl (keys : List SortKey) : ∀ a, less keys a a = false := (less_swo keys).irrefl

theorem less_trans (keys : List SortKey) :
    ∀ a b c, less keys a b = true → less keys b c = true → less keys a c = true := (less_swo keys).trans

/-- incomparability (`¬ a<b`, i.e. `b ≤ a`) is transitive: `¬ a<b → ¬ b<c → ¬ a<c` -/
theorem less_incomp_trans (keys : List SortKey) :
    ∀ a b c, less keys a b = false → less keys b c = false → less keys a c = false := (less_swo keys).incomp

/-- `a < b` implies `¬ b < a` -/
theorem less_asymm (keys : List SortKey) : ∀ a b, less keys a b = true → less keys b a = false :=
  (less_swo keys).asymm

/-- mixed transitivity: `a < b`, `¬ c < b` (b ≤ c) gives `a < c` -/
theorem less_lt_of_lt_of_le (keys : List SortKey) :
    ∀ a b c, less keys a b = true → less keys c b = false → less keys a c = true :=
  (less_swo keys).lt_of_lt_of_le

/-- mixed transitivity: `¬ b < a` (a ≤ b), `b < c` gives `a < c` -/
theorem less_lt_of_le_of_lt (keys : List SortKey) :
    ∀ a b c, less keys b a = false → less keys b c = true → less keys a c = true :=
  (less_swo keys).lt_of_le_of_lt

theorem primLess_side (keys : List SortKey) :
    (∀ x y z, primLess keys x y = true → primLess keys z y = false → primLess keys x z = true) ∧
    (∀ x y, less keys x y = true → primLess keys y x = false) := by
  refine ⟨(less_swo (keys.take 1)).lt_of_lt_of_le, ?_⟩
  intro x y h
  cases keys with
  | nil => rfl
  | cons k ks =>
    show less [k] y x = false
    simp only [less] at h ⊢
    have hk := keyLt_swo k
    cases hxy : keyLt k x y
    · cases hyx : keyLt k y x
      · simp
      · simp [hxy, hyx] at h
    · simp [hk.asymm x y hxy]

end Pk.Proofs.Search
