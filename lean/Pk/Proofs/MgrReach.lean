/- Helper lemmas for Pk/Props/MgrReach.lean. -/
import Pk.Model.Manager
namespace Pk.Proofs.MgrReach
open Pk.Mgr
end Pk.Proofs.MgrReach
