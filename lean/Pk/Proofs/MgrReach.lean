/- Helper lemmas for Pk/Props/MgrReach.lean: bridges between the statements there and the inductive
   forms of Pk/Proofs/MgrReachBound.lean (`PB`: all ids below a bound) and
   Pk/Proofs/MgrReachGraph.lean (`G`: reference graph, `FJ`: parser facts). -/
import Pk.Model.Manager
import Pk.Proofs.MgrReachBound
import Pk.Proofs.MgrReachGraph
namespace Pk.Proofs.MgrReach
open Pk.Mgr

/-! ## `all` and `next` -/

theorem step_all_next_other (s : St) (e : Ev) (st : Started)
    (h : ∀ p u c a b d, e ≠ .importDone p u c a b d) :
    (step s e st).1.all = s.all ∧ (step s e st).1.next = s.next :=
  (MgrTags.step_frame s e st).2.2 h

theorem step_importDone_all_next (s : St) (processed usednew : Nat) (created : List (Nat × List Nat))
    (upd rst add : List Nat) (st : Started) (jn : Nat) (held : List Nat) (hj : s.jImport = some (jn, held)) :
    (step s (.importDone processed usednew created upd rst add) st).1.all = jn + usednew ∧
    (step s (.importDone processed usednew created upd rst add) st).1.next =
      if created = [] then s.next else jn + usednew := by
  obtain ⟨s2, hs, h0, h1⟩ := MgrTags.step_importDone_some s processed usednew created upd rst add st jn held hj
  rw [hs.2.1, hs.2.2]
  by_cases hc : created = []
  · rw [if_pos hc]; exact ⟨(h0 hc).2.1, (h0 hc).2.2⟩
  · rw [if_neg hc]
    obtain ⟨s1, _, e2, e3, hf⟩ := h1 hc
    exact ⟨hf.all.trans e2, hf.next.trans e3⟩

theorem step_importDone_none' (s : St) (processed usednew : Nat) (created : List (Nat × List Nat))
    (upd rst add : List Nat) (st : Started) (hj : s.jImport = none) :
    (step s (.importDone processed usednew created upd rst add) st).1 = s := by
  rw [MgrTags.step_importDone_none _ _ _ _ _ _ _ _ hj]

/-! ## sorted tables: entries are lookups -/
theorem mem_iff_sget {L : List (String × Tag)} (hw : (L.map (·.1)).Pairwise (· < ·)) (n : String) (t : Tag) :
    (n, t) ∈ L ↔ sget L n = some t :=
  ⟨MgrConv.mem_sget_of_sorted L hw n t, MgrConv.sget_mem L n t⟩

/-! ## the reference graph in the form of the Props file -/
theorem G_of_props {L : List (String × Tag)}
    (hrb : ∀ nt ∈ L, ∀ r ∈ nt.2.refs, ∀ tr, sget L r = some tr → nt.1 ∈ tr.refBy)
    (hre : ∀ nt ∈ L, ∀ r ∈ nt.2.refs, (sget L r).isSome = true) : G L := by
  intro n t ht r hr
  have hm := MgrConv.sget_mem L n t ht
  have h1 := hre (n, t) hm r hr
  cases e : sget L r with
  | none => rw [e] at h1; cases h1
  | some tr => exact ⟨tr, rfl, hrb (n, t) hm r hr tr e⟩

theorem props_of_G {L : List (String × Tag)} (hw : (L.map (·.1)).Pairwise (· < ·)) (g : G L) :
    (∀ nt ∈ L, ∀ r ∈ nt.2.refs, ∀ tr, sget L r = some tr → nt.1 ∈ tr.refBy) ∧
    (∀ nt ∈ L, ∀ r ∈ nt.2.refs, (sget L r).isSome = true) := by
  constructor
  · intro nt hm r hr tr htr
    obtain ⟨tr', h', hn⟩ := g nt.1 nt.2 (MgrConv.mem_sget_of_sorted L hw nt.1 nt.2 hm) r hr
    rw [htr] at h'; cases h'; exact hn
  · intro nt hm r hr
    obtain ⟨tr', h', _⟩ := g nt.1 nt.2 (MgrConv.mem_sget_of_sorted L hw nt.1 nt.2 hm) r hr
    rw [h']; rfl

end Pk.Proofs.MgrReach
