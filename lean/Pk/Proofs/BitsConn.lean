/-
  Helper lemmas for C17: ConnectedBitmask.  Property theorems are in Pk/Props/C17.lean.
-/
import Pk.Model.Bits
set_option linter.unusedSimpArgs false
namespace Pk.Proofs.Bits
open Pk.Bits
namespace Conn
open Pk.Bits.Conn

/-- copy of `Pk.Props.C17.Conn.RInv` (Props imports Proofs) -/
def RInv : Pk.Bits.Conn → Prop
  | [] => True
  | [e] => e.lo ≤ e.hi
  | e :: e2 :: es => e.lo ≤ e.hi ∧ e.hi + 1 < e2.lo ∧ RInv (e2 :: es)

/-- every run of `c` starts at or above `k` (only the head matters for sorted lists) -/
def LB (k : Nat) : Pk.Bits.Conn → Prop
  | [] => True
  | e :: _ => k ≤ e.lo

theorem rinv_cons (e : Run) (es : Pk.Bits.Conn) :
    RInv (e :: es) ↔ e.lo ≤ e.hi ∧ LB (e.hi + 2) es ∧ RInv es := by
  cases es <;> simp [RInv, LB]; omega

@[simp] theorem rinv_nil : RInv [] := trivial
@[simp] theorem lb_nil (k) : LB k [] := trivial
@[simp] theorem lb_cons (k e es) : LB k (e :: es) ↔ k ≤ e.lo := Iff.rfl

theorem LB.mono {k k' : Nat} {c : Pk.Bits.Conn} (h : LB k c) (hk : k' ≤ k) : LB k' c := by
  cases c <;> simp_all [LB]; omega

theorem isSet_of_lb {k : Nat} {c : Pk.Bits.Conn} (h : LB k c) {x : Nat} (hx : x < k) : isSet c x = false := by
  cases c with
  | nil => rfl
  | cons e es => simp [LB] at h; simp [isSet]; omega

theorem lb_mono (k k' : Nat) (c : Pk.Bits.Conn) (h : LB k c) (hk : k' ≤ k) : LB k' c := h.mono hk
theorem isSet_of_lb' (k : Nat) (c : Pk.Bits.Conn) (x : Nat) (h : LB k c) (hx : x < k) : isSet c x = false :=
  isSet_of_lb h hx
grind_pattern lb_mono => LB k c, LB k' c
grind_pattern isSet_of_lb' => LB k c, isSet c x

theorem isSet_cons {e : Run} {es : Pk.Bits.Conn} (h : LB e.lo es) (x : Nat) :
    isSet (e :: es) x = (decide (e.lo ≤ x) && decide (x ≤ e.hi) || isSet es x) := by
  simp only [isSet]
  by_cases h1 : x < e.lo
  · simp [h1, isSet_of_lb h h1]; omega
  · by_cases h2 : x ≤ e.hi <;> simp [h1, h2]
    omega

theorem isSet_cons' {e : Run} {es : Pk.Bits.Conn} (h : RInv (e :: es)) (x : Nat) :
    isSet (e :: es) x = (decide (e.lo ≤ x) && decide (x ≤ e.hi) || isSet es x) := by
  rw [rinv_cons] at h
  exact isSet_cons (h.2.1.mono (by omega)) x


theorem set_inv_lb (c : Pk.Bits.Conn) (b : Nat) (h : RInv c) :
    RInv (Conn.set c b) ∧ ∀ k, LB k c → k ≤ b → LB k (Conn.set c b) := by
  fun_induction Conn.set c b <;> simp_all [rinv_cons] <;> grind


theorem set_isSet (c : Pk.Bits.Conn) (b : Nat) (h : RInv c) (x : Nat) :
    isSet (Conn.set c b) x = (x == b || isSet c x) := by
  fun_induction Conn.set c b <;> simp_all [rinv_cons, isSet] <;> grind

theorem unset_inv_lb (c : Pk.Bits.Conn) (b : Nat) (h : RInv c) :
    RInv (Conn.unset c b) ∧ ∀ k, LB k c → LB k (Conn.unset c b) := by
  fun_induction Conn.unset c b <;> simp_all [rinv_cons] <;> grind

theorem unset_isSet (c : Pk.Bits.Conn) (b : Nat) (h : RInv c) (x : Nat) :
    isSet (Conn.unset c b) x = (x != b && isSet c x) := by
  fun_induction Conn.unset c b <;> simp_all [rinv_cons, isSet] <;> grind


theorem and_inv_lb (a b : Pk.Bits.Conn) (ha : RInv a) (hb : RInv b) :
    RInv (Conn.and a b) ∧ (∀ k, LB k a → LB k (Conn.and a b)) ∧ (∀ k, LB k b → LB k (Conn.and a b)) := by
  fun_induction Conn.and a b <;> grind [= rinv_cons, = lb_cons, rinv_nil, lb_nil]

theorem and_isSet (a b : Pk.Bits.Conn) (ha : RInv a) (hb : RInv b) (x : Nat) :
    isSet (Conn.and a b) x = (isSet a x && isSet b x) := by
  fun_induction Conn.and a b <;> grind [= rinv_cons, = lb_cons, rinv_nil, lb_nil, isSet]


def curOk (cur : Option Run) (as bs : Pk.Bits.Conn) : Prop :=
  match cur with
  | none => True
  | some n => n.lo ≤ n.hi ∧ LB n.lo as ∧ LB n.lo bs

def curLB (k : Nat) (cur : Option Run) : Prop :=
  match cur with
  | none => True
  | some n => k ≤ n.lo

def curSet (cur : Option Run) (x : Nat) : Bool :=
  match cur with
  | none => false
  | some n => decide (n.lo ≤ x) && decide (x ≤ n.hi)

theorem orGo_inv_lb (cur : Option Run) (a b : Pk.Bits.Conn) (ha : RInv a) (hb : RInv b)
    (hc : curOk cur a b) :
    RInv (Conn.orGo cur a b) ∧ ∀ k, LB k a → LB k b → curLB k cur → LB k (Conn.orGo cur a b) := by
  fun_induction Conn.orGo cur a b <;> grind [= rinv_cons, = lb_cons, rinv_nil, lb_nil, curOk, curLB]

theorem orGo_isSet (cur : Option Run) (a b : Pk.Bits.Conn) (ha : RInv a) (hb : RInv b)
    (hc : curOk cur a b) (x : Nat) :
    isSet (Conn.orGo cur a b) x = (curSet cur x || isSet a x || isSet b x) := by
  fun_induction Conn.orGo cur a b <;> grind [= rinv_cons, = lb_cons, rinv_nil, lb_nil, curOk, curSet, isSet]


/-- weak invariant: sorted, non-empty, disjoint runs that may touch (output of `xorGo`) -/
def WInv : Pk.Bits.Conn → Prop
  | [] => True
  | [e] => e.lo ≤ e.hi
  | e :: e2 :: es => e.lo ≤ e.hi ∧ e.hi < e2.lo ∧ WInv (e2 :: es)

theorem winv_cons (e : Run) (es : Pk.Bits.Conn) :
    WInv (e :: es) ↔ e.lo ≤ e.hi ∧ LB (e.hi + 1) es ∧ WInv es := by
  cases es <;> simp [WInv, LB]; omega
@[simp] theorem winv_nil : WInv [] := trivial

theorem rinv_winv (c : Pk.Bits.Conn) (h : RInv c) : WInv c := by
  induction c with
  | nil => trivial
  | cons e es ih => rw [rinv_cons] at h; rw [winv_cons]; exact ⟨h.1, h.2.1.mono (by omega), ih h.2.2⟩

theorem xorGo_inv_lb (a b : Pk.Bits.Conn) (ha : RInv a) (hb : RInv b) :
    WInv (Conn.xorGo a b) ∧ ∀ k, LB k a → LB k b → LB k (Conn.xorGo a b) := by
  fun_induction Conn.xorGo a b <;> grind [= rinv_cons, = winv_cons, = lb_cons, rinv_nil, winv_nil, lb_nil, rinv_winv]


theorem xorGo_isSet (a b : Pk.Bits.Conn) (ha : RInv a) (hb : RInv b) (x : Nat) :
    isSet (Conn.xorGo a b) x = (isSet a x != isSet b x) := by
  fun_induction Conn.xorGo a b <;> grind [= rinv_cons, = lb_cons, rinv_nil, lb_nil, isSet]

theorem mergeTouching_inv_lb (c : Pk.Bits.Conn) (h : WInv c) :
    RInv (Conn.mergeTouching c) ∧ ∀ k, LB k c → LB k (Conn.mergeTouching c) := by
  fun_induction Conn.mergeTouching c <;> grind [= rinv_cons, = winv_cons, = lb_cons, rinv_nil, winv_nil, lb_nil]

theorem mergeTouching_isSet (c : Pk.Bits.Conn) (h : WInv c) (x : Nat) :
    isSet (Conn.mergeTouching c) x = isSet c x := by
  fun_induction Conn.mergeTouching c <;> grind [= winv_cons, = lb_cons, winv_nil, lb_nil, isSet]


/-- every run of `c` ends at or below `k` -/
def UB (k : Nat) : Pk.Bits.Conn → Prop
  | [] => True
  | e :: es => e.hi ≤ k ∧ UB k es
@[simp] theorem ub_nil (k) : UB k [] := trivial
theorem ub_cons (k e es) : UB k (e :: es) ↔ e.hi ≤ k ∧ UB k es := Iff.rfl

theorem lb_append (k : Nat) (p q : Pk.Bits.Conn) (hp : LB k p) (hq : LB k q) : LB k (p ++ q) := by
  cases p <;> simp_all [LB]

theorem rinv_append (k : Nat) (p q : Pk.Bits.Conn) (hp : RInv p) (hq : RInv q) (hu : UB k p)
    (hl : LB (k + 2) q) : RInv (p ++ q) := by
  induction p with
  | nil => simpa using hq
  | cons e es ih =>
    rw [rinv_cons] at hp; rw [ub_cons] at hu
    rw [List.cons_append, rinv_cons]
    refine ⟨hp.1, ?_, ih hp.2.2 hu.2⟩
    exact lb_append _ _ _ hp.2.1 (hl.mono (by omega))

theorem isSet_append (p q : Pk.Bits.Conn) (h : RInv (p ++ q)) (x : Nat) :
    isSet (p ++ q) x = (isSet p x || isSet q x) := by
  induction p with
  | nil => simp [isSet]
  | cons e es ih =>
    rw [List.cons_append] at h ⊢
    have h' := h
    rw [rinv_cons] at h'
    rw [isSet_cons' h, ih h'.2.2]
    have : LB e.lo es := by
      have := h'.2.1
      cases es <;> simp_all [LB]; omega
    rw [isSet_cons this, Bool.or_assoc]

theorem subInner_spec (a : Run) (bs : Pk.Bits.Conn) (ha : a.lo ≤ a.hi) (hb : RInv bs) :
    (RInv (subInner a bs).1 ∧ LB a.lo (subInner a bs).1 ∧ UB a.hi (subInner a bs).1) ∧
    (RInv (subInner a bs).2 ∧ ∀ k, LB k bs → LB k (subInner a bs).2) := by
  fun_induction subInner a bs <;> grind [= rinv_cons, = lb_cons, = ub_cons, rinv_nil, lb_nil, ub_nil]

theorem subInner_isSet (a : Run) (bs : Pk.Bits.Conn) (ha : a.lo ≤ a.hi) (hb : RInv bs) (x : Nat) :
    isSet (subInner a bs).1 x = (decide (a.lo ≤ x) && decide (x ≤ a.hi) && !isSet bs x) ∧
    (a.hi ≤ x → isSet (subInner a bs).2 x = isSet bs x) := by
  fun_induction subInner a bs <;> grind [= rinv_cons, = lb_cons, rinv_nil, lb_nil, isSet]


theorem sub_inv_lb (a b : Pk.Bits.Conn) (ha : RInv a) (hb : RInv b) :
    RInv (Conn.sub a b) ∧ ∀ k, LB k a → LB k (Conn.sub a b) := by
  fun_induction Conn.sub a b with
  | case1 => simp [LB]
  | case2 a as' bs r ih =>
    rw [rinv_cons] at ha
    have h1 := subInner_spec a bs ha.1 hb
    have ih' := ih ha.2.2 h1.2.1
    constructor
    · exact rinv_append a.hi _ _ h1.1.1 ih'.1 h1.1.2.2 (ih'.2 _ ha.2.1)
    · intro k hk
      simp at hk
      exact lb_append _ _ _ (h1.1.2.1.mono hk) (ih'.2 _ (ha.2.1.mono (by omega)))

theorem sub_isSet (a b : Pk.Bits.Conn) (ha : RInv a) (hb : RInv b) (x : Nat) :
    isSet (Conn.sub a b) x = (isSet a x && !isSet b x) := by
  fun_induction Conn.sub a b with
  | case1 => simp [isSet]
  | case2 a as' bs r ih =>
    have hr := (sub_inv_lb (a :: as') bs ha hb).1
    rw [Conn.sub] at hr
    rw [isSet_append _ _ hr, isSet_cons' ha]
    rw [rinv_cons] at ha
    have h1 := subInner_spec a bs ha.1 hb
    have h2 := subInner_isSet a bs ha.1 hb x
    rw [ih ha.2.2 h1.2.1, h2.1]
    grind

/-- the per-run action of `Inject`'s shifting loop -/
def injF (bit : Nat) (e : Run) : Run :=
  if bit > e.hi then e else if bit ≤ e.lo then ⟨e.lo + 1, e.hi + 1⟩ else ⟨e.lo, e.hi + 1⟩

theorem injectRev_eq_map (l : List Run) (bit : Nat) (h : l.Pairwise (fun x y => y.hi ≤ x.hi)) :
    injectRev l bit = l.map (injF bit) := by
  induction l with
  | nil => rfl
  | cons e rest ih =>
    rw [List.pairwise_cons] at h
    simp only [injectRev, List.map_cons]
    split
    · have : rest.map (injF bit) = rest := by
        conv => rhs; rw [← List.map_id rest]
        apply List.map_congr_left
        intro r hr; have := h.1 r hr; simp [injF]; omega
      rw [this]; simp [injF, *]
    · rw [ih h.2]; simp [injF, *]

theorem rinv_mem_lb (e : Run) (es : Pk.Bits.Conn) (h : RInv (e :: es)) : ∀ r ∈ es, e.hi + 2 ≤ r.lo ∧ e.hi + 2 ≤ r.hi := by
  induction es generalizing e with
  | nil => simp
  | cons e2 es ih =>
    rw [rinv_cons] at h
    intro r hr
    have h2 := h.2.2
    rw [rinv_cons] at h2
    simp at hr
    rcases hr with rfl | hr
    · have := h.2.1; simp at this; omega
    · have := ih e2 h.2.2 r hr
      have := h.2.1; simp at this; omega

theorem rinv_pairwise (c : Pk.Bits.Conn) (h : RInv c) : c.Pairwise (fun x y => x.hi ≤ y.hi) := by
  induction c with
  | nil => simp
  | cons e es ih =>
    rw [List.pairwise_cons]
    refine ⟨fun r hr => ?_, ih ((rinv_cons _ _).1 h).2.2⟩
    have := rinv_mem_lb e es h r hr; omega

theorem injectShift_eq_map (c : Pk.Bits.Conn) (bit : Nat) (h : RInv c) :
    injectShift c bit = c.map (injF bit) := by
  unfold injectShift
  rw [injectRev_eq_map _ _ (List.pairwise_reverse.2 (rinv_pairwise c h))]
  simp

theorem map_injF_inv_lb (c : Pk.Bits.Conn) (bit : Nat) (h : RInv c) :
    RInv (c.map (injF bit)) ∧ (∀ k, LB k c → LB k (c.map (injF bit))) ∧
      (∀ k, bit ≤ k → LB k c → LB (k + 1) (c.map (injF bit))) := by
  induction c with
  | nil => simp
  | cons e es ih => grind [= rinv_cons, = lb_cons, rinv_nil, lb_nil, injF]

theorem map_injF_isSet (c : Pk.Bits.Conn) (bit : Nat) (h : RInv c) (x : Nat) (hx : x ≠ bit) :
    isSet (c.map (injF bit)) x = if x < bit then isSet c x else isSet c (x - 1) := by
  induction c with
  | nil => simp [isSet]
  | cons e es ih => grind [= rinv_cons, = lb_cons, rinv_nil, lb_nil, injF, isSet]


theorem inject_inv (c : Pk.Bits.Conn) (bit : Nat) (v : Bool) (h : RInv c) : RInv (inject c bit v) := by
  unfold inject
  simp only [injectShift_eq_map c bit h]
  have := (map_injF_inv_lb c bit h).1
  split
  · exact (set_inv_lb _ _ this).1
  · exact (unset_inv_lb _ _ this).1

theorem inject_isSet (c : Pk.Bits.Conn) (bit : Nat) (v : Bool) (h : RInv c) (x : Nat) :
    isSet (inject c bit v) x = if x < bit then isSet c x else if x = bit then v else isSet c (x - 1) := by
  unfold inject
  simp only [injectShift_eq_map c bit h]
  have h1 := (map_injF_inv_lb c bit h).1
  by_cases hx : x = bit
  · subst hx
    cases v <;> simp [set_isSet _ _ h1, unset_isSet _ _ h1]
  · have := map_injF_isSet c bit h x hx
    cases v <;> simp [set_isSet _ _ h1, unset_isSet _ _ h1, hx, this]

theorem make_inv (lo hi : Nat) (h : lo ≤ hi) : RInv (make lo hi) := by simp [make, RInv, h]
theorem make_isSet (lo hi x : Nat) : (make lo hi).isSet x = (decide (lo ≤ x) && decide (x ≤ hi)) := by
  simp [make, isSet]; grind

theorem flip_inv (c : Pk.Bits.Conn) (b : Nat) (h : RInv c) : RInv (Conn.flip c b) := by
  unfold Conn.flip; split
  · exact (unset_inv_lb c b h).1
  · exact (set_inv_lb c b h).1

theorem flip_isSet (c : Pk.Bits.Conn) (b : Nat) (h : RInv c) (x : Nat) :
    isSet (Conn.flip c b) x = if x = b then !isSet c x else isSet c x := by
  unfold Conn.flip; split
  · rw [unset_isSet c b h]; by_cases hx : x = b <;> simp_all
  · rw [set_isSet c b h]; by_cases hx : x = b <;> simp_all

theorem isZero_iff (c : Pk.Bits.Conn) (h : RInv c) : c.isZero = true ↔ ∀ x, c.isSet x = false := by
  cases c with
  | nil => simp [isZero, isSet]
  | cons e es =>
    rw [rinv_cons] at h
    simp [isZero]
    refine ⟨e.lo, ?_⟩
    simp [isSet]; omega

theorem isSet_true_ge {c : Pk.Bits.Conn} {k x : Nat} (h : LB k c) (hx : isSet c x = true) : k ≤ x := by
  by_cases hk : x < k
  · rw [isSet_of_lb h hk] at hx; cases hx
  · omega


theorem len_single (e : Run) : len [e] = e.hi + 1 := by simp [len]
theorem len_cons2 (e e2 : Run) (es : Pk.Bits.Conn) : len (e :: e2 :: es) = len (e2 :: es) := by
  simp [len, List.getLast?_cons_cons]

theorem len_spec (c : Pk.Bits.Conn) (h : RInv c) :
    (∀ x, len c ≤ x → isSet c x = false) ∧
    (∀ e es, c = e :: es → e.hi < len c ∧ isSet c (len c - 1) = true) := by
  induction c with
  | nil => simp [isSet]
  | cons e es ih =>
    cases es with
    | nil => 
      simp [RInv] at h
      simp [len_single, isSet]
      exact ⟨fun x h1 _ => by omega, h⟩
    | cons e2 es =>
      have h' := h
      rw [rinv_cons] at h'
      have ih' := ih h'.2.2
      have h2 := ih'.2 e2 es rfl
      have hlb : e.hi + 2 ≤ e2.lo := h'.2.1
      have h3 := h'.2.2; rw [rinv_cons] at h3
      rw [len_cons2]
      refine ⟨fun x hx => ?_, ?_⟩
      · rw [isSet_cons' h, ih'.1 x hx]; simp; omega
      · intro e' es' heq
        simp at heq
        rw [← heq.1]
        refine ⟨by omega, ?_⟩
        rw [isSet_cons' h, h2.2]; simp

theorem len_sup (c : Pk.Bits.Conn) (h : RInv c) :
    (∀ x, c.len ≤ x → c.isSet x = false) ∧ (0 < c.len → c.isSet (c.len - 1) = true) := by
  refine ⟨(len_spec c h).1, ?_⟩
  cases c with
  | nil => simp [len]
  | cons e es => intro _; exact ((len_spec _ h).2 e es rfl).2


theorem countP_interval (lo hi n : Nat) :
    (List.range n).countP (fun x => decide (lo ≤ x) && decide (x ≤ hi)) = min n (hi + 1) - min n lo := by
  induction n with
  | zero => simp
  | succ n ih =>
    rw [List.range_succ, List.countP_append, ih]
    simp [List.countP_cons]
    split <;> omega

theorem countP_or_disjoint (l : List Nat) (p q : Nat → Bool) (h : ∀ x, p x = true → q x = false) :
    l.countP (fun x => p x || q x) = l.countP p + l.countP q := by
  induction l with
  | nil => simp
  | cons a l ih =>
    simp only [List.countP_cons, ih]
    have := h a
    cases hp : p a <;> cases hq : q a <;> simp_all <;> omega

theorem onesCount_card_ge (c : Pk.Bits.Conn) (h : RInv c) (n : Nat) (hn : len c ≤ n) :
    (List.range n).countP c.isSet = c.onesCount := by
  induction c with
  | nil => simp [onesCount]; intro x _; rfl
  | cons e es ih =>
    have h' := h
    rw [rinv_cons] at h'
    have hl := (len_spec _ h).2 e es rfl
    have hles : len es ≤ n := by
      cases es with
      | nil => simp [len]
      | cons e2 es => rw [len_cons2] at hn; exact hn
    have : (isSet (e :: es)) = fun x => (decide (e.lo ≤ x) && decide (x ≤ e.hi)) || isSet es x := by
      funext x; exact isSet_cons' h x
    rw [this, countP_or_disjoint, countP_interval, ih h'.2.2 hles, onesCount]
    · have := h'.1; omega
    · intro x hx
      simp at hx
      exact isSet_of_lb h'.2.1 (by omega)

theorem onesCount_card (c : Pk.Bits.Conn) (h : RInv c) :
    c.onesCount = (List.range c.len).countP c.isSet :=
  (onesCount_card_ge c h _ (Nat.le_refl _)).symm


theorem isSet_head {e : Run} {es : Pk.Bits.Conn} (h : RInv (e :: es)) : isSet (e :: es) e.lo = true := by
  rw [rinv_cons] at h; simp [isSet]; omega

theorem eq_of_isSet_eq (a b : Pk.Bits.Conn) (ha : RInv a) (hb : RInv b)
    (h : ∀ x, isSet a x = isSet b x) : a = b := by
  induction a generalizing b with
  | nil =>
    cases b with
    | nil => rfl
    | cons f fs => have := h f.lo; rw [isSet_head hb] at this; simp [isSet] at this
  | cons e es ih =>
    cases b with
    | nil => have := h e.lo; rw [isSet_head ha] at this; simp [isSet] at this
    | cons f fs =>
      have ha' := ha; have hb' := hb
      rw [rinv_cons] at ha' hb'
      have hlo : e.lo = f.lo := by
        have h1 := h e.lo; rw [isSet_head ha] at h1
        have h2 := h f.lo; rw [isSet_head hb] at h2
        have := isSet_true_ge (c := f :: fs) (k := f.lo) (by simp) h1.symm
        have := isSet_true_ge (c := e :: es) (k := e.lo) (by simp) h2
        omega
      have hhi : e.hi = f.hi := by
        have h1 := h (e.hi + 1); have h2 := h (f.hi + 1)
        rw [isSet_cons' ha, isSet_cons' hb] at h1 h2
        have := isSet_of_lb ha'.2.1 (x := e.hi + 1) (by omega)
        have := isSet_of_lb hb'.2.1 (x := f.hi + 1) (by omega)
        grind
      have hef : e = f := by cases e; cases f; simp_all
      subst hef
      congr 1
      apply ih _ ha'.2.2 hb'.2.2
      intro x
      have h1 := h x
      rw [isSet_cons' ha, isSet_cons' hb] at h1
      by_cases hx : x < e.hi + 2
      · rw [isSet_of_lb ha'.2.1 hx, isSet_of_lb hb'.2.1 hx]
      · grind

theorem equal_iff (a b : Pk.Bits.Conn) (ha : RInv a) (hb : RInv b) :
    Conn.equal a b = true ↔ a.isSet = b.isSet := by
  simp only [Conn.equal, decide_eq_true_eq]
  constructor
  · intro h; rw [h]
  · intro h; exact eq_of_isSet_eq a b ha hb (fun x => congrFun h x)

theorem rinv_append' (p q : Pk.Bits.Conn) (hp : RInv p) (hq : RInv q)
    (h : ∀ r ∈ p, LB (r.hi + 2) q) : RInv (p ++ q) := by
  induction p with
  | nil => simpa using hq
  | cons e es ih =>
    have hp' := hp
    rw [rinv_cons] at hp'
    rw [List.cons_append, rinv_cons]
    refine ⟨hp'.1, ?_, ih hp'.2.2 (fun r hr => h r (List.mem_cons_of_mem _ hr))⟩
    cases es with
    | nil => simpa using h e (by simp)
    | cons e2 es => simpa using hp'.2.1

theorem rinv_of_append (p q : Pk.Bits.Conn) (h : RInv (p ++ q)) :
    RInv p ∧ RInv q ∧ ∀ r ∈ p, LB (r.hi + 2) q := by
  induction p with
  | nil => simpa using h
  | cons e es ih =>
    rw [List.cons_append, rinv_cons] at h
    have ih' := ih h.2.2
    refine ⟨?_, ih'.2.1, ?_⟩
    · rw [rinv_cons]; refine ⟨h.1, ?_, ih'.1⟩
      cases es <;> simp_all [LB]
    · intro r hr
      simp at hr
      rcases hr with rfl | hr
      · cases es with
        | nil => simpa using h.2.1
        | cons e2 es =>
          have h1 : r.hi + 2 ≤ e2.lo := by simpa using h.2.1
          have h2 := ih'.1; rw [rinv_cons] at h2
          exact (ih'.2.2 e2 (by simp)).mono (by omega)
      · exact ih'.2.2 r hr

theorem rinv_snoc (p : Pk.Bits.Conn) (e : Run) :
    RInv (p ++ [e]) ↔ RInv p ∧ e.lo ≤ e.hi ∧ ∀ r ∈ p, r.hi + 2 ≤ e.lo := by
  constructor
  · intro h
    have := rinv_of_append _ _ h
    exact ⟨this.1, by simpa [RInv] using this.2.1, fun r hr => by simpa using this.2.2 r hr⟩
  · intro h
    exact rinv_append' _ _ h.1 (by simpa [RInv] using h.2.1) (fun r hr => by simpa using h.2.2 r hr)

def inRun (e : Run) (y : Nat) : Bool := decide (e.lo ≤ y) && decide (y ≤ e.hi)

theorem isSet_snoc (p : Pk.Bits.Conn) (e : Run) (h : RInv (p ++ [e])) (y : Nat) :
    isSet (p ++ [e]) y = (isSet p y || inRun e y) := by
  rw [isSet_append _ _ h]; simp [isSet, inRun]
  by_cases h1 : y < e.lo <;> by_cases h2 : y ≤ e.hi <;> simp [h1, h2] <;> omega

theorem isSet_of_ub (p : Pk.Bits.Conn) (y : Nat) (h : ∀ r ∈ p, r.hi < y) : isSet p y = false := by
  induction p with
  | nil => rfl
  | cons e es ih =>
    have := h e (by simp)
    simp only [isSet]
    rw [ih (fun r hr => h r (List.mem_cons_of_mem _ hr))]
    split
    · rfl
    · simp; omega


theorem isSet_cons_in {e : Run} {es : Pk.Bits.Conn} (h : LB e.lo es) (x : Nat) :
    isSet (e :: es) x = (inRun e x || isSet es x) := isSet_cons h x

theorem extractGo_spec (rev acc : Pk.Bits.Conn) (bit : Nat)
    (h1 : RInv rev.reverse) (h2 : RInv acc) (h3 : LB (bit + 1) acc) (h4 : ∀ r ∈ rev, LB (r.hi + 1) acc) :
    RInv (extractGo rev acc bit).1 ∧
    (∀ x, isSet (extractGo rev acc bit).1 x =
      ((if x < bit then isSet rev.reverse x else isSet rev.reverse (x + 1)) || isSet acc x)) ∧
    (extractGo rev acc bit).2 = isSet rev.reverse bit := by
  fun_induction extractGo rev acc bit
  case case1 => simp [isSet]; exact h2
  all_goals
    grind [= rinv_snoc, isSet_snoc, rinv_append', isSet_append, isSet_of_ub, inRun, = rinv_cons, = lb_cons, isSet_cons_in]


theorem extract_spec (c : Pk.Bits.Conn) (bit : Nat) (h : RInv c) :
    RInv (extract c bit).1 ∧
    (∀ x, isSet (extract c bit).1 x = (if x < bit then isSet c x else isSet c (x + 1))) ∧
    (extract c bit).2 = isSet c bit := by
  have := extractGo_spec c.reverse [] bit (by simpa using h) trivial trivial (fun _ _ => trivial)
  simpa [extract, isSet] using this

/-- any predicate satisfying the defining equations of `Pk.Props.C17.Conn.RInv` is this `RInv`
    (the Props file states its own copy of the invariant; Props imports Proofs). -/
theorem rinv_unique (P : Pk.Bits.Conn → Prop) (h0 : P [])
    (h1 : ∀ e, P [e] ↔ e.lo ≤ e.hi)
    (h2 : ∀ e e2 es, P (e :: e2 :: es) ↔ (e.lo ≤ e.hi ∧ e.hi + 1 < e2.lo ∧ P (e2 :: es))) :
    ∀ c, P c ↔ RInv c := by
  intro c
  induction c with
  | nil => simp [h0]
  | cons e es ih =>
    cases es with
    | nil => simp [h1, RInv]
    | cons e2 es => rw [h2, ih]; simp [RInv]

theorem or_inv (a b : Pk.Bits.Conn) (ha : RInv a) (hb : RInv b) : RInv (Conn.or a b) :=
  (orGo_inv_lb none a b ha hb trivial).1

theorem or_isSet (a b : Pk.Bits.Conn) (ha : RInv a) (hb : RInv b) (x : Nat) :
    isSet (Conn.or a b) x = (isSet a x || isSet b x) := by
  have := orGo_isSet none a b ha hb trivial x
  simpa [curSet, Conn.or] using this

theorem xor_inv (a b : Pk.Bits.Conn) (ha : RInv a) (hb : RInv b) : RInv (Conn.xor a b) :=
  (mergeTouching_inv_lb _ (xorGo_inv_lb a b ha hb).1).1

theorem xor_isSet (a b : Pk.Bits.Conn) (ha : RInv a) (hb : RInv b) (x : Nat) :
    isSet (Conn.xor a b) x = (isSet a x != isSet b x) := by
  unfold Conn.xor
  rw [mergeTouching_isSet _ (xorGo_inv_lb a b ha hb).1, xorGo_isSet a b ha hb]

end Conn
end Pk.Proofs.Bits
