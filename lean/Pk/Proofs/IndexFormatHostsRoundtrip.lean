/-
  Host addresses: what `add` / `placeHosts` return, stability of host indexes under later additions, and
  the writer-level invariant "every record resolves to the addresses of its stream" (helper lemmas for C01
  `roundtrip_hosts`).
-/
import Pk.Proofs.IndexFormatMeta
namespace Pk.Index
open Pk Pk.Bytes

/-- host `i` of a writer group (what the reader's `get` returns for the same bytes) -/
def HostGroup.hostAt (g : HostGroup) (i : Nat) : Bytes := (g.hosts.drop (g.hostSize * i)).take g.hostSize

theorem toReader_get (g : HostGroup) (i : Nat) : g.toReader.get i = g.hostAt i := rfl

theorem isPrefixOf_take (host l : Bytes) (h : host.isPrefixOf l = true) : l.take host.length = host := by
  have := List.isPrefixOf_iff_prefix.mp h
  obtain ⟨t, rfl⟩ := this
  simp

theorem findHostAux_spec (hs : Nat) (host : Bytes) (hlen : host.length = hs) (fuel : Nat) :
    ∀ (l : Bytes) (i k : Nat), findHostAux hs host fuel l i = some k →
      ∃ j, k = i + j ∧ (l.drop (hs * j)).take hs = host ∧ hs * j + hs ≤ l.length := by
  induction fuel with
  | zero => intro l i k h; simp [findHostAux] at h
  | succ fuel ih =>
    intro l i k h
    cases l with
    | nil => simp [findHostAux] at h
    | cons b t =>
      simp only [findHostAux] at h
      split at h
      · rename_i hp
        simp at h; subst h
        have ht := isPrefixOf_take host (b :: t) hp
        refine ⟨0, by simp, by simpa [hlen] using ht, ?_⟩
        have := congrArg List.length ht
        simp only [List.length_take] at this
        omega
      · obtain ⟨j, hk, hj, hb⟩ := ih _ _ _ h
        refine ⟨j + 1, by omega, ?_, ?_⟩
        · rw [Nat.mul_add, Nat.mul_one, Nat.add_comm, ← List.drop_drop]; exact hj
        · simp only [List.length_drop] at hb; rw [Nat.mul_add, Nat.mul_one]; omega

theorem take_drop_append_left (a b : Bytes) (o n : Nat) (h : o + n ≤ a.length) :
    ((a ++ b).drop o).take n = (a.drop o).take n := by
  rw [List.drop_append_of_le_length (by omega), List.take_append_of_le_length (by simp; omega)]

/-- `add`: the returned index holds the host; hosts already in the table stay where they are -/
theorem add_spec (g g' : HostGroup) (host : Bytes) (i : Nat) (added : Bool) (hg : g.Inv) (hh : HostAddr host)
    (h : g.add host = some (g', i, added)) :
    g'.hostSize = g.hostSize ∧ g'.hostAt i = host ∧ g.hostSize * i + g.hostSize ≤ g'.hosts.length ∧
    (∀ j, g.hostSize * j + g.hostSize ≤ g.hosts.length → g'.hostAt j = g.hostAt j) ∧ g.hosts.length ≤ g'.hosts.length := by
  have hne : g.hosts.length ≠ 0 := by have := hg.nonempty; omega
  have hal := hg.aligned
  have hbd := hg.bound
  have hsz := hg.size
  unfold HostGroup.add at h
  simp only [hne, if_false] at h
  split at h
  · simp at h
  · rename_i hs
    have hs' : g.hostSize = host.length := by simpa using hs
    split at h
    · rename_i k hk
      simp at h
      obtain ⟨rfl, rfl, _⟩ := h
      unfold findHost at hk
      have hz : g.hostSize ≠ 0 := by rcases hsz with h | h <;> omega
      simp only [hz, if_false] at hk
      obtain ⟨j, hkj, hj, hb⟩ := findHostAux_spec g.hostSize host hs'.symm _ _ _ _ hk
      have hk' : k = j := by omega
      have hjlt : j < 65536 := by rcases hsz with h | h <;> rw [h] at hb <;> omega
      have hmod : k % 65536 = j := by rw [hk']; exact Nat.mod_eq_of_lt hjlt
      refine ⟨rfl, ?_, ?_, fun _ _ => rfl, Nat.le_refl _⟩
      · unfold HostGroup.hostAt; rw [hmod]; exact hj
      · rw [hmod]; exact hb
    · split at h
      · simp at h
      · rename_i hcap
        simp at h
        obtain ⟨rfl, rfl, _⟩ := h
        obtain ⟨q, hq⟩ := Nat.dvd_of_mod_eq_zero hal
        have hz : 0 < g.hostSize := by rcases hsz with h | h <;> omega
        have hidx : (g.hosts.length + host.length) / g.hostSize - 1 = q := by
          rw [← hs', hq]
          have : g.hostSize * q + g.hostSize = g.hostSize * (q + 1) := by rw [Nat.mul_add, Nat.mul_one]
          rw [this, Nat.mul_div_cancel_left _ hz]; omega
        have hqlt : q < 65536 := by rcases hsz with h | h <;> rw [h] at hq <;> omega
        have hmod : ((g.hosts.length + host.length) / g.hostSize - 1) % 65536 = q := by rw [hidx]; exact Nat.mod_eq_of_lt hqlt
        refine ⟨rfl, ?_, ?_, ?_, by simp⟩
        · unfold HostGroup.hostAt
          simp only [hmod]
          rw [← hq, List.drop_left, hs']; simp
        · simp only [hmod, List.length_append]; omega
        · intro j hj
          unfold HostGroup.hostAt
          exact take_drop_append_left _ _ _ _ hj

end Pk.Index

namespace Pk.Index
open Pk Pk.Bytes

def HostGroup.Valid (g : HostGroup) (j : Nat) : Prop := g.hostSize * j + g.hostSize ≤ g.hosts.length

/-- `g'` holds every host of `g` at the same index -/
def GroupExt (g g' : HostGroup) : Prop :=
  g'.hostSize = g.hostSize ∧ ∀ j, g.Valid j → (g'.Valid j ∧ g'.hostAt j = g.hostAt j)

theorem GroupExt.refl (g : HostGroup) : GroupExt g g := ⟨rfl, fun _ h => ⟨h, rfl⟩⟩

theorem GroupExt.trans {a b c : HostGroup} (h1 : GroupExt a b) (h2 : GroupExt b c) : GroupExt a c := by
  refine ⟨h2.1.trans h1.1, fun j hj => ?_⟩
  obtain ⟨v1, e1⟩ := h1.2 j hj
  obtain ⟨v2, e2⟩ := h2.2 j v1
  exact ⟨v2, e2.trans e1⟩

theorem add_ext (g g' : HostGroup) (host : Bytes) (i : Nat) (added : Bool) (hg : g.Inv) (hh : HostAddr host)
    (h : g.add host = some (g', i, added)) : GroupExt g g' ∧ g'.Valid i ∧ g'.hostAt i = host := by
  obtain ⟨hsz, hat, hv, hst, hlen⟩ := add_spec g g' host i added hg hh h
  refine ⟨⟨hsz, fun j hj => ⟨?_, hst j hj⟩⟩, ?_, hat⟩
  · unfold HostGroup.Valid at *; rw [hsz]; omega
  · unfold HostGroup.Valid; rw [hsz]; exact hv

/-- every group of `gs` is extended, position by position, in `gs'` -/
def GroupsExt (gs gs' : List HostGroup) : Prop :=
  ∀ (k : Nat) (g : HostGroup), gs[k]? = some g → ∃ g', gs'[k]? = some g' ∧ GroupExt g g'

theorem GroupsExt.refl (gs : List HostGroup) : GroupsExt gs gs := fun _ g h => ⟨g, h, GroupExt.refl g⟩

theorem GroupsExt.cons {g g' : HostGroup} {gs gs' : List HostGroup} (h : GroupExt g g') (ht : GroupsExt gs gs') :
    GroupsExt (g :: gs) (g' :: gs') := by
  intro k x hx
  cases k with
  | zero => simp at hx; subst hx; exact ⟨g', by simp, h⟩
  | succ k => simp at hx; simpa using ht k x hx

theorem add_unchanged (g g' : HostGroup) (host : Bytes) (i : Nat) (hne : g.hosts.length ≠ 0)
    (h : g.add host = some (g', i, false)) : g' = g := by
  have := add_hosts g host hne h
  simp at this
  cases g; cases g'; simp at this ⊢; exact ⟨this.2, this.1⟩

theorem placeHosts_spec (gs : List HostGroup) (c s : Bytes) (hc : HostAddr c) (hs : HostAddr s) (hgs : GroupsInv gs) :
    ∀ {gs' : List HostGroup} {gid ci si : Nat}, placeHosts gs c s = some (gs', gid, ci, si) →
      GroupsExt gs gs' ∧ ∃ g', gs'[gid]? = some g' ∧ g'.Valid ci ∧ g'.Valid si ∧ g'.hostAt ci = c ∧ g'.hostAt si = s := by
  induction gs with
  | nil =>
    intro gs' gid ci si h
    simp only [placeHosts, add_empty] at h
    split at h
    · simp at h
    · rename_i g2 sid b heq
      simp at h
      obtain ⟨rfl, rfl, rfl, rfl⟩ := h
      have hinv : ({ hosts := c, hostSize := c.length } : HostGroup).Inv := by
        refine ⟨hc, by simp, ?_, ?_⟩ <;> rcases hc with h | h <;> simp [h]
      obtain ⟨hext, hv, hat⟩ := add_ext _ g2 s sid b hinv hs heq
      have hv0 : ({ hosts := c, hostSize := c.length } : HostGroup).Valid 0 := by simp [HostGroup.Valid]
      have h0 : ({ hosts := c, hostSize := c.length } : HostGroup).hostAt 0 = c := by simp [HostGroup.hostAt]
      obtain ⟨v0, e0⟩ := hext.2 0 hv0
      exact ⟨fun k g hk => by simp at hk, g2, by simp, v0, hv, e0.trans h0, hat⟩
  | cons g gs ih =>
    intro gs' gid ci si h
    have hg : g.Inv := hgs g (by simp)
    have hrest : GroupsInv gs := fun x hx => hgs x (by simp [hx])
    have hne : g.hosts.length ≠ 0 := by have := hg.nonempty; omega
    simp only [placeHosts] at h
    split at h
    · cases hp : placeHosts gs c s with
      | none => simp [hp] at h
      | some r =>
        obtain ⟨gs2, gid2, ci2, si2⟩ := r
        simp [hp] at h
        obtain ⟨rfl, rfl, rfl, rfl⟩ := h
        obtain ⟨hext, g', hg', rest⟩ := ih hrest hp
        exact ⟨GroupsExt.cons (GroupExt.refl g) hext, g', by simpa using hg', rest⟩
    · rename_i g1 cid added heq1
      have hg1 : g1.Inv := add_inv g c hg heq1
      obtain ⟨hext1, hv1, hat1⟩ := add_ext g g1 c cid added hg hc heq1
      split at h
      · cases hp : placeHosts gs c s with
        | none => simp [hp] at h
        | some r =>
          obtain ⟨gs2, gid2, ci2, si2⟩ := r
          simp [hp] at h
          obtain ⟨rfl, rfl, rfl, rfl⟩ := h
          obtain ⟨hext, g', hg', rest⟩ := ih hrest hp
          have hback : (if added = true then g1.pop else g1) = g := by
            cases added with
            | true => simp [pop_add g g1 c hne heq1]
            | false => simp [add_unchanged g g1 c cid hne heq1]
          rw [hback]
          exact ⟨GroupsExt.cons (GroupExt.refl g) hext, g', by simpa using hg', rest⟩
      · rename_i g2 sid b heq2
        simp at h
        obtain ⟨rfl, rfl, rfl, rfl⟩ := h
        obtain ⟨hext2, hv2, hat2⟩ := add_ext g1 g2 s sid b hg1 hs heq2
        obtain ⟨v1', e1'⟩ := hext2.2 cid hv1
        exact ⟨GroupsExt.cons (hext1.trans hext2) (GroupsExt.refl gs), g2, by simp, v1', hv2, e1'.trans hat1, hat2⟩

end Pk.Index

namespace Pk.Index
open Pk Pk.Bytes

theorem GroupsExt.length_le {gs gs' : List HostGroup} (h : GroupsExt gs gs') : gs.length ≤ gs'.length := by
  cases hl : gs.length with
  | zero => omega
  | succ n =>
    have hn : n < gs.length := by omega
    obtain ⟨g', hg', _⟩ := h n gs[n] (by simp [hn])
    have : n < gs'.length := by
      rcases Nat.lt_or_ge n gs'.length with h | h
      · exact h
      · simp [List.getElem?_eq_none h] at hg'
    omega

theorem GroupsExt.trans {a b c : List HostGroup} (h1 : GroupsExt a b) (h2 : GroupsExt b c) : GroupsExt a c := by
  intro k g hk
  obtain ⟨g1, hg1, e1⟩ := h1 k g hk
  obtain ⟨g2, hg2, e2⟩ := h2 k g1 hg1
  exact ⟨g2, hg2, e1.trans e2⟩

/-- the record resolves, in the host table `gs`, to the addresses of its stream -/
def HostOf (gs : List HostGroup) (s : StreamIn) (rec_ : StreamRec) : Prop :=
  ∃ g, gs[rec_.hg]? = some g ∧ g.Valid rec_.ch ∧ g.Valid rec_.sh ∧ g.hostAt rec_.ch = s.client ∧ g.hostAt rec_.sh = s.server

theorem HostOf.mono {gs gs' : List HostGroup} (h : GroupsExt gs gs') {s : StreamIn} {r : StreamRec} (hr : HostOf gs s r) :
    HostOf gs' s r := by
  obtain ⟨g, hg, v1, v2, e1, e2⟩ := hr
  obtain ⟨g', hg', hext⟩ := h _ g hg
  obtain ⟨v1', e1'⟩ := hext.2 _ v1
  obtain ⟨v2', e2'⟩ := hext.2 _ v2
  exact ⟨g', hg', v1', v2', e1'.trans e1, e2'.trans e2⟩

inductive Zip (R : StreamIn → StreamRec → Prop) : List StreamIn → List StreamRec → Prop
  | nil : Zip R [] []
  | cons {s r ss rs} : R s r → Zip R ss rs → Zip R (s :: ss) (r :: rs)

theorem Zip.append {R} {ss : List StreamIn} {rs : List StreamRec} (h : Zip R ss rs) {s : StreamIn} {r : StreamRec}
    (hr : R s r) : Zip R (ss ++ [s]) (rs ++ [r]) := by
  induction h with
  | nil => exact Zip.cons hr Zip.nil
  | cons h1 _ ih => exact Zip.cons h1 ih

theorem Zip.get {R} {ss : List StreamIn} {rs : List StreamRec} (h : Zip R ss rs) (i : Nat) (s : StreamIn)
    (hs : ss[i]? = some s) : ∃ r, rs[i]? = some r ∧ R s r := by
  induction h generalizing i with
  | nil => simp at hs
  | cons h1 _ ih =>
    cases i with
    | zero => simp at hs; subst hs; exact ⟨_, by simp, h1⟩
    | succ i => simp at hs; simpa using ih i hs

theorem Zip.mono {R R' : StreamIn → StreamRec → Prop} (f : StreamRec → StreamRec) (hf : ∀ s r, R s r → R' s (f r))
    {ss : List StreamIn} {rs : List StreamRec} (h : Zip R ss rs) : Zip R' ss (rs.map f) := by
  induction h with
  | nil => exact Zip.nil
  | cons h1 _ ih => exact Zip.cons (hf _ _ h1) ih

theorem rebase_hosts (w : Writer) (fs : Nat) (gs' : List HostGroup) (hext : GroupsExt w.hostGroups gs') (ss : List StreamIn)
    (h : Zip (HostOf w.hostGroups) ss w.streams) : Zip (HostOf gs') ss (w.rebase fs).2 := by
  unfold Writer.rebase
  have hid : Zip (HostOf gs') ss w.streams := by
    have := Zip.mono (R' := HostOf gs') id (fun s r hr => HostOf.mono hext hr) h
    simpa using this
  split
  · exact hid
  · split
    · exact Zip.mono _ (fun s r hr => by
        obtain ⟨g, hg, rest⟩ := HostOf.mono hext hr
        exact ⟨g, hg, rest⟩) h
    · exact hid

theorem addStream_hosts (w w' : Writer) (ss : List StreamIn) (s : StreamIn) (hw : GroupsInv w.hostGroups)
    (hz : Zip (HostOf w.hostGroups) ss w.streams) (hs : s.AddrWF) (hcap : w'.hostGroups.length ≤ 65536)
    (h : w.addStream s = .ok (w', true)) :
    Zip (HostOf w'.hostGroups) (ss ++ [s]) w'.streams ∧ GroupsExt w.hostGroups w'.hostGroups := by
  obtain ⟨p0, pl, gid, cid, sid, cds, recs, _, _, hp, _, _, hst, _⟩ := addStream_spec w w' s h
  obtain ⟨hext, g', hg', v1, v2, e1, e2⟩ := placeHosts_spec w.hostGroups s.client s.server hs.1 hs.2 hw hp
  refine ⟨?_, hext⟩
  rw [hst]
  refine (rebase_hosts w _ _ hext ss hz).append ?_
  have hgid : gid < w'.hostGroups.length := by
    rcases Nat.lt_or_ge gid w'.hostGroups.length with h | h
    · exact h
    · simp [List.getElem?_eq_none h] at hg'
  have hmod : gid % 65536 = gid := Nat.mod_eq_of_lt (by omega)
  exact ⟨g', by simp only [mkStreamRec, hmod]; exact hg', v1, v2, e1, e2⟩

theorem addAll_ext (ss : List StreamIn) : ∀ (w w' : Writer), GroupsInv w.hostGroups → (∀ s ∈ ss, s.AddrWF) →
    w.addAll ss = some w' → GroupsExt w.hostGroups w'.hostGroups := by
  induction ss with
  | nil => intro w w' _ _ h; simp [Writer.addAll] at h; subst h; exact GroupsExt.refl _
  | cons s ss ih =>
    intro w w' hw hwf h
    simp only [Writer.addAll] at h
    split at h
    · rename_i w1 h1
      obtain ⟨_, _, gid, cid, sid, _, _, _, _, hp, _⟩ := addStream_spec w w1 s h1
      have hs := hwf s (by simp)
      obtain ⟨hext, _⟩ := placeHosts_spec w.hostGroups s.client s.server hs.1 hs.2 hw hp
      have hw1 := addStream_inv w w1 s true hs hw h1
      exact hext.trans (ih w1 w' hw1 (fun x hx => hwf x (by simp [hx])) h)
    · simp at h

theorem addAll_hosts (ss : List StreamIn) : ∀ (w w' : Writer) (done : List StreamIn), GroupsInv w.hostGroups →
    Zip (HostOf w.hostGroups) done w.streams → (∀ s ∈ ss, s.AddrWF) → w.addAll ss = some w' →
    w'.hostGroups.length ≤ 65536 → Zip (HostOf w'.hostGroups) (done ++ ss) w'.streams := by
  induction ss with
  | nil => intro w w' done _ hz _ h _; simp [Writer.addAll] at h; subst h; simpa using hz
  | cons s ss ih =>
    intro w w' done hw hz hwf h hcap
    simp only [Writer.addAll] at h
    split at h
    · rename_i w1 h1
      have hs := hwf s (by simp)
      have hw1 := addStream_inv w w1 s true hs hw h1
      have hrest : ∀ x ∈ ss, x.AddrWF := fun x hx => hwf x (by simp [hx])
      have hlen := (addAll_ext ss w1 w' hw1 hrest h).length_le
      obtain ⟨hz1, _⟩ := addStream_hosts w w1 done s hw hz hs (by omega) h1
      have := ih w1 w' (done ++ [s]) hw1 hz1 hrest h hcap
      simpa using this
    · simp at h

end Pk.Index

namespace Pk.Index
open Pk Pk.Bytes

theorem sortedIndexes_length {κ : Type} (keys : List κ) (less : κ → κ → Bool) :
    (sortedIndexes keys less).length = keys.length := by
  unfold sortedIndexes
  simp [List.length_mergeSort]

/-- a finished file with at least one stream and a sound host table can be reopened -/
theorem reopen_ok (w : Writer) (h : GroupsInv w.hostGroups) (hne : w.streams ≠ [])
    (hb4 : (v4of w.hostGroups).length < 2 ^ 32) (hb6 : (v6of w.hostGroups).length < 2 ^ 32) :
    ∃ r, newReader w.finalize = .ok r ∧ r.hostGroups = w.hostGroups.map HostGroup.toReader := by
  unfold newReader
  rw [hostgroups_decode' w h hb4 hb6]
  have h1 : w.finalize.streams.isEmpty = false := by
    show w.streams.isEmpty = false
    cases hw : w.streams with
    | nil => exact absurd hw hne
    | cons a t => rfl
  have hlen : ∀ (l : List Nat), l.length = w.streams.length → l.isEmpty = false := by
    intro l hl
    cases l with
    | nil => simp at hl; exact absurd (List.length_eq_zero_iff.mp hl.symm) hne
    | cons a t => rfl
  have e2 : w.finalize.lkFt = sortedIndexes (w.streams.map (·.first)) (fun a b => a < b) := rfl
  have e3 : w.finalize.lkLt = sortedIndexes (w.streams.map (·.last)) (fun a b => a < b) := rfl
  have h2 : w.finalize.lkFt.isEmpty = false := hlen _ (by rw [e2, sortedIndexes_length]; simp)
  have h3 : w.finalize.lkLt.isEmpty = false := hlen _ (by rw [e3, sortedIndexes_length]; simp)
  simp [h1, h2, h3]

end Pk.Index
