/- Helper lemmas for C06: the relation Keep and the inherit sweep. -/
import Pk.Proofs.MgrTags
namespace Pk.Proofs.MgrTags
open Pk.Mgr

/-! ## the "answers kept, pending grows" relation -/
def TRel (all : Nat) (t t' : Tag) : Prop :=
  t'.mat = t.mat ∧ t'.defn = t.defn ∧ ∀ id, id ∈ t.unc → id < all → id ∈ t'.unc

theorem TRel.refl (all : Nat) (t : Tag) : TRel all t t := ⟨rfl, rfl, fun _ h _ => h⟩
theorem TRel.trans {all : Nat} {a b c : Tag} (h1 : TRel all a b) (h2 : TRel all b c) : TRel all a c :=
  ⟨h2.1.trans h1.1, h2.2.1.trans h1.2.1, fun id h hb => h2.2.2 id (h1.2.2 id h hb) hb⟩

def Keep (all : Nat) (n : String) (T T' : List (String × Tag)) : Prop :=
  (∀ t, sget T n = some t → ∃ t', sget T' n = some t' ∧ TRel all t t') ∧
  (sget T n = none → sget T' n = none)

theorem Keep.refl (all : Nat) (n : String) (T : List (String × Tag)) : Keep all n T T :=
  ⟨fun t h => ⟨t, h, TRel.refl _ _⟩, id⟩
theorem Keep.of_eq {all : Nat} {n : String} {T T' : List (String × Tag)} (h : T' = T) : Keep all n T T' :=
  h ▸ Keep.refl _ _ _
theorem Keep.trans {all : Nat} {n : String} {A B C : List (String × Tag)}
    (h1 : Keep all n A B) (h2 : Keep all n B C) : Keep all n A C := by
  refine ⟨fun t h => ?_, fun h => h2.2 (h1.2 h)⟩
  obtain ⟨t', h', r'⟩ := h1.1 t h
  obtain ⟨t'', h'', r''⟩ := h2.1 t' h'
  exact ⟨t'', h'', r'.trans r''⟩

theorem keep_sins_ne {all : Nat} {n m : String} (t' : Tag) (T : List (String × Tag)) (h : m ≠ n) :
    Keep all n T (sins m t' T) := by
  constructor
  · intro t ht; exact ⟨t, by simp [sget_sins, h, ht], TRel.refl _ _⟩
  · intro ht; simp [sget_sins, h, ht]

theorem keep_sins_rel {all : Nat} {m : String} {t t' : Tag} {T : List (String × Tag)}
    (hm : sget T m = some t) (hr : TRel all t t') (n : String) : Keep all n T (sins m t' T) := by
  by_cases h : m = n
  · subst h
    constructor
    · intro t2 ht; rw [hm] at ht; cases ht; exact ⟨t', by simp [sget_sins], hr⟩
    · intro ht; rw [hm] at ht; cases ht
  · exact keep_sins_ne _ _ h

theorem keep_sdel_ne {all : Nat} {n m : String} (T : List (String × Tag)) (h : m ≠ n) :
    Keep all n T (sdel T m) := by
  constructor
  · intro t ht; exact ⟨t, by simp [sget_sdel, h, ht], TRel.refl _ _⟩
  · intro ht; simp [sget_sdel, h, ht]

theorem keep_map {all : Nat} (f : String → Tag → Tag) (hf : ∀ k t, TRel all t (f k t)) (n : String)
    (T : List (String × Tag)) : Keep all n T (T.map fun p => (p.1, f p.1 p.2)) := by
  constructor
  · intro t ht; exact ⟨f n t, by simp [sget_map, ht], hf _ _⟩
  · intro ht; simp [sget_map, ht]

/-! ## inherit -/
theorem mem_foldl_union {β} (g : β → IdSet) (l : List β) (u0 : IdSet) (id : Nat) :
    id ∈ l.foldl (fun u r => union u (g r)) u0 ↔ id ∈ u0 ∨ ∃ r ∈ l, id ∈ g r := by
  induction l generalizing u0 with
  | nil => simp
  | cons a l ih => simp [ih]; grind

theorem trel_inheritOne (all : Nat) (tags : List (String × Tag)) (t : Tag) :
    TRel all t (inheritOne all tags t) := by
  unfold inheritOne
  split
  · exact TRel.refl _ _
  · split
    · exact ⟨rfl, rfl, fun id _ hb => by simpa using hb⟩
    · exact ⟨rfl, rfl, fun id h _ => by simp [mem_foldl_union, h]⟩

def passStep (all : Nat) (acc : List (String × Tag) × List String) (nt : String × Tag) :
    List (String × Tag) × List String :=
  if acc.2.contains nt.1 then acc
  else match sget acc.1 nt.1 with
    | none => acc
    | some t =>
      if t.refs.all (fun r => acc.2.contains r) then
        (sins nt.1 (inheritOne all acc.1 t) acc.1, nt.1 :: acc.2)
      else acc

theorem inheritPass_eq (all : Nat) (tags : List (String × Tag)) (resolved : List String) :
    inheritPass all tags resolved = tags.foldl (passStep all) (tags, resolved) := rfl

theorem foldl_inv {α β} (Q : α → Prop) (f : α → β → α) (h : ∀ a b, Q a → Q (f a b)) (l : List β) (a : α)
    (ha : Q a) : Q (l.foldl f a) := by
  induction l generalizing a with
  | nil => exact ha
  | cons b l ih => exact ih _ (h _ _ ha)

theorem inheritLoop_inv (all : Nat) (Q : List (String × Tag) × List String → Prop)
    (hstep : ∀ acc nt, Q acc → Q (passStep all acc nt)) :
    ∀ fuel tags resolved, Q (tags, resolved) →
      ∃ res, Q ((inheritLoop all fuel tags resolved).1, res) ∧
        (inheritLoop all fuel tags resolved).2 = (res.length == (inheritLoop all fuel tags resolved).1.length) := by
  intro fuel
  induction fuel with
  | zero => intro tags resolved h; exact ⟨resolved, by simpa [inheritLoop] using h, by simp [inheritLoop]⟩
  | succ fuel ih =>
    intro tags resolved h
    simp only [inheritLoop]
    split
    · rename_i heq; exact ⟨resolved, h, by simp [heq]⟩
    · have := foldl_inv Q (passStep all) hstep tags (tags, resolved) h
      rw [← inheritPass_eq] at this
      exact ih _ _ this

@[simp] theorem inherit_tags (s : St) : (inherit s).tags = (inheritLoop s.all (s.tags.length + 1) s.tags []).1 := rfl
@[simp] theorem inherit_all (s : St) : (inherit s).all = s.all := rfl
@[simp] theorem inherit_next (s : St) : (inherit s).next = s.next := rfl
theorem inherit_diverged (s : St) :
    (inherit s).diverged = (s.diverged || !(inheritLoop s.all (s.tags.length + 1) s.tags []).2) := rfl

theorem passStep_keep (all : Nat) (T0 : List (String × Tag)) (acc) (nt : String × Tag)
    (h : ∀ n, Keep all n T0 acc.1) : ∀ n, Keep all n T0 (passStep all acc nt).1 := by
  unfold passStep
  split
  · exact h
  · split
    · exact h
    · rename_i t ht
      split
      · intro n; exact (h n).trans (keep_sins_rel ht (trel_inheritOne _ _ _) n)
      · exact h

theorem inherit_keep (s : St) (n : String) : Keep s.all n s.tags (inherit s).tags := by
  obtain ⟨res, h, _⟩ := inheritLoop_inv s.all (fun acc => ∀ n, Keep s.all n s.tags acc.1)
    (passStep_keep s.all s.tags) (s.tags.length + 1) s.tags [] (fun n => Keep.refl _ _ _)
  exact h n

theorem passStep_sorted (all : Nat) (acc) (nt : String × Tag)
    (h : Sorted acc.1) : Sorted (passStep all acc nt).1 := by
  unfold passStep
  split
  · exact h
  · split
    · exact h
    · split
      · exact sorted_sins _ _ _ h
      · exact h

theorem inherit_sorted (s : St) (h : Sorted s.tags) : Sorted (inherit s).tags := by
  obtain ⟨res, h, _⟩ := inheritLoop_inv s.all (fun acc => Sorted acc.1)
    (passStep_sorted s.all) (s.tags.length + 1) s.tags [] h
  exact h


theorem nodup_subset_length {l m : List String} (hn : l.Nodup) (hs : ∀ x ∈ l, x ∈ m)
    (hl : m.length ≤ l.length) : ∀ x ∈ m, x ∈ l := by
  induction l generalizing m with
  | nil => intro x hx; cases m <;> simp_all
  | cons a l ih =>
    have ha : a ∈ m := hs a (by simp)
    simp only [List.nodup_cons] at hn
    have h1 : ∀ x ∈ l, x ∈ m.erase a := by
      intro x hx
      have : x ≠ a := by rintro rfl; exact hn.1 hx
      rw [List.mem_erase_of_ne this]; exact hs x (by simp [hx])
    have h2 : (m.erase a).length ≤ l.length := by
      rw [List.length_erase_of_mem ha]; simp at hl; omega
    intro x hx
    by_cases hxa : x = a
    · simp [hxa]
    · have := ih hn.2 h1 h2 x (by rw [List.mem_erase_of_ne hxa]; exact hx)
      simp [this]

def Closed (all : Nat) (T : List (String × Tag)) (t : Tag) : Prop :=
  (∀ r ∈ t.mainT, ∀ id, id ∈ tagUnc T r → id ∈ t.unc) ∧
  ((∃ r ∈ t.subT, tagUnc T r ≠ []) → ∀ id, id < all → id ∈ t.unc)

theorem Closed.congr {all : Nat} {T T' : List (String × Tag)} {t : Tag}
    (h : ∀ r ∈ t.refs, tagUnc T' r = tagUnc T r) (hc : Closed all T t) : Closed all T' t := by
  constructor
  · intro r hr id hid
    rw [h r (by simp [hr])] at hid
    exact hc.1 r hr id hid
  · rintro ⟨r, hr, hne⟩
    rw [h r (by simp [hr])] at hne
    exact hc.2 ⟨r, hr, hne⟩

def Bounded (all : Nat) (T : List (String × Tag)) : Prop :=
  ∀ n t, sget T n = some t → ∀ id, id ∈ t.unc → id < all

theorem tagUnc_bounded {all : Nat} {T : List (String × Tag)} (hb : Bounded all T) (r : String) (id : Nat)
    (h : id ∈ tagUnc T r) : id < all := by
  unfold tagUnc at h
  cases hr : sget T r with
  | none => simp [hr] at h
  | some t => simp [hr] at h; exact hb r t hr id h

theorem inheritOne_refs (all : Nat) (T : List (String × Tag)) (t : Tag) :
    (inheritOne all T t).mainT = t.mainT ∧ (inheritOne all T t).subT = t.subT := by
  unfold inheritOne; split
  · simp
  · split <;> simp

theorem inheritOne_closed {all : Nat} {T : List (String × Tag)} (hb : Bounded all T) (t : Tag) :
    Closed all T (inheritOne all T t) := by
  unfold inheritOne
  split
  · rename_i h
    simp only [Bool.and_eq_true, List.isEmpty_iff] at h
    constructor
    · intro r hr; simp [h.1] at hr
    · rintro ⟨r, hr, _⟩; simp [h.2] at hr
  · split
    · constructor
      · intro r _ id hid; simpa using tagUnc_bounded hb r id hid
      · intro _ id hid; simpa using hid
    · rename_i h
      constructor
      · intro r hr id hid
        simp only [mem_foldl_union]
        exact Or.inr ⟨r, hr, hid⟩
      · rintro ⟨r, hr, hne⟩
        exfalso; apply h
        simp only [List.any_eq_true]
        refine ⟨r, hr, ?_⟩
        cases h' : tagUnc T r <;> simp_all

theorem inheritOne_bounded {all : Nat} {T : List (String × Tag)} (hb : Bounded all T) (t : Tag)
    (ht : ∀ id, id ∈ t.unc → id < all) : ∀ id, id ∈ (inheritOne all T t).unc → id < all := by
  unfold inheritOne
  split
  · exact ht
  · split
    · intro id hid; simpa using hid
    · intro id hid
      simp only [mem_foldl_union] at hid
      rcases hid with hid | ⟨r, _, hid⟩
      · exact ht id hid
      · exact tagUnc_bounded hb r id hid

structure PInv (all : Nat) (acc : List (String × Tag) × List String) : Prop where
  nodup : acc.2.Nodup
  res : ∀ n ∈ acc.2, ∃ t, sget acc.1 n = some t ∧ (∀ r ∈ t.refs, r ∈ acc.2) ∧ Closed all acc.1 t
  bnd : Bounded all acc.1

theorem tagUnc_sins_ne {n r : String} (t : Tag) (T : List (String × Tag)) (h : n ≠ r) :
    tagUnc (sins n t T) r = tagUnc T r := by
  simp [tagUnc, sget_sins, h]

theorem passStep_pinv (all : Nat) (acc) (nt : String × Tag) (h : PInv all acc) :
    PInv all (passStep all acc nt) := by
  unfold passStep
  split
  · exact h
  · rename_i hnr
    split
    · exact h
    · rename_i t ht
      split
      · rename_i hall
        simp only [List.all_eq_true, List.contains_iff_mem] at hall
        simp only [List.contains_iff_mem] at hnr
        have hne : ∀ r ∈ acc.2, nt.1 ≠ r := by rintro r hr rfl; exact hnr hr
        refine ⟨?_, ?_, ?_⟩
        · exact List.nodup_cons.mpr ⟨hnr, h.nodup⟩
        · intro m hm
          simp only [List.mem_cons] at hm
          rcases hm with rfl | hm
          · refine ⟨inheritOne all acc.1 t, by simp [sget_sins], ?_, ?_⟩
            · intro r hr
              simp only [mem_refs, (inheritOne_refs all acc.1 t).1, (inheritOne_refs all acc.1 t).2] at hr
              simp [hall r (by simpa using hr)]
            · apply (inheritOne_closed h.bnd t).congr
              intro r hr
              simp only [mem_refs, (inheritOne_refs all acc.1 t).1, (inheritOne_refs all acc.1 t).2] at hr
              exact tagUnc_sins_ne _ _ (hne r (hall r (by simpa using hr)))
          · obtain ⟨t2, h2, hr2, hc2⟩ := h.res m hm
            refine ⟨t2, by simp [sget_sins, hne m hm, h2], fun r hr => by simp [hr2 r hr], ?_⟩
            apply hc2.congr
            intro r hr
            exact tagUnc_sins_ne _ _ (hne r (hr2 r hr))
        · intro m t2 h2
          rw [sget_sins] at h2
          split at h2
          · cases h2; exact inheritOne_bounded h.bnd t (h.bnd _ _ ht)
          · exact h.bnd m t2 h2
      · exact h

theorem sorted_nodup_keys {α} {l : List (String × α)} (h : Sorted l) : (l.map (·.1)).Nodup := by
  unfold Sorted at h
  exact h.imp (fun hab => String.ne_of_lt hab)

theorem inherit_closed_aux (s : St) (hw : Sorted s.tags) (hb : Bounded s.all s.tags)
    (hok : (inheritLoop s.all (s.tags.length + 1) s.tags []).2 = true)
    (n : String) (t' : Tag) (ht : sget (inherit s).tags n = some t') :
    Closed s.all (inherit s).tags t' := by
  obtain ⟨res, ⟨hs, hp⟩, hlen⟩ := inheritLoop_inv s.all (fun acc => Sorted acc.1 ∧ PInv s.all acc)
    (fun acc nt h => ⟨passStep_sorted _ _ _ h.1, passStep_pinv _ _ _ h.2⟩)
    (s.tags.length + 1) s.tags [] ⟨hw, ⟨by simp, by simp, hb⟩⟩
  rw [hok] at hlen
  simp only [inherit_tags] at ht ⊢
  generalize (inheritLoop s.all (s.tags.length + 1) s.tags []).1 = T at *
  have hlen : res.length = T.length := by simpa using hlen.symm
  have hkeys := nodup_subset_length (l := res) (m := T.map (·.1)) hp.nodup
    (fun x hx => by obtain ⟨t, h, _⟩ := hp.res x hx; exact sget_mem_keys _ _ _ h) (by simp [hlen])
  obtain ⟨t2, h2, _, hc⟩ := hp.res n (hkeys n (sget_mem_keys _ _ _ ht))
  rw [ht] at h2; cases h2; exact hc



/-- the part of the state the tag theorems look at -/
def Same (s s' : St) : Prop := s'.tags = s.tags ∧ s'.all = s.all ∧ s'.next = s.next

theorem Same.refl (s : St) : Same s s := ⟨rfl, rfl, rfl⟩
theorem Same.trans {a b c : St} (h1 : Same a b) (h2 : Same b c) : Same a c :=
  ⟨h2.1.trans h1.1, h2.2.1.trans h1.2.1, h2.2.2.trans h1.2.2⟩

theorem foldl_same {β} (f : St → β → St) (h : ∀ s b, Same s (f s b)) (l : List β) (s : St) :
    Same s (l.foldl f s) :=
  foldl_inv (fun s' => Same s s') f (fun a b ha => ha.trans (h a b)) l s (Same.refl s)

theorem release_same (s : St) (fs : List Nat) : Same s (release s fs) := by
  unfold release
  apply foldl_same
  intro s f
  split
  · exact Same.refl _
  · split <;> exact ⟨rfl, rfl, rfl⟩

theorem getIndexesCopy_same (s : St) (i : Nat) : Same s (getIndexesCopy s i).1 := ⟨rfl, rfl, rfl⟩

theorem startMerge_same (s : St) : Same s (startMerge s) := by
  unfold startMerge
  split
  · exact Same.refl _
  · split
    · exact Same.refl _
    · split
      · exact Same.refl _
      · exact ⟨rfl, rfl, rfl⟩

theorem startTagging_same (s : St) (c : Option String) : Same s (startTagging s c) := by
  unfold startTagging
  split
  · exact Same.refl _
  · split
    · exact Same.refl _
    · simp only []
      split
      · split
        · exact Same.refl _
        · exact ⟨rfl, rfl, rfl⟩
      · exact ⟨rfl, rfl, rfl⟩

theorem startConverter_same (s : St) : Same s (startConverter s) := by
  unfold startConverter
  split
  · exact Same.refl _
  · simp only []
    split
    · exact Same.refl _
    · have h1 : ∀ (s : St) (b : String × IdSet), Same s { s with toconv := sins b.1 [] s.toconv } :=
        fun s b => ⟨rfl, rfl, rfl⟩
      refine ⟨?_, ?_, ?_⟩ <;> simp only []
      · refine (foldl_same _ ?_ _ _).1.trans ((foldl_same _ h1 _ _).1)
        intro s b; exact ⟨rfl, rfl, rfl⟩
      · refine (foldl_same _ ?_ _ _).2.1.trans ((foldl_same _ h1 _ _).2.1)
        intro s b; exact ⟨rfl, rfl, rfl⟩
      · refine (foldl_same _ ?_ _ _).2.2.trans ((foldl_same _ h1 _ _).2.2)
        intro s b; exact ⟨rfl, rfl, rfl⟩

theorem startImport_same (s : St) : Same s (startImport s) := ⟨rfl, rfl, rfl⟩

theorem invalidateConverters_same (s : St) (u : IdSet) : Same s (invalidateConverters s u) := by
  unfold invalidateConverters
  apply foldl_same; intro s b; exact ⟨rfl, rfl, rfl⟩

theorem invalidatedDuring_same (s : St) (u : IdSet) : Same s (invalidatedDuringTaggingJob s u) := by
  unfold invalidatedDuringTaggingJob; split <;> exact ⟨rfl, rfl, rfl⟩


end Pk.Proofs.MgrTags
