/- Helper lemmas for C12 at the stream level: the sorted stack, resolution of an id through the
   stack, the driver view. -/
import Pk.Model.RecoverIdx
import Pk.Proofs.RecoverIdx
namespace Pk.Proofs.RecoverIdx
open Pk.Recover

theorem perm_insertByName (f : IndexFile) (l : List IndexFile) : (insertByName f l).Perm (f :: l) := by
  induction l with
  | nil => exact List.Perm.refl _
  | cons g gs ih =>
    simp only [insertByName]
    split
    · exact List.Perm.refl _
    · exact (List.Perm.cons g ih).trans (List.Perm.swap f g gs)

theorem perm_sortByName (l : List IndexFile) : (sortByName l).Perm l := by
  induction l with
  | nil => exact List.Perm.refl _
  | cons f fs ih => exact (perm_insertByName f _).trans (List.Perm.cons f ih)

theorem mem_stack (d : List IndexFile) (g : IndexFile) :
    g ∈ stack d ↔ g ∈ d ∧ g.complete = true := by
  rw [stack, (perm_sortByName _).mem_iff, List.mem_filter]

def SortedByName (l : List IndexFile) : Prop := l.Pairwise (fun a b => a.name ≤ b.name)

theorem sorted_insertByName (f : IndexFile) (l : List IndexFile) (h : SortedByName l) :
    SortedByName (insertByName f l) := by
  induction l with
  | nil => simp [insertByName, SortedByName]
  | cons g gs ih =>
    simp only [insertByName]
    have hg := List.pairwise_cons.mp h
    split
    · rename_i hle
      refine List.pairwise_cons.mpr ⟨?_, h⟩
      intro a ha
      rcases List.mem_cons.mp ha with rfl | ha
      · exact hle
      · exact Nat.le_trans hle (hg.1 a ha)
    · rename_i hnle
      refine List.pairwise_cons.mpr ⟨?_, ih hg.2⟩
      intro a ha
      rcases List.mem_cons.mp ((perm_insertByName f gs).mem_iff.mp ha) with rfl | ha
      · omega
      · exact hg.1 a ha

theorem sorted_sortByName (l : List IndexFile) : SortedByName (sortByName l) := by
  induction l with
  | nil => exact List.Pairwise.nil
  | cons f fs ih => exact sorted_insertByName f _ ih

/-- the stack is in name order -/
theorem sorted_stack (d : List IndexFile) : SortedByName (stack d) := sorted_sortByName _

/-- unique names: a file is determined by its name -/
theorem eq_of_name_eq (d : List IndexFile) (hu : (d.map (·.name)).Nodup) (f g : IndexFile)
    (hf : f ∈ d) (hg : g ∈ d) (h : f.name = g.name) : f = g := by
  induction d with
  | nil => cases hf
  | cons a as ih =>
    simp only [List.map_cons, List.nodup_cons] at hu
    rcases List.mem_cons.mp hf with rfl | hf' <;> rcases List.mem_cons.mp hg with rfl | hg'
    · rfl
    · exact absurd (List.mem_map.mpr ⟨g, hg', h.symm⟩) hu.1
    · exact absurd (List.mem_map.mpr ⟨f, hf', h⟩) hu.1
    · exact ih hu.2 hf' hg'

/-- with unique names the stack is strictly increasing -/
theorem strict_stack (d : List IndexFile) (hu : (d.map (·.name)).Nodup) :
    (stack d).Pairwise (fun a b => a.name < b.name) := by
  have hnd : ((stack d).map (·.name)).Nodup := by
    rw [stack, ((perm_sortByName _).map _).nodup_iff]
    exact (List.filter_sublist.map _).nodup hu
  have hs := sorted_stack d
  generalize stack d = l at hnd hs
  induction l with
  | nil => exact List.Pairwise.nil
  | cons a as ih =>
    simp only [List.map_cons, List.nodup_cons] at hnd
    have ha := List.pairwise_cons.mp hs
    refine List.pairwise_cons.mpr ⟨fun b hb => ?_, ih hnd.2 ha.2⟩
    have h1 := ha.1 b hb
    have h2 : a.name ≠ b.name := fun e => hnd.1 (List.mem_map.mpr ⟨b, hb, e.symm⟩)
    omega

/-- the last file of a name-sorted list that satisfies `p` has the largest name among those -/
theorem findLast_sorted (l : List IndexFile) (p : IndexFile → Bool) (hs : SortedByName l) :
    (∀ g, l.reverse.find? p = some g → g ∈ l ∧ p g = true ∧ ∀ h ∈ l, p h = true → h.name ≤ g.name) ∧
    (l.reverse.find? p = none → ∀ h ∈ l, p h = false) := by
  induction l with
  | nil => simp
  | cons a as ih =>
    have ha := List.pairwise_cons.mp hs
    obtain ⟨ih1, ih2⟩ := ih ha.2
    simp only [List.reverse_cons, List.find?_append]
    cases hfind : as.reverse.find? p with
    | some g =>
      obtain ⟨hg, hpg, hmax⟩ := ih1 g hfind
      simp only [Option.some_or]
      refine ⟨?_, fun h => by cases h⟩
      intro g' hg'
      cases hg'
      refine ⟨List.mem_cons_of_mem _ hg, hpg, ?_⟩
      intro h hh hph
      rcases List.mem_cons.mp hh with rfl | hh
      · exact ha.1 g hg
      · exact hmax h hh hph
    | none =>
      have hnone := ih2 hfind
      simp only [Option.none_or]
      cases hpa : p a with
      | true =>
        simp only [List.find?_cons, hpa]
        refine ⟨?_, fun h => by cases h⟩
        intro g hg
        cases hg
        refine ⟨List.mem_cons_self, hpa, ?_⟩
        intro h hh hph
        rcases List.mem_cons.mp hh with rfl | hh
        · exact Nat.le_refl _
        · rw [hnone h hh] at hph; cases hph
      | false =>
        simp only [List.find?_cons, hpa, List.find?_nil]
        refine ⟨fun g hg => (by cases hg), ?_⟩
        intro _ h hh
        rcases List.mem_cons.mp hh with rfl | hh
        · exact hpa
        · exact hnone h hh

/-- resolving an id through the stack = the newest complete file holding it -/
theorem visibleInStack_eq (d : List IndexFile) (id : Nat) : visibleInStack d id = visibleIn d id := by
  obtain ⟨h1, h2⟩ := findLast_sorted (stack d) (fun f => f.ids.contains id) (sorted_stack d)
  unfold visibleInStack
  cases hfind : (stack d).reverse.find? (fun f => f.ids.contains id) with
  | none =>
    symm
    simp only [Option.map_none]
    rw [visibleIn_none_iff]
    rintro n ⟨f, hf, hs, _⟩
    obtain ⟨hc, hid⟩ := (serves_iff _ _).mp hs
    have := h2 hfind f ((mem_stack d f).mpr ⟨hf, hc⟩)
    simp [hid] at this
  | some g =>
    symm
    simp only [Option.map_some]
    obtain ⟨hg, hpg, hmax⟩ := h1 g hfind
    obtain ⟨hgd, hgc⟩ := (mem_stack d g).mp hg
    rw [visibleIn_some_iff]
    refine ⟨⟨g, hgd, (serves_iff _ _).mpr ⟨hgc, by simpa using hpg⟩, rfl⟩, ?_⟩
    rintro m ⟨f, hf, hs, rfl⟩
    obtain ⟨hc, hid⟩ := (serves_iff _ _).mp hs
    exact hmax f ((mem_stack d f).mpr ⟨hf, hc⟩) (by simpa using hid)

/-! ### the driver view -/

theorem mem_insertNat (x y : Nat) (l : List Nat) : y ∈ insertNat x l ↔ y = x ∨ y ∈ l := by
  induction l with
  | nil => simp [insertNat]
  | cons a as ih =>
    simp only [insertNat]
    split
    · simp
    · split
      · rename_i h; subst h; simp
      · simp only [List.mem_cons, ih]
        constructor
        · rintro (h | h | h) <;> simp [h]
        · rintro (h | h | h) <;> simp [h]

theorem mem_sortDedup (y : Nat) (l : List Nat) : y ∈ sortDedup l ↔ y ∈ l := by
  induction l with
  | nil => simp [sortDedup]
  | cons a as ih => simp [sortDedup, mem_insertNat, ih]

theorem sorted_insertNat (x : Nat) (l : List Nat) (h : l.Pairwise (· < ·)) :
    (insertNat x l).Pairwise (· < ·) := by
  induction l with
  | nil => simp [insertNat]
  | cons a as ih =>
    have ha := List.pairwise_cons.mp h
    simp only [insertNat]
    split
    · rename_i hlt
      refine List.pairwise_cons.mpr ⟨?_, h⟩
      intro b hb
      rcases List.mem_cons.mp hb with rfl | hb
      · exact hlt
      · exact Nat.lt_trans hlt (ha.1 b hb)
    · split
      · exact h
      · refine List.pairwise_cons.mpr ⟨?_, ih ha.2⟩
        intro b hb
        rcases (mem_insertNat x b as).mp hb with rfl | hb
        · omega
        · exact ha.1 b hb

theorem sorted_sortDedup (l : List Nat) : (sortDedup l).Pairwise (· < ·) := by
  induction l with
  | nil => exact List.Pairwise.nil
  | cons a as ih => exact sorted_insertNat a _ ih

theorem mem_allIds (d : List IndexFile) (id : Nat) :
    id ∈ allIds d ↔ ∃ f ∈ d, f.complete = true ∧ id ∈ f.ids := by
  simp only [allIds, mem_sortDedup, List.mem_flatMap, List.mem_filter]
  constructor
  · rintro ⟨f, ⟨hf, hc⟩, hi⟩; exact ⟨f, hf, hc, hi⟩
  · rintro ⟨f, hf, hc, hi⟩; exact ⟨f, ⟨hf, hc⟩, hi⟩

/-- the view lists exactly the visible ids with their serving files -/
theorem mem_recoverView (d : List IndexFile) (id n : Nat) :
    (id, n) ∈ recoverView d ↔ visibleIn d id = some n := by
  simp only [recoverView, List.mem_filterMap]
  constructor
  · rintro ⟨a, _, ha⟩
    cases hv : visibleIn d a with
    | none => rw [hv] at ha; cases ha
    | some m =>
      rw [hv] at ha
      simp only [Option.map_some, Option.some.injEq, Prod.mk.injEq] at ha
      obtain ⟨rfl, rfl⟩ := ha
      exact hv
  · intro hv
    refine ⟨id, ?_, by rw [hv]; rfl⟩
    rw [mem_allIds, held_iff_visible, hv]; rfl

/-- the view is sorted by id, without duplicate ids -/
theorem sorted_recoverView (d : List IndexFile) :
    (recoverView d).Pairwise (fun a b => a.1 < b.1) := by
  unfold recoverView
  refine List.Pairwise.filterMap _ ?_ (sorted_sortDedup _)
  intro a a' hlt b hb b' hb'
  cases hv : visibleIn d a with
  | none => rw [hv] at hb; cases hb
  | some m =>
    cases hv' : visibleIn d a' with
    | none => rw [hv'] at hb'; cases hb'
    | some m' =>
      rw [hv] at hb; rw [hv'] at hb'
      simp only [Option.map_some, Option.some.injEq] at hb hb'
      subst hb; subst hb'
      exact hlt

end Pk.Proofs.RecoverIdx
