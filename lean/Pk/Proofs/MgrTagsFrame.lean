/- Helper lemmas for C06: frame lemmas of the helper functions of `step`. -/
import Pk.Proofs.MgrTagsInherit
namespace Pk.Proofs.MgrTags
open Pk.Mgr

/-- frame of a helper: `all`/`next` fixed, key order kept, tags in `N` keep answers -/
structure Fr (N : String → Prop) (s s' : St) : Prop where
  all : s'.all = s.all
  next : s'.next = s.next
  sorted : Sorted s.tags → Sorted s'.tags
  keep : ∀ n, N n → Keep s.all n s.tags s'.tags

theorem Fr.refl (N) (s : St) : Fr N s s := ⟨rfl, rfl, id, fun _ _ => Keep.refl _ _ _⟩
theorem Fr.trans {N} {a b c : St} (h1 : Fr N a b) (h2 : Fr N b c) : Fr N a c :=
  ⟨h2.all.trans h1.all, h2.next.trans h1.next, fun h => h2.sorted (h1.sorted h),
   fun n hn => (h1.keep n hn).trans (h1.all ▸ h2.keep n hn)⟩
theorem Fr.mono {N N' : String → Prop} {a b : St} (h : Fr N a b) (hN : ∀ n, N' n → N n) : Fr N' a b :=
  ⟨h.all, h.next, h.sorted, fun n hn => h.keep n (hN n hn)⟩
theorem Fr.of_same {N} {a b : St} (h : Same a b) : Fr N a b :=
  ⟨h.2.1, h.2.2, fun hs => h.1 ▸ hs, fun _ _ => Keep.of_eq h.1⟩
theorem foldl_fr {N} {β} (f : St → β → St) (h : ∀ s b, Fr N s (f s b)) (l : List β) (s : St) :
    Fr N s (l.foldl f s) :=
  foldl_inv (fun s' => Fr N s s') f (fun a b ha => ha.trans (h a b)) l s (Fr.refl N s)

abbrev NT : String → Prop := fun _ => True

theorem setTag_fr_ne (s : St) (m : String) (t' : Tag) : Fr (· ≠ m) s (setTag s m t') :=
  ⟨rfl, rfl, sorted_sins _ _ _, fun _ hn => keep_sins_ne _ _ (Ne.symm hn)⟩

theorem setTag_fr_rel {s : St} {m : String} {t t' : Tag} (hm : sget s.tags m = some t)
    (hr : TRel s.all t t') : Fr NT s (setTag s m t') :=
  ⟨rfl, rfl, sorted_sins _ _ _, fun n _ => keep_sins_rel hm hr n⟩

theorem addRefBy_fr (s : St) (a b : String) : Fr NT s (addRefBy s a b) := by
  unfold addRefBy; split
  · rename_i t ht; exact setTag_fr_rel ht ⟨rfl, rfl, fun _ h _ => h⟩
  · exact Fr.refl _ _
theorem delRefBy_fr (s : St) (a b : String) : Fr NT s (delRefBy s a b) := by
  unfold delRefBy; split
  · rename_i t ht; exact setTag_fr_rel ht ⟨rfl, rfl, fun _ h _ => h⟩
  · exact Fr.refl _ _

theorem inherit_fr (s : St) : Fr NT s (inherit s) :=
  ⟨rfl, rfl, inherit_sorted s, fun n _ => inherit_keep s n⟩

theorem map_fr (s s' : St) (f : String → Tag → Tag) (hall : s'.all = s.all) (hnext : s'.next = s.next)
    (ht : s'.tags = s.tags.map fun p => (p.1, f p.1 p.2)) (hf : ∀ k t, TRel s.all t (f k t)) :
    Fr NT s s' := by
  refine ⟨hall, hnext, fun h => ?_, fun n _ => ht ▸ keep_map f hf n _⟩
  apply sorted_of_keys_eq _ _ _ h
  rw [ht]; simp [Function.comp_def]

def invF (all : Nat) (upd rst add : IdSet) (t : Tag) : Tag :=
    if t.sfeat ≠ 0 then { t with unc := rangeSet all }
    else if t.mfeat &&& (255 - fID) == 0 then
      (if add.isEmpty then t else { t with unc := union t.unc add })
    else
      let u := union (union t.unc add) rst
      let u := if t.mfeat &&& (fData ||| fTimeAbs ||| fTimeRel) ≠ 0 then union u upd else u
      { t with unc := u }

theorem invalidateTags_eq (s : St) (upd rst add : IdSet) :
    invalidateTags s upd rst add =
      inherit { s with tags := s.tags.map fun p => (p.1, invF s.all upd rst add p.2) } := by
  unfold invalidateTags
  simp only []
  congr 2
  apply List.map_congr_left
  rintro ⟨n, t⟩ _
  simp only [invF]
  split
  · rfl
  · split
    · split <;> rfl
    · rfl

theorem trel_invF (all : Nat) (upd rst add : IdSet) (t : Tag) : TRel all t (invF all upd rst add t) := by
  unfold invF
  split
  · exact ⟨rfl, rfl, fun id _ hb => by simpa using hb⟩
  · split
    · split
      · exact TRel.refl _ _
      · exact ⟨rfl, rfl, fun id h _ => by simp [h]⟩
    · refine ⟨rfl, rfl, fun id h _ => ?_⟩
      simp only []
      split <;> simp [h]

theorem invalidateTags_fr (s : St) (upd rst add : IdSet) : Fr NT s (invalidateTags s upd rst add) := by
  rw [invalidateTags_eq]
  refine Fr.trans (b := { s with tags := s.tags.map fun p => (p.1, invF s.all upd rst add p.2) }) ?_ (inherit_fr _)
  exact map_fr s _ (fun _ t => invF s.all upd rst add t) rfl rfl rfl (fun _ t => trel_invF _ _ _ _ t)


theorem attachConv_fr (s : St) (n c : String) : Fr NT s (attachConv s n c).1 := by
  unfold attachConv
  split
  · exact Fr.refl _ _
  · rename_i t ht
    split
    · exact Fr.refl _ _
    · split
      · exact Fr.refl _ _
      · have h := setTag_fr_rel (t' := { t with convs := t.convs ++ [c] }) ht ⟨rfl, rfl, fun _ h _ => h⟩
        exact ⟨h.all, h.next, h.sorted, h.keep⟩

/-- the named piece of `outputDropped`: payload tags become pending everywhere -- CHANGED (dropped) -/
def odF (all : Nat) (t : Tag) : Tag :=
  if (t.mfeat ||| t.sfeat) &&& fData != 0 then { t with unc := rangeSet all } else t

theorem outputDropped_eq (s : St) (choice : Option String) :
    outputDropped s choice =
      if s.tags.any (fun nt => (nt.2.mfeat ||| nt.2.sfeat) &&& fData != 0) then
        startTagging (invalidatedDuringTaggingJob
          (inherit { s with tags := s.tags.map fun p => (p.1, odF s.all p.2) }) (rangeSet s.all)) choice
      else s := by
  have hmap : (s.tags.map fun p => (p.1, odF s.all p.2)) =
      s.tags.map (fun (x : String × Tag) =>
        if (x.2.mfeat ||| x.2.sfeat) &&& fData != 0 then (x.1, { x.2 with unc := rangeSet s.all }) else (x.1, x.2)) := by
    apply List.map_congr_left
    rintro ⟨n, t⟩ _
    simp only [odF]
    split <;> rfl
  rw [hmap]
  rfl

theorem trel_odF (all : Nat) (t : Tag) : TRel all t (odF all t) := by
  unfold odF
  split
  · exact ⟨rfl, rfl, fun id _ hb => by simpa using hb⟩
  · exact TRel.refl _ _

theorem outputDropped_fr (s : St) (choice : Option String) : Fr NT s (outputDropped s choice) := by
  rw [outputDropped_eq]
  split
  · refine Fr.trans ?_ (Fr.of_same ((invalidatedDuring_same _ _).trans (startTagging_same _ _)))
    refine Fr.trans (b := { s with tags := s.tags.map fun p => (p.1, odF s.all p.2) }) ?_ (inherit_fr _)
    exact map_fr s _ (fun _ t => odF s.all t) rfl rfl rfl (fun _ t => trel_odF _ t)
  · exact Fr.refl _ _

-- CHANGED (dropped): `detachConv` takes the tagging choice and may run `outputDropped`
theorem detachConv_fr (s : St) (n c : String) (choice : Option String := none) :
    Fr NT s (detachConv s n c choice) := by
  unfold detachConv
  split
  · exact Fr.refl _ _
  · rename_i t ht
    have h := setTag_fr_rel (t' := { t with convs := t.convs.filter (· != c) }) ht ⟨rfl, rfl, fun _ h _ => h⟩
    simp only []
    split
    · refine Fr.trans ?_ (outputDropped_fr _ _)
      exact ⟨h.all, h.next, h.sorted, h.keep⟩
    · exact ⟨h.all, h.next, h.sorted, h.keep⟩

def muFresh (t : Tag) (addIds : List Nat) : List Nat :=
  addIds.foldl (fun (acc : List Nat) x => if t.mat.contains x || acc.contains x then acc else acc ++ [x]) []

def muAdd (t : Tag) (s : St) (addIds : List Nat) : Tag × St :=
  if addIds.isEmpty then (t, s) else
    let fresh := muFresh t addIds
    let t1 := { t with mat := union t.mat fresh, unc := union t.unc fresh }
    let s := t.convs.foldl (fun s c => { s with toconv := sins c (union ((sget s.toconv c).getD []) fresh) s.toconv }) s
    if fresh.isEmpty then (t1, s)
    else
      let mq := mkQuery fresh
      let d := if t1.defn == "id:-1" then mq
               else if isPlainIdList t1.defn then t1.defn ++ "," ++ (mq.drop 3)
               else "(" ++ t1.defn ++ ") or " ++ mq
      ({ t1 with defn := d }, s)

def muDel (t : Tag) (delIds : List Nat) : Tag :=
  if delIds.isEmpty then t else
    let gone := delIds.filter (fun x => t.mat.contains x)
    let t1 := { t with mat := diff t.mat gone, unc := union t.unc gone }
    if t1.mat.isEmpty then { t1 with defn := "id:-1" } else { t1 with defn := mkQuery t1.mat }

def muFin (s : St) (name : String) (prevU : IdSet) : St :=
  match sget s.tags name with
  | some t' => setTag s name { t' with unc := prevU }
  | none => s

theorem markUpdate_eq (s : St) (name : String) (a d : List Nat) :
    markUpdate s name a d =
      match sget s.tags name with
      | none => (s, .err)
      | some t =>
        (muFin (invalidatedDuringTaggingJob (inherit (setTag (muAdd t s a).2 name (muDel (muAdd t s a).1 d)))
          (muDel (muAdd t s a).1 d).unc) name t.unc, .ok) := by
  unfold markUpdate
  generalize sget s.tags name = o
  cases o <;> rfl

theorem muAdd_same (t : Tag) (s : St) (a : List Nat) : Same s (muAdd t s a).2 := by
  unfold muAdd
  split
  · exact Same.refl _
  · simp only []
    split <;> (simp only []; apply foldl_same; intro s b; exact ⟨rfl, rfl, rfl⟩)

theorem mem_muFresh (t : Tag) (a : List Nat) (x : Nat) : x ∈ muFresh t a ↔ x ∈ a ∧ x ∉ t.mat := by
  unfold muFresh
  suffices h : ∀ acc : List Nat, (∀ y ∈ acc, y ∉ t.mat) →
      (x ∈ a.foldl (fun (acc : List Nat) x => if t.mat.contains x || acc.contains x then acc else acc ++ [x]) acc ↔
        x ∈ acc ∨ (x ∈ a ∧ x ∉ t.mat)) by simpa using h [] (by simp)
  induction a with
  | nil => intro acc _; simp
  | cons y ys ih =>
    intro acc hacc
    simp only [List.foldl_cons]
    split
    · rename_i hc
      rw [ih acc hacc]
      simp only [Bool.or_eq_true, List.contains_iff_mem] at hc
      simp only [List.mem_cons]
      grind
    · rename_i hc
      simp only [Bool.or_eq_true, List.contains_iff_mem, not_or] at hc
      rw [ih (acc ++ [y]) (by intro z hz; simp at hz; rcases hz with hz | rfl; exact hacc z hz; exact hc.1)]
      simp only [List.mem_append, List.mem_cons]
      grind

theorem muAdd_mat (t : Tag) (s : St) (a : List Nat) (x : Nat) :
    x ∈ (muAdd t s a).1.mat ↔ x ∈ t.mat ∨ x ∈ a := by
  unfold muAdd
  split
  · rename_i h; simp only [List.isEmpty_iff] at h; simp [h]
  · simp only []
    split <;> (simp only [mem_union, mem_muFresh]; grind)

theorem muDel_mat (t : Tag) (d : List Nat) (x : Nat) : x ∈ (muDel t d).mat ↔ x ∈ t.mat ∧ x ∉ d := by
  unfold muDel
  split
  · rename_i h; simp only [List.isEmpty_iff] at h; simp [h]
  · simp only []
    split <;> (simp only [mem_diff, List.mem_filter, List.contains_iff_mem]; grind)

theorem muFin_fr (s : St) (name : String) (u : IdSet) : Fr (· ≠ name) s (muFin s name u) := by
  unfold muFin
  split
  · exact setTag_fr_ne _ _ _
  · exact Fr.refl _ _

theorem markUpdate_fr (s : St) (name : String) (a d : List Nat) : Fr (· ≠ name) s (markUpdate s name a d).1 := by
  rw [markUpdate_eq]
  split
  · exact Fr.refl _ _
  · rename_i t ht
    refine Fr.trans ?_ (muFin_fr _ _ _)
    refine Fr.trans ?_ (Fr.of_same (invalidatedDuring_same _ _))
    refine Fr.trans ?_ ((inherit_fr _).mono (fun _ _ => trivial))
    exact (Fr.of_same (muAdd_same t s a)).trans (setTag_fr_ne _ _ _)


end Pk.Proofs.MgrTags
