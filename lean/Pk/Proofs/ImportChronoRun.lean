/-
  Chronological arrival, part 3: runs.  For ANY packet lists `F`, `G` (any timestamps):
  `reasm (F ++ G)` extends `reasm F` stream by stream — same streams at the same positions, each with
  its old packets and data as a prefix, the additional packets are packets of `G`; the additional
  streams hold packets of `G` only and at least one (`reasm_append_ext`).  If the packet keys of the
  fed list are distinct, no key occurs in two streams, and all keys are keys of fed packets
  (`reasm_keyDisj`).
-/
import Pk.Proofs.ImportChronoReasm

namespace Pk.Proofs.ImportChrono
open Pk.Import Pk.Proofs.ImportReasm

/-- `ss'` extends `ss` by packets of `G` -/
structure ReasmExt (G : List Pkt) (ss ss' : Array Stream) : Prop where
  size_le : ss.size ≤ ss'.size
  ext : ∀ i : Nat, ∃ np, SExt np ss[i]! ss'[i]! ∧ ∀ x ∈ np, ∃ q ∈ G, q.ref = x.1
  new : ∀ i : Nat, ss.size ≤ i → i < ss'.size → ss'[i]!.pktsRev ≠ []

theorem ReasmExt.refl (ss : Array Stream) : ReasmExt [] ss ss :=
  ⟨Nat.le_refl _, fun i => ⟨[], SExt.refl _, by intro x hx; cases hx⟩, fun i h1 h2 => by omega⟩

theorem ReasmExt.of_shape {p : Pkt} {ss ss' : Array Stream} (h : PktShape p ss ss') : ReasmExt [p] ss ss' := by
  obtain ⟨hs, j, d, e1, e2, e3⟩ := h
  refine ⟨by omega, ?_, ?_⟩
  · intro i
    by_cases hi : i = j
    · subst hi
      rcases e2 with e2 | e2
      · exact ⟨[], e2, by intro x hx; cases hx⟩
      · refine ⟨[(p.ref, d)], e2, ?_⟩
        intro x hx
        rw [List.mem_singleton] at hx
        exact ⟨p, List.mem_singleton.mpr rfl, by rw [hx]⟩
    · exact ⟨[], e1 i hi, by intro x hx; cases hx⟩
  · intro i h1 h2
    have hsz : ss'.size = ss.size + 1 := by omega
    obtain ⟨g1, g2⟩ := e3 hsz
    have : i = j := by omega
    subst this
    rw [g2.1]
    simp

theorem ReasmExt.trans {G1 G2 : List Pkt} {a b c : Array Stream} (h1 : ReasmExt G1 a b) (h2 : ReasmExt G2 b c) :
    ReasmExt (G1 ++ G2) a c := by
  refine ⟨Nat.le_trans h1.size_le h2.size_le, ?_, ?_⟩
  · intro i
    obtain ⟨n1, s1, q1⟩ := h1.ext i
    obtain ⟨n2, s2, q2⟩ := h2.ext i
    refine ⟨n2 ++ n1, s1.trans s2, ?_⟩
    intro x hx
    rcases List.mem_append.mp hx with hx | hx
    · obtain ⟨q, hq, e⟩ := q2 x hx
      exact ⟨q, List.mem_append_right _ hq, e⟩
    · obtain ⟨q, hq, e⟩ := q1 x hx
      exact ⟨q, List.mem_append_left _ hq, e⟩
  · intro i hi1 hi2
    by_cases hb : i < b.size
    · have := h1.new i hi1 hb
      obtain ⟨n2, s2, _⟩ := h2.ext i
      rw [s2.1]
      intro h
      exact this (List.append_eq_nil_iff.mp h).2
    · exact h2.new i (by omega) hi2

/-- feeding `G` from any state -/
theorem foldl_reasmExt : ∀ (G : List Pkt) (r : RState), ReasmExt G r.streams (G.foldl reasmPacket r).streams := by
  intro G
  induction G with
  | nil => intro r; exact ReasmExt.refl _
  | cons p G ih =>
    intro r
    rw [List.foldl_cons]
    have h := (ReasmExt.of_shape (reasmPacket_shape r p)).trans (ih (reasmPacket r p))
    simpa using h

/-- `reasm (F ++ G)` extends `reasm F` -/
theorem reasm_append_ext (F G : List Pkt) : ReasmExt G (reasm F) (reasm (F ++ G)) := by
  unfold reasm
  rw [List.foldl_append]
  exact foldl_reasmExt G _

/-- every stream of `reasm F` holds a packet, and only packets of `F` -/
theorem reasm_pkts (F : List Pkt) :
    (∀ i : Nat, i < (reasm F).size → (reasm F)[i]!.pktsRev ≠ []) ∧
    (∀ i : Nat, ∀ x ∈ (reasm F)[i]!.pktsRev, ∃ q ∈ F, q.ref = x.1) := by
  have h := reasm_append_ext [] F
  have h0 : reasm [] = #[] := rfl
  rw [List.nil_append, h0] at h
  refine ⟨fun i hi => h.new i (by simp) hi, ?_⟩
  intro i x hx
  obtain ⟨np, s, q⟩ := h.ext i
  have hd : (#[] : Array Stream)[i]! = default := by simp
  rw [s.1, hd, default_pktsRev, List.append_nil] at hx
  exact q x hx

/-! ### no packet key in two streams -/

/-- the packets recorded in the streams are packets of `F` (by key), and no key is recorded in two
    streams -/
structure KeyDisj (F : List Pkt) (ss : Array Stream) : Prop where
  sub : ∀ i : Nat, ∀ x ∈ ss[i]!.pktsRev, PRef.key x.1 ∈ F.map Pkt.key
  disj : ∀ i j : Nat, ∀ x ∈ ss[i]!.pktsRev, ∀ y ∈ ss[j]!.pktsRev, PRef.key x.1 = PRef.key y.1 → i = j

theorem PktShape.cases {p : Pkt} {ss ss' : Array Stream} (h : PktShape p ss ss') :
    ∃ j d, ∀ i : Nat, ss'[i]!.pktsRev = ss[i]!.pktsRev ∨ (i = j ∧ ss'[i]!.pktsRev = (p.ref, d) :: ss[i]!.pktsRev) := by
  obtain ⟨_, j, d, e1, e2, _⟩ := h
  refine ⟨j, d, ?_⟩
  intro i
  by_cases hi : i = j
  · subst hi
    rcases e2 with e2 | e2
    · exact Or.inl (by rw [e2.1]; rfl)
    · exact Or.inr ⟨rfl, by rw [e2.1]; rfl⟩
  · exact Or.inl (by rw [(e1 i hi).1]; rfl)

theorem KeyDisj.step {F : List Pkt} {p : Pkt} {ss ss' : Array Stream} (h : KeyDisj F ss) (hs : PktShape p ss ss')
    (hp : Pkt.key p ∉ F.map Pkt.key) : KeyDisj (F ++ [p]) ss' := by
  obtain ⟨j, d, hc⟩ := hs.cases
  have hmem : ∀ i : Nat, ∀ x ∈ ss'[i]!.pktsRev, x ∈ ss[i]!.pktsRev ∨ (i = j ∧ x = (p.ref, d)) := by
    intro i x hx
    rcases hc i with e | ⟨e1, e2⟩
    · rw [e] at hx; exact Or.inl hx
    · rw [e2] at hx
      rcases List.mem_cons.mp hx with hx | hx
      · exact Or.inr ⟨e1, hx⟩
      · exact Or.inl hx
  refine ⟨?_, ?_⟩
  · intro i x hx
    rw [List.map_append, List.mem_append]
    rcases hmem i x hx with h1 | ⟨_, h1⟩
    · exact Or.inl (h.sub i x h1)
    · right
      rw [h1]
      simp [Pkt.ref_key]
  · intro i i' x hx y hy hxy
    rcases hmem i x hx with h1 | ⟨e1, h1⟩ <;> rcases hmem i' y hy with h2 | ⟨e2, h2⟩
    · exact h.disj i i' x h1 y h2 hxy
    · exfalso
      apply hp
      have := h.sub i x h1
      rw [hxy, h2] at this
      exact this
    · exfalso
      apply hp
      have := h.sub i' y h2
      rw [← hxy, h1] at this
      exact this
    · rw [e1, e2]

theorem foldl_keyDisj : ∀ (G F : List Pkt) (r : RState), KeyDisj F r.streams → ((F ++ G).map Pkt.key).Nodup →
    KeyDisj (F ++ G) (G.foldl reasmPacket r).streams := by
  intro G
  induction G with
  | nil => intro F r h _; simpa using h
  | cons p G ih =>
    intro F r h hnd
    rw [List.foldl_cons]
    have hnd' : (((F ++ [p]) ++ G).map Pkt.key).Nodup := by simpa using hnd
    have hp : Pkt.key p ∉ F.map Pkt.key := by
      intro hm
      rw [List.map_append, List.map_cons, List.nodup_append] at hnd
      exact hnd.2.2 _ hm _ (List.mem_cons_self ..) rfl
    have := ih (F ++ [p]) (reasmPacket r p) (h.step (reasmPacket_shape r p) hp) hnd'
    simpa using this

/-- in `reasm F` no packet key is recorded in two streams -/
theorem reasm_keyDisj (F : List Pkt) (hk : (F.map Pkt.key).Nodup) : KeyDisj F (reasm F) := by
  have h0 : KeyDisj [] ({} : RState).streams := by
    refine ⟨?_, ?_⟩
    · intro i x hx
      have : (({} : RState).streams)[i]! = default := by
        show (#[] : Array Stream)[i]! = default
        simp
      rw [this] at hx; cases hx
    · intro i j x hx
      have : (({} : RState).streams)[i]! = default := by
        show (#[] : Array Stream)[i]! = default
        simp
      rw [this] at hx; cases hx
  have := foldl_keyDisj F [] {} h0 (by simpa using hk)
  simpa [reasm] using this

end Pk.Proofs.ImportChrono
