/- Helper lemmas for C06Reach: events that edit no tag (void events, import and converter completions). -/
import Pk.Proofs.MgrTruthGen
namespace Pk.Props.C06Reach
open Pk.Mgr Pk.Props.MgrReach Pk.Proofs.MgrTruth Pk.Proofs.MgrTags

/-- an event that edits no tag, keeps `next` and leaves the truth alone -/
theorem good_sameOn (s : St) (e : Ev) (st : Started) (T T' g : Truth) (hg : Good s T g)
    (hE : ∀ n, ¬ C06.Edits e n) (hnext : (step s e st).1.next = s.next) (hs : SameOn s T T') :
    C06.Inv (step s e st).1 T' ∧
    (∀ jn snap held, s.jTag = some (jn, snap, held) → JobInv (step s e st).1 T' g) := by
  refine ⟨?_, ?_⟩
  · refine C06.inv_step_stable s e st T T' hg.reach.tagsWF hg.inv hE hg.reach.nextLeAll ?_
    intro n t' h' id hid hc
    rw [hnext] at hid
    rcases hc with hc | hc
    · omega
    · exfalso; apply hc
      have hk := keep_step s e st n (hE n)
      cases hsn : sget s.tags n with
      | none => rw [hk.2 hsn] at h'; cases h'
      | some t => exact hs n t hsn id hid
  · intro jn snap held hj
    have hne : ∀ n r, e ≠ .tagDone n r := by
      intro n r he; subst he; exact hE n rfl
    refine jobInv_mono s e st T T' g hg.reach hg.job hne jn snap held hj ?_ ?_
    · intro id h1 h2; rw [hnext] at h2; omega
    · intro n' ot' hot' hg' hd'
      obtain ⟨ot, hot, hg0, hd, ha⟩ := pre_of_not_edits s e st n' snap ot' (hE n') hot' hg' hd'
      exact Or.inr ⟨n', ot, hot, hg0, hd, ha, fun _ id hid hT => absurd (hs n' ot hot id hid) hT⟩

theorem not_edits_importDone (p u : Nat) (c : List (Nat × List Nat)) (a b d : List Nat) (n : String) :
    ¬ C06.Edits (.importDone p u c a b d) n := fun h => h

theorem ne_nil_of_mem {l : List Nat} {x : Nat} (h : x ∈ l) : l ≠ [] := by
  intro h0; rw [h0] at h; cases h

/-- the bound of the table entries in the form the sweep lemmas need -/
theorem tb_of_reach {s : St} (hr : Reach s) {k : Nat} (hk : s.all ≤ k) {n : String} {t : Tag}
    (ht : sget s.tags n = some t) : Pk.Proofs.MgrReach.TB k t :=
  ⟨fun id hid => Nat.lt_of_lt_of_le (hr.uncBounded n t ht id hid) hk,
   fun id hid => Nat.lt_of_lt_of_le (Nat.lt_of_lt_of_le (hr.matInv.1 (n, t) (sget_mem' ht) id hid) hr.nextLeAll) hk⟩

/-- an import completion that wrote files -/
theorem good_importDone (s : St) (p u : Nat) (c : List (Nat × List Nat)) (a b d : List Nat) (st : Started)
    (T T' g : Truth) (hg : Good s T g) (jn : Nat) (held : List Nat) (hj : s.jImport = some (jn, held))
    (hc : c ≠ []) (hpay : PayloadOK s (.importDone p u c a b d)) (hadd : ImportAddsNew s (.importDone p u c a b d))
    (hch : ChangesIn s (jn + u) (ImportBase s a b d) T T') :
    C06.Inv (step s (.importDone p u c a b d) st).1 T' ∧
    (∀ jn' snap held', s.jTag = some (jn', snap, held') → JobInv (step s (.importDone p u c a b d) st).1 T' g) := by
  have hr := hg.reach
  have hw := hr.tagsWF
  have hjn : jn = s.next := hr.importJob jn held hj
  have hall0 : s.all = s.next := Nat.le_antisymm hr.allLeNext hr.nextLeAll
  obtain ⟨s1, htags, hall, hnext, h1all, h1tags⟩ := importDone_via s p u c a b d st jn held hj hc
  obtain ⟨ia, ib, id'⟩ := hpay.2.2.2.1 jn held hj
  have hget : ∀ n, sget s1.tags n = (sget s.tags n).map (invF (jn + u) (ofList a) (ofList b) (ofList d)) := by
    intro n
    rw [h1tags]
    exact sget_map (fun _ t => invF (jn + u) (ofList a) (ofList b) (ofList d) t) s.tags n
  have hsort : Sorted s1.tags := by
    apply sorted_of_keys_eq s.tags s1.tags _ hw
    rw [h1tags]; simp [Function.comp_def]
  have hbnd : Bounded s1.all s1.tags := by
    intro n t1 h1 x hx
    rw [hget] at h1
    cases hs : sget s.tags n with
    | none => rw [hs] at h1; cases h1
    | some t =>
      rw [hs] at h1
      simp only [Option.map_some, Option.some.injEq] at h1
      subst h1
      rw [h1all]
      exact (Pk.Proofs.MgrReach.TB_invF (Nat.le_refl _)
        (Pk.Proofs.MgrReach.SB_ofList ia) (Pk.Proofs.MgrReach.SB_ofList ib) (Pk.Proofs.MgrReach.SB_ofList id') t
        (tb_of_reach hr (by omega) hs)).1 x hx
  have hattr : ∀ n, (sget s1.tags n).map Attrs = (sget s.tags n).map Attrs := by
    intro n
    rw [hget]
    cases sget s.tags n with
    | none => rfl
    | some t => simp [attrs_invF]
  have htopo : Pk.Proofs.MgrTermination.Topo s1.tags :=
    Pk.Proofs.MgrTermination.topo_of_fq hw (fq_of_attrs hattr) (topo_of_acyclic s hg.acyclic)
  have P : ∀ n id, Dep s.tags (jn + u) (ImportBase s a b d) n id → id < jn + u →
      Pend (step s (.importDone p u c a b d) st).1.tags n id := by
    intro n id hd hid
    rw [htags]
    refine sweep_pending s.tags s1 hsort hbnd htopo (Nat.le_of_eq h1all.symm) ?_ ?_ n id hd (h1all ▸ hid)
    · intro n t0 h0
      refine ⟨invF (jn + u) (ofList a) (ofList b) (ofList d) t0, by rw [hget, h0]; rfl, Or.inl ?_⟩
      obtain ⟨e1, e2, _, _⟩ := attrs_eq (attrs_invF (jn + u) (ofList a) (ofList b) (ofList d) t0)
      exact ⟨e1, e2⟩
    · rintro n id ⟨t, ht, hB⟩ hid
      rw [h1all] at hid
      refine ⟨invF (jn + u) (ofList a) (ofList b) (ofList d) t, by rw [hget, ht]; rfl, ?_⟩
      rcases hB with hB | hB | hB | hB
      · exact invF_add t id ((mem_ofList _ _).2 hB) hid
      · exact invF_sub t hB.1 id hid
      · exact invF_rst t hB.2 id ((mem_ofList _ _).2 hB.1) hid
      · exact invF_upd t hB.2 id ((mem_ofList _ _).2 hB.1) hid
  have hnew : ∀ n t, sget s.tags n = some t → ∀ id, s.next ≤ id → id < jn + u →
      Dep s.tags (jn + u) (ImportBase s a b d) n id :=
    fun n t ht id h1 h2 => .base ⟨t, ht, Or.inl (hadd jn held hj id (hjn ▸ h1) h2)⟩
  refine ⟨?_, ?_⟩
  · refine C06.inv_step_stable s _ st T T' hw hg.inv (not_edits_importDone p u c a b d) hr.nextLeAll ?_
    intro n t' h' id hid hcase
    rw [hnext] at hid
    have hk := keep_step s (.importDone p u c a b d) st n (not_edits_importDone p u c a b d n)
    cases hsn : sget s.tags n with
    | none => rw [hk.2 hsn] at h'; cases h'
    | some t =>
      have hdep : Dep s.tags (jn + u) (ImportBase s a b d) n id := by
        rcases Nat.lt_or_ge id s.next with hlt | hge
        · rcases hcase with hcase | hcase
          · omega
          · exact hch n t hsn id hlt hcase
        · exact hnew n t hsn id hge hid
      obtain ⟨t2, h2, hu⟩ := P n id hdep hid
      rw [h'] at h2; cases h2; exact hu
  · intro jn' snap held' hjt
    have htag : s.tag = true := hr.jobsWF.1.2 (by rw [hjt]; rfl)
    obtain ⟨mu, mr, ma⟩ := importDone_masks s p u c a b d st jn held hj hc htag
    have hne : ∀ n r, Ev.importDone p u c a b d ≠ .tagDone n r := fun n r h => by cases h
    refine jobInv_mono s _ st T T' g hr hg.job hne jn' snap held' hjt ?_ ?_
    · intro id h1 h2
      rw [hnext] at h2
      exact ma id (hadd jn held hj id (hjn ▸ h1) h2)
    · intro n' ot' hot' hg' hd'
      obtain ⟨ot, hot, hg0, hd, ha⟩ := pre_of_not_edits s _ st n' snap ot' (not_edits_importDone p u c a b d n') hot' hg' hd'
      refine Or.inr ⟨n', ot, hot, hg0, hd, ha, ?_⟩
      intro hA id hid hT
      obtain ⟨r1, r2, e1, e2, _⟩ := attrs_eq hA
      have hlt : id < jn + u := by omega
      refine job_cover hot r1 r2 (hch n' ot hot id hid hT) ?_ ?_ ?_ ?_
      · rintro ⟨t, ht, hB⟩
        rw [hot] at ht; cases ht
        rcases hB with hB | hB | hB | hB
        · exact Or.inl (ma id hB)
        · refine Or.inr (Or.inl ⟨e2 ▸ hB.1, ?_⟩)
          rcases hB.2 with h | h | h
          · cases a with
            | nil => exact absurd rfl h
            | cons x l => exact masksNE_of_mem (Or.inl (mu x (by simp)))
          · cases b with
            | nil => exact absurd rfl h
            | cons x l => exact masksNE_of_mem (Or.inr (Or.inl (mr x (by simp))))
          · cases d with
            | nil => exact absurd rfl h
            | cons x l => exact masksNE_of_mem (Or.inr (Or.inr (ma x (by simp))))
        · exact Or.inr (Or.inr (Or.inl ⟨mr id hB.1, by unfold F254 at *; rw [← e1]; exact hB.2⟩))
        · exact Or.inr (Or.inr (Or.inr ⟨mu id hB.1, by unfold FDT at *; rw [← e1]; exact hB.2⟩))
      · intro r _ hd'
        exact Or.inr (P r id hd' hlt)
      · intro r _ id2 hid2 hd'
        exact Or.inr ⟨id2, P r id2 hd' hid2⟩
      · rintro ⟨n0, id0, t, _, hB⟩
        rcases hB with hB | hB | hB | hB
        · exact masksNE_of_mem (Or.inr (Or.inr (ma id0 hB)))
        · rcases hB.2 with h | h | h
          · cases a with
            | nil => exact absurd rfl h
            | cons x l => exact masksNE_of_mem (Or.inl (mu x (by simp)))
          · cases b with
            | nil => exact absurd rfl h
            | cons x l => exact masksNE_of_mem (Or.inr (Or.inl (mr x (by simp))))
          · cases d with
            | nil => exact absurd rfl h
            | cons x l => exact masksNE_of_mem (Or.inr (Or.inr (ma x (by simp))))
        · exact masksNE_of_mem (Or.inr (Or.inl (mr id0 hB.1)))
        · exact masksNE_of_mem (Or.inl (mu id0 hB.1))

end Pk.Props.C06Reach
