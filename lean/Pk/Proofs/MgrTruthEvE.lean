/- Helper lemmas for C06Reach: `addTag`, `updName`, `delTag`. -/
import Pk.Proofs.MgrTruthEvD
namespace Pk.Props.C06Reach
open Pk.Mgr Pk.Props.MgrReach Pk.Proofs.MgrTruth Pk.Proofs.MgrTags

/-- an accepted edit that changes the truth of the edited tags only -/
theorem good_edit_simple (s : St) (e : Ev) (st : Started) (T T' g : Truth) (hg : Good s T g)
    (hne : ∀ n r, e ≠ .tagDone n r) (hnq : ∀ n d f, e ≠ .updQuery n d f)
    (hni : ∀ p u c a b d, e ≠ .importDone p u c a b d) (herr : (step s e st).2 ≠ Res.err)
    (hsame : ∀ n, ¬ C06.Edits e n → SameAt s T T' n)
    (hed : ∀ n, C06.Edits e n → ∀ t', sget (step s e st).1.tags n = some t' → ∀ id, id < s.next →
        id ∉ t'.unc → (id ∈ t'.mat ↔ T' n id = true))
    (hself : ∀ jn snap held, s.jTag = some (jn, snap, held) → ∀ n' ot', C06.Edits e n' →
        sget (step s e st).1.tags n' = some ot' → ot'.gen = snap.gen → ot'.defn = snap.defn →
        ∃ n ot, sget s.tags n = some ot ∧ ot.gen = snap.gen ∧ ot.defn = snap.defn ∧ Attrs ot' = Attrs ot ∧
          ∀ id, id < s.next → T' n' id = T n id) :
    C06.Inv (step s e st).1 T' ∧
    (∀ jn' snap held', s.jTag = some (jn', snap, held') → JobInv (step s e st).1 T' g) := by
  have hr := hg.reach
  obtain ⟨hall, hnext⟩ := Pk.Proofs.MgrReach.step_all_next_other s e st hni
  refine ⟨?_, ?_⟩
  · refine inv_of_frame s e st T T' hr hg.inv hnext hall ?_ hed
    intro n hE t' h' id hid hT
    have hk := keep_step s e st n hE
    cases hsn : sget s.tags n with
    | none => rw [hk.2 hsn] at h'; cases h'
    | some t0 => exact absurd (hsame n hE t0 hsn id hid) hT
  · intro jn' snap held' hjt'
    refine jobInv_mono s e st T T' g hr hg.job hne jn' snap held' hjt' ?_ ?_
    · intro id h1 h2
      rw [hnext] at h2; omega
    · intro n' ot' hot' hg' hd'
      by_cases hE : C06.Edits e n'
      · obtain ⟨n, ot, hot, hg0, hd, ha, hT⟩ := hself jn' snap held' hjt' n' ot' hE hot' hg' hd'
        exact Or.inr ⟨n, ot, hot, hg0, hd, ha, fun _ id hid hne' => absurd (hT id hid) hne'⟩
      · obtain ⟨ot, hot, hg0, hd, ha⟩ := pre_of_not_edits s e st n' snap ot' hE hot' hg' hd'
        exact Or.inr ⟨n', ot, hot, hg0, hd, ha, fun _ id hid hT => absurd (hsame n' hE ot hot id hid) hT⟩

/-- an accepted `addTag` -/
theorem good_addTag (s : St) (name color defn : String) (f : Facts) (st : Started) (T T' g : Truth)
    (hg : Good s T g) (hok : (step s (.addTag name color defn f) st).2 = Res.ok)
    (hsame : ∀ n, n ≠ name → SameAt s T T' n)
    (hmark : (parseTagName name).2.2 = true → ∀ id, id < s.next → (T' name id = true ↔ id ∈ f.ids)) :
    C06.Inv (step s (.addTag name color defn f) st).1 T' ∧
    (∀ jn' snap held', s.jTag = some (jn', snap, held') → JobInv (step s (.addTag name color defn f) st).1 T' g) := by
  refine good_edit_simple s _ st T T' g hg (fun n r h => by cases h) (fun n d f h => by cases h)
    (fun p u c a b d h => by cases h) (by rw [hok]; intro h; cases h) ?_ ?_ ?_
  · intro n hE
    exact hsame n (fun h => hE h.symm)
  · intro n hE t' h' id hid hnu
    have hn : name = n := hE
    subst hn
    obtain ⟨_, _, t2, h2, _, _, _, _, _, hcase, _⟩ := addTag_ok s name color defn f st hok
    rw [h'] at h2; cases h2
    rcases hcase with ⟨hm, _, hmat⟩ | ⟨_, hallp⟩
    · rw [hmat, hmark hm id hid]
    · exact absurd (hallp id (Nat.lt_of_lt_of_le hid hg.reach.nextLeAll)) hnu
  · -- the new tag has a fresh identity: it is not the incarnation the job was started for
    intro jn snap held hj n' ot' hE hot' hg' _
    have hn : name = n' := hE
    subst hn
    obtain ⟨_, _, t2, h2, _, _, _, _, _, _, egen, _⟩ := addTag_ok s name color defn f st hok
    rw [hot'] at h2; cases h2
    have := hg.gens.2.1 jn snap held hj
    rw [← hg', egen] at this
    omega

theorem updName_moved (s : St) (name new : String) (st : Started)
    (h : (step s (.updName name new) st).2 = Res.ok) (hnew : new ≠ "") :
    ∃ t, sget s.tags name = some t ∧ t.refBy = [] ∧ sget s.tags new = none ∧ name ≠ new ∧
      sget (step s (.updName name new) st).1.tags name = none ∧
      ∃ t', sget (step s (.updName name new) st).1.tags new = some t' ∧ t'.mat = t.mat ∧ t'.unc = t.unc ∧
        t'.defn = t.defn ∧ Attrs t' = Attrs t := by
  rcases updName_ok s name new st h with h1 | ⟨t, h1, h2, h3, h4, h5, t', h6, h7, h8, h9, a1, a2, a3, a4, a5⟩
  · exfalso
    revert h h1
    rw [step_updName_eq]
    split
    · intro h; cases h
    · rename_i t ht
      have : (new == "") = false := by simpa using hnew
      simp only [this, Bool.false_eq_true, if_false]
      repeat' split
      all_goals first | (intro h; cases h; done) | skip
      intro _ h1
      rename_i hex _ _
      have hnone : sget s.tags new = none := by
        cases hn : sget s.tags new with
        | none => rfl
        | some x => simp [hn] at hex
      have hne : name ≠ new := by
        rintro rfl; rw [ht] at hnone; cases hnone
      obtain ⟨h2, _⟩ := unApply_get s name new t hne
      have h1' : unApply s name new t = s := h1
      rw [h1', ht] at h2; cases h2
  · exact ⟨t, h1, h2, h3, h4, h5, t', h6, h7, h8, h9, attrs_mk a1 a2 a3 a4 a5⟩

/-- an accepted rename -/
theorem good_updName (s : St) (name new : String) (st : Started) (T T' g : Truth)
    (hg : Good s T g) (hok : (step s (.updName name new) st).2 = Res.ok) (hnew : new ≠ "")
    (hsame : ∀ n, n ≠ name → n ≠ new → SameAt s T T' n)
    (hmove : ∀ id, id < s.next → T' new id = T name id) :
    C06.Inv (step s (.updName name new) st).1 T' ∧
    (∀ jn' snap held', s.jTag = some (jn', snap, held') → JobInv (step s (.updName name new) st).1 T' g) := by
  refine good_edit_simple s _ st T T' g hg (fun n r h => by cases h) (fun n d f h => by cases h)
    (fun p u c a b d h => by cases h) (by rw [hok]; intro h; cases h) ?_ ?_ ?_
  · intro n hE
    exact hsame n (fun h => hE (Or.inl h.symm)) (fun h => hE (Or.inr h.symm))
  · intro n hE t' h' id hid hnu
    obtain ⟨t, ht, _, _, hne, hgone, t2, h2, hm, hu, _⟩ := updName_moved s name new st hok hnew
    have hn : name = n ∨ new = n := hE
    rcases hn with hn | hn
    · subst hn; rw [hgone] at h'; cases h'
    · subst hn
      rw [h'] at h2; cases h2
      rw [hm, hmove id hid]
      exact hg.inv name t ht id hid (by rw [← hu]; exact hnu)
  · -- the renamed tag keeps its identity: the incarnation is followed under its new name
    intro jn snap held hj n' ot' hE hot' hg' hd'
    obtain ⟨t, ht, _, _, hne, hgone, t2, h2, _, _, hdf, ha⟩ := updName_moved s name new st hok hnew
    have hn : name = n' ∨ new = n' := hE
    rcases hn with hn | hn
    · subst hn; rw [hgone] at hot'; cases hot'
    · subst hn
      rw [hot'] at h2; cases h2
      exact ⟨name, t, ht, by rw [← (attrs_eq ha).2.2.2.2]; exact hg', by rw [← hdf]; exact hd', ha, hmove⟩

/-- an accepted `delTag` -/
theorem good_delTag (s : St) (name : String) (st : Started) (T T' g : Truth)
    (hg : Good s T g) (hok : (step s (.delTag name) st).2 = Res.ok)
    (hsame : ∀ n, n ≠ name → SameAt s T T' n) :
    C06.Inv (step s (.delTag name) st).1 T' ∧
    (∀ jn' snap held', s.jTag = some (jn', snap, held') → JobInv (step s (.delTag name) st).1 T' g) := by
  refine good_edit_simple s _ st T T' g hg (fun n r h => by cases h) (fun n d f h => by cases h)
    (fun p u c a b d h => by cases h) (by rw [hok]; intro h; cases h) ?_ ?_ ?_
  · intro n hE
    exact hsame n (fun h => hE h.symm)
  · intro n hE t' h' id hid hnu
    have hn : name = n := hE
    subst hn
    obtain ⟨_, _, _, hgone⟩ := delTag_ok s name st hok
    rw [hgone] at h'; cases h'
  · intro jn snap held hj n' ot' hE hot' _ _
    have hn : name = n' := hE
    subst hn
    obtain ⟨_, _, _, hgone⟩ := delTag_ok s name st hok
    rw [hgone] at hot'; cases hot'

end Pk.Props.C06Reach
