/-
  Codec round trips of the fixed records of internal/index/format.go (helper lemmas for C01).
-/
import Pk.Model.IndexFormat
import Pk.Proofs.Bytes

namespace Pk.Index
open Pk Pk.Bytes

theorem fld_skip (k n : Nat) (rest : Bytes) (o j : Nat) (h : k ≤ o) :
    fld (le k n ++ rest) o j = fld rest (o - k) j := by
  unfold fld
  have : o = k + (o - k) := by omega
  rw [this, ← List.drop_drop, drop_le_append]
  simp

theorem fld_here (k n : Nat) (rest : Bytes) : fld (le k n ++ rest) 0 k = n % 256 ^ k := by
  unfold fld
  simp only [List.drop_zero, take_le_append, val_le]

theorem fld_last (k n : Nat) : fld (le k n) 0 k = n % 256 ^ k := by
  have := fld_here k n []
  simpa using this

theorem codec_roundtrip_packet (p : PacketRec) (h : p.WF) : PacketRec.dec p.enc = p := by
  obtain ⟨h1, h2, h3, h4, h5, h6⟩ := h
  cases p
  simp only [PacketRec.enc, PacketRec.dec, List.append_assoc] at *
  simp [fld_skip, fld_here, fld_last, Nat.mod_eq_of_lt, *]

theorem codec_roundtrip_hostgroup (e : HGEntry) (h : e.WF) : HGEntry.dec e.enc = e := by
  obtain ⟨h1, h2, h3⟩ := h
  cases e
  simp only [HGEntry.enc, HGEntry.dec, List.append_assoc] at *
  simp [fld_skip, fld_here, fld_last, Nat.mod_eq_of_lt, *]

theorem codec_roundtrip_import (e : ImportRec) (h : e.WF) : ImportRec.dec e.enc = e := by
  obtain ⟨h1, h2⟩ := h
  cases e
  simp only [ImportRec.enc, ImportRec.dec, List.append_assoc] at *
  simp [fld_skip, fld_here, fld_last, Nat.mod_eq_of_lt, *]

theorem codec_roundtrip_stream (s : StreamRec) (h : s.WF) : StreamRec.dec s.enc = s := by
  obtain ⟨h1, h2, h3, h4, h5, h6, h7, h8, h9, h10, h11, h12, h13⟩ := h
  cases s
  simp only [StreamRec.enc, StreamRec.dec, List.append_assoc] at *
  simp [fld_skip, fld_here, fld_last, Nat.mod_eq_of_lt, *]

end Pk.Index
