/-
  First loop of `Stream.Data`: the walk along the skip counters collects the payload size of every
  record of the stream (helper lemmas for C01 `roundtrip_payload`).
-/
import Pk.Model.IndexFormat
import Pk.Proofs.IndexFormatSkip
namespace Pk.Index
open Pk Pk.Bytes

def ptSum (l : List (Int × Nat)) : Nat := (l.map (·.2)).sum
def PtPos (l : List (Int × Nat)) : Prop := ∀ e ∈ l, e.2 ≠ 0

/-- wrap bookkeeping of one record -/
def dwWrap (st : DWalk) (p : PacketRec) : DWalk :=
  if st.expectWraps ≠ 0 then
    let st := if p.rel < st.lastRel then { st with refTime := st.refTime + wrapNs, expectWraps := st.expectWraps - 1 } else st
    { st with lastRel := p.rel }
  else st

/-- one more payload size for a direction: merged into the newest packet-time chunk or a new chunk -/
def ptAdd (ci : List (Int × Nat)) (c : Prop) [Decidable c] (ts : Int) (size : Nat) : List (Int × Nat) :=
  match ci with
  | (t, sz) :: rest => if c then (t, sz + size) :: rest else (ts, size) :: ci
  | [] => [(ts, size)]

/-- payload bookkeeping of one record -/
def dwSize (st : DWalk) (p : PacketRec) : DWalk :=
  if p.size ≠ 0 then
    let ts := st.refTime + (p.rel : Int) * 1000
    let dir := p.flags / 2 % 2
    let ci' := ptAdd (if dir = 0 then st.pt0 else st.pt1) (dir = st.prevDir ∧ ts - st.prevTs < chunkSplitNs) ts p.size
    let st := if dir = 0 then { st with pt0 := ci' } else { st with pt1 := ci' }
    { st with prevTs := ts, prevDir := dir }
  else st

def dwStep (st : DWalk) (p : PacketRec) : DWalk := dwSize (dwWrap st p) p

theorem dataWalk_succ (fuel : Nat) (st : DWalk) (p : PacketRec) (ps : List PacketRec) :
    dataWalk (fuel + 1) st (p :: ps) =
      if p.flags % 2 = 0 then .ok (dwStep st p)
      else if p.skip ≠ 0 ∧ (dwStep st p).expectWraps = 0 then
        if ps.length < p.skip then .error .err else dataWalk fuel (dwStep st p) (ps.drop p.skip)
      else dataWalk fuel (dwStep st p) ps := by
  rw [dataWalk]
  rfl

theorem dwWrap_pt (st : DWalk) (p : PacketRec) : (dwWrap st p).pt0 = st.pt0 ∧ (dwWrap st p).pt1 = st.pt1 := by
  unfold dwWrap
  split
  · split <;> exact ⟨rfl, rfl⟩
  · exact ⟨rfl, rfl⟩

/-- payload size of a record in direction `d` -/
def recSize (d : Nat) (p : PacketRec) : Nat := if p.flags / 2 % 2 = d then p.size else 0

theorem ptSum_cons (e : Int × Nat) (l : List (Int × Nat)) : ptSum (e :: l) = e.2 + ptSum l := by
  simp [ptSum]

theorem ptAdd_spec (ci : List (Int × Nat)) (c : Prop) [Decidable c] (ts : Int) (size : Nat) :
    ptSum (ptAdd ci c ts size) = ptSum ci + size ∧ (size ≠ 0 → PtPos ci → PtPos (ptAdd ci c ts size)) := by
  unfold ptAdd
  cases ci with
  | nil =>
    refine ⟨by simp [ptSum], ?_⟩
    intro hs _ e he; simp at he; subst he; exact hs
  | cons e rest =>
    obtain ⟨t, sz⟩ := e
    by_cases hc : c
    · simp only [hc, if_true]
      refine ⟨by simp only [ptSum_cons]; omega, ?_⟩
      intro hs h e he
      simp at he
      rcases he with rfl | he
      · simp; omega
      · exact h e (by simp [he])
    · simp only [hc, if_false]
      refine ⟨by simp only [ptSum_cons]; omega, ?_⟩
      intro hs h e he
      simp at he
      rcases he with rfl | he
      · exact hs
      · exact h e (by simpa using he)

theorem dwSize_pt (st : DWalk) (p : PacketRec) :
    ptSum (dwSize st p).pt0 = ptSum st.pt0 + recSize 0 p ∧ ptSum (dwSize st p).pt1 = ptSum st.pt1 + recSize 1 p ∧
    (PtPos st.pt0 → PtPos (dwSize st p).pt0) ∧ (PtPos st.pt1 → PtPos (dwSize st p).pt1) := by
  unfold dwSize recSize
  by_cases hs : p.size ≠ 0
  · rw [if_pos hs]
    by_cases hd : p.flags / 2 % 2 = 0
    · have h1 : ¬ (p.flags / 2 % 2 = 1) := by omega
      simp only [hd, if_true]
      obtain ⟨a, b⟩ := ptAdd_spec st.pt0 (0 = st.prevDir ∧ st.refTime + (p.rel : Int) * 1000 - st.prevTs < chunkSplitNs)
        (st.refTime + (p.rel : Int) * 1000) p.size
      exact ⟨a, by simp, b hs, fun h => h⟩
    · have h1 : p.flags / 2 % 2 = 1 := by omega
      simp only [h1, if_true]
      have h2 : ¬ ((1 : Nat) = 0) := by omega
      simp only [h2, if_false]
      obtain ⟨a, b⟩ := ptAdd_spec st.pt1 (1 = st.prevDir ∧ st.refTime + (p.rel : Int) * 1000 - st.prevTs < chunkSplitNs)
        (st.refTime + (p.rel : Int) * 1000) p.size
      exact ⟨by simp, a, fun h => h, b hs⟩
  · have hs' : p.size = 0 := by omega
    rw [if_neg hs]
    refine ⟨by split <;> omega, by split <;> omega, fun h => h, fun h => h⟩

theorem dwStep_pt (st : DWalk) (p : PacketRec) :
    ptSum (dwStep st p).pt0 = ptSum st.pt0 + recSize 0 p ∧ ptSum (dwStep st p).pt1 = ptSum st.pt1 + recSize 1 p ∧
    (PtPos st.pt0 → PtPos (dwStep st p).pt0) ∧ (PtPos st.pt1 → PtPos (dwStep st p).pt1) := by
  have h := dwSize_pt (dwWrap st p) p
  obtain ⟨e0, e1⟩ := dwWrap_pt st p
  rw [e0, e1] at h
  exact h

/-- all records but the last carry the has-next flag -/
def HasNextOK : List PacketRec → Prop
  | [] => False
  | [p] => p.flags % 2 = 0
  | p :: q :: r => p.flags % 2 = 1 ∧ HasNextOK (q :: r)

def dirSum (d : Nat) (l : List PacketRec) : Nat := (l.map (recSize d)).sum

theorem HasNextOK_drop (l : List PacketRec) : ∀ (k : Nat), k < l.length → HasNextOK l → HasNextOK (l.drop k) := by
  induction l with
  | nil => intro k h; simp at h
  | cons p t ih =>
    intro k hk h
    cases k with
    | zero => exact h
    | succ k =>
      cases t with
      | nil => simp at hk
      | cons q r => exact ih k (by simpa using hk) h.2

theorem SkipSound_drop (l : List PacketRec) : ∀ (k : Nat), SkipSound l → SkipSound (l.drop k) := by
  induction l with
  | nil => intro k h; simpa using h
  | cons p t ih =>
    intro k h
    cases k with
    | zero => exact h
    | succ k => exact ih k h.2

theorem dirSum_drop (d : Nat) (l : List PacketRec) (k : Nat) (h : (l.take k).all (fun q => q.size == 0) = true) :
    dirSum d (l.drop k) = dirSum d l := by
  induction l generalizing k with
  | nil => simp
  | cons p t ih =>
    cases k with
    | zero => rfl
    | succ k =>
      simp only [List.take_succ_cons, List.all_cons, Bool.and_eq_true, beq_iff_eq] at h
      simp only [List.drop_succ_cons]
      rw [ih k h.2]
      simp [dirSum, recSize, h.1]

/-- the walk over the records of one stream (followed by anything) succeeds and sums every payload size -/
theorem dataWalk_ok (B : List PacketRec) : ∀ (n : Nat) (L : List PacketRec) (st : DWalk) (fuel : Nat), L.length = n →
    L.length < fuel → HasNextOK L → SkipSound L →
    ∃ st', dataWalk fuel st (L ++ B) = .ok st' ∧
      ptSum st'.pt0 = ptSum st.pt0 + dirSum 0 L ∧ ptSum st'.pt1 = ptSum st.pt1 + dirSum 1 L ∧
      (PtPos st.pt0 → PtPos st'.pt0) ∧ (PtPos st.pt1 → PtPos st'.pt1) := by
  intro n
  induction n using Nat.strongRecOn with
  | _ n ih =>
    intro L st fuel hn hfuel hnext hskip
    cases L with
    | nil => exact absurd hnext (by simp [HasNextOK])
    | cons p ps =>
      cases fuel with
      | zero => omega
      | succ fuel =>
        obtain ⟨s0, s1, q0, q1⟩ := dwStep_pt st p
        rw [List.cons_append, dataWalk_succ]
        cases ps with
        | nil =>
          have : p.flags % 2 = 0 := hnext
          simp only [this, if_true]
          exact ⟨_, rfl, by simp [dirSum, s0], by simp [dirSum, s1], q0, q1⟩
        | cons q r =>
          have hodd : ¬ (p.flags % 2 = 0) := by have := hnext.1; omega
          simp only [hodd, if_false]
          have hsk := hskip.1
          simp only [reduceCtorEq, false_or] at hsk
          simp only [List.length_cons] at hfuel hn
          split
          · -- follow the skip counter
            have hlen : ¬ ((q :: r ++ B).length < p.skip) := by
              have := hsk.2; simp only [List.length_append, List.length_cons] at this ⊢; omega
            simp only [hlen, if_false]
            have hdrop : (q :: r ++ B).drop p.skip = (q :: r).drop p.skip ++ B :=
              List.drop_append_of_le_length (by have := hsk.2; omega)
            rw [hdrop]
            obtain ⟨st', hw, t0, t1, u0, u1⟩ := ih ((q :: r).drop p.skip).length (by simp; omega) _ (dwStep st p) fuel rfl
              (by simp; omega) (HasNextOK_drop _ _ hsk.2 hnext.2) (SkipSound_drop _ _ hskip.2)
            refine ⟨st', hw, ?_, ?_, fun h => u0 (q0 h), fun h => u1 (q1 h)⟩
            · rw [t0, s0, dirSum_drop 0 _ _ hsk.1]; simp [dirSum]; omega
            · rw [t1, s1, dirSum_drop 1 _ _ hsk.1]; simp [dirSum]; omega
          · obtain ⟨st', hw, t0, t1, u0, u1⟩ := ih (q :: r).length (by simp; omega) _ (dwStep st p) fuel rfl
              (by simp; omega) hnext.2 hskip.2
            refine ⟨st', hw, ?_, ?_, fun h => u0 (q0 h), fun h => u1 (q1 h)⟩
            · rw [t0, s0]; simp [dirSum]; omega
            · rw [t1, s1]; simp [dirSum]; omega

end Pk.Index
