/-
  Helper lemmas for C17: ShortBitmask.  Property theorems are in Pk/Props/C17.lean.
-/
import Pk.Model.Bits
import Pk.Proofs.Bits
set_option linter.unusedSimpArgs false
namespace Pk.Proofs.Bits
open Pk.Bits
namespace Short
open Pk.Bits.Short

theorem isSet_last (m : W) (x : Nat) : isSet (.last m) x = (decide (x < 64) && m.getLsbD x) := by
  by_cases h : x < 64 <;> simp [isSet, h]

theorem isSet_cons_lt (m : W) (n : Pk.Bits.Short) (x : Nat) (h : x < 64) :
    isSet (.cons m n) x = m.getLsbD x := by simp [isSet, h]

theorem isSet_cons_ge (m : W) (n : Pk.Bits.Short) (x : Nat) (h : 64 ≤ x) :
    isSet (.cons m n) x = isSet n (x - 64) := by
  have : ¬ x < 64 := by omega
  simp [isSet, this]

theorem isSet_last_lt (m : W) (x : Nat) (h : x < 64) : isSet (.last m) x = m.getLsbD x := by
  simp [isSet, h]

theorem isSet_last_ge (m : W) (x : Nat) (h : 64 ≤ x) : isSet (.last m) x = false := by
  have : ¬ x < 64 := by omega
  simp [isSet, this]

/-- general lemma for freshModify -/
theorem freshModify_isSet (f : W → W → W) (g : Bool → Bool → Bool)
    (hf : ∀ (m : W) (j i : Nat), j < 64 → i < 64 → (f m (Long.bitW j)).getLsbD i = g (m.getLsbD i) (decide (i = j)))
    (hg : g false false = false)
    (bit x : Nat) : isSet (freshModify f bit) x = g false (decide (x = bit)) := by
  induction bit using Nat.strongRecOn generalizing x with
  | _ bit ih =>
    unfold freshModify
    by_cases hb : bit < 64
    · simp only [hb, if_true]
      by_cases hx : x < 64
      · rw [isSet_last_lt _ _ hx, hf _ _ _ hb hx]; simp
      · rw [isSet_last_ge _ _ (by omega)]
        have : decide (x = bit) = false := by simp; omega
        rw [this, hg]
    · simp only [hb, if_false]
      by_cases hx : x < 64
      · rw [isSet_cons_lt _ _ _ hx]
        have : decide (x = bit) = false := by simp; omega
        rw [this, hg]; simp
      · rw [isSet_cons_ge _ _ _ (by omega), ih (bit - 64) (by omega)]
        congr 1
        exact decide_eq_decide.mpr (by omega)

theorem modify_isSet (f : W → W → W) (g : Bool → Bool → Bool)
    (hf : ∀ (m : W) (j i : Nat), j < 64 → i < 64 → (f m (Long.bitW j)).getLsbD i = g (m.getLsbD i) (decide (i = j)))
    (hg : ∀ a, g a false = a)
    (s : Pk.Bits.Short) (bit x : Nat) : isSet (modify f s bit) x = g (isSet s x) (decide (x = bit)) := by
  induction s generalizing bit x with
  | last m =>
    unfold Short.modify
    by_cases hb : bit < 64
    · simp only [hb, if_true]
      by_cases hx : x < 64
      · rw [isSet_last_lt _ _ hx, isSet_last_lt _ _ hx, hf _ _ _ hb hx]
      · rw [isSet_last_ge _ _ (by omega), isSet_last_ge _ _ (by omega)]
        have : decide (x = bit) = false := by simp; omega
        rw [this, hg]
    · simp only [hb, if_false]
      by_cases hx : x < 64
      · rw [isSet_cons_lt _ _ _ hx, isSet_last_lt _ _ hx]
        have : decide (x = bit) = false := by simp; omega
        rw [this, hg]
      · rw [isSet_cons_ge _ _ _ (by omega), isSet_last_ge _ _ (by omega),
          freshModify_isSet f g hf (hg false)]
        congr 1
        exact decide_eq_decide.mpr (by omega)
  | cons m n ih =>
    unfold Short.modify
    by_cases hb : bit < 64
    · simp only [hb, if_true]
      by_cases hx : x < 64
      · rw [isSet_cons_lt _ _ _ hx, isSet_cons_lt _ _ _ hx, hf _ _ _ hb hx]
      · rw [isSet_cons_ge _ _ _ (by omega), isSet_cons_ge _ _ _ (by omega)]
        have : decide (x = bit) = false := by simp; omega
        rw [this, hg]
    · simp only [hb, if_false]
      by_cases hx : x < 64
      · rw [isSet_cons_lt _ _ _ hx, isSet_cons_lt _ _ _ hx]
        have : decide (x = bit) = false := by simp; omega
        rw [this, hg]
      · rw [isSet_cons_ge _ _ _ (by omega), isSet_cons_ge _ _ _ (by omega), ih]
        congr 1
        exact decide_eq_decide.mpr (by omega)

theorem set_isSet (s : Pk.Bits.Short) (b x : Nat) :
    isSet (Short.set s b) x = (x == b || isSet s x) := by
  unfold Short.set
  rw [modify_isSet _ (fun a c => a || c)]
  · by_cases h : x = b <;> simp [h]
  · intro m j i hj hi; simp only [BitVec.getLsbD_or, getLsbD_bitW _ _ hj]
  · intro a; simp

theorem unset_isSet (s : Pk.Bits.Short) (b x : Nat) :
    isSet (Short.unset s b) x = (x != b && isSet s x) := by
  unfold Short.unset
  rw [modify_isSet _ (fun a c => a && !c)]
  · by_cases h : x = b <;> simp [h]
  · intro m j i hj hi; simp only [BitVec.getLsbD_and, BitVec.getLsbD_not, getLsbD_bitW _ _ hj]; simp [hi]
  · intro a; simp

theorem flip_isSet (s : Pk.Bits.Short) (b x : Nat) :
    isSet (Short.flip s b) x = (if x = b then !isSet s x else isSet s x) := by
  unfold Short.flip
  rw [modify_isSet _ (fun a c => a ^^ c)]
  · by_cases h : x = b <;> simp [h]
  · intro m j i hj hi; simp only [BitVec.getLsbD_xor, getLsbD_bitW _ _ hj]
  · intro a; simp

theorem isSet_last_zero (x : Nat) : isSet (.last 0#64) x = false := by
  by_cases h : x < 64
  · rw [isSet_last_lt _ _ h]; simp
  · rw [isSet_last_ge _ _ (by omega)]

theorem zipExtend_isSet (f : W → W → W) (g : Bool → Bool → Bool)
    (hf : ∀ (a b : W) (i : Nat), (f a b).getLsbD i = g (a.getLsbD i) (b.getLsbD i))
    (hgl : ∀ a, g a false = a)
    (s t : Pk.Bits.Short) (x : Nat) : isSet (zipExtend f s t) x = g (isSet s x) (isSet t x) := by
  fun_induction zipExtend f s t generalizing x with
  | case1 a b =>
    by_cases hx : x < 64
    · simp only [isSet_last_lt _ _ hx, hf]
    · simp only [isSet_last_ge _ _ (Nat.le_of_not_lt hx), hgl]
  | case2 a an b =>
    by_cases hx : x < 64
    · simp only [isSet_last_lt _ _ hx, isSet_cons_lt _ _ _ hx, hf]
    · simp only [isSet_last_ge _ _ (Nat.le_of_not_lt hx), isSet_cons_ge _ _ _ (Nat.le_of_not_lt hx), hgl]
  | case3 a b bn ih =>
    by_cases hx : x < 64
    · simp only [isSet_last_lt _ _ hx, isSet_cons_lt _ _ _ hx, hf]
    · simp only [isSet_last_ge _ _ (Nat.le_of_not_lt hx), isSet_cons_ge _ _ _ (Nat.le_of_not_lt hx), ih,
        isSet_last_zero]
  | case4 a an b bn ih =>
    by_cases hx : x < 64
    · simp only [isSet_cons_lt _ _ _ hx, hf]
    · simp only [isSet_cons_ge _ _ _ (Nat.le_of_not_lt hx), ih]

theorem or_isSet (a b : Pk.Bits.Short) (x : Nat) :
    isSet (Short.or a b) x = (isSet a x || isSet b x) := by
  unfold Short.or
  rw [zipExtend_isSet _ (fun a c => a || c)]
  · intro a b i; simp only [BitVec.getLsbD_or]
  · intro a; simp

theorem xor_isSet (a b : Pk.Bits.Short) (x : Nat) :
    isSet (Short.xor a b) x = (isSet a x != isSet b x) := by
  unfold Short.xor
  rw [zipExtend_isSet _ (fun a c => a != c)]
  · intro a b i; simp only [BitVec.getLsbD_xor]
  · intro a; simp

theorem and_isSet (a b : Pk.Bits.Short) (x : Nat) :
    isSet (Short.and a b) x = (isSet a x && isSet b x) := by
  fun_induction Short.and a b generalizing x with
  | case1 a an b bn ih =>
    by_cases hx : x < 64
    · simp only [isSet_cons_lt _ _ _ hx, BitVec.getLsbD_and]
    · simp only [isSet_cons_ge _ _ _ (Nat.le_of_not_lt hx), ih]
  | case2 a an b =>
    by_cases hx : x < 64
    · simp only [isSet_cons_lt _ _ _ hx, isSet_last_lt _ _ hx, BitVec.getLsbD_and]
    · simp only [isSet_cons_ge _ _ _ (Nat.le_of_not_lt hx), isSet_last_ge _ _ (Nat.le_of_not_lt hx), Bool.and_false]
  | case3 a b bn =>
    by_cases hx : x < 64
    · simp only [isSet_cons_lt _ _ _ hx, isSet_last_lt _ _ hx, BitVec.getLsbD_and]
    · simp only [isSet_cons_ge _ _ _ (Nat.le_of_not_lt hx), isSet_last_ge _ _ (Nat.le_of_not_lt hx), Bool.false_and]
  | case4 a b =>
    by_cases hx : x < 64
    · simp only [isSet_last_lt _ _ hx, BitVec.getLsbD_and]
    · simp only [isSet_last_ge _ _ (Nat.le_of_not_lt hx), Bool.and_false]

theorem sub_isSet (a b : Pk.Bits.Short) (x : Nat) :
    isSet (Short.sub a b) x = (isSet a x && !isSet b x) := by
  fun_induction Short.sub a b generalizing x with
  | case1 a an b bn ih =>
    by_cases hx : x < 64
    · simp [isSet_cons_lt _ _ _ hx, BitVec.getLsbD_and, BitVec.getLsbD_not, hx]
    · simp only [isSet_cons_ge _ _ _ (Nat.le_of_not_lt hx), ih]
  | case2 a an b =>
    by_cases hx : x < 64
    · simp [isSet_cons_lt _ _ _ hx, isSet_last_lt _ _ hx, BitVec.getLsbD_and, hx]
    · simp [isSet_cons_ge _ _ _ (Nat.le_of_not_lt hx), isSet_last_ge _ _ (Nat.le_of_not_lt hx)]
  | case3 a b bn =>
    by_cases hx : x < 64
    · simp [isSet_cons_lt _ _ _ hx, isSet_last_lt _ _ hx, BitVec.getLsbD_and, hx]
    · simp [isSet_cons_ge _ _ _ (Nat.le_of_not_lt hx), isSet_last_ge _ _ (Nat.le_of_not_lt hx)]
  | case4 a b =>
    by_cases hx : x < 64
    · simp [isSet_last_lt _ _ hx, BitVec.getLsbD_and, hx]
    · simp [isSet_last_ge _ _ (Nat.le_of_not_lt hx)]

theorem isZero_iff (s : Pk.Bits.Short) : s.isZero = true ↔ ∀ x, s.isSet x = false := by
  induction s with
  | last m =>
    simp only [isZero, beq_iff_eq]
    rw [word_eq_zero_iff]
    constructor
    · intro h x
      by_cases hx : x < 64
      · rw [isSet_last_lt _ _ hx]; exact h x hx
      · exact isSet_last_ge _ _ (Nat.le_of_not_lt hx)
    · intro h i hi
      rw [← isSet_last_lt _ _ hi]; exact h i
  | cons m n ih =>
    simp only [isZero, Bool.and_eq_true, beq_iff_eq]
    rw [word_eq_zero_iff, ih]
    constructor
    · intro ⟨h1, h2⟩ x
      by_cases hx : x < 64
      · rw [isSet_cons_lt _ _ _ hx]; exact h1 x hx
      · rw [isSet_cons_ge _ _ _ (Nat.le_of_not_lt hx)]; exact h2 _
    · intro h
      refine ⟨fun i hi => ?_, fun y => ?_⟩
      · rw [← isSet_cons_lt m n _ hi]; exact h i
      · have := h (y + 64)
        rw [isSet_cons_ge _ _ _ (by omega)] at this
        simpa using this

theorem last_isSet_eq_iff (a b : W) :
    (isSet (.last a) = isSet (.last b)) ↔ a = b := by
  constructor
  · intro h; apply word_ext; intro i hi
    have := congrFun h i
    rwa [isSet_last_lt _ _ hi, isSet_last_lt _ _ hi] at this
  · intro h; rw [h]

theorem cons_isSet_eq_iff (a : W) (an : Pk.Bits.Short) (b : W) (bn : Pk.Bits.Short) :
    (isSet (.cons a an) = isSet (.cons b bn)) ↔ (a = b ∧ isSet an = isSet bn) := by
  constructor
  · intro h
    refine ⟨?_, ?_⟩
    · apply word_ext; intro i hi
      have := congrFun h i
      rwa [isSet_cons_lt _ _ _ hi, isSet_cons_lt _ _ _ hi] at this
    · funext y
      have := congrFun h (y + 64)
      rw [isSet_cons_ge _ _ _ (by omega), isSet_cons_ge _ _ _ (by omega)] at this
      simpa using this
  · intro ⟨h1, h2⟩; funext x
    by_cases hx : x < 64
    · rw [isSet_cons_lt _ _ _ hx, isSet_cons_lt _ _ _ hx, h1]
    · rw [isSet_cons_ge _ _ _ (Nat.le_of_not_lt hx), isSet_cons_ge _ _ _ (Nat.le_of_not_lt hx), h2]

theorem last_cons_isSet_eq_iff (a : W) (b : W) (bn : Pk.Bits.Short) :
    (isSet (.last a) = isSet (.cons b bn)) ↔ (a = b ∧ ∀ x, isSet bn x = false) := by
  constructor
  · intro h
    refine ⟨?_, ?_⟩
    · apply word_ext; intro i hi
      have := congrFun h i
      rwa [isSet_last_lt _ _ hi, isSet_cons_lt _ _ _ hi] at this
    · intro y
      have := congrFun h (y + 64)
      rw [isSet_last_ge _ _ (by omega), isSet_cons_ge _ _ _ (by omega)] at this
      simpa using this.symm
  · intro ⟨h1, h2⟩; funext x
    by_cases hx : x < 64
    · rw [isSet_last_lt _ _ hx, isSet_cons_lt _ _ _ hx, h1]
    · rw [isSet_last_ge _ _ (Nat.le_of_not_lt hx), isSet_cons_ge _ _ _ (Nat.le_of_not_lt hx), h2]

theorem equal_iff (a b : Pk.Bits.Short) : Short.equal a b = true ↔ a.isSet = b.isSet := by
  fun_induction Short.equal a b with
  | case1 a b => rw [last_isSet_eq_iff]; simp
  | case2 a b bn =>
    rw [last_cons_isSet_eq_iff, ← isZero_iff]; simp
  | case3 a an b =>
    rw [eq_comm (a := isSet (.cons a an)), last_cons_isSet_eq_iff, ← isZero_iff]; simp only [Bool.and_eq_true, beq_iff_eq, eq_comm (a := a)]
  | case4 a an b bn ih =>
    rw [cons_isSet_eq_iff, ← ih]; simp

/-! ### len / onesCount -/

theorem len_sup (s : Pk.Bits.Short) :
    (∀ x, s.len ≤ x → s.isSet x = false) ∧ (0 < s.len → s.isSet (s.len - 1) = true) := by
  induction s with
  | last m =>
    simp only [len]
    have hle := len64_le m
    constructor
    · intro x hx
      by_cases h : x < 64
      · rw [isSet_last_lt _ _ h]; exact getLsbD_of_len64_le _ _ hx
      · exact isSet_last_ge _ _ (Nat.le_of_not_lt h)
    · intro hpos
      have hm : m ≠ 0#64 := by
        intro h; rw [(len64_eq_zero m).2 h] at hpos; omega
      rw [isSet_last_lt _ _ (by omega)]; exact getLsbD_len64_pred hm
  | cons m n ih =>
    obtain ⟨ih1, ih2⟩ := ih
    have hle := len64_le m
    simp only [len]
    by_cases hl : len n = 0
    · simp only [hl, ne_eq, not_true_eq_false, if_false]
      constructor
      · intro x hx
        by_cases h : x < 64
        · rw [isSet_cons_lt _ _ _ h]; exact getLsbD_of_len64_le _ _ hx
        · rw [isSet_cons_ge _ _ _ (Nat.le_of_not_lt h)]; exact ih1 _ (by omega)
      · intro hpos
        have hm : m ≠ 0#64 := by
          intro h; rw [(len64_eq_zero m).2 h] at hpos; omega
        rw [isSet_cons_lt _ _ _ (by omega)]; exact getLsbD_len64_pred hm
    · simp only [ne_eq, hl, not_false_eq_true, if_true]
      constructor
      · intro x hx
        rw [isSet_cons_ge _ _ _ (by omega)]; exact ih1 _ (by omega)
      · intro _
        rw [isSet_cons_ge _ _ _ (by omega)]
        have : len n + 64 - 1 - 64 = len n - 1 := by omega
        rw [this]; exact ih2 (by omega)

theorem popcount_eq (m : W) (p : Nat → Bool) (h : ∀ i, i < 64 → p i = m.getLsbD i) :
    Long.popcount m = (List.range 64).countP p := by
  unfold Long.popcount
  apply List.countP_congr
  intro i hi
  rw [h i (List.mem_range.1 hi)]

theorem onesCount_card (s : Pk.Bits.Short) :
    s.onesCount = (List.range (64 * s.words.length)).countP s.isSet := by
  induction s with
  | last m =>
    simp only [onesCount, words, List.length_cons, List.length_nil]
    exact popcount_eq m _ (fun i hi => isSet_last_lt _ _ hi)
  | cons m n ih =>
    simp only [onesCount, words, List.length_cons]
    rw [Nat.mul_add, Nat.mul_one, Nat.add_comm (64 * _) 64, countP_range_add, ih,
      popcount_eq m _ (fun i hi => isSet_cons_lt m n i hi)]
    congr 1
    apply List.countP_congr
    intro i _
    rw [isSet_cons_ge _ _ _ (by omega)]
    have : 64 + i - 64 = i := by omega
    rw [this]

/-! ### shrink -/

/-- list-of-words view of `isSet` -/
def lsIsSet : List W → Nat → Bool
  | [], _ => false
  | m :: ms, x => if x < 64 then m.getLsbD x else lsIsSet ms (x - 64)

theorem isSet_eq_ls (s : Pk.Bits.Short) (x : Nat) : isSet s x = lsIsSet (words s) x := by
  induction s generalizing x with
  | last m => simp [isSet, words, lsIsSet]
  | cons m n ih => simp [isSet, words, lsIsSet, ih]

theorem ofWords_isSet (m : W) (ms : List W) (x : Nat) :
    isSet (ofWords m ms) x = lsIsSet (m :: ms) x := by
  induction ms generalizing m x with
  | nil => simp [isSet, ofWords, lsIsSet]
  | cons m2 ms ih => simp only [ofWords, isSet, ih]; rfl

theorem lsIsSet_zeros (z : List W) (hz : ∀ w ∈ z, w = 0#64) (x : Nat) : lsIsSet z x = false := by
  induction z generalizing x with
  | nil => rfl
  | cons w z ih =>
    simp only [lsIsSet]
    have hw : w = 0#64 := hz w (by simp)
    split
    · rw [hw]; simp
    · exact ih (fun w' h' => hz w' (by simp [h'])) _

theorem lsIsSet_append_zeros (l z : List W) (hz : ∀ w ∈ z, w = 0#64) (x : Nat) :
    lsIsSet (l ++ z) x = lsIsSet l x := by
  induction l generalizing x with
  | nil => simp only [List.nil_append, lsIsSet]; exact lsIsSet_zeros z hz x
  | cons m l ih => simp only [List.cons_append, lsIsSet, ih]

theorem lsIsSet_dropTrailing (ms : List W) (x : Nat) :
    lsIsSet ((ms.reverse.dropWhile (· == 0#64)).reverse) x = lsIsSet ms x := by
  have h : ms = (ms.reverse.dropWhile (· == 0#64)).reverse ++ (ms.reverse.takeWhile (· == 0#64)).reverse := by
    rw [← List.reverse_append, List.takeWhile_append_dropWhile, List.reverse_reverse]
  conv => rhs; rw [h]
  rw [lsIsSet_append_zeros]
  intro w hw
  have hall := List.all_takeWhile (l := ms.reverse) (p := fun w : W => w == 0#64)
  have := List.all_eq_true.1 hall w (List.mem_reverse.1 hw)
  simpa using this

theorem shrink_isSet (s : Pk.Bits.Short) (x : Nat) : isSet (shrink s) x = isSet s x := by
  cases s with
  | last m => simp [shrink, words, ofWords]
  | cons m n =>
    simp only [shrink, words]
    rw [ofWords_isSet, isSet_eq_ls, words]
    simp only [lsIsSet, lsIsSet_dropTrailing]

/-! ### inject / extract -/

theorem freshSet_isSet (bit x : Nat) :
    isSet (freshModify (fun m b => m ||| b) bit) x = decide (x = bit) := by
  rw [freshModify_isSet _ (fun a c => a || c)]
  · simp
  · intro m j i hj hi; simp only [BitVec.getLsbD_or, getLsbD_bitW _ _ hj]
  · rfl

theorem getLsbD_one64 (i : Nat) : (1#64).getLsbD i = decide (i = 0) := by
  simp only [BitVec.getLsbD_one]; simp

theorem inject_isSet (s : Pk.Bits.Short) (bit : Nat) (v : Bool) (x : Nat) :
    isSet (inject s bit v) x =
      if x < bit then isSet s x else if x = bit then v else isSet s (x - 1) := by
  induction s generalizing bit v x with
  | last m =>
    unfold inject
    by_cases hb : bit ≥ 64
    · simp only [hb, if_true]
      cases v
      · simp only [Bool.not_false, if_true]
        by_cases h1 : x < bit
        · simp only [h1, if_true]
        · simp only [h1, if_false]
          rw [isSet_last_ge _ _ (by omega)]
          by_cases h2 : x = bit
          · simp only [h2, if_true]
          · simp only [h2, if_false]; rw [isSet_last_ge _ _ (by omega)]
      · simp only [Bool.not_true, Bool.false_eq_true, if_false]
        by_cases hx : x < 64
        · rw [isSet_cons_lt _ _ _ hx, isSet_last_lt _ _ hx, if_pos (by omega)]
        · rw [isSet_cons_ge _ _ _ (by omega), freshSet_isSet, isSet_last_ge _ _ (by omega)]
          by_cases h1 : x < bit
          · simp only [h1, if_true]; simp; omega
          · simp only [h1, if_false]
            by_cases h2 : x = bit
            · simp only [h2, if_true]; simp
            · simp only [h2, if_false]; rw [isSet_last_ge _ _ (by omega)]; simp; omega
    · have hb' : bit < 64 := by omega
      simp only [hb, if_false]
      by_cases hx : x < 64
      · have hhead : ∀ t, isSet (if m.getLsbD 63 = true then Short.cons (Long.injectWord m bit v) t
            else Short.last (Long.injectWord m bit v)) x = (Long.injectWord m bit v).getLsbD x := by
          intro t; split
          · exact isSet_cons_lt _ _ _ hx
          · exact isSet_last_lt _ _ hx
        rw [hhead, injectWord_getLsbD _ _ _ _ hb' hx, isSet_last_lt _ _ hx]
        by_cases h1 : x < bit
        · simp only [h1, if_true]
        · simp only [h1, if_false]
          by_cases h2 : x = bit
          · simp only [h2, if_true]
          · simp only [h2, if_false]; rw [isSet_last_lt _ _ (by omega)]
      · have erhs : (if x < bit then isSet (Short.last m) x else if x = bit then v
            else isSet (Short.last m) (x - 1)) = isSet (Short.last m) (x - 1) := by
          rw [if_neg (by omega), if_neg (by omega)]
        rw [erhs]
        by_cases hc : m.getLsbD 63 = true
        · rw [if_pos hc, isSet_cons_ge _ _ _ (by omega)]
          by_cases h64 : x = 64
          · subst h64; rw [isSet_last_lt _ _ (by omega), isSet_last_lt _ _ (by omega)]
            simpa using hc
          · rw [isSet_last_ge m _ (by omega)]
            by_cases h128 : x - 64 < 64
            · rw [isSet_last_lt _ _ h128, getLsbD_one64]; simp; omega
            · rw [isSet_last_ge _ _ (by omega)]
        · rw [if_neg hc, isSet_last_ge _ _ (by omega)]
          by_cases h64 : x = 64
          · subst h64; rw [isSet_last_lt _ _ (by omega)]; simpa using hc
          · rw [isSet_last_ge _ _ (by omega)]
  | cons m n ih =>
    unfold inject
    by_cases hb : bit ≥ 64
    · simp only [hb, if_true]
      by_cases hx : x < 64
      · rw [isSet_cons_lt _ _ _ hx, if_pos (by omega), isSet_cons_lt _ _ _ hx]
      · rw [isSet_cons_ge _ _ _ (by omega), ih]
        by_cases h1 : x < bit
        · rw [if_pos (by omega), if_pos h1, isSet_cons_ge _ _ _ (by omega)]
        · rw [if_neg (by omega), if_neg h1]
          by_cases h2 : x = bit
          · rw [if_pos (by omega), if_pos h2]
          · rw [if_neg (by omega), if_neg h2, isSet_cons_ge _ _ _ (by omega)]
            have e : x - 64 - 1 = x - 1 - 64 := by omega
            rw [e]
    · have hb' : bit < 64 := by omega
      simp only [hb, if_false]
      by_cases hx : x < 64
      · rw [isSet_cons_lt _ _ _ hx, injectWord_getLsbD _ _ _ _ hb' hx, isSet_cons_lt _ _ _ hx]
        by_cases h1 : x < bit
        · simp only [h1, if_true]
        · simp only [h1, if_false]
          by_cases h2 : x = bit
          · simp only [h2, if_true]
          · simp only [h2, if_false]; rw [isSet_cons_lt _ _ _ (by omega)]
      · have erhs : (if x < bit then isSet (Short.cons m n) x else if x = bit then v
            else isSet (Short.cons m n) (x - 1)) = isSet (Short.cons m n) (x - 1) := by
          rw [if_neg (by omega), if_neg (by omega)]
        rw [erhs, isSet_cons_ge _ _ _ (by omega), ih, if_neg (by omega)]
        by_cases h64 : x = 64
        · subst h64; rw [if_pos (by omega), isSet_cons_lt _ _ _ (by omega)]
        · rw [if_neg (by omega), isSet_cons_ge _ _ _ (by omega)]
          have e : x - 64 - 1 = x - 1 - 64 := by omega
          rw [e]

theorem extract_ret (s : Pk.Bits.Short) (bit : Nat) : (extract s bit).2 = isSet s bit := by
  induction s generalizing bit with
  | last m =>
    unfold extract
    by_cases hb : bit ≥ 64
    · simp only [hb, if_true]; rw [isSet_last_ge _ _ hb]
    · simp only [hb, if_false]; rw [isSet_last_lt _ _ (by omega)]
  | cons m n ih =>
    unfold extract
    by_cases hb : bit ≥ 64
    · simp only [hb, if_true]; rw [isSet_cons_ge _ _ _ hb, ih]
    · simp only [hb, if_false]; rw [isSet_cons_lt _ _ _ (by omega)]

theorem getLsbD_top (i : Nat) (_hi : i < 64) : (1#64 <<< 63).getLsbD i = decide (i = 63) := by
  have := getLsbD_bitW 63 i (by omega)
  simpa [Long.bitW] using this

theorem carryIn_getLsbD (c : Bool) (m : W) (i : Nat) (hi : i < 64) :
    (if c = true then m ||| (1#64 <<< 63) else m).getLsbD i = (m.getLsbD i || (c && decide (i = 63))) := by
  cases c
  · simp
  · simp only [if_true, BitVec.getLsbD_or, getLsbD_top _ hi, Bool.true_and]

theorem extract_isSet (s : Pk.Bits.Short) (bit : Nat) (x : Nat) :
    isSet (extract s bit).1 x = if x < bit then isSet s x else isSet s (x + 1) := by
  induction s generalizing bit x with
  | last m =>
    unfold extract
    by_cases hb : bit ≥ 64
    · simp only [hb, if_true]
      by_cases h1 : x < bit
      · rw [if_pos h1]
      · rw [if_neg h1, isSet_last_ge _ _ (by omega), isSet_last_ge _ _ (by omega)]
    · simp only [hb, if_false]
      by_cases hx : x < 64
      · rw [isSet_last_lt _ _ hx, extractWord_getLsbD _ _ _ (by omega) hx, isSet_last_lt _ _ hx]
        by_cases h1 : x < bit
        · simp only [h1, if_true]
        · simp only [h1, if_false]
          by_cases h63 : x = 63
          · subst h63; rw [isSet_last_ge _ _ (by omega)]; exact BitVec.getLsbD_of_ge _ _ (by omega)
          · rw [isSet_last_lt _ _ (by omega)]
      · rw [isSet_last_ge _ _ (by omega), if_neg (by omega), isSet_last_ge _ _ (by omega)]
  | cons m n ih =>
    unfold extract
    by_cases hb : bit ≥ 64
    · simp only [hb, if_true]
      by_cases hx : x < 64
      · rw [isSet_cons_lt _ _ _ hx, if_pos (by omega), isSet_cons_lt _ _ _ hx]
      · rw [isSet_cons_ge _ _ _ (by omega), ih]
        by_cases h1 : x < bit
        · rw [if_pos (by omega), if_pos h1, isSet_cons_ge _ _ _ (by omega)]
        · rw [if_neg (by omega), if_neg h1, isSet_cons_ge _ _ _ (by omega)]
          congr 1; omega
    · simp only [hb, if_false]
      by_cases hx : x < 64
      · rw [isSet_cons_lt _ _ _ hx, carryIn_getLsbD _ _ _ hx, extractWord_getLsbD _ _ _ (by omega) hx,
          extract_ret]
        by_cases h63 : x = 63
        · subst h63
          rw [if_neg (by omega), if_neg (by omega), isSet_cons_ge _ _ _ (by omega),
            BitVec.getLsbD_of_ge _ _ (by omega)]
          simp
        · have : decide (x = 63) = false := by simp [h63]
          rw [this, Bool.and_false, Bool.or_false]
          by_cases h1 : x < bit
          · rw [if_pos h1, if_pos h1, isSet_cons_lt _ _ _ hx]
          · rw [if_neg h1, if_neg h1, isSet_cons_lt _ _ _ (by omega)]
      · rw [isSet_cons_ge _ _ _ (by omega), ih, if_neg (by omega), if_neg (by omega),
          isSet_cons_ge _ _ _ (by omega)]
        congr 1; omega

end Short
end Pk.Proofs.Bits
