/-
  `Stream.Packets` on the records of a stream (helper lemmas for C01 `roundtrip_packets`).
-/
import Pk.Proofs.IndexFormatFullNames
namespace Pk.Index
open Pk Pk.Bytes

/-! ### the skip pass is invisible to `Stream.Packets` -/

def strip (r : PacketRec) : PacketRec := { r with skip := 0 }

theorem setSkips_strip (l : List PacketRec) : (setSkips l).1.map strip = l.map strip := by
  induction l with
  | nil => rfl
  | cons p t ih =>
    cases t with
    | nil => rfl
    | cons q rest =>
      simp only [setSkips, List.map_cons] at ih ⊢
      rw [ih]
      simp [strip]

theorem clearLast_strip (l : List PacketRec) : (clearLastHasNext l).map strip = clearLastHasNext (l.map strip) := by
  induction l with
  | nil => rfl
  | cons p t ih =>
    cases t with
    | nil => rfl
    | cons q rest =>
      simp only [clearLastHasNext, List.map_cons] at ih ⊢
      rw [ih]

theorem packetsWalk_strip (imports : List (Bytes × Nat)) (l : List PacketRec) : ∀ (rt : Int) (last : Option (Nat × Nat)) (lr : Nat),
    packetsWalk imports rt last lr (l.map strip) = packetsWalk imports rt last lr l := by
  induction l with
  | nil => intro rt last lr; rfl
  | cons p t ih =>
    intro rt last lr
    simp only [List.map_cons, packetsWalk]
    simp only [strip, ih]
    rfl

theorem clearLast_append (a b : List PacketRec) (hb : b ≠ []) : clearLastHasNext (a ++ b) = a ++ clearLastHasNext b := by
  induction a with
  | nil => rfl
  | cons x t ih =>
    cases t with
    | nil =>
      cases b with
      | nil => exact absurd rfl hb
      | cons y u => simp [clearLastHasNext]
    | cons y u =>
      simp only [List.cons_append, clearLastHasNext] at ih ⊢
      rw [ih]

/-- the walk over the records as appended equals the walk over the raw records with the last flag cleared -/
theorem packetsWalk_recs (imports : List (Bytes × Nat)) (raw rest : List PacketRec) (rt : Int) (last : Option (Nat × Nat)) (lr : Nat) :
    packetsWalk imports rt last lr (clearLastHasNext (setSkips raw).1 ++ rest) =
    packetsWalk imports rt last lr (clearLastHasNext raw ++ rest) := by
  rw [← packetsWalk_strip, ← packetsWalk_strip imports (clearLastHasNext raw ++ rest)]
  simp only [List.map_append, clearLast_strip, setSkips_strip]

/-! ### groups of records: one per source reference -/

abbrev Trip := PacketIn × SrcRef × Nat

def trips (data : List ChunkIn) : Nat → List PacketIn → List Trip
  | _, [] => []
  | k, p :: ps => p.pmds.map (fun r => (p, r, chunkSize data k)) ++ trips data (k + 1) ps

def mkRec (i x ρ fl sz : Nat) : PacketRec := { imp := i, idx := x, rel := ρ, size := sz, skip := 255, flags := fl }

def Trip.mu (ts0 : Int) (t : Trip) : Int := (t.1.ts - ts0).tdiv 1000
def Trip.fl (t : Trip) : Nat := 1 + (if t.1.dir = 0 then 0 else 2)
def Trip.ik (imports : List ImportKey) (t : Trip) : Nat × Nat := (imports.idxOf t.2.1.key, t.2.1.index % 2 ^ 32)

def grp (imports : List ImportKey) (ts0 : Int) (t : Trip) : List PacketRec :=
  (splitSizes t.2.2).map (mkRec (t.ik imports).1 (t.ik imports).2 (u32 (t.mu ts0)) t.fl)

def outOf (ts0 : Int) (t : Trip) : PacketOut :=
  { file := t.2.1.file, index := t.2.1.index, dir := t.1.dir, ts := ts0 + t.mu ts0 * 1000 }

theorem allRecords_trips (imports : List ImportKey) (ts0 : Int) (data : List ChunkIn) (ps : List PacketIn) : ∀ (k : Nat),
    allRecords imports ts0 data k ps = ((trips data k ps).map (grp imports ts0)).flatten := by
  induction ps with
  | nil => intro k; rfl
  | cons p ps ih =>
    intro k
    simp only [allRecords, trips, List.map_append, List.flatten_append, ih]
    congr 1
    simp only [packetRecords, List.map_map]
    rfl

theorem splitSizes_ne (n : Nat) : splitSizes n ≠ [] := by
  unfold splitSizes
  cases n with
  | zero => simp [splitAux]
  | succ n => simp only [splitAux]; split <;> simp

/-! ### the walk over one group -/

theorem walk_same (imports : List (Bytes × Nat)) (i x ρ fl : Nat) (hfl : fl % 2 = 1) (B : List PacketRec) (rt : Int) (szs : List Nat) :
    packetsWalk imports rt (some (i, x)) ρ (szs.map (mkRec i x ρ fl) ++ B) = packetsWalk imports rt (some (i, x)) ρ B := by
  induction szs with
  | nil => rfl
  | cons a t ih =>
    simp only [List.map_cons, List.cons_append, packetsWalk, mkRec, ne_eq, not_true_eq_false, if_false, false_and] at ih ⊢
    have : ¬ (fl % 2 = 0) := by omega
    simp only [this, if_false, ih]
    cases packetsWalk imports rt (some (i, x)) ρ B <;> simp

theorem walk_same_last (imports : List (Bytes × Nat)) (i x ρ fl : Nat) (hfl : fl = 1 ∨ fl = 3) (B : List PacketRec) (rt : Int) (szs : List Nat)
    (hne : szs ≠ []) :
    packetsWalk imports rt (some (i, x)) ρ (clearLastHasNext (szs.map (mkRec i x ρ fl)) ++ B) = .ok [] := by
  induction szs with
  | nil => exact absurd rfl hne
  | cons a t ih =>
    cases t with
    | nil =>
      rcases hfl with rfl | rfl <;>
      simp [clearLastHasNext, packetsWalk, mkRec]
    | cons b u =>
      have ih := ih (by simp)
      simp only [List.map_cons, clearLastHasNext, List.cons_append, packetsWalk, mkRec, ne_eq,
        not_true_eq_false, if_false, false_and] at ih ⊢
      have : ¬ (fl % 2 = 0) := by omega
      simp only [this, if_false, ih]
      simp

/-- output of the reader for a group -/
def grpOut (im : Bytes × Nat) (x ρ fl : Nat) (rt : Int) : PacketOut :=
  { file := im.1, index := (im.2 + x) % 2 ^ 64, dir := if fl / 2 % 2 = 0 then 0 else 1, ts := rt + (ρ : Int) * 1000 }

theorem walk_grp (imports : List (Bytes × Nat)) (im : Bytes × Nat) (i x ρ fl : Nat) (hfl : fl = 1 ∨ fl = 3) (B : List PacketRec)
    (rt : Int) (last : Option (Nat × Nat)) (lr : Nat) (szs : List Nat) (hne : szs ≠ [])
    (hnew : last ≠ some (i, x)) (him : imports[i]? = some im) :
    packetsWalk imports rt last lr (szs.map (mkRec i x ρ fl) ++ B) =
      match packetsWalk imports (if ρ < lr then rt + wrapNs else rt) (some (i, x)) ρ B with
      | .error e => .error e
      | .ok r => .ok (grpOut im x ρ fl (if ρ < lr then rt + wrapNs else rt) :: r) := by
  cases szs with
  | nil => exact absurd rfl hne
  | cons a t =>
    have h2 : ¬ (fl % 2 = 0) := by omega
    have hw := walk_same imports i x ρ fl (by omega) B (if ρ < lr then rt + wrapNs else rt) t
    simp only [List.map_cons, List.cons_append, packetsWalk]
    simp only [mkRec] at hw ⊢
    simp only [ne_eq, hnew, not_false_eq_true, if_true, him, true_and, h2, if_false, hw]
    cases packetsWalk imports (if ρ < lr then rt + wrapNs else rt) (some (i, x)) ρ B <;> simp [grpOut] <;> rfl

theorem walk_grp_last (imports : List (Bytes × Nat)) (im : Bytes × Nat) (i x ρ fl : Nat) (hfl : fl = 1 ∨ fl = 3) (B : List PacketRec)
    (rt : Int) (last : Option (Nat × Nat)) (lr : Nat) (szs : List Nat) (hne : szs ≠ [])
    (hnew : last ≠ some (i, x)) (him : imports[i]? = some im) :
    packetsWalk imports rt last lr (clearLastHasNext (szs.map (mkRec i x ρ fl)) ++ B) =
      .ok [grpOut im x ρ fl (if ρ < lr then rt + wrapNs else rt)] := by
  cases szs with
  | nil => exact absurd rfl hne
  | cons a t =>
    cases t with
    | nil =>
      rcases hfl with rfl | rfl <;>
      simp [clearLastHasNext, packetsWalk, mkRec, hnew, him, grpOut]
    | cons b u =>
      have h2 : ¬ (fl % 2 = 0) := by omega
      have hw := walk_same_last imports i x ρ fl hfl B (if ρ < lr then rt + wrapNs else rt) (b :: u) (by simp)
      simp only [List.map_cons, clearLastHasNext, List.cons_append, packetsWalk] at hw ⊢
      simp only [mkRec] at hw ⊢
      simp only [ne_eq, hnew, not_false_eq_true, if_true, him, true_and, h2, if_false, hw]
      simp [grpOut]
      rfl

/-! ### the walk over all groups of a stream -/

def MuChain : Int → List Int → Prop
  | _, [] => True
  | a, b :: l => a ≤ b ∧ b - a < 2 ^ 32 ∧ MuChain b l

theorem wrap_arith (mp μ : Int) (h1 : mp ≤ μ) (h2 : μ - mp < 2 ^ 32) :
    (if (μ % 2 ^ 32).toNat < (mp % 2 ^ 32).toNat then wrapNs * (mp / 2 ^ 32) + wrapNs else wrapNs * (mp / 2 ^ 32)) =
      wrapNs * (μ / 2 ^ 32) := by
  unfold wrapNs
  split <;> omega

theorem u32_eq (x : Int) : u32 x = (x % 2 ^ 32).toNat := rfl

theorem grp_ne (imps : List ImportKey) (ts0 : Int) (t : Trip) : grp imps ts0 t ≠ [] := by
  unfold grp
  simp [splitSizes_ne]

theorem walk_trips (imps : List ImportKey) (ts0 : Int) (B : List PacketRec) (T : List Trip) :
    ∀ (mp : Int) (last : Option (Nat × Nat)), T ≠ [] → 0 ≤ mp →
    (∀ t ∈ T, t.2.1.key ∈ imps ∧ t.2.1.index < 2 ^ 64 ∧ t.1.dir < 2) →
    MuChain mp (T.map (Trip.mu ts0)) →
    (∀ t ∈ T, last ≠ some (t.ik imps)) → T.Pairwise (fun a b => a.ik imps ≠ b.ik imps) →
    packetsWalk imps (ts0 + wrapNs * (mp / 2 ^ 32)) last (mp % 2 ^ 32).toNat
        (clearLastHasNext ((T.map (grp imps ts0)).flatten) ++ B) = .ok (T.map (outOf ts0)) := by
  induction T with
  | nil => intro mp last h; exact absurd rfl h
  | cons t T ih =>
    intro mp last _ h0 hwf hch hlast hpw
    obtain ⟨hkey, hidx, hdir⟩ := hwf t (by simp)
    simp only [List.map_cons, MuChain] at hch
    obtain ⟨hc1, hc2, hc3⟩ := hch
    have hfl : t.fl = 1 ∨ t.fl = 3 := by
      unfold Trip.fl; by_cases hd : t.1.dir = 0 <;> simp [hd]
    have hlt : imps.idxOf t.2.1.key < imps.length := List.idxOf_lt_length_iff.mpr hkey
    have him : imps[(t.ik imps).1]? = some t.2.1.key := by
      simp only [Trip.ik]
      rw [List.getElem?_eq_getElem hlt, List.getElem_idxOf]
    have hnew := hlast t (by simp)
    have harith := wrap_arith mp (t.mu ts0) hc1 hc2
    have hout : grpOut t.2.1.key (t.ik imps).2 (u32 (t.mu ts0)) t.fl
        (if u32 (t.mu ts0) < (mp % 2 ^ 32).toNat then ts0 + wrapNs * (mp / 2 ^ 32) + wrapNs else ts0 + wrapNs * (mp / 2 ^ 32)) =
        outOf ts0 t := by
      have h1 : (if u32 (t.mu ts0) < (mp % 2 ^ 32).toNat then ts0 + wrapNs * (mp / 2 ^ 32) + wrapNs else ts0 + wrapNs * (mp / 2 ^ 32)) =
          ts0 + wrapNs * (t.mu ts0 / 2 ^ 32) := by
        rw [u32_eq]; rw [← harith]; split <;> omega
      rw [h1]
      simp only [grpOut, outOf, Trip.ik, SrcRef.key]
      have e2 : (t.2.1.index / 2 ^ 32 * 2 ^ 32 + t.2.1.index % 2 ^ 32) % 2 ^ 64 = t.2.1.index := by omega
      have e3 : (if t.fl / 2 % 2 = 0 then 0 else 1) = t.1.dir := by
        unfold Trip.fl
        by_cases hd : t.1.dir = 0
        · simp [hd]
        · have : t.1.dir = 1 := by omega
          simp [this]
      have e4 : ts0 + wrapNs * (t.mu ts0 / 2 ^ 32) + ((u32 (t.mu ts0) : Nat) : Int) * 1000 = ts0 + t.mu ts0 * 1000 := by
        rw [u32_eq]; unfold wrapNs; omega
      rw [e2, e3, e4]
    cases T with
    | nil =>
      simp only [List.map_cons, List.map_nil, List.flatten_cons, List.flatten_nil, List.append_nil]
      unfold grp
      rw [walk_grp_last imps t.2.1.key (t.ik imps).1 (t.ik imps).2 _ _ hfl B _ last _ _ (splitSizes_ne _) hnew him, hout]
    | cons t' T' =>
      have hne : ((t' :: T').map (grp imps ts0)).flatten ≠ [] := by
        simp only [List.map_cons, List.flatten_cons]
        intro h
        exact grp_ne imps ts0 t' (List.append_eq_nil_iff.mp h).1
      rw [List.map_cons, List.flatten_cons, clearLast_append _ _ hne, List.append_assoc]
      unfold grp
      rw [walk_grp imps t.2.1.key (t.ik imps).1 (t.ik imps).2 _ _ hfl _ _ last _ _ (splitSizes_ne _) hnew him, hout]
      have hpw' := List.pairwise_cons.mp hpw
      have hstate : (if u32 (t.mu ts0) < (mp % 2 ^ 32).toNat then ts0 + wrapNs * (mp / 2 ^ 32) + wrapNs else ts0 + wrapNs * (mp / 2 ^ 32)) =
          ts0 + wrapNs * (t.mu ts0 / 2 ^ 32) := by
        rw [u32_eq]; rw [← harith]; split <;> omega
      rw [hstate, u32_eq]
      have := ih (t.mu ts0) (some (t.ik imps)) (by simp) (by omega) (fun x hx => hwf x (by simp [hx])) hc3
        (fun x hx => by
          have := hpw'.1 x hx
          intro h; injection h with h; exact this h) hpw'.2
      unfold grp at this
      rw [this]
      simp

end Pk.Index
