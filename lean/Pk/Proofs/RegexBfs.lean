/-
  Soundness of the breadth-first MinLength search of the repaired `AcceptedLength`
  (`minBfs` in Pk/Model/RegexProg.lean): for EVERY program, no accepted word is shorter than the
  returned value.
-/
import Pk.Model.RegexProg

namespace Pk.RegexProg
open Pk.Regex

/-- `pc` is marked in `visited` -/
def Vis (vis : Array Bool) (pc : Nat) : Prop := vis[pc]? = some true

/-- every visited instruction is no match instruction and its successors are visited or queued -/
def Closed (p : Prog) (vis : Array Bool) (level next : List Nat) : Prop :=
  ∀ pc i, Vis vis pc → p.inst[pc]? = some i →
    i.op ≠ .match_ ∧
    (i.op.isRune = true → Vis vis i.out ∨ i.out ∈ level ∨ i.out ∈ next) ∧
    (i.op.isPass = true → Vis vis i.out ∨ i.out ∈ level) ∧
    (i.op.isAlt = true → (Vis vis i.out ∨ i.out ∈ level) ∧ (Vis vis i.arg ∨ i.arg ∈ level))

/-- the result `m` is a lower bound for every word accepted from a visited or queued instruction -/
def Good (p : Prog) (vis : Array Bool) (level next : List Nat) (n m : Nat) : Prop :=
  ∀ pc pre w post, Accepts p pc pre w post →
    ((pc ∈ level ∨ Vis vis pc) → m ≤ n + w.length) ∧ (pc ∈ next → m ≤ n + 1 + w.length)

theorem Good.mono {p : Prog} {vis vis' : Array Bool} {level level' next next' : List Nat} {n m : Nat}
    (g : Good p vis' level' next' n m)
    (hl : ∀ pc, pc ∈ level → pc ∈ level' ∨ Vis vis' pc)
    (hv : ∀ pc, Vis vis pc → Vis vis' pc)
    (hn : ∀ pc, pc ∈ next → pc ∈ next') : Good p vis level next n m := by
  intro pc pre w post hacc
  have := g pc pre w post hacc
  refine ⟨?_, fun h => this.2 (hn pc h)⟩
  rintro (h | h)
  · rcases hl pc h with h | h
    · exact this.1 (Or.inl h)
    · exact this.1 (Or.inr h)
  · exact this.1 (Or.inr (hv pc h))

theorem vis_set {vis : Array Bool} {pos : Nat} (h : vis[pos]? = some false) (pc : Nat) :
    Vis (vis.setIfInBounds pos true) pc ↔ pc = pos ∨ Vis vis pc := by
  unfold Vis
  have hlt : pos < vis.size := by
    rcases Array.getElem?_eq_some_iff.1 h with ⟨hlt, _⟩
    exact hlt
  rw [Array.getElem?_setIfInBounds]
  by_cases e : pos = pc
  · subst e
    simp [hlt]
  · simp [e]
    intro h'
    exact absurd h'.symm e

/-- with nothing queued in the current level, a word accepted from a visited instruction either
    does not exist or leaves the visited set through a rune edge into `next` -/
theorem visited_bound {p : Prog} {vis : Array Bool} {next : List Nat} (hc : Closed p vis [] next)
    {B : Nat → Prop}
    {pc : Nat} {pre w post : List Byte} (hacc : Accepts p pc pre w post) (hv : Vis vis pc)
    (hnext : ∀ pc' pre' w' post', Accepts p pc' pre' w' post' → pc' ∈ next → B (w'.length + 1))
    (hmono : ∀ k, B k → B (k + 1)) : B w.length := by
  induction hacc with
  | match_ pc i pre post hi hop => exact absurd hop (hc pc i hv hi).1
  | rune pc i b pre w post hi hr _ hrest ih =>
    rcases (hc pc i hv hi).2.1 hr with h | h | h
    · have := ih h
      simpa using hmono _ this
    · simp at h
    · simpa using hnext _ _ _ _ hrest h
  | pass pc i pre w post hi hop _ ih =>
    have hp : i.op.isPass = true := by rcases hop with hop | hop <;> simp [hop, Op.isPass]
    rcases (hc pc i hv hi).2.2.1 hp with h | h
    · exact ih h
    · simp at h
  | empty pc i pre w post hi hop _ _ ih =>
    have hp : i.op.isPass = true := by simp [hop, Op.isPass]
    rcases (hc pc i hv hi).2.2.1 hp with h | h
    · exact ih h
    · simp at h
  | altOut pc i pre w post hi hop _ ih =>
    rcases ((hc pc i hv hi).2.2.2 hop).1 with h | h
    · exact ih h
    · simp at h
  | altArg pc i pre w post hi hop _ ih =>
    rcases ((hc pc i hv hi).2.2.2 hop).2 with h | h
    · exact ih h
    · simp at h

theorem minBfs_good (p : Prog) :
    ∀ (fuel n : Nat) (level : List Nat) (vis : Array Bool) (next : List Nat) (m : Nat),
      minBfs p fuel n level vis next = some m → Closed p vis level next → Good p vis level next n m := by
  intro fuel
  induction fuel with
  | zero => intro n level vis next m h; simp [minBfs] at h
  | succ fuel ih =>
    intro n level vis next m h hc
    cases level with
    | nil =>
      cases next with
      | nil =>
        -- nothing left: no visited instruction accepts anything
        intro pc pre w post hacc
        refine ⟨?_, by simp⟩
        rintro (hm | hv)
        · simp at hm
        · exact visited_bound (B := fun _ => m ≤ n + w.length) hc hacc hv (by simp) (fun _ h => h)
      | cons q next =>
        simp only [minBfs] at h
        have hc' : Closed p vis (q :: next) [] := by
          intro pc i hv hi
          obtain ⟨h1, h2, h3, h4⟩ := hc pc i hv hi
          refine ⟨h1, ?_, ?_, ?_⟩
          · intro hr; rcases h2 hr with h | h | h
            · exact Or.inl h
            · simp at h
            · exact Or.inr (Or.inl h)
          · intro hp; rcases h3 hp with h | h
            · exact Or.inl h
            · simp at h
          · intro ha
            obtain ⟨a, b⟩ := h4 ha
            constructor
            · rcases a with h | h
              · exact Or.inl h
              · simp at h
            · rcases b with h | h
              · exact Or.inl h
              · simp at h
        have g := ih (n + 1) (q :: next) vis [] m h hc'
        intro pc pre w post hacc
        constructor
        · rintro (hm | hv)
          · simp at hm
          · have := visited_bound (B := fun k => m ≤ n + k) hc hacc hv
              (fun pc' pre' w' post' hacc' hin => by
                have := (g pc' pre' w' post' hacc').1 (Or.inl hin)
                omega)
              (fun k hk => by omega)
            exact this
        · intro hin
          have := (g pc pre w post hacc).1 (Or.inl hin)
          omega
    | cons pos level =>
      simp only [minBfs] at h
      split at h
      · -- already visited
        rename_i hvis
        have hc' : Closed p vis level next := by
          intro pc i hv hi
          obtain ⟨h1, h2, h3, h4⟩ := hc pc i hv hi
          have fix : ∀ x, (Vis vis x ∨ x ∈ pos :: level) → (Vis vis x ∨ x ∈ level) := by
            intro x hx
            rcases hx with hx | hx
            · exact Or.inl hx
            · rcases List.mem_cons.1 hx with e | e
              · subst e; exact Or.inl hvis
              · exact Or.inr e
          refine ⟨h1, ?_, fun hp => fix _ (h3 hp), fun ha => ⟨fix _ (h4 ha).1, fix _ (h4 ha).2⟩⟩
          intro hr
          rcases h2 hr with h | h | h
          · exact Or.inl h
          · rcases fix _ (Or.inr h) with h | h
            · exact Or.inl h
            · exact Or.inr (Or.inl h)
          · exact Or.inr (Or.inr h)
        refine (ih n level vis next m h hc').mono ?_ (fun _ h => h) (fun _ h => h)
        intro pc hpc
        rcases List.mem_cons.1 hpc with e | e
        · subst e; exact Or.inr hvis
        · exact Or.inl e
      · -- not yet visited: mark and expand
        rename_i i hvis hi
        have hset := vis_set hvis
        -- closedness after marking `pos`, given where its successors were pushed
        have mkClosed : ∀ (level' next' : List Nat),
            (∀ x, x ∈ level → x ∈ level') → (∀ x, x ∈ next → x ∈ next') →
            i.op ≠ .match_ →
            (i.op.isRune = true → i.out ∈ next') →
            (i.op.isPass = true → i.out ∈ level') →
            (i.op.isAlt = true → i.out ∈ level' ∧ i.arg ∈ level') →
            Closed p (vis.setIfInBounds pos true) level' next' := by
          intro level' next' hl hn hnm hr hp ha pc j hv hj
          have fixv : ∀ x, Vis vis x → Vis (vis.setIfInBounds pos true) x :=
            fun x hx => (hset x).2 (Or.inr hx)
          have fix : ∀ x, (Vis vis x ∨ x ∈ pos :: level) →
              (Vis (vis.setIfInBounds pos true) x ∨ x ∈ level') := by
            intro x hx
            rcases hx with hx | hx
            · exact Or.inl (fixv x hx)
            · rcases List.mem_cons.1 hx with e | e
              · exact Or.inl ((hset x).2 (Or.inl e))
              · exact Or.inr (hl x e)
          rcases (hset pc).1 hv with e | hv'
          · subst e
            rw [hi] at hj; cases hj
            exact ⟨hnm, fun h => Or.inr (Or.inr (hr h)), fun h => Or.inr (hp h),
              fun h => ⟨Or.inr (ha h).1, Or.inr (ha h).2⟩⟩
          · obtain ⟨h1, h2, h3, h4⟩ := hc pc j hv' hj
            refine ⟨h1, ?_, fun h => fix _ (h3 h), fun h => ⟨fix _ (h4 h).1, fix _ (h4 h).2⟩⟩
            intro h
            rcases h2 h with h | h | h
            · exact Or.inl (fixv _ h)
            · rcases fix _ (Or.inr h) with h | h
              · exact Or.inl h
              · exact Or.inr (Or.inl h)
            · exact Or.inr (Or.inr (hn _ h))
        have finish : ∀ (level' next' : List Nat),
            Good p (vis.setIfInBounds pos true) level' next' n m →
            (∀ x, x ∈ level → x ∈ level') → (∀ x, x ∈ next → x ∈ next') →
            Good p vis (pos :: level) next n m := by
          intro level' next' g hl hn
          refine g.mono ?_ (fun x hx => (hset x).2 (Or.inr hx)) hn
          intro pc hpc
          rcases List.mem_cons.1 hpc with e | e
          · exact Or.inr ((hset pc).2 (Or.inl e))
          · exact Or.inl (hl pc e)
        by_cases hr : i.op.isRune = true
        · simp only [hr, if_true] at h
          have hnm : i.op ≠ .match_ := by intro e; simp [e, Op.isRune] at hr
          have hnp : i.op.isPass = false := by cases hop : i.op <;> simp [hop, Op.isRune, Op.isPass] at hr ⊢
          have hna : i.op.isAlt = false := by cases hop : i.op <;> simp [hop, Op.isRune, Op.isAlt] at hr ⊢
          have hc' := mkClosed level (i.out :: next) (fun _ h => h) (fun _ h => List.mem_cons_of_mem _ h) hnm
            (fun _ => List.mem_cons_self) (by simp [hnp]) (by simp [hna])
          exact finish _ _ (ih n level _ _ m h hc') (fun _ h => h) (fun _ h => List.mem_cons_of_mem _ h)
        · simp only [hr] at h
          by_cases hp : i.op.isPass = true
          · simp only [hp, if_true] at h
            have hnm : i.op ≠ .match_ := by intro e; simp [e, Op.isPass] at hp
            have hna : i.op.isAlt = false := by cases hop : i.op <;> simp [hop, Op.isPass, Op.isAlt] at hp ⊢
            have hc' := mkClosed (i.out :: level) next (fun _ h => List.mem_cons_of_mem _ h) (fun _ h => h) hnm
              (by simp [hr]) (fun _ => List.mem_cons_self) (by simp [hna])
            exact finish _ _ (ih n _ _ _ m h hc') (fun _ h => List.mem_cons_of_mem _ h) (fun _ h => h)
          · simp only [hp] at h
            by_cases ha : i.op.isAlt = true
            · simp only [ha, if_true] at h
              have hnm : i.op ≠ .match_ := by intro e; simp [e, Op.isAlt] at ha
              have hc' := mkClosed (i.arg :: i.out :: level) next
                (fun _ h => List.mem_cons_of_mem _ (List.mem_cons_of_mem _ h)) (fun _ h => h) hnm
                (by simp [hr]) (by simp [hp])
                (fun _ => ⟨List.mem_cons_of_mem _ List.mem_cons_self, List.mem_cons_self⟩)
              exact finish _ _ (ih n _ _ _ m h hc')
                (fun _ h => List.mem_cons_of_mem _ (List.mem_cons_of_mem _ h)) (fun _ h => h)
            · simp only [ha] at h
              by_cases hm : i.op = .match_
              · simp [hm] at h
                subst h
                intro pc pre w post _
                exact ⟨fun _ => by omega, fun _ => by omega⟩
              · simp [hm] at h
                have hc' := mkClosed level next (fun _ h => h) (fun _ h => h) hm
                  (by simp [hr]) (by simp [hp]) (by simp [ha])
                exact finish _ _ (ih n _ _ _ m h hc') (fun _ h => h) (fun _ h => h)
      · simp at h

theorem minWalk_sound_aux (p : Prog) (m : Nat) (hm : minWalk p = some m)
    (pre w post : List Byte) (hacc : Accepts p p.start pre w post) : m ≤ w.length := by
  unfold minWalk at hm
  have hc : Closed p (Array.replicate p.inst.size false) [p.start] [] := by
    intro pc i hv
    unfold Vis at hv
    rw [Array.getElem?_replicate] at hv
    split at hv <;> simp at hv
  have := (minBfs_good p _ _ _ _ _ m hm hc p.start pre w post hacc).1 (Or.inl (by simp))
  omega

end Pk.RegexProg
