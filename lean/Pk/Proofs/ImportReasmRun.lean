/-
  Helper lemmas for Pk/Props/C05Reasm.lean: runs of data segments of one byte string `B` through the
  reference reassembler — any slices of `B`, in any order, any number of times.
-/
import Pk.Proofs.ImportReasmStep

namespace Pk.Proofs.ImportReasm
open Pk.Import

/-- the stream after the packets `done` of direction `dir` were recorded and the data chunks
    `chunks` (newest first) were delivered -/
def Stream.after (st0 : Stream) (dir : Bool) (done : List Pkt) (chunks : List (Nat × Bytes)) : Stream :=
  { st0 with pktsRev := (done.map (fun p => (p.ref, dir))).reverse ++ st0.pktsRev,
             npkts := st0.npkts + done.length,
             dataRev := chunks ++ st0.dataRev }

/-- `ChunksOk isn B n0 done c chunks`: the data chunks (newest first) delivered while the packets
    `done` were fed cut bytes `0 .. c-1` of `B` into consecutive non-empty pieces, and every piece
    `c₁ .. c₂-1` is attributed to a packet (number `n0 + k` of the stream, `k` its position in
    `done`) that carried byte `c₁`, the first byte of the piece, and did not reach beyond `c₂` -/
inductive ChunksOk (isn : Nat) (B : Bytes) (n0 : Nat) (done : List Pkt) : Nat → List (Nat × Bytes) → Prop
  | nil : ChunksOk isn B n0 done 0 []
  | cons {c c' k : Nat} {p : Pkt} {chunks : List (Nat × Bytes)} :
      ChunksOk isn B n0 done c chunks → c < c' → c' ≤ B.length → done[k]? = some p →
      pOff isn p ≤ c → c < pEnd isn p → pEnd isn p ≤ c' →
      ChunksOk isn B n0 done c' ((n0 + k, slice B c c') :: chunks)

theorem ChunksOk.mono {isn B n0 done c chunks} (h : ChunksOk isn B n0 done c chunks) (more : List Pkt) :
    ChunksOk isn B n0 (done ++ more) c chunks := by
  induction h with
  | nil => exact .nil
  | cons _ h1 h2 h3 h4 h5 h6 ih =>
    refine .cons ih h1 h2 ?_ h4 h5 h6
    rw [List.getElem?_append_left]
    · exact h3
    · exact (List.getElem?_eq_some_iff.mp h3).1

/-- the chunks, oldest first, concatenate to the delivered prefix of `B` -/
theorem ChunksOk.bytes {isn B n0 done c chunks} (h : ChunksOk isn B n0 done c chunks) :
    (chunks.reverse.map (·.2)).flatten = B.take c ∧ c ≤ B.length := by
  induction h with
  | nil => simp
  | cons _ h1 h2 _ _ _ _ ih =>
    refine ⟨?_, h2⟩
    simp only [List.reverse_cons, List.map_append, List.flatten_append, ih.1, List.map_cons, List.map_nil,
      List.flatten_cons, List.flatten_nil, List.append_nil]
    rw [← slice_zero, ← slice_zero, slice_append (Nat.zero_le _) (Nat.le_of_lt h1)]

/-- what holds after any run of data segments of `B` -/
structure RunInv (isn : Nat) (B : Bytes) (dir : Bool) (st0 : Stream) (ls : Nat) (done : List Pkt) (r : Stream × Half) : Prop where
  ex : ∃ c chunks, r.2.lastSeen = ls ∧ HalfInv isn B c r.2 ∧ r.1 = Stream.after st0 dir done chunks ∧
        ChunksOk isn B st0.npkts done c chunks ∧
        ∀ x, (∃ p ∈ done, pOff isn p ≤ x ∧ x < pEnd isn p) → x < c ∨ Covered isn r.2.queue x

theorem feedAll_snoc (dir : Bool) (acc : Stream × Half) (l : List Pkt) (p : Pkt) :
    feedAll dir acc (l ++ [p]) = feed dir (feedAll dir acc l) p := by
  simp [feedAll, List.foldl_append]

theorem runInv_rev {isn : Nat} {B : Bytes} (hl : SeqLinear isn B.length) (dir : Bool) (st0 : Stream) (h0 : Half)
    (hopen : h0.closed = false) (hnext : h0.nextSeq = some isn) (hq : h0.queue = []) :
    ∀ (l : List Pkt), (∀ p ∈ l, SegPkt isn B p) →
      RunInv isn B dir st0 h0.lastSeen l.reverse (feedAll dir (st0, h0) l.reverse) := by
  intro l
  induction l with
  | nil =>
    intro _
    simp only [feedAll, List.reverse_nil, List.foldl_nil]
    refine ⟨0, [], rfl, ⟨hopen, by simpa using hnext, Nat.zero_le _, ?_⟩, ?_, .nil, ?_⟩
    · simp only [hq]
      exact ⟨(by intro pg hm; cases hm), List.Pairwise.nil⟩
    · simp [Stream.after]
    · intro x hx; simp at hx
  | cons p l ih =>
    intro hall
    obtain ⟨c, chunks, hls, hinv, hst, hch, hcov⟩ := ih (fun q hm => hall q (List.mem_cons_of_mem _ hm))
    have hp := hall p (List.mem_cons_self ..)
    rw [List.reverse_cons, feedAll_snoc]
    generalize feedAll dir (st0, h0) l.reverse = r at hinv hst hcov hls
    obtain ⟨st, h⟩ := r
    simp only at hinv hst hcov hls
    obtain ⟨c', h', e1, e2, e3, e4, e5, e6⟩ := feed_step hl dir st h p c hinv hp
    rw [e1]
    have hcov' : ∀ x, (∃ q ∈ l.reverse ++ [p], pOff isn q ≤ x ∧ x < pEnd isn q) → x < c' ∨ Covered isn h'.queue x := by
      intro x hx
      obtain ⟨q, hm, hx⟩ := hx
      rcases List.mem_append.mp hm with hm | hm
      · rcases hcov x ⟨q, hm, hx⟩ with h1 | h1
        · exact e5 x (Or.inl h1)
        · exact e5 x (Or.inr (Or.inl h1))
      · rw [List.mem_singleton.mp hm] at hx
        exact e5 x (Or.inr (Or.inr hx))
    by_cases hcc : c' = c
    · subst hcc
      refine ⟨c', chunks, by rw [← hls]; exact e6, e2, ?_, hch.mono [p], hcov'⟩
      simp [hst, Stream.after, Stream.addPkt, Nat.add_assoc]
    · obtain ⟨k1, k2, k3⟩ := e4 (by omega)
      refine ⟨c', (st0.npkts + l.reverse.length, slice B c c') :: chunks, by rw [← hls]; exact e6, e2, ?_, ?_, hcov'⟩
      · simp [hcc, hst, Stream.after, Stream.record, Nat.add_assoc]
      · exact .cons (hch.mono [p]) (by omega) e2.le (by simp) k1 k2 k3

/-- any run of data segments of `B` from a fresh half -/
theorem runInv_all {isn : Nat} {B : Bytes} (hl : SeqLinear isn B.length) (dir : Bool) (st0 : Stream) (h0 : Half)
    (hopen : h0.closed = false) (hnext : h0.nextSeq = some isn) (hq : h0.queue = [])
    (ps : List Pkt) (hps : ∀ p ∈ ps, SegPkt isn B p) :
    RunInv isn B dir st0 h0.lastSeen ps (feedAll dir (st0, h0) ps) := by
  have := runInv_rev hl dir st0 h0 hopen hnext hq ps.reverse (fun p hm => hps p (List.mem_reverse.mp hm))
  simpa using this

/-- every byte of `B` is carried by some packet of `ps` -/
def Covers (isn : Nat) (B : Bytes) (ps : List Pkt) : Prop :=
  ∀ x, x < B.length → ∃ p ∈ ps, pOff isn p ≤ x ∧ x < pEnd isn p

/-- a run whose segments cover `B`: everything is delivered, nothing stays queued -/
theorem runInv_covers {isn : Nat} {B : Bytes} (hl : SeqLinear isn B.length) (dir : Bool) (st0 : Stream) (h0 : Half)
    (hopen : h0.closed = false) (hnext : h0.nextSeq = some isn) (hq : h0.queue = [])
    (ps : List Pkt) (hps : ∀ p ∈ ps, SegPkt isn B p) (hcov : Covers isn B ps) :
    ∃ chunks, (feedAll dir (st0, h0) ps).1 = Stream.after st0 dir ps chunks ∧
      ChunksOk isn B st0.npkts ps B.length chunks ∧
      (feedAll dir (st0, h0) ps).2 = { h0 with nextSeq := some (isn + B.length) } := by
  obtain ⟨c, chunks, hls, hinv, hst, hch, hc⟩ := runInv_all hl dir st0 h0 hopen hnext hq ps hps
  generalize feedAll dir (st0, h0) ps = r at hinv hst hc hls
  obtain ⟨st, h⟩ := r
  simp only at hinv hst hc hls
  obtain ⟨i1, i2, i3, i4, i5⟩ := hinv
  have hcB : c = B.length := by
    by_cases hlt : c < B.length
    · rcases hc c (hcov c hlt) with h1 | ⟨pg, hm, h1, _⟩
      · omega
      · have := (i4 pg hm).2; omega
    · omega
  subst hcB
  have hqe : h.queue = [] := by
    cases hqq : h.queue with
    | nil => rfl
    | cons pg rest =>
      have hm : pg ∈ h.queue := by rw [hqq]; exact List.mem_cons_self ..
      have k1 := (i4 pg hm).2
      have k2 := (i4 pg hm).1.lt
      have k3 := (i4 pg hm).1.2.2.2.1
      omega
  refine ⟨chunks, hst, hch, ?_⟩
  cases h; cases h0
  simp only at *
  simp [*]

end Pk.Proofs.ImportReasm
