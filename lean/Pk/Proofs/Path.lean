/-
  Helper lemmas about Pk.Model.Path (property C19).  Core Lean only.
-/
import Pk.Model.Path

namespace Pk.Path

/-! ### split / joinSlash -/

theorem splitAux_noslash (n : P) (h : '/' ∉ n) : splitAux n = (n, []) := by
  induction n with
  | nil => rfl
  | cons c cs ih =>
    have hc : c ≠ '/' := fun e => h (by simp [e])
    have hcs : '/' ∉ cs := fun m => h (List.mem_cons_of_mem _ m)
    simp [splitAux, ih hcs, hc]

theorem splitAux_append_slash (a n : P) (h : '/' ∉ n) :
    splitAux (a ++ '/' :: n) = ((splitAux a).1, (splitAux a).2 ++ [n]) := by
  induction a with
  | nil => simp [splitAux, splitAux_noslash n h]
  | cons c cs ih =>
    by_cases hc : c = '/'
    · simp [splitAux, ih, hc]
    · simp [splitAux, ih, hc]

theorem split_append_slash (a n : P) (h : '/' ∉ n) : split (a ++ '/' :: n) = split a ++ [n] := by
  simp [split, splitAux_append_slash a n h]

theorem split_noslash (n : P) (h : '/' ∉ n) : split n = [n] := by
  simp [split, splitAux_noslash n h]

theorem splitAux_parts_noslash (s : P) :
    '/' ∉ (splitAux s).1 ∧ ∀ c ∈ (splitAux s).2, '/' ∉ c := by
  induction s with
  | nil => simp [splitAux]
  | cons c cs ih =>
    by_cases hc : c = '/'
    · simp only [splitAux, hc, if_true]
      refine ⟨by simp, ?_⟩
      intro x hx
      rcases List.mem_cons.mp hx with rfl | hx
      · exact ih.1
      · exact ih.2 x hx
    · simp only [splitAux, hc, if_false]
      refine ⟨?_, ih.2⟩
      intro hm
      rcases List.mem_cons.mp hm with e | hm
      · exact hc e.symm
      · exact ih.1 hm

theorem split_parts_noslash (s : P) : ∀ c ∈ split s, '/' ∉ c := by
  intro c hc
  have := splitAux_parts_noslash s
  rcases List.mem_cons.mp hc with rfl | hc
  · exact this.1
  · exact this.2 c hc

theorem joinSlash_append_singleton (l : List P) (n : P) (h : l ≠ []) :
    joinSlash (l ++ [n]) = joinSlash l ++ '/' :: n := by
  induction l with
  | nil => exact absurd rfl h
  | cons a t ih =>
    cases t with
    | nil => simp [joinSlash]
    | cons b t' =>
      have := ih (by simp)
      simp only [List.cons_append] at this ⊢
      simp [joinSlash, this]

theorem joinSlash_cons_ne_nil (a : P) (t : List P) (h : a ≠ []) : joinSlash (a :: t) ≠ [] := by
  cases t with
  | nil => simpa [joinSlash] using h
  | cons b t' => simp [joinSlash, h]

/-! ### clean -/

/-- what `Clean` keeps on its stack: real elements or "..", never empty, ".", or containing '/' -/
def Good (c : P) : Prop := c ≠ [] ∧ c ≠ ['.'] ∧ '/' ∉ c

theorem cleanStep_good (r : Bool) (st : List P × Nat) (c : P) (hc : '/' ∉ c)
    (h : ∀ x ∈ st.1, Good x) : ∀ x ∈ (cleanStep r st c).1, Good x := by
  unfold cleanStep
  split
  · exact h
  · split
    · exact h
    · rename_i h1 h2
      split
      · split
        · intro x hx
          exact h x (List.dropLast_subset _ hx)
        · split
          · exact h
          · intro x hx
            rcases List.mem_append.mp hx with hx | hx
            · exact h x hx
            · simp at hx; subst hx; exact ⟨h1, h2, hc⟩
      · intro x hx
        rcases List.mem_append.mp hx with hx | hx
        · exact h x hx
        · simp at hx; subst hx; exact ⟨h1, h2, hc⟩

theorem foldl_cleanStep_good (r : Bool) (cs : List P) (st : List P × Nat)
    (hcs : ∀ c ∈ cs, '/' ∉ c) (h : ∀ x ∈ st.1, Good x) :
    ∀ x ∈ (cs.foldl (cleanStep r) st).1, Good x := by
  induction cs generalizing st with
  | nil => simpa using h
  | cons c t ih =>
    simp only [List.foldl_cons]
    exact ih _ (fun x hx => hcs x (List.mem_cons_of_mem _ hx))
      (cleanStep_good r st c (hcs c (by simp)) h)

theorem cleanStep_plain (r : Bool) (st : List P × Nat) (n : P) (h : plain n) :
    cleanStep r st n = (st.1 ++ [n], st.2) := by
  obtain ⟨h1, _, h3, h4⟩ := h
  simp [cleanStep, h1, h3, h4]

theorem joinSlash_good (l : List P) (hl : l ≠ []) (h : ∀ x ∈ l, Good x) :
    joinSlash l ≠ [] ∧ joinSlash l ≠ ['/'] ∧ joinSlash l ≠ ['.'] := by
  cases l with
  | nil => exact absurd rfl hl
  | cons a t =>
    obtain ⟨ha1, ha2, ha3⟩ := h a (by simp)
    cases t with
    | nil =>
      refine ⟨by simpa [joinSlash] using ha1, ?_, by simpa [joinSlash] using ha2⟩
      intro e
      simp [joinSlash] at e
      exact ha3 (by simp [e])
    | cons b t' =>
      cases a with
      | nil => exact absurd rfl ha1
      | cons x xs => simp [joinSlash]

theorem isRooted_append (D s : P) (h : D ≠ []) : isRooted (D ++ s) = isRooted D := by
  cases D with
  | nil => exact absurd rfl h
  | cons a t => simp [isRooted]

/-- the core of `join_child`: appending a plain name to a non-empty path and cleaning gives the
    child of the cleaned path -/
theorem clean_append_child (D n : P) (hD : D ≠ []) (hn : plain n) :
    clean (D ++ '/' :: n) = child (clean D) n := by
  have hns : '/' ∉ n := hn.2.1
  have hne : D ++ '/' :: n ≠ [] := by simp
  have hgood := foldl_cleanStep_good (isRooted D) (split D) ([], 0) (split_parts_noslash D) (by simp)
  simp only [clean, hne, hD, if_false, isRooted_append D _ hD, split_append_slash D n hns,
    List.foldl_append, List.foldl_cons, List.foldl_nil, cleanStep_plain _ _ n hn]
  generalize (split D).foldl (cleanStep (isRooted D)) ([], 0) = st at hgood
  by_cases hr : isRooted D = true
  · simp only [hr, if_true]
    by_cases hs : st.1 = []
    · simp [hs, joinSlash, child]
    · obtain ⟨g1, _, _⟩ := joinSlash_good st.1 hs hgood
      rw [joinSlash_append_singleton _ _ hs]
      simp [child, g1]
  · simp only [hr]
    by_cases hs : st.1 = []
    · simp [hs, joinSlash, child]
    · obtain ⟨g1, g2, g3⟩ := joinSlash_good st.1 hs hgood
      rw [joinSlash_append_singleton _ _ hs]
      simp [child, hs, g1, g2, g3]

theorem clean_plain (n : P) (hn : plain n) : clean n = n := by
  obtain ⟨h1, h2, h3, h4⟩ := hn
  have hr : isRooted n = false := by
    cases n with
    | nil => exact absurd rfl h1
    | cons a t =>
      have : a ≠ '/' := fun e => h2 (by simp [e])
      simp [isRooted, this]
  simp [clean, h1, hr, split_noslash n h2, cleanStep, h3, h4, joinSlash]

/-! ### join -/

theorem join_nil_cons (l : List P) : join ([] :: l) = join l := by
  simp [join, List.dropWhile]

theorem join_cons_of_ne (d : P) (l : List P) (h : d ≠ []) : join (d :: l) = clean (joinSlash (d :: l)) := by
  simp [join, List.dropWhile, h]

theorem join_append_plain (ds : List P) (n : P) (hn : plain n) :
    join (ds ++ [n]) = child (join ds) n := by
  induction ds with
  | nil =>
    simp only [List.nil_append]
    rw [join_cons_of_ne n [] hn.1]
    simp [joinSlash, clean_plain n hn, join, child]
  | cons d t ih =>
    by_cases hd : d = []
    · subst hd
      simp only [List.cons_append]
      rw [join_nil_cons, join_nil_cons, ih]
    · simp only [List.cons_append]
      rw [join_cons_of_ne d _ hd, join_cons_of_ne d _ hd]
      have : joinSlash (d :: (t ++ [n])) = joinSlash (d :: t) ++ '/' :: n := by
        have := joinSlash_append_singleton (d :: t) n (by simp)
        simpa using this
      rw [this]
      exact clean_append_child _ n (joinSlash_cons_ne_nil d t hd) hn

/-! ### base -/

theorem takeWhile_all (p : Char → Bool) (l : P) (h : ∀ x ∈ l, p x = true) : l.takeWhile p = l := by
  induction l with
  | nil => rfl
  | cons a t ih =>
    have ha := h a (by simp)
    simp [List.takeWhile, ha, ih (fun x hx => h x (List.mem_cons_of_mem _ hx))]

theorem dropWhile_none (p : Char → Bool) (l : P) (h : ∀ x ∈ l, p x = false) : l.dropWhile p = l := by
  cases l with
  | nil => rfl
  | cons a t => simp [List.dropWhile, h a (by simp)]

theorem base_of_noslash (n : P) (h1 : n ≠ []) (h2 : '/' ∉ n) : base n = n := by
  have hr : ∀ x ∈ n.reverse, x ≠ '/' := by
    intro x hx e
    exact h2 (by simpa [e] using (List.mem_reverse.mp hx))
  have hd : n.reverse.dropWhile (· = '/') = n.reverse :=
    dropWhile_none _ _ (by intro x hx; simpa using hr x hx)
  have ht : n.reverse.takeWhile (fun x => !decide (x = '/')) = n.reverse :=
    takeWhile_all _ _ (by intro x hx; simpa using hr x hx)
  simp [base, h1, hd, ht]

theorem mem_takeWhile_sat (p : Char → Bool) (l : P) : ∀ x ∈ l.takeWhile p, p x = true := by
  induction l with
  | nil => simp
  | cons a t ih =>
    intro x hx
    by_cases ha : p a = true
    · simp [List.takeWhile, ha] at hx
      rcases hx with rfl | hx
      · exact ha
      · exact ih x hx
    · simp [List.takeWhile, ha] at hx

theorem base_fixed (n : P) (h : base n = n) : n = ['/'] ∨ (n ≠ [] ∧ '/' ∉ n) := by
  by_cases hn : n = []
  · subst hn; simp [base] at h
  · simp only [base, hn, if_false] at h
    split at h
    · exact Or.inl h.symm
    · right
      refine ⟨hn, ?_⟩
      rw [← h]
      intro hm
      have := mem_takeWhile_sat (· ≠ '/') _ '/' (List.mem_reverse.mp hm)
      simp at this

/-! ### route patterns -/

theorem stripPrefix_some (a s r : P) (h : stripPrefix a s = some r) : s = a ++ r := by
  induction a generalizing s with
  | nil => simp [stripPrefix] at h; simp [h]
  | cons x xs ih =>
    cases s with
    | nil => simp [stripPrefix] at h
    | cons y ys =>
      by_cases e : x = y
      · simp [stripPrefix, e] at h
        simp [e, ih ys h]
      · simp [stripPrefix, e] at h

theorem stripSuffix_some (suf s p : P) (h : stripSuffix suf s = some p) : s = p ++ suf := by
  unfold stripSuffix at h
  cases hq : stripPrefix suf.reverse s.reverse with
  | none => simp [hq] at h
  | some q =>
    simp [hq] at h
    have := stripPrefix_some _ _ _ hq
    have h2 : s = (suf.reverse ++ q).reverse := by rw [← this]; simp
    rw [h2, ← h]; simp

theorem matchUploadRegex_len (s : P) (h : matchUploadRegex s = true) : 6 ≤ s.length := by
  unfold matchUploadRegex at h
  simp only [Bool.or_eq_true] at h
  rcases h with h | h
  · cases hp : stripSuffix dotPcap s with
    | none => simp [hp] at h
    | some p =>
      simp [hp] at h
      have := stripSuffix_some _ _ _ hp
      have hl : 0 < p.length := List.length_pos_iff.mpr h.1
      rw [this]; simp [dotPcap]; omega
  · cases hp : stripSuffix dotPcapng s with
    | none => simp [hp] at h
    | some p =>
      simp [hp] at h
      have := stripSuffix_some _ _ _ hp
      rw [this]; simp [dotPcapng]

theorem matchDownloadRegex_len (s : P) (h : matchDownloadRegex s = true) : 6 ≤ s.length := by
  unfold matchDownloadRegex at h
  cases hp : stripSuffix dotPcap s with
  | none => simp [hp] at h
  | some p =>
    simp [hp] at h
    have := stripSuffix_some _ _ _ hp
    have hl : 0 < p.length := List.length_pos_iff.mpr h.1
    rw [this]; simp [dotPcap]; omega

theorem plain_of_len (n : P) (h1 : '/' ∉ n) (h2 : 6 ≤ n.length) : plain n := by
  refine ⟨?_, h1, ?_, ?_⟩ <;> (intro e; subst e; simp at h2)

end Pk.Path
