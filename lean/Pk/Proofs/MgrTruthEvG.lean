/- Helper lemmas for C06Reach: `updConv` / `delTag` that drop converter output (`converterOutputDropped`). -/
import Pk.Proofs.MgrTruthEvF
namespace Pk.Props.C06Reach
open Pk.Mgr Pk.Props.MgrReach Pk.Proofs.MgrTruth Pk.Proofs.MgrTags

theorem payload_split {a b : Nat} (h : (a ||| b) &&& fData ≠ 0) : a &&& fData ≠ 0 ∨ b &&& fData ≠ 0 := by
  by_cases ha : a &&& fData = 0
  · right
    intro hb
    apply h
    rw [Nat.and_or_distrib_right, ha, hb]
    rfl
  · exact Or.inl ha

theorem fData_254 {x : Nat} (h : x &&& fData ≠ 0) : x &&& (255 - fID) ≠ 0 := by
  intro h0
  apply h
  have e : fData = (255 - fID) &&& fData := by decide
  rw [e, ← Nat.and_assoc, h0, Nat.zero_and]

theorem payload_congr {t t' : Tag} (ha : Attrs t' = Attrs t) (h : Payload t) : Payload t' := by
  obtain ⟨_, _, e3, e4, _⟩ := attrs_eq ha
  unfold Payload
  rw [e3, e4]; exact h

/-- `dep_pending` for the part of the table that survives the event (`alive`): nothing alive references a name
    that does not survive -/
theorem dep_pending_alive {tags0 T' : List (String × Tag)} {all nx : Nat} {B : String → Nat → Prop}
    (alive : String → Prop) (hnx : nx ≤ all)
    (hclosed : ∀ n t', sget T' n = some t' → Closed all T' t')
    (hrefs : ∀ n t0, sget tags0 n = some t0 → alive n → (∀ r ∈ t0.mainT, alive r) ∧ (∀ r ∈ t0.subT, alive r))
    (hex : ∀ n t0, sget tags0 n = some t0 → alive n → ∃ t', sget T' n = some t' ∧
        (∀ r ∈ t0.mainT, r ∈ t'.mainT) ∧ (∀ r ∈ t0.subT, r ∈ t'.subT))
    (hbase : ∀ n id, B n id → alive n → id < all → Pend T' n id) :
    ∀ n id, Dep tags0 nx B n id → alive n → id < all → Pend T' n id := by
  intro n id d
  induction d with
  | base hb => exact hbase _ _ hb
  | main ht hr _ ih =>
    intro ha hid
    obtain ⟨t', h', hc⟩ := hex _ _ ht ha
    exact ⟨t', h', (hclosed _ _ h').1 _ (hc.1 _ hr) _ (pend_tagUnc (ih ((hrefs _ _ ht ha).1 _ hr) hid))⟩
  | sub ht hr hlt _ ih =>
    intro ha hid
    obtain ⟨t', h', hc⟩ := hex _ _ ht ha
    have hp := pend_tagUnc (ih ((hrefs _ _ ht ha).2 _ hr) (Nat.lt_of_lt_of_le hlt hnx))
    refine ⟨t', h', (hclosed _ _ h').2 ⟨_, hc.2 _ hr, ?_⟩ _ hid⟩
    intro h0; rw [h0] at hp; cases hp

theorem res_ok_updConv (s : St) (name : String) (convs : List String) (st : Started)
    (h : (step s (.updConv name convs) st).2 ≠ Res.err) : (step s (.updConv name convs) st).2 = Res.ok := by
  have : (step s (.updConv name convs) st).2 = Res.ok ∨ (step s (.updConv name convs) st).2 = Res.err := by
    rw [step_updConv_eq]
    repeat' split
    all_goals first | exact Or.inr rfl | exact Or.inl rfl
  rcases this with h1 | h1
  · exact h1
  · exact absurd h1 h

/-- an accepted `updConv` / `delTag` that drops converter output while some tag looks at stream data -/
theorem good_dropped (s : St) (e : Ev) (st : Started) (T T' g : Truth) (hg : Good s T g)
    (he : (∃ name convs, e = .updConv name convs) ∨ (∃ name, e = .delTag name))
    (hok : (step s e st).2 = Res.ok) (hd : DropsOutput s e)
    (hp : ∃ n t, sget s.tags n = some t ∧ Payload t)
    (hch : ∀ n t, ¬ C06.Edits e n → sget s.tags n = some t → ∀ id, id < s.next → T' n id ≠ T n id →
        Dep s.tags s.next (PayloadBase s) n id) :
    C06.Inv (step s e st).1 T' ∧
    (∀ jn' snap held', s.jTag = some (jn', snap, held') → JobInv (step s e st).1 T' g) := by
  have hr := hg.reach
  have hw := hr.tagsWF
  have hna : s.next ≤ s.all := hr.nextLeAll
  have hne : ∀ n r, e ≠ .tagDone n r := by
    rcases he with ⟨a, b, rfl⟩ | ⟨a, rfl⟩ <;> (intro n r h; cases h)
  have hni : ∀ p u c a b d, e ≠ .importDone p u c a b d := by
    rcases he with ⟨a, b, rfl⟩ | ⟨a, rfl⟩ <;> (intro p u c a' b' d h; cases h)
  obtain ⟨hall, hnext⟩ := Pk.Proofs.MgrReach.step_all_next_other s e st hni
  obtain ⟨hcl, hpay⟩ := dropped_table s e st he hok hd hp hw hr.uncBounded (topo_of_acyclic s hg.acyclic)
  -- an edited (= deleted) name is gone and nobody references it
  have hgone : ∀ n, C06.Edits e n → sget (step s e st).1.tags n = none := by
    intro n hE
    rcases he with ⟨a, b, rfl⟩ | ⟨a, rfl⟩
    · exact absurd hE (fun h => h)
    · have hn : a = n := hE
      subst hn
      exact (delTag_ok s a st hok).choose_spec.2.2
  have hnoref : ∀ m tm, sget s.tags m = some tm → ∀ r, r ∈ tm.refs → ¬ C06.Edits e r := by
    intro m tm hm r hr' hE
    rcases he with ⟨a, b, rfl⟩ | ⟨a, rfl⟩
    · exact hE
    · have hn : a = r := hE
      subst hn
      obtain ⟨t, ht, hrb, _⟩ := delTag_ok s a st hok
      have := hr.refByWF (m, tm) (sget_mem' hm) a hr' t ht
      rw [hrb] at this; cases this
  have P : ∀ n id, ¬ C06.Edits e n → Dep s.tags s.next (PayloadBase s) n id → id < s.all →
      Pend (step s e st).1.tags n id := by
    intro n id hn hdep hid
    refine dep_pending_alive (fun n => ¬ C06.Edits e n) hna hcl ?_ ?_ ?_ n id hdep hn hid
    · intro m tm hm _
      exact ⟨fun r hr' => hnoref m tm hm r (by simp [hr']), fun r hr' => hnoref m tm hm r (by simp [hr'])⟩
    · intro m tm hm ha
      obtain ⟨t', h', hat⟩ := attrs_get (step_attrs s e st m (fun h => ha ((edits_iff e m).2 h))) hm
      obtain ⟨e1, e2, _⟩ := attrs_eq hat
      exact ⟨t', h', fun r hr' => e1 ▸ hr', fun r hr' => e2 ▸ hr'⟩
    · rintro m id' ⟨tm, hm, hpl⟩ ha hid'
      obtain ⟨t', h', hat⟩ := attrs_get (step_attrs s e st m (fun h => ha ((edits_iff e m).2 h))) hm
      exact ⟨t', h', hpay m t' h' (payload_congr hat hpl) id' hid'⟩
  refine ⟨?_, ?_⟩
  · refine inv_of_frame s e st T T' hr hg.inv hnext hall ?_ ?_
    · intro n hE t' h' id hid hT
      have hk := keep_step s e st n hE
      cases hsn : sget s.tags n with
      | none => rw [hk.2 hsn] at h'; cases h'
      | some t0 =>
        obtain ⟨t2, h2, hu⟩ := P n id hE (hch n t0 hE hsn id hid hT) (by omega)
        rw [h'] at h2; cases h2; exact hu
    · intro n hE t' h' _ _ _
      rw [hgone n hE] at h'; cases h'
  · intro jn' snap held' hjt'
    have htag : s.tag = true := hr.jobsWF.1.2 (by rw [hjt']; rfl)
    have mr := dropped_masks s e st he hok hd hp htag
    refine jobInv_mono s e st T T' g hr hg.job hne jn' snap held' hjt' ?_ ?_
    · intro id h1 h2
      rw [hnext] at h2; omega
    · intro n' ot' hot' hg' hd'
      by_cases hE : C06.Edits e n'
      · rw [hgone n' hE] at hot'; cases hot'
      · obtain ⟨ot, hot, hg0, hd0, ha⟩ := pre_of_not_edits s e st n' snap ot' hE hot' hg' hd'
        refine Or.inr ⟨n', ot, hot, hg0, hd0, ha, ?_⟩
        intro hA id hid hT
        obtain ⟨r1, r2, e1, e2, _⟩ := attrs_eq hA
        have hlt : id < s.all := by omega
        refine job_cover hot r1 r2 (hch n' ot hE hot id hid hT) ?_ ?_ ?_ ?_
        · rintro ⟨t, ht, hpl⟩
          rw [hot] at ht; cases ht
          rcases payload_split hpl with hm | hs
          · exact Or.inr (Or.inr (Or.inl ⟨mr id hlt, by unfold F254; rw [← e1]; exact fData_254 hm⟩))
          · refine Or.inr (Or.inl ⟨?_, masksNE_of_mem (Or.inr (Or.inl (mr id hlt)))⟩)
            intro h0
            rw [← e2] at h0
            rw [h0, Nat.zero_and] at hs
            exact hs rfl
        · intro r hrm hd'
          exact Or.inr (P r id (hnoref n' ot hot r (by simp [r1, hrm])) hd' hlt)
        · intro r hrs id2 hid2 hd'
          exact Or.inr ⟨id2, P r id2 (hnoref n' ot hot r (by simp [r2, hrs])) hd' (by omega)⟩
        · intro _
          exact masksNE_of_mem (Or.inr (Or.inl (mr id hlt)))

end Pk.Props.C06Reach
