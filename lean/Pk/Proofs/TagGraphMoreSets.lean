/-
  Helper lemmas for C11More: the finite-set operations on stream ids (`insertNat`, `unionNat`,
  `diffNat`, `normNat`, `maxUsed`) and the set-level meaning of `markAddApply` / `markDelApply`.
-/
import Pk.Model.TagGraph

namespace Pk.Proofs.TagGraphMore
open Pk.TagGraph

theorem mem_insertNat (x y : Nat) (l : List Nat) : y ∈ insertNat x l ↔ y = x ∨ y ∈ l := by
  induction l with
  | nil => simp [insertNat]
  | cons a l ih =>
    unfold insertNat
    split
    · simp
    · split
      · rename_i h; subst h; simp
      · simp only [List.mem_cons, ih]
        constructor
        · rintro (h | h | h)
          · exact Or.inr (Or.inl h)
          · exact Or.inl h
          · exact Or.inr (Or.inr h)
        · rintro (h | h | h)
          · exact Or.inr (Or.inl h)
          · exact Or.inl h
          · exact Or.inr (Or.inr h)

theorem mem_unionNat (a b : List Nat) (y : Nat) : y ∈ unionNat a b ↔ y ∈ a ∨ y ∈ b := by
  unfold unionNat
  induction b generalizing a with
  | nil => simp
  | cons x b ih =>
    simp only [List.foldl_cons, ih, mem_insertNat, List.mem_cons]
    constructor
    · rintro ((h | h) | h)
      · exact Or.inr (Or.inl h)
      · exact Or.inl h
      · exact Or.inr (Or.inr h)
    · rintro (h | h | h)
      · exact Or.inl (Or.inr h)
      · exact Or.inl (Or.inl h)
      · exact Or.inr h

theorem mem_diffNat (a b : List Nat) (y : Nat) : y ∈ diffNat a b ↔ y ∈ a ∧ y ∉ b := by
  simp [diffNat]

theorem mem_interNat (a b : List Nat) (y : Nat) : y ∈ interNat a b ↔ y ∈ a ∧ y ∈ b := by
  simp [interNat]

theorem mem_normNat (a : List Nat) (y : Nat) : y ∈ normNat a ↔ y ∈ a := by
  simp [normNat, mem_unionNat]

theorem unionNat_nil (a : List Nat) : unionNat a [] = a := rfl

/-- `maxUsed` is a strict upper bound of the ids named -/
theorem maxUsed_foldl_ge (ids : List Nat) (m : Nat) :
    m ≤ ids.foldl (fun m s => if m ≤ s then s + 1 else m) m := by
  induction ids generalizing m with
  | nil => exact Nat.le_refl _
  | cons a ids ih =>
    simp only [List.foldl_cons]
    refine Nat.le_trans ?_ (ih _)
    split <;> omega

theorem maxUsed_foldl_lt (ids : List Nat) (m s : Nat) (hs : s ∈ ids) :
    s < ids.foldl (fun m s => if m ≤ s then s + 1 else m) m := by
  induction ids generalizing m with
  | nil => cases hs
  | cons a ids ih =>
    simp only [List.foldl_cons]
    rcases List.mem_cons.mp hs with rfl | hs'
    · refine Nat.lt_of_lt_of_le ?_ (maxUsed_foldl_ge ids _)
      split <;> omega
    · exact ih _ hs'

theorem lt_maxUsed (ids : List Nat) (s : Nat) (hs : s ∈ ids) : s < maxUsed ids :=
  maxUsed_foldl_lt ids 0 s hs

/-! ### the ids a mark add really adds -/

/-- the ids of a mark add that are not yet set, in the order given, without repetition
    (the `added` of `markAddApply`) -/
def addedOf (matched ids : List Nat) : List Nat :=
  (ids.foldl (fun (acc : List Nat × List Nat) s =>
      if acc.1.contains s then acc else (insertNat s acc.1, acc.2 ++ [s])) (matched, [])).2

theorem added_fold_spec (ids : List Nat) (a b : List Nat) :
    let r := ids.foldl (fun (acc : List Nat × List Nat) s =>
      if acc.1.contains s then acc else (insertNat s acc.1, acc.2 ++ [s])) (a, b)
    (∀ x, x ∈ r.1 ↔ x ∈ a ∨ x ∈ ids) ∧ (∀ x, x ∈ r.2 ↔ x ∈ b ∨ (x ∈ ids ∧ x ∉ a)) := by
  induction ids generalizing a b with
  | nil => simp
  | cons s ids ih =>
    simp only [List.foldl_cons]
    by_cases hc : a.contains s = true
    · rw [if_pos hc]
      obtain ⟨h1, h2⟩ := ih a b
      have hs : s ∈ a := by simpa using hc
      refine ⟨fun x => ?_, fun x => ?_⟩
      · rw [h1 x]
        simp only [List.mem_cons]
        constructor
        · rintro (h | h)
          · exact Or.inl h
          · exact Or.inr (Or.inr h)
        · rintro (h | h | h)
          · exact Or.inl h
          · exact Or.inl (h ▸ hs)
          · exact Or.inr h
      · rw [h2 x]
        simp only [List.mem_cons]
        constructor
        · rintro (h | ⟨h, hn⟩)
          · exact Or.inl h
          · exact Or.inr ⟨Or.inr h, hn⟩
        · rintro (h | ⟨h | h, hn⟩)
          · exact Or.inl h
          · exact absurd (h ▸ hs) hn
          · exact Or.inr ⟨h, hn⟩
    · rw [if_neg hc]
      obtain ⟨h1, h2⟩ := ih (insertNat s a) (b ++ [s])
      have hs : s ∉ a := by simpa using hc
      refine ⟨fun x => ?_, fun x => ?_⟩
      · rw [h1 x, mem_insertNat]
        simp only [List.mem_cons]
        constructor
        · rintro ((h | h) | h)
          · exact Or.inr (Or.inl h)
          · exact Or.inl h
          · exact Or.inr (Or.inr h)
        · rintro (h | h | h)
          · exact Or.inl (Or.inr h)
          · exact Or.inl (Or.inl h)
          · exact Or.inr h
      · rw [h2 x, mem_insertNat]
        simp only [List.mem_append, List.mem_cons, List.not_mem_nil, or_false]
        constructor
        · rintro ((h | h) | ⟨h, hn⟩)
          · exact Or.inl h
          · exact Or.inr ⟨Or.inl h, h ▸ hs⟩
          · exact Or.inr ⟨Or.inr h, fun ha => hn (Or.inr ha)⟩
        · rintro (h | ⟨h | h, hn⟩)
          · exact Or.inl (Or.inl h)
          · exact Or.inl (Or.inr h)
          · by_cases hx : x = s
            · exact Or.inl (Or.inr hx)
            · exact Or.inr ⟨h, fun ha => by rcases ha with ha | ha; exact hx ha; exact hn ha⟩

theorem mem_addedOf (matched ids : List Nat) (x : Nat) :
    x ∈ addedOf matched ids ↔ x ∈ ids ∧ x ∉ matched := by
  have := (added_fold_spec ids matched []).2 x
  simpa [addedOf] using this

/-- no id is added twice -/
theorem added_fold_nodup (ids : List Nat) (a b : List Nat) (hb : b.Nodup) (hab : ∀ x ∈ b, x ∈ a) :
    (ids.foldl (fun (acc : List Nat × List Nat) s =>
      if acc.1.contains s then acc else (insertNat s acc.1, acc.2 ++ [s])) (a, b)).2.Nodup := by
  induction ids generalizing a b with
  | nil => simpa using hb
  | cons s ids ih =>
    simp only [List.foldl_cons]
    by_cases hc : a.contains s = true
    · rw [if_pos hc]
      exact ih a b hb hab
    · rw [if_neg hc]
      have hs : s ∉ a := by simpa using hc
      apply ih
      · rw [List.nodup_append]
        refine ⟨hb, by simp, ?_⟩
        intro x hx y hy
        simp only [List.mem_singleton] at hy
        subst hy
        intro h; subst h
        exact hs (hab x hx)
      · intro x hx
        rw [mem_insertNat]
        rcases List.mem_append.mp hx with h | h
        · exact Or.inr (hab x h)
        · exact Or.inl (by simpa using h)

theorem addedOf_nodup (matched ids : List Nat) : (addedOf matched ids).Nodup :=
  added_fold_nodup ids matched [] List.nodup_nil (by simp)

/-! ### `markAddApply` / `markDelApply` field by field -/

theorem markAddApply_eq (t : Tag) (ids : List Nat) :
    markAddApply t ids =
      (if (addedOf t.matched ids).isEmpty then
        { t with matched := unionNat t.matched (addedOf t.matched ids),
                 uncertain := unionNat t.uncertain (addedOf t.matched ids) }
       else
        { t with matched := unionNat t.matched (addedOf t.matched ids),
                 uncertain := unionNat t.uncertain (addedOf t.matched ids),
                 cond := t.cond.map (fun c => unionNat c (addedOf t.matched ids)),
                 definition :=
                   if t.definition == "id:-1" then "id:" ++ joinIds (addedOf t.matched ids)
                   else if plainIdList t.definition then t.definition ++ "," ++ joinIds (addedOf t.matched ids)
                   else "(" ++ t.definition ++ ") or id:" ++ joinIds (addedOf t.matched ids) }) := rfl

theorem markAddApply_matched (t : Tag) (ids : List Nat) :
    (markAddApply t ids).matched = unionNat t.matched (addedOf t.matched ids) := by
  rw [markAddApply_eq]; split <;> rfl

theorem markAddApply_uncertain (t : Tag) (ids : List Nat) :
    (markAddApply t ids).uncertain = unionNat t.uncertain (addedOf t.matched ids) := by
  rw [markAddApply_eq]; split <;> rfl

theorem markAddApply_cond (t : Tag) (ids : List Nat) :
    (markAddApply t ids).cond = t.cond.map (fun c => unionNat c (addedOf t.matched ids)) := by
  rw [markAddApply_eq]; split
  · rename_i h
    have : addedOf t.matched ids = [] := by simpa using h
    rw [this]
    cases t.cond <;> rfl
  · rfl

theorem markAddApply_definition (t : Tag) (ids : List Nat) :
    (markAddApply t ids).definition =
      if addedOf t.matched ids = [] then t.definition
      else if t.definition == "id:-1" then "id:" ++ joinIds (addedOf t.matched ids)
      else if plainIdList t.definition then t.definition ++ "," ++ joinIds (addedOf t.matched ids)
      else "(" ++ t.definition ++ ") or id:" ++ joinIds (addedOf t.matched ids) := by
  rw [markAddApply_eq]
  by_cases h : addedOf t.matched ids = []
  · simp [h]
  · have h' : (addedOf t.matched ids).isEmpty = false := by simpa using h
    simp only [h', h, if_false]
    rfl

/-- the fields a mark add/del never touches -/
def sameOther (a b : Tag) : Prop :=
  a.mainTags = b.mainTags ∧ a.subTags = b.subTags ∧ a.mainFeat = b.mainFeat ∧ a.subFeat = b.subFeat ∧
  a.known = b.known ∧ a.color = b.color ∧ a.converters = b.converters ∧ a.referencedBy = b.referencedBy

theorem markAddApply_other (t : Tag) (ids : List Nat) : sameOther (markAddApply t ids) t := by
  rw [markAddApply_eq]; split <;> exact ⟨rfl, rfl, rfl, rfl, rfl, rfl, rfl, rfl⟩

theorem markDelApply_other (t : Tag) (ids : List Nat) : sameOther (markDelApply t ids) t :=
  ⟨rfl, rfl, rfl, rfl, rfl, rfl, rfl, rfl⟩

theorem mem_markAddApply_matched (t : Tag) (ids : List Nat) (x : Nat) :
    x ∈ (markAddApply t ids).matched ↔ x ∈ t.matched ∨ x ∈ ids := by
  rw [markAddApply_matched, mem_unionNat, mem_addedOf]
  by_cases h : x ∈ t.matched <;> simp [h]

theorem mem_markAddApply_uncertain (t : Tag) (ids : List Nat) (x : Nat) :
    x ∈ (markAddApply t ids).uncertain ↔ x ∈ t.uncertain ∨ (x ∈ ids ∧ x ∉ t.matched) := by
  rw [markAddApply_uncertain, mem_unionNat, mem_addedOf]

/-- the ids a mark del really removes -/
def removedOf (matched ids : List Nat) : List Nat := normNat (ids.filter (fun s => matched.contains s))

theorem mem_removedOf (matched ids : List Nat) (x : Nat) :
    x ∈ removedOf matched ids ↔ x ∈ ids ∧ x ∈ matched := by
  simp [removedOf, mem_normNat]

theorem mem_markDelApply_matched (t : Tag) (ids : List Nat) (x : Nat) :
    x ∈ (markDelApply t ids).matched ↔ x ∈ t.matched ∧ x ∉ ids := by
  show x ∈ diffNat t.matched (removedOf t.matched ids) ↔ _
  rw [mem_diffNat, mem_removedOf]
  by_cases h : x ∈ t.matched <;> simp [h]

theorem mem_markDelApply_uncertain (t : Tag) (ids : List Nat) (x : Nat) :
    x ∈ (markDelApply t ids).uncertain ↔ x ∈ t.uncertain ∨ (x ∈ ids ∧ x ∈ t.matched) := by
  show x ∈ unionNat t.uncertain (removedOf t.matched ids) ↔ _
  rw [mem_unionNat, mem_removedOf]

theorem markDelApply_cond (t : Tag) (ids : List Nat) :
    (markDelApply t ids).cond = some (markDelApply t ids).matched := rfl

theorem markDelApply_definition (t : Tag) (ids : List Nat) :
    (markDelApply t ids).definition =
      if (markDelApply t ids).matched.isEmpty then "id:-1" else "id:" ++ joinIds (markDelApply t ids).matched := rfl

end Pk.Proofs.TagGraphMore
