/-
  Flow locality of the reference reassembler, part 4 (D): the flushes beyond the window.
  `tcpFlush k ts` leaves every connection untouched that belongs to another assembler or that is
  fresh (seen within the timeout, no queued page older than the timeout), keeps their order, and
  changes only the streams of the other connections, and those only by delivering data / setting
  `complete`.  `udpFlush ts` removes exactly the flows older than the timeout and sets `complete`
  on exactly their streams.
-/
import Pk.Proofs.ImportReasmMoreFlow1

namespace Pk.Proofs.ImportReasm
open Pk.Import

/-! ### streams only grow data -/

/-- `st'` is `st` with more data delivered and possibly another `complete` flag -/
def StreamExt (st st' : Stream) : Prop :=
  ∃ more c, st' = { st with dataRev := more ++ st.dataRev, complete := c }

theorem StreamExt.refl (st : Stream) : StreamExt st st := ⟨[], st.complete, rfl⟩

theorem StreamExt.trans {a b c : Stream} (h1 : StreamExt a b) (h2 : StreamExt b c) : StreamExt a c := by
  obtain ⟨m1, c1, rfl⟩ := h1
  obtain ⟨m2, c2, rfl⟩ := h2
  exact ⟨m2 ++ m1, c2, by simp only [List.append_assoc]⟩

theorem StreamExt.key {a b : Stream} (h : StreamExt a b) : Stream.keyPkt b = Stream.keyPkt a := by
  obtain ⟨m, c, rfl⟩ := h; rfl

theorem StreamExt.pkts {a b : Stream} (h : StreamExt a b) : b.pktsRev = a.pktsRev ∧ b.npkts = a.npkts ∧ b.fsm = a.fsm := by
  obtain ⟨m, c, rfl⟩ := h; exact ⟨rfl, rfl, rfl⟩

theorem addData_ext (s : Stream) (r : PRef) (b : Bytes) : StreamExt s (s.addData r b) := by
  unfold Stream.addData
  split
  · rename_i i _; exact ⟨[(i, b)], s.complete, rfl⟩
  · exact StreamExt.refl s

theorem sendToConnection_ext (st : Stream) (h : Half) (s : Nat) (b : Bytes) (r : PRef) (f : Bool) :
    StreamExt st (sendToConnection st h s b r f).1 := by
  unfold sendToConnection
  simp only
  split
  · exact StreamExt.refl st
  · split
    · exact addData_ext ..
    · exact StreamExt.refl st

theorem skipFlushLoop_ext (ts : Nat) : ∀ (n : Nat) (st : Stream) (h : Half),
    StreamExt st (skipFlushLoop ts n st h).1 ∧ (skipFlushLoop ts n st h).2.lastSeen = h.lastSeen := by
  intro n
  induction n with
  | zero => intro st h; exact ⟨StreamExt.refl st, rfl⟩
  | succ n ih =>
    intro st h
    rw [skipFlushLoop]
    split
    · exact ⟨StreamExt.refl st, rfl⟩
    · split
      · exact ⟨StreamExt.refl st, rfl⟩
      · split
        · rename_i pg rest _ _
          have h1 := sendToConnection_ext st { h with queue := rest } pg.seq pg.bytes pg.ref pg.fin
          have h2 := (sendToConnection_refs (fun _ => True) st { h with queue := rest } pg.seq pg.bytes pg.ref pg.fin
            (fun _ _ => trivial)).2
          have h3 := ih (sendToConnection st { h with queue := rest } pg.seq pg.bytes pg.ref pg.fin).1
            { (sendToConnection st { h with queue := rest } pg.seq pg.bytes pg.ref pg.fin).2.1 with
              nextSeq := some (sendToConnection st { h with queue := rest } pg.seq pg.bytes pg.ref pg.fin).2.2 }
          exact ⟨h1.trans h3.1, by rw [h3.2]; exact h2⟩
        · exact ⟨StreamExt.refl st, rfl⟩

/-! ### one connection -/

/-- seen within the timeout (on one half at least) and no queued page older than the timeout -/
def ConnFresh (ts : Nat) (c : TcpConn) : Prop :=
  ¬ (c.lastSeen + timeout < ts) ∧ (∀ pg ∈ c.c2s.queue, ¬ (pg.ref.ts + timeout < ts)) ∧
    (∀ pg ∈ c.s2c.queue, ¬ (pg.ref.ts + timeout < ts))
instance (ts : Nat) (c : TcpConn) : Decidable (ConnFresh ts c) := by unfold ConnFresh; infer_instance

/-- the flush of assembler `k` at time `ts` does not touch `c` -/
def FlushKeeps (k ts : Nat) (c : TcpConn) : Prop := c.k ≠ k ∨ ConnFresh ts c
instance (k ts : Nat) (c : TcpConn) : Decidable (FlushKeeps k ts c) := by unfold FlushKeeps; infer_instance

/-- second part of `flushClose`: close a half that has nothing queued when the connection is old -/
def closeIfOld (old : Bool) (h : Half) : Half :=
  if ¬ h.closed ∧ h.queue.isEmpty ∧ old then { h with closed := true, queue := [] } else h

def markComplete (b : Bool) (st : Stream) : Stream := if b then { st with complete := true } else st

theorem closeIfOld_false (h : Half) : closeIfOld false h = h := by
  unfold closeIfOld; simp

theorem closeIfOld_lastSeen (old : Bool) (h : Half) : (closeIfOld old h).lastSeen = h.lastSeen := by
  unfold closeIfOld; split <;> rfl

theorem markComplete_ext (b : Bool) (st : Stream) : StreamExt st (markComplete b st) := by
  unfold markComplete
  split
  · exact ⟨[], true, rfl⟩
  · exact StreamExt.refl st

/-- what `tcpFlush k ts` does to one connection and its stream: the connection that remains (if any)
    and the stream -/
def flushStep (k ts : Nat) (c : TcpConn) (st0 : Stream) : Option TcpConn × Stream :=
  if c.k ≠ k then (some c, st0) else
  let old : Bool := c.lastSeen + timeout < ts
  let wasClosed := c.c2s.closed && c.s2c.closed
  let r1 := skipFlushLoop ts c.s2c.queue.length st0 c.s2c
  let s2c := closeIfOld old r1.2
  let r2 := skipFlushLoop ts c.c2s.queue.length r1.1 c.c2s
  let c2s := closeIfOld old r2.2
  let st3 := markComplete ((c2s.closed && s2c.closed) && !wasClosed) r2.1
  let remove : Bool := c2s.closed ∧ s2c.closed ∧ c.c2s.lastSeen + timeout < ts ∧ c.s2c.lastSeen + timeout < ts
  (if remove then none else some { c with c2s := c2s, s2c := s2c }, st3)

theorem flush_aux {α β γ : Type} (r : Prop) [Decidable r] (x : α) (rest : List α × β × γ) :
    (if r then (rest.1, rest.2.1, rest.2.2) else (x :: rest.1, rest.2.1, rest.2.2)) =
      ((if r then none else some x).toList ++ rest.1, rest.2.1, rest.2.2) := by
  split <;> rfl

theorem tcpFlush_cons (k ts : Nat) (c : TcpConn) (cs : List TcpConn) (ss : Array Stream) (u : Bool) :
    tcpFlush k ts (c :: cs) ss u =
      ((flushStep k ts c ss[c.stream]!).1.toList ++
          (tcpFlush k ts cs (ss.set! c.stream (flushStep k ts c ss[c.stream]!).2) u).1,
        (tcpFlush k ts cs (ss.set! c.stream (flushStep k ts c ss[c.stream]!).2) u).2.1,
        (tcpFlush k ts cs (ss.set! c.stream (flushStep k ts c ss[c.stream]!).2) u).2.2) := by
  rw [tcpFlush]
  unfold flushStep
  split
  · simp only [array_set!_self, Option.toList_some, List.singleton_append]
  · exact flush_aux _ _ _

theorem flushStep_keeps (k ts : Nat) (c : TcpConn) (st : Stream) (h : FlushKeeps k ts c) :
    flushStep k ts c st = (some c, st) := by
  unfold flushStep
  split
  · rfl
  · rename_i hk
    rcases h with h | ⟨hold, h1, h2⟩
    · exact absurd h hk
    · have hboth : ¬ (c.c2s.lastSeen + timeout < ts ∧ c.s2c.lastSeen + timeout < ts) := by
        unfold TcpConn.lastSeen at hold; omega
      simp only [skipFlushLoop_id ts _ _ c.s2c h2, skipFlushLoop_id ts _ _ c.c2s h1, hold, decide_false,
        closeIfOld_false, Bool.and_not_self, markComplete, Bool.false_eq_true, if_false]
      by_cases hc : c.c2s.lastSeen + timeout < ts
      · have : ¬ (c.s2c.lastSeen + timeout < ts) := fun h => hboth ⟨hc, h⟩
        simp [this]
      · simp [hc]

/-- identity of a connection: everything but the contents of the two halves -/
def ConnSame (c c' : TcpConn) : Prop :=
  c'.k = c.k ∧ c'.src = c.src ∧ c'.dst = c.dst ∧ c'.sport = c.sport ∧ c'.dport = c.dport ∧ c'.stream = c.stream ∧
  c'.c2s.lastSeen = c.c2s.lastSeen ∧ c'.s2c.lastSeen = c.s2c.lastSeen

theorem flushStep_ext (k ts : Nat) (c : TcpConn) (st : Stream) : StreamExt st (flushStep k ts c st).2 := by
  unfold flushStep
  split
  · exact StreamExt.refl st
  · have e1 := (skipFlushLoop_ext ts c.s2c.queue.length st c.s2c).1
    have e2 := (skipFlushLoop_ext ts c.c2s.queue.length (skipFlushLoop ts c.s2c.queue.length st c.s2c).1 c.c2s).1
    exact (e1.trans e2).trans (markComplete_ext _ _)

theorem flushStep_same (k ts : Nat) (c : TcpConn) (st : Stream) (c' : TcpConn) (h : (flushStep k ts c st).1 = some c') :
    ConnSame c c' := by
  unfold flushStep at h
  split at h
  · cases h; exact ⟨rfl, rfl, rfl, rfl, rfl, rfl, rfl, rfl⟩
  · have e1 := (skipFlushLoop_ext ts c.s2c.queue.length st c.s2c).2
    have e2 := (skipFlushLoop_ext ts c.c2s.queue.length (skipFlushLoop ts c.s2c.queue.length st c.s2c).1 c.c2s).2
    simp only at h
    split at h
    · cases h
    · cases h
      refine ⟨rfl, rfl, rfl, rfl, rfl, rfl, ?_, ?_⟩
      · simp only [closeIfOld_lastSeen]; exact e2
      · simp only [closeIfOld_lastSeen]; exact e1

/-! ### array bookkeeping -/

theorem array_set!_get!_ne (ss : Array Stream) (i j : Nat) (x : Stream) (h : j ≠ i) : (ss.set! j x)[i]! = ss[i]! := by
  simp [Array.getElem!_eq_getD, Array.getD_eq_getD_getElem?, Array.getElem?_setIfInBounds_ne h]

theorem array_set!_get!_eq (ss : Array Stream) (j : Nat) (x : Stream) :
    (ss.set! j x)[j]! = if j < ss.size then x else ss[j]! := by
  split
  · rename_i h; simp [h]
  · rename_i h; simp [h]

theorem array_set!_get!_ext (ss : Array Stream) (i j : Nat) (x : Stream) (h : StreamExt ss[j]! x) :
    StreamExt ss[i]! (ss.set! j x)[i]! := by
  by_cases hj : j = i
  · subst hj
    rw [array_set!_get!_eq]
    split
    · exact h
    · exact StreamExt.refl _
  · rw [array_set!_get!_ne ss i j x hj]; exact StreamExt.refl _

/-! ### the flush of one assembler -/

theorem tcpFlush_u (k ts : Nat) : ∀ (cs : List TcpConn) (ss : Array Stream) (u : Bool), (tcpFlush k ts cs ss u).2.2 = u := by
  intro cs
  induction cs with
  | nil => intro ss u; rfl
  | cons c cs ih => intro ss u; rw [tcpFlush_cons]; exact ih _ u

theorem tcpFlush_size (k ts : Nat) : ∀ (cs : List TcpConn) (ss : Array Stream) (u : Bool),
    (tcpFlush k ts cs ss u).2.1.size = ss.size := by
  intro cs
  induction cs with
  | nil => intro ss u; rfl
  | cons c cs ih => intro ss u; rw [tcpFlush_cons]; simp only; rw [ih]; simp

/-- streams are only extended (data delivered, `complete` set) -/
theorem tcpFlush_ext (k ts : Nat) : ∀ (cs : List TcpConn) (ss : Array Stream) (u : Bool) (i : Nat),
    StreamExt ss[i]! (tcpFlush k ts cs ss u).2.1[i]! := by
  intro cs
  induction cs with
  | nil => intro ss u i; exact StreamExt.refl _
  | cons c cs ih =>
    intro ss u i
    rw [tcpFlush_cons]
    exact (array_set!_get!_ext ss i c.stream _ (flushStep_ext k ts c _)).trans (ih _ u i)

/-- only the streams of connections that are flushed change -/
theorem tcpFlush_streams (k ts : Nat) : ∀ (cs : List TcpConn) (ss : Array Stream) (u : Bool) (i : Nat),
    (∀ c ∈ cs, ¬ FlushKeeps k ts c → c.stream ≠ i) → (tcpFlush k ts cs ss u).2.1[i]! = ss[i]! := by
  intro cs
  induction cs with
  | nil => intro ss u i _; rfl
  | cons c cs ih =>
    intro ss u i h
    rw [tcpFlush_cons]
    simp only
    rw [ih _ u i (fun c hm => h c (List.mem_cons_of_mem _ hm))]
    by_cases hk : FlushKeeps k ts c
    · rw [flushStep_keeps k ts c _ hk, array_set!_self]
    · exact array_set!_get!_ne ss i c.stream _ (h c (List.mem_cons_self ..) hk)

/-- connections of other assemblers and fresh connections stay, untouched, in their order -/
theorem tcpFlush_keeps (k ts : Nat) : ∀ (cs : List TcpConn) (ss : Array Stream) (u : Bool),
    (cs.filter (fun c => decide (FlushKeeps k ts c))).Sublist (tcpFlush k ts cs ss u).1 := by
  intro cs
  induction cs with
  | nil => intro ss u; exact List.Sublist.slnil
  | cons c cs ih =>
    intro ss u
    rw [tcpFlush_cons]
    simp only [List.filter_cons]
    by_cases hk : FlushKeeps k ts c
    · simp only [hk, decide_true, if_true, flushStep_keeps k ts c _ hk, Option.toList_some, List.singleton_append]
      exact (ih _ u).cons_cons c
    · simp only [hk, decide_false, Bool.false_eq_true, if_false]
      exact List.Sublist.trans (ih _ u) (List.sublist_append_right _ _)

/-- every remaining connection is a connection of before (same identity, same `lastSeen`),
    unchanged if the flush keeps it -/
theorem tcpFlush_conns (k ts : Nat) : ∀ (cs : List TcpConn) (ss : Array Stream) (u : Bool),
    ∀ c' ∈ (tcpFlush k ts cs ss u).1, ∃ c ∈ cs, ConnSame c c' ∧ (FlushKeeps k ts c → c' = c) := by
  intro cs
  induction cs with
  | nil => intro ss u c' hm; cases hm
  | cons c cs ih =>
    intro ss u c' hm
    rw [tcpFlush_cons] at hm
    rcases List.mem_append.mp hm with hm | hm
    · have hs : (flushStep k ts c ss[c.stream]!).1 = some c' := by
        cases h : (flushStep k ts c ss[c.stream]!).1 with
        | none => rw [h] at hm; cases hm
        | some x => rw [h] at hm; simp only [Option.toList_some, List.mem_singleton] at hm; rw [hm]
      refine ⟨c, List.mem_cons_self .., flushStep_same k ts c _ c' hs, ?_⟩
      intro hk
      rw [flushStep_keeps k ts c _ hk] at hs
      cases hs; rfl
    · obtain ⟨c0, m0, h0⟩ := ih _ u c' hm
      exact ⟨c0, List.mem_cons_of_mem _ m0, h0⟩

/-! ### the UDP flush -/

theorem udpFlush_conns (ts : Nat) : ∀ (cs : List UdpConn) (ss : Array Stream),
    (udpFlush ts cs ss).1 = cs.filter (fun c => !decide (c.lastActivity + timeout < ts)) := by
  intro cs
  induction cs with
  | nil => intro ss; rfl
  | cons c cs ih =>
    intro ss
    rw [udpFlush]
    split
    · rename_i h; simp only [List.filter_cons, h, decide_true, Bool.not_true, Bool.false_eq_true, if_false]; exact ih _
    · rename_i h; simp only [List.filter_cons, h, decide_false, Bool.not_false, if_true, ih]

theorem udpFlush_size (ts : Nat) : ∀ (cs : List UdpConn) (ss : Array Stream), (udpFlush ts cs ss).2.size = ss.size := by
  intro cs
  induction cs with
  | nil => intro ss; rfl
  | cons c cs ih =>
    intro ss
    rw [udpFlush]
    split
    · rw [ih]; simp
    · exact ih ss

/-- the stream `i` belongs to a flow that `udpFlush ts` removes -/
def udpOld (ts : Nat) (cs : List UdpConn) (i : Nat) : Bool :=
  cs.any (fun c => decide (c.lastActivity + timeout < ts) && c.stream == i)

/-- exactly the streams of the removed flows are completed, nothing else changes -/
theorem udpFlush_streams (ts : Nat) : ∀ (cs : List UdpConn) (ss : Array Stream) (i : Nat),
    (udpFlush ts cs ss).2[i]? =
      ss[i]?.map (fun s => if udpOld ts cs i then { s with complete := true } else s) := by
  intro cs
  induction cs with
  | nil => intro ss i; simp [udpFlush, udpOld]
  | cons c cs ih =>
    intro ss i
    rw [udpFlush]
    split
    · rename_i h
      rw [ih, Array.getElem?_modify]
      by_cases hi : c.stream = i
      · subst hi
        simp only [if_true, Option.map_map]
        congr 1
        funext s
        have hold : udpOld ts (c :: cs) c.stream = true := by simp [udpOld, h]
        simp only [Function.comp, hold, if_true]
        cases udpOld ts cs c.stream <;> rfl
      · simp only [hi, if_false]
        congr 1
        funext s
        have : (c.stream == i) = false := by simpa using hi
        simp only [udpOld, List.any_cons, this, Bool.and_false, Bool.false_or]
        rfl
    · rename_i h
      simp only
      rw [ih]
      congr 1
      funext s
      simp only [udpOld, List.any_cons, h, decide_false, Bool.false_and, Bool.false_or]
      rfl

end Pk.Proofs.ImportReasm

