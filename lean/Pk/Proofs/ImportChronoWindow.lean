/-
  Chronological arrival, part 4: inside one inactivity-timeout window (no flush does anything) a
  stream changes only when it gets a packet: if a stream of `reasm F` has the same packets in
  `reasm (F ++ G)`, it is the same stream (same data, same flags) — `reasm_window_frame`.
  Across the timeout this is false (a flush delivers queued data to a stream that gets no packet:
  `C08.finding_F34`).
-/
import Pk.Proofs.ImportChronoRun

namespace Pk.Proofs.ImportChrono
open Pk.Import Pk.Proofs.ImportReasm

theorem aStep_frame (a : List Entry) (p : Pkt) (k : Nat) (e : Entry) (h : a[k]? = some e) :
    ∃ e', (aStep a p)[k]? = some e' ∧ (e' = e ∨ e'.st.pktsRev.length = e.st.pktsRev.length + 1) := by
  unfold aStep
  rcases updFirst_spec (entryStep p) (newEntry p) a with ⟨_, h2⟩ | ⟨pre, x, x', post, h1, _, h3, h4⟩
  · rw [h2]
    refine ⟨e, ?_, Or.inl rfl⟩
    have hk : k < a.length := by
      rcases Nat.lt_or_ge k a.length with h' | h'
      · exact h'
      · rw [List.getElem?_eq_none h'] at h; cases h
    rw [List.getElem?_append_left hk]; exact h
  · rw [h4]
    subst h1
    rcases Nat.lt_trichotomy k pre.length with hk | hk | hk
    · rw [List.getElem?_append_left hk] at h ⊢
      exact ⟨e, h, Or.inl rfl⟩
    · subst hk
      rw [List.getElem?_append_right (Nat.le_refl _)] at h ⊢
      simp only [Nat.sub_self, List.getElem?_cons_zero, Option.some.injEq] at h ⊢
      subst h
      obtain ⟨d, hd⟩ := entryStep_pkts p x x' h3
      exact ⟨x', rfl, Or.inr (by rw [hd]; simp)⟩
    · rw [List.getElem?_append_right (by omega)] at h ⊢
      obtain ⟨m, hm⟩ : ∃ m, k - pre.length = m + 1 := ⟨k - pre.length - 1, by omega⟩
      rw [hm] at h ⊢
      simp only [List.getElem?_cons_succ] at h ⊢
      exact ⟨e, h, Or.inl rfl⟩

theorem aRun_frame : ∀ (qs : List Pkt) (a : List Entry) (k : Nat) (e : Entry), a[k]? = some e →
    ∃ e', (aRun a qs)[k]? = some e' ∧ (e' = e ∨ e.st.pktsRev.length < e'.st.pktsRev.length) := by
  intro qs
  induction qs with
  | nil => intro a k e h; exact ⟨e, h, Or.inl rfl⟩
  | cons p qs ih =>
    intro a k e h
    obtain ⟨e1, h1, c1⟩ := aStep_frame a p k e h
    obtain ⟨e2, h2, c2⟩ := ih (aStep a p) k e1 h1
    refine ⟨e2, by simpa [aRun] using h2, ?_⟩
    rcases c1 with rfl | c1 <;> rcases c2 with rfl | c2
    · exact Or.inl rfl
    · exact Or.inr c2
    · exact Or.inr (by omega)
    · exact Or.inr (by omega)

theorem array_get!_toList (ss : Array Stream) (k : Nat) : ss[k]! = (ss.toList[k]?).getD default := by
  simp [Array.getElem!_eq_getD, Array.getD_eq_getD_getElem?]

/-- inside one window: a stream that got no packet is unchanged -/
theorem reasm_window_frame (t0 : Nat) (F G : List Pkt) (hw : InWindow t0 (F ++ G)) (k : Nat)
    (hk : k < (reasm F).size) (hp : (reasm (F ++ G))[k]!.pktsRev = (reasm F)[k]!.pktsRev) :
    (reasm (F ++ G))[k]! = (reasm F)[k]! := by
  have hwF : InWindow t0 F := fun p hp => hw p (List.mem_append_left _ hp)
  have h1 := reasm_abs t0 F hwF
  have h2 := reasm_abs t0 (F ++ G) hw
  have hrun : aRun [] (F ++ G) = aRun (aRun [] F) G := by simp [aRun, List.foldl_append]
  rw [hrun] at h2
  have hlen : (aRun [] F).length = (reasm F).size := by
    have := congrArg List.length h1
    simpa using this.symm
  obtain ⟨e, he⟩ : ∃ e, (aRun [] F)[k]? = some e := ⟨(aRun [] F)[k]'(by omega), by simp [hlen, hk]⟩
  obtain ⟨e', he', hc⟩ := aRun_frame G (aRun [] F) k e he
  have g1 : (reasm F)[k]! = e.st := by
    rw [array_get!_toList, h1, List.getElem?_map, he]; rfl
  have g2 : (reasm (F ++ G))[k]! = e'.st := by
    rw [array_get!_toList, h2, List.getElem?_map, he']; rfl
  rw [g1, g2] at hp ⊢
  rcases hc with rfl | hc
  · rfl
  · rw [hp] at hc; omega

end Pk.Proofs.ImportChrono
