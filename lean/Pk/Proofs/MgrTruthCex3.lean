/-
  MgrTruthCex3 — the "ABA" trace (delete + re-add of the job's tag and of the tag it references while the job
  is in flight) is SAFE on the model with tag identities.

  History: the first version of this file (`jobTextOK_counterexample`) showed a real defect on this trace: the
  completion of the tagging job compared only the definition TEXT of the tag with the text of its snapshot, so
  after
    1. `delTag tag/x`, 2. `delTag mark/m`, 3. `addTag mark/m "id:1"`, 4. `addTag tag/x "tag:m"`,
    5. `tagDone tag/x [0]` (the search result is the truth at job start)
  it published the answer computed from the OLD mark/m for the NEW tag/x (`mat = [0]`, `unc = []` although
  the new tag/x matches exactly stream 1).  The defect is fixed: a tag carries the identity `gen` of the
  `AddTag` call that created it and the completion publishes only if text AND identity agree with the snapshot.

  This file shows on the same trace (start state `abaS`: mark/m = "id:0" matches exactly stream 0,
  tag/x = "tag:m" with mainT = [mark/m], mfeat = 64 (`fTags`) has both streams pending and its job in flight):
   * `aba_now_safe`: after the completion the new tag/x (identity 3) still has every stream pending and no
     recorded match;
   * `aba_good`, `aba_runOK`: the trace satisfies the hypotheses of `decided_correct_run` — in particular the
     reduced `JobTextOK`, which no longer mentions deletion and re-creation —, so "decided ⇒ correct" holds
     at its end by the theorem.

  The two facts about `parseTagName` on the literal names (`String.splitOn` is defined by well-founded
  recursion and does not reduce in the kernel) are proved by unrolling `String.splitOnAux` with its equation
  lemma (`aba_parse1`, `aba_parse2`), so the theorems have no hypotheses.
-/
import Pk.Props.C06ReachSpec
namespace Pk.Props.C06Reach
open Pk.Mgr Pk.Props.MgrReach Pk.Proofs.MgrTruth Pk.Proofs.MgrTags

/-! ## the witness -/

/-- mark/m at the start (identity 0) -/
def abaM : Tag :=
  { defn := "id:0", mainT := [], subT := [], mfeat := 1, sfeat := 0, isMarkDef := true, mat := [0],
    refBy := ["tag/x"], gen := 0 }
/-- tag/x while its job is in flight (identity 1; also the job's snapshot) -/
def abaX : Tag :=
  { defn := "tag:m", mainT := ["mark/m"], subT := [], mfeat := 64, sfeat := 0, unc := [0, 1], gen := 1 }
/-- mark/m after tag/x was deleted -/
def abaM1 : Tag :=
  { defn := "id:0", mainT := [], subT := [], mfeat := 1, sfeat := 0, isMarkDef := true, mat := [0], refBy := [],
    gen := 0 }
/-- the new mark/m (identity 2) -/
def abaM3 : Tag :=
  { defn := "id:1", mainT := [], subT := [], mfeat := 1, sfeat := 0, isMarkDef := true, mat := [1], refBy := [],
    gen := 2 }
/-- the new mark/m, referenced by the new tag/x -/
def abaM4 : Tag :=
  { defn := "id:1", mainT := [], subT := [], mfeat := 1, sfeat := 0, isMarkDef := true, mat := [1],
    refBy := ["tag/x"], gen := 2 }
/-- the new tag/x (identity 3): same text and facts as the snapshot, another identity -/
def abaX4 : Tag :=
  { defn := "tag:m", mainT := ["mark/m"], subT := [], mfeat := 64, sfeat := 0, unc := [0, 1], gen := 3 }

/-- the start state -/
def abaS : St :=
  { tags := [("mark/m", abaM), ("tag/x", abaX)], idx := [0], files := [(0, [0, 1])], used := [(0, 2)],
    next := 2, all := 2, nrec := 2, pcaps := ["a.pcap"], ngen := 2, tag := true,
    jTag := some ("tag/x", abaX, [0]) }
/-- after `delTag tag/x` -/
def abaS1 : St :=
  { tags := [("mark/m", abaM1)], idx := [0], files := [(0, [0, 1])], used := [(0, 2)],
    next := 2, all := 2, nrec := 2, pcaps := ["a.pcap"], ngen := 2, tag := true,
    jTag := some ("tag/x", abaX, [0]) }
/-- after `delTag mark/m` -/
def abaS2 : St :=
  { tags := [], idx := [0], files := [(0, [0, 1])], used := [(0, 2)],
    next := 2, all := 2, nrec := 2, pcaps := ["a.pcap"], ngen := 2, tag := true,
    jTag := some ("tag/x", abaX, [0]) }
/-- after `addTag mark/m "id:1"` -/
def abaS3 : St :=
  { tags := [("mark/m", abaM3)], idx := [0], files := [(0, [0, 1])], used := [(0, 2)],
    next := 2, all := 2, nrec := 2, pcaps := ["a.pcap"], ngen := 3, tag := true,
    jTag := some ("tag/x", abaX, [0]) }
/-- after `addTag tag/x "tag:m"`: the new tag/x carries the text of the job's snapshot, but not its identity -/
def abaS4 : St :=
  { tags := [("mark/m", abaM4), ("tag/x", abaX4)], idx := [0], files := [(0, [0, 1])], used := [(0, 2)],
    next := 2, all := 2, nrec := 2, pcaps := ["a.pcap"], ngen := 4, tag := true,
    jTag := some ("tag/x", abaX, [0]) }
/-- after `tagDone tag/x [0]`: the result is discarded, the tag table is unchanged, and a new job is started for
    the new tag/x (no tagging choice was reported with the event, so the model falls back to the first eligible
    tag and flags it) -/
def abaS5 : St :=
  { tags := [("mark/m", abaM4), ("tag/x", abaX4)], idx := [0], files := [(0, [0, 1])], used := [(0, 2)],
    next := 2, all := 2, nrec := 2, pcaps := ["a.pcap"], ngen := 4, tag := true,
    jTag := some ("tag/x", abaX4, [0]), badChoice := true }

def abaF3 : Facts := {err := false, main := [], sub := [], mfeat := 1, sfeat := 0, idsok := true, ids := [1]}
def abaF4 : Facts :=
  {err := false, main := ["mark/m"], sub := [], mfeat := 64, sfeat := 0, idsok := false, ids := []}

def abaE1 : Ev := .delTag "tag/x"
def abaE2 : Ev := .delTag "mark/m"
def abaE3 : Ev := .addTag "mark/m" "" "id:1" abaF3
def abaE4 : Ev := .addTag "tag/x" "" "tag:m" abaF4
def abaE5 : Ev := .tagDone "tag/x" [0]

/-- the truth at the start (and the ghost: the truth when the job for tag/x started): stream 0 -/
def abaT : Truth := fun _ id => decide (id = 0)
/-- the truth after event 3: the new mark/m matches exactly stream 1 -/
def abaT3 : Truth := fun n id => if n = "mark/m" then decide (id = 1) else decide (id = 0)
/-- the truth after event 4: the new tag/x = "tag:m" matches exactly stream 1, too -/
def abaT4 : Truth := fun _ id => decide (id = 1)

/-- the history -/
def abaH : Hist :=
  [(abaE1, {}, abaT), (abaE2, {}, abaT), (abaE3, {}, abaT3), (abaE4, {}, abaT4), (abaE5, {}, abaT4)]

/-! ## `parseTagName` and `isMarkName` on the two names -/

theorem aba_markName : isMarkName "mark/m" = true := by simp [isMarkName]
theorem aba_tagName : isMarkName "tag/x" = false := by simp [isMarkName]

theorem aba_split1 : "tag/x".splitOn "/" = ["tag", "x"] := by
  simp only [String.splitOn]
  rw [if_neg (by decide)]
  iterate 6 (rw [String.splitOnAux]; simp (decide := true) only [↓reduceIte])
theorem aba_split2 : "mark/m".splitOn "/" = ["mark", "m"] := by
  simp only [String.splitOn]
  rw [if_neg (by decide)]
  iterate 7 (rw [String.splitOnAux]; simp (decide := true) only [↓reduceIte])
theorem aba_parse1 : parseTagName "tag/x" = ("tag", "x", false) := by
  unfold parseTagName
  rw [aba_split1]
  decide
theorem aba_parse2 : parseTagName "mark/m" = ("mark", "m", true) := by
  unfold parseTagName
  rw [aba_split2]
  decide

/-! ## the model's transitions -/

theorem aba_step1 : step abaS abaE1 {} = (abaS1, .ok) := rfl
theorem aba_step2 : step abaS1 abaE2 {} = (abaS2, .ok) := rfl
theorem aba_step3 : step abaS2 abaE3 {} = (abaS3, .ok) := by
  unfold abaE3
  rw [step_addTag_eq, aba_parse2]
  rfl
theorem aba_step4 : step abaS3 abaE4 {} = (abaS4, .ok) := by
  unfold abaE4
  rw [step_addTag_eq, aba_parse1]
  rfl
theorem aba_step5 : step abaS4 abaE5 {} = (abaS5, .none) := rfl

/-! ## lookups in the literal tables -/

theorem aba_sget {n : String} {t : Tag} (h : sget abaS.tags n = some t) :
    (n = "mark/m" ∧ t = abaM) ∨ (n = "tag/x" ∧ t = abaX) := by
  have h' : sget [("mark/m", abaM), ("tag/x", abaX)] n = some t := h
  rw [sget_cons] at h'
  split at h'
  · next hn => exact Or.inl ⟨(by simpa using hn.symm), (Option.some.inj h').symm⟩
  · rw [sget_cons] at h'
    split at h'
    · next hn => exact Or.inr ⟨(by simpa using hn.symm), (Option.some.inj h').symm⟩
    · simp [sget] at h'

theorem aba_mem {nt : String × Tag} (h : nt ∈ abaS.tags) : nt = ("mark/m", abaM) ∨ nt = ("tag/x", abaX) := by
  have h' : nt ∈ [("mark/m", abaM), ("tag/x", abaX)] := h
  simpa using h'

/-- the job in flight in the states `abaS` … `abaS4` -/
theorem aba_job {s : St} (hs : s.jTag = some ("tag/x", abaX, [0])) {jn : String} {snap : Tag} {held : List Nat}
    (h : s.jTag = some (jn, snap, held)) : jn = "tag/x" ∧ snap = abaX ∧ held = [0] := by
  rw [hs] at h
  have : ("tag/x", abaX, [0]) = (jn, snap, held) := Option.some.inj h
  cases this
  exact ⟨rfl, rfl, rfl⟩

theorem aba_sget3 {n : String} {t : Tag} (h : sget abaS3.tags n = some t) : n = "mark/m" ∧ t = abaM3 := by
  have h' : sget [("mark/m", abaM3)] n = some t := h
  rw [sget_cons] at h'
  split at h'
  · next hn => exact ⟨(by simpa using hn.symm), (Option.some.inj h').symm⟩
  · simp [sget] at h'

theorem aba_lt2 {id : Nat} {l : List Nat} (h : id ∈ l) (hl : ∀ x ∈ l, x < 2 := by decide) : id < 2 := hl id h

/-! ## the start state satisfies all invariants -/

theorem aba_refsM : abaM.refs = [] := rfl
theorem aba_refsX : abaX.refs = ["mark/m"] := rfl
theorem aba_sgetM : sget abaS.tags "mark/m" = some abaM := rfl
theorem aba_sgetX : sget abaS.tags "tag/x" = some abaX := rfl

theorem aba_reach : Reach abaS := by
  refine ⟨?_, ?_, ?_, ?_, ?_, ?_, ?_, ?_, ?_, ?_, ?_, ?_, ?_, ?_, ?_, ?_⟩
  · show List.Pairwise (· < ·) ["mark/m", "tag/x"]
    simp only [List.pairwise_cons, List.mem_cons, List.not_mem_nil, or_false, forall_eq, false_imp_iff, implies_true,
      List.Pairwise.nil, and_true]
    decide
  · simp [C09.JobsWF, abaS]
  · refine ⟨fun f => ?_, fun f => ?_, fun f => ?_, ?_, ?_, ?_, ?_, ?_⟩
    · by_cases hf : f = 0
      · subst hf; rfl
      · have h0 : (0 == f) = false := by simpa using fun h => hf h.symm
        simp [C13.holders, C13.viewHeld, C13.jobHeld, abaS, nget, h0, List.count_cons]
    · by_cases hf : f = 0
      · subst hf; simp [abaS, nget]
      · have h0 : (0 == f) = false := by simpa using fun h => hf h.symm
        simp [abaS, nget, h0]
    · by_cases hf : f = 0
      · subst hf; rfl
      · have h0 : (0 == f) = false := by simpa using fun h => hf h.symm
        simp [abaS, nget, h0]
    · simp [abaS]
    · simp [abaS]
    · simp [abaS]
    · simp [abaS]
    · simp [abaS]
  · intro jn held h; cases h
  · intro id hid
    refine ⟨0, List.mem_singleton.2 rfl, ?_⟩
    have hid' : id < 2 := hid
    show id ∈ [0, 1]
    simp only [List.mem_cons, List.not_mem_nil, or_false]
    omega
  · exact Nat.le_refl _
  · exact Nat.le_refl _
  · intro n t h id hid
    show id < 2
    rcases aba_sget h with ⟨_, rfl⟩ | ⟨_, rfl⟩
    · cases hid
    · have : id ∈ [0, 1] := hid
      simp only [List.mem_cons, List.not_mem_nil, or_false] at this
      omega
  · refine ⟨?_, fun _ h => (by cases h), fun _ h => (by cases h), fun _ h => (by cases h),
      fun _ h => (by cases h), fun _ _ h => (by cases h)⟩
    intro n snap held h id hid
    obtain ⟨_, rfl, _⟩ := aba_job rfl h
    show id < 2
    have : id ∈ [0, 1] := hid
    simp only [List.mem_cons, List.not_mem_nil, or_false] at this
    omega
  · refine ⟨fun nt h id hid => ?_, fun n snap held h id hid => ?_⟩
    · show id < 2
      rcases aba_mem h with rfl | rfl
      · have : id ∈ [0] := hid
        simp only [List.mem_cons, List.not_mem_nil, or_false] at this
        omega
      · cases hid
    · obtain ⟨_, rfl, _⟩ := aba_job rfl h
      cases hid
  · intro n t h c hc
    rcases aba_sget h with ⟨_, rfl⟩ | ⟨_, rfl⟩ <;> cases hc
  · intro n t h c hc
    rcases aba_sget h with ⟨_, rfl⟩ | ⟨_, rfl⟩ <;> cases hc
  · refine ⟨?_, ?_, ?_, ?_, ?_⟩
    · intro n snap held ot hj hot _
      obtain ⟨rfl, rfl, _⟩ := aba_job rfl hj
      rcases aba_sget hot with ⟨hn, _⟩ | ⟨_, rfl⟩
      · exact absurd hn (by decide)
      · exact ⟨rfl, rfl⟩
    · intro n t h hm
      rcases aba_sget h with ⟨_, rfl⟩ | ⟨rfl, _⟩
      · exact ⟨rfl, rfl⟩
      · rw [aba_tagName] at hm; cases hm
    · intro n1 t1 n2 t2 h1 h2 hm1 hm2 _
      rcases aba_sget h1 with ⟨rfl, _⟩ | ⟨_, rfl⟩
      · rw [aba_markName] at hm1; cases hm1
      · rcases aba_sget h2 with ⟨rfl, _⟩ | ⟨_, rfl⟩
        · rw [aba_markName] at hm2; cases hm2
        · exact ⟨rfl, rfl⟩
    · intro n snap held hj hm
      obtain ⟨rfl, _, _⟩ := aba_job rfl hj
      rw [aba_tagName] at hm; cases hm
    · intro n snap held hj _ m ot hot hm _
      obtain ⟨_, rfl, _⟩ := aba_job rfl hj
      rcases aba_sget hot with ⟨rfl, _⟩ | ⟨_, rfl⟩
      · rw [aba_markName] at hm; cases hm
      · exact ⟨rfl, rfl⟩
  · intro nt h r hr tr htr
    rcases aba_mem h with rfl | rfl
    · rw [aba_refsM] at hr; cases hr
    · rw [aba_refsX] at hr
      have hr' : r = "mark/m" := by simpa using hr
      subst hr'
      rw [aba_sgetM] at htr
      cases htr
      exact List.mem_singleton.2 rfl
  · intro nt h r hr
    rcases aba_mem h with rfl | rfl
    · rw [aba_refsM] at hr; cases hr
    · rw [aba_refsX] at hr
      have hr' : r = "mark/m" := by simpa using hr
      subst hr'
      rw [aba_sgetM]; rfl
  · exact ⟨fun _ => rfl, fun c hc => (by cases hc)⟩

theorem aba_acyclic : C09.Acyclic abaS := rfl

theorem aba_genInv : GenInv abaS := by
  refine ⟨?_, ?_, ?_⟩
  · intro n t h
    show t.gen < 2
    rcases aba_sget h with ⟨_, rfl⟩ | ⟨_, rfl⟩ <;> decide
  · intro jn snap held hj
    obtain ⟨_, rfl, _⟩ := aba_job rfl hj
    show (1 : Nat) < 2
    decide
  · intro n1 t1 n2 t2 h1 h2 hg
    rcases aba_sget h1 with ⟨rfl, rfl⟩ | ⟨rfl, rfl⟩ <;> rcases aba_sget h2 with ⟨rfl, rfl⟩ | ⟨rfl, rfl⟩
    · rfl
    · exact absurd hg (by decide)
    · exact absurd hg (by decide)
    · rfl

theorem aba_tagFeatM : TagFeat abaM := ⟨fun h => absurd rfl h, fun h => absurd rfl h⟩
theorem aba_tagFeatX : TagFeat abaX := ⟨fun _ => by decide, fun h => absurd rfl h⟩

theorem aba_tagFeatInv : TagFeatInv abaS := by
  refine ⟨?_, ?_⟩
  · intro n t h
    rcases aba_sget h with ⟨_, rfl⟩ | ⟨_, rfl⟩
    · exact aba_tagFeatM
    · exact aba_tagFeatX
  · intro jn snap held hj
    obtain ⟨_, rfl, _⟩ := aba_job rfl hj
    exact aba_tagFeatX

theorem aba_inv : C06.Inv abaS abaT := by
  intro n t h id hid hnu
  have hid' : id < 2 := hid
  rcases aba_sget h with ⟨_, rfl⟩ | ⟨_, rfl⟩
  · show id ∈ [0] ↔ decide (id = 0) = true
    simp
  · exfalso; apply hnu
    show id ∈ [0, 1]
    simp only [List.mem_cons, List.not_mem_nil, or_false]
    omega

/-- ghost = truth and every stream is pending in the snapshot: nothing differs from the answer to be published -/
theorem aba_jobInv : JobInv abaS abaT abaT := by
  intro jn snap held n ot hj hot hg _
  obtain ⟨rfl, rfl, _⟩ := aba_job rfl hj
  rcases aba_sget hot with ⟨_, rfl⟩ | ⟨_, rfl⟩
  · exact absurd hg (by decide)
  · refine Or.inr ⟨rfl, fun id hid hne => ?_⟩
    exfalso; apply hne
    have hid' : id < 2 := hid
    have hm : id ∈ abaX.unc := by
      show id ∈ [0, 1]
      simp only [List.mem_cons, List.not_mem_nil, or_false]
      omega
    simp only [Ans, hm, if_true]
    rfl

/-- the start state of the trace satisfies every invariant of `decided_correct_run` -/
theorem aba_good : Good abaS abaT abaT :=
  ⟨aba_reach, aba_acyclic, aba_genInv, aba_tagFeatInv, aba_inv, aba_jobInv⟩

/-! ## events 1 and 2: the two deletions -/

theorem aba_payload1 : PayloadOK abaS abaE1 := ⟨trivial, trivial, trivial, trivial, trivial⟩
theorem aba_payload2 : PayloadOK abaS1 abaE2 := ⟨trivial, trivial, trivial, trivial, trivial⟩

theorem aba_truth1 : TruthStep abaS abaE1 abaT abaT := by
  refine ⟨fun h => ?_, fun _ => ?_⟩
  · rw [aba_step1] at h; cases h
  · show (¬ DropsOutput abaS (.delTag "tag/x") → ∀ n, n ≠ "tag/x" → SameAt abaS abaT abaT n) ∧
      (DropsOutput abaS (.delTag "tag/x") → ∀ n t, n ≠ "tag/x" → sget abaS.tags n = some t → ∀ id, id < abaS.next →
        abaT n id ≠ abaT n id → Dep abaS.tags abaS.next (PayloadBase abaS) n id)
    exact ⟨fun _ n _ t _ id _ => rfl, fun _ n t _ _ id _ hT => absurd rfl hT⟩

theorem aba_truth2 : TruthStep abaS1 abaE2 abaT abaT := by
  refine ⟨fun h => ?_, fun _ => ?_⟩
  · rw [aba_step2] at h; cases h
  · show (¬ DropsOutput abaS1 (.delTag "mark/m") → ∀ n, n ≠ "mark/m" → SameAt abaS1 abaT abaT n) ∧
      (DropsOutput abaS1 (.delTag "mark/m") → ∀ n t, n ≠ "mark/m" → sget abaS1.tags n = some t → ∀ id, id < abaS1.next →
        abaT n id ≠ abaT n id → Dep abaS1.tags abaS1.next (PayloadBase abaS1) n id)
    exact ⟨fun _ n _ t _ id _ => rfl, fun _ n t _ _ id _ hT => absurd rfl hT⟩

/-- the reduced `JobTextOK` says nothing about deletions -/
theorem aba_jobText1 : JobTextOK abaS abaE1 {} abaT abaT := fun _ _ _ _ => trivial
theorem aba_jobText2 : JobTextOK abaS1 abaE2 {} abaT abaT := fun _ _ _ _ => trivial

theorem aba_stepOK1 : StepOK abaS abaT abaT abaE1 {} abaT :=
  ⟨aba_payload1, trivial, trivial, aba_truth1, trivial, aba_jobText1⟩
theorem aba_stepOK2 : StepOK abaS1 abaT abaT abaE2 {} abaT :=
  ⟨aba_payload2, trivial, trivial, aba_truth2, trivial, aba_jobText2⟩

/-! ## event 3: the new mark/m -/

theorem aba_payload3 : PayloadOK abaS2 abaE3 := by
  refine ⟨trivial, trivial, ?_, trivial, ?_, ?_, ?_, ?_⟩
  · intro id hid
    have : id ∈ [1] := hid
    exact aba_lt2 this
  · intro n snap held hj hd
    obtain ⟨_, rfl, _⟩ := aba_job rfl hj
    exact absurd hd (by decide)
  · intro m t h
    have h' : sget ([] : List (String × Tag)) m = some t := h
    simp [sget] at h'
  · intro _; exact ⟨rfl, rfl⟩
  · show isMarkName "mark/m" = true ↔ _
    rw [aba_parse2]
    exact ⟨fun _ => Or.inl rfl, fun _ => aba_markName⟩

theorem aba_featOK3 : EvFeatOK abaE3 := ⟨fun h => absurd rfl h, fun h => absurd rfl h⟩

theorem aba_truth3 : TruthStep abaS2 abaE3 abaT abaT3 := by
  refine ⟨fun h => ?_, fun _ => ?_⟩
  · rw [aba_step3] at h; cases h
  · show (∀ n, n ≠ "mark/m" → SameAt abaS2 abaT abaT3 n) ∧
      ((parseTagName "mark/m").2.2 = true → ∀ id, id < abaS2.next → (abaT3 "mark/m" id = true ↔ id ∈ abaF3.ids))
    refine ⟨fun n hn t _ id _ => ?_, fun _ id _ => ?_⟩
    · show (if n = "mark/m" then decide (id = 1) else decide (id = 0)) = decide (id = 0)
      rw [if_neg hn]
    · show (if "mark/m" = "mark/m" then decide (id = 1) else decide (id = 0)) = true ↔ id ∈ [1]
      simp

/-- … nor about the creation of a tag -/
theorem aba_jobText3 : JobTextOK abaS2 abaE3 {} abaT abaT3 := fun _ _ _ _ => trivial

theorem aba_stepOK3 : StepOK abaS2 abaT abaT abaE3 {} abaT3 :=
  ⟨aba_payload3, aba_featOK3, trivial, aba_truth3, trivial, aba_jobText3⟩

/-! ## event 4: the new tag/x carries the text of the job's snapshot again (under a new identity) -/

theorem aba_payload4 : PayloadOK abaS3 abaE4 := by
  refine ⟨trivial, trivial, ?_, trivial, ?_, ?_, ?_, ?_⟩
  · intro id hid; cases hid
  · intro n snap held hj _
    obtain ⟨_, rfl, _⟩ := aba_job rfl hj
    exact ⟨rfl, rfl⟩
  · intro m t h hd
    obtain ⟨_, rfl⟩ := aba_sget3 h
    exact absurd hd (by decide)
  · intro h; cases h
  · show isMarkName "tag/x" = true ↔ _
    rw [aba_parse1, aba_tagName]
    constructor
    · intro h; cases h
    · intro h
      rcases h with h | h <;> exact absurd h (by decide)

/-- the facts of "tag:m" report the tag-reference feature: `64 &&& fTags ≠ 0` -/
theorem aba_featOK4 : EvFeatOK abaE4 := ⟨fun _ => by decide, fun h => absurd rfl h⟩

theorem aba_truth4 : TruthStep abaS3 abaE4 abaT3 abaT4 := by
  refine ⟨fun h => ?_, fun _ => ?_⟩
  · rw [aba_step4] at h; cases h
  · show (∀ n, n ≠ "tag/x" → SameAt abaS3 abaT3 abaT4 n) ∧
      ((parseTagName "tag/x").2.2 = true → ∀ id, id < abaS3.next → (abaT4 "tag/x" id = true ↔ id ∈ abaF4.ids))
    refine ⟨fun n _ t ht id _ => ?_, fun h => ?_⟩
    · obtain ⟨rfl, _⟩ := aba_sget3 ht
      rfl
    · rw [aba_parse1] at h; cases h

/-- this is the event the OLD `JobTextOK` had to exclude (the snapshot's text is back under the job's name);
    the reduced contract holds trivially -/
theorem aba_jobText4 : JobTextOK abaS3 abaE4 {} abaT3 abaT4 := fun _ _ _ _ => trivial

theorem aba_stepOK4 : StepOK abaS3 abaT3 abaT abaE4 {} abaT4 :=
  ⟨aba_payload4, aba_featOK4, trivial, aba_truth4, trivial, aba_jobText4⟩

/-! ## event 5: the completion -/

theorem aba_payload5 : PayloadOK abaS4 abaE5 := by
  refine ⟨trivial, ?_, ?_, trivial, trivial⟩
  · intro jn snap held hj
    exact (aba_job rfl hj).1
  · intro id hid
    have : id ∈ [0] := hid
    exact aba_lt2 this

theorem aba_truth5 : TruthStep abaS4 abaE5 abaT4 abaT4 :=
  ⟨fun _ _ _ _ _ _ => rfl, fun _ _ _ _ _ _ => rfl⟩

/-- the result handed to the completion is the truth at job start (the ghost is still `abaT`) on the streams
    the job was asked about -/
theorem aba_result5 : ResultOK abaS4 abaE5 abaT := by
  intro snap held hj id
  obtain ⟨_, rfl, _⟩ := aba_job rfl hj
  show id ∈ [0] ↔ id ∈ [0, 1] ∧ decide (id = 0) = true
  simp only [List.mem_cons, List.not_mem_nil, or_false, decide_eq_true_eq]
  omega

theorem aba_jobText5 : JobTextOK abaS4 abaE5 {} abaT4 abaT4 := fun _ _ _ _ => trivial

theorem aba_stepOK5 : StepOK abaS4 abaT4 abaT abaE5 {} abaT4 :=
  ⟨aba_payload5, trivial, trivial, aba_truth5, aba_result5, aba_jobText5⟩

/-! ## the run -/

/-- the job stays in flight through events 1–4, so the ghost stays the truth at its start -/
theorem aba_ghost1 : ghostNext abaS abaE1 abaT abaT = abaT := rfl
theorem aba_ghost2 : ghostNext abaS1 abaE2 abaT abaT = abaT := rfl
theorem aba_ghost3 : ghostNext abaS2 abaE3 abaT3 abaT = abaT := rfl
theorem aba_ghost4 : ghostNext abaS3 abaE4 abaT4 abaT = abaT := rfl

/-- the whole trace satisfies the hypotheses of `decided_correct_run` (in particular the reduced `JobTextOK`,
    which no longer mentions deletion and re-creation), so "decided ⇒ correct" holds at its end by the theorem -/
theorem aba_runOK : RunOK abaS abaT abaT abaH := by
  have e1 : (step abaS abaE1 {}).1 = abaS1 := by rw [aba_step1]
  have e2 : (step abaS1 abaE2 {}).1 = abaS2 := by rw [aba_step2]
  have e3 : (step abaS2 abaE3 {}).1 = abaS3 := by rw [aba_step3]
  have e4 : (step abaS3 abaE4 {}).1 = abaS4 := by rw [aba_step4]
  refine ⟨aba_stepOK1, ?_⟩
  rw [e1, aba_ghost1]
  refine ⟨aba_stepOK2, ?_⟩
  rw [e2, aba_ghost2]
  refine ⟨aba_stepOK3, ?_⟩
  rw [e3, aba_ghost3]
  refine ⟨aba_stepOK4, ?_⟩
  rw [e4, aba_ghost4]
  exact ⟨aba_stepOK5, trivial⟩

theorem aba_runSt : runSt abaS abaH = abaS5 := by
  show runSt (step abaS abaE1 {}).1 _ = _
  rw [aba_step1]
  show runSt (step abaS1 abaE2 {}).1 _ = _
  rw [aba_step2]
  show runSt (step abaS2 abaE3 {}).1 _ = _
  rw [aba_step3]
  show runSt (step abaS3 abaE4 {}).1 _ = _
  rw [aba_step4]
  show runSt (step abaS4 abaE5 {}).1 _ = _
  rw [aba_step5]
  rfl

theorem aba_runT : runT abaT abaH = abaT4 := rfl

/-- the ABA trace no longer publishes: after the completion tag/x (the NEW incarnation, gen 3) still has every
    stream pending and no recorded match -/
theorem aba_now_safe :
    ∃ t, sget (runSt abaS abaH).tags "tag/x" = some t ∧ t.mat = [] ∧ t.unc = [0, 1] ∧ t.gen = 3 := by
  rw [aba_runSt]
  exact ⟨abaX4, rfl, rfl, rfl, rfl⟩

/-- … and "decided ⇒ correct" holds in the final state (directly; `decided_correct_run` gives the same from
    `aba_good` and `aba_runOK`): mark/m decides both streams (exactly stream 1 matches), tag/x decides none -/
theorem aba_final_inv : C06.Inv (runSt abaS abaH) (runT abaT abaH) := by
  rw [aba_runSt, aba_runT]
  intro n t h id hid hnu
  have hid' : id < 2 := hid
  have h' : sget [("mark/m", abaM4), ("tag/x", abaX4)] n = some t := h
  rw [sget_cons] at h'
  split at h'
  · cases Option.some.inj h'
    show id ∈ [1] ↔ decide (id = 1) = true
    simp
  · rw [sget_cons] at h'
    split at h'
    · cases Option.some.inj h'
      exfalso; apply hnu
      show id ∈ [0, 1]
      simp only [List.mem_cons, List.not_mem_nil, or_false]
      omega
    · simp [sget] at h'

end Pk.Props.C06Reach
