/-
  MgrTruthCex3 — the added side condition `JobTextOK` (Pk/Props/C06ReachSpec.lean) cannot be dropped.

  Witness ("resurrection" of the definition text of the job's tag after a referenced tag was replaced): the
  state `cexS` of MgrTruthCex2 (mark/m = "id:0" matches exactly stream 0, tag/x = "tag:m" with
  mainT = [mark/m], mfeat = 0 has both streams pending and its job in flight), then
    1. `delTag tag/x`, 2. `delTag mark/m`, 3. `addTag mark/m "id:1"`, 4. `addTag tag/x "tag:m"`,
    5. `tagDone tag/x [0]` (the search result is the truth at job start).
  Every other contract holds for all five events (`Good` of the start state, `PayloadOK`, `ImportAddsNew`,
  `TruthStep`, `ResultOK`, `MarkRefOK`), the during-job masks stay empty, and the completion publishes the
  answer computed from the OLD mark/m: afterwards tag/x has `mat = [0]`, `unc = []` although tag/x now matches
  exactly stream 1.

  The two facts about `parseTagName` on the literal names (`String.splitOn` is defined by well-founded
  recursion and does not reduce in the kernel) are proved by unrolling `String.splitOnAux` with its equation
  lemma (`cex3_parse1`, `cex3_parse2`), so the theorem has no hypotheses.
-/
import Pk.Props.C06ReachSpec
import Pk.Proofs.MgrTruthCex2
namespace Pk.Props.C06Reach
open Pk.Mgr Pk.Props.MgrReach Pk.Proofs.MgrTruth Pk.Proofs.MgrTags

/-- `StepOK` without `JobTextOK` -/
structure StepOK'' (s : St) (T g : Truth) (e : Ev) (st : Started) (T' : Truth) : Prop where
  payload : PayloadOK s e
  addsNew : ImportAddsNew s e
  truth : TruthStep s e T T'
  result : ResultOK s e g
  markRef : MarkRefOK s e

/-- `RunOK` without `JobTextOK` -/
def RunOK'' (s : St) (T g : Truth) : Hist → Prop
  | [] => True
  | (e, st, T') :: rest => StepOK'' s T g e st T' ∧ RunOK'' (step s e st).1 T' (ghostNext s e T' g) rest

/-! ## the witness -/

/-- mark/m after tag/x was deleted -/
def cex3M1 : Tag :=
  { defn := "id:0", mainT := [], subT := [], mfeat := 1, sfeat := 0, isMarkDef := true, mat := [0], refBy := [] }
/-- the new mark/m -/
def cex3M3 : Tag :=
  { defn := "id:1", mainT := [], subT := [], mfeat := 1, sfeat := 0, isMarkDef := true, mat := [1], refBy := [] }
/-- the new mark/m, referenced by the new tag/x -/
def cex3M4 : Tag :=
  { defn := "id:1", mainT := [], subT := [], mfeat := 1, sfeat := 0, isMarkDef := true, mat := [1],
    refBy := ["tag/x"] }

/-- after `delTag tag/x` -/
def cex3S1 : St :=
  { tags := [("mark/m", cex3M1)], idx := [0], files := [(0, [0, 1])], used := [(0, 2)],
    next := 2, all := 2, nrec := 2, pcaps := ["a.pcap"], tag := true, jTag := some ("tag/x", cex2X, [0]) }
/-- after `delTag mark/m` -/
def cex3S2 : St :=
  { tags := [], idx := [0], files := [(0, [0, 1])], used := [(0, 2)],
    next := 2, all := 2, nrec := 2, pcaps := ["a.pcap"], tag := true, jTag := some ("tag/x", cex2X, [0]) }
/-- after `addTag mark/m "id:1"` -/
def cex3S3 : St :=
  { tags := [("mark/m", cex3M3)], idx := [0], files := [(0, [0, 1])], used := [(0, 2)],
    next := 2, all := 2, nrec := 2, pcaps := ["a.pcap"], tag := true, jTag := some ("tag/x", cex2X, [0]) }
/-- after `addTag tag/x "tag:m"`: the new tag/x is again the snapshot of the job in flight -/
def cex3S4 : St :=
  { tags := [("mark/m", cex3M4), ("tag/x", cex2X)], idx := [0], files := [(0, [0, 1])], used := [(0, 2)],
    next := 2, all := 2, nrec := 2, pcaps := ["a.pcap"], tag := true, jTag := some ("tag/x", cex2X, [0]) }
/-- after `tagDone tag/x [0]` -/
def cex3S5 : St :=
  { tags := [("mark/m", cex3M4), ("tag/x", cex2X2)], idx := [0], files := [(0, [0, 1])], used := [(0, 1)],
    next := 2, all := 2, nrec := 2, pcaps := ["a.pcap"], tag := false, jTag := none }

def cex3F3 : Facts := {err := false, main := [], sub := [], mfeat := 1, sfeat := 0, idsok := true, ids := [1]}
def cex3F4 : Facts :=
  {err := false, main := ["mark/m"], sub := [], mfeat := 0, sfeat := 0, idsok := false, ids := []}

def cex3E1 : Ev := .delTag "tag/x"
def cex3E2 : Ev := .delTag "mark/m"
def cex3E3 : Ev := .addTag "mark/m" "" "id:1" cex3F3
def cex3E4 : Ev := .addTag "tag/x" "" "tag:m" cex3F4
def cex3E5 : Ev := .tagDone "tag/x" [0]

/-- the truth after event 3: the new mark/m matches exactly stream 1 -/
def cex3T3 : Truth := fun n id => if n = "mark/m" then decide (id = 1) else decide (id = 0)
/-- the truth after event 4: the new tag/x = "tag:m" matches exactly stream 1, too -/
def cex3T4 : Truth := fun _ id => decide (id = 1)

/-- the history -/
def cex3H : Hist :=
  [(cex3E1, {}, cex2T), (cex3E2, {}, cex2T), (cex3E3, {}, cex3T3), (cex3E4, {}, cex3T4), (cex3E5, {}, cex3T4)]

/-! ## `parseTagName` on the two names -/

theorem cex3_split1 : "tag/x".splitOn "/" = ["tag", "x"] := by
  simp only [String.splitOn]
  rw [if_neg (by decide)]
  iterate 6 (rw [String.splitOnAux]; simp (decide := true) only [↓reduceIte])
theorem cex3_split2 : "mark/m".splitOn "/" = ["mark", "m"] := by
  simp only [String.splitOn]
  rw [if_neg (by decide)]
  iterate 7 (rw [String.splitOnAux]; simp (decide := true) only [↓reduceIte])
theorem cex3_parse1 : parseTagName "tag/x" = ("tag", "x", false) := by
  unfold parseTagName
  rw [cex3_split1]
  decide
theorem cex3_parse2 : parseTagName "mark/m" = ("mark", "m", true) := by
  unfold parseTagName
  rw [cex3_split2]
  decide

/-! ## the model's transitions -/

theorem cex3_step1 : step cexS cex3E1 {} = (cex3S1, .ok) := rfl
theorem cex3_step2 : step cex3S1 cex3E2 {} = (cex3S2, .ok) := rfl
theorem cex3_step3 : step cex3S2 cex3E3 {} = (cex3S3, .ok) := by
  unfold cex3E3
  rw [step_addTag_eq, cex3_parse2]
  rfl
theorem cex3_step4 : step cex3S3 cex3E4 {} = (cex3S4, .ok) := by
  unfold cex3E4
  rw [step_addTag_eq, cex3_parse1]
  rfl
theorem cex3_step5 : step cex3S4 cex3E5 {} = (cex3S5, .none) := rfl

/-! ## lookups -/

theorem cex3_job {s : St} (hs : s.jTag = some ("tag/x", cex2X, [0])) {jn : String} {snap : Tag} {held : List Nat}
    (h : s.jTag = some (jn, snap, held)) : jn = "tag/x" ∧ snap = cex2X ∧ held = [0] := by
  rw [hs] at h
  have : ("tag/x", cex2X, [0]) = (jn, snap, held) := Option.some.inj h
  cases this
  exact ⟨rfl, rfl, rfl⟩

theorem cex3_sget3 {n : String} {t : Tag} (h : sget cex3S3.tags n = some t) : n = "mark/m" ∧ t = cex3M3 := by
  have h' : sget [("mark/m", cex3M3)] n = some t := h
  rw [sget_cons] at h'
  split at h'
  · next hn => exact ⟨(by simpa using hn.symm), (Option.some.inj h').symm⟩
  · simp [sget] at h'

theorem cex3_lt2 {id : Nat} {l : List Nat} (h : id ∈ l) (hl : ∀ x ∈ l, x < 2 := by decide) : id < 2 := hl id h

/-! ## events 1 and 2: the two deletions -/

theorem cex3_payload1 : PayloadOK cexS cex3E1 := ⟨trivial, trivial, trivial, trivial, trivial⟩
theorem cex3_payload2 : PayloadOK cex3S1 cex3E2 := ⟨trivial, trivial, trivial, trivial, trivial⟩

theorem cex3_truth1 : TruthStep cexS cex3E1 cex2T cex2T := by
  refine ⟨fun h => ?_, fun _ => ?_⟩
  · rw [cex3_step1] at h; cases h
  · show ∀ n, n ≠ "tag/x" → SameAt cexS cex2T cex2T n
    intro n _ t _ id _; rfl

theorem cex3_truth2 : TruthStep cex3S1 cex3E2 cex2T cex2T := by
  refine ⟨fun h => ?_, fun _ => ?_⟩
  · rw [cex3_step2] at h; cases h
  · show ∀ n, n ≠ "mark/m" → SameAt cex3S1 cex2T cex2T n
    intro n _ t _ id _; rfl

theorem cex3_stepOK1 : StepOK'' cexS cex2T cex2T cex3E1 {} cex2T :=
  ⟨cex3_payload1, trivial, cex3_truth1, trivial, trivial⟩
theorem cex3_stepOK2 : StepOK'' cex3S1 cex2T cex2T cex3E2 {} cex2T :=
  ⟨cex3_payload2, trivial, cex3_truth2, trivial, trivial⟩

/-- the deletion of the job's tag is NOT what `JobTextOK` excludes (the text is gone afterwards) … -/
theorem cex3_jobText1 : JobTextOK cexS cex3E1 {} cex2T cex2T := by
  intro jn snap held hj
  obtain ⟨rfl, rfl, _⟩ := cex2_job hj
  intro _ hl
  rw [cex3_step1] at hl
  obtain ⟨ot, hot, _⟩ := hl
  have h' : sget [("mark/m", cex3M1)] "tag/x" = some ot := hot
  have hn : sget [("mark/m", cex3M1)] "tag/x" = none := rfl
  rw [hn] at h'; cases h'

/-! ## event 3: the new mark/m -/

theorem cex3_payload3 : PayloadOK cex3S2 cex3E3 := by
  refine ⟨trivial, trivial, ?_, trivial, ?_, ?_, ?_, ?_⟩
  · intro id hid
    have : id ∈ [1] := hid
    exact cex3_lt2 this
  · intro n snap held hj hd
    obtain ⟨_, rfl, _⟩ := cex3_job rfl hj
    exact absurd hd (by decide)
  · intro m t h
    have h' : sget ([] : List (String × Tag)) m = some t := h
    simp [sget] at h'
  · intro _; exact ⟨rfl, rfl⟩
  · show isMarkName "mark/m" = true ↔ _
    rw [cex3_parse2]
    exact ⟨fun _ => Or.inl rfl, fun _ => cex2_markName⟩

theorem cex3_truth3 : TruthStep cex3S2 cex3E3 cex2T cex3T3 := by
  refine ⟨fun h => ?_, fun _ => ?_⟩
  · rw [cex3_step3] at h; cases h
  · show (∀ n, n ≠ "mark/m" → SameAt cex3S2 cex2T cex3T3 n) ∧
      ((parseTagName "mark/m").2.2 = true → ∀ id, id < cex3S2.next → (cex3T3 "mark/m" id = true ↔ id ∈ cex3F3.ids))
    refine ⟨fun n hn t _ id _ => ?_, fun _ id _ => ?_⟩
    · show (if n = "mark/m" then decide (id = 1) else decide (id = 0)) = decide (id = 0)
      rw [if_neg hn]
    · show (if "mark/m" = "mark/m" then decide (id = 1) else decide (id = 0)) = true ↔ id ∈ [1]
      simp

theorem cex3_stepOK3 : StepOK'' cex3S2 cex2T cex2T cex3E3 {} cex3T3 :=
  ⟨cex3_payload3, trivial, cex3_truth3, trivial, trivial⟩

/-! ## event 4: the new tag/x carries the text of the job's snapshot again -/

theorem cex3_payload4 : PayloadOK cex3S3 cex3E4 := by
  refine ⟨trivial, trivial, ?_, trivial, ?_, ?_, ?_, ?_⟩
  · intro id hid; cases hid
  · intro n snap held hj _
    obtain ⟨_, rfl, _⟩ := cex3_job rfl hj
    exact ⟨rfl, rfl⟩
  · intro m t h hd
    obtain ⟨_, rfl⟩ := cex3_sget3 h
    exact absurd hd (by decide)
  · intro h; cases h
  · show isMarkName "tag/x" = true ↔ _
    rw [cex3_parse1, cex2_tagName]
    constructor
    · intro h; cases h
    · intro h
      rcases h with h | h <;> exact absurd h (by decide)

theorem cex3_truth4 : TruthStep cex3S3 cex3E4 cex3T3 cex3T4 := by
  refine ⟨fun h => ?_, fun _ => ?_⟩
  · rw [cex3_step4] at h; cases h
  · show (∀ n, n ≠ "tag/x" → SameAt cex3S3 cex3T3 cex3T4 n) ∧
      ((parseTagName "tag/x").2.2 = true → ∀ id, id < cex3S3.next → (cex3T4 "tag/x" id = true ↔ id ∈ cex3F4.ids))
    refine ⟨fun n _ t ht id _ => ?_, fun h => ?_⟩
    · obtain ⟨rfl, _⟩ := cex3_sget3 ht
      rfl
    · rw [cex3_parse1] at h; cases h

theorem cex3_stepOK4 : StepOK'' cex3S3 cex3T3 cex2T cex3E4 {} cex3T4 :=
  ⟨cex3_payload4, trivial, cex3_truth4, trivial, trivial⟩

/-- … the witness does violate the condition that is being dropped at event 4: the snapshot's text is back
    under the job's name although the tag did not carry it before -/
theorem cex3_not_jobTextOK : ¬ JobTextOK cex3S3 cex3E4 {} cex3T3 cex3T4 := by
  intro h
  have hl : Live (step cex3S3 cex3E4 {}).1 "tag/x" cex2X := by
    rw [cex3_step4]; exact ⟨cex2X, rfl, rfl⟩
  obtain ⟨⟨ot, hot, _⟩, _⟩ := h "tag/x" cex2X [0] rfl rfl hl
  obtain ⟨hn, _⟩ := cex3_sget3 hot
  exact absurd hn (by decide)

/-! ## event 5: the completion -/

theorem cex3_payload5 : PayloadOK cex3S4 cex3E5 := by
  refine ⟨trivial, ?_, ?_, trivial, trivial⟩
  · intro jn snap held hj
    exact (cex3_job rfl hj).1
  · intro id hid
    have : id ∈ [0] := hid
    exact cex3_lt2 this

theorem cex3_truth5 : TruthStep cex3S4 cex3E5 cex3T4 cex3T4 :=
  ⟨fun _ _ _ _ _ _ => rfl, fun _ _ _ _ _ _ => rfl⟩

theorem cex3_result5 : ResultOK cex3S4 cex3E5 cex2T := by
  intro snap held hj id
  obtain ⟨_, rfl, _⟩ := cex3_job rfl hj
  show id ∈ [0] ↔ id ∈ [0, 1] ∧ decide (id = 0) = true
  simp only [List.mem_cons, List.not_mem_nil, or_false, decide_eq_true_eq]
  omega

theorem cex3_stepOK5 : StepOK'' cex3S4 cex3T4 cex2T cex3E5 {} cex3T4 :=
  ⟨cex3_payload5, trivial, cex3_truth5, cex3_result5, trivial⟩

/-! ## the run -/

theorem cex3_ghost1 : ghostNext cexS cex3E1 cex2T cex2T = cex2T := rfl
theorem cex3_ghost2 : ghostNext cex3S1 cex3E2 cex2T cex2T = cex2T := rfl
theorem cex3_ghost3 : ghostNext cex3S2 cex3E3 cex3T3 cex2T = cex2T := rfl
theorem cex3_ghost4 : ghostNext cex3S3 cex3E4 cex3T4 cex2T = cex2T := rfl

theorem cex3_runOK : RunOK'' cexS cex2T cex2T cex3H := by
  have e1 : (step cexS cex3E1 {}).1 = cex3S1 := by rw [cex3_step1]
  have e2 : (step cex3S1 cex3E2 {}).1 = cex3S2 := by rw [cex3_step2]
  have e3 : (step cex3S2 cex3E3 {}).1 = cex3S3 := by rw [cex3_step3]
  have e4 : (step cex3S3 cex3E4 {}).1 = cex3S4 := by rw [cex3_step4]
  refine ⟨cex3_stepOK1, ?_⟩
  rw [e1, cex3_ghost1]
  refine ⟨cex3_stepOK2, ?_⟩
  rw [e2, cex3_ghost2]
  refine ⟨cex3_stepOK3, ?_⟩
  rw [e3, cex3_ghost3]
  refine ⟨cex3_stepOK4, ?_⟩
  rw [e4, cex3_ghost4]
  exact ⟨cex3_stepOK5, trivial⟩

theorem cex3_runSt : runSt cexS cex3H = cex3S5 := by
  show runSt (step cexS cex3E1 {}).1 _ = _
  rw [cex3_step1]
  show runSt (step cex3S1 cex3E2 {}).1 _ = _
  rw [cex3_step2]
  show runSt (step cex3S2 cex3E3 {}).1 _ = _
  rw [cex3_step3]
  show runSt (step cex3S3 cex3E4 {}).1 _ = _
  rw [cex3_step4]
  show runSt (step cex3S4 cex3E5 {}).1 _ = _
  rw [cex3_step5]
  rfl

theorem cex3_runT : runT cex2T cex3H = cex3T4 := rfl

/-- the final state decides stream 0 for tag/x wrongly -/
theorem cex3_not_inv : ¬ C06.Inv cex3S5 cex3T4 := by
  intro h
  have h1 : sget cex3S5.tags "tag/x" = some cex2X2 := rfl
  have h2 : (0 : Nat) < cex3S5.next := by decide
  have := (h "tag/x" cex2X2 h1 0 h2 (by intro h; cases h)).1 (List.mem_singleton.2 rfl)
  cases this

/-- without `JobTextOK` "decided ⇒ correct" is not preserved along histories: deleting the tag of the job in
    flight and a tag it references, and re-creating both (the referenced tag with another definition, the job's
    tag with the text of the snapshot) makes the completion publish the answers computed from the old
    referenced tag, with nothing pending -/
theorem jobTextOK_counterexample :
    ¬ (∀ (s : St) (T g : Truth) (h : Hist), Good s T g → RunOK'' s T g h → C06.Inv (runSt s h) (runT T h)) := by
  intro h
  have := h cexS cex2T cex2T cex3H cex2_good cex3_runOK
  rw [cex3_runSt, cex3_runT] at this
  exact cex3_not_inv this

end Pk.Props.C06Reach
