/-
  MgrTruthCex4 — the remaining added side condition `JobTextOK` (its `updQuery` clause,
  Pk/Props/C06ReachSpec.lean) cannot be dropped.

  The abstract truth is indexed by tag NAMES, not by definition texts: the frame contract `TruthStep` lets an
  accepted `updQuery` change the truth of the edited tag arbitrarily — also when the new text is the text the
  tag already has.  The completion of the tagging job in flight publishes iff the tag still carries the
  identity (`gen`) and the text of the snapshot, and the during-job mask `rst` (= all streams after an
  `updQuery`) is applied only to definitions that look at more than stream ids.

  Witness: tag/x = "id:0" (a NON-mark tag whose definition is an id list: `mfeat = 1`, `sfeat = 0`), both
  streams pending, its job in flight; truth = ghost = "stream 0".  Event 1: `updQuery tag/x "id:0"` (accepted;
  same identity, same text, `rst := [0,1]`), the truth becomes "nothing" (allowed by `TruthStep`).  Event 2:
  `tagDone tag/x [0]` (the result is the truth at job start).  Every other contract holds for both events
  (`Good`, `PayloadOK`, `EvFeatOK`, `ImportAddsNew`, `TruthStep`, `ResultOK`), but the completion publishes
  `mat = [0]`, `unc = []` (`rst` is not applied: `mfeat &&& 254 = 0`), although stream 0 does not match.
-/
import Pk.Props.C06ReachSpec
namespace Pk.Props.C06Reach
open Pk.Mgr Pk.Props.MgrReach Pk.Proofs.MgrTruth Pk.Proofs.MgrTags

/-- `StepOK` without `JobTextOK` -/
structure StepOK4 (s : St) (T g : Truth) (e : Ev) (st : Started) (T' : Truth) : Prop where
  payload : PayloadOK s e
  featOK : EvFeatOK e
  addsNew : ImportAddsNew s e
  truth : TruthStep s e T T'
  result : ResultOK s e g

/-! ## the witness -/

/-- tag/x while its job is in flight (also the job's snapshot, and the entry after event 1) -/
def cex4X : Tag :=
  { defn := "id:0", mainT := [], subT := [], mfeat := 1, sfeat := 0, mat := [], unc := [0, 1], gen := 0 }
/-- tag/x after the completion -/
def cex4X2 : Tag :=
  { defn := "id:0", mainT := [], subT := [], mfeat := 1, sfeat := 0, mat := [0], unc := [], gen := 0 }

/-- the start state -/
def cex4S : St :=
  { tags := [("tag/x", cex4X)], idx := [0], files := [(0, [0, 1])], used := [(0, 2)], next := 2, all := 2,
    nrec := 2, pcaps := ["a.pcap"], ngen := 1, tag := true, jTag := some ("tag/x", cex4X, [0]) }
/-- after `updQuery tag/x "id:0"` -/
def cex4S1 : St :=
  { tags := [("tag/x", cex4X)], idx := [0], files := [(0, [0, 1])], used := [(0, 2)], next := 2, all := 2,
    nrec := 2, pcaps := ["a.pcap"], ngen := 1, tag := true, rst := [0, 1],
    jTag := some ("tag/x", cex4X, [0]) }
/-- after `tagDone tag/x [0]` -/
def cex4S2 : St :=
  { tags := [("tag/x", cex4X2)], idx := [0], files := [(0, [0, 1])], used := [(0, 1)], next := 2, all := 2,
    nrec := 2, pcaps := ["a.pcap"], ngen := 1, tag := false, rst := [0, 1], jTag := none }

/-- the parser facts of "id:0" -/
def cex4F : Facts := { err := false, main := [], sub := [], mfeat := 1, sfeat := 0, idsok := true, ids := [0] }

def cex4E1 : Ev := .updQuery "tag/x" "id:0" cex4F
def cex4E2 : Ev := .tagDone "tag/x" [0]

/-- the truth before event 1 (and the ghost: the truth when the job for tag/x started): stream 0 -/
def cex4T : Truth := fun _ id => decide (id = 0)
/-- the truth after event 1: nothing matches -/
def cex4T1 : Truth := fun _ _ => false

theorem cex4_tagName : isMarkName "tag/x" = false := by simp [isMarkName]

/-- the model's transition for event 1 -/
theorem cex4_step1 : step cex4S cex4E1 {} = (cex4S1, .ok) := by
  unfold cex4E1
  rw [step_updQuery_eq]
  have hg : ("tag/x".startsWith "mark/" || "tag/x".startsWith "generated/") = false := by simp
  rw [hg]
  rfl

/-- the model's transition for event 2 -/
theorem cex4_step2 : step cex4S1 cex4E2 {} = (cex4S2, .none) := rfl

/-! ## lookups in the literal tables -/

theorem cex4_sget {n : String} {t : Tag} (h : sget cex4S.tags n = some t) : n = "tag/x" ∧ t = cex4X := by
  have h' : sget [("tag/x", cex4X)] n = some t := h
  rw [sget_cons] at h'
  split at h'
  · next hn => exact ⟨(by simpa using hn.symm), (Option.some.inj h').symm⟩
  · simp [sget] at h'

theorem cex4_mem {nt : String × Tag} (h : nt ∈ cex4S.tags) : nt = ("tag/x", cex4X) := by
  have h' : nt ∈ [("tag/x", cex4X)] := h
  simpa using h'

theorem cex4_sget1 {n : String} {t : Tag} (h : sget cex4S1.tags n = some t) : n = "tag/x" ∧ t = cex4X :=
  cex4_sget (n := n) (t := t) h

theorem cex4_job {jn : String} {snap : Tag} {held : List Nat} (h : cex4S.jTag = some (jn, snap, held)) :
    jn = "tag/x" ∧ snap = cex4X ∧ held = [0] := by
  have : ("tag/x", cex4X, [0]) = (jn, snap, held) := Option.some.inj h
  cases this
  exact ⟨rfl, rfl, rfl⟩

theorem cex4_job1 {jn : String} {snap : Tag} {held : List Nat} (h : cex4S1.jTag = some (jn, snap, held)) :
    jn = "tag/x" ∧ snap = cex4X ∧ held = [0] := by
  have : ("tag/x", cex4X, [0]) = (jn, snap, held) := Option.some.inj h
  cases this
  exact ⟨rfl, rfl, rfl⟩

/-! ## the start state satisfies all invariants -/

theorem cex4_refsX : cex4X.refs = [] := rfl
theorem cex4_sgetX : sget cex4S.tags "tag/x" = some cex4X := rfl

theorem cex4_unc {id : Nat} (h : id ∈ cex4X.unc) : id < 2 := by
  have : id ∈ [0, 1] := h
  simp only [List.mem_cons, List.not_mem_nil, or_false] at this
  omega

theorem cex4_unc' {id : Nat} (h : id < 2) : id ∈ cex4X.unc := by
  show id ∈ [0, 1]
  simp only [List.mem_cons, List.not_mem_nil, or_false]
  omega

theorem cex4_reach : Reach cex4S := by
  refine ⟨?_, ?_, ?_, ?_, ?_, ?_, ?_, ?_, ?_, ?_, ?_, ?_, ?_, ?_, ?_, ?_⟩
  · show List.Pairwise (· < ·) ["tag/x"]
    simp
  · simp [C09.JobsWF, cex4S]
  · refine ⟨fun f => ?_, fun f => ?_, fun f => ?_, ?_, ?_, ?_, ?_, ?_⟩
    · by_cases hf : f = 0
      · subst hf; rfl
      · have h0 : (0 == f) = false := by simpa using fun h => hf h.symm
        simp [C13.holders, C13.viewHeld, C13.jobHeld, cex4S, nget, h0, List.count_cons]
    · by_cases hf : f = 0
      · subst hf; simp [cex4S, nget]
      · have h0 : (0 == f) = false := by simpa using fun h => hf h.symm
        simp [cex4S, nget, h0]
    · by_cases hf : f = 0
      · subst hf; rfl
      · have h0 : (0 == f) = false := by simpa using fun h => hf h.symm
        simp [cex4S, nget, h0]
    · simp [cex4S]
    · simp [cex4S]
    · simp [cex4S]
    · simp [cex4S]
    · simp [cex4S]
  · intro jn held h; cases h
  · intro id hid
    refine ⟨0, List.mem_singleton.2 rfl, ?_⟩
    have hid' : id < 2 := hid
    show id ∈ [0, 1]
    simp only [List.mem_cons, List.not_mem_nil, or_false]
    omega
  · exact Nat.le_refl _
  · exact Nat.le_refl _
  · intro n t h id hid
    show id < 2
    obtain ⟨_, rfl⟩ := cex4_sget h
    exact cex4_unc hid
  · refine ⟨?_, fun _ h => (by cases h), fun _ h => (by cases h), fun _ h => (by cases h),
      fun _ h => (by cases h), fun _ _ h => (by cases h)⟩
    intro n snap held h id hid
    obtain ⟨_, rfl, _⟩ := cex4_job h
    show id < 2
    exact cex4_unc hid
  · refine ⟨fun nt h id hid => ?_, fun n snap held h id hid => ?_⟩
    · rcases cex4_mem h with rfl
      cases hid
    · obtain ⟨_, rfl, _⟩ := cex4_job h
      cases hid
  · intro n t h c hc
    obtain ⟨_, rfl⟩ := cex4_sget h
    cases hc
  · intro n t h c hc
    obtain ⟨_, rfl⟩ := cex4_sget h
    cases hc
  · refine ⟨?_, ?_, ?_, ?_, ?_⟩
    · intro n snap held ot hj hot _
      obtain ⟨rfl, rfl, _⟩ := cex4_job hj
      obtain ⟨_, rfl⟩ := cex4_sget hot
      exact ⟨rfl, rfl⟩
    · intro n t h hm
      obtain ⟨rfl, _⟩ := cex4_sget h
      rw [cex4_tagName] at hm; cases hm
    · intro n1 t1 n2 t2 h1 h2 _ _ _
      obtain ⟨_, rfl⟩ := cex4_sget h1
      obtain ⟨_, rfl⟩ := cex4_sget h2
      exact ⟨rfl, rfl⟩
    · intro n snap held hj hm
      obtain ⟨rfl, _, _⟩ := cex4_job hj
      rw [cex4_tagName] at hm; cases hm
    · intro n snap held hj _ m ot hot _ _
      obtain ⟨_, rfl, _⟩ := cex4_job hj
      obtain ⟨_, rfl⟩ := cex4_sget hot
      exact ⟨rfl, rfl⟩
  · intro nt h r hr tr htr
    rcases cex4_mem h with rfl
    rw [cex4_refsX] at hr; cases hr
  · intro nt h r hr
    rcases cex4_mem h with rfl
    rw [cex4_refsX] at hr; cases hr
  · exact ⟨fun _ => rfl, fun c hc => (by cases hc)⟩

theorem cex4_acyclic : C09.Acyclic cex4S := rfl

theorem cex4_gens : GenInv cex4S := by
  refine ⟨?_, ?_, ?_⟩
  · intro n t h
    obtain ⟨_, rfl⟩ := cex4_sget h
    show 0 < 1
    omega
  · intro jn snap held hj
    obtain ⟨_, rfl, _⟩ := cex4_job hj
    show 0 < 1
    omega
  · intro n1 t1 n2 t2 h1 h2 _
    obtain ⟨rfl, _⟩ := cex4_sget h1
    obtain ⟨rfl, _⟩ := cex4_sget h2
    rfl

theorem cex4_tagFeatX : TagFeat cex4X := ⟨fun h => absurd rfl h, fun h => absurd rfl h⟩

theorem cex4_feats : TagFeatInv cex4S := by
  refine ⟨?_, ?_⟩
  · intro n t h
    obtain ⟨_, rfl⟩ := cex4_sget h
    exact cex4_tagFeatX
  · intro jn snap held hj
    obtain ⟨_, rfl, _⟩ := cex4_job hj
    exact cex4_tagFeatX

theorem cex4_inv : C06.Inv cex4S cex4T := by
  intro n t h id hid hnu
  have hid' : id < 2 := hid
  obtain ⟨_, rfl⟩ := cex4_sget h
  exact absurd (cex4_unc' hid') hnu

theorem cex4_jobInv : JobInv cex4S cex4T cex4T := by
  intro jn snap held n ot hj hot _ _
  obtain ⟨rfl, rfl, _⟩ := cex4_job hj
  obtain ⟨rfl, rfl⟩ := cex4_sget hot
  refine Or.inr ⟨rfl, fun id hid hne => ?_⟩
  exfalso; apply hne
  have hid' : id < 2 := hid
  simp only [Ans, cex4_unc' hid', if_true]

theorem cex4_good : Good cex4S cex4T cex4T :=
  ⟨cex4_reach, cex4_acyclic, cex4_gens, cex4_feats, cex4_inv, cex4_jobInv⟩

/-! ## event 1: `updQuery tag/x "id:0"` satisfies every contract but `JobTextOK` -/

theorem cex4_payload1 : PayloadOK cex4S cex4E1 := by
  refine ⟨trivial, trivial, trivial, trivial, ?_, ?_, ?_⟩
  · intro n snap held hj _
    obtain ⟨_, rfl, _⟩ := cex4_job hj
    exact ⟨rfl, rfl⟩
  · intro m t h _
    obtain ⟨_, rfl⟩ := cex4_sget h
    exact ⟨rfl, rfl⟩
  · intro _
    exact ⟨rfl, rfl⟩

theorem cex4_featOK1 : EvFeatOK cex4E1 := ⟨fun h => absurd rfl h, fun h => absurd rfl h⟩

theorem cex4_truth1 : TruthStep cex4S cex4E1 cex4T cex4T1 := by
  refine ⟨fun h => ?_, fun _ => ?_⟩
  · rw [cex4_step1] at h; cases h
  · show ChangesIn cex4S cex4S.next (fun n _ => n = "tag/x") cex4T cex4T1
    intro n t ht id _ _
    obtain ⟨rfl, _⟩ := cex4_sget ht
    exact Dep.base rfl

theorem cex4_stepOK1 : StepOK4 cex4S cex4T cex4T cex4E1 {} cex4T1 :=
  ⟨cex4_payload1, cex4_featOK1, trivial, cex4_truth1, trivial⟩

/-- the witness does violate the condition that is being dropped -/
theorem cex4_not_jobTextOK : ¬ JobTextOK cex4S cex4E1 {} cex4T cex4T1 := by
  intro h
  have h1 : (step cex4S cex4E1 {}).2 = Res.ok := by rw [cex4_step1]
  have := h "tag/x" cex4X [0] rfl cex4X cex4_sgetX rfl rfl h1
  rcases this with h2 | h2
  · exact h2 (by decide)
  · exact h2 rfl

/-! ## event 2: `tagDone tag/x [0]` satisfies every contract -/

theorem cex4_ghost : ghostNext cex4S cex4E1 cex4T1 cex4T = cex4T := rfl

theorem cex4_payload2 : PayloadOK cex4S1 cex4E2 := by
  refine ⟨trivial, ?_, ?_, trivial, trivial⟩
  · intro jn snap held hj
    exact (cex4_job1 hj).1
  · intro id hid
    show id < 2
    have : id ∈ [0] := hid
    simp only [List.mem_cons, List.not_mem_nil, or_false] at this
    omega

theorem cex4_truth2 : TruthStep cex4S1 cex4E2 cex4T1 cex4T1 :=
  ⟨fun _ _ _ _ _ _ => rfl, fun _ _ _ _ _ _ => rfl⟩

theorem cex4_result2 : ResultOK cex4S1 cex4E2 cex4T := by
  intro snap held hj id
  obtain ⟨_, rfl, _⟩ := cex4_job1 hj
  show id ∈ [0] ↔ id ∈ [0, 1] ∧ decide (id = 0) = true
  simp only [List.mem_cons, List.not_mem_nil, or_false, decide_eq_true_eq]
  omega

theorem cex4_stepOK2 : StepOK4 cex4S1 cex4T1 cex4T cex4E2 {} cex4T1 :=
  ⟨cex4_payload2, trivial, trivial, cex4_truth2, cex4_result2⟩

/-! ## the final state decides stream 0 for tag/x wrongly -/

theorem cex4_not_inv : ¬ C06.Inv cex4S2 cex4T1 := by
  intro h
  have h1 : sget cex4S2.tags "tag/x" = some cex4X2 := rfl
  have h2 : (0 : Nat) < cex4S2.next := by decide
  have := (h "tag/x" cex4X2 h1 0 h2 (by intro h; cases h)).1 (List.mem_singleton.2 rfl)
  cases this

/-- without `JobTextOK` "decided ⇒ correct" is not preserved: an `updQuery` that puts the snapshot's text back
    on the tag of the job in flight may (abstractly) change the tag's truth, while the completion still
    publishes and `rst` is not applied to a definition that looks at ids only -/
theorem jobTextOK_counterexample :
    ¬ (∀ (s : St) (T g : Truth) (e1 : Ev) (st1 : Started) (T1 : Truth) (e2 : Ev) (st2 : Started) (T2 : Truth),
        Good s T g → StepOK4 s T g e1 st1 T1 →
        StepOK4 (step s e1 st1).1 T1 (ghostNext s e1 T1 g) e2 st2 T2 →
        C06.Inv (step (step s e1 st1).1 e2 st2).1 T2) := by
  intro h
  have e1 : (step cex4S cex4E1 {}).1 = cex4S1 := by rw [cex4_step1]
  have e2 : (step cex4S1 cex4E2 {}).1 = cex4S2 := by rw [cex4_step2]
  have h2 : StepOK4 (step cex4S cex4E1 {}).1 cex4T1 (ghostNext cex4S cex4E1 cex4T1 cex4T) cex4E2 {} cex4T1 := by
    rw [e1, cex4_ghost]; exact cex4_stepOK2
  have := h cex4S cex4T cex4T cex4E1 {} cex4T1 cex4E2 {} cex4T1 cex4_good cex4_stepOK1 h2
  rw [e1, e2] at this
  exact cex4_not_inv this

end Pk.Props.C06Reach
