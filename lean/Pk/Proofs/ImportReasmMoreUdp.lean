/-
  Helper lemmas and run-level theorems about the reference reassembler (`Pk.Import.reasm`) on a wire that
  holds ONE UDP flow.

    (U1) `reasm_udp_flow`          one flow within one inactivity window: one stream (never complete) that
                                   holds every datagram, each attributed to its direction, and one data
                                   chunk per datagram with payload;
    (U2) `reasm_udp_flow_timeout`  arbitrary timestamps: the datagrams are cut into runs (`udpRuns`: a new
                                   run starts at every datagram that is more than the inactivity timeout
                                   younger than its PREDECESSOR - the flow table stores the timestamp of the
                                   last datagram, not the maximum); every run becomes its own stream, in
                                   order; all runs but the last are complete (closed by the flush that
                                   precedes the lookup of the first datagram of the next run); the client
                                   of the stream of a run is the sender of the run's first datagram, so the
                                   roles flip when the server speaks first after a silence
                                   (`runEndpoints_s2c`, non-vacuity example at the end);
                                   `udpRuns_spec` characterises the cut, `reasm_udp_flow_timeout_size` /
                                   `reasm_udp_flow_timeout_stream` are the indexed form;
    (U3) `udpStream_pkts`, `udpStream_data`, `udpStream_bytes`, `udpStream_dirBytes`: what such a stream
         holds, in total and per direction.

  Note for proofs about `udpFlush` on a literal connection list: never let the kernel unfold
  `udpFlush ts [c] ss` (it would evaluate `Nat.decLt (la + 300000000) ts`); `udpPacket_flushed` takes the
  result of the flush as a hypothesis instead.
-/
import Pk.Proofs.ImportReasmConv5
import Pk.Props.C05

namespace Pk.Proofs.ImportReasm
open Pk.Import

/-! ### vocabulary -/

/-- UDP datagram from the flow's client endpoint to its server endpoint -/
def isUdpC2S (e : Endpoints) (p : Pkt) : Prop :=
  p.udp = true ∧ p.src = e.cip ∧ p.dst = e.sip ∧ p.sport = e.cport ∧ p.dport = e.sport
/-- UDP datagram from the flow's server endpoint to its client endpoint -/
def isUdpS2C (e : Endpoints) (p : Pkt) : Prop :=
  p.udp = true ∧ p.src = e.sip ∧ p.dst = e.cip ∧ p.sport = e.sport ∧ p.dport = e.cport

instance (e : Endpoints) (p : Pkt) : Decidable (isUdpC2S e p) := by unfold isUdpC2S; infer_instance
instance (e : Endpoints) (p : Pkt) : Decidable (isUdpS2C e p) := by unfold isUdpS2C; infer_instance

/-- direction of a datagram of the flow: `true` = server → client -/
def udir (e : Endpoints) (p : Pkt) : Bool := decide (isUdpS2C e p)

/-- the data chunks of a UDP stream: one chunk per datagram with payload, attributed to it -/
def udpChunks : Nat → List Pkt → List (Nat × Bytes)
  | _, [] => []
  | n, p :: rest => if p.payload.length = 0 then udpChunks (n + 1) rest else (n, p.payload) :: udpChunks (n + 1) rest

/-- the stream of the datagrams `ps` of the flow `e` -/
def udpStream (e : Endpoints) (ps : List Pkt) (complete : Bool) : Stream :=
  { caddr := e.cip, saddr := e.sip, cport := e.cport, sport := e.sport, udp := true,
    pktsRev := (ps.map (fun p => (p.ref, udir e p))).reverse, npkts := ps.length,
    dataRev := (udpChunks 0 ps).reverse, complete := complete }

/-- cut the datagrams of one flow into runs: a new run starts at every datagram that is more than the
    inactivity timeout younger than its predecessor (`prev.ts + timeout < p.ts`).  Non-empty runs, in
    order; their concatenation is the input (`udpRuns_spec`). -/
def udpRuns : List Pkt → List (List Pkt)
  | [] => []
  | [p] => [[p]]
  | p :: q :: rest =>
    if p.ts + timeout < q.ts then [p] :: udpRuns (q :: rest)
    else match udpRuns (q :: rest) with
      | [] => [[p]]
      | r :: rs => (p :: r) :: rs

/-- the endpoints of a run as the reassembler sees them: the sender of its first datagram is the client -/
def runEndpoints (p : Pkt) : Endpoints := ⟨p.src, p.dst, p.sport, p.dport⟩

/-- the stream of one run (runs are never empty; the first case is a dummy) -/
def runStream (c : Bool) : List Pkt → Stream
  | [] => udpStream ⟨"", "", 0, 0⟩ [] c
  | q :: r => udpStream (runEndpoints q) (q :: r) c

/-- the streams of the runs, in order: complete unless it is the last run -/
def runStreams : List (List Pkt) → List Stream
  | [] => []
  | [r] => [runStream false r]
  | r :: r' :: rs => runStream true r :: runStreams (r' :: rs)

/-- datagram of the flow `e`, either direction -/
def inUdpFlow (e : Endpoints) (p : Pkt) : Prop := isUdpC2S e p ∨ isUdpS2C e p

theorem udp_list_modify_last {α} (done : List α) (s : α) (f : α → α) :
    (done ++ [s]).modify done.length f = done ++ [f s] := by
  induction done with
  | nil => rfl
  | cons a l ih => simp [ih]

theorem udir_c2s {e : Endpoints} (hd : e.Distinct) {p : Pkt} (h : isUdpC2S e p) : udir e p = false := by
  obtain ⟨_, h1, h2, h3, h4⟩ := h
  unfold udir
  rw [decide_eq_false_iff_not]
  rintro ⟨_, g1, g2, g3, g4⟩
  exact hd ⟨by rw [← h1, g1], by rw [← h3, g3]⟩

theorem udir_s2c {e : Endpoints} {p : Pkt} (h : isUdpS2C e p) : udir e p = true := by
  unfold udir; exact decide_eq_true h

theorem udpMatch_udpStream (e : Endpoints) (hd : e.Distinct) (ps : List Pkt) (c : Bool) (p : Pkt)
    (hp : inUdpFlow e p) : udpMatch (udpStream e ps c) p = some (udir e p) := by
  have ho := Pk.Props.C05.udp_flow_table_orientation (udpStream e ps c) p hd
  rcases hp with h | h
  · rw [udir_c2s hd h]
    obtain ⟨_, h1, h2, h3, h4⟩ := h
    exact ho.1 ⟨h1.symm, h3.symm, h2.symm, h4.symm⟩
  · rw [udir_s2c h]
    obtain ⟨_, h1, h2, h3, h4⟩ := h
    exact ho.2 ⟨h2.symm, h4.symm, h1.symm, h3.symm⟩

theorem udpChunks_snoc (a : List Pkt) (p : Pkt) : ∀ n, udpChunks n (a ++ [p]) =
    udpChunks n a ++ (if p.payload.length = 0 then [] else [(n + a.length, p.payload)]) := by
  induction a with
  | nil => intro n; simp [udpChunks]
  | cons q a ih =>
    intro n
    simp only [List.cons_append, udpChunks, ih (n + 1), List.length_cons]
    have : n + 1 + a.length = n + (a.length + 1) := by omega
    rw [this]
    split <;> simp

theorem udpStream_snoc (e : Endpoints) (cur : List Pkt) (c : Bool) (p : Pkt) :
    (if p.payload.length = 0 then (udpStream e cur c).addPkt p.ref (udir e p)
      else ((udpStream e cur c).addPkt p.ref (udir e p)).addData p.ref p.payload) = udpStream e (cur ++ [p]) c := by
  split
  · rename_i h
    simp [udpStream, Stream.addPkt, udpChunks_snoc, h]
  · rename_i h
    simp [udpStream, Stream.addPkt, Stream.addData, findPktIdx, udpChunks_snoc, h]


theorem udpFlush_keep (ts : Nat) (c : UdpConn) (ss : Array Stream) (h : ¬ (c.lastActivity + timeout < ts)) :
    udpFlush ts [c] ss = ([c], ss) := by
  rw [udpFlush, if_neg h, udpFlush]

theorem udpFlush_close (ts : Nat) (c : UdpConn) (ss : Array Stream) (h : c.lastActivity + timeout < ts) :
    udpFlush ts [c] ss = ([], ss.modify c.stream (fun s => { s with complete := true })) := by
  rw [udpFlush, if_pos h, udpFlush]


/-- `udpPacket` after the flush -/
def udpCore (r : RState) (p : Pkt) : RState :=
  match udpLookup r.streams p r.udp 0 with
  | some (i, dir) =>
    match r.udp[i]? with
    | none => r
    | some c =>
      let st := (r.streams[c.stream]!).addPkt p.ref dir
      let st := if p.payload.length = 0 then st else st.addData p.ref p.payload
      { r with streams := r.streams.set! c.stream st, udp := r.udp.set i { c with lastActivity := p.ts } }
  | none =>
    let s : Stream := { caddr := p.src, saddr := p.dst, cport := p.sport, sport := p.dport, udp := true }
    let st := s.addPkt p.ref false
    let st := if p.payload.length = 0 then st else st.addData p.ref p.payload
    { r with streams := r.streams.push st, udp := r.udp ++ [{ lastActivity := p.ts, stream := r.streams.size }] }

theorem udpPacket_flushed (r : RState) (p : Pkt) (conns : List UdpConn) (ss : Array Stream)
    (h : udpFlush p.ts r.udp r.streams = (conns, ss)) :
    udpPacket r p = udpCore { r with udp := conns, streams := ss } p := by
  unfold udpPacket
  rw [h]
  rfl

theorem reasmPacket_cont (e : Endpoints) (hd : e.Distinct) (done : List Stream) (cur : List Pkt) (la : Nat) (u : Bool)
    (p : Pkt) (hp : inUdpFlow e p) (hng : ¬ (la + timeout < p.ts)) :
    reasmPacket { streams := (done ++ [udpStream e cur false]).toArray, tcp := [], udp := [⟨la, done.length⟩], unmodelled := u } p
    = { streams := (done ++ [udpStream e (cur ++ [p]) false]).toArray, tcp := [], udp := [⟨p.ts, done.length⟩], unmodelled := u } := by
  have hu : p.udp = true := by rcases hp with h | h <;> exact h.1
  unfold reasmPacket 
  rw [if_pos hu]
  rw [udpPacket_flushed _ p _ _ (udpFlush_keep p.ts ⟨la, done.length⟩ _ hng)]
  have hm := udpMatch_udpStream e hd cur false p hp
  have hget : (done ++ [udpStream e cur false]).toArray[done.length]! = udpStream e cur false := by simp
  simp only [udpCore, udpLookup, hget, hm, List.getElem?_cons_zero, udpStream_snoc, List.set_cons_zero]
  simp


theorem isUdpC2S_runEndpoints {p : Pkt} (hu : p.udp = true) : isUdpC2S (runEndpoints p) p :=
  ⟨hu, rfl, rfl, rfl, rfl⟩

theorem udpStream_single (p : Pkt) (hu : p.udp = true) (hd : (runEndpoints p).Distinct) :
    (if p.payload.length = 0 then
      ({ caddr := p.src, saddr := p.dst, cport := p.sport, sport := p.dport, udp := true } : Stream).addPkt p.ref false
     else (({ caddr := p.src, saddr := p.dst, cport := p.sport, sport := p.dport, udp := true } : Stream).addPkt p.ref false).addData
        p.ref p.payload) = udpStream (runEndpoints p) [p] false := by
  have := udpStream_snoc (runEndpoints p) [] false p
  rw [udir_c2s hd (isUdpC2S_runEndpoints hu)] at this
  exact this

theorem reasmPacket_gap (e : Endpoints) (done : List Stream) (cur : List Pkt) (la : Nat) (u : Bool)
    (p : Pkt) (hu : p.udp = true) (hd : (runEndpoints p).Distinct) (hg : la + timeout < p.ts) :
    reasmPacket { streams := (done ++ [udpStream e cur false]).toArray, tcp := [], udp := [⟨la, done.length⟩], unmodelled := u } p
    = { streams := ((done ++ [udpStream e cur true]) ++ [udpStream (runEndpoints p) [p] false]).toArray, tcp := [],
        udp := [⟨p.ts, (done ++ [udpStream e cur true]).length⟩], unmodelled := u } := by
  unfold reasmPacket
  rw [if_pos hu]
  rw [udpPacket_flushed _ p _ _ (udpFlush_close p.ts ⟨la, done.length⟩ _ hg)]
  simp only [udpCore, udpLookup, udpStream_single p hu hd]
  simp [udp_list_modify_last, udpStream]


/-! ### runs -/

/-- no two neighbours are further apart than the inactivity timeout -/
def udpNoGap : List Pkt → Prop
  | [] => True
  | [_] => True
  | p :: q :: r => ¬ (p.ts + timeout < q.ts) ∧ udpNoGap (q :: r)

/-- timestamp of the last datagram of `q :: tl` -/
def udpLastTs (q : Pkt) : List Pkt → Nat
  | [] => q.ts
  | p :: r => udpLastTs p r

theorem udpLastTs_snoc (p : Pkt) : ∀ (q : Pkt) (tl : List Pkt), udpLastTs q (tl ++ [p]) = p.ts := by
  intro q tl
  induction tl generalizing q with
  | nil => rfl
  | cons a tl ih => exact ih a

theorem udpNoGap_snoc (p : Pkt) : ∀ (q : Pkt) (tl : List Pkt), udpNoGap (q :: tl) → ¬ (udpLastTs q tl + timeout < p.ts) →
    udpNoGap (q :: (tl ++ [p])) := by
  intro q tl
  induction tl generalizing q with
  | nil => intro _ h; exact ⟨h, trivial⟩
  | cons a tl ih => intro h1 h2; exact ⟨h1.1, ih a h1.2 h2⟩

theorem udpRuns_ne_nil (p : Pkt) (ps : List Pkt) : udpRuns (p :: ps) ≠ [] := by
  cases ps with
  | nil => simp [udpRuns]
  | cons q r =>
    rw [udpRuns]
    split
    · simp
    · split <;> simp

theorem udpRuns_noGap : ∀ (q : Pkt) (tl : List Pkt), udpNoGap (q :: tl) → udpRuns (q :: tl) = [q :: tl] := by
  intro q tl
  induction tl generalizing q with
  | nil => intro _; rfl
  | cons a tl ih =>
    intro h
    rw [udpRuns, if_neg h.1, ih a h.2]

theorem udpRuns_gap (p : Pkt) (ps : List Pkt) : ∀ (q : Pkt) (tl : List Pkt), udpNoGap (q :: tl) →
    udpLastTs q tl + timeout < p.ts → udpRuns (q :: tl ++ p :: ps) = (q :: tl) :: udpRuns (p :: ps) := by
  intro q tl
  induction tl generalizing q with
  | nil =>
    intro _ h
    simp only [udpLastTs] at h
    simp only [List.cons_append, List.nil_append]
    rw [udpRuns, if_pos h]
  | cons a tl ih =>
    intro h1 h2
    have := ih a h1.2 h2
    simp only [List.cons_append] at this ⊢
    rw [udpRuns, if_neg h1.1, this]


theorem inUdpFlow_udp {e : Endpoints} {p : Pkt} (h : inUdpFlow e p) : p.udp = true := by
  rcases h with h | h <;> exact h.1

/-- the endpoints of a run are the flow's endpoints, possibly with the roles exchanged -/
theorem inUdpFlow_runEndpoints {e : Endpoints} (hd : e.Distinct) {p : Pkt} (hp : inUdpFlow e p) :
    (runEndpoints p).Distinct ∧ ∀ q, inUdpFlow e q → inUdpFlow (runEndpoints p) q := by
  rcases hp with ⟨_, h1, h2, h3, h4⟩ | ⟨_, h1, h2, h3, h4⟩
  · have : runEndpoints p = e := by cases e; simp_all [runEndpoints]
    rw [this]; exact ⟨hd, fun q h => h⟩
  · have : runEndpoints p = ⟨e.sip, e.cip, e.sport, e.cport⟩ := by simp_all [runEndpoints]
    rw [this]
    refine ⟨fun h => hd ⟨h.1.symm, h.2.symm⟩, ?_⟩
    rintro q (⟨a, b, c, d, f⟩ | ⟨a, b, c, d, f⟩)
    · exact Or.inr ⟨a, b, c, d, f⟩
    · exact Or.inl ⟨a, b, c, d, f⟩

theorem reasm_runs_aux (ps : List Pkt) : ∀ (done : List Stream) (q : Pkt) (tl : List Pkt) (u : Bool),
    (runEndpoints q).Distinct → (∀ p ∈ ps, inUdpFlow (runEndpoints q) p) → udpNoGap (q :: tl) →
    (ps.foldl reasmPacket
      { streams := (done ++ [udpStream (runEndpoints q) (q :: tl) false]).toArray, tcp := [],
        udp := [⟨udpLastTs q tl, done.length⟩], unmodelled := u }).streams.toList
      = done ++ runStreams (udpRuns (q :: tl ++ ps)) := by
  induction ps with
  | nil =>
    intro done q tl u _ _ hng
    simp only [List.foldl_nil, List.append_nil, udpRuns_noGap q tl hng, runStreams, runStream]
  | cons p ps ih =>
    intro done q tl u hd hps hng
    have hp := hps p (List.mem_cons_self ..)
    have hps' : ∀ x ∈ ps, inUdpFlow (runEndpoints q) x := fun x hx => hps x (List.mem_cons_of_mem _ hx)
    rw [List.foldl_cons]
    by_cases hg : udpLastTs q tl + timeout < p.ts
    · rw [reasmPacket_gap _ done (q :: tl) _ u p (inUdpFlow_udp hp) (inUdpFlow_runEndpoints hd hp).1 hg]
      have := ih (done ++ [udpStream (runEndpoints q) (q :: tl) true]) p [] u (inUdpFlow_runEndpoints hd hp).1
        (fun x hx => (inUdpFlow_runEndpoints hd hp).2 x (hps' x hx)) trivial
      simp only [udpLastTs] at this
      rw [this, udpRuns_gap p ps q tl hng hg]
      simp only [List.cons_append, List.nil_append, List.append_assoc]
      cases hr : udpRuns (p :: ps) with
      | nil => exact absurd hr (udpRuns_ne_nil p ps)
      | cons r rs => simp only [runStreams, runStream]
    · rw [reasmPacket_cont _ hd done (q :: tl) _ u p hp hg]
      have := ih done q (tl ++ [p]) u hd hps' (udpNoGap_snoc p q tl hng hg)
      rw [udpLastTs_snoc] at this
      simpa using this


theorem reasmPacket_first (p : Pkt) (hu : p.udp = true) (hd : (runEndpoints p).Distinct) :
    reasmPacket {} p = { streams := ([] ++ [udpStream (runEndpoints p) (p :: []) false]).toArray, tcp := [],
                         udp := [⟨udpLastTs p [], ([] : List Stream).length⟩], unmodelled := false } := by
  unfold reasmPacket
  rw [if_pos hu, udpPacket_flushed _ p [] #[] rfl]
  simp only [udpCore, udpLookup, udpStream_single p hu hd]
  rfl

/-- streams of the runs of one flow: every run but the last was closed by the flush that preceded the
    first datagram of the next run -/
theorem reasm_udp_flow_timeout (e : Endpoints) (hd : e.Distinct) (ps : List Pkt) (hne : ps ≠ [])
    (hps : ∀ p ∈ ps, isUdpC2S e p ∨ isUdpS2C e p) :
    (reasm ps).toList = runStreams (udpRuns ps) := by
  cases ps with
  | nil => exact absurd rfl hne
  | cons p0 rest =>
    have h0 : inUdpFlow e p0 := hps p0 (List.mem_cons_self ..)
    have hr := inUdpFlow_runEndpoints hd h0
    unfold reasm
    rw [List.foldl_cons, reasmPacket_first p0 (inUdpFlow_udp h0) hr.1,
      reasm_runs_aux rest [] p0 [] false hr.1 (fun x hx => hr.2 x (hps x (List.mem_cons_of_mem _ hx))) trivial]
    rfl

theorem udpNoGap_window (t0 : Nat) : ∀ (ps : List Pkt), (∀ p ∈ ps, t0 ≤ p.ts ∧ p.ts ≤ t0 + timeout) → udpNoGap ps := by
  intro ps
  induction ps with
  | nil => intro _; trivial
  | cons p ps ih =>
    intro h
    cases ps with
    | nil => trivial
    | cons q r =>
      refine ⟨?_, ih (fun x hx => h x (List.mem_cons_of_mem _ hx))⟩
      have h1 := h p (List.mem_cons_self ..)
      have h2 := h q (List.mem_cons_of_mem _ (List.mem_cons_self ..))
      omega

theorem reasm_udp_flow (e : Endpoints) (hd : e.Distinct) (t0 : Nat) (p0 : Pkt) (rest : List Pkt)
    (h0 : isUdpC2S e p0) (hrest : ∀ p ∈ rest, isUdpC2S e p ∨ isUdpS2C e p)
    (hw : ∀ p ∈ p0 :: rest, t0 ≤ p.ts ∧ p.ts ≤ t0 + timeout) :
    reasm (p0 :: rest) = #[udpStream e (p0 :: rest) false] := by
  have hps : ∀ p ∈ p0 :: rest, isUdpC2S e p ∨ isUdpS2C e p := by
    intro p hp
    rcases List.mem_cons.mp hp with rfl | hp
    · exact Or.inl h0
    · exact hrest p hp
  have h := reasm_udp_flow_timeout e hd (p0 :: rest) (by simp) hps
  rw [udpRuns_noGap p0 rest (udpNoGap_window t0 _ hw)] at h
  have he : runEndpoints p0 = e := by
    obtain ⟨_, h1, h2, h3, h4⟩ := h0
    cases e; simp_all [runEndpoints]
  simp only [runStreams, runStream, he] at h
  rw [← Array.toList_inj]
  exact h


/-- between the last datagram of a run and the first of the next lies more than the timeout -/
def udpGapsBetween : List (List Pkt) → Prop
  | [] => True
  | [_] => True
  | r :: r' :: rs => (∀ a ∈ r.getLast?, ∀ b ∈ r'.head?, a.ts + timeout < b.ts) ∧ udpGapsBetween (r' :: rs)

theorem udpRuns_head (q : Pkt) (rest : List Pkt) : ∃ r' rs, udpRuns (q :: rest) = (q :: r') :: rs := by
  cases rest with
  | nil => exact ⟨[], [], rfl⟩
  | cons a l =>
    rw [udpRuns]
    split
    · exact ⟨[], _, rfl⟩
    · split
      · exact ⟨[], [], rfl⟩
      · exact ⟨_, _, rfl⟩

/-- `udpRuns` cuts the list into non-empty pieces without inner gaps, with a gap at every cut -/
theorem udpRuns_spec (ps : List Pkt) :
    (udpRuns ps).flatten = ps ∧ (∀ r ∈ udpRuns ps, r ≠ [] ∧ udpNoGap r) ∧ udpGapsBetween (udpRuns ps) := by
  induction ps with
  | nil => simp [udpRuns, udpGapsBetween]
  | cons p ps ih =>
    cases ps with
    | nil => simp [udpRuns, udpGapsBetween, udpNoGap]
    | cons q rest =>
      obtain ⟨r', rs, hr⟩ := udpRuns_head q rest
      rw [hr] at ih
      obtain ⟨i1, i2, i3⟩ := ih
      rw [udpRuns, hr]
      split
      · rename_i hg
        refine ⟨by simpa using i1, ?_, ?_⟩
        · intro r hm
          rcases List.mem_cons.mp hm with rfl | hm
          · exact ⟨by simp, trivial⟩
          · exact i2 r hm
        · refine ⟨?_, i3⟩
          intro a ha b hb
          simp at ha hb
          subst ha; subst hb; exact hg
      · rename_i hg
        refine ⟨by simpa using i1, ?_, ?_⟩
        · intro r hm
          rcases List.mem_cons.mp hm with rfl | hm
          · exact ⟨by simp, hg, (i2 _ (List.mem_cons_self ..)).2⟩
          · exact i2 r (List.mem_cons_of_mem _ hm)
        · cases rs with
          | nil => trivial
          | cons r2 rs2 =>
            refine ⟨?_, i3.2⟩
            intro a ha b hb
            exact i3.1 a (by simpa using ha) b hb

theorem runStreams_length (rs : List (List Pkt)) : (runStreams rs).length = rs.length := by
  induction rs with
  | nil => rfl
  | cons r rs ih =>
    cases rs with
    | nil => rfl
    | cons r' rs => simp only [runStreams, List.length_cons] at ih ⊢; rw [ih]

/-- stream number `i` is the stream of run number `i`; its client is the sender of the run's first
    datagram; it is complete iff it is not the last run -/
theorem runStreams_getElem? (rs : List (List Pkt)) : ∀ (i : Nat) (q : Pkt) (tl : List Pkt), rs[i]? = some (q :: tl) →
    (runStreams rs)[i]? = some (udpStream (runEndpoints q) (q :: tl) (decide (i + 1 < rs.length))) := by
  induction rs with
  | nil => intro i q tl h; simp at h
  | cons r rs ih =>
    intro i q tl h
    cases rs with
    | nil =>
      cases i with
      | zero => simp at h; subst h; simp [runStreams, runStream]
      | succ i => simp at h
    | cons r' rs =>
      cases i with
      | zero => simp at h; subst h; simp [runStreams, runStream]
      | succ i =>
        have := ih i q tl (by simpa using h)
        simp only [runStreams, List.getElem?_cons_succ, this, List.length_cons]
        simp


/-- a run that the client starts keeps the roles -/
theorem runEndpoints_c2s {e : Endpoints} {q : Pkt} (h : isUdpC2S e q) : runEndpoints q = e := by
  obtain ⟨_, h1, h2, h3, h4⟩ := h
  cases e; simp_all [runEndpoints]

/-- a run that the server starts: the roles are exchanged -/
theorem runEndpoints_s2c {e : Endpoints} {q : Pkt} (h : isUdpS2C e q) :
    runEndpoints q = ⟨e.sip, e.cip, e.sport, e.cport⟩ := by
  obtain ⟨_, h1, h2, h3, h4⟩ := h
  simp_all [runEndpoints]

theorem reasm_udp_flow_timeout_size (e : Endpoints) (hd : e.Distinct) (ps : List Pkt) (hne : ps ≠ [])
    (hps : ∀ p ∈ ps, isUdpC2S e p ∨ isUdpS2C e p) : (reasm ps).size = (udpRuns ps).length := by
  rw [← Array.length_toList, reasm_udp_flow_timeout e hd ps hne hps, runStreams_length]

/-- (U2), indexed: stream `i` is the stream of run `i` with first datagram `q`; it is complete iff a
    later run exists -/
theorem reasm_udp_flow_timeout_stream (e : Endpoints) (hd : e.Distinct) (ps : List Pkt) (hne : ps ≠ [])
    (hps : ∀ p ∈ ps, isUdpC2S e p ∨ isUdpS2C e p) (i : Nat) (q : Pkt) (tl : List Pkt)
    (hi : (udpRuns ps)[i]? = some (q :: tl)) :
    (reasm ps)[i]? = some (udpStream (runEndpoints q) (q :: tl) (decide (i + 1 < (udpRuns ps).length))) := by
  rw [← Array.getElem?_toList, reasm_udp_flow_timeout e hd ps hne hps]
  exact runStreams_getElem? _ i q tl hi

/-! ### (U3) what the stream of a flow holds -/

theorem udpStream_pkts (e : Endpoints) (ps : List Pkt) (c : Bool) :
    (udpStream e ps c).pkts = ps.map (fun p => (p.ref, udir e p)) := by
  simp [Stream.pkts, udpStream]

theorem udpStream_data (e : Endpoints) (ps : List Pkt) (c : Bool) :
    (udpStream e ps c).data = udpChunks 0 ps := by
  simp [Stream.data, udpStream]

theorem udpChunks_bytes (ps : List Pkt) : ∀ n, ((udpChunks n ps).map (·.2)).flatten = (ps.map (·.payload)).flatten := by
  induction ps with
  | nil => intro n; rfl
  | cons p ps ih =>
    intro n
    rw [udpChunks]
    split
    · rename_i h
      rw [ih, List.map_cons, List.flatten_cons, List.length_eq_zero_iff.mp h, List.nil_append]
    · rw [List.map_cons, List.flatten_cons, ih, List.map_cons, List.flatten_cons]

/-- the stream holds exactly the payload bytes of the datagrams, in order -/
theorem udpStream_bytes (e : Endpoints) (ps : List Pkt) (c : Bool) :
    ((udpStream e ps c).data.map (·.2)).flatten = (ps.map (·.payload)).flatten := by
  rw [udpStream_data, udpChunks_bytes]

theorem udpStream_dirOf (e : Endpoints) (ps : List Pkt) (c : Bool) (k : Nat) (p : Pkt) (hk : ps[k]? = some p) :
    (udpStream e ps c).dirOf k = udir e p := by
  have hlt := (List.getElem?_eq_some_iff.mp hk).1
  unfold Stream.dirOf udpStream
  simp only
  rw [List.getElem?_reverse (by simp; omega)]
  have : (List.map (fun p => (p.ref, udir e p)) ps).length - 1 - (ps.length - 1 - k) = k := by
    simp; omega
  rw [this, List.getElem?_map, hk]
  rfl

theorem udpChunks_dirBytes (e : Endpoints) (f : Nat → Bool) (d : Bool) (ps : List Pkt) : ∀ n,
    (∀ k p, ps[k]? = some p → f (n + k) = udir e p) →
    (((udpChunks n ps).filter (fun ch => f ch.1 == d)).map (·.2)).flatten =
      ((ps.filter (fun p => udir e p == d)).map (·.payload)).flatten := by
  induction ps with
  | nil => intro n _; rfl
  | cons p ps ih =>
    intro n hf
    have h0 : f n = udir e p := hf 0 p rfl
    have ih' := ih (n + 1) (fun k q hq => by
      have := hf (k + 1) q (by simpa using hq)
      rw [← this]; congr 1; omega)
    rw [udpChunks]
    split
    · rename_i h
      have hp : p.payload = [] := List.length_eq_zero_iff.mp h
      rw [ih', List.filter_cons]
      split
      · rw [List.map_cons, List.flatten_cons, hp, List.nil_append]
      · rfl
    · rw [List.filter_cons, List.filter_cons]
      simp only [h0]
      split
      · rw [List.map_cons, List.flatten_cons, ih', List.map_cons, List.flatten_cons]
      · exact ih'

/-- per direction: the bytes of the chunks attributed to packets of direction `d` are the payloads of
    the datagrams of that direction, in order -/
theorem udpStream_dirBytes (e : Endpoints) (ps : List Pkt) (c : Bool) (d : Bool) :
    dirBytes (udpStream e ps c) d = ((ps.filter (fun p => udir e p == d)).map (·.payload)).flatten := by
  unfold dirBytes
  rw [udpStream_data]
  exact udpChunks_dirBytes e _ d ps 0 (fun k p hk => by rw [Nat.zero_add]; exact udpStream_dirOf e ps c k p hk)


/-! ### non-vacuity -/

/-- decidable equality of streams, for the `decide` examples only -/
@[reducible] def udpStreamDecEq (a b : Stream) : Decidable (a = b) :=
  decidable_of_iff (a.caddr = b.caddr ∧ a.saddr = b.saddr ∧ a.cport = b.cport ∧ a.sport = b.sport ∧ a.udp = b.udp ∧
      a.pktsRev = b.pktsRev ∧ a.npkts = b.npkts ∧ a.dataRev = b.dataRev ∧ a.complete = b.complete ∧ a.fsm = b.fsm)
    ⟨fun h => by cases a; cases b; simp_all, fun h => by subst h; simp⟩

attribute [local instance] udpStreamDecEq

def udpExPkt (ts i : Nat) (c2s : Bool) (pl : Bytes) : Pkt :=
  { ts := ts, file := "a", idx := i, udp := true, src := if c2s then "c" else "s", dst := if c2s then "s" else "c",
    sport := if c2s then 4000 else 53, dport := if c2s then 53 else 4000, payload := pl }

def udpExFlow : Endpoints := ⟨"c", "s", 4000, 53⟩

/-- a request and its answer; more than five minutes later the server sends again and the client answers -/
def udpExWire : List Pkt :=
  [udpExPkt 10 0 true [1], udpExPkt 20 1 false [2, 3], udpExPkt 300000021 2 false [4], udpExPkt 300000022 3 true []]

example : udpExFlow.Distinct ∧ (∀ p ∈ udpExWire, isUdpC2S udpExFlow p ∨ isUdpS2C udpExFlow p) ∧
    udpRuns udpExWire = [[udpExPkt 10 0 true [1], udpExPkt 20 1 false [2, 3]],
                         [udpExPkt 300000021 2 false [4], udpExPkt 300000022 3 true []]] ∧
    (reasm udpExWire).toList =
      [udpStream udpExFlow [udpExPkt 10 0 true [1], udpExPkt 20 1 false [2, 3]] true,
       udpStream ⟨"s", "c", 53, 4000⟩ [udpExPkt 300000021 2 false [4], udpExPkt 300000022 3 true []] false] ∧
    (reasm udpExWire)[1]!.pkts.map (·.2) = [false, true] := by
  decide

/-- the hypotheses of (U2) hold for this wire -/
example : (reasm udpExWire).toList = runStreams (udpRuns udpExWire) :=
  reasm_udp_flow_timeout udpExFlow (by decide) udpExWire (by decide) (by decide)

/-- the hypotheses of (U1) hold for the first run -/
example : reasm (udpExWire.take 2) = #[udpStream udpExFlow (udpExWire.take 2) false] :=
  reasm_udp_flow udpExFlow (by decide) 10 (udpExPkt 10 0 true [1]) [udpExPkt 20 1 false [2, 3]] (by decide) (by decide)
    (by decide)

end Pk.Proofs.ImportReasm
