/-
  Helper lemmas for C16Reach, part 1: what one `step` does to the converter caches.

  `KC a b`  : the converter bookkeeping (cache, configured converters, job flag, job) did not move.
  `Quiet D a b` : no converter job started; cache entries only disappear, and for configured
                  converters every id in `D` did disappear.
  `CT D a b` : `Quiet D a b`, or a converter job started on the way from `a` to `b`: the job's sets
               (`remaining` of `startConverterJobIfNeeded`: the streams it converted) are in the cache
               of `b`, and every other cache entry of `b` is an old one (not in `D`).
  `step_ct_*` : every event satisfies `CT` (three shapes: an import completion, a converter completion,
               all other events).
-/
import Pk.Model.Manager
import Pk.Proofs.MgrConv
import Pk.Proofs.MgrSettleFrame
import Pk.Proofs.MgrTagsStep
import Pk.Proofs.MgrReach
namespace Pk.Proofs.MgrConvRun
open Pk.Mgr Pk.Proofs.MgrConv Pk.Proofs.MgrSettle

/-! ## frame lemmas for `cached` (the other fields are in MgrSettleFrame) -/

@[simp, c09_frame] theorem release_cached (s : St) (fs : List Nat) : (release s fs).cached = s.cached := by unfold release; frame
@[simp, c09_frame] theorem inherit_cached (s : St) : (inherit s).cached = s.cached := by rfl
@[simp, c09_frame] theorem invalidateTags_cached (s : St) (a b c : IdSet) : (invalidateTags s a b c).cached = s.cached := by rfl
@[simp, c09_frame] theorem invalidatedDuringTaggingJob_cached (s : St) (ids : IdSet) : (invalidatedDuringTaggingJob s ids).cached = s.cached := by unfold invalidatedDuringTaggingJob; frame
@[simp, c09_frame] theorem getIndexesCopy_cached (s : St) (n : Nat) : ((getIndexesCopy s n).1).cached = s.cached := by rfl
@[simp, c09_frame] theorem startMerge_cached (s : St) : (startMerge s).cached = s.cached := by unfold startMerge; frame
@[simp, c09_frame] theorem startTagging_cached (s : St) (c : Option String) : (startTagging s c).cached = s.cached := by unfold startTagging; frame
@[simp, c09_frame] theorem startImport_cached (s : St) : (startImport s).cached = s.cached := by unfold startImport; frame
@[simp, c09_frame] theorem setTag_cached (s : St) (n : String) (t : Tag) : (setTag s n t).cached = s.cached := by rfl
@[simp, c09_frame] theorem addRefBy_cached (s : St) (a b : String) : (addRefBy s a b).cached = s.cached := by unfold addRefBy; frame
@[simp, c09_frame] theorem delRefBy_cached (s : St) (a b : String) : (delRefBy s a b).cached = s.cached := by unfold delRefBy; frame
@[simp, c09_frame] theorem attachConv_cached (s : St) (n c : String) : ((attachConv s n c).1).cached = s.cached := by unfold attachConv; frame
@[simp, c09_frame] theorem markUpdate_cached (s : St) (n : String) (a d : List Nat) : ((markUpdate s n a d).1).cached = s.cached :=
  markUpdate_frame (·.cached) (fun _ _ => rfl) (fun _ _ => rfl) (fun _ _ => rfl) (fun _ _ => rfl) s n a d

/-! ## the relations -/

/-- the converter bookkeeping did not move -/
structure KC (a b : St) : Prop where
  cached : b.cached = a.cached
  convs : b.convs = a.convs
  convert : b.convert = a.convert
  jConv : b.jConv = a.jConv

theorem KC.refl (a : St) : KC a a := ⟨rfl, rfl, rfl, rfl⟩
theorem KC.trans {a b c : St} (h1 : KC a b) (h2 : KC b c) : KC a c :=
  ⟨h2.cached.trans h1.cached, h2.convs.trans h1.convs, h2.convert.trans h1.convert, h2.jConv.trans h1.jConv⟩

/-- `id` is in the set the converter job holds for converter `c` -/
def inSets (sets : List (String × IdSet)) (c : String) (id : Nat) : Prop :=
  ∃ p ∈ sets, p.1 = c ∧ id ∈ p.2

/-- no converter job started; cache entries only disappear, those in `D` do (for configured converters) -/
structure Quiet (D : Nat → Prop) (a b : St) : Prop where
  convs : b.convs = a.convs
  convert : b.convert = a.convert
  jConv : b.jConv = a.jConv
  sub : ∀ c id, id ∈ cOf b c → id ∈ cOf a c ∧ (c ∈ a.convs → ¬ D id)

/-- a converter job started on the way from `a` to `b` -/
structure Began (D : Nat → Prop) (a b : St) : Prop where
  convs : b.convs = a.convs
  off : a.convert = false
  on : b.convert = true
  job : ∃ sets held, b.jConv = some (sets, held) ∧
    (∀ c id, inSets sets c id → id ∈ cOf b c ∧ c ∈ a.convs) ∧
    (∀ c id, id ∈ cOf b c → (id ∈ cOf a c ∧ (c ∈ a.convs → ¬ D id)) ∨ inSets sets c id)

def CT (D : Nat → Prop) (a b : St) : Prop := Quiet D a b ∨ Began D a b

abbrev D0 : Nat → Prop := fun _ => False

theorem KC.quiet {a b : St} (h : KC a b) : Quiet D0 a b :=
  ⟨h.convs, h.convert, h.jConv, fun c id hid => ⟨by simpa only [cOf, h.cached] using hid, fun _ h => h⟩⟩

theorem Quiet.refl (a : St) : Quiet D0 a a := (KC.refl a).quiet

theorem Quiet.trans0 {D : Nat → Prop} {a b c : St} (h1 : Quiet D a b) (h2 : Quiet D0 b c) : Quiet D a c :=
  ⟨h2.convs.trans h1.convs, h2.convert.trans h1.convert, h2.jConv.trans h1.jConv,
   fun x id hid => h1.sub x id (h2.sub x id hid).1⟩

theorem Quiet.kc_left {D : Nat → Prop} {a b c : St} (h1 : KC a b) (h2 : Quiet D b c) : Quiet D a c :=
  ⟨h2.convs.trans h1.convs, h2.convert.trans h1.convert, h2.jConv.trans h1.jConv, fun x id hid => by
    have := h2.sub x id hid
    rw [h1.convs] at this
    simpa only [cOf, h1.cached] using this⟩

theorem Quiet.kc_right {D : Nat → Prop} {a b c : St} (h1 : Quiet D a b) (h2 : KC b c) : Quiet D a c :=
  h1.trans0 h2.quiet

/-- two invalidations in a row -/
theorem Quiet.trans2 {D1 D2 : Nat → Prop} {a b c : St} (h1 : Quiet D1 a b) (h2 : Quiet D2 b c) :
    Quiet (fun i => D1 i ∨ D2 i) a c :=
  ⟨h2.convs.trans h1.convs, h2.convert.trans h1.convert, h2.jConv.trans h1.jConv, fun x id hid => by
    obtain ⟨h3, h4⟩ := h2.sub x id hid
    obtain ⟨h5, h6⟩ := h1.sub x id h3
    exact ⟨h5, fun hx hd => hd.elim (h6 hx) (h4 (h1.convs ▸ hx))⟩⟩

theorem Quiet.mono {D D' : Nat → Prop} {a b : St} (h : Quiet D a b) (hd : ∀ i, D' i → D i) : Quiet D' a b :=
  ⟨h.convs, h.convert, h.jConv, fun x id hid => ⟨(h.sub x id hid).1, fun hx hd' => (h.sub x id hid).2 hx (hd _ hd')⟩⟩

theorem CT.refl (a : St) : CT D0 a a := Or.inl (Quiet.refl a)

/-- something quiet, then `CT` without drops -/
theorem CT.quiet_left {D : Nat → Prop} {a b c : St} (h1 : Quiet D a b) (h2 : CT D0 b c) : CT D a c := by
  rcases h2 with h2 | h2
  · exact Or.inl (h1.trans0 h2)
  · right
    obtain ⟨sets, held, hj, hin, hsub⟩ := h2.job
    refine ⟨h2.convs.trans h1.convs, ?_, h2.on, sets, held, hj, ?_, ?_⟩
    · rw [← h1.convert]; exact h2.off
    · intro x id hx
      obtain ⟨h3, h4⟩ := hin x id hx
      exact ⟨h3, h1.convs ▸ h4⟩
    · intro x id hx
      rcases hsub x id hx with ⟨h3, _⟩ | h3
      · exact Or.inl (h1.sub x id h3)
      · exact Or.inr h3

theorem CT.kc_left {D : Nat → Prop} {a b c : St} (h1 : KC a b) (h2 : CT D b c) : CT D a c := by
  rcases h2 with h2 | h2
  · exact Or.inl (h2.kc_left h1)
  · right
    obtain ⟨sets, held, hj, hin, hsub⟩ := h2.job
    refine ⟨h2.convs.trans h1.convs, ?_, h2.on, sets, held, hj, ?_, ?_⟩
    · rw [← h1.convert]; exact h2.off
    · intro x id hx
      obtain ⟨h3, h4⟩ := hin x id hx
      exact ⟨h3, h1.convs ▸ h4⟩
    · intro x id hx
      have := hsub x id hx
      rw [h1.convs] at this
      simpa only [cOf, h1.cached] using this

theorem CT.kc_right {D : Nat → Prop} {a b c : St} (h1 : CT D a b) (h2 : KC b c) : CT D a c := by
  rcases h1 with h1 | h1
  · exact Or.inl (h1.kc_right h2)
  · right
    obtain ⟨sets, held, hj, hin, hsub⟩ := h1.job
    refine ⟨h2.convs.trans h1.convs, h1.off, h2.convert.trans h1.on, sets, held, h2.jConv.trans hj, ?_, ?_⟩
    · intro x id hx
      have := hin x id hx
      simpa only [cOf, h2.cached] using this
    · intro x id hx
      have hx' : id ∈ cOf b x := by simpa only [cOf, h2.cached] using hx
      exact hsub x id hx'

/-! ## `startConverter` -/

theorem sc2_jConv (s : St) :
    (sc2 s).jConv = some ((activeOf s).map (fun x => (x.1, inter (diff x.2 (cOf s x.1)) (foundOf s.files s.idx))),
      s.idx) := by
  have h1 := clr_fold (activeOf s) s
  simp only [NQ, Prod.mk.injEq] at h1
  simp only [sc2, cOf, List.drop_zero, h1.2.2.2.1, h1.2.2.2.2.1, h1.2.2.2.2.2.1]

theorem startConverter_ct (s : St) : CT D0 s (startConverter s) := by
  rw [startConverter_eq]
  split
  · exact CT.refl _
  · next hnc =>
    split
    · exact CT.refl _
    · right
      refine ⟨(sc2_frame s).2.1, by simpa using hnc, rfl, _, _, sc2_jConv s, ?_, ?_⟩
      · rintro c id ⟨p, hp, rfl, hid⟩
        obtain ⟨x, hx, rfl⟩ := List.mem_map.1 hp
        obtain ⟨c, req⟩ := x
        rw [mem_activeOf] at hx
        obtain ⟨hx1, rfl, _⟩ := hx
        simp only [mem_inter, mem_diff] at hid
        rw [sc2_cached]
        exact ⟨Or.inr ⟨hx1, hid.1.1, hid.2⟩, hx1⟩
      · intro c id hid
        rw [sc2_cached] at hid
        by_cases hc : id ∈ cOf s c
        · exact Or.inl ⟨hc, fun _ h => h⟩
        · rcases hid with h | ⟨h1, h2, h3⟩
          · exact absurd h hc
          · right
            refine ⟨(c, inter (diff (qOf s c) (cOf s c)) (foundOf s.files s.idx)), ?_, rfl, ?_⟩
            · refine List.mem_map.2 ⟨(c, qOf s c), ?_, rfl⟩
              rw [mem_activeOf]
              exact ⟨h1, rfl, fun e => by simp [e] at h2⟩
            · simp only [mem_inter, mem_diff]
              exact ⟨⟨h2, hc⟩, h3⟩

/-! ## `invalidateConverters`, `detachConv` -/

theorem invalidateConverters_quiet (s : St) (u : IdSet) :
    Quiet (fun i => i ∈ u) s (invalidateConverters s u) :=
  ⟨invalidateConverters_convs s u, MgrSettle.invalidateConverters_convert s u, invalidateConverters_jConv s u,
   fun c id h => MgrConv.invalidateConverters_cached s u c id h⟩

-- CHANGED (dropped): `detachConv` takes the tagging choice (the dropped-output step caches nothing)
theorem detachConv_quiet (s : St) (n c : String) (choice : Option String := none) :
    Quiet D0 s (detachConv s n c choice) := by
  refine ⟨MgrSettle.detachConv_convs s n c choice, detachConv_convert s n c choice, detachConv_jConv s n c choice, ?_⟩
  intro c' id hid
  refine ⟨?_, fun _ h => h⟩
  rw [detachConv_eq] at hid
  split at hid
  · exact hid
  · rename_i t _
    have e : cOf (dc3 s n c t choice) c' = cOf (dc2 s n c t) c' := by
      simp only [cOf, (Same_dc3 s n c t choice).1.cached]
    rw [e, dc2_c] at hid
    split at hid
    · simp at hid
    · exact hid

theorem quiet_foldl {β} (f : St → β → St) (l : List β) (hf : ∀ s x, Quiet D0 s (f s x)) (s : St) :
    Quiet D0 s (l.foldl f s) := by
  induction l generalizing s with
  | nil => exact Quiet.refl s
  | cons a r ih => exact (hf s a).trans0 (ih _)

theorem kc_foldl {β} (f : St → β → St) (l : List β) (hf : ∀ s x, KC s (f s x)) (s : St) :
    KC s (l.foldl f s) := by
  induction l generalizing s with
  | nil => exact KC.refl s
  | cons a r ih => exact (hf s a).trans (ih _)


/-! ## `KC` of the helpers -/

theorem kc_with (a b : St) (h1 : b.cached = a.cached) (h2 : b.convs = a.convs) (h3 : b.convert = a.convert)
    (h4 : b.jConv = a.jConv) : KC a b := ⟨h1, h2, h3, h4⟩

theorem kc_release (s : St) (fs : List Nat) : KC s (release s fs) := ⟨by simp, by simp, by simp, by simp⟩
theorem kc_inherit (s : St) : KC s (inherit s) := ⟨by simp, by simp, by simp, by simp⟩
theorem kc_invalidateTags (s : St) (a b c : IdSet) : KC s (invalidateTags s a b c) := ⟨by simp, by simp, by simp, by simp⟩
theorem kc_invDuring (s : St) (ids : IdSet) : KC s (invalidatedDuringTaggingJob s ids) := ⟨by simp, by simp, by simp, by simp⟩
theorem kc_startMerge (s : St) : KC s (startMerge s) := ⟨by simp, by simp, by simp, by simp⟩
theorem kc_startTagging (s : St) (c : Option String) : KC s (startTagging s c) := ⟨by simp, by simp, by simp, by simp⟩
theorem kc_startImport (s : St) : KC s (startImport s) := ⟨by simp, by simp, by simp, by simp⟩
theorem kc_setTag (s : St) (n : String) (t : Tag) : KC s (setTag s n t) := ⟨rfl, rfl, rfl, rfl⟩
theorem kc_addRefBy (s : St) (a b : String) : KC s (addRefBy s a b) := ⟨by simp, by simp, by simp, by simp⟩
theorem kc_delRefBy (s : St) (a b : String) : KC s (delRefBy s a b) := ⟨by simp, by simp, by simp, by simp⟩
theorem kc_attachConv (s : St) (n c : String) : KC s (attachConv s n c).1 := ⟨by simp, by simp, by simp, by simp⟩
theorem kc_markUpdate (s : St) (n : String) (a d : List Nat) : KC s (markUpdate s n a d).1 := ⟨by simp, by simp, by simp, by simp⟩

theorem kc_qConv (s : St) (cs : List String) (ids : IdSet) : KC s (MgrTags.qConv s cs ids) := by
  unfold MgrTags.qConv
  apply kc_foldl
  intro s x
  exact ⟨rfl, rfl, rfl, rfl⟩

theorem kc_tdInval (s : St) : KC s (MgrTags.tdInval s) := by
  unfold MgrTags.tdInval
  split
  · exact KC.refl _
  · exact kc_invalidateTags _ _ _ _

theorem kc_tdPublish (s : St) (name : String) (snap : Tag) (result : IdSet) :
    KC s (MgrTags.tdPublish s name snap result) := by
  unfold MgrTags.tdPublish
  split
  · split
    · exact ((kc_qConv _ _ _).trans (kc_setTag _ _ _)).trans (kc_tdInval _)
    · exact KC.refl _
  · exact KC.refl _

/-- the common tail of the job completions -/
theorem jobTail_ct (s : St) (st : Started) : CT D0 s (MgrTags.jobTail s st) := by
  unfold MgrTags.jobTail
  exact CT.kc_right (CT.kc_left (kc_startTagging _ _) (startConverter_ct _)) (kc_startMerge _)

/-! ## `CT`, event by event -/

theorem ct_tagDone (s : St) (name : String) (result : List Nat) (st : Started) :
    CT D0 s (step s (.tagDone name result) st).1 := by
  rw [MgrTags.step_tagDone_eq]
  split
  · exact CT.refl _
  · split
    · exact Or.inl (KC.quiet ⟨rfl, rfl, rfl, rfl⟩)
    · rename_i jn snap held _ _
      refine CT.kc_right (CT.kc_left ?_ (jobTail_ct _ _)) (kc_release _ _)
      refine KC.trans (b := { s with jTag := none }) ⟨rfl, rfl, rfl, rfl⟩ ?_
      exact (kc_tdPublish _ _ _ _).trans ⟨rfl, rfl, rfl, rfl⟩

theorem ct_mergeDone (s : St) (merged : List (Nat × List Nat)) (st : Started) :
    CT D0 s (step s (.mergeDone merged) st).1 := by
  rw [MgrTags.step_mergeDone_eq]
  split
  · exact CT.refl _
  · rename_i off held _
    refine Or.inl (KC.quiet ?_)
    refine KC.trans ?_ (kc_release _ _)
    refine KC.trans ?_ (kc_startMerge _)
    refine KC.trans (b := MgrTags.mdApply { s with jMerge := none } off held merged) ?_ ⟨rfl, rfl, rfl, rfl⟩
    refine KC.trans (b := { s with jMerge := none }) ⟨rfl, rfl, rfl, rfl⟩ ?_
    unfold MgrTags.mdApply
    split
    · exact ⟨rfl, rfl, rfl, rfl⟩
    · exact KC.trans (kc_release _ _) ⟨rfl, rfl, rfl, rfl⟩

theorem ct_simple (s : St) (e : Ev) (st : Started)
    (h : match e with | .nop | .importPcaps _ | .updColor _ _ | .viewOpen _ | .viewRelease _ => True | _ => False) :
    CT D0 s (step s e st).1 := by
  cases e with
  | nop => exact CT.refl _
  | importPcaps names =>
    refine Or.inl (KC.quiet ?_)
    simp only [step]
    split
    · exact KC.refl _
    · split
      · exact KC.trans (b := { s with queue := s.queue ++ names }) ⟨rfl, rfl, rfl, rfl⟩ (kc_startImport _)
      · exact ⟨rfl, rfl, rfl, rfl⟩
  | updColor name color =>
    refine Or.inl (KC.quiet ?_)
    simp only [step]
    split
    · exact KC.refl _
    · split
      · exact KC.refl _
      · exact kc_setTag _ _ _
  | viewOpen k =>
    refine Or.inl (KC.quiet ?_)
    simp only [step]
    split
    · exact KC.refl _
    · exact ⟨rfl, rfl, rfl, rfl⟩
  | viewRelease k =>
    refine Or.inl (KC.quiet ?_)
    simp only [step]
    split
    · exact KC.refl _
    · exact KC.trans (b := { s with views := ndel s.views k }) ⟨rfl, rfl, rfl, rfl⟩ (kc_release _ _)
  | _ => exact absurd h (by simp)

theorem ct_addTag (s : St) (name color defn : String) (f : Facts) (st : Started) :
    CT D0 s (step s (.addTag name color defn f) st).1 := by
  refine Or.inl (KC.quiet ?_)
  rw [MgrTags.step_addTag_eq]
  repeat' split
  all_goals first | exact KC.refl _ | skip
  rw [MgrTags.atPair_fst]
  unfold MgrTags.atFinish
  refine KC.trans ?_ (kc_foldl _ _ (fun s r => kc_addRefBy s r name) _)
  refine KC.trans (b := { s with ngen := s.ngen + 1 }) ⟨rfl, rfl, rfl, rfl⟩ ?_
  split
  · exact kc_setTag _ _ _
  · exact (kc_setTag _ _ _).trans (kc_startTagging _ _)

theorem ct_updQuery (s : St) (name defn : String) (f : Facts) (st : Started) :
    CT D0 s (step s (.updQuery name defn f) st).1 := by
  rw [MgrTags.step_updQuery_eq]
  repeat' split
  all_goals first | exact CT.refl _ | skip
  unfold MgrTags.uqApply MgrTags.uqInv MgrTags.uqRefs
  refine CT.kc_left ?_ (startConverter_ct _)
  refine KC.trans ?_ (kc_startTagging _ _)
  refine KC.trans ?_ (kc_invDuring _ _)
  refine KC.trans ?_ (kc_inherit _)
  refine KC.trans ?_ (kc_setTag _ _ _)
  refine KC.trans ?_ (kc_foldl _ _ (fun s r => kc_addRefBy s r name) _)
  exact kc_foldl _ _ (fun s r => kc_delRefBy s r name) _

theorem ct_updName (s : St) (name new : String) (st : Started) :
    CT D0 s (step s (.updName name new) st).1 := by
  refine Or.inl (KC.quiet ?_)
  rw [MgrTags.step_updName_eq]
  repeat' split
  all_goals first | exact KC.refl _ | skip
  unfold MgrTags.unApply
  refine KC.trans ?_ (kc_foldl _ _ (fun s r => (kc_delRefBy s r name).trans (kc_addRefBy _ r new)) _)
  exact ⟨rfl, rfl, rfl, rfl⟩

theorem ct_updConv (s : St) (name : String) (convs : List String) (st : Started) :
    CT D0 s (step s (.updConv name convs) st).1 := by
  rw [MgrTags.step_updConv_eq]
  repeat' split
  all_goals first | exact CT.refl _ | skip
  unfold MgrTags.ucAttach MgrTags.ucDetach
  refine CT.quiet_left ?_ (startConverter_ct _)
  refine Quiet.kc_right ?_ (kc_foldl _ _ (fun s c => kc_attachConv s name c) _)
  exact quiet_foldl _ _ (fun s c => detachConv_quiet s name c st.tag) _

theorem ct_mark (s : St) (name : String) (a d : List Nat) (st : Started) :
    CT D0 s (MgrTags.markTail (markUpdate s name a d) st).1 := by
  unfold MgrTags.markTail
  refine CT.kc_left ?_ (startConverter_ct _)
  exact (kc_markUpdate _ _ _ _).trans (kc_startTagging _ _)

theorem ct_markAdd (s : St) (name : String) (ids : List Nat) (st : Started) :
    CT D0 s (step s (.markAdd name ids) st).1 := by
  rw [MgrTags.step_markAdd_eq]
  repeat' split
  all_goals first | exact CT.refl _ | skip
  exact ct_mark _ _ _ _ _

theorem ct_markDel (s : St) (name : String) (ids : List Nat) (st : Started) :
    CT D0 s (step s (.markDel name ids) st).1 := by
  rw [MgrTags.step_markDel_eq]
  repeat' split
  all_goals first | exact CT.refl _ | skip
  exact ct_mark _ _ _ _ _

theorem ct_delTag (s : St) (name : String) (st : Started) :
    CT D0 s (step s (.delTag name) st).1 := by
  refine Or.inl ?_
  rw [MgrTags.step_delTag_eq]
  repeat' split
  all_goals first | exact Quiet.refl _ | skip
  unfold MgrTags.dtApply
  refine Quiet.kc_right ?_ (kc_foldl _ _ (fun s r => kc_delRefBy s r name) _)
  exact Quiet.kc_right (quiet_foldl _ _ (fun s c => detachConv_quiet s name c st.tag) _) ⟨rfl, rfl, rfl, rfl⟩

/-- EVERY EVENT except the two below: a converter job may start at its end, nothing else happens
    to the caches -/
theorem step_ct_other (s : St) (e : Ev) (st : Started)
    (h1 : ∀ p u c a b d, e ≠ .importDone p u c a b d) (h2 : e ≠ .convertDone) :
    CT D0 s (step s e st).1 := by
  cases e with
  | nop => exact ct_simple s _ st trivial
  | importPcaps names => exact ct_simple s _ st trivial
  | updColor name color => exact ct_simple s _ st trivial
  | viewOpen k => exact ct_simple s _ st trivial
  | viewRelease k => exact ct_simple s _ st trivial
  | importDone p u c a b d => exact absurd rfl (h1 p u c a b d)
  | convertDone => exact absurd rfl h2
  | tagDone name result => exact ct_tagDone s name result st
  | mergeDone merged => exact ct_mergeDone s merged st
  | addTag name color defn f => exact ct_addTag s name color defn f st
  | updQuery name defn f => exact ct_updQuery s name defn f st
  | updName name new => exact ct_updName s name new st
  | updConv name convs => exact ct_updConv s name convs st
  | markAdd name ids => exact ct_markAdd s name ids st
  | markDel name ids => exact ct_markDel s name ids st
  | delTag name => exact ct_delTag s name st

/-- A CONVERTER COMPLETION: the flag and the job are cleared, then as above -/
theorem step_ct_convertDone (s : St) (st : Started) (sets : List (String × IdSet)) (held : List Nat)
    (hj : s.jConv = some (sets, held)) :
    CT D0 { s with convert := false, jConv := none } (step s .convertDone st).1 := by
  rw [MgrTags.step_convertDone_eq, hj]
  simp only []
  refine CT.kc_right (CT.kc_left ?_ (startConverter_ct _)) (kc_release _ _)
  refine KC.trans ?_ (kc_startTagging _ _)
  refine KC.trans ?_ (kc_inherit _)
  refine kc_foldl _ _ (fun s p => ?_) _
  unfold MgrTags.cdMark
  split
  · exact KC.refl _
  · exact ⟨rfl, rfl, rfl, rfl⟩

theorem step_convertDone_none (s : St) (st : Started) (hj : s.jConv = none) :
    (step s .convertDone st).1 = s := by
  rw [MgrTags.step_convertDone_eq, hj]

/-- AN IMPORT COMPLETION of a job in flight that wrote files: the cache entries of the updated and
    the reset streams are gone (unless the converter job that starts at the end re-converted them) -/
theorem step_ct_importDone (s : St) (st : Started) (processed usednew : Nat)
    (created : List (Nat × List Nat)) (upd rst add : List Nat) (jn : Nat) (held : List Nat)
    (hj : s.jImport = some (jn, held)) (hc : created ≠ []) :
    CT (fun i => i ∈ upd ∨ i ∈ rst) s (step s (.importDone processed usednew created upd rst add) st).1 := by
  rw [MgrConv.step_importDone_eq, hj]
  simp only []
  unfold impD
  refine CT.kc_right ?_ (kc_startMerge _)
  refine CT.quiet_left ?_ (startConverter_ct _)
  refine Quiet.kc_right ?_ (kc_startTagging _ _)
  refine Quiet.kc_right (b := impB (impA s jn held usednew) jn usednew created (ofList upd) (ofList rst) (ofList add)) ?_ ?_
  · have hA : KC s (impA s jn held usednew) := by
      unfold impA
      exact KC.trans (b := { s with all := jn + usednew, jImport := none }) ⟨rfl, rfl, rfl, rfl⟩ (kc_release _ _)
    refine Quiet.kc_left hA ?_
    unfold impB
    rw [if_neg (by simpa using hc)]
    simp only []
    refine Quiet.mono (D := fun i => i ∈ ofList upd ∨ i ∈ ofList rst) ?_
      (fun i hi => by simpa only [mem_ofList] using hi)
    refine Quiet.kc_left ?_ (Quiet.trans2 (invalidateConverters_quiet _ _) (invalidateConverters_quiet _ _))
    exact ⟨by simp, by simp, by simp, by simp⟩
  · unfold impC
    simp only []
    split
    · exact ⟨rfl, rfl, rfl, rfl⟩
    · refine KC.trans ?_ (kc_startImport _)
      exact ⟨rfl, rfl, rfl, rfl⟩

/-- an import completion that found no job in flight or wrote no file -/
theorem step_ct_importDone_void (s : St) (st : Started) (processed usednew : Nat)
    (created : List (Nat × List Nat)) (upd rst add : List Nat)
    (h : s.jImport = none ∨ created = []) :
    CT D0 s (step s (.importDone processed usednew created upd rst add) st).1 := by
  rw [MgrConv.step_importDone_eq]
  split
  · exact CT.refl _
  · rename_i jn held hj
    rcases h with h | h
    · rw [h] at hj; cases hj
    · subst h
      unfold impD
      refine CT.kc_right ?_ (kc_startMerge _)
      refine CT.kc_left ?_ (startConverter_ct _)
      refine KC.trans ?_ (kc_startTagging _ _)
      refine KC.trans (b := impB (impA s jn held usednew) jn usednew [] (ofList upd) (ofList rst) (ofList add)) ?_ ?_
      · unfold impB impA
        simp only [List.isEmpty_nil, if_true]
        exact KC.trans (b := { s with all := jn + usednew, jImport := none }) ⟨rfl, rfl, rfl, rfl⟩ (kc_release _ _)
      · unfold impC
        simp only []
        split
        · exact ⟨rfl, rfl, rfl, rfl⟩
        · refine KC.trans ?_ (kc_startImport _)
          exact ⟨rfl, rfl, rfl, rfl⟩

/-! ## `next` never decreases -/

theorem next_mono (s : St) (e : Ev) (st : Started)
    (hj : ∀ jn held, s.jImport = some (jn, held) → jn = s.next) : s.next ≤ (step s e st).1.next := by
  by_cases himp : ∃ p u c a b d, e = .importDone p u c a b d
  · obtain ⟨p, u, c, a, b, d, rfl⟩ := himp
    cases hji : s.jImport with
    | none => rw [Pk.Proofs.MgrReach.step_importDone_none' _ _ _ _ _ _ _ _ hji]; exact Nat.le_refl _
    | some q =>
      obtain ⟨jn, held⟩ := q
      have := hj jn held hji
      rw [(Pk.Proofs.MgrReach.step_importDone_all_next s p u c a b d st jn held hji).2]
      split <;> omega
  · rw [(Pk.Proofs.MgrReach.step_all_next_other s e st (fun p u c a b d h => himp ⟨p, u, c, a, b, d, h⟩)).2]
    exact Nat.le_refl _

end Pk.Proofs.MgrConvRun
