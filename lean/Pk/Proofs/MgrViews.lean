/-
  Helper lemmas for C10 (views, enumeration with shadowing, coverage of stream ids).
-/
import Pk.Model.Manager
import Pk.Proofs.MgrLocks

namespace Pk.Proofs.MgrViews
open Pk.Mgr

end Pk.Proofs.MgrViews
