/-
  Helper lemmas for C10 (views, enumeration with shadowing, coverage of stream ids).
-/
import Pk.Model.Manager
import Pk.Proofs.MgrLocks
namespace Pk.Proofs.MgrViews
open Pk.Mgr

theorem nget_nil {α} (k : Nat) : nget ([] : List (Nat × α)) k = none := rfl

theorem nget_cons {α} (a : Nat × α) (l : List (Nat × α)) (k : Nat) :
    nget (a :: l) k = if a.1 = k then some a.2 else nget l k := by
  unfold nget
  by_cases h : a.1 = k <;> simp [h]

theorem nget_nins {α} (k : Nat) (v : α) (l : List (Nat × α)) (k' : Nat) :
    nget (nins k v l) k' = if k' = k then some v else nget l k' := by
  induction l with
  | nil => simp [nins, nget_cons, nget_nil, eq_comm]
  | cons a l ih =>
    obtain ⟨ka, va⟩ := a
    unfold nins
    split
    · simp [nget_cons, eq_comm]
    · split
      · subst_vars; simp only [nget_cons]; split <;> simp_all [eq_comm]
      · simp only [nget_cons, ih]
        split <;> split <;> simp_all

theorem nget_ndel {α} (l : List (Nat × α)) (k k' : Nat) :
    nget (ndel l k) k' = if k' = k then none else nget l k' := by
  induction l with
  | nil => simp [ndel, nget_nil]
  | cons a l ih =>
    simp only [ndel] at ih ⊢
    simp only [List.filter_cons]
    by_cases h : a.1 = k
    · simp only [h, bne_self_eq_false, Bool.false_eq_true, ↓reduceIte, ih, nget_cons]
      grind
    · simp [h, ih, nget_cons]; grind

theorem lock_cons (u : List (Nat × Nat)) (g : Nat) (fs : List Nat) :
    lock u (g :: fs) = lock (nins g ((nget u g).getD 0 + 1) u) fs := rfl

theorem lock_count (u : List (Nat × Nat)) (fs : List Nat) (f : Nat) :
    (nget (lock u fs) f).getD 0 = (nget u f).getD 0 + fs.count f := by
  induction fs generalizing u with
  | nil => simp [lock]
  | cons g fs ih =>
    rw [lock_cons, ih, nget_nins, List.count_cons]
    by_cases h : f = g
    · subst h; simp; omega
    · have : (g == f) = false := by simp; omega
      simp [h, this]

/-- one iteration of `release` -/
def rel1 (s : St) (f : Nat) : St :=
  match nget s.used f with
  | none => s
  | some n => if n ≤ 1 then { s with used := ndel s.used f, files := ndel s.files f }
              else { s with used := nins f (n - 1) s.used }

theorem release_nil (s : St) : release s [] = s := rfl
theorem release_cons (s : St) (g : Nat) (fs : List Nat) :
    release s (g :: fs) = release (rel1 s g) fs := rfl

theorem rel1_eta (s : St) (g : Nat) :
    rel1 s g = { s with used := (rel1 s g).used, files := (rel1 s g).files } := by
  unfold rel1; split
  · rfl
  · split <;> rfl

theorem release_eta (s : St) (fs : List Nat) :
    release s fs = { s with used := (release s fs).used, files := (release s fs).files } := by
  induction fs generalizing s with
  | nil => rfl
  | cons g fs ih =>
    rw [release_cons, ih, rel1_eta s g]

theorem rel1_used (s : St) (g f : Nat) :
    (nget (rel1 s g).used f).getD 0 = (nget s.used f).getD 0 - (if g = f then 1 else 0) := by
  unfold rel1
  split
  · rename_i h; by_cases hg : g = f
    · subst hg; simp [h]
    · simp [hg]
  · rename_i n h
    split
    · simp only [nget_ndel]
      by_cases hg : g = f
      · subst hg; simp [h]; omega
      · have : ¬ f = g := fun h => hg h.symm
        simp [hg, this]
    · simp only [nget_nins]
      by_cases hg : g = f
      · subst hg; simp [h]
      · have : ¬ f = g := fun h => hg h.symm
        simp [hg, this]

theorem release_used (s : St) (fs : List Nat) (f : Nat) :
    (nget (release s fs).used f).getD 0 = (nget s.used f).getD 0 - fs.count f := by
  induction fs generalizing s with
  | nil => simp [release_nil]
  | cons g fs ih =>
    rw [release_cons, ih, rel1_used, List.count_cons]
    by_cases hg : g = f
    · subst hg; simp; omega
    · have : (g == f) = false := by simp [hg]
      simp [hg, this]

theorem rel1_files (s : St) (g f : Nat) (h : (if g = f then 1 else 0) < (nget s.used f).getD 0) :
    nget (rel1 s g).files f = nget s.files f := by
  unfold rel1
  split
  · rfl
  · rename_i n hn
    split
    · simp only [nget_ndel]
      by_cases hg : g = f
      · subst hg; simp [hn] at h; omega
      · have : ¬ f = g := fun h => hg h.symm
        simp [this]
    · rfl

theorem release_files (s : St) (fs : List Nat) (f : Nat) (h : fs.count f < (nget s.used f).getD 0) :
    nget (release s fs).files f = nget s.files f := by
  induction fs generalizing s with
  | nil => rfl
  | cons g fs ih =>
    rw [List.count_cons] at h
    rw [release_cons, ih, rel1_files]
    · by_cases hg : g = f
      · subst hg; simp at h ⊢; omega
      · have : (g == f) = false := by simp [hg]
        simp [hg, this] at h ⊢; omega
    · rw [rel1_used]
      by_cases hg : g = f
      · subst hg; simp at h ⊢; omega
      · have : (g == f) = false := by simp [hg]
        simp [hg, this] at h ⊢; omega

theorem rel1_files_none (s : St) (g f : Nat) (h : nget s.files f = none) :
    nget (rel1 s g).files f = none := by
  unfold rel1
  split
  · exact h
  · split
    · simp only [nget_ndel]; split <;> simp [h]
    · exact h

theorem release_files_none (s : St) (fs : List Nat) (f : Nat) (h : nget s.files f = none) :
    nget (release s fs).files f = none := by
  induction fs generalizing s with
  | nil => exact h
  | cons g fs ih => rw [release_cons]; exact ih _ (rel1_files_none s g f h)

end Pk.Proofs.MgrViews
