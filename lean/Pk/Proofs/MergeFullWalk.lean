/-
  The packet-record walks of the reader (`packetsWalk`, `dataWalk`), `copyPackets` / `copySeg` of `AddIndex`
  and `dataRuns` only look at the records / varints of their own stream (helper lemmas for the full C07 statement).
-/
import Pk.Proofs.MergeFullDefs
namespace Pk.Index
open Pk Pk.Bytes

/-! ## chainOf -/

theorem mfw_chainOf_cons {p : PacketRec} {ps c : List PacketRec} (h : chainOf (p :: ps) = some c) :
    (p.flags % 2 = 0 ∧ c = [p]) ∨ (p.flags % 2 = 1 ∧ ∃ c', chainOf ps = some c' ∧ c = p :: c') := by
  simp only [chainOf] at h
  split at h
  · rename_i h0
    left; simp at h; exact ⟨h0, h.symm⟩
  · rename_i h0
    right
    refine ⟨by omega, ?_⟩
    cases hc : chainOf ps with
    | none => simp [hc] at h
    | some c' => simp [hc] at h; exact ⟨c', rfl, h.symm⟩

theorem mfw_chainOf_last {p : PacketRec} {ps : List PacketRec} (h : p.flags % 2 = 0) : chainOf (p :: ps) = some [p] := by
  simp [chainOf, h]

theorem mfw_chainOf_next {p : PacketRec} {ps : List PacketRec} (h : p.flags % 2 = 1) :
    chainOf (p :: ps) = (chainOf ps).map (p :: ·) := by
  have : ¬ p.flags % 2 = 0 := by omega
  simp [chainOf, this]

theorem chainOf_split {l c : List PacketRec} (h : chainOf l = some c) : ∃ rest, l = c ++ rest := by
  induction l generalizing c with
  | nil => simp [chainOf] at h
  | cons p ps ih =>
    rcases mfw_chainOf_cons h with ⟨_, rfl⟩ | ⟨_, c', hc, rfl⟩
    · exact ⟨ps, rfl⟩
    · obtain ⟨rest, hr⟩ := ih hc
      exact ⟨rest, by rw [List.cons_append, ← hr]⟩

theorem chainOf_self {l c : List PacketRec} (h : chainOf l = some c) : chainOf c = some c := by
  induction l generalizing c with
  | nil => simp [chainOf] at h
  | cons p ps ih =>
    rcases mfw_chainOf_cons h with ⟨h0, rfl⟩ | ⟨h1, c', hc, rfl⟩
    · exact mfw_chainOf_last h0
    · rw [mfw_chainOf_next h1, ih hc]; rfl

theorem chainOf_ne_nil {l c : List PacketRec} (h : chainOf l = some c) : c ≠ [] := by
  cases l with
  | nil => simp [chainOf] at h
  | cons p ps =>
    rcases mfw_chainOf_cons h with ⟨_, rfl⟩ | ⟨_, c', _, rfl⟩ <;> simp

theorem chainOf_append {l c : List PacketRec} (h : chainOf l = some c) (t : List PacketRec) : chainOf (l ++ t) = some c := by
  induction l generalizing c with
  | nil => simp [chainOf] at h
  | cons p ps ih =>
    rcases mfw_chainOf_cons h with ⟨h0, rfl⟩ | ⟨h1, c', hc, rfl⟩
    · exact mfw_chainOf_last h0
    · rw [List.cons_append, mfw_chainOf_next h1, ih hc]; rfl

theorem chainOf_map_reimp (remap : List Nat) (l : List PacketRec) :
    chainOf (l.map (reimp remap)) = (chainOf l).map (List.map (reimp remap)) := by
  induction l with
  | nil => simp [chainOf]
  | cons p ps ih =>
    simp only [List.map_cons, chainOf]
    have : (reimp remap p).flags = p.flags := rfl
    rw [this, ih]
    split
    · rfl
    · cases chainOf ps <;> simp

theorem mfw_chainOf_drop {l c : List PacketRec} (h : chainOf l = some c) (n : Nat) (hn : n < c.length) :
    chainOf (l.drop n) = some (c.drop n) := by
  induction n generalizing l c with
  | zero => simpa using h
  | succ n ih =>
    cases l with
    | nil => simp [chainOf] at h
    | cons p ps =>
      rcases mfw_chainOf_cons h with ⟨h0, rfl⟩ | ⟨h1, c', hc, rfl⟩
      · simp at hn
      · simp only [List.drop_succ_cons]
        exact ih hc (by simpa using hn)

/-! ## SkipsOk -/

theorem SkipsOk_map_reimp (remap : List Nat) (c : List PacketRec) : SkipsOk (c.map (reimp remap)) ↔ SkipsOk c := by
  induction c with
  | nil => simp [SkipsOk]
  | cons p ps ih =>
    simp only [List.map_cons, SkipsOk, List.length_map, ih]
    have h1 : (reimp remap p).flags = p.flags := rfl
    have h2 : (reimp remap p).skip = p.skip := rfl
    rw [h1, h2]

theorem mfw_SkipsOk_drop {c : List PacketRec} (h : SkipsOk c) (n : Nat) : SkipsOk (c.drop n) := by
  induction n generalizing c with
  | zero => simpa using h
  | succ n ih =>
    cases c with
    | nil => simp [SkipsOk]
    | cons p ps => simp only [List.drop_succ_cons]; exact ih h.2

/-! ## copyPackets -/

theorem copyPackets_spec (remap : List Nat) (l out : List PacketRec) (h : copyPackets remap l = .ok out) :
    ∃ c, chainOf l = some c ∧ out = c.map (reimp remap) ∧ ∀ p ∈ c, p.imp < remap.length := by
  induction l generalizing out with
  | nil => simp [copyPackets] at h
  | cons p ps ih =>
    simp only [copyPackets] at h
    split at h
    · simp at h
    · rename_i i hi
      have hlt : p.imp < remap.length := by
        rcases Nat.lt_or_ge p.imp remap.length with h | h
        · exact h
        · simp [List.getElem?_eq_none h] at hi
      have hre : reimp remap p = { p with imp := i } := by
        simp [reimp, List.getD, hi]
      split at h
      · rename_i h0
        simp at h; subst h
        exact ⟨[p], mfw_chainOf_last h0, by simp [hre], by simpa using hlt⟩
      · rename_i h0
        split at h
        · simp at h
        · rename_i r hr
          simp at h; subst h
          obtain ⟨c, hc, rfl, hall⟩ := ih r hr
          refine ⟨p :: c, ?_, by simp [hre], ?_⟩
          · rw [mfw_chainOf_next (by omega), hc]; rfl
          · intro q hq
            simp at hq
            rcases hq with rfl | hq
            · exact hlt
            · exact hall q hq


/-! ## packetsWalk -/

theorem packetsWalk_chain (imps : List (Bytes × Nat)) (t : Int) (last : Option (Nat × Nat)) (lr : Nat)
    {l c : List PacketRec} (h : chainOf l = some c) :
    packetsWalk imps t last lr l = packetsWalk imps t last lr c := by
  induction l generalizing c t last lr with
  | nil => simp [chainOf] at h
  | cons p ps ih =>
    rcases mfw_chainOf_cons h with ⟨h0, rfl⟩ | ⟨h1, c', hc, rfl⟩
    · simp only [packetsWalk, h0, if_true]
    · simp only [packetsWalk]
      rw [ih _ _ _ hc]

theorem packetsWalk_append_imports (imps more : List (Bytes × Nat)) (c : List PacketRec) (hc : ∀ p ∈ c, p.imp < imps.length)
    (t : Int) (last : Option (Nat × Nat)) (lr : Nat) :
    packetsWalk (imps ++ more) t last lr c = packetsWalk imps t last lr c := by
  induction c generalizing t last lr with
  | nil => simp [packetsWalk]
  | cons p ps ih =>
    have hp : p.imp < imps.length := hc p (by simp)
    have hps : ∀ q ∈ ps, q.imp < imps.length := fun q hq => hc q (by simp [hq])
    simp only [packetsWalk]
    rw [List.getElem?_append_left hp]
    simp only [ih hps]

theorem mfw_packetsWalk_remap (imps imps' : List (Bytes × Nat)) (remap : List Nat)
    (hnd : imps.Nodup) (hmap : ∀ i, i < imps.length → imps'[remap.getD i 0]? = imps[i]?)
    (c : List PacketRec) (hc : ∀ p ∈ c, p.imp < imps.length) (t : Int) (lr : Nat)
    (last : Option (Nat × Nat)) (hl : ∀ a b, last = some (a, b) → a < imps.length) :
    packetsWalk imps' t (last.map fun ab => (remap.getD ab.1 0, ab.2)) lr (c.map (reimp remap)) = packetsWalk imps t last lr c := by
  induction c generalizing t last lr with
  | nil => simp [packetsWalk]
  | cons p ps ih =>
    have hp : p.imp < imps.length := hc p (by simp)
    have hps : ∀ q ∈ ps, q.imp < imps.length := fun q hq => hc q (by simp [hq])
    have hinj : ∀ a, a < imps.length → remap.getD a 0 = remap.getD p.imp 0 → a = p.imp := by
      intro a ha he
      have h1 := hmap a ha
      have h2 := hmap p.imp hp
      rw [he, h2] at h1
      rw [List.getElem?_eq_getElem hp, List.getElem?_eq_getElem ha] at h1
      have h3 : imps[p.imp] = imps[a] := by simpa using h1
      exact ((List.getElem_inj hnd).mp h3).symm
    have hnew : ((last.map fun ab => (remap.getD ab.1 0, ab.2)) ≠ some ((reimp remap p).imp, (reimp remap p).idx)) ↔
        (last ≠ some (p.imp, p.idx)) := by
      cases last with
      | none => simp
      | some ab =>
        obtain ⟨a, b⟩ := ab
        have ha := hl a b rfl
        simp only [Option.map_some, reimp, ne_eq, Option.some.injEq, Prod.mk.injEq]
        constructor
        · intro h1 h2; exact h1 ⟨by rw [h2.1], h2.2⟩
        · intro h1 h2; exact h1 ⟨hinj a ha h2.1, h2.2⟩
    have hnext := ih hps
    have hf : (reimp remap p).flags = p.flags := rfl
    have hr : (reimp remap p).rel = p.rel := rfl
    have hidx : (reimp remap p).idx = p.idx := rfl
    have himp : (reimp remap p).imp = remap.getD p.imp 0 := rfl
    have hrec := fun t lr => hnext t lr (some (p.imp, p.idx)) (by intro a b h; cases h; exact hp)
    simp only [Option.map_some] at hrec
    simp only [List.map_cons, packetsWalk]
    simp only [hnew]
    simp only [hf, hr, hidx, himp, hmap _ hp, hrec]


theorem packetsWalk_remap (imps imps' : List (Bytes × Nat)) (remap : List Nat) (hlen : remap.length = imps.length)
    (hnd : imps.Nodup) (hmap : ∀ i, i < imps.length → imps'[remap.getD i 0]? = imps[i]?)
    (c : List PacketRec) (hc : ∀ p ∈ c, p.imp < imps.length) (t : Int) (lr : Nat) :
    packetsWalk imps' t none lr (c.map (reimp remap)) = packetsWalk imps t none lr c := by
  have _ := hlen
  exact mfw_packetsWalk_remap imps imps' remap hnd hmap c hc t lr none (by intro a b h; cases h)

/-! ## dataWalk -/

/-- one step of `dataWalk`: the state after looking at record `p` -/
def mfw_dstep (st : DWalk) (p : PacketRec) : DWalk :=
    let st :=
      if st.expectWraps ≠ 0 then
        let st := if p.rel < st.lastRel then { st with refTime := st.refTime + wrapNs, expectWraps := st.expectWraps - 1 } else st
        { st with lastRel := p.rel }
      else st
    let st :=
      if p.size ≠ 0 then
        let ts := st.refTime + (p.rel : Int) * 1000
        let dir := p.flags / 2 % 2
        let ci := if dir = 0 then st.pt0 else st.pt1
        let ci' := match ci with
          | (t, sz) :: rest => if dir = st.prevDir ∧ ts - st.prevTs < chunkSplitNs then (t, sz + p.size) :: rest else (ts, p.size) :: ci
          | [] => [(ts, p.size)]
        let st := if dir = 0 then { st with pt0 := ci' } else { st with pt1 := ci' }
        { st with prevTs := ts, prevDir := dir }
      else st
    st

theorem mfw_dataWalk_succ (fuel : Nat) (st : DWalk) (p : PacketRec) (ps : List PacketRec) :
    dataWalk (fuel + 1) st (p :: ps) =
      if p.flags % 2 = 0 then .ok (mfw_dstep st p)
      else if p.skip ≠ 0 ∧ (mfw_dstep st p).expectWraps = 0 then
        if ps.length < p.skip then .error .err else dataWalk fuel (mfw_dstep st p) (ps.drop p.skip)
      else dataWalk fuel (mfw_dstep st p) ps := by
  rfl

theorem mfw_dstep_reimp (remap : List Nat) (st : DWalk) (p : PacketRec) : mfw_dstep st (reimp remap p) = mfw_dstep st p := rfl

theorem dataWalk_map_reimp (remap : List Nat) (f : Nat) (st : DWalk) (l : List PacketRec) :
    dataWalk f st (l.map (reimp remap)) = dataWalk f st l := by
  induction f generalizing st l with
  | zero => simp [dataWalk]
  | succ f ih =>
    cases l with
    | nil => simp [dataWalk]
    | cons p ps =>
      rw [List.map_cons, mfw_dataWalk_succ, mfw_dataWalk_succ, mfw_dstep_reimp, ← List.map_drop, ih, ih]
      have hf : (reimp remap p).flags = p.flags := rfl
      have hs : (reimp remap p).skip = p.skip := rfl
      rw [hf, hs, List.length_map]

theorem dataWalk_chain {l c : List PacketRec} (h : chainOf l = some c) (hs : SkipsOk c) (f f' : Nat)
    (hf : c.length ≤ f) (hf' : c.length ≤ f') (st : DWalk) : dataWalk f st l = dataWalk f' st c := by
  induction f generalizing f' st l c with
  | zero =>
    cases l with
    | nil => simp [chainOf] at h
    | cons p ps => rcases mfw_chainOf_cons h with ⟨_, rfl⟩ | ⟨_, c', _, rfl⟩ <;> simp at hf
  | succ f ih =>
    cases l with
    | nil => simp [chainOf] at h
    | cons p ps =>
      rcases mfw_chainOf_cons h with ⟨h0, rfl⟩ | ⟨h1, c', hc, rfl⟩
      · cases f' with
        | zero => simp at hf'
        | succ f' => rw [mfw_dataWalk_succ, mfw_dataWalk_succ]; simp [h0]
      · cases f' with
        | zero => simp at hf'
        | succ f' =>
          obtain ⟨rest, hrest⟩ := chainOf_split hc
          have hsk := hs.1 h1
          have hne : ¬ p.flags % 2 = 0 := by omega
          have hlen : ps.length = c'.length + rest.length := by rw [hrest]; simp
          have hl1 : ¬ ps.length < p.skip := by omega
          have hl2 : ¬ c'.length < p.skip := by omega
          simp only [List.length_cons] at hf hf'
          rw [mfw_dataWalk_succ, mfw_dataWalk_succ]
          simp only [hne, if_false, hl1, hl2]
          rw [ih (mfw_chainOf_drop hc p.skip hsk) (mfw_SkipsOk_drop hs.2 _) f' (by simp; omega) (by simp; omega),
            ih hc hs.2 f' (by omega) (by omega)]


/-! ## segmentation varints, copySeg -/

theorem mfw_decAux_split (seg : Bytes) : ∀ (a sz : Nat) (rest : Bytes), decVarintAux a seg = some (sz, rest) →
    ∃ head, head ≠ [] ∧ seg = head ++ rest ∧ ∀ t, decVarintAux a (head ++ t) = some (sz, t) := by
  induction seg with
  | nil => intro a sz rest h; simp [decVarintAux] at h
  | cons b bs ih =>
    intro a sz rest h
    simp only [decVarintAux] at h
    split at h
    · rename_i hb
      simp at h
      obtain ⟨rfl, rfl⟩ := h
      exact ⟨[b], by simp, rfl, fun t => by simp [decVarintAux, hb]⟩
    · rename_i hb
      obtain ⟨head, _, h2, h3⟩ := ih _ _ _ h
      refine ⟨b :: head, by simp, by rw [h2]; rfl, fun t => ?_⟩
      simp only [List.cons_append, decVarintAux, hb, if_false]
      exact h3 t

theorem mfw_dec_split {seg rest : Bytes} {sz : Nat} (h : decVarint seg = some (sz, rest)) :
    ∃ head, head ≠ [] ∧ seg = head ++ rest ∧ seg.take (seg.length - rest.length) = head ∧
      ∀ t, decVarint (head ++ t) = some (sz, t) := by
  obtain ⟨head, h1, h2, h3⟩ := mfw_decAux_split seg 0 sz rest h
  refine ⟨head, h1, h2, ?_, h3⟩
  rw [h2]; simp

theorem mfw_SegCovers_zero : SegCovers 0 [] := ⟨1, rfl⟩

theorem mfw_SegCovers_zero_iff (pre : Bytes) : SegCovers 0 pre ↔ pre = [] := by
  constructor
  · rintro ⟨fuel, h⟩
    cases fuel with
    | zero => simp [copySeg] at h
    | succ fuel => simp [copySeg] at h; exact h
  · rintro rfl; exact mfw_SegCovers_zero

/-- a varint in front of a covering run -/
theorem mfw_SegCovers_cons {count sz : Nat} {head more : Bytes}
    (hdec : ∀ t, decVarint (head ++ t) = some (sz, t)) (hsz : sz ≤ count) (hc : count ≠ 0)
    (h : SegCovers (count - sz) more) : SegCovers count (head ++ more) := by
  obtain ⟨fuel, hf⟩ := h
  refine ⟨fuel + 1, ?_⟩
  simp only [copySeg, hc, if_false, hdec more]
  have : ¬ sz > count := by omega
  simp only [this, if_false, hf]
  simp

/-- the first varint of a covering run -/
theorem mfw_SegCovers_uncons {count : Nat} {pre : Bytes} (h : SegCovers count pre) (hc : count ≠ 0) :
    ∃ sz head rest, head ≠ [] ∧ pre = head ++ rest ∧ (∀ t, decVarint (head ++ t) = some (sz, t)) ∧ sz ≤ count ∧
      SegCovers (count - sz) rest := by
  obtain ⟨fuel, hf⟩ := h
  cases fuel with
  | zero => simp [copySeg] at hf
  | succ fuel =>
    simp only [copySeg, hc, if_false] at hf
    split at hf
    · simp at hf
    · rename_i sz rest hdec
      obtain ⟨head, h1, h2, h3, h4⟩ := mfw_dec_split hdec
      split at hf
      · simp at hf
      · rename_i hle
        split at hf
        · simp at hf
        · rename_i more hmore
          simp only [Except.ok.injEq] at hf
          rw [h3] at hf
          have hrm : more = rest := by
            rw [← hf] at h2
            exact (List.append_cancel_left h2)
          subst hrm
          exact ⟨sz, head, more, h1, h2, h4, by omega, fuel, hmore⟩

theorem copySeg_prefix {fuel count : Nat} {seg pre : Bytes} (h : copySeg fuel count seg = .ok pre) :
    (∃ rest, seg = pre ++ rest) ∧ SegCovers count pre := by
  induction fuel generalizing count seg pre with
  | zero => simp [copySeg] at h
  | succ fuel ih =>
    simp only [copySeg] at h
    split at h
    · rename_i hc
      simp at h; subst h; subst hc
      exact ⟨⟨seg, rfl⟩, mfw_SegCovers_zero⟩
    · rename_i hc
      split at h
      · simp at h
      · rename_i sz rest hdec
        obtain ⟨head, h1, h2, h3, h4⟩ := mfw_dec_split hdec
        split at h
        · simp at h
        · rename_i hle
          split at h
          · simp at h
          · rename_i more hmore
            simp only [Except.ok.injEq] at h
            rw [h3] at h
            subst h
            obtain ⟨⟨rest', hr⟩, hcov⟩ := ih hmore
            refine ⟨⟨rest', by rw [h2, hr, List.append_assoc]⟩, ?_⟩
            exact mfw_SegCovers_cons h4 (by omega) hc hcov


/-! ## dataRuns, segBytes -/

theorem mfw_consume_len (dir : Nat) (pt : List (Int × Nat)) : ∀ (sz : Nat) (content : Bytes) (cs : List DataOut) (c : Bytes)
    (r : List (Int × Nat)), consume dir sz content pt = .ok (cs, c, r) → c.length + sz = content.length := by
  induction pt with
  | nil => intro sz content cs c r h; simp [consume] at h
  | cons tp rest ih =>
    obtain ⟨ts, psz⟩ := tp
    intro sz content cs c r h
    simp only [consume] at h
    generalize hcur : (if sz > psz then psz else sz) = cur at h
    have hle : cur ≤ sz := by split at hcur <;> omega
    split at h
    · simp at h
    · rename_i hlen
      split at h
      · rename_i hz
        simp only [Except.ok.injEq, Prod.mk.injEq] at h
        obtain ⟨_, rfl, _⟩ := h
        simp only [List.length_drop]
        omega
      · rename_i hz
        split at h
        · simp at h
        · rename_i cs' c' r' hrec
          simp only [Except.ok.injEq, Prod.mk.injEq] at h
          obtain ⟨_, rfl, _⟩ := h
          have := ih _ _ _ _ _ hrec
          simp only [List.length_drop] at this
          omega

theorem dataRuns_indep {count : Nat} {pre : Bytes} (h : SegCovers count pre) (t c0 c1 : Bytes)
    (hc : c0.length + c1.length = count) (dir : Nat) (pt0 pt1 : List (Int × Nat)) (f f' : Nat)
    (hf : (pre ++ t).length + 1 ≤ f) (hf' : pre.length + 1 ≤ f') :
    dataRuns f dir c0 c1 (pre ++ t) pt0 pt1 = dataRuns f' dir c0 c1 pre pt0 pt1 := by
  induction f generalizing f' count pre c0 c1 dir pt0 pt1 with
  | zero => omega
  | succ f ih =>
    cases f' with
    | zero => omega
    | succ f' =>
      by_cases hz : c0.length = 0 ∧ c1.length = 0
      · simp [dataRuns, hz]
      · have hcount : count ≠ 0 := by omega
        obtain ⟨sz, head, rest, hne, rfl, hdec, hsz, hcov⟩ := mfw_SegCovers_uncons h hcount
        have hhl : 1 ≤ head.length := by
          cases head with
          | nil => exact absurd rfl hne
          | cons _ _ => simp
        simp only [List.length_append] at hf hf'
        have hf2 : (rest ++ t).length + 1 ≤ f := by simp only [List.length_append]; omega
        have hf2' : rest.length + 1 ≤ f' := by omega
        have e1 : decVarint (head ++ rest ++ t) = some (sz, rest ++ t) := by rw [List.append_assoc]; exact hdec _
        simp only [dataRuns, hz, if_false, e1, hdec rest]
        by_cases hsz0 : sz = 0
        · subst hsz0
          simp only [if_true]
          exact ih hcov c0 c1 hc (1 - dir) pt0 pt1 f' hf2 hf2'
        · simp only [hsz0, if_false]
          cases hcons : consume dir sz (if dir = 0 then c0 else c1) (if dir = 0 then pt0 else pt1) with
          | error e => rfl
          | ok res =>
            obtain ⟨cs, c, pt⟩ := res
            have hlen := mfw_consume_len _ _ _ _ _ _ _ hcons
            simp only
            by_cases hd : dir = 0
            · simp only [hd, if_true] at hlen ⊢
              rw [ih hcov c c1 (by omega) 1 pt pt1 f' hf2 hf2']
            · simp only [hd, if_false] at hlen ⊢
              rw [ih hcov c0 c (by omega) 0 pt0 pt f' hf2 hf2']

theorem mfw_enc_dec (n : Nat) (hn : n < 2 ^ 64) : ∀ t, decVarint (encVarint n ++ t) = some (n, t) :=
  fun t => varint_roundtrip n hn t

theorem mfw_flip_dec : ∀ t : Bytes, decVarint ([0] ++ t) = some (0, t) := by
  intro t; simp [decVarint, decVarintAux]

theorem segBytes_covers (want : Nat) (runs : List (Nat × Nat)) (hlt : (runs.map (·.2)).sum < 2 ^ 64) :
    ∃ pre rest, segBytes want runs = pre ++ rest ∧ SegCovers (runs.map (·.2)).sum pre := by
  induction runs generalizing want with
  | nil => exact ⟨[], [], rfl, mfw_SegCovers_zero⟩
  | cons dn rs ih =>
    obtain ⟨d, n⟩ := dn
    simp only [List.map_cons, List.sum_cons] at hlt ⊢
    by_cases hz : n + (rs.map (·.2)).sum = 0
    · rw [hz]; exact ⟨[], _, rfl, mfw_SegCovers_zero⟩
    · obtain ⟨pre, rest, hpre, hcov⟩ := ih (1 - d) (by omega)
      have hcov' : SegCovers (n + (rs.map (·.2)).sum - n) pre := by
        rw [Nat.add_sub_cancel_left]; exact hcov
      have h1 : SegCovers (n + (rs.map (·.2)).sum) (encVarint n ++ pre) :=
        mfw_SegCovers_cons (mfw_enc_dec n (by omega)) (by omega) hz hcov'
      simp only [segBytes, hpre]
      by_cases hd : d ≠ want
      · refine ⟨[0] ++ (encVarint n ++ pre), rest, by simp [hd], ?_⟩
        exact mfw_SegCovers_cons mfw_flip_dec (by omega) hz (by simpa using h1)
      · refine ⟨encVarint n ++ pre, rest, by simp [hd], h1⟩


end Pk.Index
