/-
  Helper lemmas for Pk/Props/C05Reasm.lean, target (4): the whole wire of a single conversation.
-/
import Pk.Proofs.ImportReasmConv4

namespace Pk.Proofs.ImportReasm
open Pk.Import

theorem convInv_run (cp : ConvParams) (hs : Stream) (hd : cp.e.Distinct)
    (hfsm : hs.fsm = { state := .established, dir := false })
    (hlc : SeqLinear cp.icn cp.Bc.length) (hls : SeqLinear cp.isn cp.Bs.length) (body : List Pkt) :
    ∀ (done : List Pkt) (r : RState), ConvInv cp hs done r → (∀ p ∈ body, BodyPkt cp p) →
      ConvInv cp hs (done ++ body) (body.foldl reasmPacket r) := by
  induction body with
  | nil => intro done r h _; simpa using h
  | cons p rest ih =>
    intro done r h hb
    have := ih (done ++ [p]) (reasmPacket r p)
      (convInv_step cp hs hd hfsm hlc hls done r p h (hb p (List.mem_cons_self ..)))
      (fun q hm => hb q (List.mem_cons_of_mem _ hm))
    simpa using this

theorem convStream_nil (cp : ConvParams) (hs : Stream) : convStream cp hs [] [] = hs := by
  simp [convStream]

/-- the state after the handshake satisfies the invariant of the data phase -/
theorem convInv_init (e : Endpoints) (p0 p1 : Pkt) (Bc Bs : Bytes) (t0 : Nat) (u : Bool) (ht : t0 ≤ p0.ts) :
    ConvInv ⟨e, seqAdd p0.seq 1, seqAdd p1.seq 1, Bc, Bs, t0⟩ (hsStream e p0 p1) []
      { streams := #[hsStream e p0 p1], tcp := [hsConn e p0 p1], udp := [], unmodelled := u } := by
  refine ⟨hsConn e p0 p1, u, 0, 0, [], by rw [convStream_nil], ⟨rfl, rfl, rfl, rfl, rfl⟩,
    ⟨rfl, rfl, Nat.zero_le _, ⟨(by intro pg hm; cases hm), List.Pairwise.nil⟩⟩,
    ⟨rfl, rfl, Nat.zero_le _, ⟨(by intro pg hm; cases hm), List.Pairwise.nil⟩⟩,
    ht, (by intro pg hm; cases hm), (by intro pg hm; cases hm), .nil, ?_, ?_⟩
  · intro x ⟨q, hm, _⟩; cases hm
  · intro x ⟨q, hm, _⟩; cases hm

/-- bytes of one direction in `Data`: the chunks whose packet has direction `d`, in order -/
def dirBytes (st : Stream) (d : Bool) : Bytes :=
  ((st.data.filter (fun ch => st.dirOf ch.1 == d)).map (·.2)).flatten

theorem chunks2_bytes {cp : ConvParams} {n0 : Nat} {done : List Pkt} (hd : cp.e.Distinct) (f : Nat → Bool)
    (hf : ∀ k p, done[k]? = some p → f (n0 + k) = pdir cp.e p) {cc cs : Nat} {chunks : List (Nat × Bytes)}
    (h : Chunks2 cp n0 done cc cs chunks) :
    ((chunks.reverse.filter (fun ch => f ch.1 == false)).map (·.2)).flatten = cp.Bc.take cc ∧
    ((chunks.reverse.filter (fun ch => f ch.1 == true)).map (·.2)).flatten = cp.Bs.take cs := by
  induction h with
  | nil => simp
  | c2s _ h1 h2 h3 h4 _ _ _ _ ih =>
    have hfk := hf _ _ h3
    rw [pdir_c2s hd h4] at hfk
    simp only [List.reverse_cons, List.filter_append, List.map_append, List.flatten_append, ih.1, ih.2]
    simp only [List.filter_cons, List.filter_nil, hfk]
    refine ⟨?_, by simp⟩
    simp only [beq_self_eq_true, if_true, List.map_cons, List.map_nil, List.flatten_cons, List.flatten_nil,
      List.append_nil]
    rw [← slice_zero, ← slice_zero, slice_append (Nat.zero_le _) (Nat.le_of_lt h1)]
  | s2c _ h1 h2 h3 h4 _ _ _ _ ih =>
    have hfk := hf _ _ h3
    rw [pdir_s2c h4] at hfk
    simp only [List.reverse_cons, List.filter_append, List.map_append, List.flatten_append, ih.1, ih.2]
    simp only [List.filter_cons, List.filter_nil, hfk]
    refine ⟨by simp, ?_⟩
    simp only [beq_self_eq_true, if_true, List.map_cons, List.map_nil, List.flatten_cons, List.flatten_nil,
      List.append_nil]
    rw [← slice_zero, ← slice_zero, slice_append (Nat.zero_le _) (Nat.le_of_lt h1)]

theorem convStream_dirOf (cp : ConvParams) (hs : Stream) (done : List Pkt)
    (chunks : List (Nat × Bytes)) (k : Nat) (p : Pkt) (hk : done[k]? = some p) :
    (convStream cp hs done chunks).dirOf (hs.npkts + k) = pdir cp.e p := by
  have hlt := (List.getElem?_eq_some_iff.mp hk).1
  unfold Stream.dirOf convStream
  simp only
  have hidx : hs.npkts + done.length - 1 - (hs.npkts + k) = done.length - 1 - k := by omega
  rw [hidx, List.getElem?_append_left (by simp; omega), List.getElem?_reverse (by simp; omega)]
  have : (List.map (fun p => (p.ref, pdir cp.e p)) done).length - 1 - (done.length - 1 - k) = k := by
    simp; omega
  rw [this, List.getElem?_map, hk]
  rfl

end Pk.Proofs.ImportReasm
