/-
  Helper lemmas for C09 `settles`, part 3: what the converter-job starter does to the measure.
-/
import Pk.Proofs.MgrTermination
namespace Pk.Proofs.MgrTermination
open Pk.Mgr Pk.Proofs.MgrTags
open Pk.Proofs.MgrConv (cOf qOf activeOf sc2 clr1 add1 foundOf)

theorem sum_map_le {α} (l : List α) (f g : α → Nat) (h : ∀ c ∈ l, f c ≤ g c) :
    (l.map f).sum ≤ (l.map g).sum := by
  induction l with
  | nil => simp
  | cons a l ih =>
    simp only [List.map_cons, List.sum_cons]
    have := h a List.mem_cons_self
    have := ih (fun c hc => h c (List.mem_cons_of_mem _ hc))
    omega

theorem sum_map_lt {α} (l : List α) (f g : α → Nat) (h : ∀ c ∈ l, f c ≤ g c) (c0 : α) (hc0 : c0 ∈ l)
    (hlt : f c0 < g c0) : (l.map f).sum < (l.map g).sum := by
  induction l with
  | nil => cases hc0
  | cons a l ih =>
    simp only [List.map_cons, List.sum_cons]
    have h1 := h a List.mem_cons_self
    have h2 := sum_map_le l f g (fun c hc => h c (List.mem_cons_of_mem _ hc))
    rcases List.mem_cons.mp hc0 with rfl | hc
    · omega
    · have := ih (fun c hc => h c (List.mem_cons_of_mem _ hc)) hc
      omega

/-- caches only grow ⇒ `m2` does not grow -/
theorem m2_mono (s s' : St) (hc : s'.convs = s.convs) (ha : s'.all = s.all)
    (hm : ∀ c id, id ∈ cOf s c → id ∈ cOf s' c) : m2 s' ≤ m2 s := by
  unfold m2
  rw [hc, ha]
  apply sum_map_le
  intro c _
  apply List.countP_mono_left
  intro id _ h
  simp only [Bool.not_eq_true', List.contains_eq_mem, decide_eq_false_iff_not] at h ⊢
  exact fun h' => h (hm c id h')

theorem m2_lt (s s' : St) (hc : s'.convs = s.convs) (ha : s'.all = s.all)
    (hm : ∀ c id, id ∈ cOf s c → id ∈ cOf s' c) (c0 : String) (hc0 : c0 ∈ s.convs) (id0 : Nat)
    (hid : id0 < s.all) (h1 : id0 ∉ cOf s c0) (h2 : id0 ∈ cOf s' c0) : m2 s' < m2 s := by
  unfold m2
  rw [hc, ha]
  refine sum_map_lt _ _ _ ?_ c0 hc0 ?_
  · intro c _
    apply List.countP_mono_left
    intro id _ h
    simp only [Bool.not_eq_true', List.contains_eq_mem, decide_eq_false_iff_not] at h ⊢
    exact fun h' => h (hm c id h')
  · refine countP_lt_of _ _ _ ?_ id0 (List.mem_range.mpr hid) ?_ ?_
    · intro id _ h
      simp only [Bool.not_eq_true', List.contains_eq_mem, decide_eq_false_iff_not] at h ⊢
      exact fun h' => h (hm c0 id h')
    · simpa using h1
    · simpa using h2

/-! ### frames of the converter-job starter -/

theorem sc2_fr {γ : Type _} (g : St → γ) (h1 : ∀ s t, g { s with toconv := t } = g s)
    (h2 : ∀ s t, g { s with cached := t } = g s) (h3 : ∀ s u, g { s with used := u } = g s)
    (h4 : ∀ s c j, g { s with convert := c, jConv := j } = g s) (s : St) : g (sc2 s) = g s := by
  simp only [sc2]
  rw [h4, foldl_fr (g := g) (f := add1 _) _ _ (fun s x => h2 s _), h3,
    foldl_fr (g := g) (f := clr1) _ _ (fun s x => h1 s _)]

theorem startConverter_fr {γ : Type _} (g : St → γ) (h1 : ∀ s t, g { s with toconv := t } = g s)
    (h2 : ∀ s t, g { s with cached := t } = g s) (h3 : ∀ s u, g { s with used := u } = g s)
    (h4 : ∀ s c j, g { s with convert := c, jConv := j } = g s) (s : St) : g (startConverter s) = g s := by
  rw [MgrConv.startConverter_eq]
  split
  · rfl
  · split
    · rfl
    · exact sc2_fr g h1 h2 h3 h4 s

theorem startConverter_queue (s : St) : (startConverter s).queue = s.queue :=
  startConverter_fr (·.queue) (fun _ _ => rfl) (fun _ _ => rfl) (fun _ _ => rfl) (fun _ _ _ => rfl) s
theorem startConverter_coreT (s : St) : coreT (startConverter s) = coreT s :=
  startConverter_fr coreT (fun _ _ => rfl) (fun _ _ => rfl) (fun _ _ => rfl) (fun _ _ _ => rfl) s
theorem startConverter_coreM (s : St) : coreM (startConverter s) = coreM s :=
  startConverter_fr coreM (fun _ _ => rfl) (fun _ _ => rfl) (fun _ _ => rfl) (fun _ _ _ => rfl) s
theorem startConverter_all (s : St) : (startConverter s).all = s.all :=
  startConverter_fr (·.all) (fun _ _ => rfl) (fun _ _ => rfl) (fun _ _ => rfl) (fun _ _ _ => rfl) s
theorem startConverter_convs (s : St) : (startConverter s).convs = s.convs :=
  startConverter_fr (·.convs) (fun _ _ => rfl) (fun _ _ => rfl) (fun _ _ => rfl) (fun _ _ _ => rfl) s

theorem sc2_jConv (s : St) :
    (sc2 s).jConv = some ((activeOf s).map fun x =>
      (x.1, inter (diff x.2 (cOf s x.1)) (foundOf s.files s.idx)), s.idx) ∧ (sc2 s).convert = true := by
  have h1 := MgrConv.clr_fold (activeOf s) s
  simp only [MgrConv.NQ, Prod.mk.injEq] at h1
  simp only [sc2, cOf, List.drop_zero, h1.2.2.2.1, h1.2.2.2.2.1, h1.2.2.2.2.2.1, and_self]

theorem sc2_qOf (s : St) (c : String) (hc : c ∈ s.convs) : qOf (sc2 s) c = [] := by
  have h2 := MgrConv.add_fold (foundOf ((activeOf s).foldl clr1 s).files (((activeOf s).foldl clr1 s).idx.drop 0))
    (activeOf s) { ((activeOf s).foldl clr1 s) with
      used := lock ((activeOf s).foldl clr1 s).used (((activeOf s).foldl clr1 s).idx.drop 0) }
  simp only [MgrConv.NC, Prod.mk.injEq] at h2
  have : qOf (sc2 s) c = qOf ((activeOf s).foldl clr1 s) c := by
    simp only [sc2, qOf, h2.2.2.2.2.2.1]
  rw [this, MgrConv.clr_fold_q]
  split
  · rfl
  · rename_i hn
    by_cases he : qOf s c = []
    · exact he
    · exfalso
      apply hn
      have : (c, qOf s c) ∈ activeOf s := (MgrConv.mem_activeOf s c (qOf s c)).mpr ⟨hc, rfl, he⟩
      exact List.mem_map.mpr ⟨_, this, rfl⟩

/-- the converter-job starter: caches only grow; a job that will hand back streams has cached a new
    stream; the bookkeeping part of the measure does not grow -/
theorem startConverter_meas (X : St) (_hj : X.convert = false → X.jConv = none)
    (hb : ∀ sets held, (startConverter X).jConv = some (sets, held) → ∀ p ∈ sets, ∀ id ∈ p.2, id < X.all) :
    m2 (startConverter X) ≤ m2 X ∧ (m3 (startConverter X) ≤ m3 X ∨ m2 (startConverter X) < m2 X) ∧
    m5 (startConverter X) ≤ m5 X := by
  have hmono : m2 (startConverter X) ≤ m2 X :=
    m2_mono X _ (startConverter_convs X) (startConverter_all X) (MgrConv.startConverter_cached_mono X)
  refine ⟨hmono, ?_⟩
  rw [MgrConv.startConverter_eq] at hb ⊢
  split
  · exact ⟨Or.inl (Nat.le_refl _), Nat.le_refl _⟩
  · rename_i hconv
    split
    · exact ⟨Or.inl (Nat.le_refl _), Nat.le_refl _⟩
    · rename_i hact
      rw [if_neg hconv, if_neg hact] at hb
      have hconv' : X.convert = false := by simpa using hconv
      obtain ⟨hjc, hcv⟩ := sc2_jConv X
      have hconvs : (sc2 X).convs = X.convs := (MgrConv.sc2_frame X).2.1
      have hall : (sc2 X).all = X.all :=
        sc2_fr (·.all) (fun _ _ => rfl) (fun _ _ => rfl) (fun _ _ => rfl) (fun _ _ _ => rfl) X
      constructor
      · by_cases h3 : m3 (sc2 X) = 0
        · left; omega
        · right
          simp only [m3, hjc, hconvs] at h3
          split at h3
          · rename_i hany
            obtain ⟨p, hp, hpp⟩ := List.any_eq_true.mp hany
            simp only [Bool.and_eq_true, List.contains_eq_mem, decide_eq_true_eq, Bool.not_eq_true',
              List.isEmpty_eq_false_iff] at hpp
            obtain ⟨hpc, hpne⟩ := hpp
            obtain ⟨id, hid⟩ := exists_mem_of_ne_nil hpne
            have hlt : id < X.all := hb _ _ hjc p hp id hid
            obtain ⟨x, hx, rfl⟩ := List.mem_map.mp hp
            obtain ⟨c, req⟩ := x
            obtain ⟨hx1, hx2, _⟩ := (MgrConv.mem_activeOf X c req).mp hx
            simp only [mem_inter, mem_diff] at hid
            refine m2_lt X (sc2 X) hconvs hall ?_ c hx1 id hlt hid.1.2 ?_
            · intro c' id' h'; rw [MgrConv.sc2_cached]; exact Or.inl h'
            · rw [MgrConv.sc2_cached]; exact Or.inr ⟨hx1, hx2 ▸ hid.1.1, hid.2⟩
          · exact absurd rfl h3
      · -- bookkeeping
        have hne : (X.convs.filter fun c => !(qOf X c).isEmpty) ≠ [] := by
          have hact' : activeOf X ≠ [] := by simpa [List.isEmpty_iff] using hact
          obtain ⟨x, hx⟩ := List.exists_mem_of_ne_nil _ hact'
          obtain ⟨c, req⟩ := x
          obtain ⟨hx1, hx2, hx3⟩ := (MgrConv.mem_activeOf X c req).mp hx
          intro e
          have : c ∈ X.convs.filter fun c => !(qOf X c).isEmpty := by
            simp only [List.mem_filter, hx1, true_and, Bool.not_eq_true', List.isEmpty_eq_false_iff]
            exact hx2 ▸ hx3
          rw [e] at this; cases this
        have hlen : 0 < (X.convs.filter fun c => !(qOf X c).isEmpty).length := List.length_pos_iff.mpr hne
        have hnil : ((sc2 X).convs.filter fun c => !(qOf (sc2 X) c).isEmpty) = [] := by
          rw [List.filter_eq_nil_iff]
          intro c hc
          rw [hconvs] at hc
          simp [sc2_qOf X c hc]
        simp only [m5, hnil, hcv, hconv']
        simp only [List.length_nil, if_true, Bool.false_eq_true, if_false]
        omega

end Pk.Proofs.MgrTermination
