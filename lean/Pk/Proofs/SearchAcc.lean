/-
  Helper lemmas for C02: the result accumulator, the scans, shadowing.
-/
import Pk.Model.Search
import Pk.Proofs.SearchOrder

namespace Pk.Proofs.Search
open Pk.Search

/-- the matches among a list of scan events -/
def fed (evs : List (Rec × Bool)) : List Rec := (evs.filter (·.2)).map (·.1)

/-- what `SearchStreams` returns from the final accumulator -/
def finish (a : Acc) (skip : Nat) : List Nat × Bool :=
  if a.streams.length ≤ skip then ([], false) else ((a.streams.drop skip).map (·.id), a.dropped != 0)



theorem scan_append (lt stopLt : Rec → Rec → Bool) (limit : Nat) (a : Acc) (e1 e2 : List (Rec × Bool)) :
    scan lt stopLt limit false a (e1 ++ e2) = scan lt stopLt limit false (scan lt stopLt limit false a e1) e2 := by
  induction e1 generalizing a with
  | nil => rfl
  | cons e r ih =>
    obtain ⟨s, m⟩ := e
    simp [scan, ih]

theorem notSuperseded_iff (nw : List (List (Rec × Bool))) (s : Rec) :
    notSuperseded nw s = true ↔ ∀ g ∈ nw, ∀ x ∈ g, x.1.id ≠ s.id := by
  simp [notSuperseded]

theorem shadowing_gen (files nw : List (List (Rec × Bool))) (e : Rec × Bool) :
    e ∈ visible nw files ↔
      ∃ newer f older, files = newer ++ f :: older ∧ e ∈ f ∧ ∀ g ∈ nw ++ newer, ∀ x ∈ g, x.1.id ≠ e.1.id := by
  induction files generalizing nw with
  | nil => simp [visible]
  | cons f older ih =>
    simp only [visible, List.mem_append, List.mem_filter, notSuperseded_iff, ih]
    constructor
    · rintro (⟨hf, hn⟩ | ⟨newer, f', older', rfl, hf, hn⟩)
      · exact ⟨[], f, older, rfl, hf, by simpa using hn⟩
      · refine ⟨f :: newer, f', older', rfl, hf, ?_⟩
        intro g hg
        apply hn
        simp at hg ⊢
        rcases hg with h | h | h <;> simp [h]
    · rintro ⟨newer, f', older', heq, hf, hn⟩
      cases newer with
      | nil =>
        simp at heq
        obtain ⟨rfl, rfl⟩ := heq
        left
        exact ⟨hf, by simpa using hn⟩
      | cons g newer' =>
        simp at heq
        obtain ⟨rfl, rfl⟩ := heq
        right
        refine ⟨newer', f', older', rfl, hf, ?_⟩
        intro g' hg'
        apply hn
        simp only [List.mem_cons, List.not_mem_nil, or_false] at hg' ⊢
        rcases hg' with (h | h) | h <;> simp [h]

theorem shadowing_exact' (files : List (List (Rec × Bool))) (e : Rec × Bool) :
    e ∈ visible [] files ↔
      ∃ newer f older, files = newer ++ f :: older ∧ e ∈ f ∧ ∀ g ∈ newer, ∀ x ∈ g, x.1.id ≠ e.1.id := by
  simpa using shadowing_gen files [] e

theorem fed_append (a b : List (Rec × Bool)) : fed (a ++ b) = fed a ++ fed b := by
  simp [fed]

theorem fed_file (p : Rec → Bool) (f : List (Rec × Bool)) :
    fed (f.map (fun e => (e.1, e.2 && p e.1))) = ((f.filter (fun e => p e.1)).filter (·.2)).map (·.1) := by
  induction f with
  | nil => rfl
  | cons e r ih =>
    simp only [fed] at ih
    cases h1 : e.2 <;> cases h2 : p e.1 <;> simp [fed, h1, h2, ih]

theorem fed_flagged (files nw : List (List (Rec × Bool))) :
    fed (flagged nw files) = ((visible nw files).filter (·.2)).map (·.1) := by
  induction files generalizing nw with
  | nil => rfl
  | cons f older ih =>
    simp only [flagged, visible, fed_append, ih, fed_file, List.filter_append, List.map_append]

theorem searchFiles_eq_scan' (lt stopLt : Rec → Rec → Bool) (limit : Nat) (files newer : List (List (Rec × Bool))) (a : Acc) :
    searchFiles lt stopLt limit false newer files a = scan lt stopLt limit false a (flagged newer files) ∧
    fed (flagged [] files) = matchesOf files := by
  refine ⟨?_, fed_flagged files []⟩
  induction files generalizing newer a with
  | nil => rfl
  | cons f older ih =>
    simp only [searchFiles, flagged, scan_append, ih]


/-! ### one call of the accumulator, by cases -/


theorem step_spec (lt stopLt : Rec → Rec → Bool) (limit : Nat) (a : Acc) (s : Rec) (m : Bool) :
    (∃ last, a.streams[limit - 1]? = some last ∧ a.dropped ≠ 0 ∧ limit ≠ 0 ∧ limit ≤ a.streams.length ∧
        lt s last = false ∧ step lt stopLt limit a s m = (a, stopLt last s)) ∨
    (m = false ∧ step lt stopLt limit a s m = (a, false)) ∨
    (m = true ∧ (limit = 0 ∨ a.streams.length < limit) ∧
        step lt stopLt limit a s m = ({ a with streams := insertSorted lt s a.streams }, false)) ∨
    (∃ last, a.streams[limit - 1]? = some last ∧ m = true ∧ limit ≠ 0 ∧ limit ≤ a.streams.length ∧
        lt s last = true ∧
        step lt stopLt limit a s m =
          ({ streams := insertSorted lt s a.streams.dropLast, dropped := a.dropped + 1 }, false)) ∨
    (∃ last, a.streams[limit - 1]? = some last ∧ m = true ∧ limit ≠ 0 ∧ limit ≤ a.streams.length ∧
        lt s last = false ∧
        step lt stopLt limit a s m = ({ a with dropped := a.dropped + 1 }, stopLt last s)) := by
  cases hl : a.streams[limit - 1]? with
  | none =>
    have hlen : limit = 0 ∨ a.streams.length < limit := by
      rw [List.getElem?_eq_none_iff] at hl
      omega
    cases m with
    | false => right; left; simp [step, hl]
    | true => right; right; left; simp [step, hl, hlen]
  | some last =>
    by_cases hc1 : (a.dropped != 0 && limit != 0 && decide (limit ≤ a.streams.length) && !lt s last) = true
    · left
      refine ⟨last, rfl, ?_⟩
      have hc1' := hc1
      simp only [Bool.and_eq_true, bne_iff_ne, decide_eq_true_eq, Bool.not_eq_true'] at hc1'
      refine ⟨hc1'.1.1.1, hc1'.1.1.2, hc1'.1.2, hc1'.2, ?_⟩
      simp only [step, hl, hc1, if_true]
    · cases m with
      | false => right; left; simp only [step, hl, hc1]; simp
      | true =>
        by_cases hc2 : (limit == 0 || decide (a.streams.length < limit)) = true
        · right; right; left
          refine ⟨rfl, by simpa using hc2, ?_⟩
          simp only [step, hl, hc1, hc2]; simp
        · have hc2' : limit ≠ 0 ∧ limit ≤ a.streams.length := by
            simp at hc2; omega
          cases hc3 : lt s last with
          | true =>
            right; right; right; left
            refine ⟨last, rfl, rfl, hc2'.1, hc2'.2, hc3, ?_⟩
            simp only [step, hl, hc2, hc3]; simp
          | false =>
            right; right; right; right
            refine ⟨last, rfl, rfl, hc2'.1, hc2'.2, hc3, ?_⟩
            have hd : a.dropped = 0 := by
              simp [hc3] at hc1
              exact Classical.byContradiction fun h => absurd hc2'.2 (by have := hc1 h hc2'.1; omega)
            simp only [step, hl, hc2, hc3, hd]; simp

/-! ### the early exit -/

/-- the accumulator is full and something was dropped: the limit pre-check is armed -/
def Armed (limit : Nat) (a : Acc) (last : Rec) : Prop :=
  a.streams[limit - 1]? = some last ∧ a.dropped ≠ 0 ∧ limit ≠ 0 ∧ limit ≤ a.streams.length

theorem step_armed (lt stopLt : Rec → Rec → Bool) (limit : Nat) (a : Acc) (last s : Rec) (m : Bool)
    (h : Armed limit a last) (hs : lt s last = false) :
    step lt stopLt limit a s m = (a, stopLt last s) := by
  obtain ⟨h1, h2, h3, h4⟩ := h
  simp [step, h1, h2, h3, h4, hs]

theorem step_stop (lt stopLt : Rec → Rec → Bool) (limit : Nat) (a : Acc) (s : Rec) (m : Bool)
    (h : (step lt stopLt limit a s m).2 = true) :
    ∃ last, Armed limit (step lt stopLt limit a s m).1 last ∧ stopLt last s = true := by
  rcases step_spec lt stopLt limit a s m with ⟨last, h1, h2, h3, h4, _, he⟩ | ⟨_, he⟩ | ⟨_, _, he⟩ |
    ⟨last, _, _, _, _, _, he⟩ | ⟨last, h1, _, h3, h4, _, he⟩
  · rw [he] at h ⊢
    exact ⟨last, ⟨h1, h2, h3, h4⟩, h⟩
  · rw [he] at h; cases h
  · rw [he] at h; cases h
  · rw [he] at h; cases h
  · rw [he] at h ⊢
    exact ⟨last, ⟨h1, by simp, h3, h4⟩, h⟩

theorem scan_armed (lt stopLt : Rec → Rec → Bool) (limit : Nat) (a : Acc) (last : Rec)
    (evs : List (Rec × Bool)) (h : Armed limit a last) (hs : ∀ e ∈ evs, lt e.1 last = false) :
    scan lt stopLt limit false a evs = a := by
  induction evs with
  | nil => rfl
  | cons e r ih =>
    obtain ⟨s, m⟩ := e
    simp only [scan, step_armed lt stopLt limit a last s m h (hs (s, m) (by simp))]
    simpa using ih (fun e he => hs e (by simp [he]))

theorem early_exit_sound' (keys : List SortKey) (p : Rec → Rec → Bool) (limit : Nat) (a : Acc)
    (evs : List (Rec × Bool))
    (hp_trans : ∀ x y z, p x y = true → p z y = false → p x z = true)
    (hrefine : ∀ x y, less keys x y = true → p y x = false)
    (hsorted : (evs.map (·.1)).Pairwise (fun x y => p y x = false)) :
    scan (less keys) p limit true a evs = scan (less keys) p limit false a evs := by
  induction evs generalizing a with
  | nil => rfl
  | cons e r ih =>
    obtain ⟨s, m⟩ := e
    simp only [List.map_cons, List.pairwise_cons] at hsorted
    simp only [scan, Bool.true_and, Bool.false_and]
    cases hstop : (step (less keys) p limit a s m).2 with
    | false => simpa using ih _ hsorted.2
    | true =>
      obtain ⟨last, harm, hpl⟩ := step_stop _ _ _ _ _ _ hstop
      simp only [if_true]
      rw [scan_armed _ _ _ _ last r harm]
      · simp
      · intro e he
        have h1 : p e.1 s = false := hsorted.1 e.1 (List.mem_map_of_mem he)
        have h2 : p last e.1 = true := hp_trans last s e.1 hpl h1
        cases h3 : less keys e.1 last with
        | false => rfl
        | true => rw [hrefine _ _ h3] at h2; cases h2

theorem searchFiles_sorted (keys : List SortKey) (p : Rec → Rec → Bool) (limit : Nat)
    (hp_trans : ∀ x y z, p x y = true → p z y = false → p x z = true)
    (hrefine : ∀ x y, less keys x y = true → p y x = false)
    (files newer : List (List (Rec × Bool))) (a : Acc)
    (hsorted : ∀ f ∈ files, (f.map (·.1)).Pairwise (fun x y => p y x = false)) :
    searchFiles (less keys) p limit true newer files a = searchFiles (less keys) p limit false newer files a := by
  induction files generalizing newer a with
  | nil => rfl
  | cons f older ih =>
    simp only [searchFiles]
    rw [early_exit_sound' keys p limit a _ hp_trans hrefine]
    · exact ih _ _ (fun f hf => hsorted f (by simp [hf]))
    · have := hsorted f (by simp)
      simpa [List.map_map, Function.comp_def] using this

theorem search_sorted_eq_unsorted' (keys : List SortKey) (limit skip : Nat) (files : List (List (Rec × Bool)))
    (hsorted : ∀ f ∈ files, (f.map (·.1)).Pairwise (fun x y => primLess (effKeys keys) y x = false)) :
    search keys limit skip true files = search keys limit skip false files := by
  unfold search
  by_cases ht : limit + skip = 0
  · simp [ht]
  · have : (limit + skip != 0) = true := by simpa using ht
    simp only [this, Bool.false_and, Bool.and_self]
    rw [searchFiles_sorted (effKeys keys) _ _ (primLess_side _).1 (primLess_side _).2 files [] {} hsorted]

/-! ### binary search, sorted insertion, the invariant of the accumulator -/


theorem sortSearchAux_spec (f : Nat → Bool) (n : Nat) (fuel i j : Nat)
    (hij : i ≤ j) (hjn : j ≤ n) (hfuel : j - i < fuel)
    (hi : 0 < i → f (i - 1) = false) (hj : j < n → f j = true) :
    let r := sortSearchAux f fuel i j
    r ≤ n ∧ (0 < r → f (r - 1) = false) ∧ (r < n → f r = true) := by
  induction fuel generalizing i j with
  | zero => omega
  | succ fuel ih =>
    simp only [sortSearchAux]
    by_cases hlt : i < j
    · simp only [hlt, if_true]
      cases hf : f ((i + j) / 2) with
      | false =>
        simp only [Bool.not_false, if_true]
        apply ih
        · omega
        · exact hjn
        · omega
        · intro _; simpa using hf
        · exact hj
      | true =>
        simp only [Bool.not_true, Bool.false_eq_true, if_false]
        apply ih
        · omega
        · omega
        · omega
        · exact hi
        · intro _; exact hf
    · simp only [hlt, if_false]
      have : i = j := by omega
      subst this
      exact ⟨hjn, hi, hj⟩

theorem sortSearch_spec (n : Nat) (f : Nat → Bool) :
    sortSearch n f ≤ n ∧ (0 < sortSearch n f → f (sortSearch n f - 1) = false) ∧
      (sortSearch n f < n → f (sortSearch n f) = true) :=
  sortSearchAux_spec f n (n + 1) 0 n (Nat.zero_le _) (Nat.le_refl _) (by omega) (by omega) (by omega)

theorem insertSorted_perm (lt : Rec → Rec → Bool) (s : Rec) (l : List Rec) :
    (insertSorted lt s l).Perm (s :: l) := by
  unfold insertSorted
  refine List.perm_middle.trans ?_
  rw [List.take_append_drop]

theorem insertSorted_length (lt : Rec → Rec → Bool) (s : Rec) (l : List Rec) :
    (insertSorted lt s l).length = l.length + 1 := by
  simpa using (insertSorted_perm lt s l).length_eq

abbrev SortedK (keys : List SortKey) (l : List Rec) : Prop := l.Pairwise (fun x y => less keys y x = false)

theorem insertSorted_sorted (keys : List SortKey) (s : Rec) (l : List Rec) (hl : SortedK keys l) :
    SortedK keys (insertSorted (less keys) s l) := by
  unfold insertSorted
  generalize hf : (fun (i : Nat) => match l[i]? with | some x => less keys s x | none => true) = f
  obtain ⟨hn, h0, h1⟩ := sortSearch_spec l.length f
  generalize sortSearch l.length f = pos at hn h0 h1
  have hpw := List.pairwise_iff_getElem.mp hl
  have hbefore : ∀ x ∈ l.take pos, less keys s x = false := by
    intro x hx
    obtain ⟨k, hk, rfl⟩ := List.mem_take_iff_getElem.mp hx
    have hk1 : k < pos := by omega
    have hk2 : k < l.length := by omega
    have hp : less keys s l[pos - 1] = false := by
      have := h0 (by omega)
      rw [← hf] at this
      simpa [List.getElem?_eq_getElem (show pos - 1 < l.length by omega)] using this
    by_cases hkp : k = pos - 1
    · subst hkp; exact hp
    · exact less_incomp_trans keys s l[pos - 1] l[k] hp (hpw k (pos - 1) hk2 (by omega) (by omega))
  have hafter : ∀ y ∈ l.drop pos, less keys y s = false := by
    intro y hy
    obtain ⟨k, hk, rfl⟩ := List.mem_drop_iff_getElem.mp hy
    have hp : less keys s l[pos] = true := by
      have := h1 (by omega)
      rw [← hf] at this
      simpa [List.getElem?_eq_getElem (show pos < l.length by omega)] using this
    apply less_asymm
    by_cases hk0 : k = 0
    · subst hk0; simpa using hp
    · exact less_lt_of_lt_of_le keys s l[pos] l[pos + k] hp (hpw pos (pos + k) (by omega) (by omega) (by omega))
  rw [show SortedK keys (l.take pos ++ s :: l.drop pos) ↔ _ from List.pairwise_append]
  refine ⟨?_, ?_, ?_⟩
  · exact hl.sublist (List.take_sublist _ _)
  · rw [List.pairwise_cons]
    exact ⟨hafter, hl.sublist (List.drop_sublist _ _)⟩
  · intro x hx y hy
    rw [List.mem_cons] at hy
    rcases hy with rfl | hy
    · exact hbefore x hx
    · rw [← List.take_append_drop pos l] at hl
      exact (List.pairwise_append.mp hl).2.2 x hx y hy

/-- invariant of the accumulator w.r.t. the matches `ms` fed so far -/
structure Inv (keys : List SortKey) (limit : Nat) (a : Acc) (ms : List Rec) : Prop where
  sorted : SortedK keys a.streams
  len : limit ≠ 0 → a.streams.length ≤ limit
  rest : ∃ rest, (a.streams ++ rest).Perm ms ∧ (∀ x ∈ rest, ∀ t ∈ a.streams, less keys x t = false) ∧
    (a.dropped = 0 → rest = [])
  count : a.streams.length + a.dropped ≤ ms.length
  full : a.dropped ≠ 0 → limit ≠ 0 ∧ a.streams.length = limit

theorem Inv.empty (keys : List SortKey) (limit : Nat) : Inv keys limit {} [] :=
  ⟨List.Pairwise.nil, by simp, ⟨[], by simp⟩, by simp, by simp⟩

theorem Inv.perm {keys limit a ms ms'} (h : Inv keys limit a ms) (hp : ms.Perm ms') : Inv keys limit a ms' := by
  obtain ⟨h1, h2, ⟨rest, h3, h4, h5⟩, h6, h7⟩ := h
  exact ⟨h1, h2, ⟨rest, h3.trans hp, h4, h5⟩, by rw [← hp.length_eq]; exact h6, h7⟩

/-- the full list splits into its front and the last kept element, which is a maximum -/
theorem last_split (keys : List SortKey) (limit : Nat) (l : List Rec) (last : Rec)
    (hs : SortedK keys l) (hl : l[limit - 1]? = some last) (_h0 : limit ≠ 0) (hlen : l.length = limit) :
    l = l.dropLast ++ [last] ∧ ∀ t ∈ l, less keys last t = false := by
  obtain ⟨hlt, hget⟩ := List.getElem?_eq_some_iff.mp hl
  have hne : l ≠ [] := by intro h; subst h; simp at hlt
  have hlast : l.getLast hne = last := by
    rw [List.getLast_eq_getElem]
    simpa [hlen] using hget
  have hsplit : l = l.dropLast ++ [last] := by
    rw [← hlast]; exact (List.dropLast_concat_getLast hne).symm
  refine ⟨hsplit, ?_⟩
  intro t ht
  rw [hsplit] at ht hs
  rw [List.mem_append] at ht
  rcases ht with ht | ht
  · exact (List.pairwise_append.mp hs).2.2 t ht last (by simp)
  · simp at ht; subst ht; exact less_irrefl keys _

theorem step_inv (keys : List SortKey) (stopLt : Rec → Rec → Bool) (limit : Nat) (a : Acc) (ms : List Rec)
    (s : Rec) (m : Bool) (h : Inv keys limit a ms) :
    Inv keys limit (step (less keys) stopLt limit a s m).1 (if m then s :: ms else ms) := by
  obtain ⟨h1, h2, ⟨rest, h3, h4, h5⟩, h6, h7⟩ := h
  rcases step_spec (less keys) stopLt limit a s m with ⟨last, hl, hd, h0, hlen, hlt, he⟩ | ⟨hm, he⟩ |
    ⟨hm, hlim, he⟩ | ⟨last, hl, hm, h0, hlen, hlt, he⟩ | ⟨last, hl, hm, h0, hlen, hlt, he⟩
  · -- limit pre-check: `s` is skipped
    rw [he]
    have hlen' : a.streams.length = limit := Nat.le_antisymm (h2 h0) hlen
    obtain ⟨_, hmax⟩ := last_split keys limit a.streams last h1 hl h0 hlen'
    cases m with
    | false => exact ⟨h1, h2, ⟨rest, h3, h4, h5⟩, h6, h7⟩
    | true =>
      refine ⟨h1, h2, ⟨s :: rest, ?_, ?_, fun h => absurd h hd⟩, ?_, h7⟩
      · exact List.perm_middle.trans (List.Perm.cons _ h3)
      · intro x hx t ht
        rw [List.mem_cons] at hx
        rcases hx with rfl | hx
        · exact less_incomp_trans keys _ last t hlt (hmax t ht)
        · exact h4 x hx t ht
      · simp only [if_true, List.length_cons]; omega
  · -- no match
    rw [he]; subst hm
    exact ⟨h1, h2, ⟨rest, h3, h4, h5⟩, h6, h7⟩
  · -- room left: insert
    rw [he]; subst hm
    have hd : a.dropped = 0 := by
      apply Classical.byContradiction
      intro hd
      have := h7 hd
      omega
    have hr := h5 hd
    subst hr
    simp only [List.append_nil] at h3
    refine ⟨insertSorted_sorted keys s _ h1, ?_, ⟨[], ?_, by simp, fun _ => rfl⟩, ?_, ?_⟩
    · intro h0
      simp only [insertSorted_length]
      omega
    · simp only [List.append_nil, if_true]
      exact (insertSorted_perm _ s _).trans (List.Perm.cons _ h3)
    · simp only [insertSorted_length, if_true, List.length_cons]; omega
    · intro h; exact absurd hd h
  · -- full, better than the last: replace it
    rw [he]; subst hm
    have hlen' : a.streams.length = limit := Nat.le_antisymm (h2 h0) hlen
    obtain ⟨hsplit, hmax⟩ := last_split keys limit a.streams last h1 hl h0 hlen'
    have hdl : (a.streams.dropLast).length = limit - 1 := by simp [hlen']
    have hsdl : SortedK keys a.streams.dropLast := h1.sublist (List.dropLast_sublist _)
    refine ⟨insertSorted_sorted keys s _ hsdl, ?_, ⟨last :: rest, ?_, ?_, by simp⟩, ?_, ?_⟩
    · intro _; simp only [insertSorted_length, hdl]; omega
    · simp only [if_true]
      have p1 : (insertSorted (less keys) s a.streams.dropLast ++ last :: rest).Perm
          ((s :: a.streams.dropLast) ++ last :: rest) :=
        List.Perm.append_right _ (insertSorted_perm _ s _)
      refine p1.trans ?_
      simp only [List.cons_append]
      refine List.Perm.cons _ ?_
      have : a.streams.dropLast ++ last :: rest = a.streams ++ rest := by
        conv => rhs; rw [hsplit]
        simp
      rw [this]; exact h3
    · intro x hx t ht
      have ht' := (insertSorted_perm (less keys) s a.streams.dropLast).mem_iff.mp ht
      have hmem : ∀ u ∈ a.streams.dropLast, u ∈ a.streams := fun u hu => (List.dropLast_sublist _).subset hu
      rw [List.mem_cons] at hx ht'
      rcases hx with rfl | hx
      · rcases ht' with rfl | ht'
        · exact less_asymm keys _ _ hlt
        · exact hmax t (hmem t ht')
      · rcases ht' with rfl | ht'
        · have hxl : less keys x last = false := h4 x hx last (by rw [hsplit]; simp)
          exact less_asymm keys _ _ (less_lt_of_lt_of_le keys _ last x hlt hxl)
        · exact h4 x hx t (hmem t ht')
    · simp only [insertSorted_length, hdl, if_true, List.length_cons]; omega
    · intro _; simp only [insertSorted_length, hdl]; omega
  · -- full, not better: drop `s`
    rw [he]; subst hm
    have hlen' : a.streams.length = limit := Nat.le_antisymm (h2 h0) hlen
    obtain ⟨_, hmax⟩ := last_split keys limit a.streams last h1 hl h0 hlen'
    refine ⟨h1, h2, ⟨s :: rest, ?_, ?_, by simp⟩, ?_, fun _ => ⟨h0, hlen'⟩⟩
    · exact List.perm_middle.trans (List.Perm.cons _ h3)
    · intro x hx t ht
      rw [List.mem_cons] at hx
      rcases hx with rfl | hx
      · exact less_incomp_trans keys _ last t hlt (hmax t ht)
      · exact h4 x hx t ht
    · simp only [if_true, List.length_cons]; omega

theorem scan_inv (keys : List SortKey) (stopLt : Rec → Rec → Bool) (limit : Nat) (a : Acc) (ms : List Rec)
    (evs : List (Rec × Bool)) (h : Inv keys limit a ms) :
    Inv keys limit (scan (less keys) stopLt limit false a evs) (ms ++ fed evs) := by
  induction evs generalizing a ms with
  | nil => simpa [fed, scan] using h
  | cons e r ih =>
    obtain ⟨s, m⟩ := e
    simp only [scan, Bool.false_and]
    have := ih _ _ (step_inv keys stopLt limit a ms s m h)
    refine this.perm ?_
    cases m with
    | false => simp [fed]
    | true => simpa [fed] using List.perm_middle.symm


theorem scan_prefix (lt stopLt : Rec → Rec → Bool) (limit : Nat) (sorted : Bool) (a : Acc)
    (evs : List (Rec × Bool)) :
    ∃ e1 e2, evs = e1 ++ e2 ∧ scan lt stopLt limit sorted a evs = scan lt stopLt limit false a e1 := by
  induction evs generalizing a with
  | nil => exact ⟨[], [], rfl, rfl⟩
  | cons e r ih =>
    obtain ⟨s, m⟩ := e
    by_cases hc : (sorted && (step lt stopLt limit a s m).2) = true
    · refine ⟨[(s, m)], r, rfl, ?_⟩
      simp [scan, hc]
    · obtain ⟨e1, e2, h1, h2⟩ := ih (step lt stopLt limit a s m).1
      refine ⟨(s, m) :: e1, e2, by simp [h1], ?_⟩
      simp only [scan, hc, Bool.false_and]
      simpa using h2

theorem acc_invariant' (keys : List SortKey) (stopLt : Rec → Rec → Bool) (limit : Nat) (sorted : Bool)
    (evs : List (Rec × Bool)) :
    let a := scan (less keys) stopLt limit sorted {} evs
    a.streams.Pairwise (fun x y => less keys y x = false) ∧ (limit ≠ 0 → a.streams.length ≤ limit) ∧
    (∃ rest, (a.streams ++ rest).Perm (fed evs)) ∧ a.streams.length + a.dropped ≤ (fed evs).length := by
  intro a
  obtain ⟨e1, e2, h1, h2⟩ := scan_prefix (less keys) stopLt limit sorted {} evs
  have hinv := scan_inv keys stopLt limit {} [] e1 (Inv.empty keys limit)
  simp only [List.nil_append] at hinv
  have ha : a = scan (less keys) stopLt limit false {} e1 := h2
  rw [← ha] at hinv
  obtain ⟨i1, i2, ⟨rest, i3, _, _⟩, i4, _⟩ := hinv
  refine ⟨i1, i2, ⟨rest ++ fed e2, ?_⟩, ?_⟩
  · rw [h1, fed_append, ← List.append_assoc]
    exact List.Perm.append_right _ i3
  · rw [h1, fed_append, List.length_append]; omega

theorem more_flag_exact' (keys : List SortKey) (stopLt : Rec → Rec → Bool) (limit : Nat) (evs : List (Rec × Bool)) :
    let a := scan (less keys) stopLt limit false {} evs
    (a.dropped != 0) = (limit != 0 && decide (limit < (fed evs).length)) := by
  intro a
  have hinv := scan_inv keys stopLt limit {} [] evs (Inv.empty keys limit)
  simp only [List.nil_append] at hinv
  change Inv keys limit a (fed evs) at hinv
  obtain ⟨_, i2, ⟨rest, i3, _, i5⟩, i4, i6⟩ := hinv
  by_cases hd : a.dropped = 0
  · have hr := i5 hd
    subst hr
    have hlen := i3.length_eq
    simp only [List.append_nil] at hlen
    by_cases h0 : limit = 0
    · simp [hd, h0]
    · have := i2 h0
      have : ¬ limit < (fed evs).length := by omega
      simp [hd, this]
  · obtain ⟨h0, hlen⟩ := i6 hd
    have : limit < (fed evs).length := by omega
    have e1 : (a.dropped != 0) = true := by simpa using hd
    have e2 : (limit != 0) = true := by simpa using h0
    simp [e1, e2, this]


/-- every list has a sorted arrangement -/
theorem exists_sorted (keys : List SortKey) (l : List Rec) :
    ∃ l', l'.Perm l ∧ SortedK keys l' := by
  refine ⟨l.mergeSort (fun a b => !less keys b a), List.mergeSort_perm _ _, ?_⟩
  have := List.pairwise_mergeSort (le := fun a b => !less keys b a)
    (by
      intro x y z h1 h2
      simp only [Bool.not_eq_true'] at h1 h2 ⊢
      exact less_incomp_trans keys z y x h2 h1)
    (by
      intro x y
      cases h : less keys y x with
      | false => simp
      | true => simp [less_asymm keys y x h])
    l
  exact this.imp (by intro x y h; simpa using h)

theorem acc_yields_validPage' (keys : List SortKey) (stopLt : Rec → Rec → Bool) (limit skip : Nat)
    (hl : limit = 0 → skip = 0) (evs : List (Rec × Bool)) :
    let a := scan (less keys) stopLt (limit + skip) false {} evs
    (∃ arr : List Rec, arr.Perm (fed evs) ∧ arr.Pairwise (fun x y => less keys y x = false) ∧
        (finish a skip).1 = (pageOf limit skip arr).map (·.id)) ∧
    (finish a skip).2 = moreOf limit skip (fed evs).length := by
  intro a
  have hmore := more_flag_exact' keys stopLt (limit + skip) evs
  have hinv := scan_inv keys stopLt (limit + skip) {} [] evs (Inv.empty keys (limit + skip))
  simp only [List.nil_append] at hinv
  change Inv keys (limit + skip) a (fed evs) at hinv
  change (a.dropped != 0) = _ at hmore
  obtain ⟨i1, i2, ⟨rest, i3, i4, i5⟩, i6, i7⟩ := hinv
  obtain ⟨rest', hp, hs⟩ := exists_sorted keys rest
  have harr : SortedK keys (a.streams ++ rest') := by
    rw [show SortedK keys (a.streams ++ rest') ↔ _ from List.pairwise_append]
    exact ⟨i1, hs, fun x hx y hy => i4 y (hp.mem_iff.mp hy) x hx⟩
  have hperm : (a.streams ++ rest').Perm (fed evs) := (List.Perm.append_left _ hp).trans i3
  by_cases h0 : limit = 0
  · -- unlimited
    have hsk := hl h0
    subst h0; subst hsk
    have hd : a.dropped = 0 := by
      apply Classical.byContradiction
      intro hd
      exact (i7 hd).1 rfl
    have hr := i5 hd
    subst hr
    have hr' : rest' = [] := by simpa using hp.length_eq
    subst hr'
    refine ⟨⟨a.streams, by simpa using hperm, i1, ?_⟩, ?_⟩
    · simp only [finish, pageOf, if_true, List.drop_zero, Nat.le_zero]
      by_cases he : a.streams.length = 0
      · simp [List.length_eq_zero_iff.mp he]
      · simp [he]
    · simp only [finish, moreOf, Nat.le_zero]
      by_cases he : a.streams.length = 0
      · simp [he]
      · simp [he, hd]
  · have hL : limit + skip ≠ 0 := by omega
    have hlenL := i2 hL
    refine ⟨⟨a.streams ++ rest', hperm, harr, ?_⟩, ?_⟩
    · simp only [finish, pageOf, h0, if_false]
      by_cases hd : a.dropped = 0
      · have hr := i5 hd
        subst hr
        have hr' : rest' = [] := by simpa using hp.length_eq
        subst hr'
        simp only [List.append_nil]
        by_cases hc : a.streams.length ≤ skip
        · simp [hc, List.drop_eq_nil_of_le hc]
        · simp only [hc, if_false]
          rw [List.take_of_length_le]
          simp only [List.length_drop]; omega
      · obtain ⟨_, hlen⟩ := i7 hd
        have hc : ¬ a.streams.length ≤ skip := by omega
        simp only [hc, if_false]
        rw [List.drop_append_of_le_length (by omega), List.take_append_of_le_length (by simp; omega),
          List.take_of_length_le (by simp; omega)]
    · simp only [finish, moreOf]
      have e0 : (limit != 0) = true := by simpa using h0
      have eL : (limit + skip != 0) = true := by simpa using hL
      rw [e0, Bool.true_and]
      rw [eL, Bool.true_and] at hmore
      by_cases hc : a.streams.length ≤ skip
      · simp only [hc, if_true]
        have hd : a.dropped = 0 := by
          apply Classical.byContradiction
          intro hd
          have := (i7 hd).2
          omega
        rw [hd] at hmore
        simp only [bne_self_eq_false] at hmore
        rw [hmore, Nat.add_comm skip limit]
      · simp only [hc, if_false]
        rw [hmore, Nat.add_comm skip limit]


theorem search_valid_unsorted' (keys : List SortKey) (limit skip : Nat) (hl : limit = 0 → skip = 0)
    (files : List (List (Rec × Bool))) :
    (∃ arr : List Rec, arr.Perm (matchesOf files) ∧ arr.Pairwise (fun x y => less (effKeys keys) y x = false) ∧
        (search keys limit skip false files).1 = (pageOf limit skip arr).map (·.id)) ∧
    (search keys limit skip false files).2 = moreOf limit skip (matchesOf files).length := by
  have h1 := (searchFiles_eq_scan' (less (effKeys keys)) (primLess (effKeys keys)) (limit + skip) files [] {})
  have h2 := acc_yields_validPage' (effKeys keys) (primLess (effKeys keys)) limit skip hl (flagged [] files)
  rw [h1.2, ← h1.1] at h2
  exact h2

theorem tagAccept_sound (accept : Nat) (h : accept < 16) (uncertain matching : Bool) :
    tagAccept accept uncertain matching = tagAcceptSpec accept uncertain matching := by
  have : ∀ a : Fin 16, ∀ u m : Bool, tagAccept a.val u m = tagAcceptSpec a.val u m := by decide
  exact this ⟨accept, h⟩ uncertain matching

/-- inlining a tag filter means: a decided stream is judged by its recorded answer, an undecided one by the tag's
    definition — whatever (stale) answer is recorded for it -/
theorem inlinedAccept_sound (hasU : Bool) (accept : Nat) (h : accept < 16) (uncertain recorded defTruth : Bool)
    (hu : hasU = false → uncertain = false) :
    inlinedAccept hasU accept uncertain recorded defTruth =
      tagAcceptSpec accept uncertain (if uncertain then defTruth else recorded) := by
  have : ∀ (hasU : Bool) (a : Fin 16) (u m d : Bool), (hasU = false → u = false) →
      inlinedAccept hasU a.val u m d = tagAcceptSpec a.val u (if u then d else m) := by decide
  exact this hasU ⟨accept, h⟩ uncertain recorded defTruth hu

end Pk.Proofs.Search
