/-
  Frame lemmas for C10: which helper functions of the service-loop model leave the service list,
  the open files, `next`, the views and the import job alone (and only ever add locks).
-/
import Pk.Proofs.MgrViews

namespace Pk.Proofs.MgrViews
open Pk.Mgr

set_option linter.tactic.unusedName false

/-- `s'` differs from `s` only in fields the view/coverage properties do not read; lock counts may
    have grown, views may have been added, and an import job may have been started on `s.next` -/
structure Frame (s s' : St) : Prop where
  idx : s'.idx = s.idx
  files : s'.files = s.files
  next : s'.next = s.next
  views : ∀ k fs, nget s.views k = some fs → nget s'.views k = some fs
  jImport : s'.jImport = s.jImport ∨ ∃ fs, s'.jImport = some (s.next, fs)
  used : ∀ f, (nget s.used f).getD 0 ≤ (nget s'.used f).getD 0

theorem Frame.refl (s : St) : Frame s s :=
  ⟨rfl, rfl, rfl, fun _ _ h => h, Or.inl rfl, fun _ => Nat.le_refl _⟩

theorem Frame.trans {a b c : St} (h1 : Frame a b) (h2 : Frame b c) : Frame a c := by
  refine ⟨h2.idx.trans h1.idx, h2.files.trans h1.files, h2.next.trans h1.next,
    fun k fs h => h2.views k fs (h1.views k fs h), ?_, fun f => Nat.le_trans (h1.used f) (h2.used f)⟩
  rcases h2.jImport with h | ⟨fs, h⟩
  · rcases h1.jImport with h' | ⟨fs, h'⟩
    · exact Or.inl (h.trans h')
    · exact Or.inr ⟨fs, h.trans h'⟩
  · exact Or.inr ⟨fs, by rw [h, h1.next]⟩

/-- a record update touching none of the framed fields -/
theorem Frame.of_eq {s s' : St} (h1 : s'.idx = s.idx) (h2 : s'.files = s.files) (h3 : s'.next = s.next)
    (h4 : s'.views = s.views) (h5 : s'.jImport = s.jImport) (h6 : s'.used = s.used) : Frame s s' :=
  ⟨h1, h2, h3, fun _ _ h => by rw [h4]; exact h, Or.inl h5, fun _ => by rw [h6]; exact Nat.le_refl _⟩

macro "frame_eq" : tactic => `(tactic| exact Frame.of_eq rfl rfl rfl rfl rfl rfl)

theorem Frame.foldl {α} (g : St → α → St) (hg : ∀ s a, Frame s (g s a)) (l : List α) (s : St) :
    Frame s (l.foldl g s) := by
  induction l generalizing s with
  | nil => exact Frame.refl s
  | cons a l ih => exact (hg s a).trans (ih _)

theorem frame_setTag (s : St) (n : String) (t : Tag) : Frame s (setTag s n t) := by
  unfold setTag; frame_eq

theorem frame_addRefBy (s : St) (a b : String) : Frame s (addRefBy s a b) := by
  unfold addRefBy; split
  · exact frame_setTag _ _ _
  · exact Frame.refl _

theorem frame_delRefBy (s : St) (a b : String) : Frame s (delRefBy s a b) := by
  unfold delRefBy; split
  · exact frame_setTag _ _ _
  · exact Frame.refl _

theorem Frame.of_lock {s s' : St} {fs : List Nat} (h1 : s'.idx = s.idx) (h2 : s'.files = s.files)
    (h3 : s'.next = s.next) (h4 : s'.views = s.views) (h5 : s'.jImport = s.jImport)
    (h6 : s'.used = lock s.used fs) : Frame s s' :=
  ⟨h1, h2, h3, fun _ _ h => by rw [h4]; exact h, Or.inl h5, fun f => by rw [h6, lock_count]; omega⟩

macro "frame_tac" : tactic => `(tactic| first
  | exact Frame.refl _
  | exact Frame.of_eq rfl rfl rfl rfl rfl rfl
  | exact Frame.of_lock rfl rfl rfl rfl rfl rfl)

theorem frame_attachConv (s : St) (n c : String) : Frame s (attachConv s n c).1 := by
  unfold attachConv setTag; dsimp only
  repeat' split
  all_goals frame_tac

theorem frame_inherit (s : St) : Frame s (inherit s) := by
  unfold inherit; frame_eq

theorem frame_invalidateTags (s : St) (u r a : IdSet) : Frame s (invalidateTags s u r a) := by
  unfold invalidateTags
  exact Frame.trans (by frame_eq) (frame_inherit _)

theorem frame_invalidatedDuringTaggingJob (s : St) (ids : IdSet) :
    Frame s (invalidatedDuringTaggingJob s ids) := by
  unfold invalidatedDuringTaggingJob; split
  · frame_eq
  · exact Frame.refl _

theorem frame_invalidateConverters (s : St) (u : IdSet) : Frame s (invalidateConverters s u) := by
  unfold invalidateConverters
  exact Frame.foldl _ (fun s c => by frame_eq) _ _

theorem frame_getIndexesCopy (s : St) (i : Nat) : Frame s (getIndexesCopy s i).1 := by
  unfold getIndexesCopy; frame_tac

theorem frame_startMerge (s : St) : Frame s (startMerge s) := by
  unfold startMerge getIndexesCopy; dsimp only
  repeat' split
  all_goals frame_tac

theorem frame_startTagging (s : St) (c : Option String) : Frame s (startTagging s c) := by
  unfold startTagging getIndexesCopy; dsimp only
  repeat' split
  all_goals frame_tac

-- CHANGED (dropped): new helper of `detachConv`; may start a tagging job (locks only grow)
theorem frame_outputDropped (s : St) (choice : Option String) : Frame s (outputDropped s choice) := by
  unfold outputDropped
  split
  · refine Frame.trans ?_ (frame_startTagging _ _)
    refine Frame.trans ?_ (frame_invalidatedDuringTaggingJob _ _)
    exact Frame.trans (by frame_eq) (frame_inherit _)
  · exact Frame.refl _

-- CHANGED (dropped): `detachConv` takes the tagging choice and may run `outputDropped`
theorem frame_detachConv (s : St) (n c : String) (choice : Option String := none) :
    Frame s (detachConv s n c choice) := by
  unfold detachConv
  split
  · exact Frame.refl _
  · dsimp only
    split
    · exact Frame.trans (by unfold setTag; frame_eq) (frame_outputDropped _ _)
    · unfold setTag; frame_eq

theorem Frame.with {s x y : St} (h : Frame s x) (h1 : y.idx = x.idx) (h2 : y.files = x.files) (h3 : y.next = x.next)
    (h4 : y.views = x.views) (h5 : y.jImport = x.jImport) (h6 : y.used = x.used) :
    Frame s y := h.trans (Frame.of_eq h1 h2 h3 h4 h5 h6)

theorem Frame.withLock {s x y : St} {fs : List Nat} (h : Frame s x) (h1 : y.idx = x.idx) (h2 : y.files = x.files) (h3 : y.next = x.next)
    (h4 : y.views = x.views) (h5 : y.jImport = x.jImport) (h6 : y.used = lock x.used fs) :
    Frame s y := h.trans (Frame.of_lock h1 h2 h3 h4 h5 h6)

theorem Frame.foldl' {α} {g : St → α → St} (hg : ∀ s a, Frame s (g s a)) {l : List α} {s0 s : St}
    (h : Frame s0 s) : Frame s0 (l.foldl g s) := h.trans (Frame.foldl g hg l s)

theorem frame_startConverter (s : St) : Frame s (startConverter s) := by
  unfold startConverter
  split
  · exact Frame.refl _
  · extract_lets active s1
    have h1 : Frame s s1 := Frame.foldl _ (fun s ⟨c, r⟩ => by frame_tac) _ _
    clear_value s1
    split
    · exact Frame.refl _
    · unfold getIndexesCopy; dsimp -zeta only
      extract_lets fs0 found remaining s2
      have h2 : Frame s s2 := by
        apply Frame.foldl' (fun s ⟨c, r⟩ => by frame_tac)
        exact Frame.withLock h1 rfl rfl rfl rfl rfl rfl
      clear_value s2
      exact Frame.with h2 rfl rfl rfl rfl rfl rfl

theorem frame_startImport (s : St) : Frame s (startImport s) := by
  unfold startImport getIndexesCopy
  exact ⟨rfl, rfl, rfl, fun _ _ h => h, Or.inr ⟨_, rfl⟩, fun f => by simp only [lock_count]; omega⟩

theorem frame_markUpdate (s : St) (name : String) (a d : List Nat) : Frame s (markUpdate s name a d).1 := by
  unfold markUpdate
  split
  · exact Frame.refl _
  · extract_lets prevU fresh t1 s1 mq d1
    have h1 : Frame s s1 := Frame.foldl _ (fun s c => by frame_tac) _ _
    clear_value s1
    split
    rename_i t' s' heq
    have h2 : Frame s s' := by
      have := congrArg Prod.snd heq
      dsimp only at this
      rw [← this]
      split
      · exact Frame.refl _
      · split <;> exact h1
    clear heq
    extract_lets gone t1' t2 s2 s3 s4 s5
    have h4 : Frame s s4 :=
      (h2.trans (frame_setTag _ _ _)).trans ((frame_inherit _).trans (frame_invalidatedDuringTaggingJob _ _))
    clear_value s4
    show Frame s s5
    unfold s5
    split
    · exact h4.trans (frame_setTag _ _ _)
    · exact h4
theorem frame_step_nop (s : St) (st : Started) : Frame s (step s .nop st).1 := Frame.refl _

theorem frame_step_importPcaps (s : St) (st : Started) (names : List String) :
    Frame s (step s (.importPcaps names) st).1 := by
  simp only [step]
  split
  · exact Frame.refl _
  · dsimp only
    split
    · exact Frame.trans (by frame_tac) (frame_startImport _)
    · frame_tac

theorem frame_step_updColor (s : St) (st : Started) (n c : String) :
    Frame s (step s (.updColor n c) st).1 := by
  simp only [step]
  split
  · exact Frame.refl _
  · dsimp only
    split
    · exact Frame.refl _
    · exact frame_setTag _ _ _

theorem frame_step_viewOpen (s : St) (st : Started) (k : Nat) :
    Frame s (step s (.viewOpen k) st).1 := by
  simp only [step]
  split
  · exact Frame.refl _
  · rename_i h
    unfold getIndexesCopy; dsimp only
    refine ⟨rfl, rfl, rfl, fun k' fs h' => ?_, Or.inl rfl, fun f => by simp only [lock_count]; omega⟩
    simp only [nget_nins]
    split
    · subst_vars; simp [h'] at h
    · exact h'

theorem frame_step_delTag (s : St) (st : Started) (n : String) :
    Frame s (step s (.delTag n) st).1 := by
  simp -zeta only [step]
  split
  · exact Frame.refl _
  · split
    · exact Frame.refl _
    · extract_lets s1 s2 s3
      have h1 : Frame s s1 := Frame.foldl _ (fun s r => frame_detachConv _ _ _ _) _ _
      clear_value s1
      have h2 : Frame s s2 := Frame.with h1 rfl rfl rfl rfl rfl rfl
      clear_value s2
      exact Frame.foldl' (fun s r => frame_delRefBy _ _ _) h2


theorem frame_step_addTag (s : St) (st : Started) (name color defn : String) (f : Facts) :
    Frame s (step s (.addTag name color defn f) st).1 := by
  simp -zeta only [step]
  split
  · exact Frame.refl _
  split
  · exact Frame.refl _
  extract_lets nt s1 s2 s3
  split
  · exact Frame.refl _
  split
  · exact Frame.refl _
  split
  · exact Frame.refl _
  split
  · exact Frame.refl _
  have h1 : Frame s s1 := by
    unfold s1
    split
    · exact Frame.trans (by frame_eq) (frame_setTag _ _ _)
    · exact Frame.trans (by frame_eq) (frame_setTag _ _ _)
  clear_value s1
  have h2 : Frame s s2 := by
    unfold s2
    split
    · exact h1
    · exact h1.trans (frame_startTagging _ _)
  clear_value s2
  exact Frame.foldl' (fun s r => frame_addRefBy _ _ _) h2

theorem frame_step_updQuery (s : St) (st : Started) (name defn : String) (f : Facts) :
    Frame s (step s (.updQuery name defn f) st).1 := by
  simp -zeta only [step]
  split
  · exact Frame.refl _
  extract_lets nt
  split
  · exact Frame.refl _
  split
  · exact Frame.refl _
  split
  · exact Frame.refl _
  split
  · exact Frame.refl _
  split
  · exact Frame.refl _
  split
  · exact Frame.refl _
  extract_lets nt2 before after s1 s2 s3 s4 s5 s6 s7
  have h1 : Frame s s1 := Frame.foldl _ (fun s r => frame_delRefBy _ _ _) _ _
  clear_value s1
  have h2 : Frame s s2 := Frame.foldl' (fun s r => frame_addRefBy _ _ _) h1
  clear_value s2
  exact ((((h2.trans (frame_setTag _ _ _)).trans (frame_inherit _)).trans
    (frame_invalidatedDuringTaggingJob _ _)).trans (frame_startTagging _ _)).trans (frame_startConverter _)

theorem frame_step_updName (s : St) (st : Started) (name new : String) :
    Frame s (step s (.updName name new) st).1 := by
  simp -zeta only [step]
  split
  · exact Frame.refl _
  split
  · exact Frame.refl _
  split
  · exact Frame.refl _
  split
  · exact Frame.refl _
  split
  · exact Frame.refl _
  split
  · exact Frame.refl _
  extract_lets s1 s2
  have h1 : Frame s s1 := by frame_tac
  clear_value s1
  exact Frame.foldl' (fun s r => (frame_delRefBy _ _ _).trans (frame_addRefBy _ _ _)) h1

theorem frame_step_updConv (s : St) (st : Started) (name : String) (convs : List String) :
    Frame s (step s (.updConv name convs) st).1 := by
  simp -zeta only [step]
  split
  · exact Frame.refl _
  extract_lets att s1 cur s2
  split
  · exact Frame.refl _
  have h1 : Frame s s1 := Frame.foldl _ (fun s r => frame_detachConv _ _ _ _) _ _
  clear_value s1
  have h2 : Frame s s2 := Frame.foldl' (fun s r => frame_attachConv _ _ _) h1
  clear_value s2
  exact h2.trans (frame_startConverter _)

theorem frame_step_markAdd (s : St) (st : Started) (name : String) (ids : List Nat) :
    Frame s (step s (.markAdd name ids) st).1 := by
  simp -zeta only [step]
  split
  · exact Frame.refl _
  split
  · exact Frame.refl _
  split
  · exact Frame.refl _
  split
  · exact Frame.refl _
  have := frame_markUpdate s name ids []
  exact (this.trans (frame_startTagging _ _)).trans (frame_startConverter _)

theorem frame_step_markDel (s : St) (st : Started) (name : String) (ids : List Nat) :
    Frame s (step s (.markDel name ids) st).1 := by
  simp -zeta only [step]
  split
  · exact Frame.refl _
  split
  · exact Frame.refl _
  split
  · exact Frame.refl _
  split
  · exact Frame.refl _
  have := frame_markUpdate s name [] ids
  exact (this.trans (frame_startTagging _ _)).trans (frame_startConverter _)
theorem step_tagDone (s : St) (st : Started) (name : String) (result : List Nat) :
    ∀ P : St → Prop, (∀ s', Frame s s' → P s') →
      (∀ jn snap held mid, s.jTag = some (jn, snap, held) → Frame s mid → P (release mid held)) →
      P (step s (.tagDone name result) st).1 := by
  intro P hF hR
  simp -zeta only [step]
  split
  · exact hF _ (Frame.refl _)
  rename_i jn snap held hj
  split
  · exact hF _ (by frame_tac)
  extract_lets res nm s1 s2 s3 s4 s5 s6
  apply hR jn snap held s6 hj
  have h1 : Frame s s1 := by frame_tac
  clear_value s1
  have h2 : Frame s s2 := by
    unfold s2
    split
    · split
      · extract_lets t s7 s8
        have h7 : Frame s s7 := Frame.foldl' (fun s c => by frame_tac) h1
        clear_value s7
        have h8 : Frame s s8 := h7.trans (frame_setTag _ _ _)
        clear_value s8
        split
        · exact h8
        · exact h8.trans (frame_invalidateTags _ _ _ _)
      · exact h1
    · exact h1
  clear_value s2
  have h3 : Frame s s3 := Frame.with h2 rfl rfl rfl rfl rfl rfl
  clear_value s3
  exact ((h3.trans (frame_startTagging _ _)).trans (frame_startConverter _)).trans (frame_startMerge _)

theorem step_convertDone (s : St) (st : Started) :
    ∀ P : St → Prop, (∀ s', Frame s s' → P s') →
      (∀ sets held mid, s.jConv = some (sets, held) → Frame s mid → P (release mid held)) →
      P (step s .convertDone st).1 := by
  intro P hF hR
  simp -zeta only [step]
  split
  · exact hF _ (Frame.refl _)
  rename_i sets held hj
  extract_lets s1 s2 s3 s4 s5
  apply hR sets held s5 hj
  have h1 : Frame s s1 := by frame_tac
  clear_value s1
  have h2 : Frame s s2 := by
    refine Frame.foldl' (fun s ⟨c, ids⟩ => ?_) h1
    dsimp only
    split
    · exact Frame.refl _
    · frame_tac
  clear_value s2
  exact ((h2.trans (frame_inherit _)).trans (frame_startTagging _ _)).trans (frame_startConverter _)


/-- the state right after an import's files were appended (before invalidation and job starts) -/
def importBase (s : St) (jn : Nat) (held : List Nat) (usednew : Nat) (created : List (Nat × List Nat))
    (upd rst add : IdSet) : St :=
  let s1 := release { s with all := jn + usednew, jImport := none } held
  if created.isEmpty then s1 else
    { s1 with idx := s1.idx ++ created.map (·.1),
              files := created.foldl (fun fs (o, ids) => nins o ids fs) s1.files,
              nrec := s1.nrec + (created.map (·.2.length)).sum,
              next := jn + usednew,
              used := lock s1.used (created.map (·.1)),
              upd := union s1.upd upd, rst := union s1.rst rst, add := union s1.add add }

theorem step_importDone (s : St) (st : Started) (processed usednew : Nat)
    (created : List (Nat × List Nat)) (upd rst add : List Nat) :
    ∀ P : St → Prop, P s →
      (∀ jn held fin, s.jImport = some (jn, held) →
        Frame (importBase s jn held usednew created (ofList upd) (ofList rst) (ofList add)) fin → P fin) →
      P (step s (.importDone processed usednew created upd rst add) st).1 := by
  intro P h0 hR
  simp -zeta only [step]
  split
  · exact h0
  rename_i jn held hj
  extract_lets u r a nx s1 s2 ords s4 s5 s6 s7 s8 s9 s10 s11
  apply hR jn held s11 hj
  have h6 : Frame (importBase s jn held usednew created (ofList upd) (ofList rst) (ofList add)) s6 := by
    unfold importBase s6
    dsimp -zeta only
    split
    · exact Frame.refl _
    · exact ((frame_invalidateTags _ _ _ _).trans (frame_invalidateConverters _ _)).trans
        (frame_invalidateConverters _ _)
  clear_value s6
  have h7 : Frame (importBase s jn held usednew created (ofList upd) (ofList rst) (ofList add)) s7 :=
    Frame.with h6 rfl rfl rfl rfl rfl rfl
  clear_value s7
  have h8 : Frame (importBase s jn held usednew created (ofList upd) (ofList rst) (ofList add)) s8 := by
    unfold s8
    split
    · exact h7
    · exact h7.trans (frame_startImport _)
  clear_value s8
  exact ((h8.trans (frame_startTagging _ _)).trans (frame_startConverter _)).trans (frame_startMerge _)

/-- the state right after a merge's outputs replaced its inputs in the service list -/
def mergeBase (s : St) (off : Nat) (held : List Nat) (merged : List (Nat × List Nat)) : St :=
  if merged.isEmpty then s else
    let old := (s.idx.drop off).take held.length
    let s1 := release { s with jMerge := none } old
    { s1 with used := lock s1.used (merged.map (·.1)),
              files := merged.foldl (fun fs (o, ids) => nins o ids fs) s1.files,
              idx := s1.idx.take off ++ merged.map (·.1) ++ s1.idx.drop (off + held.length),
              unm := s1.unm + (merged.length - 1),
              nrec := s1.nrec + (merged.map (·.2.length)).sum -
                (old.map (step.fileCountOf s1.files held)).sum }

theorem step_mergeDone (s : St) (st : Started) (merged : List (Nat × List Nat)) :
    ∀ P : St → Prop, P s →
      (∀ off held mid, s.jMerge = some (off, held) →
        Frame (mergeBase s off held merged) mid → P (release mid held)) →
      P (step s (.mergeDone merged) st).1 := by
  intro P h0 hR
  simp -zeta only [step]
  split
  · exact h0
  rename_i off held hj
  extract_lets s1 old s3 ords before s5 s6 s7
  apply hR off held s7 hj
  have h5 : Frame (mergeBase s off held merged) s5 := by
    unfold mergeBase s5
    dsimp -zeta only
    split
    · frame_tac
    · exact Frame.refl _
  clear_value s5
  have h6 : Frame (mergeBase s off held merged) s6 := Frame.with h5 rfl rfl rfl rfl rfl rfl
  clear_value s6
  exact h6.trans (frame_startMerge _)
end Pk.Proofs.MgrViews
