/-
  MgrTruthExample — a NON-VACUITY example for the contracts of Pk/Props/C06ReachSpec.lean: a concrete
  history (add a tag, queue a capture, the import adds stream 0, the tagging job delivers its result) that
  satisfies `RunOK` from the initial state, and in whose final state the tag decides stream 0 with the
  answer "matches".
-/
import Pk.Props.C06ReachSpec
import Pk.Proofs.MgrTruthEvF
namespace Pk.Props.C06Reach
open Pk.Mgr Pk.Props.MgrReach Pk.Proofs.MgrTruth Pk.Proofs.MgrTags

/-- the parser facts of the example definition "sport:80": no references, looks at ports (feature bit 4) -/
def exFacts : Facts := { err := false, main := [], sub := [], mfeat := 4, sfeat := 0, idsok := false, ids := [] }
/-- the ground truth of the example: stream 0 matches tag/x (constant over the whole history: no stream changes after it was added) -/
def exT : Truth := fun n id => n == "tag/x" && id == 0
/-- add a tag, queue a capture (the import job starts), the import adds stream 0 (the tagging job for tag/x starts),
    the tagging job delivers its result -/
def exHist : Hist :=
  [ (.addTag "tag/x" "" "sport:80" exFacts, {}, exT),
    (.importPcaps ["a.pcap"], {}, exT),
    (.importDone 1 1 [(0, [0])] [] [] [0], { tag := some "tag/x" }, exT),
    (.tagDone "tag/x" [0], {}, exT) ]

/-! ## the states of the example, as literals -/

/-- the example tag with the given recorded matches and pending set -/
def exTag (mat unc : IdSet) : Tag :=
  { defn := "sport:80", mainT := [], subT := [], mfeat := 4, sfeat := 0, mat := mat, unc := unc, gen := 0 }

/-- after `addTag`: the tag exists (identity `gen = 0`, the counter `ngen` is 1 from now on), nothing is pending
    (there are no streams) -/
def exS1 : St := { tags := [("tag/x", exTag [] [])], ngen := 1 }
/-- after `importPcaps`: the import job is in flight -/
def exS2 : St :=
  { tags := [("tag/x", exTag [] [])], queue := ["a.pcap"], pcaps := ["a.pcap"], jImport := some (0, []), ngen := 1 }
/-- after `importDone`: stream 0 exists and is pending for tag/x, whose tagging job is in flight -/
def exS3 : St :=
  { tags := [("tag/x", exTag [] [0])], idx := [0], files := [(0, [0])], used := [(0, 2)], next := 1, all := 1,
    nrec := 1, pcaps := ["a.pcap"], tag := true, jTag := some ("tag/x", exTag [] [0], [0]), ngen := 1 }
/-- after `tagDone`: tag/x decides stream 0: it matches -/
def exS4 : St :=
  { tags := [("tag/x", exTag [0] [])], idx := [0], files := [(0, [0])], used := [(0, 1)], next := 1, all := 1,
    nrec := 1, pcaps := ["a.pcap"], ngen := 1 }

theorem ex_step1 (hp : parseTagName "tag/x" = ("tag", "x", false)) :
    step (initSt []) (.addTag "tag/x" "" "sport:80" exFacts) {} = (exS1, .ok) := by
  rw [step_addTag_eq, hp]
  simp [exFacts, atTagG, atTag, Tag.refs, strSet, initSt, sget, atFinish, atPair, setTag, sins, startTagging, eligible,
    rangeSet, exS1, exTag]

theorem ex_step2 : step exS1 (.importPcaps ["a.pcap"]) {} = (exS2, .none) := rfl

theorem ex_step3 :
    step exS2 (.importDone 1 1 [(0, [0])] [] [] [0]) { tag := some "tag/x" } = (exS3, .none) := rfl

theorem ex_step4 : step exS3 (.tagDone "tag/x" [0]) {} = (exS4, .none) := rfl

/-! ## the contracts, step by step -/

theorem sameOn_refl (s : St) (T : Truth) : SameOn s T T := fun _ _ _ _ _ => rfl

theorem ghostNext_self (s : St) (e : Ev) (T : Truth) : ghostNext s e T T = T := by
  unfold ghostNext
  split
  · rfl
  · split <;> rfl

theorem ex_isMarkName : isMarkName "tag/x" = false := by simp [isMarkName]

theorem ex_nameOK (hp : parseTagName "tag/x" = ("tag", "x", false)) : NameOK "tag/x" := by
  unfold NameOK
  rw [hp, ex_isMarkName]
  simp

theorem ex_ok1 (hp : parseTagName "tag/x" = ("tag", "x", false)) :
    StepOK (initSt []) exT exT (.addTag "tag/x" "" "sport:80" exFacts) {} exT where
  payload := by
    refine ⟨trivial, trivial, ?_, trivial, ?_, ?_, ?_, ex_nameOK hp⟩
    · intro id hid; cases hid
    · intro n snap held h; cases h
    · intro m t h; cases h
    · intro h; cases h
  featOK := ⟨fun h => absurd rfl h, fun h => absurd rfl h⟩
  addsNew := trivial
  truth := by
    refine ⟨fun _ => sameOn_refl _ _, fun _ => ?_⟩
    refine ⟨fun n _ => sameOn_refl _ _ n, fun h => ?_⟩
    rw [hp] at h; cases h
  result := trivial
  jobText := by intro jn snap held h; cases h

theorem ex_ok2 : StepOK exS1 exT exT (.importPcaps ["a.pcap"]) {} exT where
  payload := ⟨trivial, trivial, trivial, trivial, trivial⟩
  featOK := trivial
  addsNew := trivial
  truth := ⟨fun _ => sameOn_refl _ _, fun _ => sameOn_refl _ _⟩
  result := trivial
  jobText := by intro jn snap held h; cases h

theorem ex_ok3 :
    StepOK exS2 exT exT (.importDone 1 1 [(0, [0])] [] [] [0]) { tag := some "tag/x" } exT where
  payload := by
    refine ⟨⟨⟨?_, ?_⟩, ?_⟩, ?_, trivial, ?_, trivial⟩
    · simp
    · intro o _; exact ⟨rfl, rfl⟩
    · intro jn held h
      cases h
      refine ⟨rfl, fun _ => by simp, ?_⟩
      intro id h1 h2
      refine ⟨(0, [0]), List.mem_singleton.2 rfl, ?_⟩
      show id ∈ [0]
      rw [List.mem_singleton]; omega
    · intro _; exact ⟨by decide, by decide⟩
    · intro jn held h
      cases h
      refine ⟨fun id h => (by cases h), fun id h => (by cases h), fun id h => ?_⟩
      simp at h; omega
  featOK := trivial
  addsNew := by
    intro jn held h id h1 h2
    cases h
    simp; omega
  truth := by
    refine ⟨fun _ => sameOn_refl _ _, fun _ => ?_⟩
    intro n t _ id _ hne
    exact absurd rfl hne
  result := trivial
  jobText := by intro jn snap held h; cases h

theorem ex_ok4 : StepOK exS3 exT exT (.tagDone "tag/x" [0]) {} exT where
  payload := by
    refine ⟨trivial, ?_, ?_, trivial, trivial⟩
    · intro jn snap held h; cases h; rfl
    · intro id h; simp at h; subst h; decide
  featOK := trivial
  addsNew := trivial
  truth := ⟨fun _ => sameOn_refl _ _, fun _ => sameOn_refl _ _⟩
  result := by
    intro snap held h id
    cases h
    simp [exTag, exT]
  jobText := by intro jn snap held _; trivial

/-! ## the example -/

theorem example_runOK (hp : parseTagName "tag/x" = ("tag", "x", false)) :
    RunOK (initSt []) exT exT exHist := by
  refine ⟨ex_ok1 hp, ?_⟩
  rw [ex_step1 hp, ghostNext_self]
  refine ⟨ex_ok2, ?_⟩
  rw [ex_step2, ghostNext_self]
  refine ⟨ex_ok3, ?_⟩
  rw [ex_step3, ghostNext_self]
  refine ⟨ex_ok4, ?_⟩
  rw [ex_step4, ghostNext_self]
  trivial

theorem ex_runSt (hp : parseTagName "tag/x" = ("tag", "x", false)) : runSt (initSt []) exHist = exS4 := by
  simp only [exHist, runSt]
  rw [ex_step1 hp, ex_step2, ex_step3, ex_step4]

theorem example_final (hp : parseTagName "tag/x" = ("tag", "x", false)) :
    ∃ t, sget (runSt (initSt []) exHist).tags "tag/x" = some t ∧ t.mat = [0] ∧ t.unc = [] ∧
      (runSt (initSt []) exHist).next = 1 := by
  rw [ex_runSt hp]
  exact ⟨exTag [0] [], rfl, rfl, rfl, rfl⟩

/-! ## the string fact, and the example without hypotheses

  `parseTagName "tag/x"` is not evaluated by `decide`/`rfl`/`simp` directly (`String.splitOn` is defined by
  well-founded recursion); it is proved by unrolling `String.splitOnAux` with its equation lemma. -/

theorem ex_splitOn : "tag/x".splitOn "/" = ["tag", "x"] := by
  simp only [String.splitOn]
  rw [if_neg (by decide)]
  iterate 6 (rw [String.splitOnAux]; simp (decide := true) only [↓reduceIte])

theorem ex_parse : parseTagName "tag/x" = ("tag", "x", false) := by
  unfold parseTagName
  rw [ex_splitOn]
  simp

theorem example_runOK_closed : RunOK (initSt []) exT exT exHist := example_runOK ex_parse

theorem example_final_closed :
    ∃ t, sget (runSt (initSt []) exHist).tags "tag/x" = some t ∧ t.mat = [0] ∧ t.unc = [] ∧
      (runSt (initSt []) exHist).next = 1 := example_final ex_parse

end Pk.Props.C06Reach
