/-
  Stream records keep the metadata and the absolute first/last time of their stream across every later
  `AddStream`, whichever way the reference second moves (helper lemmas for C01 `roundtrip_meta`).
-/
import Pk.Proofs.IndexFormatRoundtrip
namespace Pk.Index
open Pk Pk.Bytes

theorem u64_of_nonneg (x : Int) (h0 : 0 ≤ x) (h1 : x < 2 ^ 64) : (u64 x : Int) = x := by
  unfold u64
  have : x % (2 ^ 64 : Int) = x := Int.emod_eq_of_lt h0 h1
  rw [this]; omega

theorem unixSec_eq (ts : Int) (h0 : 0 ≤ ts) (h1 : ts < 2 ^ 62) : (unixSec ts : Int) = ts / 1000000000 := by
  unfold unixSec
  apply u64_of_nonneg <;> omega

theorem i64_small (x : Nat) (h : x < 2 ^ 63) : i64 x = x := by
  unfold i64
  have : x % 2 ^ 64 = x := Nat.mod_eq_of_lt (by omega)
  simp [this, h]

/-- time well-formedness of an input stream: at least one packet, times of this era, last ≥ first -/
def StreamIn.TimeWF (s : StreamIn) : Prop :=
  ∃ p0 pl, s.packets.head? = some p0 ∧ s.packets.getLast? = some pl ∧ 0 ≤ p0.ts ∧ p0.ts ≤ pl.ts ∧ pl.ts < 2 ^ 62

/-- `rec_` is the record of input stream `s` in a file with reference second `ref` -/
def RecOf (ref : Nat) (s : StreamIn) (rec_ : StreamRec) : Prop :=
  rec_.id = s.id ∧ rec_.cp = s.cport ∧ rec_.sp = s.sport ∧ rec_.flags = protoFlags s.flags ∧
  (∃ cds, chunkDirs s.packets s.data = some cds ∧ rec_.cb = (dirBytes 0 cds).length ∧ rec_.sb = (dirBytes 1 cds).length) ∧
  ∃ p0 pl, s.packets.head? = some p0 ∧ s.packets.getLast? = some pl ∧
    (ref : Int) * 1000000000 + rec_.first = p0.ts ∧ (ref : Int) * 1000000000 + rec_.last = pl.ts ∧
    rec_.first < 2 ^ 62 ∧ rec_.last < 2 ^ 62 ∧ 0 ≤ p0.ts ∧ p0.ts ≤ pl.ts ∧ pl.ts < 2 ^ 62

inductive Recs (ref : Nat) : List StreamIn → List StreamRec → Prop
  | nil : Recs ref [] []
  | cons {s r ss rs} : RecOf ref s r → Recs ref ss rs → Recs ref (s :: ss) (r :: rs)

theorem Recs.append {ref : Nat} {ss : List StreamIn} {rs : List StreamRec} (h : Recs ref ss rs) {s : StreamIn} {r : StreamRec}
    (hr : RecOf ref s r) : Recs ref (ss ++ [s]) (rs ++ [r]) := by
  induction h with
  | nil => exact Recs.cons hr Recs.nil
  | cons h1 _ ih => exact Recs.cons h1 ih

theorem Recs.get {ref : Nat} {ss : List StreamIn} {rs : List StreamRec} (h : Recs ref ss rs) (i : Nat) (s : StreamIn)
    (hs : ss[i]? = some s) : ∃ r, rs[i]? = some r ∧ RecOf ref s r := by
  induction h generalizing i with
  | nil => simp at hs
  | cons h1 _ ih =>
    cases i with
    | zero => simp at hs; subst hs; exact ⟨_, by simp, h1⟩
    | succ i => simp at hs; simpa using ih i hs

/-- moving the reference second down by re-basing keeps every record the record of its stream -/
theorem RecOf.rebase {ref ref' : Nat} {s : StreamIn} {r : StreamRec} (h : RecOf ref s r) (hle : ref' < ref) :
    RecOf ref' s { r with first := add64 r.first (u64 (((ref : Int) - ref') * 1000000000)),
                          last := add64 r.last (u64 (((ref : Int) - ref') * 1000000000)) } := by
  obtain ⟨h1, h2, h3, h4, h5, p0, pl, hp0, hpl, hf, hl, hbf, hbl, h0, hle2, hhi⟩ := h
  have hd : (u64 (((ref : Int) - ref') * 1000000000) : Int) = ((ref : Int) - ref') * 1000000000 := by
    apply u64_of_nonneg <;> omega
  generalize u64 (((ref : Int) - ref') * 1000000000) = u at hd ⊢
  have hs1 : r.first + u < 2 ^ 62 := by omega
  have hs2 : r.last + u < 2 ^ 62 := by omega
  have e1 : add64 r.first u = r.first + u := Nat.mod_eq_of_lt (by omega)
  have e2 : add64 r.last u = r.last + u := Nat.mod_eq_of_lt (by omega)
  refine ⟨h1, h2, h3, h4, h5, p0, pl, hp0, hpl, ?_, ?_, ?_, ?_, h0, hle2, hhi⟩ <;> simp only [e1, e2]
  · omega
  · omega
  · exact hs1
  · exact hs2

theorem Recs.rebase {ref ref' : Nat} {ss : List StreamIn} {rs : List StreamRec} (h : Recs ref ss rs) (hle : ref' < ref) :
    Recs ref' ss (rs.map fun r => { r with first := add64 r.first (u64 (((ref : Int) - ref') * 1000000000)),
                                           last := add64 r.last (u64 (((ref : Int) - ref') * 1000000000)) }) := by
  induction h with
  | nil => exact Recs.nil
  | cons h1 _ ih =>
    exact Recs.cons (h1.rebase hle) ih

end Pk.Index

namespace Pk.Index
open Pk Pk.Bytes

def MetaInv (w : Writer) (ss : List StreamIn) : Prop :=
  (w.packets.length = 0 → w.streams = []) ∧ Recs w.ref ss w.streams

theorem Recs.nil_right {ref : Nat} {ss : List StreamIn} (h : Recs ref ss []) : ss = [] := by
  cases h; rfl

theorem Recs.reref {ss : List StreamIn} {ref ref' : Nat} (h : Recs ref ss []) : Recs ref' ss [] := by
  cases h; exact Recs.nil

theorem addStream_meta (w w' : Writer) (ss : List StreamIn) (s : StreamIn) (hinv : MetaInv w ss) (hs : s.TimeWF)
    (h : w.addStream s = .ok (w', true)) : MetaInv w' (ss ++ [s]) := by
  obtain ⟨p0, pl, gid, cid, sid, cds, recs, hp0, hpl, _, hcd, href, hst, _, _, hpk, hne⟩ := addStream_spec w w' s h
  obtain ⟨q0, ql, hq0, hql, h0, hle, hhi⟩ := hs
  rw [hp0] at hq0; rw [hpl] at hql
  cases hq0; cases hql
  obtain ⟨hemp, hrecs⟩ := hinv
  have hfs := unixSec_eq p0.ts h0 (by omega)
  constructor
  · intro hl; rw [hpk] at hl; simp at hl; exact absurd hl.2 hne
  · rw [hst]
    -- the records already present, under the new reference second; and the new reference second is ≤ fs
    have hold : Recs w'.ref ss (w.rebase (unixSec p0.ts)).2 ∧ (w'.ref : Int) ≤ unixSec p0.ts := by
      rw [href]
      unfold Writer.rebase
      by_cases hz : w.packets.length = 0
      · simp only [hz, if_true]
        have := hemp hz
        rw [this] at hrecs ⊢
        exact ⟨hrecs.reref, Int.le_refl _⟩
      · simp only [hz, if_false]
        by_cases hgt : w.ref > unixSec p0.ts
        · simp only [hgt, if_true]
          exact ⟨hrecs.rebase hgt, Int.le_refl _⟩
        · simp only [hgt, if_false]
          exact ⟨hrecs, by omega⟩
    obtain ⟨hold, hreffs⟩ := hold
    refine hold.append ?_
    have hlow : (w'.ref : Int) * 1000000000 ≤ p0.ts := by omega
    have e1 : (u64 (p0.ts - (w'.ref : Int) * 1000000000) : Int) = p0.ts - (w'.ref : Int) * 1000000000 := by
      apply u64_of_nonneg <;> omega
    have e2 : (u64 (pl.ts - (w'.ref : Int) * 1000000000) : Int) = pl.ts - (w'.ref : Int) * 1000000000 := by
      apply u64_of_nonneg <;> omega
    refine ⟨rfl, rfl, rfl, rfl, ⟨cds, hcd, rfl, rfl⟩, p0, pl, hp0, hpl, ?_, ?_, ?_, ?_, h0, hle, hhi⟩ <;>
      simp only [mkStreamRec] <;> omega

theorem addAll_meta (ss : List StreamIn) : ∀ (w w' : Writer) (done : List StreamIn), MetaInv w done →
    (∀ s ∈ ss, s.TimeWF) → w.addAll ss = some w' → MetaInv w' (done ++ ss) := by
  induction ss with
  | nil => intro w w' done hinv _ h; simp [Writer.addAll] at h; subst h; simpa using hinv
  | cons s ss ih =>
    intro w w' done hinv hwf h
    simp only [Writer.addAll] at h
    split at h
    · rename_i w1 h1
      have := ih w1 w' (done ++ [s]) (addStream_meta w w1 done s hinv (hwf s (by simp)) h1)
        (fun x hx => hwf x (by simp [hx])) h
      simpa using this
    · simp at h

end Pk.Index
