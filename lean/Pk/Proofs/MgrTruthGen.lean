/- Helper lemmas for C06Reach: event-independent lemmas about `C06.Inv` and the job invariant `JobInv`. -/
import Pk.Props.C06ReachSpec
import Pk.Proofs.MgrTruthInherit
import Pk.Proofs.MgrTruthFrame
import Pk.Proofs.MgrTruthEdit
import Pk.Proofs.MgrTruthJob
import Pk.Proofs.MgrTruthMasks
import Pk.Proofs.MgrTruthVia
import Pk.Proofs.MgrTruthOrigin
import Pk.Proofs.MgrTruthInv
namespace Pk.Props.C06Reach
open Pk.Mgr Pk.Props.MgrReach Pk.Proofs.MgrTruth Pk.Proofs.MgrTags

theorem edits_iff (e : Ev) (n : String) : C06.Edits e n ↔ EditsN e n := by
  cases e <;> exact Iff.rfl

theorem sget_mem' {α} {l : List (String × α)} {k : String} {v : α} (h : sget l k = some v) : (k, v) ∈ l :=
  Pk.Proofs.MgrConv.sget_mem _ _ _ h

/-- `all` never shrinks -/
theorem all_le_step (s : St) (e : Ev) (st : Started) (hr : Reach s) : s.all ≤ (step s e st).1.all := by
  by_cases himp : ∃ p u c a b d, e = .importDone p u c a b d
  · obtain ⟨p, u, c, a, b, d, rfl⟩ := himp
    cases hji : s.jImport with
    | none => rw [Pk.Proofs.MgrReach.step_importDone_none' _ _ _ _ _ _ _ _ hji]; exact Nat.le_refl _
    | some q =>
      obtain ⟨jn, held⟩ := q
      rw [(Pk.Proofs.MgrReach.step_importDone_all_next s p u c a b d st jn held hji).1]
      have := hr.importJob jn held hji
      have h2 := hr.allLeNext
      unfold AllLeNext at h2
      omega
  · rw [(Pk.Proofs.MgrReach.step_all_next_other s e st (fun p u c a b d h => himp ⟨p, u, c, a, b, d, h⟩)).1]
    exact Nat.le_refl _

/-- the frame of the tags an event does not edit -/
theorem keep_step (s : St) (e : Ev) (st : Started) (n : String) (hn : ¬ C06.Edits e n) :
    Keep (step s e st).1.all n s.tags (step s e st).1.tags :=
  (step_frame s e st).2.1 n (fun h => hn ((edits_iff e n).2 h))

/-- a pending stream of a tag the event does not edit stays pending -/
theorem pend_keep (s : St) (e : Ev) (st : Started) (hr : Reach s) (n : String) (hn : ¬ C06.Edits e n)
    (id : Nat) (h : Pend s.tags n id) : Pend (step s e st).1.tags n id := by
  obtain ⟨t, ht, hid⟩ := h
  obtain ⟨t', h', hrel⟩ := (keep_step s e st n hn).1 t ht
  exact ⟨t', h', hrel.2.2 id hid (Nat.lt_of_lt_of_le (hr.uncBounded n t ht id hid) (all_le_step s e st hr))⟩

/-- assembling `Inv` after an event that keeps `next` and `all`: tags the event does not edit must be
    pending wherever their truth changed; edited tags are checked directly -/
theorem inv_of_frame (s : St) (e : Ev) (st : Started) (T T' : Truth)
    (hr : Reach s) (hinv : C06.Inv s T)
    (hnext : (step s e st).1.next = s.next) (hall : (step s e st).1.all = s.all)
    (hch : ∀ n, ¬ C06.Edits e n → ∀ t', sget (step s e st).1.tags n = some t' → ∀ id, id < s.next →
        T' n id ≠ T n id → id ∈ t'.unc)
    (hed : ∀ n, C06.Edits e n → ∀ t', sget (step s e st).1.tags n = some t' → ∀ id, id < s.next →
        id ∉ t'.unc → (id ∈ t'.mat ↔ T' n id = true)) :
    C06.Inv (step s e st).1 T' := by
  intro n t' h' id hid hnu
  rw [hnext] at hid
  by_cases hE : C06.Edits e n
  · exact hed n hE t' h' id hid hnu
  · have hk := keep_step s e st n hE
    cases hsn : sget s.tags n with
    | none => rw [hk.2 hsn] at h'; cases h'
    | some t =>
      obtain ⟨t2, h2, hrel⟩ := hk.1 t hsn
      rw [h2] at h'; cases h'
      have hT : T' n id = T n id := by
        rcases Decidable.em (T' n id = T n id) with h | h
        · exact h
        · exact absurd (hch n hE _ h2 id hid h) hnu
      rw [hrel.1, hT]
      refine hinv n t hsn id hid (fun hu => hnu (hrel.2.2 id hu ?_))
      rw [hall]
      exact Nat.lt_of_lt_of_le hid hr.nextLeAll

/-! ## API results -/
theorem res_ok_addTag (s : St) (name color defn : String) (f : Facts) (st : Started)
    (h : (step s (.addTag name color defn f) st).2 ≠ Res.err) : (step s (.addTag name color defn f) st).2 = Res.ok := by
  rw [step_addTag_eq] at h ⊢
  repeat' split
  all_goals first | rfl | (exfalso; revert h; simp_all)

theorem res_ok_updQuery (s : St) (name defn : String) (f : Facts) (st : Started)
    (h : (step s (.updQuery name defn f) st).2 ≠ Res.err) : (step s (.updQuery name defn f) st).2 = Res.ok := by
  rw [step_updQuery_eq] at h ⊢
  repeat' split
  all_goals first | rfl | (exfalso; revert h; simp_all)

theorem res_ok_updName (s : St) (name new : String) (st : Started)
    (h : (step s (.updName name new) st).2 ≠ Res.err) : (step s (.updName name new) st).2 = Res.ok := by
  rw [step_updName_eq] at h ⊢
  repeat' split
  all_goals first | rfl | (exfalso; revert h; simp_all)

theorem res_ok_delTag (s : St) (name : String) (st : Started)
    (h : (step s (.delTag name) st).2 ≠ Res.err) : (step s (.delTag name) st).2 = Res.ok := by
  rw [step_delTag_eq] at h ⊢
  repeat' split
  all_goals first | rfl | (exfalso; revert h; simp_all)

theorem res_ok_markAdd (s : St) (name : String) (ids : List Nat) (st : Started)
    (h : (step s (.markAdd name ids) st).2 ≠ Res.err) : (step s (.markAdd name ids) st).2 = Res.ok := by
  have : (step s (.markAdd name ids) st).2 = Res.ok ∨ (step s (.markAdd name ids) st).2 = Res.err := by
    rw [step_markAdd_eq]
    repeat' split
    all_goals first | exact Or.inr rfl | exact Or.inl rfl | skip
    rename_i t ht _ _
    exact Or.inl (markUpdate_res s name ids [] t ht)
  rcases this with h1 | h1
  · exact h1
  · exact absurd h1 h

theorem res_ok_markDel (s : St) (name : String) (ids : List Nat) (st : Started)
    (h : (step s (.markDel name ids) st).2 ≠ Res.err) : (step s (.markDel name ids) st).2 = Res.ok := by
  have : (step s (.markDel name ids) st).2 = Res.ok ∨ (step s (.markDel name ids) st).2 = Res.err := by
    rw [step_markDel_eq]
    repeat' split
    all_goals first | exact Or.inr rfl | exact Or.inl rfl | skip
    rename_i t ht _ _
    exact Or.inl (markUpdate_res s name [] ids t ht)
  rcases this with h1 | h1
  · exact h1
  · exact absurd h1 h

/-! ## pending streams of referenced tags stay pending -/

/-- a pending stream of a tag that some tag references stays pending through every event except the
    tagging completion (a referenced tag cannot be deleted or renamed; an edit makes everything pending;
    a mark update restores the pending set) -/
theorem pend_mono (s : St) (e : Ev) (st : Started) (hr : Reach s) (hne : ∀ n r, e ≠ .tagDone n r)
    (r : String) (id : Nat) (href : ∃ nt, nt ∈ s.tags ∧ r ∈ nt.2.refs)
    (h : Pend s.tags r id) : Pend (step s e st).1.tags r id := by
  by_cases herr : (step s e st).2 = Res.err
  · rw [step_rejected s e st herr]; exact h
  by_cases hE : C06.Edits e r
  · obtain ⟨t, ht, hid⟩ := h
    obtain ⟨nt, hnt, hrn⟩ := href
    have hrb : nt.1 ∈ t.refBy := hr.refByWF nt hnt r hrn t ht
    cases e with
    | tagDone n res => exact absurd rfl (hne n res)
    | addTag name color defn f =>
      have hn : name = r := hE
      subst hn
      have := (addTag_ok s name color defn f st (res_ok_addTag s name color defn f st herr)).1
      rw [ht] at this; cases this
    | updQuery name defn f =>
      have hn : name = r := hE
      subst hn
      obtain ⟨t0, t', _, h', _, _, _, _, _, hall⟩ := updQuery_ok s name defn f st (res_ok_updQuery s name defn f st herr)
      exact ⟨t', h', hall.1 id (hr.uncBounded name t ht id hid)⟩
    | updName name new =>
      rcases updName_ok s name new st (res_ok_updName s name new st herr) with h1 | ⟨t0, h0, hrb0, hnew, _, _⟩
      · rw [h1]; exact ⟨t, ht, hid⟩
      · have hn : name = r ∨ new = r := hE
        rcases hn with hn | hn
        · subst hn
          rw [ht] at h0; cases h0
          rw [hrb0] at hrb; cases hrb
        · subst hn
          rw [ht] at hnew; cases hnew
    | markAdd name ids =>
      have hn : name = r := hE
      subst hn
      obtain ⟨t', h', hu, _⟩ := step_markAdd_self s name ids st t ht
      exact ⟨t', h', hu ▸ hid⟩
    | markDel name ids =>
      have hn : name = r := hE
      subst hn
      obtain ⟨t', h', hu, _⟩ := step_markDel_self s name ids st t ht
      exact ⟨t', h', hu ▸ hid⟩
    | delTag name =>
      have hn : name = r := hE
      subst hn
      obtain ⟨t0, h0, hrb0, _⟩ := delTag_ok s name st (res_ok_delTag s name st herr)
      rw [ht] at h0; cases h0
      rw [hrb0] at hrb; cases hrb
    | _ => exact absurd hE (by simp [C06.Edits])
  · exact pend_keep s e st hr r hE id h

/-! ## coverage by the during-job masks -/

theorem masksNE_mono {s s' : St} (hu : ∀ id, id ∈ s.upd → id ∈ s'.upd) (hrs : ∀ id, id ∈ s.rst → id ∈ s'.rst)
    (ha : ∀ id, id ∈ s.add → id ∈ s'.add) (h : masksNE s) : masksNE s' := by
  have ne : ∀ (l l' : List Nat), (∀ id, id ∈ l → id ∈ l') → l ≠ [] → l' ≠ [] := by
    intro l l' hl hne h0
    cases l with
    | nil => exact hne rfl
    | cons a l => have := hl a (by simp); rw [h0] at this; cases this
  rcases h with h | h | h
  · exact Or.inl (ne _ _ hu h)
  · exact Or.inr (Or.inl (ne _ _ hrs h))
  · exact Or.inr (Or.inr (ne _ _ ha h))

theorem covM_mono {s s' : St} {snap : Tag} {id : Nat}
    (hu : ∀ id, id ∈ s.upd → id ∈ s'.upd) (hrs : ∀ id, id ∈ s.rst → id ∈ s'.rst)
    (ha : ∀ id, id ∈ s.add → id ∈ s'.add) (h : CovM s snap id) : CovM s' snap id := by
  rcases h with h | h | h | h
  · exact Or.inl (ha _ h)
  · exact Or.inr (Or.inl ⟨h.1, masksNE_mono hu hrs ha h.2⟩)
  · exact Or.inr (Or.inr (Or.inl ⟨hrs _ h.1, h.2⟩))
  · exact Or.inr (Or.inr (Or.inr ⟨hu _ h.1, h.2⟩))

theorem cov_mono {s s' : St} {snap : Tag} {id : Nat}
    (hu : ∀ id, id ∈ s.upd → id ∈ s'.upd) (hrs : ∀ id, id ∈ s.rst → id ∈ s'.rst)
    (ha : ∀ id, id ∈ s.add → id ∈ s'.add)
    (hp : ∀ r, (r ∈ snap.mainT ∨ r ∈ snap.subT) → ∀ id, Pend s.tags r id → Pend s'.tags r id)
    (h : Cov s snap id) : Cov s' snap id := by
  rcases h with h | ⟨hm, h⟩
  · exact Or.inl (covM_mono hu hrs ha h)
  · refine Or.inr ⟨masksNE_mono hu hrs ha hm, ?_⟩
    rcases h with ⟨r, hr, hp'⟩ | ⟨r, hr, id', hp'⟩
    · exact Or.inl ⟨r, hr, hp r (Or.inl hr) _ hp'⟩
    · exact Or.inr ⟨r, hr, id', hp r (Or.inr hr) _ hp'⟩

theorem masksNE_of_mem {s : St} {id : Nat} (h : id ∈ s.upd ∨ id ∈ s.rst ∨ id ∈ s.add) : masksNE s := by
  rcases h with h | h | h
  · exact Or.inl (fun h0 => by rw [h0] at h; cases h)
  · exact Or.inr (Or.inl (fun h0 => by rw [h0] at h; cases h))
  · exact Or.inr (Or.inr (fun h0 => by rw [h0] at h; cases h))

/-- a change of the job's tag that lies in the closure of a base set is covered, if the base on the job's
    tag is covered by the masks, the closure on the referenced tags is pending (or covered by the masks),
    and a non-empty base leaves a non-empty mask -/
theorem job_cover {s s' : St} {snap ot : Tag} {jn : String} {B : String → Nat → Prop} {nx id : Nat}
    (hot : sget s.tags jn = some ot) (hm : ot.mainT = snap.mainT) (hs : ot.subT = snap.subT)
    (d : Dep s.tags nx B jn id)
    (ha : B jn id → CovM s' snap id)
    (hb : ∀ r, r ∈ snap.mainT → Dep s.tags nx B r id → CovM s' snap id ∨ Pend s'.tags r id)
    (hc : ∀ r, r ∈ snap.subT → ∀ id', id' < nx → Dep s.tags nx B r id' →
        CovM s' snap id ∨ ∃ id'', Pend s'.tags r id'')
    (hd : (∃ n0 id0, B n0 id0) → masksNE s') : Cov s' snap id := by
  cases d with
  | base hbase => exact Or.inl (ha hbase)
  | main ht hr d' =>
    rw [hot] at ht; cases ht
    rcases hb _ (hm ▸ hr) d' with h | h
    · exact Or.inl h
    · exact Or.inr ⟨hd d'.nonempty, Or.inl ⟨_, hm ▸ hr, h⟩⟩
  | sub ht hr hlt d' =>
    rw [hot] at ht; cases ht
    rcases hc _ (hs ▸ hr) _ hlt d' with h | h
    · exact Or.inl h
    · exact Or.inr ⟨hd d'.nonempty, Or.inr ⟨_, hs ▸ hr, h⟩⟩

/-! ## the job invariant through an event that is not the completion -/

/-- the job in flight survives an event that is not its completion: the invariant is kept if new streams
    are recorded in `add` and every entry of the new table that carries the identity and the text of the
    snapshot either has everything covered or comes from such an entry of the old table (`n`, possibly
    another name: rename) with the same attributes, every change of truth between the two being covered -/
theorem jobInv_mono (s : St) (e : Ev) (st : Started) (T T' g : Truth) (hr : Reach s) (hjob : JobInv s T g)
    (hne : ∀ n r, e ≠ .tagDone n r)
    (jn : String) (snap : Tag) (held : List Nat) (hj : s.jTag = some (jn, snap, held))
    (hnx : ∀ id, s.next ≤ id → id < (step s e st).1.next → id ∈ (step s e st).1.add)
    (hpre : ∀ n' ot', sget (step s e st).1.tags n' = some ot' → ot'.gen = snap.gen → ot'.defn = snap.defn →
        (∀ id, id < (step s e st).1.next → CovM (step s e st).1 snap id) ∨
        ∃ n ot, sget s.tags n = some ot ∧ ot.gen = snap.gen ∧ ot.defn = snap.defn ∧ Attrs ot' = Attrs ot ∧
          (Attrs ot = Attrs snap → ∀ id, id < s.next → T' n' id ≠ T n id → Cov (step s e st).1 snap id)) :
    JobInv (step s e st).1 T' g := by
  have htag : s.tag = true := hr.jobsWF.1.2 (by rw [hj]; rfl)
  obtain ⟨hj', _, hu, hrs, ha⟩ := job_stable s e st (jn, snap, held) hj htag hne
  intro jn2 snap2 held2 n' ot' hj2 hot' hg' hd'
  rw [hj'] at hj2
  cases hj2
  rcases hpre n' ot' hot' hg' hd' with hall | ⟨n, ot, hot, hg, hd, hat, h2⟩
  · exact Or.inl hall
  rcases hjob jn snap held n ot hj hot hg hd with hall | ⟨e1, hcov⟩
  · left
    intro id hid
    rcases Nat.lt_or_ge id s.next with hlt | hge
    · exact covM_mono hu hrs ha (hall id hlt)
    · exact Or.inl (hnx id hge hid)
  · right
    refine ⟨hat.trans e1, ?_⟩
    intro id hid hne'
    rcases Nat.lt_or_ge id s.next with hlt | hge
    · by_cases hT : T' n' id = T n id
      · rw [hT] at hne'
        refine cov_mono hu hrs ha ?_ (hcov id hlt hne')
        intro r hr' id' hp
        refine pend_mono s e st hr hne r id' ⟨(n, ot), sget_mem' hot, ?_⟩ hp
        obtain ⟨a1, a2, _⟩ := attrs_eq e1
        simp only [mem_refs, a1, a2]
        exact hr'
      · exact h2 e1 id hlt hT
    · exact Or.inl (Or.inl (hnx id hge hid))

/-- an entry of the new table that the event does not edit comes from the entry of the same name -/
theorem pre_of_not_edits (s : St) (e : Ev) (st : Started) (n' : String) (snap ot' : Tag)
    (hn : ¬ C06.Edits e n') (hot' : sget (step s e st).1.tags n' = some ot') (hg' : ot'.gen = snap.gen)
    (hd' : ot'.defn = snap.defn) :
    ∃ ot, sget s.tags n' = some ot ∧ ot.gen = snap.gen ∧ ot.defn = snap.defn ∧ Attrs ot' = Attrs ot := by
  have hk := keep_step s e st n' hn
  cases hs : sget s.tags n' with
  | none => rw [hk.2 hs] at hot'; cases hot'
  | some ot =>
    obtain ⟨t2, h2, hrel⟩ := hk.1 ot hs
    rw [hot'] at h2; cases h2
    obtain ⟨t3, h3, ha⟩ := attrs_get (step_attrs s e st n' (fun h => hn ((edits_iff e n').2 h))) hs
    rw [hot'] at h3; cases h3
    exact ⟨ot, rfl, by rw [← (attrs_eq ha).2.2.2.2]; exact hg', by rw [← hrel.2.1]; exact hd', ha⟩

/-- nobody references a tag that `delTag` accepts (`refBy` mirrors the references) -/
theorem href_of_reach (s : St) (e : Ev) (hr : Reach s) :
    ∀ name' t', e = .delTag name' → sget s.tags name' = some t' → t'.refBy = [] →
      ∀ n t, sget s.tags n = some t → name' ∉ t.refs := by
  intro name' t' _ ht' hrb n t ht hmem
  have := hr.refByWF (n, t) (sget_mem' ht) name' hmem t' ht'
  rw [hrb] at this; cases this

/-- a job that was started during this event satisfies the invariant with the ghost set to the
    truth after the event -/
theorem jobInv_fresh (s : St) (e : Ev) (st : Started) (T' : Truth) (hr : Reach s) (hev : C09.EvOK s e)
    (hgen : GenInv s) (hgen' : GenInv (step s e st).1)
    (h : s.jTag = none ∨ ∃ n r, e = .tagDone n r) (hinv' : C06.Inv (step s e st).1 T')
    (hnl' : (step s e st).1.next ≤ (step s e st).1.all) :
    JobInv (step s e st).1 T' T' := by
  intro jn snap held n ot' hj' hot' hg' _
  have h0 : s.tag = false ∨ ∃ n r, e = .tagDone n r := by
    rcases h with h | h
    · left
      cases ht : s.tag with
      | false => rfl
      | true => have := hr.jobsWF.1.1 ht; rw [h] at this; cases this
    · exact Or.inr h
  have hev' : ∀ n r, e = .tagDone n r → ∀ jn' snap' held', s.jTag = some (jn', snap', held') → jn' = n := by
    intro n r he jn' snap' held' hj
    subst he
    exact hev jn' snap' held' hj
  rcases job_started s e st jn snap held hr.tagsWF hr.uncBounded (href_of_reach s e hr) hr.jobsWF.1 hev' h0 hj' with
    ⟨ot, hot, hm, hsub, _, hf1, hf2, hf3, hf4, hf5, hlate⟩ | ⟨he, hgone, t, ht, _, _, _, _, e5⟩
  · have hn : n = jn := hgen'.2.2 n ot' jn ot hot' hot (by rw [hg', hf5])
    subst hn
    rw [hot'] at hot; cases hot
    right
    refine ⟨attrs_mk hf3 hf4 hf1 hf2 hf5, ?_⟩
    intro id hid hne
    have hidall : id < (step s e st).1.all := Nat.lt_of_lt_of_le hid hnl'
    by_cases hsu : id ∈ snap.unc
    · exfalso; apply hne; unfold Ans; rw [if_pos hsu]
    · by_cases hou : id ∈ ot'.unc
      · obtain ⟨hmk, hl⟩ := hlate id hou hsu hidall
        refine Or.inr ⟨hmk, ?_⟩
        rcases hl with ⟨r, hr', tr, htr, hu⟩ | ⟨r, hr', tr, id', htr, hu⟩
        · exact Or.inl ⟨r, hr', tr, htr, hu⟩
        · exact Or.inr ⟨r, hr', id', tr, htr, hu⟩
      · exfalso
        apply hne
        unfold Ans
        rw [if_neg hsu]
        have := hinv' n ot' hot' id hid hou
        rw [hm] at this
        by_cases hmem : id ∈ snap.mat
        · simp [hmem, this.1 hmem]
        · cases hT : T' n id with
          | false => simp [hmem]
          | true => exact absurd (this.2 hT) hmem
  · -- the job was started for the tag this `delTag` deleted: no entry carries its identity any more
    exfalso
    subst he
    rcases gen_origin s _ st hev n ot' hot' with ⟨u, hu, g1⟩ | ⟨m, u, he1, _⟩ | ⟨c, d, f, he1, _⟩
    · have hn : n = jn := hgen.2.2 n u jn t hu ht (by rw [← g1, hg', e5])
      subst hn
      rw [hgone] at hot'; cases hot'
    · cases he1
    · cases he1

/-! ## the sweep -/
open Pk.Proofs.MgrTermination in
theorem closed_after (s1 : St) (hs : Sorted s1.tags) (hb : Bounded s1.all s1.tags) (ht : Topo s1.tags) :
    ∀ n t', sget (inherit s1).tags n = some t' → Closed s1.all (inherit s1).tags t' :=
  fun n t' h => inherit_closed_aux s1 hs hb (inheritLoop_ok _ _ hs ht) n t' h

theorem pend_inherit (s1 : St) {n : String} {id : Nat} (h : Pend s1.tags n id) (hid : id < s1.all) :
    Pend (inherit s1).tags n id := by
  obtain ⟨t, ht, hu⟩ := h
  obtain ⟨t', h', hrel⟩ := (inherit_keep s1 n).1 t ht
  exact ⟨t', h', hrel.2.2 id hu hid⟩

open Pk.Proofs.MgrTermination in
theorem fq_of_attrs {L L' : List (String × Tag)}
    (h : ∀ n, (sget L' n).map Attrs = (sget L n).map Attrs) : FQ L L' := by
  intro n
  have := congrArg (Option.map (fun a : List String × List String × Nat × Nat × Nat => (a.1, a.2.1))) (h n)
  have e : Pk.Proofs.MgrReach.F2 = fun x : Tag => (x.mainT, x.subT) := rfl
  rw [e]
  simpa [Option.map_map, Function.comp_def, Attrs] using this

/-- everything in the closure of a base that is pending before the sweep is pending after it -/
theorem sweep_pending (tags0 : List (String × Tag)) (s1 : St) (hsort : Sorted s1.tags)
    (hb : Bounded s1.all s1.tags) (ht : Pk.Proofs.MgrTermination.Topo s1.tags)
    {B : String → Nat → Prop} {nx : Nat} (hnx : nx ≤ s1.all)
    (hex : ∀ n t0, sget tags0 n = some t0 → ∃ t1, sget s1.tags n = some t1 ∧
        ((t1.mainT = t0.mainT ∧ t1.subT = t0.subT) ∨ ∀ id, id < s1.all → id ∈ t1.unc))
    (hbase : ∀ n id, B n id → id < s1.all → Pend s1.tags n id) :
    ∀ n id, Dep tags0 nx B n id → id < s1.all → Pend (inherit s1).tags n id := by
  refine dep_pending hnx (closed_after s1 hsort hb ht) ?_ (fun n id hB hid => pend_inherit s1 (hbase n id hB hid) hid)
  intro n t0 h0
  obtain ⟨t1, h1, hc⟩ := hex n t0 h0
  obtain ⟨t', h', ha⟩ := attrs_get (inherit_akeep s1 n) h1
  obtain ⟨e1, e2, _⟩ := attrs_eq ha
  refine ⟨t', h', ?_⟩
  rcases hc with hc | hc
  · left
    exact ⟨fun r hr => by rw [e1, hc.1]; exact hr, fun r hr => by rw [e2, hc.2]; exact hr⟩
  · right
    intro id hid
    obtain ⟨t2, h2, hu⟩ := pend_inherit s1 ⟨t1, h1, hc id hid⟩ hid
    rw [h'] at h2; cases h2; exact hu

open Pk.Proofs.MgrTermination in
theorem topo_of_acyclic (s : St) (ha : C09.Acyclic s) : Topo s.tags :=
  topo_of_full s.tags s.tags.length ha

end Pk.Props.C06Reach
