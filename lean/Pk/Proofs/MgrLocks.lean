/-
  Helper lemmas about the lock table (`lock`, `release`, `nget`/`nins`/`ndel`) of the service-loop
  model.  Property theorems are in Pk/Props/C13.lean.
-/
import Pk.Model.Manager

namespace Pk.Proofs.MgrLocks
open Pk.Mgr

/-! ## assoc tables keyed by Nat -/

@[simp] theorem nget_nil {α} (k : Nat) : nget ([] : List (Nat × α)) k = none := rfl

theorem nget_cons {α} (a : Nat) (b : α) (r : List (Nat × α)) (k : Nat) :
    nget ((a, b) :: r) k = if a = k then some b else nget r k := by
  by_cases h : a = k
  · simp [nget, List.find?, h]
  · have : (a == k) = false := by simp [h]
    simp [nget, List.find?, this, h]

/-- lookup after insert (no sortedness needed) -/
theorem nget_nins {α} (k : Nat) (v : α) (l : List (Nat × α)) (k' : Nat) :
    nget (nins k v l) k' = if k = k' then some v else nget l k' := by
  induction l with
  | nil => simp [nins, nget_cons]
  | cons a r ih =>
    obtain ⟨a, b⟩ := a
    simp only [nins]
    split
    · simp [nget_cons]
    · split
      · next h => subst h; simp only [nget_cons]; split <;> rfl
      · next h1 h2 =>
        simp only [nget_cons, ih]
        by_cases h3 : a = k'
        · have : k ≠ k' := by omega
          simp [h3, this]
        · simp [h3]

/-- lookup after delete (no sortedness needed) -/
theorem nget_ndel {α} (l : List (Nat × α)) (k k' : Nat) :
    nget (ndel l k) k' = if k = k' then none else nget l k' := by
  induction l with
  | nil => simp [ndel]
  | cons a r ih =>
    obtain ⟨a, b⟩ := a
    have ih' : nget (List.filter (fun x => x.1 != k) r) k' = if k = k' then none else nget r k' := ih
    by_cases h : a = k
    · subst h
      by_cases h2 : a = k'
      · subst h2; simpa [ndel, nget_cons] using ih'
      · simp [ndel, nget_cons, ih', h2]
    · have : (a != k) = true := by simp [h]
      simp only [ndel, List.filter, this, nget_cons, ih']
      by_cases h2 : a = k'
      · have : k ≠ k' := by omega
        simp [h2, this]
      · simp [h2]

theorem nget_eq_none_iff {α} (l : List (Nat × α)) (k : Nat) :
    nget l k = none ↔ k ∉ l.map (·.1) := by
  induction l with
  | nil => simp
  | cons a r ih =>
    obtain ⟨a, b⟩ := a
    simp only [nget_cons, List.map_cons, List.mem_cons, not_or]
    by_cases h : a = k
    · simp [h]
    · simp [h, ih]; omega

/-! ## `lock` -/

@[simp] theorem lock_nil (u : List (Nat × Nat)) : lock u [] = u := rfl
theorem lock_cons (u : List (Nat × Nat)) (g : Nat) (fs : List Nat) :
    lock u (g :: fs) = lock (nins g ((nget u g).getD 0 + 1) u) fs := rfl

/-- `lock` adds the multiplicity of `f` in the list to its count -/
theorem lock_getD (u : List (Nat × Nat)) (fs : List Nat) (f : Nat) :
    (nget (lock u fs) f).getD 0 = (nget u f).getD 0 + fs.count f := by
  induction fs generalizing u with
  | nil => simp
  | cons g fs ih =>
    rw [lock_cons, ih, nget_nins, List.count_cons]
    by_cases h : g = f
    · subst h; simp; omega
    · simp [h]

theorem lock_ne_zero (u : List (Nat × Nat)) (fs : List Nat) (h : ∀ f, nget u f ≠ some 0) :
    ∀ f, nget (lock u fs) f ≠ some 0 := by
  induction fs generalizing u with
  | nil => simpa using h
  | cons g fs ih =>
    rw [lock_cons]
    apply ih
    intro f
    rw [nget_nins]
    split
    · simp
    · exact h f

theorem lock_isSome (u : List (Nat × Nat)) (fs : List Nat) (f : Nat) :
    (nget (lock u fs) f).isSome = ((nget u f).isSome || decide (f ∈ fs)) := by
  induction fs generalizing u with
  | nil => simp
  | cons g fs ih =>
    rw [lock_cons, ih, nget_nins]
    by_cases h : g = f
    · subst h; simp
    · have : ¬ f = g := fun e => h e.symm
      simp [h, this]

/-- files created by an import / a merge are entered into the file table -/
theorem nget_insFiles_isSome (cr : List (Nat × List Nat)) (files : List (Nat × List Nat)) (f : Nat) :
    (nget (cr.foldl (fun fs (x : Nat × List Nat) => nins x.1 x.2 fs) files) f).isSome
      = ((nget files f).isSome || decide (f ∈ cr.map (·.1))) := by
  induction cr generalizing files with
  | nil => simp
  | cons a cr ih =>
    rw [List.foldl_cons, ih, nget_nins]
    by_cases h : a.1 = f
    · subst h; simp
    · have : ¬ f = a.1 := fun e => h e.symm
      simp only [List.map_cons, List.mem_cons, this, false_or, if_neg h]

/-! ## `release` -/

/-- one iteration of `release` -/
def release1 (s : St) (f : Nat) : St :=
  match nget s.used f with
  | none => s
  | some n => if n ≤ 1 then { s with used := ndel s.used f, files := ndel s.files f }
              else { s with used := nins f (n - 1) s.used }

@[simp] theorem release_nil (s : St) : release s [] = s := rfl
theorem release_cons (s : St) (g : Nat) (fs : List Nat) :
    release s (g :: fs) = release (release1 s g) fs := rfl

theorem release1_getD (s : St) (g f : Nat) :
    (nget (release1 s g).used f).getD 0 = (nget s.used f).getD 0 - (if g = f then 1 else 0) := by
  unfold release1
  split
  · next h =>
    by_cases e : g = f
    · subst e; simp [h]
    · simp [e]
  · next n h =>
    split
    · simp only [nget_ndel]
      by_cases e : g = f
      · subst e; simp [h]; omega
      · simp [e]
    · simp only [nget_nins]
      by_cases e : g = f
      · subst e; simp [h]
      · simp [e]

/-- `release` subtracts the multiplicity of `f` in the list from its count (truncated at 0) -/
theorem release_getD (s : St) (fs : List Nat) (f : Nat) :
    (nget (release s fs).used f).getD 0 = (nget s.used f).getD 0 - fs.count f := by
  induction fs generalizing s with
  | nil => simp
  | cons g fs ih =>
    rw [release_cons, ih, release1_getD, List.count_cons]
    by_cases h : g = f
    · subst h; simp; omega
    · simp [h]

theorem release1_ne_zero (s : St) (g : Nat) (h : ∀ f, nget s.used f ≠ some 0) :
    ∀ f, nget (release1 s g).used f ≠ some 0 := by
  intro f
  unfold release1
  split
  · exact h f
  · next n hn =>
    split
    · simp only [nget_ndel]; split
      · simp
      · exact h f
    · simp only [nget_nins]; split
      · simp; omega
      · exact h f

theorem release_ne_zero (s : St) (fs : List Nat) (h : ∀ f, nget s.used f ≠ some 0) :
    ∀ f, nget (release s fs).used f ≠ some 0 := by
  induction fs generalizing s with
  | nil => simpa using h
  | cons g fs ih => rw [release_cons]; exact ih _ (release1_ne_zero s g h)

theorem release1_sync (s : St) (g : Nat)
    (h : ∀ f, (nget s.files f).isSome = (nget s.used f).isSome) :
    ∀ f, (nget (release1 s g).files f).isSome = (nget (release1 s g).used f).isSome := by
  intro f
  unfold release1
  split
  · exact h f
  · next n hn =>
    split
    · simp only [nget_ndel]; split
      · rfl
      · exact h f
    · simp only [nget_nins]; split
      · next e => subst e; simp [h, hn]
      · exact h f

/-- a file is closed and deleted exactly when its count reaches zero -/
theorem release_sync (s : St) (fs : List Nat)
    (h : ∀ f, (nget s.files f).isSome = (nget s.used f).isSome) :
    ∀ f, (nget (release s fs).files f).isSome = (nget (release s fs).used f).isSome := by
  induction fs generalizing s with
  | nil => simpa using h
  | cons g fs ih => rw [release_cons]; exact ih _ (release1_sync s g h)

/-- `release` of files whose count stays positive deletes nothing -/
theorem release1_files_of_pos (s : St) (g : Nat) (h : 1 < (nget s.used g).getD 0) :
    (release1 s g).files = s.files := by
  unfold release1
  split
  · rfl
  · next n hn =>
    have : ¬ n ≤ 1 := by simp [hn] at h; omega
    simp [this]

theorem release_files_of_pos (s : St) (fs : List Nat)
    (h : ∀ f ∈ fs, fs.count f < (nget s.used f).getD 0) :
    (release s fs).files = s.files := by
  induction fs generalizing s with
  | nil => rfl
  | cons g fs ih =>
    rw [release_cons, ih]
    · apply release1_files_of_pos
      have := h g (by simp)
      simp at this; omega
    · intro f hf
      rw [release1_getD]
      have := h f (by simp [hf])
      rw [List.count_cons] at this
      by_cases e : g = f
      · subst e; simp at this ⊢; omega
      · simp [e] at this ⊢; omega

/-- a file whose count stays positive is still in the file table, with the same content -/
theorem release_nget_files_of_pos (s : St) (fs : List Nat) (f : Nat)
    (h : fs.count f < (nget s.used f).getD 0) :
    nget (release s fs).files f = nget s.files f := by
  induction fs generalizing s with
  | nil => rfl
  | cons g fs ih =>
    rw [release_cons, ih]
    · unfold release1
      split
      · rfl
      · next n hn =>
        split
        · next hle =>
          simp only [nget_ndel]
          split
          · next e =>
            subst e; simp [hn] at h; omega
          · rfl
        · rfl
    · rw [release1_getD]
      rw [List.count_cons] at h
      by_cases e : g = f
      · subst e; simp at h ⊢; omega
      · simp [e] at h ⊢; omega

/-! ## the view table -/

theorem nins_perm {α} (k : Nat) (v : α) (l : List (Nat × α)) (h : nget l k = none) :
    (nins k v l).Perm ((k, v) :: l) := by
  induction l with
  | nil => simp [nins]
  | cons a r ih =>
    obtain ⟨a, b⟩ := a
    rw [nget_cons] at h
    have hak : ¬ a = k := by intro e; simp [e] at h
    simp only [hak, if_false] at h
    simp only [nins]
    split
    · exact List.Perm.refl _
    · split
      · next e => exact absurd e.symm hak
      · exact ((ih h).cons (a, b)).trans (List.Perm.swap _ _ _)

theorem count_flatMap_nins (k : Nat) (v : List Nat) (l : List (Nat × List Nat)) (h : nget l k = none)
    (f : Nat) : ((nins k v l).flatMap (·.2)).count f = v.count f + (l.flatMap (·.2)).count f := by
  rw [((nins_perm k v l h).flatMap_right _).count_eq]
  simp

theorem nodup_keys_nins {α} (k : Nat) (v : α) (l : List (Nat × α)) (h : nget l k = none)
    (hn : (l.map (·.1)).Nodup) : ((nins k v l).map (·.1)).Nodup := by
  rw [((nins_perm k v l h).map _).nodup_iff]
  simp only [List.map_cons, List.nodup_cons]
  exact ⟨(nget_eq_none_iff l k).1 h, hn⟩

theorem nodup_keys_ndel {α} (k : Nat) (l : List (Nat × α)) (hn : (l.map (·.1)).Nodup) :
    ((ndel l k).map (·.1)).Nodup :=
  hn.sublist ((List.filter_sublist (l := l)).map _)

theorem count_flatMap_ndel (k : Nat) (l : List (Nat × List Nat)) (fs : List Nat)
    (hn : (l.map (·.1)).Nodup) (h : nget l k = some fs) (f : Nat) :
    (l.flatMap (·.2)).count f = fs.count f + ((ndel l k).flatMap (·.2)).count f := by
  induction l with
  | nil => simp at h
  | cons a r ih =>
    obtain ⟨a, b⟩ := a
    simp only [List.map_cons, List.nodup_cons] at hn
    rw [nget_cons] at h
    by_cases e : a = k
    · subst e
      simp only [if_true, Option.some.injEq] at h
      subst h
      have hr : ndel r a = r := by
        apply List.filter_eq_self.2
        intro x hx
        have : x.1 ≠ a := by
          intro e; apply hn.1; rw [← e]; exact List.mem_map_of_mem hx
        simp [this]
      have : ndel ((a, b) :: r) a = ndel r a := by simp [ndel]
      rw [this, hr]; simp
    · simp only [e, if_false] at h
      have : ndel ((a, b) :: r) k = (a, b) :: ndel r k := by simp [ndel, e]
      rw [this]
      simp only [List.flatMap_cons, List.count_append]
      rw [ih hn.2 h]; omega

/-! ## the lock-relevant part of the state and the generalised invariant -/

/-- the part of the state the lock discipline talks about -/
structure LK where
  idx : List Nat
  files : List (Nat × List Nat)
  used : List (Nat × Nat)
  views : List (Nat × List Nat)
  jI : Option (List Nat)
  jT : Option (List Nat)
  jM : Option (List Nat)
  jC : Option (List Nat)
  qE : Bool
  tag : Bool
  merge : Bool
  convert : Bool

def proj (s : St) : LK :=
  { idx := s.idx, files := s.files, used := s.used, views := s.views,
    jI := s.jImport.map (·.2), jT := s.jTag.map (·.2.2), jM := s.jMerge.map (·.2),
    jC := s.jConv.map (·.2), qE := s.queue.isEmpty, tag := s.tag, merge := s.merge,
    convert := s.convert }

def LK.held (k : LK) : List Nat := k.jI.getD [] ++ k.jT.getD [] ++ k.jM.getD [] ++ k.jC.getD []

def LK.holders (k : LK) (f : Nat) : Nat :=
  k.idx.count f + (k.views.flatMap (·.2)).count f + k.held.count f

/-- view keys are unique; a job slot is only occupied while its flag is set (an import job runs
    exactly while the queue is non-empty) -/
def LK.JobsWF (k : LK) : Prop :=
  (k.views.map (·.1)).Nodup ∧ (k.qE = true → k.jI = none) ∧ (k.tag = false → k.jT = none) ∧
  (k.merge = false → k.jM = none) ∧ (k.convert = false → k.jC = none)

/-- the invariant, generalised by a list `p` of locks that are still to be released in the
    current event -/
def CInvK (p : List Nat) (k : LK) : Prop :=
  (∀ f, (nget k.used f).getD 0 = k.holders f + p.count f) ∧
  (∀ f, nget k.used f ≠ some 0) ∧
  (∀ f, (nget k.files f).isSome = (nget k.used f).isSome) ∧
  k.JobsWF

def CInv (p : List Nat) (s : St) : Prop := CInvK p (proj s)

theorem CInv_frame {p : List Nat} {s s' : St} (e : proj s' = proj s) (h : CInv p s) : CInv p s' := by
  unfold CInv; rw [e]; exact h

theorem isSome_of_getD_pos {o : Option Nat} (h : 0 < o.getD 0) : o.isSome = true := by
  cases o <;> simp at h ⊢

/-- locking files of the service list -/
theorem CInvK.lock_idx {p : List Nat} {k : LK} (h : CInvK p k) (fs : List Nat)
    (hfs : ∀ f ∈ fs, f ∈ k.idx) (k' : LK)
    (hu : k'.used = lock k.used fs) (hf : k'.files = k.files)
    (hh : ∀ f, k'.holders f = k.holders f + fs.count f) (hw : k'.JobsWF) : CInvK p k' := by
  obtain ⟨h1, h2, h3, _⟩ := h
  refine ⟨?_, ?_, ?_, hw⟩
  · intro f; rw [hu, lock_getD, h1, hh]; omega
  · rw [hu]; exact lock_ne_zero _ _ h2
  · intro f
    rw [hu, hf, lock_isSome, h3]
    by_cases hm : f ∈ fs
    · have : 0 < (nget k.used f).getD 0 := by
        rw [h1]; unfold LK.holders
        have := List.count_pos_iff.2 (hfs f hm)
        omega
      simp [isSome_of_getD_pos this]
    · simp [hm]

theorem mem_of_mem_drop' {l : List Nat} {i f : Nat} (h : f ∈ l.drop i) : f ∈ l :=
  (List.drop_sublist i l).subset h

/-! ### job starts (K level) -/

theorem CInvK.start_import {p : List Nat} {k : LK} (i : Nat) (h : CInvK p k) (hj : k.jI = none)
    (hq : k.qE = false) :
    CInvK p { k with used := lock k.used (k.idx.drop i), jI := some (k.idx.drop i) } := by
  obtain ⟨_, hI, hT, hM, hC⟩ := h.2.2.2
  refine h.lock_idx (k.idx.drop i) (fun f => mem_of_mem_drop') _ rfl rfl ?_ ⟨‹_›, ?_, hT, hM, hC⟩
  · intro f; simp [LK.holders, LK.held, hj]; omega
  · intro e; simp [hq] at e

theorem CInvK.start_tag {p : List Nat} {k : LK} (i : Nat) (h : CInvK p k) (hj : k.tag = false) :
    CInvK p { k with used := lock k.used (k.idx.drop i), jT := some (k.idx.drop i), tag := true } := by
  obtain ⟨_, hI, hT, hM, hC⟩ := h.2.2.2
  refine h.lock_idx (k.idx.drop i) (fun f => mem_of_mem_drop') _ rfl rfl ?_ ⟨‹_›, hI, ?_, hM, hC⟩
  · intro f; simp [LK.holders, LK.held, hT hj]; omega
  · intro e; simp at e

theorem CInvK.start_merge {p : List Nat} {k : LK} (i : Nat) (h : CInvK p k) (hj : k.merge = false) :
    CInvK p { k with used := lock k.used (k.idx.drop i), jM := some (k.idx.drop i), merge := true } := by
  obtain ⟨_, hI, hT, hM, hC⟩ := h.2.2.2
  refine h.lock_idx (k.idx.drop i) (fun f => mem_of_mem_drop') _ rfl rfl ?_ ⟨‹_›, hI, hT, ?_, hC⟩
  · intro f; simp [LK.holders, LK.held, hM hj]; omega
  · intro e; simp at e

theorem CInvK.start_conv {p : List Nat} {k : LK} (i : Nat) (h : CInvK p k) (hj : k.convert = false) :
    CInvK p { k with used := lock k.used (k.idx.drop i), jC := some (k.idx.drop i), convert := true } := by
  obtain ⟨_, hI, hT, hM, hC⟩ := h.2.2.2
  refine h.lock_idx (k.idx.drop i) (fun f => mem_of_mem_drop') _ rfl rfl ?_ ⟨‹_›, hI, hT, hM, ?_⟩
  · intro f; simp [LK.holders, LK.held, hC hj]; omega
  · intro e; simp at e

theorem CInvK.open_view {p : List Nat} {k : LK} (i key : Nat) (h : CInvK p k)
    (hv : nget k.views key = none) :
    CInvK p { k with used := lock k.used (k.idx.drop i), views := nins key (k.idx.drop i) k.views } := by
  obtain ⟨hN, hI, hT, hM, hC⟩ := h.2.2.2
  refine h.lock_idx (k.idx.drop i) (fun f => mem_of_mem_drop') _ rfl rfl ?_
    ⟨nodup_keys_nins _ _ _ hv hN, hI, hT, hM, hC⟩
  intro f
  simp only [LK.holders, LK.held, count_flatMap_nins _ _ _ hv]
  omega

/-! ### job completions (K level): the job slot is emptied, its locks become pending -/

theorem CInvK.done_import {p : List Nat} {k : LK} {held : List Nat} (h : CInvK p k)
    (hj : k.jI = some held) : CInvK (held ++ p) { k with jI := none } := by
  obtain ⟨h1, h2, h3, hN, hI, hT, hM, hC⟩ := h
  refine ⟨?_, h2, h3, hN, fun _ => rfl, hT, hM, hC⟩
  intro f; rw [h1]; simp [LK.holders, LK.held, hj]; omega

theorem CInvK.done_tag {p : List Nat} {k : LK} {held : List Nat} (h : CInvK p k)
    (hj : k.jT = some held) : CInvK (held ++ p) { k with jT := none } := by
  obtain ⟨h1, h2, h3, hN, hI, hT, hM, hC⟩ := h
  refine ⟨?_, h2, h3, hN, hI, fun _ => rfl, hM, hC⟩
  intro f; rw [h1]; simp [LK.holders, LK.held, hj]; omega

theorem CInvK.done_merge {p : List Nat} {k : LK} {held : List Nat} (h : CInvK p k)
    (hj : k.jM = some held) : CInvK (held ++ p) { k with jM := none } := by
  obtain ⟨h1, h2, h3, hN, hI, hT, hM, hC⟩ := h
  refine ⟨?_, h2, h3, hN, hI, hT, fun _ => rfl, hC⟩
  intro f; rw [h1]; simp [LK.holders, LK.held, hj]; omega

theorem CInvK.done_conv {p : List Nat} {k : LK} {held : List Nat} (h : CInvK p k)
    (hj : k.jC = some held) : CInvK (held ++ p) { k with jC := none } := by
  obtain ⟨h1, h2, h3, hN, hI, hT, hM, hC⟩ := h
  refine ⟨?_, h2, h3, hN, hI, hT, hM, fun _ => rfl⟩
  intro f; rw [h1]; simp [LK.holders, LK.held, hj]; omega

/-- clearing a flag whose job slot is empty -/
theorem CInvK.clear_tag {p : List Nat} {k : LK} (h : CInvK p k) (hj : k.jT = none) :
    CInvK p { k with tag := false } := by
  obtain ⟨h1, h2, h3, hN, hI, hT, hM, hC⟩ := h
  exact ⟨h1, h2, h3, hN, hI, fun _ => hj, hM, hC⟩

theorem CInvK.clear_merge {p : List Nat} {k : LK} (h : CInvK p k) (hj : k.jM = none) :
    CInvK p { k with merge := false } := by
  obtain ⟨h1, h2, h3, hN, hI, hT, hM, hC⟩ := h
  exact ⟨h1, h2, h3, hN, hI, hT, fun _ => hj, hC⟩

theorem CInvK.clear_conv {p : List Nat} {k : LK} (h : CInvK p k) (hj : k.jC = none) :
    CInvK p { k with convert := false } := by
  obtain ⟨h1, h2, h3, hN, hI, hT, hM, hC⟩ := h
  exact ⟨h1, h2, h3, hN, hI, hT, hM, fun _ => hj⟩

/-- changing the queue while no import job runs -/
theorem CInvK.set_queue {p : List Nat} {k : LK} (b : Bool) (h : CInvK p k) (hj : k.jI = none) :
    CInvK p { k with qE := b } := by
  obtain ⟨h1, h2, h3, hN, hI, hT, hM, hC⟩ := h
  exact ⟨h1, h2, h3, hN, fun _ => hj, hT, hM, hC⟩

/-- the queue becomes (or stays) non-empty -/
theorem CInvK.queue_nonempty {p : List Nat} {k : LK} (h : CInvK p k) :
    CInvK p { k with qE := false } := by
  obtain ⟨h1, h2, h3, hN, hI, hT, hM, hC⟩ := h
  refine ⟨h1, h2, h3, hN, ?_, hT, hM, hC⟩
  intro e; simp at e

/-- closing a view: its locks become pending -/
theorem CInvK.close_view {p : List Nat} {k : LK} {key : Nat} {fs : List Nat} (h : CInvK p k)
    (hv : nget k.views key = some fs) : CInvK (fs ++ p) { k with views := ndel k.views key } := by
  obtain ⟨h1, h2, h3, hN, hI, hT, hM, hC⟩ := h
  refine ⟨?_, h2, h3, nodup_keys_ndel _ _ hN, hI, hT, hM, hC⟩
  intro f; rw [h1]
  simp only [LK.holders, LK.held, count_flatMap_ndel _ _ _ hN hv f, List.count_append]
  omega

/-- new files (created by an import): appended to the service list with one lock each -/
theorem CInvK.add_files {p : List Nat} {k : LK} (cr : List (Nat × List Nat)) (h : CInvK p k) :
    CInvK p { k with idx := k.idx ++ cr.map (·.1),
                     files := cr.foldl (fun fs (x : Nat × List Nat) => nins x.1 x.2 fs) k.files,
                     used := lock k.used (cr.map (·.1)) } := by
  obtain ⟨h1, h2, h3, hw⟩ := h
  refine ⟨?_, lock_ne_zero _ _ h2, ?_, hw⟩
  · intro f; simp only [lock_getD, h1, LK.holders, LK.held, List.count_append]; omega
  · intro f; simp only [nget_insFiles_isSome, lock_isSome, h3]

/-! ## frame lemmas: which helper leaves the lock-relevant part alone -/

theorem proj_release1 (s : St) (g : Nat) :
    proj (release1 s g) = { proj s with used := (release1 s g).used, files := (release1 s g).files } := by
  unfold release1
  split
  · rfl
  · split <;> rfl

theorem proj_release (s : St) (fs : List Nat) :
    proj (release s fs) = { proj s with used := (release s fs).used, files := (release s fs).files } := by
  induction fs generalizing s with
  | nil => rfl
  | cons g fs ih => rw [release_cons, ih, proj_release1]

/-- releasing the pending locks -/
theorem CInv_release {p held : List Nat} {s : St} (h : CInv (held ++ p) s) : CInv p (release s held) := by
  unfold CInv at *
  rw [proj_release]
  obtain ⟨h1, h2, h3, hw⟩ := h
  refine ⟨?_, release_ne_zero s held h2, release_sync s held h3, hw⟩
  intro f
  have := h1 f
  simp only [List.count_append] at this
  show (nget (release s held).used f).getD 0 = (proj s).holders f + p.count f
  rw [release_getD]
  show (nget (proj s).used f).getD 0 - _ = _
  omega

theorem proj_foldl {β} (f : St → β → St) (hf : ∀ s x, proj (f s x) = proj s) (l : List β) (s : St) :
    proj (l.foldl f s) = proj s := by
  induction l generalizing s with
  | nil => rfl
  | cons a l ih => rw [List.foldl_cons, ih, hf]

@[simp] theorem proj_inherit (s : St) : proj (inherit s) = proj s := rfl
@[simp] theorem proj_invalidateTags (s : St) (u r a : IdSet) : proj (invalidateTags s u r a) = proj s := rfl
@[simp] theorem proj_invalidatedDuringTaggingJob (s : St) (ids : IdSet) :
    proj (invalidatedDuringTaggingJob s ids) = proj s := by
  unfold invalidatedDuringTaggingJob; split <;> rfl
@[simp] theorem proj_invalidateConverters (s : St) (u : IdSet) : proj (invalidateConverters s u) = proj s := by
  unfold invalidateConverters
  apply proj_foldl
  intro s c; rfl
@[simp] theorem proj_setTag (s : St) (n : String) (t : Tag) : proj (setTag s n t) = proj s := rfl
@[simp] theorem proj_addRefBy (s : St) (a b : String) : proj (addRefBy s a b) = proj s := by
  unfold addRefBy; split <;> rfl
@[simp] theorem proj_delRefBy (s : St) (a b : String) : proj (delRefBy s a b) = proj s := by
  unfold delRefBy; split <;> rfl
@[simp] theorem proj_attachConv (s : St) (n c : String) : proj (attachConv s n c).1 = proj s := by
  unfold attachConv
  split
  · rfl
  · split
    · rfl
    · split <;> rfl
-- CHANGED (dropped): `outputDropped` is a lock-neutral change followed (possibly) by `startTagging`
theorem proj_outputDropped (s : St) (choice : Option String) :
    ∃ s0, proj s0 = proj s ∧ (outputDropped s choice = s0 ∨ outputDropped s choice = startTagging s0 choice) := by
  unfold outputDropped
  split
  · refine ⟨_, ?_, Or.inr rfl⟩
    rw [proj_invalidatedDuringTaggingJob, proj_inherit]
    rfl
  · exact ⟨s, rfl, Or.inl rfl⟩

-- CHANGED (dropped): `detachConv` takes the tagging choice and may start a tagging job (was: `proj (detachConv s n c) = proj s`)
theorem proj_detachConv (s : St) (n c : String) (choice : Option String) :
    ∃ s0, proj s0 = proj s ∧
      (detachConv s n c choice = s0 ∨ detachConv s n c choice = startTagging s0 choice) := by
  unfold detachConv
  split
  · exact ⟨s, rfl, Or.inl rfl⟩
  · simp only []
    split
    · refine (proj_outputDropped _ choice).imp fun s0 h => ⟨?_, h.2⟩
      exact h.1.trans rfl
    · refine ⟨_, ?_, Or.inl rfl⟩
      rfl

end Pk.Proofs.MgrLocks
