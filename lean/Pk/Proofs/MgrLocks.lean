/-
  Helper lemmas about the lock table (`lock`, `release`, `nget`/`nins`/`ndel`) of the service-loop
  model.  Property theorems are in Pk/Props/C13.lean.
-/
import Pk.Model.Manager

namespace Pk.Proofs.MgrLocks
open Pk.Mgr

end Pk.Proofs.MgrLocks
