/-
  Helper lemmas about Pk.Model.Upload (property C19).  Core Lean only.
-/
import Pk.Model.Upload
import Pk.Proofs.Path

namespace Pk.Upload
open Pk.Path

/-! ### disk -/

theorem erase_cons (k0 : P) (e0 : Entry) (t : Disk) (k : P) :
    Disk.erase ((k0, e0) :: t) k = if k0 = k then Disk.erase t k else (k0, e0) :: Disk.erase t k := by
  by_cases h : k0 = k <;> simp [Disk.erase, h]

theorem lookup_cons (k0 : P) (e0 : Entry) (t : Disk) (k : P) :
    Disk.lookup ((k0, e0) :: t) k = if k0 = k then some e0 else Disk.lookup t k := rfl

theorem lookup_erase_self (d : Disk) (k : P) : (Disk.erase d k).lookup k = none := by
  induction d with
  | nil => rfl
  | cons x t ih =>
    obtain ⟨k0, e0⟩ := x
    by_cases h : k0 = k
    · simp [erase_cons, h, ih]
    · simp [erase_cons, lookup_cons, h, ih]

theorem lookup_erase_ne (d : Disk) (k k' : P) (h : k' ≠ k) : (Disk.erase d k).lookup k' = d.lookup k' := by
  induction d with
  | nil => rfl
  | cons x t ih =>
    obtain ⟨k0, e0⟩ := x
    by_cases hx : k0 = k
    · have : k0 ≠ k' := fun e => h (e ▸ hx ▸ rfl)
      simp [erase_cons, lookup_cons, hx, ih]
      intro e; exact absurd e.symm h
    · by_cases hx' : k0 = k'
      · subst hx'
        simp [erase_cons, lookup_cons, hx]
      · simp [erase_cons, lookup_cons, hx, hx', ih]

theorem lookup_insert_self (d : Disk) (k : P) (e : Entry) : (Disk.insert d k e).lookup k = some e := by
  simp [Disk.insert, Disk.lookup]

theorem lookup_insert_ne (d : Disk) (k k' : P) (e : Entry) (h : k' ≠ k) :
    (Disk.insert d k e).lookup k' = d.lookup k' := by
  have : k ≠ k' := fun e => h e.symm
  simp [Disk.insert, Disk.lookup, this, lookup_erase_ne d k k' h]

/-! ### a request only ever touches its own target path, whatever the facts are -/

theorem step_param (c : Cfg) (w : World) (r : Req) : (step c w r).2.param = r.param := by
  unfold step
  cases r.pc <;> simp only [finish] <;> (repeat' split) <;> rfl

theorem step_id (c : Cfg) (w : World) (r : Req) : (step c w r).2.id = r.id := by
  unfold step
  cases r.pc <;> simp only [finish] <;> (repeat' split) <;> rfl

theorem step_frame (c : Cfg) (w : World) (r : Req) (k : P) (hk : k ≠ c.full r.param) :
    (step c w r).1.disk.lookup k = w.disk.lookup k := by
  unfold step
  cases r.pc <;> simp only [finish] <;> (repeat' split) <;>
    simp [lookup_insert_ne _ _ _ _ hk, lookup_erase_ne _ _ _ hk]

/-! ### any number of requests, any schedule: only target paths change -/

theorem mem_setAt (l : List Req) (i : Nat) (r x : Req) (h : x ∈ setAt l i r) : x = r ∨ x ∈ l := by
  induction l generalizing i with
  | nil => simp [setAt] at h
  | cons a t ih =>
    cases i with
    | zero =>
      simp [setAt] at h
      rcases h with h | h
      · exact Or.inl h
      · exact Or.inr (List.mem_cons_of_mem _ h)
    | succ j =>
      simp [setAt] at h
      rcases h with h | h
      · exact Or.inr (by simp [h])
      · rcases ih j h with h | h
        · exact Or.inl h
        · exact Or.inr (List.mem_cons_of_mem _ h)

theorem Sys.step_frame (c : Cfg) (s : Sys) (i : Nat) (k : P)
    (hk : ∀ r ∈ s.reqs, k ≠ c.full r.param) :
    (Sys.step c s i).world.disk.lookup k = s.world.disk.lookup k ∧
    ∀ r ∈ (Sys.step c s i).reqs, k ≠ c.full r.param := by
  unfold Sys.step
  cases hr : s.reqs[i]? with
  | none => exact ⟨rfl, hk⟩
  | some r =>
    have hm : r ∈ s.reqs := List.mem_of_getElem? hr
    refine ⟨Upload.step_frame c s.world r k (hk r hm), ?_⟩
    intro x hx
    rcases mem_setAt _ _ _ _ hx with rfl | hx
    · rw [step_param]; exact hk r hm
    · exact hk x hx

theorem Sys.run_frame (c : Cfg) (s : Sys) (sched : List Nat) (k : P)
    (hk : ∀ r ∈ s.reqs, k ≠ c.full r.param) :
    (Sys.run c s sched).world.disk.lookup k = s.world.disk.lookup k := by
  induction sched generalizing s with
  | nil => rfl
  | cons i t ih =>
    have h := Sys.step_frame c s i k hk
    simp only [Sys.run, List.foldl_cons]
    have := ih (Sys.step c s i) h.2
    simp only [Sys.run] at this
    rw [this, h.1]

end Pk.Upload
