/-
  Flow locality of the reference reassembler, part 3: the abstract machine without indices
  (a list of entries in creation order, "update the first entry that answers, else append")
  and its simulation by `reasmPacket` inside one timeout window.
-/
import Pk.Proofs.ImportReasmMoreFlow2

namespace Pk.Proofs.ImportReasm
open Pk.Import

/-- a stream together with its open connection -/
inductive Entry
  | tcp (c : TcpConn) (st : Stream)
  | udp (act : Nat) (st : Stream)

def Entry.st : Entry → Stream
  | .tcp _ st => st
  | .udp _ st => st

/-- update the first entry on which `f` answers, else append `new` -/
def updFirst (f : Entry → Option Entry) (new : Entry) : List Entry → List Entry
  | [] => [new]
  | e :: es => match f e with
    | some e' => e' :: es
    | none => e :: updFirst f new es

theorem updFirst_spec (f : Entry → Option Entry) (new : Entry) : ∀ (a : List Entry),
    ((∀ e ∈ a, f e = none) ∧ updFirst f new a = a ++ [new]) ∨
    (∃ pre e e' post, a = pre ++ e :: post ∧ (∀ x ∈ pre, f x = none) ∧ f e = some e' ∧
      updFirst f new a = pre ++ e' :: post) := by
  intro a
  induction a with
  | nil => left; exact ⟨(by intro e hm; cases hm), rfl⟩
  | cons e es ih =>
    cases hf : f e with
    | some e' =>
      right
      refine ⟨[], e, e', es, rfl, (by intro x hm; cases hm), hf, ?_⟩
      simp only [updFirst, hf, List.nil_append]
    | none =>
      rcases ih with ⟨h1, h2⟩ | ⟨pre, x, x', post, h1, h2, h3, h4⟩
      · left
        refine ⟨?_, ?_⟩
        · intro y hm
          rcases List.mem_cons.mp hm with rfl | hm
          · exact hf
          · exact h1 y hm
        · simp only [updFirst, hf, h2, List.cons_append]
      · right
        refine ⟨e :: pre, x, x', post, by rw [h1]; rfl, ?_, h3, ?_⟩
        · intro y hm
          rcases List.mem_cons.mp hm with rfl | hm
          · exact hf
          · exact h2 y hm
        · simp only [updFirst, hf, h4, List.cons_append]

/-- what a packet does to the entry of its conversation -/
def entryStep (p : Pkt) : Entry → Option Entry
  | .tcp c st =>
    if p.udp then none
    else (tcpDir p c).map fun d => .tcp (tcpBody c st p d).1 (tcpBody c st p d).2
  | .udp _ st =>
    if p.udp then (udpMatch st p).map fun d => .udp p.ts (udpBody st p d)
    else none

/-- the entry of a packet that opens a conversation -/
def newEntry (p : Pkt) : Entry :=
  if p.udp then .udp p.ts (udpBody (newUdpStream p) p false)
  else .tcp (tcpBody (newConn p 0) (newTcpStream p) p false).1 (tcpBody (newConn p 0) (newTcpStream p) p false).2

def aStep (a : List Entry) (p : Pkt) : List Entry := updFirst (entryStep p) (newEntry p) a

def aRun (a : List Entry) (ps : List Pkt) : List Entry := ps.foldl aStep a

/-! ### concretisation -/

def concT : List Entry → Nat → List TcpConn
  | [], _ => []
  | .tcp c _ :: es, i => { c with stream := i } :: concT es (i + 1)
  | .udp _ _ :: es, i => concT es (i + 1)

def concU : List Entry → Nat → List UdpConn
  | [], _ => []
  | .tcp _ _ :: es, i => concU es (i + 1)
  | .udp act _ :: es, i => { lastActivity := act, stream := i } :: concU es (i + 1)

theorem concT_append (l2 : List Entry) : ∀ (l1 : List Entry) (i : Nat),
    concT (l1 ++ l2) i = concT l1 i ++ concT l2 (i + l1.length) := by
  intro l1
  induction l1 with
  | nil => intro i; rfl
  | cons e es ih =>
    intro i
    have h : i + 1 + es.length = i + (e :: es).length := by simp only [List.length_cons]; omega
    cases e with
    | tcp c st => simp only [List.cons_append, concT, ih, h]
    | udp act st => simp only [List.cons_append, concT, ih, h]

theorem concU_append (l2 : List Entry) : ∀ (l1 : List Entry) (i : Nat),
    concU (l1 ++ l2) i = concU l1 i ++ concU l2 (i + l1.length) := by
  intro l1
  induction l1 with
  | nil => intro i; rfl
  | cons e es ih =>
    intro i
    have h : i + 1 + es.length = i + (e :: es).length := by simp only [List.length_cons]; omega
    cases e with
    | tcp c st => simp only [List.cons_append, concU, ih, h]
    | udp act st => simp only [List.cons_append, concU, ih, h, List.cons_append]

theorem concT_mem : ∀ (a : List Entry) (i : Nat) (c : TcpConn), c ∈ concT a i →
    ∃ c0 st j, Entry.tcp c0 st ∈ a ∧ c = { c0 with stream := j } := by
  intro a
  induction a with
  | nil => intro i c hm; cases hm
  | cons e es ih =>
    intro i c hm
    cases e with
    | tcp c0 st =>
      simp only [concT] at hm
      rcases List.mem_cons.mp hm with rfl | hm
      · exact ⟨c0, st, i, List.mem_cons_self .., rfl⟩
      · obtain ⟨c1, st1, j, h1, h2⟩ := ih _ c hm
        exact ⟨c1, st1, j, List.mem_cons_of_mem _ h1, h2⟩
    | udp act st =>
      simp only [concT] at hm
      obtain ⟨c1, st1, j, h1, h2⟩ := ih _ c hm
      exact ⟨c1, st1, j, List.mem_cons_of_mem _ h1, h2⟩

theorem concU_mem : ∀ (a : List Entry) (i : Nat) (c : UdpConn), c ∈ concU a i →
    ∃ k act st, a[k]? = some (Entry.udp act st) ∧ c = { lastActivity := act, stream := i + k } := by
  intro a
  induction a with
  | nil => intro i c hm; cases hm
  | cons e es ih =>
    intro i c hm
    cases e with
    | tcp c0 st =>
      simp only [concU] at hm
      obtain ⟨k, act, st1, h1, h2⟩ := ih _ c hm
      refine ⟨k + 1, act, st1, by simpa using h1, ?_⟩
      rw [h2]; congr 1; omega
    | udp act st =>
      simp only [concU] at hm
      rcases List.mem_cons.mp hm with rfl | hm
      · exact ⟨0, act, st, rfl, rfl⟩
      · obtain ⟨k, act1, st1, h1, h2⟩ := ih _ c hm
        refine ⟨k + 1, act1, st1, by simpa using h1, ?_⟩
        rw [h2]; congr 1; omega

/-- the state of the reassembler is the concretisation of the abstract state (`unmodelled` ignored) -/
structure Rel (r : RState) (a : List Entry) : Prop where
  streams : r.streams = (a.map Entry.st).toArray
  tcp : r.tcp = concT a 0
  udp : r.udp = concU a 0

/-- nothing of the entry is older than `t0` -/
def EntryWin (t0 : Nat) : Entry → Prop
  | .tcp c _ => ConnWin t0 c
  | .udp act _ => t0 ≤ act

theorem concT_win (t0 : Nat) (a : List Entry) (i : Nat) (hw : ∀ e ∈ a, EntryWin t0 e) : ∀ c ∈ concT a i, ConnWin t0 c := by
  intro c hm
  obtain ⟨c0, st, j, h1, rfl⟩ := concT_mem a i c hm
  exact hw _ h1

theorem concU_win (t0 : Nat) (a : List Entry) (i : Nat) (hw : ∀ e ∈ a, EntryWin t0 e) :
    ∀ c ∈ concU a i, t0 ≤ c.lastActivity := by
  intro c hm
  obtain ⟨k, act, st, h1, rfl⟩ := concU_mem a i c hm
  exact hw _ (List.mem_of_getElem? h1)

theorem map_st_get (a : List Entry) (k : Nat) (e : Entry) (h : a[k]? = some e) :
    (a.map Entry.st).toArray[k]! = e.st := by
  simp [h]

/-! ### simulation -/

theorem entryStep_tcp_none (p : Pkt) (hp : p.udp = false) (c : TcpConn) (st : Stream)
    (h : entryStep p (.tcp c st) = none) : tcpDir p c = none := by
  simp only [entryStep, hp, Bool.false_eq_true, if_false, Option.map_eq_none_iff] at h
  exact h

theorem entryStep_udp_none (p : Pkt) (hp : p.udp = true) (act : Nat) (st : Stream)
    (h : entryStep p (.udp act st) = none) : udpMatch st p = none := by
  simp only [entryStep, hp, if_true, Option.map_eq_none_iff] at h
  exact h

theorem tcpDir_stream (p : Pkt) (c : TcpConn) (i : Nat) : tcpDir p { c with stream := i } = tcpDir p c := rfl

theorem sim_tcp (t0 : Nat) (r : RState) (a : List Entry) (p : Pkt) (hr : Rel r a) (hw : ∀ e ∈ a, EntryWin t0 e)
    (hts : p.ts ≤ t0 + timeout) (hp : p.udp = false) : Rel (tcpPacket r p) (aStep a p) := by
  have hwc : ∀ c ∈ r.tcp, ConnWin t0 c := by rw [hr.tcp]; exact concT_win t0 a 0 hw
  have hnone : ∀ (l : List Entry) (i : Nat), (∀ x ∈ l, entryStep p x = none) → ∀ c ∈ concT l i, tcpDir p c = none := by
    intro l i h c hm
    obtain ⟨c0, st, j, h1, rfl⟩ := concT_mem l i c hm
    exact entryStep_tcp_none p hp c0 st (h _ h1)
  unfold aStep
  rcases updFirst_spec (entryStep p) (newEntry p) a with ⟨h1, h2⟩ | ⟨pre, e, e', post, h1, h2, h3, h4⟩
  · rw [h2]
    have hf : tcpFind p r.tcp 0 = none := by
      rw [hr.tcp]; exact tcpFind_none p _ 0 (hnone a 0 h1)
    rw [tcpPacket_new t0 r p hwc hts hf]
    have hsz : r.streams.size = a.length := by rw [hr.streams]; simp
    have hn : newConn p r.streams.size = { newConn p 0 with stream := a.length } := by rw [hsz]; rfl
    rw [hn, tcpBody_stream]
    have hne : newEntry p = .tcp (tcpBody (newConn p 0) (newTcpStream p) p false).1 (tcpBody (newConn p 0) (newTcpStream p) p false).2 := by
      unfold newEntry; rw [hp]; rfl
    rw [hne]
    constructor
    · simp only [hr.streams, List.map_append, List.map_cons, List.map_nil, Entry.st, List.push_toArray]
    · simp only [hr.tcp, concT_append, concT, Nat.zero_add]
    · simp only [hr.udp, concU_append, concU, List.append_nil]
  · rw [h4]
    cases e with
    | udp act st => simp [entryStep, hp] at h3
    | tcp c st =>
      simp only [entryStep, hp, Bool.false_eq_true, if_false, Option.map_eq_some_iff] at h3
      obtain ⟨d, hd, rfl⟩ := h3
      have htcp : r.tcp = concT pre 0 ++ { c with stream := pre.length } :: concT post (pre.length + 1) := by
        rw [hr.tcp, h1, concT_append]; simp only [concT, Nat.zero_add]
      have hf : tcpFind p r.tcp 0 = some ((concT pre 0).length, d) := by
        rw [htcp, tcpFind_append p _ _ 0 (hnone pre 0 h2), tcpFind_cons, tcpDir_stream, hd, Nat.zero_add]
      have hc : r.tcp[(concT pre 0).length]? = some { c with stream := pre.length } := by
        rw [htcp]; exact list_get_mid ..
      rw [tcpPacket_old t0 r p hwc hts _ d _ hf hc]
      have hss : r.streams = (pre.map Entry.st ++ st :: post.map Entry.st).toArray := by
        rw [hr.streams, h1]; simp only [List.map_append, List.map_cons, Entry.st]
      have hlen : pre.length = (pre.map Entry.st).length := by simp
      have hget : r.streams[pre.length]! = st := by
        rw [hss, hlen]; exact list_toArray_get! ..
      simp only [hget, tcpBody_stream]
      constructor
      · simp only
        rw [hss, hlen, list_toArray_set!]
        simp only [List.map_append, List.map_cons, Entry.st]
      · simp only
        rw [htcp, list_set_mid, concT_append]; simp only [concT, Nat.zero_add]
      · simp only
        rw [hr.udp, h1, concU_append, concU_append]; simp only [concU]

theorem sim_udp (t0 : Nat) (r : RState) (a : List Entry) (p : Pkt) (hr : Rel r a) (hw : ∀ e ∈ a, EntryWin t0 e)
    (hts : p.ts ≤ t0 + timeout) (hp : p.udp = true) : Rel (udpPacket r p) (aStep a p) := by
  have hwc : ∀ c ∈ r.udp, t0 ≤ c.lastActivity := by rw [hr.udp]; exact concU_win t0 a 0 hw
  -- connections of a prefix `l` of `a` on which the packet does not match
  have hnone : ∀ (l l2 : List Entry), a = l ++ l2 → (∀ x ∈ l, entryStep p x = none) →
      ∀ c ∈ concU l 0, udpMatch r.streams[c.stream]! p = none := by
    intro l l2 hl h c hm
    obtain ⟨k, act, st, h1, rfl⟩ := concU_mem l 0 c hm
    have hk : a[k]? = some (.udp act st) := by
      rw [hl, List.getElem?_append_left (List.getElem?_eq_some_iff.mp h1).1]; exact h1
    simp only [Nat.zero_add]
    rw [hr.streams, map_st_get a k _ hk]
    exact entryStep_udp_none p hp act st (h _ (List.mem_of_getElem? h1))
  unfold aStep
  rw [udpPacket_eq t0 r p hwc hts]
  rcases updFirst_spec (entryStep p) (newEntry p) a with ⟨h1, h2⟩ | ⟨pre, e, e', post, h1, h2, h3, h4⟩
  · rw [h2]
    have hf : udpLookup r.streams p r.udp 0 = none := by
      rw [hr.udp]; exact udpLookup_none _ p _ 0 (hnone a [] (by simp) h1)
    rw [hf]
    have hsz : r.streams.size = a.length := by rw [hr.streams]; simp
    have hne : newEntry p = .udp p.ts (udpBody (newUdpStream p) p false) := by
      unfold newEntry; rw [hp]; rfl
    rw [hne, hsz]
    constructor
    · simp only [hr.streams, List.map_append, List.map_cons, List.map_nil, Entry.st, List.push_toArray]
    · simp only [hr.tcp, concT_append, concT, List.append_nil]
    · simp only [hr.udp, concU_append, concU, Nat.zero_add]
  · rw [h4]
    cases e with
    | tcp c st => simp [entryStep, hp] at h3
    | udp act st =>
      simp only [entryStep, hp, if_true, Option.map_eq_some_iff] at h3
      obtain ⟨d, hd, rfl⟩ := h3
      have hudp : r.udp = concU pre 0 ++ { lastActivity := act, stream := pre.length } :: concU post (pre.length + 1) := by
        rw [hr.udp, h1, concU_append]; simp only [concU, Nat.zero_add]
      have hss : r.streams = (pre.map Entry.st ++ st :: post.map Entry.st).toArray := by
        rw [hr.streams, h1]; simp only [List.map_append, List.map_cons, Entry.st]
      have hlen : pre.length = (pre.map Entry.st).length := by simp
      have hget : r.streams[pre.length]! = st := by
        rw [hss, hlen]; exact list_toArray_get! ..
      have hf : udpLookup r.streams p r.udp 0 = some ((concU pre 0).length, d) := by
        rw [hudp, udpLookup_append _ p _ _ 0 (hnone pre _ h1 h2), udpLookup_cons]
        simp only [hget, hd, Nat.zero_add]
      have hc : r.udp[(concU pre 0).length]? = some { lastActivity := act, stream := pre.length } := by
        rw [hudp]; exact list_get_mid ..
      rw [hf]
      simp only [hc, hget]
      constructor
      · simp only
        rw [hss, hlen, list_toArray_set!]
        simp only [List.map_append, List.map_cons, Entry.st]
      · simp only
        rw [hr.tcp, h1, concT_append, concT_append]; simp only [concT]
      · simp only
        rw [hudp, list_set_mid, concU_append]; simp only [concU, Nat.zero_add]

theorem sim_step (t0 : Nat) (r : RState) (a : List Entry) (p : Pkt) (hr : Rel r a) (hw : ∀ e ∈ a, EntryWin t0 e)
    (hts : p.ts ≤ t0 + timeout) : Rel (reasmPacket r p) (aStep a p) := by
  unfold reasmPacket
  cases hp : p.udp with
  | true => simp only [if_true]; exact sim_udp t0 r a p hr hw hts hp
  | false => simp only [Bool.false_eq_true, if_false]; exact sim_tcp t0 r a p hr hw hts hp

end Pk.Proofs.ImportReasm
