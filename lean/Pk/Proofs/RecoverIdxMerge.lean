/- Helper lemmas for C12 at the stream level: the semantic core of the merge theorem.  Every disk of
   the form "disk minus some inputs, plus some of the outputs (complete or not); inputs are missing
   only if all outputs are complete" serves every id in the same version and has the same next id. -/
import Pk.Model.RecoverIdx
import Pk.Proofs.RecoverIdx
import Pk.Proofs.RecoverIdxOps
namespace Pk.Proofs.RecoverIdx
open Pk.Recover

theorem holds_filter (d : List IndexFile) (p : IndexFile → Bool) (id n : Nat) :
    Holds (d.filter p) id n ↔ ∃ f ∈ d, p f = true ∧ serves f id = true ∧ f.name = n := by
  simp only [Holds, List.mem_filter]
  constructor
  · rintro ⟨f, ⟨hf, hp⟩, h⟩; exact ⟨f, hf, hp, h⟩
  · rintro ⟨f, hf, hp, h⟩; exact ⟨f, ⟨hf, hp⟩, h⟩

theorem filter_not_nil_contains (d : List IndexFile) :
    d.filter (fun f => !(([] : List Nat).contains f.name)) = d :=
  List.filter_eq_self.mpr (fun _ _ => by simp)

section core
variable (ver : Nat → Nat → Nat) (d : List IndexFile) (ins : List Nat) (os : List (Nat × List Nat))
  (D : List Nat) (E : List IndexFile)
  (hfresh : ∀ o ∈ os, ∀ f ∈ d, f.name < o.1)
  (hcomplete : ∀ f ∈ d, f.name ∈ ins → f.complete = true)
  (hcover : ∀ id, (∃ o ∈ os, id ∈ o.2) ↔ (∃ f ∈ d, f.name ∈ ins ∧ id ∈ f.ids))
  (hver : ∀ o ∈ os, ∀ id ∈ o.2, ∀ n, newestInput d ins id = some n → ver o.1 id = ver n id)
  (hout : ∀ g ∈ d, g.complete = true → g.name ∉ ins → ∀ id ∈ g.ids,
      (∃ f ∈ d, f.name ∈ ins ∧ id ∈ f.ids) → ∃ f ∈ d, f.name ∈ ins ∧ id ∈ f.ids ∧ g.name < f.name)
  (hD : ∀ n ∈ D, n ∈ ins)
  (hE : ∀ e ∈ E, ∃ o ∈ os, e.name = o.1 ∧ e.ids = o.2)
  (hall : D ≠ [] → ∀ o ∈ os, mkOut o ∈ E)

include hcomplete in
/-- an id of the inputs has a newest input -/
theorem newestInput_isSome (id : Nat) (hin : ∃ f ∈ d, f.name ∈ ins ∧ id ∈ f.ids) :
    ∃ n0, newestInput d ins id = some n0 := by
  obtain ⟨f0, hf0, hn, hi⟩ := hin
  have : (newestInput d ins id).isSome = true := by
    rw [newestInput, visibleIn_isSome_iff]
    refine ⟨f0.name, (holds_filter _ _ _ _).mpr ⟨f0, hf0, ?_, ?_, rfl⟩⟩
    · simpa using hn
    · exact (serves_iff _ _).mpr ⟨hcomplete f0 hf0 hn, hi⟩
  exact Option.isSome_iff_exists.mp this

include hcomplete hout in
/-- under the no-newer-outsider condition the newest input is what the disk serves -/
theorem visibleIn_eq_newestInput (id n0 : Nat) (h : newestInput d ins id = some n0) :
    visibleIn d id = some n0 := by
  rw [newestInput, visibleIn_some_iff] at h
  obtain ⟨hH, hmax⟩ := h
  rw [visibleIn_some_iff]
  obtain ⟨f0, hf0, hp0, hs0, hn0⟩ := (holds_filter _ _ _ _).mp hH
  refine ⟨⟨f0, hf0, hs0, hn0⟩, ?_⟩
  rintro m ⟨g, hg, hsg, rfl⟩
  by_cases hgi : g.name ∈ ins
  · exact hmax _ ((holds_filter _ _ _ _).mpr ⟨g, hg, by simpa using hgi, hsg, rfl⟩)
  · obtain ⟨hgc, hgid⟩ := (serves_iff _ _).mp hsg
    obtain ⟨f, hf, hfi, hfid, hlt⟩ := hout g hg hgc hgi id hgid
      ⟨f0, hf0, by simpa using hp0, ((serves_iff _ _).mp hs0).2⟩
    have := hmax f.name ((holds_filter _ _ _ _).mpr
      ⟨f, hf, by simpa using hfi, (serves_iff _ _).mpr ⟨hcomplete f hf hfi, hfid⟩, rfl⟩)
    omega

include hfresh hcomplete hcover hver hout hD hE hall in
theorem shape_visibleVer (id : Nat) :
    visibleVer (d.filter (fun f => !(D.contains f.name)) ++ E) ver id = visibleVer d ver id := by
  by_cases hE1 : ∃ e ∈ E, serves e id = true
  · -- an output serves the id: it is the newest file, and has the version of the newest input
    obtain ⟨e, he, hse⟩ := hE1
    obtain ⟨o, ho, hen, hei⟩ := hE e he
    have hid : id ∈ o.2 := hei ▸ ((serves_iff _ _).mp hse).2
    have hin := (hcover id).mp ⟨o, ho, hid⟩
    obtain ⟨n0, hn0⟩ := newestInput_isSome d ins hcomplete id hin
    have hvd := visibleIn_eq_newestInput d ins hcomplete hout id n0 hn0
    have hsome : (visibleIn (d.filter (fun f => !(D.contains f.name)) ++ E) id).isSome = true := by
      rw [visibleIn_isSome_iff]
      exact ⟨e.name, (holds_append _ _ _ _).mpr (Or.inr ⟨e, he, hse, rfl⟩)⟩
    obtain ⟨m, hm⟩ := Option.isSome_iff_exists.mp hsome
    have ⟨hHm, hmaxm⟩ := (visibleIn_some_iff _ _ _).mp hm
    have hem : e.name ≤ m := hmaxm _ ((holds_append _ _ _ _).mpr (Or.inr ⟨e, he, hse, rfl⟩))
    rcases (holds_append _ _ _ _).mp hHm with hH | hH
    · obtain ⟨g, hg, _, _, hgn⟩ := (holds_filter _ _ _ _).mp hH
      have := hfresh o ho g hg
      omega
    · obtain ⟨g, hg, hsg, hgn⟩ := hH
      obtain ⟨o', ho', hgn', hgi'⟩ := hE g hg
      have hid' : id ∈ o'.2 := hgi' ▸ ((serves_iff _ _).mp hsg).2
      have := hver o' ho' id hid' n0 hn0
      simp only [visibleVer, hm, hvd, Option.map_some, Option.some.injEq]
      rw [← hgn, hgn', this]
  · -- no output serves the id
    have hnoE : ∀ n, ¬ Holds E id n := fun n ⟨e, he, hse, _⟩ => hE1 ⟨e, he, hse⟩
    simp only [visibleVer]
    congr 1
    apply visibleIn_congr
    intro n
    rw [holds_append]
    constructor
    · rintro (h | h)
      · obtain ⟨f, hf, _, hs, hn⟩ := (holds_filter _ _ _ _).mp h
        exact ⟨f, hf, hs, hn⟩
      · exact absurd h (hnoE n)
    · rintro ⟨f, hf, hs, hn⟩
      left
      refine (holds_filter _ _ _ _).mpr ⟨f, hf, ?_, hs, hn⟩
      -- f is not deleted: otherwise all outputs are complete and one of them serves the id
      cases hc : D.contains f.name with
      | false => rfl
      | true =>
        exfalso
        have hfD : f.name ∈ D := by simpa using hc
        have hDne : D ≠ [] := by intro h; rw [h] at hfD; cases hfD
        obtain ⟨o, ho, hid⟩ := (hcover id).mpr ⟨f, hf, hD _ hfD, ((serves_iff _ _).mp hs).2⟩
        exact hE1 ⟨mkOut o, hall hDne o ho, (serves_iff _ _).mpr ⟨rfl, hid⟩⟩

include hcomplete hcover hD hE hall in
theorem shape_nextID :
    nextID (d.filter (fun f => !(D.contains f.name)) ++ E) = nextID d := by
  apply nextID_congr
  intro i
  constructor
  · rintro ⟨f, hf, hc, hi⟩
    rcases List.mem_append.mp hf with hf | hf
    · exact ⟨f, (List.mem_filter.mp hf).1, hc, hi⟩
    · obtain ⟨o, ho, _, hei⟩ := hE f hf
      obtain ⟨g, hg, hgi, hig⟩ := (hcover i).mp ⟨o, ho, hei ▸ hi⟩
      exact ⟨g, hg, hcomplete g hg hgi, hig⟩
  · rintro ⟨g, hg, hc, hi⟩
    cases hcD : D.contains g.name with
    | false =>
      exact ⟨g, List.mem_append.mpr (Or.inl (List.mem_filter.mpr ⟨hg, by rw [hcD]; rfl⟩)), hc, hi⟩
    | true =>
      have hgD : g.name ∈ D := by simpa using hcD
      have hDne : D ≠ [] := by intro h; rw [h] at hgD; cases hgD
      obtain ⟨o, ho, hid⟩ := (hcover i).mpr ⟨g, hg, hD _ hgD, hi⟩
      exact ⟨mkOut o, List.mem_append.mpr (Or.inr (hall hDne o ho)), rfl, hid⟩

end core

end Pk.Proofs.RecoverIdx

namespace Pk.Proofs.RecoverIdx
open Pk.Recover

/-- every prefix disk of a merge has the shape of `shape_visibleVer` -/
theorem merge_prefix_shape (d : List IndexFile) (ins : List Nat) (os : List (Nat × List Nat))
    (hfresh : ∀ o ∈ os, ∀ f ∈ d, f.name < o.1)
    (hexist : ∀ n ∈ ins, ∃ f ∈ d, f.name = n) (k : Nat) :
    ∃ D E, applyOps d ((mergeOps ins os).take k) = d.filter (fun f => !(D.contains f.name)) ++ E ∧
      (∀ n ∈ D, n ∈ ins) ∧ (∀ e ∈ E, ∃ o ∈ os, e.name = o.1 ∧ e.ids = o.2) ∧
      (D ≠ [] → ∀ o ∈ os, mkOut o ∈ E) := by
  have hne : ∀ o ∈ os, ∀ f ∈ d, f.name ≠ o.1 := fun o ho f hf => Nat.ne_of_lt (hfresh o ho f hf)
  rcases merge_prefix_cases d ins os hne k with ⟨j, _, _, h⟩ | ⟨j, o, ho, _, h⟩ | ⟨j, _, h⟩
  · refine ⟨[], (os.take j).map mkOut, ?_, by simp, ?_, by simp⟩
    · rw [h, filter_not_nil_contains]
    · intro e he
      obtain ⟨o, ho, rfl⟩ := List.mem_map.mp he
      exact ⟨o, List.mem_of_mem_take ho, rfl, rfl⟩
  · refine ⟨[], (os.take j).map mkOut ++ [mkPart o], ?_, by simp, ?_, by simp⟩
    · rw [h, filter_not_nil_contains, List.append_assoc]
    · intro e he
      rcases List.mem_append.mp he with he | he
      · obtain ⟨o, ho, rfl⟩ := List.mem_map.mp he
        exact ⟨o, List.mem_of_mem_take ho, rfl, rfl⟩
      · have : e = mkPart o := by simpa using he
        subst this
        exact ⟨o, List.mem_of_getElem? ho, rfl, rfl⟩
  · refine ⟨ins.take j, os.map mkOut, ?_, fun n hn => List.mem_of_mem_take hn, ?_, ?_⟩
    · rw [h, List.filter_append]
      congr 1
      apply List.filter_eq_self.mpr
      intro e he
      obtain ⟨o, ho, rfl⟩ := List.mem_map.mp he
      cases hc : (ins.take j).contains (mkOut o).name with
      | false => rfl
      | true =>
        exfalso
        have hm : o.1 ∈ ins.take j := by simpa [mkOut] using hc
        obtain ⟨f, hf, hfn⟩ := hexist _ (List.mem_of_mem_take hm)
        exact hne o ho f hf hfn
    · intro e he
      obtain ⟨o, ho, rfl⟩ := List.mem_map.mp he
      exact ⟨o, ho, rfl, rfl⟩
    · intro _ o ho
      exact List.mem_map.mpr ⟨o, ho, rfl⟩

/-! ### import -/

theorem import_prefix_cases (d : List IndexFile) (name : Nat) (ids : List Nat)
    (hne : ∀ f ∈ d, f.name ≠ name) (k : Nat) :
    (k = 0 ∧ applyOps d ((importOps name ids).take k) = d) ∨
    (k = 1 ∧ applyOps d ((importOps name ids).take k) = d ++ [mkPart (name, ids)]) ∨
    (2 ≤ k ∧ applyOps d ((importOps name ids).take k) = d ++ [mkOut (name, ids)]) := by
  match k with
  | 0 => exact Or.inl ⟨rfl, rfl⟩
  | 1 => exact Or.inr (Or.inl ⟨rfl, rfl⟩)
  | k + 2 =>
    refine Or.inr (Or.inr ⟨by omega, ?_⟩)
    have : (importOps name ids).take (k + 2) = [.create name ids, .finish name] := by
      simp [importOps]
    rw [this]
    exact write_one d (name, ids) (fun f hf hn => absurd hn (hne f hf))

/-- incomplete files are invisible -/
theorem visibleIn_append_incomplete (d E : List IndexFile) (id : Nat)
    (h : ∀ e ∈ E, e.complete = false) : visibleIn (d ++ E) id = visibleIn d id := by
  apply visibleIn_congr
  intro n
  rw [holds_append]
  constructor
  · rintro (h' | ⟨e, he, hs, _⟩)
    · exact h'
    · have := ((serves_iff _ _).mp hs).1
      rw [h e he] at this; cases this
  · exact Or.inl

theorem nextID_append_incomplete (d E : List IndexFile)
    (h : ∀ e ∈ E, e.complete = false) : nextID (d ++ E) = nextID d := by
  apply nextID_congr
  intro i
  constructor
  · rintro ⟨f, hf, hc, hi⟩
    rcases List.mem_append.mp hf with hf | hf
    · exact ⟨f, hf, hc, hi⟩
    · rw [h f hf] at hc; cases hc
  · rintro ⟨f, hf, hc, hi⟩
    exact ⟨f, List.mem_append.mpr (Or.inl hf), hc, hi⟩

/-- a complete file newer than everything serves its ids, the others are served as before -/
theorem visibleIn_append_newer (d : List IndexFile) (o : Nat × List Nat) (id : Nat)
    (hnew : ∀ f ∈ d, f.name < o.1) :
    visibleIn (d ++ [mkOut o]) id = if id ∈ o.2 then some o.1 else visibleIn d id := by
  split
  · rename_i hid
    rw [visibleIn_some_iff]
    refine ⟨(holds_append _ _ _ _).mpr (Or.inr ⟨mkOut o, by simp, (serves_iff _ _).mpr ⟨rfl, hid⟩, rfl⟩), ?_⟩
    intro m hm
    rcases (holds_append _ _ _ _).mp hm with ⟨f, hf, _, rfl⟩ | ⟨f, hf, _, rfl⟩
    · exact Nat.le_of_lt (hnew f hf)
    · have : f = mkOut o := by simpa using hf
      subst this; exact Nat.le_refl _
  · rename_i hid
    apply visibleIn_congr
    intro n
    rw [holds_append]
    constructor
    · rintro (h' | ⟨e, he, hs, _⟩)
      · exact h'
      · have : e = mkOut o := by simpa using he
        subst this
        exact absurd ((serves_iff _ _).mp hs).2 hid
    · exact Or.inl

end Pk.Proofs.RecoverIdx
