/-
  MgrViewsRunStep — the completion of an import job / of a merge job as a case distinction that keeps the
  fact "no job was in flight" (variants of `step_importDone` / `step_mergeDone` of MgrViewsFrame.lean, which
  ask for the property of the unchanged state unconditionally).
-/
import Pk.Proofs.MgrViewsRunFiles

namespace Pk.Proofs.MgrViewsRun
open Pk.Mgr Pk.Proofs.MgrViews

theorem step_importDone_cases (s : St) (st : Started) (processed usednew : Nat)
    (created : List (Nat × List Nat)) (upd rst add : List Nat) :
    (s.jImport = none ∧ (step s (.importDone processed usednew created upd rst add) st).1 = s) ∨
    ∃ jn held, s.jImport = some (jn, held) ∧
      Frame (importBase s jn held usednew created (ofList upd) (ofList rst) (ofList add))
        (step s (.importDone processed usednew created upd rst add) st).1 := by
  simp -zeta only [step]
  split
  · rename_i hj
    exact Or.inl ⟨hj, rfl⟩
  rename_i jn held hj
  right
  refine ⟨jn, held, hj, ?_⟩
  extract_lets u r a nx s1 s2 ords s4 s5 s6 s7 s8 s9 s10 s11
  have h6 : Frame (importBase s jn held usednew created (ofList upd) (ofList rst) (ofList add)) s6 := by
    unfold importBase s6
    dsimp -zeta only
    split
    · exact Frame.refl _
    · exact ((frame_invalidateTags _ _ _ _).trans (frame_invalidateConverters _ _)).trans
        (frame_invalidateConverters _ _)
  clear_value s6
  have h7 : Frame (importBase s jn held usednew created (ofList upd) (ofList rst) (ofList add)) s7 :=
    Frame.with h6 rfl rfl rfl rfl rfl rfl
  clear_value s7
  have h8 : Frame (importBase s jn held usednew created (ofList upd) (ofList rst) (ofList add)) s8 := by
    unfold s8
    split
    · exact h7
    · exact h7.trans (frame_startImport _)
  clear_value s8
  exact ((h8.trans (frame_startTagging _ _)).trans (frame_startConverter _)).trans (frame_startMerge _)

theorem step_mergeDone_cases (s : St) (st : Started) (merged : List (Nat × List Nat)) :
    (s.jMerge = none ∧ (step s (.mergeDone merged) st).1 = s) ∨
    ∃ off held mid, s.jMerge = some (off, held) ∧ Frame (mergeBase s off held merged) mid ∧
      (step s (.mergeDone merged) st).1 = release mid held := by
  simp -zeta only [step]
  split
  · rename_i hj
    exact Or.inl ⟨hj, rfl⟩
  rename_i off held hj
  right
  extract_lets s1 old s3 ords before s5 s6 s7
  refine ⟨off, held, s7, hj, ?_, rfl⟩
  have h5 : Frame (mergeBase s off held merged) s5 := by
    unfold mergeBase s5
    dsimp -zeta only
    split
    · frame_tac
    · exact Frame.refl _
  clear_value s5
  have h6 : Frame (mergeBase s off held merged) s6 := Frame.with h5 rfl rfl rfl rfl rfl rfl
  clear_value s6
  exact h6.trans (frame_startMerge _)

end Pk.Proofs.MgrViewsRun
