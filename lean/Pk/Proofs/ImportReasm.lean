/-
  Helper lemmas for Pk/Props/C05Reasm.lean: the reference TCP reassembler of Pk/Model/Import.lean
  (`assembleHalf`) on whole runs of one direction.  This file: vocabulary, sequence arithmetic,
  the in-order step.
-/
import Pk.Model.Import

namespace Pk.Proofs.ImportReasm
open Pk.Import

/-! ### vocabulary -/

/-- what `tcpPacket` does with an accepted packet of direction `dir`, seen from one half-connection:
    `Stream.Accept` records the packet (`addPkt`), then the assembler runs on the sender's half -/
def feed (dir : Bool) (acc : Stream × Half) (p : Pkt) : Stream × Half :=
  assembleHalf (acc.1.addPkt p.ref dir) acc.2 p

/-- a run of one direction: the packets are fed one after the other -/
def feedAll (dir : Bool) (acc : Stream × Half) (ps : List Pkt) : Stream × Half :=
  ps.foldl (feed dir) acc

/-- a pure data segment: no SYN/FIN/RST, at least one payload byte -/
def PlainData (p : Pkt) : Prop :=
  p.syn = false ∧ p.fin = false ∧ p.rst = false ∧ p.payload ≠ []

instance (p : Pkt) : Decidable (PlainData p) := by unfold PlainData; infer_instance

/-- the stream after `Accept` recorded packet `r` and the reassembler delivered chunk `b` for it -/
def Stream.record (s : Stream) (r : PRef) (dir : Bool) (b : Bytes) : Stream :=
  { s with pktsRev := (r, dir) :: s.pktsRev, npkts := s.npkts + 1, dataRev := (s.npkts, b) :: s.dataRev }

theorem seqDiff_self (x : Nat) : seqDiff x x = 0 := by
  unfold seqDiff; split <;> (try split) <;> omega

theorem addPkt_addData (s : Stream) (r : PRef) (d : Bool) (b : Bytes) :
    (s.addPkt r d).addData r b = Stream.record s r d b := by
  simp [Stream.addPkt, Stream.addData, findPktIdx, Stream.record]

/-- in-order segment on an open half with an empty queue -/
theorem feed_inorder (dir : Bool) (st : Stream) (h : Half) (p : Pkt) (nx : Nat)
    (hopen : h.closed = false) (hnext : h.nextSeq = some nx) (hq : h.queue = []) (hseq : p.seq = nx)
    (hp : PlainData p) :
    feed dir (st, h) p =
      (Stream.record st p.ref dir p.payload, { h with nextSeq := some (seqAdd nx p.payload.length) }) := by
  obtain ⟨h1, h2, h3, hpl⟩ := hp
  have hd : seqDiff nx nx = 0 := seqDiff_self nx
  have hlen : p.payload.length ≠ 0 := by
    intro h0; exact hpl (List.length_eq_zero_iff.mp h0)
  have hpos : 0 < p.payload.length := Nat.pos_of_ne_zero hlen
  rw [← addPkt_addData st p.ref dir p.payload]
  cases h with
  | mk nextSeq closed lastSeen queue =>
  simp only at hopen hnext hq
  subst hopen hnext hq
  simp [feed, assembleHalf, hseq, h1, h2, h3, hd, overlapExisting, checkOverlap, overlapWalk,
    sendToConnection, addContiguous, firstNonEmptyRef, hlen, hpos]

/-! ### in-order runs -/

/-- consecutive data segments: the first starts at `s`, each next one where the previous ended
    (sequence numbers modulo 2^32, as on the wire) -/
def InOrder : Nat → List Pkt → Prop
  | _, [] => True
  | s, p :: rest => p.seq = s ∧ PlainData p ∧ InOrder (seqAdd s p.payload.length) rest

instance : (s : Nat) → (ps : List Pkt) → Decidable (InOrder s ps)
  | _, [] => isTrue trivial
  | s, p :: rest =>
    have := instDecidableInOrder (seqAdd s p.payload.length) rest
    by unfold InOrder; infer_instance

/-- the bytes carried by a packet sequence -/
def payloadOf (ps : List Pkt) : Bytes := (ps.map (·.payload)).flatten

/-- the data chunks of an undisturbed run: packet number `n + i` carries the payload of `ps[i]` -/
def chunksFrom : Nat → List Pkt → List (Nat × Bytes)
  | _, [] => []
  | n, p :: rest => (n, p.payload) :: chunksFrom (n + 1) rest

theorem seqAdd_seqAdd (s a b : Nat) : seqAdd (seqAdd s a) b = seqAdd s (a + b) := by
  unfold seqAdd; omega

theorem seqAdd_zero (s : Nat) (h : s < 4294967296) : seqAdd s 0 = s := by
  unfold seqAdd; omega

/-- the state after an undisturbed run -/
def Stream.recordAll (s : Stream) (dir : Bool) (ps : List Pkt) : Stream :=
  { s with pktsRev := (ps.map (fun p => (p.ref, dir))).reverse ++ s.pktsRev,
           npkts := s.npkts + ps.length,
           dataRev := (chunksFrom s.npkts ps).reverse ++ s.dataRev }

theorem feedAll_inorder (dir : Bool) (ps : List Pkt) : ∀ (st : Stream) (h : Half) (nx : Nat),
    h.closed = false → h.nextSeq = some nx → h.queue = [] → nx < 4294967296 → InOrder nx ps →
    feedAll dir (st, h) ps =
      (Stream.recordAll st dir ps, { h with nextSeq := some (seqAdd nx (payloadOf ps).length) }) := by
  induction ps with
  | nil =>
    intro st h nx _ hn _ hlt _
    simp [feedAll, Stream.recordAll, payloadOf, chunksFrom, seqAdd_zero nx hlt, ← hn]
  | cons p rest ih =>
    intro st h nx hc hn hq hlt hio
    obtain ⟨hs, hp, hrest⟩ := hio
    have step := feed_inorder dir st h p nx hc hn hq hs hp
    simp only [feedAll, List.foldl_cons] at ih ⊢
    have e := ih (Stream.record st p.ref dir p.payload) { h with nextSeq := some (seqAdd nx p.payload.length) }
      (seqAdd nx p.payload.length) hc rfl hq (by unfold seqAdd; omega) hrest
    rw [step, e]
    simp [Stream.recordAll, Stream.record, payloadOf, chunksFrom, seqAdd_seqAdd, Nat.add_assoc, Nat.add_comm 1]

end Pk.Proofs.ImportReasm

