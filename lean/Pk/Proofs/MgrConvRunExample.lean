/-
  MgrConvRunExample — the concrete history of the NON-VACUITY example of Pk/Props/C16Reach.lean: the states
  as literals, the steps, and the payload contract of every event.

    importPcaps ["a.pcap"]; importDone adding stream 0; addTag tag/x "sport:80" (its tagging job starts);
    tagDone tag/x [0]; updConv tag/x ["c"] (the converter is attached, its job starts and caches stream 0);
    convertDone; importPcaps ["b.pcap"]; importDone updating stream 0 (the output is dropped, the converter
    job that starts at the end of the event converts stream 0 again)
-/
import Pk.Props.MgrReach
import Pk.Proofs.MgrTruthExample
import Pk.Proofs.MgrTagsStep
namespace Pk.Proofs.MgrConvRunExample
open Pk.Mgr Pk.Props.MgrReach Pk.Proofs.MgrTags
open Pk.Props.C06Reach (exFacts ex_parse ex_nameOK)

def xTag (mat unc : IdSet) (convs : List String) : Tag :=
  { defn := "sport:80", mainT := [], subT := [], mfeat := 4, sfeat := 0, mat := mat, unc := unc, convs := convs, gen := 0 }

def s0 : St := { convs := ["c"], toconv := [("c", [])], cached := [("c", [])] }
def s1 : St := { s0 with queue := ["a.pcap"], pcaps := ["a.pcap"], jImport := some (0, []) }
def s2 : St :=
  { convs := ["c"], toconv := [("c", [])], cached := [("c", [])], idx := [0], files := [(0, [0])], used := [(0, 1)],
    next := 1, all := 1, nrec := 1, add := [0], pcaps := ["a.pcap"] }
def s3 : St :=
  { s2 with tags := [("tag/x", xTag [] [0] [])], used := [(0, 2)], ngen := 1, tag := true, add := [],
            jTag := some ("tag/x", xTag [] [0] [], [0]) }
def s4 : St := { s2 with tags := [("tag/x", xTag [0] [] [])], ngen := 1, add := [] }
def s5 : St :=
  { s4 with tags := [("tag/x", xTag [0] [] ["c"])], used := [(0, 2)], convert := true, cached := [("c", [0])],
            jConv := some ([("c", [0])], [0]) }
def s6 : St := { s4 with tags := [("tag/x", xTag [0] [] ["c"])], upd := [0], cached := [("c", [0])] }
def s7 : St := { s6 with used := [(0, 2)], queue := ["b.pcap"], pcaps := ["a.pcap", "b.pcap"], jImport := some (1, [0]) }
def s8 : St :=
  { s6 with idx := [0, 1], files := [(0, [0]), (1, [0])], used := [(0, 2), (1, 2)], nrec := 2, convert := true,
            pcaps := ["a.pcap", "b.pcap"], jConv := some ([("c", [0])], [0, 1]) }

def e1 : Ev := .importPcaps ["a.pcap"]
def e2 : Ev := .importDone 1 1 [(0, [0])] [] [] [0]
def e3 : Ev := .addTag "tag/x" "" "sport:80" exFacts
def e4 : Ev := .tagDone "tag/x" [0]
def e5 : Ev := .updConv "tag/x" ["c"]
def e6 : Ev := .convertDone
def e7 : Ev := .importPcaps ["b.pcap"]
def e8 : Ev := .importDone 1 0 [(1, [0])] [0] [] []

theorem step1 : step s0 e1 {} = (s1, .none) := rfl
theorem step2 : step s1 e2 {} = (s2, .none) := rfl
theorem step3 : step s2 e3 { tag := some "tag/x" } = (s3, .ok) := by
  unfold e3
  rw [step_addTag_eq, ex_parse]
  rfl
theorem step4 : step s3 e4 {} = (s4, .none) := rfl
theorem step5 : step s4 e5 {} = (s5, .ok) := rfl
theorem step6 : step s5 e6 {} = (s6, .none) := rfl
theorem step7 : step s6 e7 {} = (s7, .none) := rfl
theorem step8 : step s7 e8 {} = (s8, .none) := rfl

/-! ## the payload contract, event by event -/

theorem ok1 : PayloadOK s0 e1 := ⟨trivial, trivial, trivial, trivial, trivial⟩

theorem ok2 : PayloadOK s1 e2 := by
  refine ⟨⟨⟨?_, ?_⟩, ?_⟩, ?_, trivial, ?_, trivial⟩
  · simp
  · intro o _; exact ⟨rfl, rfl⟩
  · intro jn held h
    cases h
    refine ⟨rfl, fun _ => by simp, ?_⟩
    intro id h1 h2
    refine ⟨(0, [0]), List.mem_singleton.2 rfl, ?_⟩
    show id ∈ [0]
    rw [List.mem_singleton]; omega
  · intro _; exact ⟨by decide, by decide⟩
  · intro jn held h
    cases h
    refine ⟨fun id h => (by cases h), fun id h => (by cases h), fun id h => ?_⟩
    simp at h; omega

theorem ok3 : PayloadOK s2 e3 := by
  refine ⟨trivial, trivial, ?_, trivial, ?_, ?_, ?_, ex_nameOK ex_parse⟩
  · intro id hid; cases hid
  · intro n snap held h; cases h
  · intro m t h; cases h
  · intro h; cases h

theorem ok4 : PayloadOK s3 e4 := by
  refine ⟨trivial, ?_, ?_, trivial, trivial⟩
  · intro jn snap held h; cases h; rfl
  · intro id h
    have : id = 0 := by simpa using h
    subst this; decide

theorem ok5 : PayloadOK s4 e5 := ⟨trivial, trivial, trivial, trivial, trivial⟩
theorem ok6 : PayloadOK s5 e6 := ⟨trivial, trivial, trivial, trivial, trivial⟩
theorem ok7 : PayloadOK s6 e7 := ⟨trivial, trivial, trivial, trivial, trivial⟩

theorem ok8 : PayloadOK s7 e8 := by
  refine ⟨⟨⟨?_, ?_⟩, ?_⟩, ?_, trivial, ?_, trivial⟩
  · simp
  · intro o ho
    have : o = 1 := by simpa using ho
    subst this; exact ⟨rfl, rfl⟩
  · intro jn held h
    cases h
    refine ⟨rfl, fun h => absurd rfl h, ?_⟩
    intro id h1 h2
    omega
  · intro _; exact ⟨by decide, by decide⟩
  · intro jn held h
    cases h
    refine ⟨fun id h => ?_, fun id h => (by cases h), fun id h => (by cases h)⟩
    have : id = 0 := by simpa using h
    omega

end Pk.Proofs.MgrConvRunExample
