/-
  One `AddIndex`, continued: old and new streams.
-/
import Pk.Proofs.MergeFullStep

namespace Pk.Index
open Pk Pk.Bytes

theorem shiftRec_id (d : Nat) (s : StreamRec) : (shiftRec d s).id = s.id := rfl

theorem compView_shift (imps : List (Bytes × Nat)) (fp lp ew : Int) (d : Nat) (s : StreamRec) (k : Comp) :
    compView imps fp lp ew (shiftRec d s) k = compView imps fp lp ew s k := by
  unfold compView
  simp only [shiftRec]

theorem compView_imports (imps imps' : List (Bytes × Nat)) (fp lp ew : Int) (s : StreamRec) (k : Comp)
    (h : packetsWalk imps' fp none 0 k.chain = packetsWalk imps fp none 0 k.chain) :
    compView imps' fp lp ew s k = compView imps fp lp ew s k := by
  unfold compView
  rw [h]

theorem compView_times (imps : List (Bytes × Nat)) {fp lp ew fp' lp' ew' : Int} (s : StreamRec) (k : Comp)
    (h1 : fp' = fp) (h2 : lp' = lp) (h3 : ew' = ew) :
    compView imps fp' lp' ew' s k = compView imps fp lp ew s k := by
  rw [h1, h2, h3]

theorem compView_copy (imps imps' : List (Bytes × Nat)) (fp lp ew : Int) (s s0 : StreamRec) (k : Comp) (remap : List Nat)
    (hst : SameStatic s s0)
    (hp : packetsWalk imps' fp none 0 (k.chain.map (reimp remap)) = packetsWalk imps fp none 0 k.chain) :
    compView imps' fp lp ew s0 { k with chain := k.chain.map (reimp remap) } = compView imps fp lp ew s k := by
  obtain ⟨_, hcp, hsp, hfl, hcb, hsb⟩ := hst
  unfold compView dataOf
  simp only [List.length_map, dataWalk_map_reimp, hp, ← hcp, ← hsp, ← hfl, ← hcb, ← hsb]

/-- a stream the writer holds keeps its view when the tables grow and the reference second moves -/
theorem WView.old {w w' : Writer} (himp : ∃ extra, w'.imports = w.imports ++ extra) (hpk : ∃ X, w'.packets = w.packets ++ X)
    (hbl : ∃ Y, w'.blobs.flatten = w.blobs.flatten ++ Y) (hext : GroupsExt w.hostGroups w'.hostGroups)
    (href : w'.ref * 1000000000 < 2 ^ 63) {s : StreamRec} {v : StreamView} (ht : TimeOk w.ref s) (hv : WView w s v) :
    WView w' (shiftRec (mul64 (sub64 w.ref w'.ref) 1000000000) s) v ∧
    TimeOk w'.ref (shiftRec (mul64 (sub64 w.ref w'.ref) 1000000000) s) := by
  obtain ⟨extra, himp⟩ := himp
  obtain ⟨X, hX⟩ := hpk
  obtain ⟨Y, hY⟩ := hbl
  obtain ⟨k, hl, hk, rfl⟩ := hv
  obtain ⟨ht', e1, e2⟩ := ht.shift href
  refine ⟨⟨k, ?_, hk.shift _, ?_⟩, ht'⟩
  · have := (hl.mono (n' := w'.imports.length) (by rw [himp]; simp) X Y).groups hext
    rw [hX, hY]
    exact this.shift _
  · refine Eq.symm ((compView_times _ _ k e1 e2 (expWraps_shift _ s)).trans ?_)
    refine (compView_shift _ _ _ _ _ s k).trans ?_
    apply compView_imports
    rw [himp]
    exact packetsWalk_append_imports _ _ _ hl.2.2.1 _ _ _

/-- the same without a move of the reference second (the "no new streams" path) -/
theorem WView.groups {w w' : Writer} (himp : w'.imports = w.imports) (hpk : w'.packets = w.packets)
    (hbl : w'.blobs = w.blobs) (hext : GroupsExt w.hostGroups w'.hostGroups) (href : w'.ref = w.ref)
    {s : StreamRec} {v : StreamView} (hv : WView w s v) : WView w' s v := by
  obtain ⟨k, hl, hk, rfl⟩ := hv
  refine ⟨k, ?_, hk, ?_⟩
  · rw [himp, hpk, hbl]; exact hl.groups hext
  · unfold Writer.fp Writer.lp; rw [himp, href]

/-- a copied stream shows in the writer what it showed in the added index -/
theorem WView.new {w' : Writer} {r : Reader} {importRemap : List Nat} (hr : r.WF)
    (hlen : importRemap.length = r.imports.length)
    (hmap : ∀ i, i < r.imports.length → w'.imports[importRemap.getD i 0]? = r.imports[i]?)
    (href : w'.ref * 1000000000 < 2 ^ 63) {s s0 : StreamRec} (hs : s ∈ r.f.streams)
    (hn : NewRel r w'.imports.length w'.packets w'.blobs.flatten w'.hostGroups importRemap s s0) :
    (shiftRec (mul64 (sub64 r.f.ref w'.ref) 1000000000) s0).id = s.id ∧
    TimeOk w'.ref (shiftRec (mul64 (sub64 r.f.ref w'.ref) 1000000000) s0) ∧
    ∃ v, r.view s = some v ∧ WView w' (shiftRec (mul64 (sub64 r.f.ref w'.ref) 1000000000) s0) v := by
  obtain ⟨⟨⟨hid, hcp, hsp, hfl, hcb, hsb⟩, hf, hl⟩, k, hlr, hk, hlw⟩ := hn
  have ht0 : TimeOk r.f.ref s0 := by
    have := hr.times s hs
    unfold TimeOk at this ⊢
    rw [hf, hl]; exact this
  obtain ⟨ht', e1, e2⟩ := ht0.shift href
  have hk' : Comp.Ok { k with chain := k.chain.map (reimp importRemap) } s0 := by
    obtain ⟨a, b, c⟩ := hk
    exact ⟨(SkipsOk_map_reimp _ _).mpr a, by rw [← hcb, ← hsb]; exact b, by rw [← hcb, ← hsb]; exact c⟩
  refine ⟨(shiftRec_id _ _).trans hid.symm, ht', _, view_of_located r s k hlr hk, _, hlw.shift _, hk'.shift _, ?_⟩
  have hexp : expWraps s0 = expWraps s := by unfold expWraps; rw [hf, hl]
  have t1 : w'.fp (shiftRec (mul64 (sub64 r.f.ref w'.ref) 1000000000) s0) = r.firstPacket s := by
    refine Eq.trans e1 ?_
    unfold Reader.firstPacket; rw [hf]
  have t2 : w'.lp (shiftRec (mul64 (sub64 r.f.ref w'.ref) 1000000000) s0) = r.lastPacket s := by
    refine Eq.trans e2 ?_
    unfold Reader.lastPacket; rw [hl]
  refine Eq.symm ((compView_times _ _ _ t1 t2 ((expWraps_shift _ s0).trans hexp)).trans ?_)
  refine (compView_shift _ _ _ _ _ s0 _).trans ?_
  apply compView_copy _ _ _ _ _ _ _ _ _ ⟨hid, hcp, hsp, hfl, hcb, hsb⟩
  exact packetsWalk_remap r.imports w'.imports importRemap hlen hr.importsNodup hmap k.chain hlr.2.2.1 _ _

end Pk.Index
