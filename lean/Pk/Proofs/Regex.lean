/-
  Helper lemmas for C18 about the AST-level model (Pk/Model/Regex.lean).
-/
import Pk.Model.Regex

namespace Pk.Regex
open Regex

/-! ### soundness of `lenRange` -/

theorem addHi_some {a b : Option Nat} {h : Nat} (e : addHi a b = some h) :
    ∃ x y, a = some x ∧ b = some y ∧ h = x + y := by
  cases a <;> cases b <;> simp [addHi] at e
  exact ⟨_, _, rfl, rfl, e.symm⟩

theorem maxHi_some {a b : Option Nat} {h : Nat} (e : maxHi a b = some h) :
    ∃ x y, a = some x ∧ b = some y ∧ h = Nat.max x y := by
  cases a <;> cases b <;> simp [maxHi] at e
  exact ⟨_, _, rfl, rfl, e.symm⟩

theorem lenRange_sound_aux {r : Regex} {pre w post : List Byte} (m : Matches r pre w post) :
    (lenRange r).1 ≤ w.length ∧ ∀ h, (lenRange r).2 = some h → w.length ≤ h := by
  induction m with
  | eps pre post => simp [lenRange]
  | atom rs neg b pre post hb => simp [lenRange]
  | assert a pre post ha => simp [lenRange]
  | cat r s pre u v post _ _ ih1 ih2 =>
    refine ⟨by simp [lenRange]; omega, ?_⟩
    intro h e
    simp only [lenRange] at e
    obtain ⟨x, y, e1, e2, rfl⟩ := addHi_some e
    have := ih1.2 x e1
    have := ih2.2 y e2
    simp; omega
  | altL r s pre w post _ ih =>
    refine ⟨by simp only [lenRange]; exact Nat.le_trans (Nat.min_le_left _ _) ih.1, ?_⟩
    intro h e
    simp only [lenRange] at e
    obtain ⟨x, y, e1, _, rfl⟩ := maxHi_some e
    exact Nat.le_trans (ih.2 x e1) (Nat.le_max_left _ _)
  | altR r s pre w post _ ih =>
    refine ⟨by simp only [lenRange]; exact Nat.le_trans (Nat.min_le_right _ _) ih.1, ?_⟩
    intro h e
    simp only [lenRange] at e
    obtain ⟨x, y, _, e2, rfl⟩ := maxHi_some e
    exact Nat.le_trans (ih.2 y e2) (Nat.le_max_right _ _)
  | repStop r mx pre post => simp [lenRange]
  | repStep r mn mx pre u v post hmore _ _ ih1 ih2 =>
    constructor
    · have h2 := ih2.1
      simp only [lenRange] at h2 ⊢
      cases mn with
      | zero => simp
      | succ k =>
        simp only [Nat.add_sub_cancel] at h2
        rw [Nat.succ_mul]
        simp; omega
    · intro h e
      simp only [lenRange] at e
      have h2 := ih2.2
      simp only [lenRange] at h2
      cases mx with
      | none =>
        simp only [decMax] at h2
        cases hr : (lenRange r).2 with
        | none => simp [hr, starHi] at e
        | some x =>
          cases x with
          | zero =>
            have := ih1.2 0 hr
            have := h2 0 (by simp [hr, starHi])
            simp; omega
          | succ x => simp [hr, starHi] at e
      | some n =>
        simp only [decMax] at h2
        simp only [moreAllowed, bne_iff_ne, ne_eq] at hmore
        cases hr : (lenRange r).2 with
        | none =>
          simp only [hr, mulHi] at e
          simp [hmore] at e
        | some x =>
          simp only [hr, mulHi, Option.some.injEq] at e
          have := ih1.2 x hr
          have := h2 ((n - 1) * x) (by simp [hr, mulHi])
          subst e
          have hn : n = (n - 1) + 1 := by omega
          rw [hn, Nat.succ_mul]
          simp at *; omega

/-! ### attained bounds for assertion-free, well-formed regexes -/

/-- `w` repeated `k` times -/
def pow (w : List Byte) : Nat → List Byte
  | 0 => []
  | k + 1 => w ++ pow w k

theorem pow_length (w : List Byte) (k : Nat) : (pow w k).length = k * w.length := by
  induction k with
  | zero => simp [pow]
  | succ k ih => simp [pow, ih, Nat.succ_mul]; omega

/-- may `k` iterations be made under the maximum `mx`? -/
def allows : Option Nat → Nat → Prop
  | none, _ => True
  | some n, k => k ≤ n

/-- a context-independent word of the body, iterated `k` times with `mn ≤ k ≤ mx`, is matched
    by the repetition -/
theorem rep_pow {r : Regex} {w : List Byte} (hw : ∀ pre post, Matches r pre w post) :
    ∀ (k mn : Nat) (mx : Option Nat), mn ≤ k → allows mx k →
      ∀ pre post, Matches (rep r mn mx) pre (pow w k) post := by
  intro k
  induction k with
  | zero =>
    intro mn mx hmn _ pre post
    have : mn = 0 := by omega
    subst this
    exact Matches.repStop r mx pre post
  | succ k ih =>
    intro mn mx hmn hal pre post
    have hmore : moreAllowed mx = true := by
      cases mx with
      | none => rfl
      | some n => simp only [allows] at hal; simp [moreAllowed]; omega
    have hal' : allows (decMax mx) k := by
      cases mx with
      | none => trivial
      | some n => simp only [allows, decMax] at hal ⊢; omega
    exact Matches.repStep r mn mx pre w (pow w k) post hmore (hw _ _)
      (ih (mn - 1) (decMax mx) (by omega) hal' _ _)

theorem atomWitness_spec {rs : List (Byte × Byte)} {neg : Bool} (h : (atomWitness rs neg).isSome = true) :
    ∃ b, b < 256 ∧ atomMatch rs neg b = true := by
  unfold atomWitness at h
  cases hf : (List.range 256).find? (atomMatch rs neg) with
  | none => simp [hf] at h
  | some b =>
    refine ⟨b, ?_, List.find?_some hf⟩
    have := List.mem_of_find?_eq_some hf
    simpa using this

/-- a word that is matched in every context -/
def CtxFree (r : Regex) (w : List Byte) : Prop := ∀ pre post, Matches r pre w post

theorem attained_lo (r : Regex) (ha : assertFree r = true) (hw : wellFormed r = true) :
    ∃ w, w.length = (lenRange r).1 ∧ CtxFree r w := by
  induction r with
  | eps => exact ⟨[], rfl, fun pre post => Matches.eps pre post⟩
  | atom rs neg =>
    obtain ⟨b, _, hb⟩ := atomWitness_spec (by simpa [wellFormed] using hw)
    exact ⟨[b], rfl, fun pre post => Matches.atom rs neg b pre post hb⟩
  | assert a => simp [assertFree] at ha
  | cat r s ihr ihs =>
    simp only [assertFree, wellFormed, Bool.and_eq_true] at ha hw
    obtain ⟨u, hu, mu⟩ := ihr ha.1 hw.1
    obtain ⟨v, hv, mv⟩ := ihs ha.2 hw.2
    exact ⟨u ++ v, by simp [lenRange, hu, hv], fun pre post => Matches.cat r s pre u v post (mu _ _) (mv _ _)⟩
  | alt r s ihr ihs =>
    simp only [assertFree, wellFormed, Bool.and_eq_true] at ha hw
    obtain ⟨u, hu, mu⟩ := ihr ha.1 hw.1
    obtain ⟨v, hv, mv⟩ := ihs ha.2 hw.2
    by_cases hle : (lenRange r).1 ≤ (lenRange s).1
    · exact ⟨u, by simp [lenRange, hu, hle], fun pre post => Matches.altL r s pre u post (mu _ _)⟩
    · refine ⟨v, ?_, fun pre post => Matches.altR r s pre v post (mv _ _)⟩
      simp only [lenRange, hv, Nat.min_def]
      split <;> omega
  | rep r mn mx ih =>
    simp only [assertFree, wellFormed, Bool.and_eq_true] at ha hw
    obtain ⟨u, hu, mu⟩ := ih ha hw.1
    refine ⟨pow u mn, by simp [lenRange, pow_length, hu], ?_⟩
    apply rep_pow mu mn mn mx (Nat.le_refl _)
    cases mx with
    | none => trivial
    | some n => simpa [allows] using hw.2

theorem attained_hi (r : Regex) (ha : assertFree r = true) (hw : wellFormed r = true) :
    ∀ h, (lenRange r).2 = some h → ∃ w, w.length = h ∧ CtxFree r w := by
  induction r with
  | eps =>
    intro h e
    simp [lenRange] at e
    exact ⟨[], by simp [e], fun pre post => Matches.eps pre post⟩
  | atom rs neg =>
    intro h e
    simp [lenRange] at e
    obtain ⟨b, _, hb⟩ := atomWitness_spec (by simpa [wellFormed] using hw)
    exact ⟨[b], by simp [e], fun pre post => Matches.atom rs neg b pre post hb⟩
  | assert a => simp [assertFree] at ha
  | cat r s ihr ihs =>
    intro h e
    simp only [assertFree, wellFormed, Bool.and_eq_true] at ha hw
    simp only [lenRange] at e
    obtain ⟨x, y, e1, e2, rfl⟩ := addHi_some e
    obtain ⟨u, hu, mu⟩ := ihr ha.1 hw.1 x e1
    obtain ⟨v, hv, mv⟩ := ihs ha.2 hw.2 y e2
    exact ⟨u ++ v, by simp [hu, hv], fun pre post => Matches.cat r s pre u v post (mu _ _) (mv _ _)⟩
  | alt r s ihr ihs =>
    intro h e
    simp only [assertFree, wellFormed, Bool.and_eq_true] at ha hw
    simp only [lenRange] at e
    obtain ⟨x, y, e1, e2, rfl⟩ := maxHi_some e
    obtain ⟨u, hu, mu⟩ := ihr ha.1 hw.1 x e1
    obtain ⟨v, hv, mv⟩ := ihs ha.2 hw.2 y e2
    by_cases hle : y ≤ x
    · exact ⟨u, by simp [hu, Nat.max_def]; omega, fun pre post => Matches.altL r s pre u post (mu _ _)⟩
    · exact ⟨v, by simp [hv, Nat.max_def]; omega, fun pre post => Matches.altR r s pre v post (mv _ _)⟩
  | rep r mn mx ih =>
    intro h e
    simp only [assertFree, wellFormed, Bool.and_eq_true] at ha hw
    simp only [lenRange] at e
    cases mx with
    | some n =>
      have hmn : mn ≤ n := by simpa using hw.2
      cases hr : (lenRange r).2 with
      | none =>
        simp only [hr, mulHi] at e
        split at e
        · rename_i hn
          subst hn
          have : mn = 0 := by omega
          subst this
          simp at e
          exact ⟨[], by simp [e], fun pre post => Matches.repStop r _ pre post⟩
        · simp at e
      | some x =>
        simp only [hr, mulHi, Option.some.injEq] at e
        obtain ⟨u, hu, mu⟩ := ih ha hw.1 x hr
        exact ⟨pow u n, by simp [pow_length, hu, e], rep_pow mu n mn (some n) hmn (by simp [allows])⟩
    | none =>
      cases hr : (lenRange r).2 with
      | none => simp [hr, starHi] at e
      | some x =>
        cases x with
        | succ x => simp [hr, starHi] at e
        | zero =>
          simp [hr, starHi] at e
          obtain ⟨u, hu, mu⟩ := ih ha hw.1 0 hr
          exact ⟨pow u mn, by simp [pow_length, hu, ← e], rep_pow mu mn mn none (Nat.le_refl _) trivial⟩

theorem addHi_none {a b : Option Nat} (e : addHi a b = none) : a = none ∨ b = none := by
  cases a <;> cases b <;> simp [addHi] at e ⊢

theorem maxHi_none {a b : Option Nat} (e : maxHi a b = none) : a = none ∨ b = none := by
  cases a <;> cases b <;> simp [maxHi] at e ⊢

theorem le_mul_of_pos (k x : Nat) (hk : 1 ≤ k) : x ≤ k * x := by
  cases k with
  | zero => omega
  | succ k => rw [Nat.succ_mul]; omega

/-- `none` as maximum means that arbitrarily long words are matched -/
theorem attained_unbounded (r : Regex) (ha : assertFree r = true) (hw : wellFormed r = true) :
    (lenRange r).2 = none → ∀ N : Nat, ∃ w, N ≤ w.length ∧ CtxFree r w := by
  induction r with
  | eps => intro e; simp [lenRange] at e
  | atom rs neg => intro e; simp [lenRange] at e
  | assert a => simp [assertFree] at ha
  | cat r s ihr ihs =>
    intro e N
    simp only [assertFree, wellFormed, Bool.and_eq_true] at ha hw
    simp only [lenRange] at e
    rcases addHi_none e with e1 | e2
    · obtain ⟨u, hu, mu⟩ := ihr ha.1 hw.1 e1 N
      obtain ⟨v, _, mv⟩ := attained_lo s ha.2 hw.2
      exact ⟨u ++ v, by simp; omega, fun pre post => Matches.cat r s pre u v post (mu _ _) (mv _ _)⟩
    · obtain ⟨u, _, mu⟩ := attained_lo r ha.1 hw.1
      obtain ⟨v, hv, mv⟩ := ihs ha.2 hw.2 e2 N
      exact ⟨u ++ v, by simp; omega, fun pre post => Matches.cat r s pre u v post (mu _ _) (mv _ _)⟩
  | alt r s ihr ihs =>
    intro e N
    simp only [assertFree, wellFormed, Bool.and_eq_true] at ha hw
    simp only [lenRange] at e
    rcases maxHi_none e with e1 | e2
    · obtain ⟨u, hu, mu⟩ := ihr ha.1 hw.1 e1 N
      exact ⟨u, hu, fun pre post => Matches.altL r s pre u post (mu _ _)⟩
    · obtain ⟨v, hv, mv⟩ := ihs ha.2 hw.2 e2 N
      exact ⟨v, hv, fun pre post => Matches.altR r s pre v post (mv _ _)⟩
  | rep r mn mx ih =>
    intro e N
    simp only [assertFree, wellFormed, Bool.and_eq_true] at ha hw
    simp only [lenRange] at e
    cases mx with
    | some n =>
      have hmn : mn ≤ n := by simpa using hw.2
      cases hr : (lenRange r).2 with
      | some x => simp [hr, mulHi] at e
      | none =>
        simp only [hr, mulHi] at e
        have hn : n ≠ 0 := by
          intro h0; simp [h0] at e
        obtain ⟨u, hu, mu⟩ := ih ha hw.1 hr N
        refine ⟨pow u (Nat.max mn 1), ?_, rep_pow mu (Nat.max mn 1) mn (some n) (Nat.le_max_left _ _) ?_⟩
        · rw [pow_length]
          exact Nat.le_trans hu (le_mul_of_pos _ _ (Nat.le_max_right _ _))
        · simp only [allows]
          exact Nat.max_le.2 ⟨hmn, by omega⟩
    | none =>
      cases hr : (lenRange r).2 with
      | none =>
        obtain ⟨u, hu, mu⟩ := ih ha hw.1 hr N
        refine ⟨pow u (Nat.max mn 1), ?_, rep_pow mu (Nat.max mn 1) mn none (Nat.le_max_left _ _) trivial⟩
        rw [pow_length]
        exact Nat.le_trans hu (le_mul_of_pos _ _ (Nat.le_max_right _ _))
      | some x =>
        cases x with
        | zero => simp [hr, starHi] at e
        | succ x =>
          obtain ⟨u, hu, mu⟩ := attained_hi r ha hw.1 (x + 1) hr
          refine ⟨pow u (Nat.max mn N), ?_, rep_pow mu (Nat.max mn N) mn none (Nat.le_max_left _ _) trivial⟩
          rw [pow_length, hu]
          have h1 : N ≤ Nat.max mn N := Nat.le_max_right _ _
          have h2 : Nat.max mn N ≤ Nat.max mn N * (x + 1) := by
            rw [Nat.mul_succ]; omega
          omega

end Pk.Regex
