/-
  Flow locality of the reference reassembler within one inactivity-timeout window, part 1:
  the interface definitions, the flush that does nothing, the per-connection body of `tcpPacket`,
  stream keys are never changed.
-/
import Pk.Proofs.ImportReasmConv

namespace Pk.Proofs.ImportReasm
open Pk.Import

/-- all packets lie within one inactivity timeout after `t0` (so that no flush does anything) -/
def InWindow (t0 : Nat) (ps : List Pkt) : Prop := ∀ p ∈ ps, t0 ≤ p.ts ∧ p.ts ≤ t0 + timeout

/-- same transport protocol and same 4-tuple up to direction -/
def sameConv (p q : Pkt) : Prop :=
  p.udp = q.udp ∧
  ((p.src = q.src ∧ p.dst = q.dst ∧ p.sport = q.sport ∧ p.dport = q.dport) ∨
   (p.src = q.dst ∧ p.dst = q.src ∧ p.sport = q.dport ∧ p.dport = q.sport))
instance (p q : Pkt) : Decidable (sameConv p q) := by unfold sameConv; infer_instance

/-- `F` does not separate packets of one conversation -/
def FlowClosed (F : Pkt → Bool) : Prop := ∀ p q, sameConv p q → F p = F q

/-- a packet with the endpoints of stream `s` (client → server) -/
def Stream.keyPkt (s : Stream) : Pkt :=
  { ts := 0, file := "", idx := 0, udp := s.udp, src := s.caddr, dst := s.saddr, sport := s.cport, dport := s.sport }

/-! ### the flush that does nothing -/

/-- a half that is not older than `t0` -/
def HalfWin (t0 : Nat) (h : Half) : Prop := t0 ≤ h.lastSeen ∧ ∀ pg ∈ h.queue, t0 ≤ pg.ref.ts

def ConnWin (t0 : Nat) (c : TcpConn) : Prop := HalfWin t0 c.c2s ∧ HalfWin t0 c.s2c

theorem array_set!_self (ss : Array Stream) (i : Nat) : ss.set! i ss[i]! = ss := by
  apply Array.ext
  · simp
  · intro j h1 h2
    simp only [Array.set!_eq_setIfInBounds]
    rw [Array.getElem_setIfInBounds]
    split
    · rename_i h; subst h
      simp [getElem!_pos, h2]
    · rfl

theorem tcpFlush_id (t0 k ts : Nat) (hts : ts ≤ t0 + timeout) : ∀ (cs : List TcpConn) (ss : Array Stream) (u : Bool),
    (∀ c ∈ cs, ConnWin t0 c) → tcpFlush k ts cs ss u = (cs, ss, u) := by
  intro cs
  induction cs with
  | nil => intro ss u _; rfl
  | cons c cs ih =>
    intro ss u hw
    have hc := hw c (List.mem_cons_self ..)
    have hcs : ∀ c ∈ cs, ConnWin t0 c := fun c hm => hw c (List.mem_cons_of_mem _ hm)
    obtain ⟨⟨l1, q1⟩, ⟨l2, q2⟩⟩ := hc
    have h1 : ∀ pg ∈ c.c2s.queue, ¬ (pg.ref.ts + timeout < ts) := fun pg hm => by have := q1 pg hm; omega
    have h2 : ∀ pg ∈ c.s2c.queue, ¬ (pg.ref.ts + timeout < ts) := fun pg hm => by have := q2 pg hm; omega
    have hold : ¬ (c.lastSeen + timeout < ts) := by unfold TcpConn.lastSeen; omega
    have hl1 : ¬ (c.c2s.lastSeen + timeout < ts) := by omega
    rw [tcpFlush]
    split
    · rw [ih ss u hcs]
    · simp only [skipFlushLoop_id ts _ _ c.s2c h2, skipFlushLoop_id ts _ _ c.c2s h1, hold, hl1]
      simp only [decide_false, and_false, false_and, if_false,
        Bool.and_not_self, Bool.false_eq_true, array_set!_self, ih ss u hcs]

theorem udpFlush_id (t0 ts : Nat) (hts : ts ≤ t0 + timeout) : ∀ (cs : List UdpConn) (ss : Array Stream),
    (∀ c ∈ cs, t0 ≤ c.lastActivity) → udpFlush ts cs ss = (cs, ss) := by
  intro cs
  induction cs with
  | nil => intro ss _; rfl
  | cons c cs ih =>
    intro ss hw
    have hc := hw c (List.mem_cons_self ..)
    have hcs : ∀ c ∈ cs, t0 ≤ c.lastActivity := fun c hm => hw c (List.mem_cons_of_mem _ hm)
    rw [udpFlush, if_neg (by omega), ih ss hcs]

end Pk.Proofs.ImportReasm
