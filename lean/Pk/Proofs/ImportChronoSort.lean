/-
  Chronological arrival, part 1 (helpers for Pk/Props/C08Chrono.lean): the vocabulary of the
  hypotheses and the feeding order.  If every packet of `ps` sorts strictly before every packet of
  `qs` (`Before`: `comparePackets`, i.e. timestamp, then file name, then index) and packets are
  identified by (file, index), then `sortPkts (ps ++ qs) = sortPkts ps ++ sortPkts qs`: the feed of a
  chronological import is the feed of the previous import followed by the new packets.
-/
import Pk.Model.Import
import Pk.Proofs.Import

namespace Pk.Proofs.ImportChrono
open Pk.Import Pk.Proofs.Import

/-- the key under which an index file finds a packet (`StreamByFirstPacketSource`): capture file
    and index in it -/
def PRef.key (r : PRef) : String × Nat := (r.file, r.idx)

def Pkt.key (p : Pkt) : String × Nat := (p.file, p.idx)

theorem Pkt.ref_key (p : Pkt) : PRef.key p.ref = Pkt.key p := rfl

/-- every packet of `ps` is fed before every packet of `qs` (`comparePackets`: older, or equally old
    and from a capture with a smaller name, …) -/
def Before (ps qs : List Pkt) : Prop := ∀ p ∈ ps, ∀ q ∈ qs, pktLt p q = true

instance (ps qs : List Pkt) : Decidable (Before ps qs) := by unfold Before; infer_instance

theorem Before.nil_left (qs : List Pkt) : Before [] qs := by intro p hp; cases hp

theorem Before.append_left {ps ps' qs : List Pkt} (h1 : Before ps qs) (h2 : Before ps' qs) : Before (ps ++ ps') qs := by
  intro p hp q hq
  rcases List.mem_append.mp hp with hp | hp
  · exact h1 p hp q hq
  · exact h2 p hp q hq

theorem keys_inj {l : List Pkt} (hk : (l.map Pkt.key).Nodup) {a b : Pkt} (ha : a ∈ l) (hb : b ∈ l)
    (h : Pkt.key a = Pkt.key b) : a = b := by
  induction l with
  | nil => cases ha
  | cons x l ih =>
    rw [List.map_cons, List.nodup_cons] at hk
    rcases List.mem_cons.mp ha with rfl | ha' <;> rcases List.mem_cons.mp hb with rfl | hb'
    · rfl
    · exact absurd (List.mem_map.mpr ⟨b, hb', h.symm⟩) hk.1
    · exact absurd (List.mem_map.mpr ⟨a, ha', h⟩) hk.1
    · exact ih hk.2 ha' hb'

theorem mem_sortPkts {l : List Pkt} {a : Pkt} : a ∈ sortPkts l ↔ a ∈ l := (sortPkts_perm l).mem_iff

/-- the feed of a chronological import: old feed, then the new packets -/
theorem sortPkts_append (ps qs : List Pkt) (hk : ((ps ++ qs).map Pkt.key).Nodup) (hb : Before ps qs) :
    sortPkts (ps ++ qs) = sortPkts ps ++ sortPkts qs := by
  apply List.Perm.eq_of_pairwise (le := fun a b => pktLe a b = true)
  · intro a b ha hb' h1 h2
    have ha' : a ∈ ps ++ qs := mem_sortPkts.mp ha
    have hb'' : b ∈ ps ++ qs := by
      rcases List.mem_append.mp hb' with h | h
      · exact List.mem_append_left _ (mem_sortPkts.mp h)
      · exact List.mem_append_right _ (mem_sortPkts.mp h)
    have e1 : pktLt b a = false := by simpa [pktLe] using h1
    have e2 : pktLt a b = false := by simpa [pktLe] using h2
    obtain ⟨_, hf, hi⟩ := pktLt_trichotomy e2 e1
    exact keys_inj hk ha' hb'' (by unfold Pkt.key; rw [hf, hi])
  · exact sortPkts_sorted _
  · rw [List.pairwise_append]
    refine ⟨sortPkts_sorted ps, sortPkts_sorted qs, ?_⟩
    intro a ha b hb'
    exact pktLe_of_lt (hb a (mem_sortPkts.mp ha) b (mem_sortPkts.mp hb'))
  · exact (sortPkts_perm _).trans ((sortPkts_perm ps).append (sortPkts_perm qs)).symm

/-! ### histories -/

/-- a batch: the names of the new captures and their packets -/
abbrev Batch := List String × List Pkt

/-- all packets of a history -/
def allPkts (bs : List Batch) : List Pkt := bs.foldr (fun b acc => b.2 ++ acc) []

theorem allPkts_cons (b : Batch) (bs : List Batch) : allPkts (b :: bs) = b.2 ++ allPkts bs := rfl

theorem mem_allPkts {bs : List Batch} {p : Pkt} : p ∈ allPkts bs ↔ ∃ b ∈ bs, p ∈ b.2 := by
  induction bs with
  | nil => simp [allPkts]
  | cons b bs ih =>
    rw [allPkts_cons, List.mem_append, ih]
    constructor
    · rintro (h | ⟨b', hb', hp⟩)
      · exact ⟨b, List.mem_cons_self .., h⟩
      · exact ⟨b', List.mem_cons_of_mem _ hb', hp⟩
    · rintro ⟨b', hb', hp⟩
      rcases List.mem_cons.mp hb' with rfl | hb'
      · exact Or.inl hp
      · exact Or.inr ⟨b', hb', hp⟩

/-- hypotheses on a history of imports (all decidable):
    * `strict`  — chronological arrival, ties broken as `sortPkts` breaks them: every packet of an
                  earlier batch is fed before every packet of a later batch (`Before`);
    * `keys`    — a packet is identified by capture file and index in it (what
                  `StreamByFirstPacketSource` looks at);
    * `names`   — the names handed to the import are those of the captures of its packets;
    * `fresh`   — no capture is imported twice: a later import does not name the capture of an
                  earlier packet. -/
structure ChronoHist (bs : List Batch) : Prop where
  strict : bs.Pairwise (fun bi bj => Before bi.2 bj.2)
  keys : ((allPkts bs).map Pkt.key).Nodup
  names : ∀ b ∈ bs, ∀ p ∈ b.2, p.file ∈ b.1
  fresh : bs.Pairwise (fun bi bj => ∀ p ∈ bi.2, p.file ∉ bj.1)

theorem chronoHist_iff (bs : List Batch) : ChronoHist bs ↔
    bs.Pairwise (fun bi bj => Before bi.2 bj.2) ∧ ((allPkts bs).map Pkt.key).Nodup ∧
    (∀ b ∈ bs, ∀ p ∈ b.2, p.file ∈ b.1) ∧ bs.Pairwise (fun bi bj => ∀ p ∈ bi.2, p.file ∉ bj.1) :=
  ⟨fun h => ⟨h.strict, h.keys, h.names, h.fresh⟩, fun h => ⟨h.1, h.2.1, h.2.2.1, h.2.2.2⟩⟩

instance (bs : List Batch) : Decidable (ChronoHist bs) := decidable_of_iff _ (chronoHist_iff bs).symm

/-- all packets of the history lie within one inactivity timeout after `t0` -/
def HistWindow (t0 : Nat) (bs : List Batch) : Prop := ∀ p ∈ allPkts bs, t0 ≤ p.ts ∧ p.ts ≤ t0 + timeout

instance (t0 : Nat) (bs : List Batch) : Decidable (HistWindow t0 bs) := by unfold HistWindow; infer_instance

end Pk.Proofs.ImportChrono
