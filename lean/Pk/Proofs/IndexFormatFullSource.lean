/-
  The sort key of a stream in the by-first-packet-source lookup, and `StreamByFirstPacketSource` as a
  search over resolved keys (glue for C01 `lookup_by_first_packet_exact`).
-/
import Pk.Proofs.IndexFormatFullSort
import Pk.Proofs.IndexFormatFullReader
namespace Pk.Index
open Pk Pk.Bytes

def recIk (r : PacketRec) : Nat × Nat := (r.imp, r.idx)

theorem setSkips_ik (l : List PacketRec) : (setSkips l).1.map recIk = l.map recIk := by
  have h : ∀ (m : List PacketRec), m.map recIk = (m.map strip).map recIk := by
    intro m; rw [List.map_map]; rfl
  rw [h, setSkips_strip, ← h]

theorem clearLast_ik (l : List PacketRec) : (clearLastHasNext l).map recIk = l.map recIk := by
  induction l with
  | nil => rfl
  | cons p t ih =>
    cases t with
    | nil => rfl
    | cons q rest =>
      simp only [clearLastHasNext, List.map_cons] at ih ⊢
      rw [ih]

theorem getD_map' {α β : Type} (f : α → β) (l : List α) (i : Nat) (d : α) : (l.map f).getD i (f d) = f (l.getD i d) := by
  simp only [List.getD_eq_getElem?_getD, List.getElem?_map]
  cases l[i]? <;> rfl

/-- the sort key of a stream resolves to the (file name, packet index) of its first source reference -/
theorem srcKey_stream (imps : List ImportKey) (packets : List PacketRec) (s : StreamIn) (rec_ : StreamRec)
    (hpa : PktAt imps packets s rec_) (hne : s.packets ≠ [])
    (hrefs : ∀ p ∈ s.packets, p.refs ≠ [] ∧ ∀ ref ∈ p.refs, ref.index < 2 ^ 64) :
    ∃ t0 T, trips s.data 0 s.packets = t0 :: T ∧
      (srcKey imps packets rec_).canon = (t0.2.1.file, t0.2.1.index) ∧
      (srcKey imps packets rec_).off + (srcKey imps packets rec_).idx < 2 ^ 64 := by
  obtain ⟨hkeys, _, rest, hdrop⟩ := hpa
  have htne := trips_ne s.data s.packets 0 hne (fun p hp => (hrefs p hp).1)
  obtain ⟨t0, T, hT⟩ : ∃ t0 T, trips s.data 0 s.packets = t0 :: T := by
    cases h : trips s.data 0 s.packets with
    | nil => exact absurd h htne
    | cons a l => exact ⟨a, l, rfl⟩
  refine ⟨t0, T, hT, ?_⟩
  have hmem := mem_trips s.data s.packets 0 t0 (by rw [hT]; simp)
  have hkey : t0.2.1.key ∈ imps := hkeys _ hmem.1 _ hmem.2
  have hidx : t0.2.1.index < 2 ^ 64 := (hrefs _ hmem.1).2 _ hmem.2
  -- first record
  have hik : (streamRecs imps s).map recIk = (streamRaw imps s).map recIk := by
    unfold streamRecs; rw [clearLast_ik, setSkips_ik]
  obtain ⟨a, l, hsp⟩ : ∃ a l, splitSizes t0.2.2 = a :: l := by
    cases h : splitSizes t0.2.2 with
    | nil => exact absurd h (splitSizes_ne _)
    | cons a l => exact ⟨a, l, rfl⟩
  have hraw : ∃ tl, (streamRaw imps s).map recIk = t0.ik imps :: tl := by
    unfold streamRaw
    rw [allRecords_trips, hT]
    simp only [List.map_cons, List.flatten_cons, grp, hsp, List.cons_append]
    exact ⟨_, rfl⟩
  obtain ⟨tl, hraw⟩ := hraw
  rw [← hik] at hraw
  obtain ⟨r0, tl', hrecs, hr0⟩ : ∃ r0 tl', streamRecs imps s = r0 :: tl' ∧ recIk r0 = t0.ik imps := by
    cases h : streamRecs imps s with
    | nil => rw [h] at hraw; simp at hraw
    | cons r0 tl' => rw [h] at hraw; simp at hraw; exact ⟨r0, tl', rfl, hraw.1⟩
  have hget : packets.getD rec_.pstart default = r0 := by
    have : (packets.drop rec_.pstart)[0]? = some r0 := by rw [hdrop, hrecs]; simp
    rw [List.getElem?_drop] at this
    simp only [Nat.add_zero] at this
    simp [List.getD_eq_getElem?_getD, this]
  have himp : r0.imp = imps.idxOf t0.2.1.key := by
    have := congrArg Prod.fst hr0; simpa [recIk, Trip.ik] using this
  have hidx' : r0.idx = t0.2.1.index % 2 ^ 32 := by
    have := congrArg Prod.snd hr0; simpa [recIk, Trip.ik] using this
  have hlt : imps.idxOf t0.2.1.key < imps.length := List.idxOf_lt_length_iff.mpr hkey
  have hk : imps.getD (imps.idxOf t0.2.1.key) default = t0.2.1.key := by
    rw [List.getD_eq_getElem?_getD, List.getElem?_eq_getElem hlt, List.getElem_idxOf]; rfl
  simp only [srcKey, SrcKey.canon, hget, himp, hidx', hk]
  simp only [SrcRef.key]
  refine ⟨?_, by omega⟩
  congr 1
  omega

theorem srcKey_same (imps : List ImportKey) (packets : List PacketRec) (x y : StreamRec)
    (h : (srcKey imps packets x).imp = (srcKey imps packets y).imp) :
    (srcKey imps packets x).file = (srcKey imps packets y).file ∧ (srcKey imps packets x).off = (srcKey imps packets y).off := by
  simp only [srcKey] at h ⊢
  rw [h]; exact ⟨rfl, rfl⟩

theorem firstSource_eq (r : Reader) (s : StreamRec) : r.firstSource s = (srcKey r.imports r.f.packets s).canon := rfl

/-- `StreamByFirstPacketSource` as a search over resolved keys -/
theorem streamBySource_eq (r : Reader) (file : Bytes) (index : Nat) :
    r.streamBySource file index =
      if sortSearch (fun i => lexLe (file, index) (r.firstSource (r.f.streams.getD (r.f.lkSrc.getD i 0) default))) 0 r.f.streams.length
          ≥ r.f.streams.length then none
      else if r.firstSource (r.f.streams.getD (r.f.lkSrc.getD
          (sortSearch (fun i => lexLe (file, index) (r.firstSource (r.f.streams.getD (r.f.lkSrc.getD i 0) default))) 0 r.f.streams.length) 0) default)
          ≠ (file, index) then none
      else some (r.f.lkSrc.getD (sortSearch (fun i => lexLe (file, index) (r.firstSource (r.f.streams.getD (r.f.lkSrc.getD i 0) default))) 0 r.f.streams.length) 0,
        r.f.streams.getD (r.f.lkSrc.getD (sortSearch (fun i => lexLe (file, index) (r.firstSource (r.f.streams.getD (r.f.lkSrc.getD i 0) default))) 0 r.f.streams.length) 0) default) := by
  have hpred : (fun (i : Nat) =>
      (match r.firstSource (r.f.streams.getD (r.f.lkSrc.getD i 0) default) with
        | (fn, idx) => if fn ≠ file then !(Bytes.lt fn file) else decide (index ≤ idx) : Bool)) =
      (fun i => lexLe (file, index) (r.firstSource (r.f.streams.getD (r.f.lkSrc.getD i 0) default))) := by
    funext i
    generalize r.firstSource (r.f.streams.getD (r.f.lkSrc.getD i 0) default) = q
    obtain ⟨fn, idx⟩ := q
    simp only [lexLe, lexLt]
    by_cases h : fn = file
    · by_cases h' : idx < index
      · simp [h, h']
      · simp [h, h']; omega
    · simp [h]
  unfold Reader.streamBySource
  simp only [hpred]
  generalize sortSearch (fun i => lexLe (file, index) (r.firstSource (r.f.streams.getD (r.f.lkSrc.getD i 0) default))) 0 r.f.streams.length = k
  by_cases hk : k ≥ r.f.streams.length
  · simp [hk]
  · simp only [hk, if_false]
    generalize r.firstSource (r.f.streams.getD (r.f.lkSrc.getD k 0) default) = q
    obtain ⟨fn, idx⟩ := q
    by_cases h1 : fn = file
    · by_cases h2 : idx = index
      · simp [h1, h2]
      · simp [h1, h2]
    · simp [h1]

theorem find?_unique {α β : Type} [BEq β] [LawfulBEq β] (f : α → β) (l : List α) : ∀ (i : Nat) (a : α) (b : β),
    (l.map f).Pairwise (· ≠ ·) → l[i]? = some a → f a = b → l.find? (fun x => f x == b) = some a := by
  induction l with
  | nil => intro i a b _ h; simp at h
  | cons x t ih =>
    intro i a b hpw hi hfa
    simp only [List.map_cons, List.pairwise_cons] at hpw
    cases i with
    | zero =>
      simp at hi; subst hi
      simp [hfa]
    | succ i =>
      simp at hi
      have hne : f x ≠ b := by
        rw [← hfa]
        exact hpw.1 (f a) (List.mem_map.mpr ⟨a, List.mem_of_getElem? hi, rfl⟩)
      have hne' : (f x == b) = false := by simp [hne]
      simp only [List.find?_cons, hne']
      exact ih i a b hpw.2 hi hfa

end Pk.Index
