/-
  Skip counters of the packet records (helper lemmas for C01 `skip_counters_sound`).
-/
import Pk.Model.IndexFormat
namespace Pk.Index
open Pk Pk.Bytes

/-- following the skip counter from a record never passes a record with payload and always lands on a
    record of the same stream (at the latest the last one) -/
def SkipSound : List PacketRec → Prop
  | [] => True
  | p :: rest => (rest = [] ∨ ((rest.take p.skip).all (fun q => q.size == 0) = true ∧ p.skip < rest.length)) ∧ SkipSound rest

theorem setSkips_spec (ps : List PacketRec) :
    (setSkips ps).1.map (·.size) = ps.map (·.size) ∧ SkipSound (setSkips ps).1 ∧
    (∀ h t, (setSkips ps).1 = h :: t → t ≠ [] →
      ((t.take (setSkips ps).2).all (fun q => q.size == 0) = true ∧ (setSkips ps).2 < t.length)) := by
  induction ps with
  | nil => simp [setSkips, SkipSound]
  | cons p t ih =>
    cases t with
    | nil => simp [setSkips, SkipSound]
    | cons q rest =>
      obtain ⟨hsz, hsound, hd⟩ := ih
      simp only [setSkips]
      -- name the recursive result
      generalize hr : setSkips (q :: rest) = r at hsz hsound hd
      obtain ⟨qs, dq⟩ := r
      simp only at hsz hsound hd ⊢
      -- qs = q' :: rest' with q'.size = q.size
      cases qs with
      | nil => simp at hsz
      | cons q' rest' =>
        have hq : q'.size = q.size := by simpa using (List.cons.inj (by simpa using hsz)).1
        have hlen : rest'.length = rest.length := by
          have := congrArg List.length hsz; simpa using this
        have hdq := hd q' rest' rfl
        -- distance of the head
        have key : ((q' :: rest').take (if q.size ≠ 0 then 0 else if rest.isEmpty then 0 else dq + 1)).all (fun x => x.size == 0) = true ∧
            (if q.size ≠ 0 then 0 else if rest.isEmpty then 0 else dq + 1) < (q' :: rest').length := by
          by_cases h1 : q.size ≠ 0
          · simp [h1]
          · have h1' : q.size = 0 := by omega
            by_cases h2 : rest.isEmpty
            · simp [h1', h2]
            · have hne : rest' ≠ [] := by
                intro h; rw [h] at hlen; simp at hlen
                have : rest = [] := List.length_eq_zero_iff.mp hlen.symm
                simp [this] at h2
              obtain ⟨ha, hb⟩ := hdq hne
              simp only [h1', ne_eq, not_true_eq_false, if_false, h2, Bool.false_eq_true, List.take_succ_cons, List.all_cons, hq,
                beq_self_eq_true, Bool.true_and, List.length_cons]
              exact ⟨ha, by omega⟩
        refine ⟨by simp [hsz], ⟨Or.inr ⟨?_, ?_⟩, hsound⟩, ?_⟩
        · -- skip = min d 255 is a prefix of the distance
          generalize (if q.size ≠ 0 then 0 else if rest.isEmpty then 0 else dq + 1) = d at key ⊢
          by_cases hlt : d < 255
          · simp only [hlt, if_true]; exact key.1
          · simp only [hlt, if_false]
            have h255 : 255 ≤ d := by omega
            have : (q' :: rest').take 255 = ((q' :: rest').take d).take 255 := by
              rw [List.take_take]; congr 1; omega
            rw [this]
            exact List.all_eq_true.mpr (fun x hx => List.all_eq_true.mp key.1 x (List.mem_of_mem_take hx))
        · generalize (if q.size ≠ 0 then 0 else if rest.isEmpty then 0 else dq + 1) = d at key ⊢
          by_cases hlt : d < 255
          · simp only [hlt, if_true]; exact key.2
          · simp only [hlt, if_false]; omega
        · intro h t heq hne
          obtain ⟨rfl, rfl⟩ := List.cons.inj heq
          exact key


theorem clearLast_take_all (l : List PacketRec) (n : Nat) :
    ((clearLastHasNext l).take n).all (fun q => q.size == 0) = (l.take n).all (fun q => q.size == 0) := by
  induction l generalizing n with
  | nil => simp [clearLastHasNext]
  | cons a t ih =>
    cases t with
    | nil => cases n <;> simp [clearLastHasNext]
    | cons b r =>
      cases n with
      | zero => simp
      | succ n => simp only [clearLastHasNext, List.take_succ_cons, List.all_cons]; rw [ih n]

theorem clearLast_length (l : List PacketRec) : (clearLastHasNext l).length = l.length := by
  induction l with
  | nil => rfl
  | cons a t ih => cases t with
    | nil => rfl
    | cons b r => simp only [clearLastHasNext, List.length_cons] at ih ⊢; omega

theorem clearLast_sound (l : List PacketRec) (h : SkipSound l) : SkipSound (clearLastHasNext l) := by
  induction l with
  | nil => exact h
  | cons a t ih =>
    cases t with
    | nil => simp [clearLastHasNext, SkipSound]
    | cons b r =>
      obtain ⟨h1, h2⟩ := h
      simp only [clearLastHasNext]
      refine ⟨?_, ih h2⟩
      rcases h1 with h1 | ⟨ha, hb⟩
      · simp at h1
      · right
        have e : clearLastHasNext (b :: r) = clearLastHasNext (b :: r) := rfl
        refine ⟨?_, ?_⟩
        · rw [clearLast_take_all]; exact ha
        · rw [clearLast_length]; exact hb

end Pk.Index
