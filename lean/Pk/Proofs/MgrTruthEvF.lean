/- Helper lemmas for C06Reach: the tagging completion. -/
import Pk.Proofs.MgrTruthEvE
namespace Pk.Props.C06Reach
open Pk.Mgr Pk.Props.MgrReach Pk.Proofs.MgrTruth Pk.Proofs.MgrTags

open Pk.Proofs.MgrTermination in
/-- no tag of a table with a topological order references itself -/
theorem topo_no_self {tags : List (String × Tag)} (hs : Sorted tags) (ht : Topo tags) {n : String} {t : Tag}
    (h : sget tags n = some t) : n ∉ t.refs := by
  obtain ⟨R, hg, hall⟩ := ht
  have hn : n ∈ R := hall n (sget_mem_keys _ _ _ h)
  have key : ∀ R, GoodOrder tags R → ∀ n, n ∈ R → ∀ t, sget tags n = some t → n ∉ t.refs := by
    intro R hg
    induction hg with
    | nil => intro n hn; cases hn
    | cons n0 t0 R0 hm hnot href _ ih =>
      intro n hn t ht
      rcases List.mem_cons.mp hn with rfl | hn
      · have := Pk.Proofs.MgrConv.mem_sget_of_sorted tags hs n t0 hm
        rw [ht] at this; cases this
        exact fun hself => hnot (href n hself)
      · exact ih n hn t ht
  exact key R hg n hn t h

theorem mem_pub (snap : Tag) (g : Nat → Bool) (result : List Nat)
    (hres : ∀ id, id ∈ result ↔ (id ∈ snap.unc ∧ g id = true)) (id : Nat) :
    id ∈ union (diff snap.mat snap.unc) (ofList result) ↔ Ans snap g id = true := by
  simp only [mem_union, mem_diff, mem_ofList, hres, Ans]
  by_cases hu : id ∈ snap.unc <;> simp [hu]

theorem masks_of_covM {s : St} {snap : Tag} {id : Nat} (h : CovM s snap id) : masksNE s := by
  rcases h with h | h | h | h
  · exact masksNE_of_mem (Or.inr (Or.inr h))
  · exact h.2
  · exact masksNE_of_mem (Or.inr (Or.inl h.1))
  · exact masksNE_of_mem (Or.inl h.1)

theorem masks_of_cov {s : St} {snap : Tag} {id : Nat} (h : Cov s snap id) : masksNE s := by
  rcases h with h | h
  · exact masks_of_covM h
  · exact h.1

/-- what is covered by the masks is pending after the completion has published the result -/
theorem publish_pending (s : St) (name : String) (result : List Nat) (st : Started) (T g : Truth)
    (hg : Good s T g) (snap ot : Tag) (held : List Nat)
    (hj : s.jTag = some (name, snap, held)) (hot : sget s.tags name = some ot) (hd : ot.defn = snap.defn)
    (hgn : ot.gen = snap.gen) (id : Nat) (hid : id < s.next) (hc : Cov s snap id) :
    ∀ t', sget (step s (.tagDone name result) st).1.tags name = some t' → id ∈ t'.unc := by
  have hr := hg.reach
  have hw := hr.tagsWF
  have hlt : id < s.all := Nat.lt_of_lt_of_le hid hr.nextLeAll
  have hm : ¬ (s.upd = [] ∧ s.rst = [] ∧ s.add = []) := by
    intro h
    rcases masks_of_cov hc with h1 | h1 | h1
    · exact h1 h.1
    · exact h1 h.2.1
    · exact h1 h.2.2
  obtain ⟨s1, htags, _, _, h1all, h1tags⟩ := tagDone_via s name result st snap ot held hj hot hd hgn hm
  have hrefs := hr.factsOK.1 name snap held ot hj hot hd
  let X := tdTag snap ot (ofList result)
  have hget : ∀ n, sget s1.tags n =
      (if name = n then some X else sget s.tags n).map (invF s.all s.upd s.rst s.add) := by
    intro n
    rw [h1tags, sget_map (fun _ t => invF s.all s.upd s.rst s.add t), sget_sins]
  have hsort : Sorted s1.tags := by
    apply sorted_of_keys_eq (sins name X s.tags) s1.tags _ (sorted_sins _ _ _ hw)
    rw [h1tags]; simp [Function.comp_def]; rfl
  have hju := hr.jobUnc
  have hbnd : Bounded s1.all s1.tags := by
    intro n t1 h1 x hx
    rw [hget] at h1
    rw [h1all]
    have hTB : ∀ t : Tag, (∀ y, y ∈ t.unc → y < s.all) →
        ∀ y, y ∈ (invF s.all s.upd s.rst s.add t).unc → y < s.all := by
      intro t hb y hy
      exact (Pk.Proofs.MgrReach.TB_invF (k := s.all) (Nat.le_refl _) hju.2.1 hju.2.2.1 hju.2.2.2.1
        { t with mat := [] } ⟨hb, fun _ h => by cases h⟩).1 y (by
          have : (invF s.all s.upd s.rst s.add { t with mat := [] }).unc = (invF s.all s.upd s.rst s.add t).unc := by
            unfold invF; repeat' split
            all_goals rfl
          rw [this]; exact hy)
    split at h1
    · simp only [Option.map_some, Option.some.injEq] at h1
      subst h1
      exact hTB X (fun y hy => by cases hy) x hx
    · cases hs : sget s.tags n with
      | none => rw [hs] at h1; cases h1
      | some t =>
        rw [hs] at h1
        simp only [Option.map_some, Option.some.injEq] at h1
        subst h1
        exact hTB t (hr.uncBounded n t hs) x hx
  have hfq : Pk.Proofs.MgrTermination.FQ s.tags s1.tags := by
    intro n
    rw [hget]
    by_cases hn : name = n
    · subst hn
      simp only [if_true, Option.map_some, hot]
      have e := attrs_eq (attrs_invF s.all s.upd s.rst s.add X)
      simp only [Pk.Proofs.MgrReach.F2, e.1, e.2.1]
      show some (snap.mainT, snap.subT) = _
      rw [hrefs.1, hrefs.2]
    · simp only [hn, if_false]
      cases sget s.tags n with
      | none => rfl
      | some t =>
        have e := attrs_eq (attrs_invF s.all s.upd s.rst s.add t)
        simp [Pk.Proofs.MgrReach.F2, e.1, e.2.1]
  have htopo : Pk.Proofs.MgrTermination.Topo s1.tags :=
    Pk.Proofs.MgrTermination.topo_of_fq hw hfq (topo_of_acyclic s hg.acyclic)
  have hclosed := closed_after s1 hsort hbnd htopo
  have hX1 : sget s1.tags name = some (invF s.all s.upd s.rst s.add X) := by rw [hget]; simp
  intro t' h'
  rw [htags] at h'
  -- the attributes of the published entry are those of the snapshot
  obtain ⟨t2, h2, ha2⟩ := attrs_get (inherit_akeep s1 name) hX1
  rw [h'] at h2; cases h2
  have hattr : t'.mainT = snap.mainT ∧ t'.subT = snap.subT := by
    have e1 := attrs_eq ha2
    have e2 := attrs_eq (attrs_invF s.all s.upd s.rst s.add X)
    exact ⟨e1.1.trans e2.1, e1.2.1.trans e2.2.1⟩
  have hgrow : ∀ y, y ∈ (invF s.all s.upd s.rst s.add X).unc → y < s.all → y ∈ t'.unc := by
    intro y hy hyl
    obtain ⟨t3, h3, hu⟩ := pend_inherit s1 ⟨_, hX1, hy⟩ (h1all ▸ hyl)
    rw [h'] at h3; cases h3; exact hu
  have hself := topo_no_self hw (topo_of_acyclic s hg.acyclic) hot
  have hother : ∀ r id', r ≠ name → Pend s.tags r id' → Pend (inherit s1).tags r id' := by
    rintro r id' hrn ⟨tr, htr, hu⟩
    have hb := hr.uncBounded r tr htr id' hu
    refine pend_inherit s1 ⟨invF s.all s.upd s.rst s.add tr, ?_, ?_⟩ (h1all ▸ hb)
    · rw [hget]; simp [Ne.symm hrn, htr]
    · exact (trel_invF s.all s.upd s.rst s.add tr).2.2 id' hu hb
  rcases hc with hc | ⟨_, hc⟩
  · rcases hc with hc | hc | hc | hc
    · exact hgrow id (invF_add X id hc hlt) hlt
    · exact hgrow id (invF_sub X hc.1 id hlt) hlt
    · exact hgrow id (invF_rst X hc.2 id hc.1 hlt) hlt
    · exact hgrow id (invF_upd X hc.2 id hc.1 hlt) hlt
  · rcases hc with ⟨r, hrm, hp⟩ | ⟨r, hrs, id', hp⟩
    · have hrn : r ≠ name := by
        rintro rfl; apply hself; simp only [mem_refs, hrefs.1]; exact Or.inl hrm
      have := (hclosed name t' h').1 r (hattr.1 ▸ hrm) id (pend_tagUnc (hother r id hrn hp))
      exact this
    · have hrn : r ≠ name := by
        rintro rfl; apply hself; simp only [mem_refs, hrefs.2]; exact Or.inr hrs
      have hp' := pend_tagUnc (hother r id' hrn hp)
      refine (hclosed name t' h').2 ⟨r, hattr.2 ▸ hrs, ?_⟩ id (h1all ▸ hlt)
      intro h0; rw [h0] at hp'; cases hp'

/-- the tagging completion keeps "decided ⇒ correct" -/
theorem inv_tagDone (s : St) (name : String) (result : List Nat) (st : Started) (T T' g : Truth)
    (hg : Good s T g) (snap : Tag) (held : List Nat) (hj : s.jTag = some (name, snap, held))
    (hs : SameOn s T T') (hres : ∀ id, id ∈ result ↔ (id ∈ snap.unc ∧ g name id = true)) :
    C06.Inv (step s (.tagDone name result) st).1 T' := by
  have hr := hg.reach
  obtain ⟨hall, hnext⟩ := Pk.Proofs.MgrReach.step_all_next_other s (.tagDone name result) st (fun p u c a b d h => by cases h)
  refine inv_of_frame s _ st T T' hr hg.inv hnext hall ?_ ?_
  · intro n hE t' h' id hid hT
    have hk := keep_step s _ st n hE
    cases hsn : sget s.tags n with
    | none => rw [hk.2 hsn] at h'; cases h'
    | some t0 => exact absurd (hs n t0 hsn id hid) hT
  · intro n hE t' h' id hid hnu
    have hn : name = n := hE
    subst hn
    by_cases hlive : ∃ ot, sget s.tags name = some ot ∧ ot.defn = snap.defn ∧ ot.gen = snap.gen
    · obtain ⟨ot, hot, hd, hgn⟩ := hlive
      rw [hs name ot hot id hid]
      rw [step_tagDone_mat s st name snap ot held result hj hot hd hgn t' h', mem_pub snap (g name) result hres id]
      have hT : T name id = Ans snap (g name) id := by
        apply Classical.byContradiction
        intro hne
        have hcov : Cov s snap id := by
          rcases hg.job name snap held name ot hj hot hgn hd with h1 | ⟨_, h1⟩
          · exact Or.inl (h1 id hid)
          · exact h1 id hid hne
        exact hnu (publish_pending s name result st T g hg snap ot held hj hot hd hgn id hid hcov t' h')
      rw [hT]
    · have hdead : ∀ ot, sget s.tags name = some ot → ¬ (ot.defn = snap.defn ∧ ot.gen = snap.gen) :=
        fun ot h1 h2 => hlive ⟨ot, h1, h2.1, h2.2⟩
      obtain ⟨htags, _, _⟩ := tagDone_dead s name result st snap held hj hdead
      rw [htags] at h'
      rw [hs name t' h' id hid]
      exact hg.inv name t' h' id hid hnu

end Pk.Props.C06Reach
