/- Helper lemmas for Pk/Props/MgrReach.lean, part 1: every stream id the state mentions in a pending
   set, a match set, a during-job mask, a converter queue or a running converter job is below a
   bound `k` (`PB k s`).  With `k = s.all` this is the inductive form of `UncBounded`. -/
import Pk.Model.Manager
import Pk.Proofs.MgrConvMat
import Pk.Proofs.MgrSettleFrame
import Pk.Proofs.MgrTagsStep
namespace Pk.Proofs.MgrReach
open Pk.Mgr Pk.Proofs.MgrConv

/-- all ids of a set are below `k` -/
def SB (k : Nat) (l : IdSet) : Prop := ∀ id ∈ l, id < k
/-- pending and matching ids of a tag are below `k` -/
def TB (k : Nat) (t : Tag) : Prop := SB k t.unc ∧ SB k t.mat

theorem SB_nil (k : Nat) : SB k [] := fun _ h => by cases h
theorem SB_union {k : Nat} {a b : IdSet} (ha : SB k a) (hb : SB k b) : SB k (union a b) := by
  intro id hid
  rcases (mem_union _ _ _).1 hid with e | e
  · exact ha id e
  · exact hb id e
theorem SB_diff {k : Nat} {a : IdSet} (b : IdSet) (ha : SB k a) : SB k (diff a b) :=
  fun id hid => ha id ((mem_diff _ _ _).1 hid).1
theorem SB_inter {k : Nat} {a : IdSet} (b : IdSet) (ha : SB k a) : SB k (inter a b) :=
  fun id hid => ha id ((mem_inter _ _ _).1 hid).1
theorem SB_inter_r {k : Nat} (a : IdSet) {b : IdSet} (hb : SB k b) : SB k (inter a b) :=
  fun id hid => hb id ((mem_inter _ _ _).1 hid).2
theorem SB_range {k n : Nat} (h : n ≤ k) : SB k (rangeSet n) := by
  intro id hid
  have : id < n := by simpa [rangeSet] using hid
  omega
theorem SB_ofList {k : Nat} {l : List Nat} (h : ∀ id ∈ l, id < k) : SB k (ofList l) :=
  fun id hid => h id ((mem_ofList _ _).1 hid)
theorem SB_mono {k k' : Nat} {l : IdSet} (h : SB k l) (hk : k ≤ k') : SB k' l :=
  fun id hid => Nat.lt_of_lt_of_le (h id hid) hk
theorem TB_mono {k k' : Nat} {t : Tag} (h : TB k t) (hk : k ≤ k') : TB k' t :=
  ⟨SB_mono h.1 hk, SB_mono h.2 hk⟩

structure PB (k : Nat) (s : St) : Prop where
  all : s.all ≤ k
  next : s.next ≤ k
  tags : ∀ nt ∈ s.tags, TB k nt.2
  job : ∀ n snap held, s.jTag = some (n, snap, held) → TB k snap
  upd : SB k s.upd
  rst : SB k s.rst
  add : SB k s.add
  toconv : ∀ p ∈ s.toconv, SB k p.2
  jconv : ∀ sets held, s.jConv = some (sets, held) → ∀ p ∈ sets, SB k p.2

theorem PB.congr {k : Nat} {s X : St} (h : PB k s) (e1 : X.all = s.all) (e2 : X.next = s.next)
    (e3 : X.tags = s.tags) (e4 : X.jTag = s.jTag) (e5 : X.upd = s.upd) (e6 : X.rst = s.rst)
    (e7 : X.add = s.add) (e8 : X.toconv = s.toconv) (e9 : X.jConv = s.jConv) : PB k X :=
  ⟨e1 ▸ h.all, e2 ▸ h.next, e3 ▸ h.tags, e4 ▸ h.job, e5 ▸ h.upd, e6 ▸ h.rst, e7 ▸ h.add, e8 ▸ h.toconv,
   e9 ▸ h.jconv⟩

theorem PB.mono {k k' : Nat} {s : St} (h : PB k s) (hk : k ≤ k') : PB k' s :=
  ⟨Nat.le_trans h.all hk, Nat.le_trans h.next hk, fun nt hnt => TB_mono (h.tags nt hnt) hk,
   fun n snap held e => TB_mono (h.job n snap held e) hk, SB_mono h.upd hk, SB_mono h.rst hk,
   SB_mono h.add hk, fun p hp => SB_mono (h.toconv p hp) hk,
   fun sets held e p hp => SB_mono (h.jconv sets held e p hp) hk⟩

theorem PB.tagOf {k : Nat} {s : St} (h : PB k s) {n : String} {t : Tag} (ht : sget s.tags n = some t) : TB k t :=
  h.tags (n, t) (sget_mem _ _ _ ht)

theorem PB.q {k : Nat} {s : St} (h : PB k s) (c : String) : SB k ((sget s.toconv c).getD []) := by
  cases e : sget s.toconv c with
  | none => exact SB_nil k
  | some v => exact h.toconv (c, v) (sget_mem _ _ _ e)

/-- tables whose entries satisfy `P` -/
theorem all_sins {α} {P : α → Prop} {l : List (String × α)} (h : ∀ p ∈ l, P p.2) (n : String) (v : α)
    (hv : P v) : ∀ p ∈ sins n v l, P p.2 := by
  intro p hp
  rcases mem_sins _ _ _ _ hp with e | e
  · subst e; exact hv
  · exact h p e

theorem PB.withTag {k : Nat} {s : St} (h : PB k s) (n : String) (t : Tag) (ht : TB k t) : PB k (setTag s n t) :=
  { h with tags := all_sins h.tags n t ht }

theorem PB.tags_eq {k : Nat} {s : St} (h : PB k s) (tags : List (String × Tag)) (ht : ∀ nt ∈ tags, TB k nt.2) :
    PB k { s with tags := tags } := { h with tags := ht }

theorem PB.qset {k : Nat} {s : St} (h : PB k s) (c : String) (v : IdSet) (hv : SB k v) :
    PB k { s with toconv := sins c v s.toconv } :=
  { h with toconv := all_sins h.toconv c v hv }

theorem PB_foldl {k : Nat} {β} (f : St → β → St) (hf : ∀ s x, PB k s → PB k (f s x)) (l : List β) (s : St)
    (h : PB k s) : PB k (l.foldl f s) := by
  induction l generalizing s with
  | nil => exact h
  | cons a r ih => exact ih _ (hf s a h)

/-! ## frames of the helpers for the fields the C09 frame set does not cover -/
section frames
open Pk.Proofs.MgrSettle

theorem release_all (s : St) (fs : List Nat) : (release s fs).all = s.all := by unfold release; frame
theorem release_next (s : St) (fs : List Nat) : (release s fs).next = s.next := by unfold release; frame
theorem release_upd (s : St) (fs : List Nat) : (release s fs).upd = s.upd := by unfold release; frame
theorem release_rst (s : St) (fs : List Nat) : (release s fs).rst = s.rst := by unfold release; frame
theorem release_add (s : St) (fs : List Nat) : (release s fs).add = s.add := by unfold release; frame

theorem PB_release {k : Nat} (s : St) (fs : List Nat) (h : PB k s) : PB k (release s fs) :=
  h.congr (release_all _ _) (release_next _ _) (release_tags _ _) (release_jTag _ _) (release_upd _ _)
    (release_rst _ _) (release_add _ _) (release_toconv _ _) (release_jConv _ _)

theorem startMerge_all (s : St) : (startMerge s).all = s.all := by unfold startMerge; frame
theorem startMerge_next (s : St) : (startMerge s).next = s.next := by unfold startMerge; frame
theorem startMerge_upd (s : St) : (startMerge s).upd = s.upd := by unfold startMerge; frame
theorem startMerge_rst (s : St) : (startMerge s).rst = s.rst := by unfold startMerge; frame
theorem startMerge_add (s : St) : (startMerge s).add = s.add := by unfold startMerge; frame

theorem PB_startMerge {k : Nat} (s : St) (h : PB k s) : PB k (startMerge s) :=
  h.congr (startMerge_all _) (startMerge_next _) (startMerge_tags _) (startMerge_jTag _) (startMerge_upd _)
    (startMerge_rst _) (startMerge_add _) (startMerge_toconv _) (startMerge_jConv _)

theorem PB_startImport {k : Nat} (s : St) (h : PB k s) : PB k (startImport s) :=
  h.congr rfl rfl rfl rfl rfl rfl rfl rfl rfl

theorem PB_invDuring {k : Nat} (s : St) (ids : IdSet) (hi : SB k ids) (h : PB k s) :
    PB k (invalidatedDuringTaggingJob s ids) := by
  unfold invalidatedDuringTaggingJob
  split
  · exact { h with rst := SB_union h.rst hi }
  · exact h

end frames

/-! ## uncertainty propagation -/

theorem SB_tagUnc {k : Nat} {tags : List (String × Tag)} (h : ∀ nt ∈ tags, TB k nt.2) (r : String) :
    SB k (tagUnc tags r) := by
  unfold tagUnc
  cases e : sget tags r with
  | none => exact SB_nil k
  | some t => exact (h (r, t) (sget_mem _ _ _ e)).1

theorem SB_foldl_union {k : Nat} {β} (g : β → IdSet) (hg : ∀ r, SB k (g r)) (l : List β) (u : IdSet) (hu : SB k u) :
    SB k (l.foldl (fun u r => union u (g r)) u) := by
  induction l generalizing u with
  | nil => exact hu
  | cons a r ih => exact ih _ (SB_union hu (hg a))

theorem TB_inheritOne {k all : Nat} (hk : all ≤ k) {tags : List (String × Tag)} (h : ∀ nt ∈ tags, TB k nt.2)
    (t : Tag) (ht : TB k t) : TB k (inheritOne all tags t) := by
  unfold inheritOne
  split
  · exact ht
  · split
    · exact ⟨SB_range hk, ht.2⟩
    · exact ⟨SB_foldl_union _ (SB_tagUnc h) _ _ ht.1, ht.2⟩

theorem passStep_TB {k all : Nat} (hk : all ≤ k) (acc : List (String × Tag) × List String) (nt : String × Tag)
    (h : ∀ p ∈ acc.1, TB k p.2) : ∀ p ∈ (MgrTags.passStep all acc nt).1, TB k p.2 := by
  unfold MgrTags.passStep
  split
  · exact h
  · split
    · exact h
    · next t ht =>
      split
      · exact all_sins h _ _ (TB_inheritOne hk h t (h (nt.1, t) (sget_mem _ _ _ ht)))
      · exact h

theorem inherit_TB {k : Nat} (s : St) (hk : s.all ≤ k) (h : ∀ p ∈ s.tags, TB k p.2) :
    ∀ p ∈ (inherit s).tags, TB k p.2 := by
  obtain ⟨res, h', _⟩ := MgrTags.inheritLoop_inv s.all (fun acc => ∀ p ∈ acc.1, TB k p.2)
    (fun acc nt => passStep_TB hk acc nt) (s.tags.length + 1) s.tags [] h
  exact h'

theorem PB_inherit {k : Nat} (s : St) (h : PB k s) : PB k (inherit s) :=
  ⟨h.all, h.next, inherit_TB s h.all h.tags, h.job, h.upd, h.rst, h.add, h.toconv, h.jconv⟩

theorem TB_invF {k all : Nat} (hk : all ≤ k) {upd rst add : IdSet} (hu : SB k upd) (hr : SB k rst) (ha : SB k add)
    (t : Tag) (ht : TB k t) : TB k (MgrTags.invF all upd rst add t) := by
  unfold MgrTags.invF
  split
  · exact ⟨SB_range hk, ht.2⟩
  · split
    · split
      · exact ht
      · exact ⟨SB_union ht.1 ha, ht.2⟩
    · refine ⟨?_, ht.2⟩
      simp only []
      split
      · exact SB_union (SB_union (SB_union ht.1 ha) hr) hu
      · exact SB_union (SB_union ht.1 ha) hr

theorem all_map {α} {P : α → Prop} {l : List (String × α)} (h : ∀ p ∈ l, P p.2) (f : String × α → String × α)
    (hf : ∀ p, P p.2 → P (f p).2) : ∀ p ∈ l.map f, P p.2 := by
  intro p hp
  obtain ⟨x, hx, rfl⟩ := List.mem_map.1 hp
  exact hf x (h x hx)

theorem PB_invalidateTags {k : Nat} (s : St) (upd rst add : IdSet) (hu : SB k upd) (hr : SB k rst) (ha : SB k add)
    (h : PB k s) : PB k (invalidateTags s upd rst add) := by
  rw [MgrTags.invalidateTags_eq]
  apply PB_inherit
  exact h.tags_eq _ (all_map h.tags _ (fun p hp => TB_invF h.all hu hr ha p.2 hp))

theorem PB_ic1 {k : Nat} (u : IdSet) (hu : SB k u) (s : St) (c : String) (h : PB k s) : PB k (ic1 u s c) := by
  unfold ic1
  exact { h with toconv := all_sins h.toconv _ _ (SB_union (h.q c) (SB_inter _ hu)) }

theorem PB_invalidateConverters {k : Nat} (s : St) (u : IdSet) (hu : SB k u) (h : PB k s) :
    PB k (invalidateConverters s u) := by
  rw [invalidateConverters_eq]
  exact PB_foldl _ (fun s c hs => PB_ic1 u hu s c hs) _ _ h

/-! ## job starts -/

theorem PB_startTagging {k : Nat} (s : St) (choice : Option String) (h : PB k s) : PB k (startTagging s choice) := by
  rw [startTagging_eq]
  split
  · exact h
  · split
    · exact h
    · split
      · split
        · exact h
        · next n t hf =>
          have hm : (n, t) ∈ s.tags := List.mem_of_find?_eq_some hf
          exact { h with upd := SB_nil k, rst := SB_nil k, add := SB_nil k,
                         job := fun _ _ _ e => by cases e; exact h.tags _ hm }
      · next n t hp =>
        have hm : (n, t) ∈ s.tags := pickOf_mem s choice n t hp
        exact { h with upd := SB_nil k, rst := SB_nil k, add := SB_nil k,
                       job := fun _ _ _ e => by cases e; exact h.tags _ hm }

theorem PB_clr1 {k : Nat} (s : St) (x : String × IdSet) (h : PB k s) : PB k (clr1 s x) :=
  h.qset _ _ (SB_nil k)

theorem PB_add1 {k : Nat} (found : IdSet) (s : St) (x : String × IdSet) (h : PB k s) : PB k (add1 found s x) :=
  h.congr rfl rfl rfl rfl rfl rfl rfl rfl rfl

theorem PB_startConverter {k : Nat} (s : St) (h : PB k s) : PB k (startConverter s) := by
  rw [startConverter_eq]
  split
  · exact h
  · split
    · exact h
    · unfold sc2
      simp only []
      have h1 : PB k ((activeOf s).foldl clr1 s) := PB_foldl _ (fun s x hs => PB_clr1 s x hs) _ _ h
      have h2 : PB k { ((activeOf s).foldl clr1 s) with
          used := lock ((activeOf s).foldl clr1 s).used (((activeOf s).foldl clr1 s).idx.drop 0) } :=
        h1.congr rfl rfl rfl rfl rfl rfl rfl rfl rfl
      have h3 := PB_foldl _ (fun s' x hs => PB_add1
        (foundOf ((activeOf s).foldl clr1 s).files (((activeOf s).foldl clr1 s).idx.drop 0)) s' x hs)
        (activeOf s) _ h2
      refine { h3 with jconv := ?_ }
      intro sets held e p hp
      cases e
      obtain ⟨x, hx, rfl⟩ := List.mem_map.1 hp
      obtain ⟨c, req⟩ := x
      have := (mem_activeOf s c req).1 hx
      simp only []
      apply SB_inter
      apply SB_diff
      rw [this.2.1]
      exact h.q c

/-! ## tag edits -/

theorem PB_addRefBy {k : Nat} (s : St) (a b : String) (h : PB k s) : PB k (addRefBy s a b) := by
  unfold addRefBy
  split
  · next t ht => exact h.withTag _ _ (h.tagOf ht : TB k t)
  · exact h

theorem PB_delRefBy {k : Nat} (s : St) (a b : String) (h : PB k s) : PB k (delRefBy s a b) := by
  unfold delRefBy
  split
  · next t ht => exact h.withTag _ _ (h.tagOf ht : TB k t)
  · exact h

theorem PB_attachConv {k : Nat} (s : St) (n c : String) (h : PB k s) : PB k (attachConv s n c).1 := by
  unfold attachConv
  split
  · exact h
  · next t ht =>
    split
    · exact h
    · split
      · exact h
      · have h1 := h.withTag n { t with convs := t.convs ++ [c] } (h.tagOf ht : TB k t)
        exact h1.qset c _ (SB_union (h.q c) (h.tagOf ht).2)

-- CHANGED (dropped): the named piece `odF` of `outputDropped` keeps the bounds
theorem TB_odF {k all : Nat} (hk : all ≤ k) (t : Tag) (ht : TB k t) : TB k (MgrTags.odF all t) := by
  unfold MgrTags.odF
  split
  · exact ⟨SB_range hk, ht.2⟩
  · exact ht

-- CHANGED (dropped): `outputDropped` (new in the model) keeps the bounds: the new pending sets and the
-- addition to the during-job mask are `rangeSet all`, the snapshot of a started job is a table entry
theorem PB_outputDropped {k : Nat} (s : St) (choice : Option String) (h : PB k s) :
    PB k (outputDropped s choice) := by
  rw [MgrTags.outputDropped_eq]
  split
  · apply PB_startTagging
    have h1 : PB k (inherit { s with tags := s.tags.map fun p => (p.1, MgrTags.odF s.all p.2) }) :=
      PB_inherit _ (h.tags_eq _ (all_map h.tags _ (fun p hp => TB_odF h.all p.2 hp)))
    exact PB_invDuring _ _ (SB_range h.all) h1
  · exact h

-- CHANGED (dropped): `detachConv` takes the tagging choice
theorem PB_detachConv {k : Nat} (s : St) (n c : String) (choice : Option String) (h : PB k s) :
    PB k (detachConv s n c choice) := by
  unfold detachConv
  split
  · exact h
  · next t ht =>
    simp only []
    have h1 := h.withTag n { t with convs := t.convs.filter (· != c) } (h.tagOf ht : TB k t)
    have h2 := h1.qset c (inter ((sget (setTag s n { t with convs := t.convs.filter (· != c) }).toconv c).getD [])
      (List.foldl (fun acc (x : String × Tag) => if x.1 != n && x.2.convs.contains c then union acc x.2.mat else acc)
        ([] : IdSet) (setTag s n { t with convs := t.convs.filter (· != c) }).tags))
      (SB_inter _ (h1.q c))
    split
    · exact PB_outputDropped _ _ (h2.congr rfl rfl rfl rfl rfl rfl rfl rfl rfl)
    · exact h2

theorem PB_qadd1 {k : Nat} (X : IdSet) (hX : SB k X) (s : St) (c : String) (h : PB k s) : PB k (qadd1 X s c) :=
  h.qset _ _ (SB_union (h.q c) hX)

theorem SB_fresh {k : Nat} (m a : List Nat) (ha : SB k a) :
    SB k (a.foldl (fun (acc : List Nat) x => if m.contains x || acc.contains x then acc else acc ++ [x]) []) := by
  intro id hid
  rcases fresh_sub m a [] id hid with e | e
  · cases e
  · exact ha id e

theorem muAdd_PB {k : Nat} (t : Tag) (s : St) (a : List Nat) (ha : SB k a) (ht : TB k t) (h : PB k s) :
    TB k (muAdd t s a).1 ∧ PB k (muAdd t s a).2 := by
  unfold muAdd
  split
  · exact ⟨ht, h⟩
  · simp only []
    have hf := SB_fresh t.mat a ha
    generalize List.foldl (fun (acc : List Nat) x => if t.mat.contains x || acc.contains x then acc else acc ++ [x]) [] a = fresh at hf
    have e : (List.foldl (fun (s : St) c => { s with toconv := sins c (union ((sget s.toconv c).getD []) fresh) s.toconv }) s t.convs)
        = t.convs.foldl (qadd1 fresh) s := rfl
    rw [e]
    have h2 : PB k (t.convs.foldl (qadd1 fresh) s) := PB_foldl _ (fun s c hs => PB_qadd1 fresh hf s c hs) _ _ h
    split
    · exact ⟨⟨SB_union ht.1 hf, SB_union ht.2 hf⟩, h2⟩
    · exact ⟨⟨SB_union ht.1 hf, SB_union ht.2 hf⟩, h2⟩

theorem muDel_TB {k : Nat} (t : Tag) (d : List Nat) (ht : TB k t) : TB k (muDel t d) := by
  unfold muDel
  split
  · exact ht
  · simp only []
    have hg : SB k (d.filter (fun x => t.mat.contains x)) := by
      intro id hid
      have := (List.mem_filter.1 hid).2
      exact ht.2 id (by simpa using this)
    split <;> exact ⟨SB_union ht.1 hg, SB_diff _ ht.2⟩

theorem muFin_PB {k : Nat} (s : St) (name : String) (t : Tag) (u : IdSet) (ht : TB k t) (hu : SB k u) (h : PB k s) :
    PB k (muFin s name t u) := by
  unfold muFin
  simp only []
  have h1 := PB_invDuring _ t.unc ht.1 (PB_inherit _ (h.withTag name t ht))
  split
  · next t' ht' => exact h1.withTag _ _ ⟨hu, (h1.tagOf ht').2⟩
  · exact h1

theorem PB_markUpdate {k : Nat} (s : St) (name : String) (a d : List Nat) (ha : SB k a) (h : PB k s) :
    PB k (markUpdate s name a d).1 := by
  rw [markUpdate_eq]
  split
  · exact h
  · next t ht =>
    simp only []
    have h0 := muAdd_PB t s a ha (h.tagOf ht) h
    exact muFin_PB _ _ _ _ (muDel_TB _ d h0.1) (h.tagOf ht).1 h0.2

/-! ## events -/

theorem PB_tagflag {k : Nat} (s : St) (b : Bool) (h : PB k s) : PB k { s with tag := b } :=
  h.congr rfl rfl rfl rfl rfl rfl rfl rfl rfl

/-- payload bounds for `PB k` -/
def BOK (k : Nat) (s : St) : Ev → Prop
  | .tagDone _ result => ∀ id ∈ result, id < k
  | .addTag _ _ _ f => ∀ id ∈ f.ids, id < k
  | .importDone _ usednew _ upd rst add => ∀ jn held, s.jImport = some (jn, held) →
      jn + usednew ≤ k ∧ (∀ id ∈ upd, id < k) ∧ (∀ id ∈ rst, id < k) ∧ (∀ id ∈ add, id < k)
  | _ => True

theorem pb_importPcaps {k : Nat} (s : St) (st : Started) (names : List String) (h : PB k s) :
    PB k (step s (.importPcaps names) st).1 := by
  simp only [step]
  split
  · exact h
  · simp only []
    split
    · exact PB_startImport _ (h.congr rfl rfl rfl rfl rfl rfl rfl rfl rfl)
    · exact h.congr rfl rfl rfl rfl rfl rfl rfl rfl rfl

theorem pb_viewOpen {k : Nat} (s : St) (st : Started) (v : Nat) (h : PB k s) :
    PB k (step s (.viewOpen v) st).1 := by
  simp only [step]
  split
  · exact h
  · exact h.congr rfl rfl rfl rfl rfl rfl rfl rfl rfl

theorem pb_viewRelease {k : Nat} (s : St) (st : Started) (v : Nat) (h : PB k s) :
    PB k (step s (.viewRelease v) st).1 := by
  simp only [step]
  split
  · exact h
  · exact PB_release _ _ (h.congr (X := { s with views := ndel s.views v }) rfl rfl rfl rfl rfl rfl rfl rfl rfl)

theorem pb_updColor {k : Nat} (s : St) (st : Started) (name color : String) (h : PB k s) :
    PB k (step s (.updColor name color) st).1 := by
  simp only [step]
  split
  · exact h
  · next t ht =>
    simp only []
    split
    · exact h
    · exact h.withTag _ _ (h.tagOf ht : TB k t)

theorem pb_mergeDone {k : Nat} (s : St) (st : Started) (merged : List (Nat × List Nat)) (h : PB k s) :
    PB k (step s (.mergeDone merged) st).1 := by
  simp only [step]
  split
  · exact h
  · next off held hj =>
    simp only []
    apply PB_release
    apply PB_startMerge
    have h0 : PB k { s with jMerge := none } := h.congr rfl rfl rfl rfl rfl rfl rfl rfl rfl
    split
    · exact h0.congr rfl rfl rfl rfl rfl rfl rfl rfl rfl
    · have h1 := PB_release { s with jMerge := none } (List.take held.length (List.drop off s.idx)) h0
      exact h1.congr rfl rfl rfl rfl rfl rfl rfl rfl rfl

theorem PB_publish {k : Nat} (s : St) (name : String) (t : Tag) (ht : TB k t) (h : PB k s) :
    PB k (setTag (t.convs.foldl (qadd1 t.mat) s) name t) :=
  (PB_foldl _ (fun s c hs => PB_qadd1 t.mat ht.2 s c hs) _ _ h).withTag name t ht

theorem pb_tagDone {k : Nat} (s : St) (st : Started) (name : String) (result : List Nat) (h : PB k s)
    (hr : ∀ id ∈ result, id < k) :
    PB k (step s (.tagDone name result) st).1 := by
  simp only [step]
  split
  · exact h
  · next jn snap held hj =>
    split
    · exact h.congr rfl rfl rfl rfl rfl rfl rfl rfl rfl
    · simp only []
      apply PB_release
      apply PB_startMerge
      apply PB_startConverter
      apply PB_startTagging
      have h0 : PB k { s with jTag := none } := { h with job := fun _ _ _ e => by cases e }
      have hsnap := h.job jn snap held hj
      refine PB_tagflag _ false ?_
      split
      · next ot hot =>
        split
        · have hp := PB_publish { s with jTag := none } name
            { snap with mat := union (diff snap.mat snap.unc) (ofList result), unc := [], color := ot.color, convs := ot.convs, refBy := ot.refBy }
            ⟨SB_nil k, SB_union (SB_diff _ hsnap.2) (SB_ofList hr)⟩ h0
          split
          · exact hp
          · exact PB_invalidateTags _ _ _ _ hp.upd hp.rst hp.add hp
        · exact h0
      · exact h0

theorem PB_foldl_mem {k : Nat} {β} (f : St → β → St) (l : List β) (hf : ∀ s x, x ∈ l → PB k s → PB k (f s x)) (s : St)
    (h : PB k s) : PB k (l.foldl f s) := by
  induction l generalizing s with
  | nil => exact h
  | cons a r ih => exact ih (fun s x hx => hf s x (List.mem_cons_of_mem _ hx)) _ (hf s a List.mem_cons_self h)

theorem pb_convertDone {k : Nat} (s : St) (st : Started) (h : PB k s) :
    PB k (step s .convertDone st).1 := by
  simp only [step]
  split
  · exact h
  · next sets held hj =>
    simp only []
    apply PB_release
    apply PB_startConverter
    apply PB_startTagging
    apply PB_inherit
    have hs := h.jconv sets held hj
    have h0 : PB k { s with convert := false, jConv := none } :=
      { h with jconv := fun _ _ e => by cases e }
    refine PB_foldl_mem _ _ ?_ _ h0
    intro s' x hx hs'
    split
    · exact hs'
    · refine { hs' with upd := SB_union hs'.upd (hs x hx), tags := all_map hs'.tags _ ?_ }
      intro p hp
      split
      · split
        · exact hp
        · exact ⟨SB_range hs'.all, hp.2⟩
      · split
        · exact hp
        · exact ⟨SB_union hp.1 (hs x hx), hp.2⟩

theorem pb_markAdd {k : Nat} (s : St) (st : Started) (name : String) (ids : List Nat) (h : PB k s) :
    PB k (step s (.markAdd name ids) st).1 := by
  simp only [step]
  split
  · exact h
  · split
    · exact h
    · split
      · exact h
      · split
        · exact h
        · next hlt =>
          simp only []
          apply PB_startConverter
          apply PB_startTagging
          refine PB_markUpdate _ _ _ _ ?_ h
          intro id hid
          have := le_foldl_max ids 0 id (Or.inl hid)
          have := h.next
          omega

theorem pb_markDel {k : Nat} (s : St) (st : Started) (name : String) (ids : List Nat) (h : PB k s) :
    PB k (step s (.markDel name ids) st).1 := by
  simp only [step]
  split
  · exact h
  · split
    · exact h
    · split
      · exact h
      · split
        · exact h
        · simp only []
          apply PB_startConverter
          apply PB_startTagging
          exact PB_markUpdate _ _ _ _ (SB_nil k) h

theorem pb_delTag {k : Nat} (s : St) (st : Started) (name : String) (h : PB k s) :
    PB k (step s (.delTag name) st).1 := by
  simp only [step]
  split
  · exact h
  · next t ht =>
    split
    · exact h
    · simp only []
      refine PB_foldl _ (fun s r hs => PB_delRefBy s r name hs) _ _ ?_
      have h1 : PB k (t.convs.foldl (fun s c => detachConv s name c st.tag) s) :=
        PB_foldl _ (fun s c hs => PB_detachConv s name c st.tag hs) _ _ h
      exact h1.tags_eq _ (fun p hp => h1.tags p (List.mem_filter.1 hp).1)

theorem pb_addTag {k : Nat} (s : St) (st : Started) (name color defn : String) (f : Facts) (h : PB k s)
    (hf : ∀ id ∈ f.ids, id < k) :
    PB k (step s (.addTag name color defn f) st).1 := by
  simp only [step]
  rcases parseTagName name with ⟨typ, sub, isMark⟩
  simp only []
  split
  · exact h
  · split
    · exact h
    · split
      · exact h
      · split
        · exact h
        · split
          · exact h
          · split
            · exact h
            · simp only []
              refine PB_foldl _ (fun s r hs => PB_addRefBy s r name hs) _ _ ?_
              have h' : PB k { s with ngen := s.ngen + 1 } := h.congr rfl rfl rfl rfl rfl rfl rfl rfl rfl
              cases isMark
              · simp only [Bool.false_eq_true, if_false]
                apply PB_startTagging
                exact h'.withTag _ _ ⟨SB_range h.all, SB_nil k⟩
              · simp only [if_true]
                exact h'.withTag _ _ ⟨SB_nil k, SB_ofList hf⟩

theorem pb_updQuery {k : Nat} (s : St) (st : Started) (name defn : String) (f : Facts) (h : PB k s) :
    PB k (step s (.updQuery name defn f) st).1 := by
  simp only [step]
  split
  · exact h
  · split
    · exact h
    · split
      · exact h
      · split
        · exact h
        · next t ht =>
          split
          · exact h
          · split
            · exact h
            · split
              · exact h
              · simp only []
                apply PB_startConverter
                apply PB_startTagging
                suffices hX : PB k (inherit (setTag _ name _)) from PB_invDuring _ _ (SB_range hX.all) hX
                apply PB_inherit
                refine PB.withTag ?_ _ _ ⟨SB_range h.all, SB_nil k⟩
                refine PB_foldl _ (fun s r hs => PB_addRefBy s r name hs) _ _ ?_
                exact PB_foldl _ (fun s r hs => PB_delRefBy s r name hs) _ _ h

theorem pb_updName {k : Nat} (s : St) (st : Started) (name new : String) (h : PB k s) :
    PB k (step s (.updName name new) st).1 := by
  simp only [step]
  split
  · exact h
  · next t ht =>
    split
    · exact h
    · rcases parseTagName name with ⟨oldTyp, x1, x2⟩
      rcases parseTagName new with ⟨newTyp, newSub, x3⟩
      simp only []
      split
      · exact h
      · split
        · exact h
        · split
          · exact h
          · split
            · exact h
            · simp only []
              refine PB_foldl _ (fun s r hs => PB_addRefBy _ r new (PB_delRefBy s r name hs)) _ _ ?_
              exact h.tags_eq _ (all_sins (fun p hp => h.tags p (List.mem_filter.1 hp).1) new t (h.tagOf ht))

theorem pb_updConv {k : Nat} (s : St) (st : Started) (name : String) (convs : List String) (h : PB k s) :
    PB k (step s (.updConv name convs) st).1 := by
  simp only [step]
  split
  · exact h
  · next t ht =>
    split
    · exact h
    · simp only []
      apply PB_startConverter
      refine PB_foldl _ (fun s c hs => PB_attachConv s name c hs) _ _ ?_
      exact PB_foldl _ (fun s c hs => PB_detachConv s name c st.tag hs) _ _ h

theorem pb_importDone {k : Nat} (s : St) (st : Started) (processed usednew : Nat)
    (created : List (Nat × List Nat)) (upd rst add : List Nat) (h : PB k s)
    (hjn : ∀ jn held, s.jImport = some (jn, held) →
      jn + usednew ≤ k ∧ (∀ id ∈ upd, id < k) ∧ (∀ id ∈ rst, id < k) ∧ (∀ id ∈ add, id < k)) :
    PB k (step s (.importDone processed usednew created upd rst add) st).1 := by
  rw [step_importDone_eq]
  split
  · exact h
  · next jn held hj =>
    simp only []
    obtain ⟨hle, hu, hr, ha⟩ := hjn jn held hj
    have hA : PB k (impA s jn held usednew) := by
      unfold impA
      apply PB_release
      exact { h with all := hle }
    have hB : PB k (impB (impA s jn held usednew) jn usednew created (ofList upd) (ofList rst) (ofList add)) := by
      unfold impB
      split
      · exact hA
      · simp only []
        apply PB_invalidateConverters _ _ (SB_ofList hr)
        apply PB_invalidateConverters _ _ (SB_ofList hu)
        apply PB_invalidateTags _ _ _ _ (SB_ofList hu) (SB_ofList hr) (SB_ofList ha)
        exact { hA with next := hle, upd := SB_union hA.upd (SB_ofList hu), rst := SB_union hA.rst (SB_ofList hr),
                        add := SB_union hA.add (SB_ofList ha) }
    have hC : PB k (impC (impB (impA s jn held usednew) jn usednew created (ofList upd) (ofList rst) (ofList add)) processed) := by
      unfold impC
      simp only []
      split
      · exact hB.congr rfl rfl rfl rfl rfl rfl rfl rfl rfl
      · exact PB_startImport _ (hB.congr rfl rfl rfl rfl rfl rfl rfl rfl rfl)
    unfold impD
    exact PB_startMerge _ (PB_startConverter _ (PB_startTagging _ _ hC))

theorem pb_step {k : Nat} (s : St) (e : Ev) (st : Started) (h : PB k s) (hok : BOK k s e) : PB k (step s e st).1 := by
  cases e with
  | nop => exact h
  | importPcaps names => exact pb_importPcaps s st names h
  | importDone processed usednew created upd rst add =>
    exact pb_importDone s st processed usednew created upd rst add h hok
  | tagDone name result => exact pb_tagDone s st name result h hok
  | mergeDone merged => exact pb_mergeDone s st merged h
  | convertDone => exact pb_convertDone s st h
  | addTag name color defn f => exact pb_addTag s st name color defn f h hok
  | updQuery name defn f => exact pb_updQuery s st name defn f h
  | updColor name color => exact pb_updColor s st name color h
  | updName name new => exact pb_updName s st name new h
  | updConv name convs => exact pb_updConv s st name convs h
  | markAdd name ids => exact pb_markAdd s st name ids h
  | markDel name ids => exact pb_markDel s st name ids h
  | delTag name => exact pb_delTag s st name h
  | viewOpen v => exact pb_viewOpen s st v h
  | viewRelease v => exact pb_viewRelease s st v h

end Pk.Proofs.MgrReach
