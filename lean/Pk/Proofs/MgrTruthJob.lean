/- Helper lemmas for C06Reach: the record of the tagging job in flight and the during-job masks. -/
import Pk.Proofs.MgrTagsStep
namespace Pk.Proofs.MgrTruth
open Pk.Mgr Pk.Proofs.MgrTags

theorem foldl_proj {β γ : Type _} {g : St → γ} {f : St → β → St} {l : List β} {X : St} {v : γ}
    (h : ∀ s x, g (f s x) = g s) (h0 : g X = v) : g (l.foldl f X) = v := by
  induction l generalizing X with
  | nil => exact h0
  | cons a l ih => simp only [List.foldl_cons]; exact ih (by rw [h]; exact h0)

/-- proves `g (helper s …) = g s` after the helper has been unfolded -/
syntax "jframe" : tactic
macro_rules | `(tactic| jframe) => `(tactic|
  first
  | rfl
  | (refine foldl_proj ?_ ?_
     · intro _ _; jframe
     · jframe)
  | (dsimp only [getIndexesCopy] ; jframe)
  | (split <;> jframe))

/-- the record of the tagging job in flight, the flag and the during-job masks -/
def jp (s : St) : Option (String × Tag × List Nat) × Bool × IdSet × IdSet × IdSet :=
  (s.jTag, s.tag, s.upd, s.rst, s.add)

theorem release_jp (s : St) (fs : List Nat) : jp (release s fs) = jp s := by unfold release; jframe
theorem getIndexesCopy_jp (s : St) (n : Nat) : jp (getIndexesCopy s n).1 = jp s := rfl
theorem startImport_jp (s : St) : jp (startImport s) = jp s := rfl
theorem startMerge_jp (s : St) : jp (startMerge s) = jp s := by unfold startMerge; jframe
theorem jp_eq {s s' : St} (h1 : s'.jTag = s.jTag) (h2 : s'.tag = s.tag) (h3 : s'.upd = s.upd) (h4 : s'.rst = s.rst)
    (h5 : s'.add = s.add) : jp s' = jp s := by unfold jp; rw [h1, h2, h3, h4, h5]
theorem startConverter_jp (s : St) : jp (startConverter s) = jp s := by
  apply jp_eq <;> (unfold startConverter; jframe)
theorem inherit_jp (s : St) : jp (inherit s) = jp s := rfl
theorem invalidateTags_jp (s : St) (a b c : IdSet) : jp (invalidateTags s a b c) = jp s := rfl
theorem invalidateConverters_jp (s : St) (u : IdSet) : jp (invalidateConverters s u) = jp s := by
  unfold invalidateConverters; jframe
theorem setTag_jp (s : St) (n : String) (t : Tag) : jp (setTag s n t) = jp s := rfl
theorem addRefBy_jp (s : St) (a b : String) : jp (addRefBy s a b) = jp s := by unfold addRefBy; jframe
theorem delRefBy_jp (s : St) (a b : String) : jp (delRefBy s a b) = jp s := by unfold delRefBy; jframe
theorem attachConv_jp (s : St) (n c : String) : jp (attachConv s n c).1 = jp s := by unfold attachConv; jframe
theorem detachConv_jp (s : St) (n c : String) : jp (detachConv s n c) = jp s := by unfold detachConv; jframe
theorem qConv_jp (s : St) (cs : List String) (ids : IdSet) : jp (qConv s cs ids) = jp s := by unfold qConv; jframe
theorem muAdd_jp (t : Tag) (s : St) (a : List Nat) : jp (muAdd t s a).2 = jp s := by unfold muAdd; jframe
theorem muFin_jp (s : St) (n : String) (u : IdSet) : jp (muFin s n u) = jp s := by unfold muFin; jframe
theorem mdApply_jp (s : St) (off : Nat) (held : List Nat) (m : List (Nat × List Nat)) :
    jp (mdApply s off held m) = jp s := by
  apply jp_eq <;> (unfold mdApply; jframe)
theorem tdInval_jp (s : St) : jp (tdInval s) = jp s := by unfold tdInval; jframe
theorem tdPublish_jp (s : St) (n : String) (snap : Tag) (r : IdSet) : jp (tdPublish s n snap r) = jp s := by
  unfold tdPublish
  split
  · split
    · rw [tdInval_jp, setTag_jp, qConv_jp]
    · rfl
  · rfl

theorem mem_sget_sorted {α} (l : List (String × α)) (hw : Sorted l)
    (k : String) (v : α) (h : (k, v) ∈ l) : sget l k = some v := by
  unfold Sorted at hw
  induction l with
  | nil => simp at h
  | cons a r ih =>
    obtain ⟨k2, v2⟩ := a
    simp only [List.map_cons, List.pairwise_cons] at hw
    rw [sget_cons]
    rcases List.mem_cons.1 h with e | e
    · cases e; simp
    · have : k2 < k := hw.1 k (List.mem_map.2 ⟨(k, v), e, rfl⟩)
      have hne : ¬ k2 = k := fun e => by subst e; exact absurd this (String.lt_irrefl _)
      rw [if_neg hne]; exact ih hw.2 e

theorem startTagging_id (s : St) (c : Option String) (h : s.tag = true) : startTagging s c = s := by
  unfold startTagging; simp [h]

theorem startTagging_job (s : St) (c : Option String) (hw : Sorted s.tags) (ht : s.tag = false)
    (hn : s.jTag = none) (jn : String) (snap : Tag) (held : List Nat) :
    (startTagging s c).jTag = some (jn, snap, held) →
    sget s.tags jn = some snap ∧ (startTagging s c).upd = [] ∧ (startTagging s c).rst = [] ∧
      (startTagging s c).add = [] := by
  unfold startTagging
  split
  · rename_i h; rw [ht] at h; cases h
  · split
    · intro h; rw [hn] at h; cases h
    · simp only []
      split
      · split
        · intro h; rw [hn] at h; cases h
        · rename_i n t hf
          intro h
          simp only [Option.some.injEq, Prod.mk.injEq] at h
          obtain ⟨rfl, rfl, _⟩ := h
          exact ⟨mem_sget_sorted _ hw _ _ (List.mem_of_find?_eq_some hf), rfl, rfl, rfl⟩
      · rename_i n t hp
        intro h
        simp only [Option.some.injEq, Prod.mk.injEq] at h
        obtain ⟨rfl, rfl, _⟩ := h
        refine ⟨?_, rfl, rfl, rfl⟩
        split at hp
        · split at hp
          · rename_i hg
            split at hp
            · cases hp; exact hg
            · cases hp
          · cases hp
        · cases hp

/-! ## the job record is kept, the masks grow -/

structure JK (s s' : St) : Prop where
  jTag : s'.jTag = s.jTag
  tag : s'.tag = s.tag
  upd : ∀ id, id ∈ s.upd → id ∈ s'.upd
  rst : ∀ id, id ∈ s.rst → id ∈ s'.rst
  add : ∀ id, id ∈ s.add → id ∈ s'.add

theorem JK.refl (s : St) : JK s s := ⟨rfl, rfl, fun _ h => h, fun _ h => h, fun _ h => h⟩
theorem JK.trans {a b c : St} (h1 : JK a b) (h2 : JK b c) : JK a c :=
  ⟨h2.jTag.trans h1.jTag, h2.tag.trans h1.tag, fun id h => h2.upd id (h1.upd id h),
   fun id h => h2.rst id (h1.rst id h), fun id h => h2.add id (h1.add id h)⟩
theorem JK.of_jp {s s' : St} (h : jp s' = jp s) : JK s s' := by
  simp only [jp, Prod.mk.injEq] at h
  obtain ⟨h1, h2, h3, h4, h5⟩ := h
  exact ⟨h1, h2, fun _ h => h3 ▸ h, fun _ h => h4 ▸ h, fun _ h => h5 ▸ h⟩
theorem foldl_jk {β} (f : St → β → St) (h : ∀ s b, JK s (f s b)) (l : List β) (s : St) :
    JK s (l.foldl f s) :=
  foldl_inv (fun s' => JK s s') f (fun a b ha => ha.trans (h a b)) l s (JK.refl s)
theorem foldl_jp {β} (f : St → β → St) (h : ∀ s b, jp (f s b) = jp s) (l : List β) (s : St) :
    jp (l.foldl f s) = jp s :=
  foldl_proj h rfl

theorem invalidatedDuring_jk (s : St) (ids : IdSet) : JK s (invalidatedDuringTaggingJob s ids) := by
  unfold invalidatedDuringTaggingJob
  split
  · exact ⟨rfl, rfl, fun _ h => h, fun id h => by simp [h], fun _ h => h⟩
  · exact JK.refl _

theorem idCreated_jk (s : St) (n : Nat) (c : List (Nat × List Nat)) (u r a : IdSet) :
    JK s (idCreated s n c u r a) :=
  ⟨rfl, rfl, fun id h => by simp [idCreated, h], fun id h => by simp [idCreated, h],
    fun id h => by simp [idCreated, h]⟩

theorem idApply_jk (s : St) (n : Nat) (c : List (Nat × List Nat)) (u r a : IdSet) :
    JK s (idApply s n c u r a) := by
  unfold idApply
  split
  · exact JK.refl _
  · refine (idCreated_jk s n c u r a).trans (JK.of_jp ?_)
    rw [invalidateConverters_jp, invalidateConverters_jp, invalidateTags_jp]

theorem idQueue_jp (s : St) : jp (idQueue s) = jp s := by unfold idQueue; split <;> rfl

theorem cdMark_jk (s : St) (p : String × IdSet) : JK s (cdMark s p) := by
  unfold cdMark
  split
  · exact JK.refl _
  · exact ⟨rfl, rfl, fun id h => by simp [h], fun _ h => h, fun _ h => h⟩

theorem markUpdate_jk (s : St) (name : String) (a d : List Nat) : JK s (markUpdate s name a d).1 := by
  rw [markUpdate_eq]
  split
  · exact JK.refl _
  · refine JK.trans ?_ (JK.of_jp (muFin_jp _ _ _))
    refine JK.trans ?_ (invalidatedDuring_jk _ _)
    refine JK.of_jp ?_
    rw [inherit_jp, setTag_jp, muAdd_jp]

theorem uqRefs_jp (s : St) (name : String) (b a : List String) : jp (uqRefs s name b a) = jp s := by
  unfold uqRefs
  rw [foldl_jp _ (fun s r => addRefBy_jp s r name), foldl_jp _ (fun s r => delRefBy_jp s r name)]

/-- the state in which `updQuery` calls `startTagging` -/
theorem uqPre_jk (s : St) (name : String) (b a : List String) (nt : Tag) :
    JK s (uqInv (inherit (setTag (uqRefs s name b a) name nt))) := by
  unfold uqInv
  refine JK.trans (JK.of_jp ?_) (invalidatedDuring_jk _ _)
  rw [inherit_jp, setTag_jp, uqRefs_jp]

/-! ## after the start of a job -/

def Core (t t' : Tag) : Prop :=  -- CHANGED (gen)
  t'.mat = t.mat ∧ t'.unc = t.unc ∧ t'.defn = t.defn ∧ t'.mfeat = t.mfeat ∧ t'.sfeat = t.sfeat ∧
  t'.mainT = t.mainT ∧ t'.subT = t.subT ∧ t'.gen = t.gen

structure Post (s s' : St) : Prop where
  jp : jp s' = jp s
  tags : ∀ n t, sget s.tags n = some t → ∃ t', sget s'.tags n = some t' ∧ Core t t'

theorem Core.refl (t : Tag) : Core t t := ⟨rfl, rfl, rfl, rfl, rfl, rfl, rfl, rfl⟩
theorem Core.trans {a b c : Tag} (h1 : Core a b) (h2 : Core b c) : Core a c := by
  obtain ⟨a1, a2, a3, a4, a5, a6, a7, a8⟩ := h1
  obtain ⟨b1, b2, b3, b4, b5, b6, b7, b8⟩ := h2
  exact ⟨b1.trans a1, b2.trans a2, b3.trans a3, b4.trans a4, b5.trans a5, b6.trans a6, b7.trans a7,
    b8.trans a8⟩
theorem Post.refl (s : St) : Post s s := ⟨rfl, fun _ t h => ⟨t, h, Core.refl t⟩⟩
theorem Post.trans {a b c : St} (h1 : Post a b) (h2 : Post b c) : Post a c :=
  ⟨h2.jp.trans h1.jp, fun n t h => by
    obtain ⟨t1, e1, c1⟩ := h1.tags n t h
    obtain ⟨t2, e2, c2⟩ := h2.tags n t1 e1
    exact ⟨t2, e2, c1.trans c2⟩⟩
theorem Post.of_same {s s' : St} (h : Same s s') (hj : MgrTruth.jp s' = MgrTruth.jp s) : Post s s' :=
  ⟨hj, fun n t ht => ⟨t, by rw [h.1]; exact ht, Core.refl t⟩⟩
theorem Post.jk {s s' : St} (h : Post s s') : JK s s' := JK.of_jp h.jp
theorem foldl_post {β} (f : St → β → St) (h : ∀ s b, Post s (f s b)) (l : List β) (s : St) :
    Post s (l.foldl f s) :=
  foldl_inv (fun s' => Post s s') f (fun a b ha => ha.trans (h a b)) l s (Post.refl s)

theorem addRefBy_post (s : St) (a b : String) : Post s (addRefBy s a b) := by
  refine ⟨addRefBy_jp s a b, ?_⟩
  unfold addRefBy
  split
  · rename_i t ht
    intro n t0 h0
    simp only [setTag, sget_sins]
    by_cases e : a = n
    · subst e
      rw [ht] at h0; cases h0
      exact ⟨_, if_pos rfl, ⟨rfl, rfl, rfl, rfl, rfl, rfl, rfl, rfl⟩⟩
    · exact ⟨t0, by rw [if_neg e]; exact h0, Core.refl _⟩
  · exact fun n t h => ⟨t, h, Core.refl t⟩

theorem jobTail_post (s : St) : Post s (startMerge (startConverter s)) :=
  Post.of_same ((startConverter_same _).trans (startMerge_same _)) (by rw [startMerge_jp, startConverter_jp])
theorem release_post (s : St) (fs : List Nat) : Post s (release s fs) :=
  Post.of_same (release_same _ _) (release_jp _ _)
theorem startConverter_post (s : St) : Post s (startConverter s) :=
  Post.of_same (startConverter_same _) (startConverter_jp _)

/-- a job found in flight after `startTagging` and the helpers that follow it -/
theorem started_of (X fin : St) (c : Option String) (hw : Sorted X.tags) (hj : X.jTag = none)
    (ht : X.tag = false) (hp : Post (startTagging X c) fin) (jn : String) (snap : Tag) (held : List Nat)
    (h : fin.jTag = some (jn, snap, held)) :
    ∃ ot, sget fin.tags jn = some ot ∧ ot.mat = snap.mat ∧ ot.unc = snap.unc ∧
      ot.defn = snap.defn ∧ ot.mfeat = snap.mfeat ∧ ot.sfeat = snap.sfeat ∧ ot.mainT = snap.mainT ∧
      ot.subT = snap.subT ∧ fin.upd = [] ∧ fin.rst = [] ∧ fin.add = [] ∧
      ot.gen = snap.gen := by  -- CHANGED (gen)
  have hjp := hp.jp
  simp only [jp, Prod.mk.injEq] at hjp
  obtain ⟨e1, _, e3, e4, e5⟩ := hjp
  rw [e1] at h
  obtain ⟨g, u1, u2, u3⟩ := startTagging_job X c hw ht hj jn snap held h
  rw [← (startTagging_same X c).1] at g
  obtain ⟨ot, h1, c1, c2, c3, c4, c5, c6, c7, c8⟩ := hp.tags jn snap g
  exact ⟨ot, h1, c1, c2, c3, c4, c5, c6, c7, e3.trans u1, e4.trans u2, e5.trans u3, c8⟩

/-! ## `step`, event by event -/

/-- what an event other than a tagging completion does to the job record: either it is kept (and the
    masks grow), or it is kept up to a call of `startTagging`, after which only helpers run that keep it -/
inductive Dec (s : St) (c : Option String) (fin : St) : Prop
  | plain (h : JK s fin)
  | tagging (X : St) (h1 : JK s X) (h2 : Sorted s.tags → Sorted X.tags) (h3 : Post (startTagging X c) fin)

theorem step_importDone_dec (s : St) (processed usednew : Nat) (created : List (Nat × List Nat))
    (upd rst add : List Nat) (st : Started) :
    Dec s st.tag (step s (.importDone processed usednew created upd rst add) st).1 := by
  cases hj : s.jImport with
  | none => rw [step_importDone_none _ _ _ _ _ _ _ _ hj]; exact .plain (JK.refl _)
  | some p =>
    obtain ⟨jnext, held⟩ := p
    have hs := fun hw => (step_frame s (.importDone processed usednew created upd rst add) st).1 hw
    rw [step_importDone_eq, hj] at hs ⊢
    simp only [] at hs ⊢
    refine .tagging _ ?_ (fun hw => ?_) (jobTail_post _)
    · refine JK.trans ?_ (JK.of_jp (idQueue_jp _))
      refine JK.trans (b := idApply (release { s with all := jnext + usednew, jImport := none } held)
            (jnext + usednew) created (ofList upd) (ofList rst) (ofList add)) ?_ (JK.of_jp rfl)
      refine JK.trans ?_ (idApply_jk _ _ _ _ _ _)
      exact JK.trans (b := { s with all := jnext + usednew, jImport := none }) (JK.of_jp rfl)
        (JK.of_jp (release_jp _ _))
    · have := hs hw
      rw [(jobTail_same _ st).1] at this
      exact this

theorem step_convertDone_dec (s : St) (st : Started) : Dec s st.tag (step s .convertDone st).1 := by
  rw [step_convertDone_eq]
  split
  · exact .plain (JK.refl _)
  · rename_i sets held _
    refine .tagging (inherit (sets.foldl cdMark { s with convert := false, jConv := none })) ?_ ?_
      ((startConverter_post _).trans (release_post _ _))
    · refine JK.trans ?_ (JK.of_jp (inherit_jp _))
      exact JK.trans (b := { s with convert := false, jConv := none }) (JK.of_jp rfl) (foldl_jk _ cdMark_jk _ _)
    · refine Fr.sorted (N := NT) ?_
      refine Fr.trans ?_ (inherit_fr _)
      exact Fr.trans (b := { s with convert := false, jConv := none }) (Fr.of_same ⟨rfl, rfl, rfl⟩)
        (foldl_fr cdMark cdMark_fr _ _)

theorem step_mergeDone_dec (s : St) (merged : List (Nat × List Nat)) (st : Started) :
    Dec s st.tag (step s (.mergeDone merged) st).1 := by
  rw [step_mergeDone_eq]
  split
  · exact .plain (JK.refl _)
  · rename_i off held _
    refine .plain (JK.of_jp ?_)
    rw [release_jp, startMerge_jp]
    exact (mdApply_jp { s with jMerge := none } off held merged)

theorem step_addTag_dec (s : St) (name color defn : String) (f : Facts) (st : Started) :
    Dec s st.tag (step s (.addTag name color defn f) st).1 := by
  rw [step_addTag_eq]
  repeat' split
  all_goals first | exact .plain (JK.refl _) | skip
  rw [atPair_fst]
  unfold atFinish
  split
  · refine .plain (JK.of_jp ?_)
    rw [foldl_jp _ (fun s r => addRefBy_jp s r name), setTag_jp]
    rfl
  · exact .tagging (setTag { s with ngen := s.ngen + 1 } name _) (JK.of_jp rfl) (sorted_sins _ _ _)
      (foldl_post _ (fun s r => addRefBy_post s r name) _ _)

theorem step_updQuery_dec (s : St) (name defn : String) (f : Facts) (st : Started) :
    Dec s st.tag (step s (.updQuery name defn f) st).1 := by
  rw [step_updQuery_eq]
  repeat' split
  all_goals first | exact .plain (JK.refl _) | skip
  unfold uqApply
  refine .tagging _ (uqPre_jk _ _ _ _ _) ?_ (startConverter_post _)
  refine Fr.sorted (N := (· ≠ name)) ?_
  unfold uqInv uqRefs
  refine Fr.trans ?_ (Fr.of_same (invalidatedDuring_same _ _))
  refine Fr.trans ?_ ((inherit_fr _).mono fun _ _ => trivial)
  refine Fr.trans ?_ (setTag_fr_ne _ _ _)
  refine Fr.trans ?_ (foldl_fr _ (fun s r => (addRefBy_fr s r name).mono fun _ _ => trivial) _ _)
  exact foldl_fr _ (fun s r => (delRefBy_fr s r name).mono fun _ _ => trivial) _ _

theorem step_updName_dec (s : St) (name new : String) (st : Started) :
    Dec s st.tag (step s (.updName name new) st).1 := by
  rw [step_updName_eq]
  repeat' split
  all_goals first | exact .plain (JK.refl _) | skip
  refine .plain (JK.of_jp ?_)
  unfold unApply
  rw [foldl_jp _ (fun s r => (addRefBy_jp _ r new).trans (delRefBy_jp s r name))]
  rfl

theorem step_updConv_dec (s : St) (name : String) (convs : List String) (st : Started) :
    Dec s st.tag (step s (.updConv name convs) st).1 := by
  rw [step_updConv_eq]
  repeat' split
  all_goals first | exact .plain (JK.refl _) | skip
  refine .plain (JK.of_jp ?_)
  unfold ucAttach ucDetach
  rw [startConverter_jp, foldl_jp _ (fun s c => attachConv_jp s name c),
    foldl_jp _ (fun s c => detachConv_jp s name c)]

theorem markTail_dec (s : St) (name : String) (a d : List Nat) (st : Started) :
    Dec s st.tag (markTail (markUpdate s name a d) st).1 :=
  .tagging _ (markUpdate_jk s name a d) (markUpdate_fr s name a d).sorted (startConverter_post _)

theorem step_markAdd_dec (s : St) (name : String) (ids : List Nat) (st : Started) :
    Dec s st.tag (step s (.markAdd name ids) st).1 := by
  rw [step_markAdd_eq]
  repeat' split
  all_goals first | exact .plain (JK.refl _) | skip
  exact markTail_dec _ _ _ _ _

theorem step_markDel_dec (s : St) (name : String) (ids : List Nat) (st : Started) :
    Dec s st.tag (step s (.markDel name ids) st).1 := by
  rw [step_markDel_eq]
  repeat' split
  all_goals first | exact .plain (JK.refl _) | skip
  exact markTail_dec _ _ _ _ _

theorem step_delTag_dec (s : St) (name : String) (st : Started) :
    Dec s st.tag (step s (.delTag name) st).1 := by
  rw [step_delTag_eq]
  repeat' split
  all_goals first | exact .plain (JK.refl _) | skip
  refine .plain (JK.of_jp ?_)
  unfold dtApply
  rw [foldl_jp _ (fun s r => delRefBy_jp s r name)]
  exact foldl_jp _ (fun s c => detachConv_jp s name c) _ _

theorem step_dec (s : St) (e : Ev) (st : Started) (hne : ∀ n r, e ≠ .tagDone n r) :
    Dec s st.tag (step s e st).1 := by
  cases e with
  | nop => exact .plain (JK.refl _)
  | importPcaps names =>
    unfold step
    simp only []
    split
    · exact .plain (JK.refl _)
    · split <;> exact .plain (JK.of_jp rfl)
  | importDone processed usednew created upd rst add => exact step_importDone_dec _ _ _ _ _ _ _ _
  | tagDone name result => exact absurd rfl (hne _ _)
  | mergeDone merged => exact step_mergeDone_dec _ _ _
  | convertDone => exact step_convertDone_dec _ _
  | addTag name color defn f => exact step_addTag_dec _ _ _ _ _ _
  | updQuery name defn f => exact step_updQuery_dec _ _ _ _ _
  | updColor name color =>
    unfold step
    simp only []
    split
    · exact .plain (JK.refl _)
    · split <;> exact .plain (JK.of_jp rfl)
  | updName name new => exact step_updName_dec _ _ _ _
  | updConv name convs => exact step_updConv_dec _ _ _ _
  | markAdd name ids => exact step_markAdd_dec _ _ _ _
  | markDel name ids => exact step_markDel_dec _ _ _ _
  | delTag name => exact step_delTag_dec _ _ _
  | viewOpen k =>
    unfold step
    simp only []
    split
    · exact .plain (JK.refl _)
    · exact .plain (JK.of_jp rfl)
  | viewRelease k =>
    unfold step
    simp only []
    split
    · exact .plain (JK.refl _)
    · exact .plain (JK.of_jp ((release_jp _ _).trans rfl))

/-! ## the two theorems -/

/-- while a tagging job is in flight, no event except a tagging completion touches the job record or the
    flag, and the during-job masks only grow -/
theorem job_stable (s : St) (e : Ev) (st : Started) (j : String × Tag × List Nat)
    (hj : s.jTag = some j) (ht : s.tag = true) (hne : ∀ n r, e ≠ .tagDone n r) :
    (step s e st).1.jTag = some j ∧ (step s e st).1.tag = true ∧
    (∀ id, id ∈ s.upd → id ∈ (step s e st).1.upd) ∧ (∀ id, id ∈ s.rst → id ∈ (step s e st).1.rst) ∧
    (∀ id, id ∈ s.add → id ∈ (step s e st).1.add) := by
  have key : JK s (step s e st).1 := by
    cases step_dec s e st hne with
    | plain h => exact h
    | tagging X h1 _ h3 =>
      rw [startTagging_id X st.tag (h1.tag.trans ht)] at h3
      exact h1.trans h3.jk
  exact ⟨key.jTag.trans hj, key.tag.trans ht, key.upd, key.rst, key.add⟩

theorem tagDone_started (s : St) (n : String) (r : List Nat) (st : Started) (jn : String) (snap : Tag)
    (held : List Nat) (hw : Sorted s.tags)
    (hev : ∀ jn' snap' held', s.jTag = some (jn', snap', held') → jn' = n)
    (hj' : (step s (.tagDone n r) st).1.jTag = some (jn, snap, held)) :
    ∃ ot, sget (step s (.tagDone n r) st).1.tags jn = some ot ∧ ot.mat = snap.mat ∧ ot.unc = snap.unc ∧
      ot.defn = snap.defn ∧ ot.mfeat = snap.mfeat ∧ ot.sfeat = snap.sfeat ∧ ot.mainT = snap.mainT ∧
      ot.subT = snap.subT ∧
      (step s (.tagDone n r) st).1.upd = [] ∧ (step s (.tagDone n r) st).1.rst = [] ∧
      (step s (.tagDone n r) st).1.add = [] ∧ ot.gen = snap.gen := by  -- CHANGED (gen)
  cases hq : s.jTag with
  | none =>
    rw [step_tagDone_eq, hq] at hj'
    simp only [] at hj'
    rw [hq] at hj'; cases hj'
  | some p =>
    obtain ⟨jn', snap', held'⟩ := p
    have := hev _ _ _ hq
    subst this
    rw [step_tagDone_eq, hq] at hj' ⊢
    simp only [bne_self_eq_false, Bool.false_eq_true, if_false] at hj' ⊢
    refine started_of { tdPublish { s with jTag := none } jn' snap' (ofList r) with tag := false } _ st.tag
      ?_ ?_ rfl ((jobTail_post _).trans (release_post _ _)) jn snap held hj'
    · exact (tdPublish_fr { s with jTag := none } jn' snap' (ofList r)).sorted hw
    · exact (JK.of_jp (tdPublish_jp { s with jTag := none } jn' snap' (ofList r))).jTag

/-- a tagging job that is in flight after an event during which no job was in flight before, or after a
    tagging completion, was started at the end of that event: its snapshot is the tag of the table
    (up to `refBy`, which `addTag` may still extend), and the during-job masks are empty -/
theorem job_started (s : St) (e : Ev) (st : Started) (jn : String) (snap : Tag) (held : List Nat)
    (hw : Sorted s.tags)
    (hjw : s.tag = true ↔ s.jTag.isSome = true)
    (hev : ∀ n r, e = .tagDone n r → ∀ jn' snap' held', s.jTag = some (jn', snap', held') → jn' = n)
    (h : s.tag = false ∨ ∃ n r, e = .tagDone n r)
    (hj' : (step s e st).1.jTag = some (jn, snap, held)) :
    ∃ ot, sget (step s e st).1.tags jn = some ot ∧ ot.mat = snap.mat ∧ ot.unc = snap.unc ∧
      ot.defn = snap.defn ∧ ot.mfeat = snap.mfeat ∧ ot.sfeat = snap.sfeat ∧ ot.mainT = snap.mainT ∧
      ot.subT = snap.subT ∧
      (step s e st).1.upd = [] ∧ (step s e st).1.rst = [] ∧ (step s e st).1.add = [] ∧
      ot.gen = snap.gen := by  -- CHANGED (gen)
  by_cases hne : ∀ n r, e ≠ .tagDone n r
  · have ht : s.tag = false := by
      rcases h with h | ⟨n, r, h⟩
      · exact h
      · exact absurd h (hne n r)
    have hjn : s.jTag = none := by
      cases hq : s.jTag with
      | none => rfl
      | some p =>
        have := hjw.2 (by simp [hq])
        rw [ht] at this; cases this
    cases step_dec s e st hne with
    | plain hk => rw [hk.jTag, hjn] at hj'; cases hj'
    | tagging X h1 h2 h3 =>
      exact started_of X _ st.tag (h2 hw) (h1.jTag.trans hjn) (h1.tag.trans ht) h3 jn snap held hj'
  · have hex : ∃ n r, e = .tagDone n r := by
      cases e <;> first | exact ⟨_, _, rfl⟩ | exact absurd (fun _ _ h => by cases h) hne
    obtain ⟨n, r, rfl⟩ := hex
    exact tagDone_started s n r st jn snap held hw (hev n r rfl) hj'

end Pk.Proofs.MgrTruth
