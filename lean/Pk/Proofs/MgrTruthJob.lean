/- Helper lemmas for C06Reach: the record of the tagging job in flight and the during-job masks. -/
import Pk.Proofs.MgrTagsStep
import Pk.Proofs.MgrTruthSound
namespace Pk.Proofs.MgrTruth
open Pk.Mgr Pk.Proofs.MgrTags

theorem foldl_proj {β γ : Type _} {g : St → γ} {f : St → β → St} {l : List β} {X : St} {v : γ}
    (h : ∀ s x, g (f s x) = g s) (h0 : g X = v) : g (l.foldl f X) = v := by
  induction l generalizing X with
  | nil => exact h0
  | cons a l ih => simp only [List.foldl_cons]; exact ih (by rw [h]; exact h0)

/-- proves `g (helper s …) = g s` after the helper has been unfolded -/
syntax "jframe" : tactic
macro_rules | `(tactic| jframe) => `(tactic|
  first
  | rfl
  | (refine foldl_proj ?_ ?_
     · intro _ _; jframe
     · jframe)
  | (dsimp only [getIndexesCopy] ; jframe)
  | (split <;> jframe))

/-- the record of the tagging job in flight, the flag and the during-job masks -/
def jp (s : St) : Option (String × Tag × List Nat) × Bool × IdSet × IdSet × IdSet :=
  (s.jTag, s.tag, s.upd, s.rst, s.add)

theorem release_jp (s : St) (fs : List Nat) : jp (release s fs) = jp s := by unfold release; jframe
theorem getIndexesCopy_jp (s : St) (n : Nat) : jp (getIndexesCopy s n).1 = jp s := rfl
theorem startImport_jp (s : St) : jp (startImport s) = jp s := rfl
theorem startMerge_jp (s : St) : jp (startMerge s) = jp s := by unfold startMerge; jframe
theorem jp_eq {s s' : St} (h1 : s'.jTag = s.jTag) (h2 : s'.tag = s.tag) (h3 : s'.upd = s.upd) (h4 : s'.rst = s.rst)
    (h5 : s'.add = s.add) : jp s' = jp s := by unfold jp; rw [h1, h2, h3, h4, h5]
theorem startConverter_jp (s : St) : jp (startConverter s) = jp s := by
  apply jp_eq <;> (unfold startConverter; jframe)
theorem inherit_jp (s : St) : jp (inherit s) = jp s := rfl
theorem invalidateTags_jp (s : St) (a b c : IdSet) : jp (invalidateTags s a b c) = jp s := rfl
theorem invalidateConverters_jp (s : St) (u : IdSet) : jp (invalidateConverters s u) = jp s := by
  unfold invalidateConverters; jframe
theorem setTag_jp (s : St) (n : String) (t : Tag) : jp (setTag s n t) = jp s := rfl
theorem addRefBy_jp (s : St) (a b : String) : jp (addRefBy s a b) = jp s := by unfold addRefBy; jframe
theorem delRefBy_jp (s : St) (a b : String) : jp (delRefBy s a b) = jp s := by unfold delRefBy; jframe
theorem attachConv_jp (s : St) (n c : String) : jp (attachConv s n c).1 = jp s := by unfold attachConv; jframe
theorem qConv_jp (s : St) (cs : List String) (ids : IdSet) : jp (qConv s cs ids) = jp s := by unfold qConv; jframe
theorem muAdd_jp (t : Tag) (s : St) (a : List Nat) : jp (muAdd t s a).2 = jp s := by unfold muAdd; jframe
theorem muFin_jp (s : St) (n : String) (u : IdSet) : jp (muFin s n u) = jp s := by unfold muFin; jframe
theorem mdApply_jp (s : St) (off : Nat) (held : List Nat) (m : List (Nat × List Nat)) :
    jp (mdApply s off held m) = jp s := by
  apply jp_eq <;> (unfold mdApply; jframe)
theorem tdInval_jp (s : St) : jp (tdInval s) = jp s := by unfold tdInval; jframe
theorem tdPublish_jp (s : St) (n : String) (snap : Tag) (r : IdSet) : jp (tdPublish s n snap r) = jp s := by
  unfold tdPublish
  split
  · split
    · rw [tdInval_jp, setTag_jp, qConv_jp]
    · rfl
  · rfl

theorem mem_sget_sorted {α} (l : List (String × α)) (hw : Sorted l)
    (k : String) (v : α) (h : (k, v) ∈ l) : sget l k = some v := by
  unfold Sorted at hw
  induction l with
  | nil => simp at h
  | cons a r ih =>
    obtain ⟨k2, v2⟩ := a
    simp only [List.map_cons, List.pairwise_cons] at hw
    rw [sget_cons]
    rcases List.mem_cons.1 h with e | e
    · cases e; simp
    · have : k2 < k := hw.1 k (List.mem_map.2 ⟨(k, v), e, rfl⟩)
      have hne : ¬ k2 = k := fun e => by subst e; exact absurd this (String.lt_irrefl _)
      rw [if_neg hne]; exact ih hw.2 e

theorem startTagging_id (s : St) (c : Option String) (h : s.tag = true) : startTagging s c = s := by
  unfold startTagging; simp [h]

theorem startTagging_job (s : St) (c : Option String) (hw : Sorted s.tags) (ht : s.tag = false)
    (hn : s.jTag = none) (jn : String) (snap : Tag) (held : List Nat) :
    (startTagging s c).jTag = some (jn, snap, held) →
    sget s.tags jn = some snap ∧ (startTagging s c).upd = [] ∧ (startTagging s c).rst = [] ∧
      (startTagging s c).add = [] := by
  unfold startTagging
  split
  · rename_i h; rw [ht] at h; cases h
  · split
    · intro h; rw [hn] at h; cases h
    · simp only []
      split
      · split
        · intro h; rw [hn] at h; cases h
        · rename_i n t hf
          intro h
          simp only [Option.some.injEq, Prod.mk.injEq] at h
          obtain ⟨rfl, rfl, _⟩ := h
          exact ⟨mem_sget_sorted _ hw _ _ (List.mem_of_find?_eq_some hf), rfl, rfl, rfl⟩
      · rename_i n t hp
        intro h
        simp only [Option.some.injEq, Prod.mk.injEq] at h
        obtain ⟨rfl, rfl, _⟩ := h
        refine ⟨?_, rfl, rfl, rfl⟩
        split at hp
        · split at hp
          · rename_i hg
            split at hp
            · cases hp; exact hg
            · cases hp
          · cases hp
        · cases hp

/-! ## the job record is kept, the masks grow -/

structure JK (s s' : St) : Prop where
  jTag : s'.jTag = s.jTag
  tag : s'.tag = s.tag
  upd : ∀ id, id ∈ s.upd → id ∈ s'.upd
  rst : ∀ id, id ∈ s.rst → id ∈ s'.rst
  add : ∀ id, id ∈ s.add → id ∈ s'.add

theorem JK.refl (s : St) : JK s s := ⟨rfl, rfl, fun _ h => h, fun _ h => h, fun _ h => h⟩
theorem JK.trans {a b c : St} (h1 : JK a b) (h2 : JK b c) : JK a c :=
  ⟨h2.jTag.trans h1.jTag, h2.tag.trans h1.tag, fun id h => h2.upd id (h1.upd id h),
   fun id h => h2.rst id (h1.rst id h), fun id h => h2.add id (h1.add id h)⟩
theorem JK.of_jp {s s' : St} (h : jp s' = jp s) : JK s s' := by
  simp only [jp, Prod.mk.injEq] at h
  obtain ⟨h1, h2, h3, h4, h5⟩ := h
  exact ⟨h1, h2, fun _ h => h3 ▸ h, fun _ h => h4 ▸ h, fun _ h => h5 ▸ h⟩
theorem foldl_jk {β} (f : St → β → St) (h : ∀ s b, JK s (f s b)) (l : List β) (s : St) :
    JK s (l.foldl f s) :=
  foldl_inv (fun s' => JK s s') f (fun a b ha => ha.trans (h a b)) l s (JK.refl s)
theorem foldl_jp {β} (f : St → β → St) (h : ∀ s b, jp (f s b) = jp s) (l : List β) (s : St) :
    jp (l.foldl f s) = jp s :=
  foldl_proj h rfl

theorem invalidatedDuring_jk (s : St) (ids : IdSet) : JK s (invalidatedDuringTaggingJob s ids) := by
  unfold invalidatedDuringTaggingJob
  split
  · exact ⟨rfl, rfl, fun _ h => h, fun id h => by simp [h], fun _ h => h⟩
  · exact JK.refl _

theorem idCreated_jk (s : St) (n : Nat) (c : List (Nat × List Nat)) (u r a : IdSet) :
    JK s (idCreated s n c u r a) :=
  ⟨rfl, rfl, fun id h => by simp [idCreated, h], fun id h => by simp [idCreated, h],
    fun id h => by simp [idCreated, h]⟩

theorem idApply_jk (s : St) (n : Nat) (c : List (Nat × List Nat)) (u r a : IdSet) :
    JK s (idApply s n c u r a) := by
  unfold idApply
  split
  · exact JK.refl _
  · refine (idCreated_jk s n c u r a).trans (JK.of_jp ?_)
    rw [invalidateConverters_jp, invalidateConverters_jp, invalidateTags_jp]

theorem idQueue_jp (s : St) : jp (idQueue s) = jp s := by unfold idQueue; split <;> rfl

theorem cdMark_jk (s : St) (p : String × IdSet) : JK s (cdMark s p) := by
  unfold cdMark
  split
  · exact JK.refl _
  · exact ⟨rfl, rfl, fun id h => by simp [h], fun _ h => h, fun _ h => h⟩

theorem markUpdate_jk (s : St) (name : String) (a d : List Nat) : JK s (markUpdate s name a d).1 := by
  rw [markUpdate_eq]
  split
  · exact JK.refl _
  · refine JK.trans ?_ (JK.of_jp (muFin_jp _ _ _))
    refine JK.trans ?_ (invalidatedDuring_jk _ _)
    refine JK.of_jp ?_
    rw [inherit_jp, setTag_jp, muAdd_jp]

theorem uqRefs_jp (s : St) (name : String) (b a : List String) : jp (uqRefs s name b a) = jp s := by
  unfold uqRefs
  rw [foldl_jp _ (fun s r => addRefBy_jp s r name), foldl_jp _ (fun s r => delRefBy_jp s r name)]

/-- the state in which `updQuery` calls `startTagging` -/
theorem uqPre_jk (s : St) (name : String) (b a : List String) (nt : Tag) :
    JK s (uqInv (inherit (setTag (uqRefs s name b a) name nt))) := by
  unfold uqInv
  refine JK.trans (JK.of_jp ?_) (invalidatedDuring_jk _ _)
  rw [inherit_jp, setTag_jp, uqRefs_jp]

/-! ## after the start of a job -/

def Core (t t' : Tag) : Prop :=  -- CHANGED (gen)
  t'.mat = t.mat ∧ t'.unc = t.unc ∧ t'.defn = t.defn ∧ t'.mfeat = t.mfeat ∧ t'.sfeat = t.sfeat ∧
  t'.mainT = t.mainT ∧ t'.subT = t.subT ∧ t'.gen = t.gen

structure Post (s s' : St) : Prop where
  jp : jp s' = jp s
  tags : ∀ n t, sget s.tags n = some t → ∃ t', sget s'.tags n = some t' ∧ Core t t'

theorem Core.refl (t : Tag) : Core t t := ⟨rfl, rfl, rfl, rfl, rfl, rfl, rfl, rfl⟩
theorem Core.trans {a b c : Tag} (h1 : Core a b) (h2 : Core b c) : Core a c := by
  obtain ⟨a1, a2, a3, a4, a5, a6, a7, a8⟩ := h1
  obtain ⟨b1, b2, b3, b4, b5, b6, b7, b8⟩ := h2
  exact ⟨b1.trans a1, b2.trans a2, b3.trans a3, b4.trans a4, b5.trans a5, b6.trans a6, b7.trans a7,
    b8.trans a8⟩
theorem Post.refl (s : St) : Post s s := ⟨rfl, fun _ t h => ⟨t, h, Core.refl t⟩⟩
theorem Post.trans {a b c : St} (h1 : Post a b) (h2 : Post b c) : Post a c :=
  ⟨h2.jp.trans h1.jp, fun n t h => by
    obtain ⟨t1, e1, c1⟩ := h1.tags n t h
    obtain ⟨t2, e2, c2⟩ := h2.tags n t1 e1
    exact ⟨t2, e2, c1.trans c2⟩⟩
theorem Post.of_same {s s' : St} (h : Same s s') (hj : MgrTruth.jp s' = MgrTruth.jp s) : Post s s' :=
  ⟨hj, fun n t ht => ⟨t, by rw [h.1]; exact ht, Core.refl t⟩⟩
theorem Post.jk {s s' : St} (h : Post s s') : JK s s' := JK.of_jp h.jp
theorem foldl_post {β} (f : St → β → St) (h : ∀ s b, Post s (f s b)) (l : List β) (s : St) :
    Post s (l.foldl f s) :=
  foldl_inv (fun s' => Post s s') f (fun a b ha => ha.trans (h a b)) l s (Post.refl s)

theorem addRefBy_post (s : St) (a b : String) : Post s (addRefBy s a b) := by
  refine ⟨addRefBy_jp s a b, ?_⟩
  unfold addRefBy
  split
  · rename_i t ht
    intro n t0 h0
    simp only [setTag, sget_sins]
    by_cases e : a = n
    · subst e
      rw [ht] at h0; cases h0
      exact ⟨_, if_pos rfl, ⟨rfl, rfl, rfl, rfl, rfl, rfl, rfl, rfl⟩⟩
    · exact ⟨t0, by rw [if_neg e]; exact h0, Core.refl _⟩
  · exact fun n t h => ⟨t, h, Core.refl t⟩

theorem jobTail_post (s : St) : Post s (startMerge (startConverter s)) :=
  Post.of_same ((startConverter_same _).trans (startMerge_same _)) (by rw [startMerge_jp, startConverter_jp])
theorem release_post (s : St) (fs : List Nat) : Post s (release s fs) :=
  Post.of_same (release_same _ _) (release_jp _ _)
theorem startConverter_post (s : St) : Post s (startConverter s) :=
  Post.of_same (startConverter_same _) (startConverter_jp _)

/-- a job found in flight after `startTagging` and the helpers that follow it -/
theorem started_of (X fin : St) (c : Option String) (hw : Sorted X.tags) (hj : X.jTag = none)
    (ht : X.tag = false) (hp : Post (startTagging X c) fin) (jn : String) (snap : Tag) (held : List Nat)
    (h : fin.jTag = some (jn, snap, held)) :
    ∃ ot, sget fin.tags jn = some ot ∧ ot.mat = snap.mat ∧ ot.unc = snap.unc ∧
      ot.defn = snap.defn ∧ ot.mfeat = snap.mfeat ∧ ot.sfeat = snap.sfeat ∧ ot.mainT = snap.mainT ∧
      ot.subT = snap.subT ∧ fin.upd = [] ∧ fin.rst = [] ∧ fin.add = [] ∧
      ot.gen = snap.gen := by  -- CHANGED (gen)
  have hjp := hp.jp
  simp only [jp, Prod.mk.injEq] at hjp
  obtain ⟨e1, _, e3, e4, e5⟩ := hjp
  rw [e1] at h
  obtain ⟨g, u1, u2, u3⟩ := startTagging_job X c hw ht hj jn snap held h
  rw [← (startTagging_same X c).1] at g
  obtain ⟨ot, h1, c1, c2, c3, c4, c5, c6, c7, c8⟩ := hp.tags jn snap g
  exact ⟨ot, h1, c1, c2, c3, c4, c5, c6, c7, e3.trans u1, e4.trans u2, e5.trans u3, c8⟩

/-! ## the converter-output-dropped path (`outputDropped` inside `detachConv`) -/

theorem dropTail_tags (Y : St) (r : IdSet) (c : Option String) :
    (startTagging (invalidatedDuringTaggingJob Y r) c).tags = Y.tags :=
  ((invalidatedDuring_same Y r).trans (startTagging_same _ c)).1

theorem dropTail_jk (s Y : St) (ids : IdSet) (c : Option String) (hj : jp Y = jp s) (ht : s.tag = true) :
    JK s (startTagging (invalidatedDuringTaggingJob Y ids) c) := by
  have h1 : JK s (invalidatedDuringTaggingJob Y ids) := (JK.of_jp hj).trans (invalidatedDuring_jk _ _)
  rw [startTagging_id _ _ (h1.tag.trans ht)]; exact h1

/-- while a job is in flight `outputDropped` keeps its record (the mask `rst` grows) -/
theorem outputDropped_jk (s : St) (c : Option String) (ht : s.tag = true) : JK s (outputDropped s c) := by
  rw [outputDropped_eq]
  split
  · exact dropTail_jk s _ _ c rfl ht
  · exact JK.refl _

-- CHANGED (dropped): was `detachConv_jp : jp (detachConv s n c) = jp s`; the detach may now run `outputDropped`,
-- which starts a job when none is in flight and grows the mask `rst` when one is
theorem detachConv_jk (s : St) (n c : String) (choice : Option String) (ht : s.tag = true) :
    JK s (detachConv s n c choice) := by
  unfold detachConv
  split
  · exact JK.refl _
  · simp only []
    split
    · refine JK.trans (JK.of_jp ?_) (outputDropped_jk _ _ ?_)
      · rfl
      · exact ht
    · exact JK.of_jp rfl

theorem foldl_detach_jk (s : St) (n : String) (choice : Option String) (l : List String) (ht : s.tag = true) :
    JK s (l.foldl (fun s c => detachConv s n c choice) s) :=
  foldl_inv (fun s' => JK s s') _ (fun a b ha => ha.trans (detachConv_jk a n b choice (ha.tag.trans ht))) l s
    (JK.refl s)

/-- the fields of a tag that only an edit of the tag changes -/
def Fld (t t' : Tag) : Prop :=
  t'.mat = t.mat ∧ t'.defn = t.defn ∧ t'.mfeat = t.mfeat ∧ t'.sfeat = t.sfeat ∧ t'.mainT = t.mainT ∧
  t'.subT = t.subT ∧ t'.gen = t.gen

theorem Fld.refl (t : Tag) : Fld t t := ⟨rfl, rfl, rfl, rfl, rfl, rfl, rfl⟩
theorem Fld.trans {a b c : Tag} (h1 : Fld a b) (h2 : Fld b c) : Fld a c := by
  obtain ⟨a1, a2, a3, a4, a5, a6, a7⟩ := h1
  obtain ⟨b1, b2, b3, b4, b5, b6, b7⟩ := h2
  exact ⟨b1.trans a1, b2.trans a2, b3.trans a3, b4.trans a4, b5.trans a5, b6.trans a6, b7.trans a7⟩
theorem Fld.symm {a b : Tag} (h : Fld a b) : Fld b a := by
  obtain ⟨a1, a2, a3, a4, a5, a6, a7⟩ := h
  exact ⟨a1.symm, a2.symm, a3.symm, a4.symm, a5.symm, a6.symm, a7.symm⟩

/-- same fields, pending streams below the bound stay pending -/
def GRel (A : Nat) (t t' : Tag) : Prop := Fld t t' ∧ ∀ id, id ∈ t.unc → id < A → id ∈ t'.unc

theorem GRel.refl (A : Nat) (t : Tag) : GRel A t t := ⟨Fld.refl t, fun _ h _ => h⟩
theorem GRel.trans {A : Nat} {a b c : Tag} (h1 : GRel A a b) (h2 : GRel A b c) : GRel A a c :=
  ⟨h1.1.trans h2.1, fun id h hb => h2.2 id (h1.2 id h hb) hb⟩
theorem GRel.of_core {A : Nat} {t t' : Tag} (h : Core t t') : GRel A t t' := by
  obtain ⟨c1, c2, c3, c4, c5, c6, c7, c8⟩ := h
  exact ⟨⟨c1, c3, c4, c5, c6, c7, c8⟩, fun id hid _ => c2 ▸ hid⟩

/-- every entry is kept up to `GRel` -/
def G (A : Nat) (T T' : List (String × Tag)) : Prop :=
  ∀ n t, sget T n = some t → ∃ t', sget T' n = some t' ∧ GRel A t t'

theorem G.refl (A : Nat) (T : List (String × Tag)) : G A T T := fun _ t h => ⟨t, h, GRel.refl A t⟩
theorem G.trans {A : Nat} {T1 T2 T3 : List (String × Tag)} (h1 : G A T1 T2) (h2 : G A T2 T3) : G A T1 T3 := by
  intro n t h
  obtain ⟨t1, e1, r1⟩ := h1 n t h
  obtain ⟨t2, e2, r2⟩ := h2 n t1 e1
  exact ⟨t2, e2, r1.trans r2⟩
theorem G.of_eq {A : Nat} {T T' : List (String × Tag)} (h : T' = T) : G A T T' := h ▸ G.refl A T

theorem g_sins_rel {A : Nat} {m : String} {t t' : Tag} {T : List (String × Tag)}
    (hm : sget T m = some t) (hr : GRel A t t') : G A T (sins m t' T) := by
  intro n t0 h0
  rw [sget_sins]
  by_cases e : m = n
  · subst e; rw [hm] at h0; cases h0; exact ⟨t', if_pos rfl, hr⟩
  · exact ⟨t0, by rw [if_neg e]; exact h0, GRel.refl _ _⟩

theorem g_map {A : Nat} (f : String → Tag → Tag) (hf : ∀ k t, GRel A t (f k t)) (T : List (String × Tag)) :
    G A T (T.map fun p => (p.1, f p.1 p.2)) := by
  intro n t h
  exact ⟨f n t, by simp [sget_map, h], hf _ _⟩

theorem inheritOne_grel (all : Nat) (tags : List (String × Tag)) (t : Tag) : GRel all t (inheritOne all tags t) := by
  refine ⟨?_, (trel_inheritOne all tags t).2.2⟩
  unfold inheritOne
  split
  · exact Fld.refl _
  · split <;> exact ⟨rfl, rfl, rfl, rfl, rfl, rfl, rfl⟩

theorem passStep_g (all : Nat) (T0 : List (String × Tag)) (acc) (nt : String × Tag)
    (h : G all T0 acc.1) : G all T0 (passStep all acc nt).1 := by
  unfold passStep
  split
  · exact h
  · split
    · exact h
    · rename_i t ht
      split
      · exact h.trans (g_sins_rel ht (inheritOne_grel _ _ _))
      · exact h

theorem inherit_g (s : St) : G s.all s.tags (inherit s).tags := by
  obtain ⟨res, h, _⟩ := inheritLoop_inv s.all (fun acc => G s.all s.tags acc.1)
    (passStep_g s.all s.tags) (s.tags.length + 1) s.tags [] (G.refl _ _)
  exact h

theorem inherit_bounded (s : St) (hb : Bounded s.all s.tags) : Bounded s.all (inherit s).tags := by
  obtain ⟨res, hp, _⟩ := inheritLoop_inv s.all (PInv s.all) (passStep_pinv s.all)
    (s.tags.length + 1) s.tags [] ⟨by simp, by simp, hb⟩
  exact hp.bnd

/-- the state of `outputDropped` before its sweep -/
def odMap (s : St) : St := { s with tags := s.tags.map fun p => (p.1, odF s.all p.2) }

theorem outputDropped_eq' (s : St) (choice : Option String) :
    outputDropped s choice =
      if s.tags.any (fun nt => (nt.2.mfeat ||| nt.2.sfeat) &&& fData != 0) then
        startTagging (invalidatedDuringTaggingJob (inherit (odMap s)) (rangeSet s.all)) choice
      else s := outputDropped_eq s choice

theorem odF_fld (A : Nat) (t : Tag) : Fld t (odF A t) := by
  unfold odF; split
  · exact ⟨rfl, rfl, rfl, rfl, rfl, rfl, rfl⟩
  · exact Fld.refl _

theorem odF_grel (A : Nat) (t : Tag) : GRel A t (odF A t) := ⟨odF_fld A t, (trel_odF A t).2.2⟩

theorem odMap_g (s : St) : G s.all s.tags (odMap s).tags := g_map (fun _ t => odF s.all t) (fun _ t => odF_grel _ t) _

theorem odMap_sget (s : St) (n : String) : sget (odMap s).tags n = (sget s.tags n).map (odF s.all) :=
  sget_map (fun _ t => odF s.all t) s.tags n

theorem odMap_bounded (s : St) (hb : Bounded s.all s.tags) : Bounded s.all (odMap s).tags := by
  intro n t' h id hid
  rw [odMap_sget] at h
  cases ht : sget s.tags n with
  | none => rw [ht] at h; cases h
  | some t =>
    rw [ht] at h
    simp only [Option.map_some, Option.some.injEq] at h
    subst h
    unfold odF at hid
    split at hid
    · simpa using hid
    · exact hb n t ht id hid

theorem outputDropped_g (s : St) (c : Option String) : G s.all s.tags (outputDropped s c).tags := by
  rw [outputDropped_eq']
  split
  · rw [dropTail_tags]
    exact (odMap_g s).trans (inherit_g (odMap s))
  · exact G.refl _ _

theorem outputDropped_bounded (s : St) (c : Option String) (hb : Bounded s.all s.tags) :
    Bounded s.all (outputDropped s c).tags := by
  rw [outputDropped_eq']
  split
  · rw [dropTail_tags]
    exact inherit_bounded (odMap s) (odMap_bounded s hb)
  · exact hb

/-- same table up to `color`, `convs`, `refBy` -/
def TEq (T T' : List (String × Tag)) : Prop :=
  ∀ n, (∀ t, sget T n = some t → ∃ t', sget T' n = some t' ∧ Core t t') ∧ (sget T n = none → sget T' n = none)

theorem TEq.refl (T : List (String × Tag)) : TEq T T := fun _ => ⟨fun t h => ⟨t, h, Core.refl t⟩, id⟩
theorem TEq.trans {T1 T2 T3 : List (String × Tag)} (h1 : TEq T1 T2) (h2 : TEq T2 T3) : TEq T1 T3 := by
  intro n
  refine ⟨fun t h => ?_, fun h => (h2 n).2 ((h1 n).2 h)⟩
  obtain ⟨t1, e1, c1⟩ := (h1 n).1 t h
  obtain ⟨t2, e2, c2⟩ := (h2 n).1 t1 e1
  exact ⟨t2, e2, c1.trans c2⟩
theorem TEq.of_eq {T T' : List (String × Tag)} (h : T' = T) : TEq T T' := h ▸ TEq.refl T

theorem teq_sins {m : String} {t t' : Tag} {T : List (String × Tag)} (hm : sget T m = some t) (hc : Core t t') :
    TEq T (sins m t' T) := by
  intro n
  rw [sget_sins]
  by_cases e : m = n
  · subst e
    exact ⟨fun t0 h0 => by rw [hm] at h0; cases h0; exact ⟨t', if_pos rfl, hc⟩,
      fun h0 => by rw [hm] at h0; cases h0⟩
  · rw [if_neg e]
    exact ⟨fun t0 h0 => ⟨t0, h0, Core.refl _⟩, id⟩

theorem TEq.g {A : Nat} {T T' : List (String × Tag)} (h : TEq T T') : G A T T' := by
  intro n t ht
  obtain ⟨t', e, c⟩ := (h n).1 t ht
  exact ⟨t', e, GRel.of_core c⟩

theorem TEq.bounded {A : Nat} {T T' : List (String × Tag)} (h : TEq T T') (hb : Bounded A T) : Bounded A T' := by
  intro n t' ht' id hid
  cases ht : sget T n with
  | none => rw [(h n).2 ht] at ht'; cases ht'
  | some t =>
    obtain ⟨t2, e, c⟩ := (h n).1 t ht
    rw [ht'] at e; cases e
    exact hb n t ht id (c.2.1 ▸ hid)

/-- a helper that leaves the job record, the masks and (up to `color`, `convs`, `refBy`) the table alone -/
structure Quiet (X Q : St) : Prop where
  all : Q.all = X.all
  jp : jp Q = jp X
  sorted : Sorted X.tags → Sorted Q.tags
  tags : TEq X.tags Q.tags

theorem Quiet.refl (X : St) : Quiet X X := ⟨rfl, rfl, id, TEq.refl _⟩
theorem Quiet.trans {a b c : St} (h1 : Quiet a b) (h2 : Quiet b c) : Quiet a c :=
  ⟨h2.all.trans h1.all, h2.jp.trans h1.jp, fun h => h2.sorted (h1.sorted h), h1.tags.trans h2.tags⟩
theorem foldl_quiet {β} (f : St → β → St) (h : ∀ s b, Quiet s (f s b)) (l : List β) (s : St) :
    Quiet s (l.foldl f s) :=
  foldl_inv (fun s' => Quiet s s') f (fun a b ha => ha.trans (h a b)) l s (Quiet.refl s)
theorem Quiet.post {X Q : St} (h : Quiet X Q) : Post X Q := ⟨h.jp, fun n t ht => (h.tags n).1 t ht⟩
theorem Quiet.of_same {X Q : St} (h : Same X Q) (hj : MgrTruth.jp Q = MgrTruth.jp X) : Quiet X Q :=
  ⟨h.2.1, hj, fun hs => h.1 ▸ hs, TEq.of_eq h.1⟩

theorem setTag_quiet {s : St} {m : String} {t t' : Tag} (hm : sget s.tags m = some t) (hc : Core t t') :
    Quiet s (setTag s m t') := ⟨rfl, rfl, sorted_sins _ _ _, teq_sins hm hc⟩

theorem delRefBy_quiet (s : St) (a b : String) : Quiet s (delRefBy s a b) := by
  unfold delRefBy
  split
  · rename_i t ht; exact setTag_quiet ht ⟨rfl, rfl, rfl, rfl, rfl, rfl, rfl, rfl⟩
  · exact Quiet.refl _

theorem attachConv_quiet (s : St) (n c : String) : Quiet s (attachConv s n c).1 := by
  unfold attachConv
  split
  · exact Quiet.refl _
  · rename_i t ht
    split
    · exact Quiet.refl _
    · split
      · exact Quiet.refl _
      · have h := setTag_quiet (t' := { t with convs := t.convs ++ [c] }) ht ⟨rfl, rfl, rfl, rfl, rfl, rfl, rfl, rfl⟩
        exact ⟨h.all, h.jp, h.sorted, h.tags⟩

theorem startConverter_quiet (s : St) : Quiet s (startConverter s) :=
  Quiet.of_same (startConverter_same _) (startConverter_jp _)

/-- the references of the snapshot justify a late pending stream -/
def LateCov (s' : St) (snap : Tag) (id : Nat) : Prop :=
  (s'.upd ≠ [] ∨ s'.rst ≠ [] ∨ s'.add ≠ []) ∧
  ((∃ r, r ∈ snap.mainT ∧ ∃ tr, sget s'.tags r = some tr ∧ id ∈ tr.unc) ∨
   (∃ r, r ∈ snap.subT ∧ ∃ tr id', sget s'.tags r = some tr ∧ id' ∈ tr.unc))

theorem ne_nil_of_sub {a b : List Nat} (h : ∀ x, x ∈ a → x ∈ b) (ha : a ≠ []) : b ≠ [] := by
  cases a with
  | nil => exact absurd rfl ha
  | cons x r =>
    intro e
    have := h x (by simp)
    rw [e] at this; cases this

theorem LateCov.mono {X X' : St} {snap : Tag} {id : Nat} (hm : JK X X')
    (hg : ∀ r, r ∈ snap.mainT ∨ r ∈ snap.subT → ∀ tr, sget X.tags r = some tr →
      ∃ tr', sget X'.tags r = some tr' ∧ ∀ i, i ∈ tr.unc → i ∈ tr'.unc)
    (h : LateCov X snap id) : LateCov X' snap id := by
  obtain ⟨h1, h2⟩ := h
  refine ⟨?_, ?_⟩
  · rcases h1 with h1 | h1 | h1
    · exact Or.inl (ne_nil_of_sub hm.upd h1)
    · exact Or.inr (Or.inl (ne_nil_of_sub hm.rst h1))
    · exact Or.inr (Or.inr (ne_nil_of_sub hm.add h1))
  · rcases h2 with ⟨r, hr, tr, e, hid⟩ | ⟨r, hr, tr, id', e, hid⟩
    · obtain ⟨tr', e', hs⟩ := hg r (Or.inl hr) tr e
      exact Or.inl ⟨r, hr, tr', e', hs id hid⟩
    · obtain ⟨tr', e', hs⟩ := hg r (Or.inr hr) tr e
      exact Or.inr ⟨r, hr, tr', id', e', hs id' hid⟩

/-- the snapshot of a job started by `outputDropped`: a payload tag is pending for every stream -/
def PayFull (A : Nat) (snap : Tag) : Prop :=
  ((snap.mfeat ||| snap.sfeat) &&& fData != 0) = true → ∀ id, id < A → id ∈ snap.unc

/-- the job record inside the detach fold: no job, or a job whose snapshot is the table entry up to pending
    streams that arrived late, each of them justified -/
def JInv (A : Nat) (X : St) : Prop :=
  (X.tag = false ∧ X.jTag = none) ∨
  (X.tag = true ∧ ∃ jn snap held ot, X.jTag = some (jn, snap, held) ∧ sget X.tags jn = some ot ∧
    GRel A snap ot ∧ PayFull A snap ∧
    ∀ id, id ∈ ot.unc → id ∉ snap.unc → id < A → LateCov X snap id)

theorem JInv.post {A : Nat} {X Q : St} (hp : Post X Q) (h : JInv A X) : JInv A Q := by
  have hjp := hp.jp
  simp only [jp, Prod.mk.injEq] at hjp
  obtain ⟨e1, e2, _, _, _⟩ := hjp
  rcases h with ⟨h1, h2⟩ | ⟨h1, jn, snap, held, ot, hj, hot, hg, hpf, hl⟩
  · exact Or.inl ⟨e2.trans h1, e1.trans h2⟩
  · obtain ⟨ot', hot', hc⟩ := hp.tags jn ot hot
    refine Or.inr ⟨e2.trans h1, jn, snap, held, ot', e1.trans hj, hot', hg.trans (GRel.of_core hc), hpf, ?_⟩
    intro id hid hns hb
    refine (hl id (hc.2.1 ▸ hid) hns hb).mono hp.jk ?_
    intro r _ tr htr
    obtain ⟨tr', e', c'⟩ := hp.tags r tr htr
    exact ⟨tr', e', fun i hi => c'.2.1.symm ▸ hi⟩

theorem startTagging_cases (s : St) (c : Option String) (hw : Sorted s.tags) (ht : s.tag = false)
    (hn : s.jTag = none) :
    ((startTagging s c).tag = false ∧ (startTagging s c).jTag = none) ∨
    (∃ jn snap held, (startTagging s c).jTag = some (jn, snap, held) ∧ (startTagging s c).tag = true ∧
      sget s.tags jn = some snap) := by
  unfold startTagging
  split
  · exact Or.inl ⟨ht, hn⟩
  · split
    · exact Or.inl ⟨ht, hn⟩
    · simp only []
      split
      · split
        · exact Or.inl ⟨ht, hn⟩
        · rename_i n t hf
          exact Or.inr ⟨n, t, _, rfl, rfl, mem_sget_sorted _ hw _ _ (List.mem_of_find?_eq_some hf)⟩
      · rename_i n t hp
        refine Or.inr ⟨n, t, _, rfl, rfl, ?_⟩
        split at hp
        · split at hp
          · rename_i hg
            split at hp
            · cases hp; exact hg
            · cases hp
          · cases hp
        · cases hp

theorem mem_tagUnc {T : List (String × Tag)} {r : String} {id : Nat} (h : id ∈ tagUnc T r) :
    ∃ tr, sget T r = some tr ∧ id ∈ tr.unc := by
  unfold tagUnc at h
  cases hr : sget T r with
  | none => simp [hr] at h
  | some t => simp [hr] at h; exact ⟨t, rfl, h⟩

theorem tagUnc_ne_nil {T : List (String × Tag)} {r : String} (h : tagUnc T r ≠ []) :
    ∃ tr id', sget T r = some tr ∧ id' ∈ tr.unc := by
  cases hu : tagUnc T r with
  | nil => exact absurd hu h
  | cons x l =>
    obtain ⟨tr, e, hx⟩ := mem_tagUnc (T := T) (r := r) (id := x) (by rw [hu]; simp)
    exact ⟨tr, x, e, hx⟩

theorem outputDropped_jinv (X : St) (c : Option String) (hw : Sorted X.tags) (hb : Bounded X.all X.tags)
    (h : JInv X.all X) : JInv X.all (outputDropped X c) := by
  rw [outputDropped_eq']
  split
  case isFalse => exact h
  have gM := odMap_g X
  have gY : G X.all (odMap X).tags (inherit (odMap X)).tags := inherit_g (odMap X)
  have hwM : Sorted (odMap X).tags := by
    apply sorted_of_keys_eq _ _ _ hw
    simp [odMap, Function.comp_def]
  have hwY : Sorted (inherit (odMap X)).tags := inherit_sorted _ hwM
  rcases h with ⟨h1, h2⟩ | ⟨h1, jn, snap, held, ot, hj, hot, hg, hpf, hl⟩
  · -- no job in flight: the mask is not touched, `startTagging` may start a job
    have e : invalidatedDuringTaggingJob (inherit (odMap X)) (rangeSet X.all) = inherit (odMap X) := by
      unfold invalidatedDuringTaggingJob
      rw [if_neg]
      show ¬ X.tag = true
      rw [h1]; simp
    rw [e]
    rcases startTagging_cases (inherit (odMap X)) c hwY h1 h2 with hc | ⟨jn, snap, held, hj, htg, hs⟩
    · exact Or.inl hc
    · refine Or.inr ⟨htg, jn, snap, held, snap, hj, ?_, GRel.refl _ _, ?_, fun id hid hns _ => absurd hid hns⟩
      · rw [(startTagging_same _ _).1]; exact hs
      · intro hpay id hid
        cases h0 : sget X.tags jn with
        | none =>
          have : sget (odMap X).tags jn = none := by rw [odMap_sget, h0]; rfl
          rw [(inherit_keep (odMap X) jn).2 this] at hs; cases hs
        | some t0 =>
          have hm : sget (odMap X).tags jn = some (odF X.all t0) := by rw [odMap_sget, h0]; rfl
          obtain ⟨t', e', r'⟩ := gY jn _ hm
          rw [hs] at e'; cases e'
          apply r'.2 id _ hid
          obtain ⟨_, _, f3, f4, _⟩ := r'.1
          rw [f3, f4] at hpay
          unfold odF at hpay ⊢
          split
          · simpa using hid
          · rename_i hnp; rw [if_neg hnp] at hpay; exact absurd hpay hnp
  · -- a job is in flight: `startTagging` is the identity, the mask `rst` covers every stream
    have hjk : JK X (startTagging (invalidatedDuringTaggingJob (inherit (odMap X)) (rangeSet X.all)) c) :=
      dropTail_jk X _ _ c rfl h1
    have hrst : ∀ id, id < X.all →
        id ∈ (startTagging (invalidatedDuringTaggingJob (inherit (odMap X)) (rangeSet X.all)) c).rst := by
      intro id hid
      have ht2 : (invalidatedDuringTaggingJob (inherit (odMap X)) (rangeSet X.all)).tag = true :=
        (invalidatedDuring_jk (inherit (odMap X)) (rangeSet X.all)).tag.trans h1
      rw [startTagging_id _ c ht2]
      unfold invalidatedDuringTaggingJob
      rw [if_pos (show (inherit (odMap X)).tag = true from h1)]
      simp [hid]
    have hm : sget (odMap X).tags jn = some (odF X.all ot) := by rw [odMap_sget, hot]; rfl
    obtain ⟨oti, hoti, hgi⟩ := gY jn _ hm
    refine Or.inr ⟨hjk.tag.trans h1, jn, snap, held, oti, hjk.jTag.trans hj, ?_,
      hg.trans ((odF_grel _ _).trans hgi), hpf, ?_⟩
    · rw [dropTail_tags]; exact hoti
    · intro id hid hns hlt
      have hmask : (startTagging (invalidatedDuringTaggingJob (inherit (odMap X)) (rangeSet X.all)) c).rst ≠ [] := by
        intro e0
        have := hrst id hlt
        rw [e0] at this; cases this
      rcases inherit_sound' (odMap X) jn _ oti hm hoti id hid with hu | ⟨r, hr, hu⟩ | ⟨r, hr, hu⟩
      · -- pending before the sweep
        have hold : id ∈ ot.unc := by
          unfold odF at hu
          split at hu
          · rename_i hpay
            obtain ⟨_, _, f3, f4, _⟩ := hg.1
            rw [f3, f4] at hpay
            exact absurd (hpf hpay id hlt) hns
          · exact hu
        refine (hl id hold hns hlt).mono hjk ?_
        intro r _ tr htr
        obtain ⟨tr', e', r'⟩ := (gM.trans gY) r tr htr
        refine ⟨tr', by rw [dropTail_tags]; exact e', fun i hi => r'.2 i hi (hb r tr htr i hi)⟩
      · obtain ⟨tr, e, hi⟩ := mem_tagUnc hu
        refine ⟨Or.inr (Or.inl hmask), Or.inl ⟨r, ?_, tr, by rw [dropTail_tags]; exact e, hi⟩⟩
        have := (odF_fld X.all ot).2.2.2.2.1
        rw [this] at hr
        exact hg.1.2.2.2.2.1 ▸ hr
      · obtain ⟨tr, id', e, hi⟩ := tagUnc_ne_nil hu
        refine ⟨Or.inr (Or.inl hmask), Or.inr ⟨r, ?_, tr, id', by rw [dropTail_tags]; exact e, hi⟩⟩
        have := (odF_fld X.all ot).2.2.2.2.2.1
        rw [this] at hr
        exact hg.1.2.2.2.2.2.1 ▸ hr

/-- the invariant of the detach fold of `updConv` / `delTag`, started in `s` -/
structure FI (s X : St) : Prop where
  all : X.all = s.all
  sorted : Sorted X.tags
  back : ∀ n, sget s.tags n = none → sget X.tags n = none
  bnd : Bounded s.all X.tags
  g : G s.all s.tags X.tags
  jinv : JInv s.all X

theorem FI.quiet {s X Q : St} (hq : Quiet X Q) (h : FI s X) : FI s Q :=
  ⟨hq.all.trans h.all, hq.sorted h.sorted, fun n hn => (hq.tags n).2 (h.back n hn), hq.tags.bounded h.bnd,
    h.g.trans hq.tags.g, h.jinv.post hq.post⟩

theorem FI.dropped {s X : St} (c : Option String) (h : FI s X) : FI s (outputDropped X c) := by
  have hf := outputDropped_fr X c
  refine ⟨hf.all.trans h.all, hf.sorted h.sorted, fun n hn => (hf.keep n trivial).2 (h.back n hn), ?_, ?_, ?_⟩
  · have := outputDropped_bounded X c (h.all ▸ h.bnd)
    rw [h.all] at this; exact this
  · have := outputDropped_g X c
    rw [h.all] at this; exact h.g.trans this
  · have := outputDropped_jinv X c h.sorted (h.all ▸ h.bnd) (h.all ▸ h.jinv)
    rw [h.all] at this; exact this

theorem detachConv_fi {s X : St} (n c : String) (choice : Option String) (h : FI s X) :
    FI s (detachConv X n c choice) := by
  unfold detachConv
  split
  · exact h
  · rename_i t ht
    have hq := setTag_quiet (t' := { t with convs := t.convs.filter (· != c) }) ht ⟨rfl, rfl, rfl, rfl, rfl, rfl, rfl, rfl⟩
    simp only []
    split
    · refine FI.dropped _ (FI.quiet ?_ h)
      exact ⟨hq.all, hq.jp, hq.sorted, hq.tags⟩
    · refine FI.quiet ?_ h
      exact ⟨hq.all, hq.jp, hq.sorted, hq.tags⟩

theorem foldl_detach_fi (s : St) (n : String) (choice : Option String) (l : List String) (h : FI s s) :
    FI s (l.foldl (fun s c => detachConv s n c choice) s) :=
  foldl_inv (fun s' => FI s s') _ (fun _ b ha => detachConv_fi n b choice ha) l s h

theorem FI.init (s : St) (hw : Sorted s.tags) (hb : Bounded s.all s.tags) (ht : s.tag = false) (hj : s.jTag = none) :
    FI s s := ⟨rfl, hw, fun _ h => h, hb, G.refl _ _, Or.inl ⟨ht, hj⟩⟩

/-! ## `step`, event by event -/

/-- what an event other than a tagging completion does to the job record: either it is kept (and the
    masks grow), or it is kept up to a call of `startTagging`, after which only helpers run that keep it -/
inductive Dec (s : St) (c : Option String) (fin : St) : Prop
  | plain (h : JK s fin)
  | tagging (X : St) (h1 : JK s X) (h2 : Sorted s.tags → Sorted X.tags) (h3 : Post (startTagging X c) fin)

theorem step_importDone_dec (s : St) (processed usednew : Nat) (created : List (Nat × List Nat))
    (upd rst add : List Nat) (st : Started) :
    Dec s st.tag (step s (.importDone processed usednew created upd rst add) st).1 := by
  cases hj : s.jImport with
  | none => rw [step_importDone_none _ _ _ _ _ _ _ _ hj]; exact .plain (JK.refl _)
  | some p =>
    obtain ⟨jnext, held⟩ := p
    have hs := fun hw => (step_frame s (.importDone processed usednew created upd rst add) st).1 hw
    rw [step_importDone_eq, hj] at hs ⊢
    simp only [] at hs ⊢
    refine .tagging _ ?_ (fun hw => ?_) (jobTail_post _)
    · refine JK.trans ?_ (JK.of_jp (idQueue_jp _))
      refine JK.trans (b := idApply (release { s with all := jnext + usednew, jImport := none } held)
            (jnext + usednew) created (ofList upd) (ofList rst) (ofList add)) ?_ (JK.of_jp rfl)
      refine JK.trans ?_ (idApply_jk _ _ _ _ _ _)
      exact JK.trans (b := { s with all := jnext + usednew, jImport := none }) (JK.of_jp rfl)
        (JK.of_jp (release_jp _ _))
    · have := hs hw
      rw [(jobTail_same _ st).1] at this
      exact this

theorem step_convertDone_dec (s : St) (st : Started) : Dec s st.tag (step s .convertDone st).1 := by
  rw [step_convertDone_eq]
  split
  · exact .plain (JK.refl _)
  · rename_i sets held _
    refine .tagging (inherit (sets.foldl cdMark { s with convert := false, jConv := none })) ?_ ?_
      ((startConverter_post _).trans (release_post _ _))
    · refine JK.trans ?_ (JK.of_jp (inherit_jp _))
      exact JK.trans (b := { s with convert := false, jConv := none }) (JK.of_jp rfl) (foldl_jk _ cdMark_jk _ _)
    · refine Fr.sorted (N := NT) ?_
      refine Fr.trans ?_ (inherit_fr _)
      exact Fr.trans (b := { s with convert := false, jConv := none }) (Fr.of_same ⟨rfl, rfl, rfl⟩)
        (foldl_fr cdMark cdMark_fr _ _)

theorem step_mergeDone_dec (s : St) (merged : List (Nat × List Nat)) (st : Started) :
    Dec s st.tag (step s (.mergeDone merged) st).1 := by
  rw [step_mergeDone_eq]
  split
  · exact .plain (JK.refl _)
  · rename_i off held _
    refine .plain (JK.of_jp ?_)
    rw [release_jp, startMerge_jp]
    exact (mdApply_jp { s with jMerge := none } off held merged)

theorem step_addTag_dec (s : St) (name color defn : String) (f : Facts) (st : Started) :
    Dec s st.tag (step s (.addTag name color defn f) st).1 := by
  rw [step_addTag_eq]
  repeat' split
  all_goals first | exact .plain (JK.refl _) | skip
  rw [atPair_fst]
  unfold atFinish
  split
  · refine .plain (JK.of_jp ?_)
    rw [foldl_jp _ (fun s r => addRefBy_jp s r name), setTag_jp]
    rfl
  · exact .tagging (setTag { s with ngen := s.ngen + 1 } name _) (JK.of_jp rfl) (sorted_sins _ _ _)
      (foldl_post _ (fun s r => addRefBy_post s r name) _ _)

theorem step_updQuery_dec (s : St) (name defn : String) (f : Facts) (st : Started) :
    Dec s st.tag (step s (.updQuery name defn f) st).1 := by
  rw [step_updQuery_eq]
  repeat' split
  all_goals first | exact .plain (JK.refl _) | skip
  unfold uqApply
  refine .tagging _ (uqPre_jk _ _ _ _ _) ?_ (startConverter_post _)
  refine Fr.sorted (N := (· ≠ name)) ?_
  unfold uqInv uqRefs
  refine Fr.trans ?_ (Fr.of_same (invalidatedDuring_same _ _))
  refine Fr.trans ?_ ((inherit_fr _).mono fun _ _ => trivial)
  refine Fr.trans ?_ (setTag_fr_ne _ _ _)
  refine Fr.trans ?_ (foldl_fr _ (fun s r => (addRefBy_fr s r name).mono fun _ _ => trivial) _ _)
  exact foldl_fr _ (fun s r => (delRefBy_fr s r name).mono fun _ _ => trivial) _ _

theorem step_updName_dec (s : St) (name new : String) (st : Started) :
    Dec s st.tag (step s (.updName name new) st).1 := by
  rw [step_updName_eq]
  repeat' split
  all_goals first | exact .plain (JK.refl _) | skip
  refine .plain (JK.of_jp ?_)
  unfold unApply
  rw [foldl_jp _ (fun s r => (addRefBy_jp _ r new).trans (delRefBy_jp s r name))]
  rfl

-- CHANGED (dropped): only while a job is in flight (`s.tag = true`) does `updConv` keep the job record; without
-- one the detach fold may start a job (see `step_updConv_jinv`)
theorem step_updConv_dec (s : St) (name : String) (convs : List String) (st : Started) (ht : s.tag = true) :
    Dec s st.tag (step s (.updConv name convs) st).1 := by
  rw [step_updConv_eq]
  repeat' split
  all_goals first | exact .plain (JK.refl _) | skip
  rename_i t _ _
  refine .plain ?_
  unfold ucAttach ucDetach
  refine JK.trans (foldl_detach_jk s name st.tag (t.convs.filter (fun c => !convs.contains c)) ht) (JK.of_jp ?_)
  rw [startConverter_jp, foldl_jp _ (fun s c => attachConv_jp s name c)]

theorem markTail_dec (s : St) (name : String) (a d : List Nat) (st : Started) :
    Dec s st.tag (markTail (markUpdate s name a d) st).1 :=
  .tagging _ (markUpdate_jk s name a d) (markUpdate_fr s name a d).sorted (startConverter_post _)

theorem step_markAdd_dec (s : St) (name : String) (ids : List Nat) (st : Started) :
    Dec s st.tag (step s (.markAdd name ids) st).1 := by
  rw [step_markAdd_eq]
  repeat' split
  all_goals first | exact .plain (JK.refl _) | skip
  exact markTail_dec _ _ _ _ _

theorem step_markDel_dec (s : St) (name : String) (ids : List Nat) (st : Started) :
    Dec s st.tag (step s (.markDel name ids) st).1 := by
  rw [step_markDel_eq]
  repeat' split
  all_goals first | exact .plain (JK.refl _) | skip
  exact markTail_dec _ _ _ _ _

-- CHANGED (dropped): only while a job is in flight (`s.tag = true`) does `delTag` keep the job record; without
-- one the detach fold may start a job (see `step_delTag_jinv`)
theorem step_delTag_dec (s : St) (name : String) (st : Started) (ht : s.tag = true) :
    Dec s st.tag (step s (.delTag name) st).1 := by
  rw [step_delTag_eq]
  repeat' split
  all_goals first | exact .plain (JK.refl _) | skip
  rename_i t _ _
  refine .plain ?_
  unfold dtApply
  refine JK.trans (foldl_detach_jk s name st.tag t.convs ht) (JK.of_jp ?_)
  rw [foldl_jp _ (fun s r => delRefBy_jp s r name)]
  rfl

-- CHANGED (dropped): `updConv` / `delTag` are covered only while a job is in flight
theorem step_dec (s : St) (e : Ev) (st : Started) (hne : ∀ n r, e ≠ .tagDone n r)
    (hud : s.tag = true ∨ ((∀ n cs, e ≠ .updConv n cs) ∧ ∀ n, e ≠ .delTag n)) :
    Dec s st.tag (step s e st).1 := by
  cases e with
  | nop => exact .plain (JK.refl _)
  | importPcaps names =>
    unfold step
    simp only []
    split
    · exact .plain (JK.refl _)
    · split <;> exact .plain (JK.of_jp rfl)
  | importDone processed usednew created upd rst add => exact step_importDone_dec _ _ _ _ _ _ _ _
  | tagDone name result => exact absurd rfl (hne _ _)
  | mergeDone merged => exact step_mergeDone_dec _ _ _
  | convertDone => exact step_convertDone_dec _ _
  | addTag name color defn f => exact step_addTag_dec _ _ _ _ _ _
  | updQuery name defn f => exact step_updQuery_dec _ _ _ _ _
  | updColor name color =>
    unfold step
    simp only []
    split
    · exact .plain (JK.refl _)
    · split <;> exact .plain (JK.of_jp rfl)
  | updName name new => exact step_updName_dec _ _ _ _
  | updConv name convs =>
    rcases hud with ht | ⟨h1, _⟩
    · exact step_updConv_dec _ _ _ _ ht
    · exact absurd rfl (h1 _ _)
  | markAdd name ids => exact step_markAdd_dec _ _ _ _
  | markDel name ids => exact step_markDel_dec _ _ _ _
  | delTag name =>
    rcases hud with ht | ⟨_, h2⟩
    · exact step_delTag_dec _ _ _ ht
    · exact absurd rfl (h2 _)
  | viewOpen k =>
    unfold step
    simp only []
    split
    · exact .plain (JK.refl _)
    · exact .plain (JK.of_jp rfl)
  | viewRelease k =>
    unfold step
    simp only []
    split
    · exact .plain (JK.refl _)
    · exact .plain (JK.of_jp ((release_jp _ _).trans rfl))

/-! ## the two theorems -/

/-- while a tagging job is in flight, no event except a tagging completion touches the job record or the
    flag, and the during-job masks only grow -/
theorem job_stable (s : St) (e : Ev) (st : Started) (j : String × Tag × List Nat)
    (hj : s.jTag = some j) (ht : s.tag = true) (hne : ∀ n r, e ≠ .tagDone n r) :
    (step s e st).1.jTag = some j ∧ (step s e st).1.tag = true ∧
    (∀ id, id ∈ s.upd → id ∈ (step s e st).1.upd) ∧ (∀ id, id ∈ s.rst → id ∈ (step s e st).1.rst) ∧
    (∀ id, id ∈ s.add → id ∈ (step s e st).1.add) := by
  have key : JK s (step s e st).1 := by
    cases step_dec s e st hne (Or.inl ht) with
    | plain h => exact h
    | tagging X h1 _ h3 =>
      rw [startTagging_id X st.tag (h1.tag.trans ht)] at h3
      exact h1.trans h3.jk
  exact ⟨key.jTag.trans hj, key.tag.trans ht, key.upd, key.rst, key.add⟩

theorem tagDone_started (s : St) (n : String) (r : List Nat) (st : Started) (jn : String) (snap : Tag)
    (held : List Nat) (hw : Sorted s.tags)
    (hev : ∀ jn' snap' held', s.jTag = some (jn', snap', held') → jn' = n)
    (hj' : (step s (.tagDone n r) st).1.jTag = some (jn, snap, held)) :
    ∃ ot, sget (step s (.tagDone n r) st).1.tags jn = some ot ∧ ot.mat = snap.mat ∧ ot.unc = snap.unc ∧
      ot.defn = snap.defn ∧ ot.mfeat = snap.mfeat ∧ ot.sfeat = snap.sfeat ∧ ot.mainT = snap.mainT ∧
      ot.subT = snap.subT ∧
      (step s (.tagDone n r) st).1.upd = [] ∧ (step s (.tagDone n r) st).1.rst = [] ∧
      (step s (.tagDone n r) st).1.add = [] ∧ ot.gen = snap.gen := by  -- CHANGED (gen)
  cases hq : s.jTag with
  | none =>
    rw [step_tagDone_eq, hq] at hj'
    simp only [] at hj'
    rw [hq] at hj'; cases hj'
  | some p =>
    obtain ⟨jn', snap', held'⟩ := p
    have := hev _ _ _ hq
    subst this
    rw [step_tagDone_eq, hq] at hj' ⊢
    simp only [bne_self_eq_false, Bool.false_eq_true, if_false] at hj' ⊢
    refine started_of { tdPublish { s with jTag := none } jn' snap' (ofList r) with tag := false } _ st.tag
      ?_ ?_ rfl ((jobTail_post _).trans (release_post _ _)) jn snap held hj'
    · exact (tdPublish_fr { s with jTag := none } jn' snap' (ofList r)).sorted hw
    · exact (JK.of_jp (tdPublish_jp { s with jTag := none } jn' snap' (ofList r))).jTag

/-- a tagging job that is in flight after an event (other than `updConv` / `delTag`) during which no job was in
    flight before, or after a tagging completion, was started at the end of that event: its snapshot is the tag
    of the table (up to `refBy`, which `addTag` may still extend), and the during-job masks are empty -/
theorem job_started_plain (s : St) (e : Ev) (st : Started) (jn : String) (snap : Tag) (held : List Nat)
    (hw : Sorted s.tags)
    (hjw : s.tag = true ↔ s.jTag.isSome = true)
    (hev : ∀ n r, e = .tagDone n r → ∀ jn' snap' held', s.jTag = some (jn', snap', held') → jn' = n)
    (h : s.tag = false ∨ ∃ n r, e = .tagDone n r)
    (hud : (∀ n cs, e ≠ .updConv n cs) ∧ ∀ n, e ≠ .delTag n)  -- CHANGED (dropped)
    (hj' : (step s e st).1.jTag = some (jn, snap, held)) :
    ∃ ot, sget (step s e st).1.tags jn = some ot ∧ ot.mat = snap.mat ∧ ot.unc = snap.unc ∧
      ot.defn = snap.defn ∧ ot.mfeat = snap.mfeat ∧ ot.sfeat = snap.sfeat ∧ ot.mainT = snap.mainT ∧
      ot.subT = snap.subT ∧
      (step s e st).1.upd = [] ∧ (step s e st).1.rst = [] ∧ (step s e st).1.add = [] ∧
      ot.gen = snap.gen := by  -- CHANGED (gen)
  by_cases hne : ∀ n r, e ≠ .tagDone n r
  · have ht : s.tag = false := by
      rcases h with h | ⟨n, r, h⟩
      · exact h
      · exact absurd h (hne n r)
    have hjn : s.jTag = none := by
      cases hq : s.jTag with
      | none => rfl
      | some p =>
        have := hjw.2 (by simp [hq])
        rw [ht] at this; cases this
    cases step_dec s e st hne (Or.inr hud) with
    | plain hk => rw [hk.jTag, hjn] at hj'; cases hj'
    | tagging X h1 h2 h3 =>
      exact started_of X _ st.tag (h2 hw) (h1.jTag.trans hjn) (h1.tag.trans ht) h3 jn snap held hj'
  · have hex : ∃ n r, e = .tagDone n r := by
      cases e <;> first | exact ⟨_, _, rfl⟩ | exact absurd (fun _ _ h => by cases h) hne
    obtain ⟨n, r, rfl⟩ := hex
    exact tagDone_started s n r st jn snap held hw (hev n r rfl) hj'

theorem JInv.started {A : Nat} {X : St} {jn : String} {snap : Tag} {held : List Nat} (h : JInv A X)
    (hj : X.jTag = some (jn, snap, held)) :
    ∃ ot, sget X.tags jn = some ot ∧ GRel A snap ot ∧
      ∀ id, id ∈ ot.unc → id ∉ snap.unc → id < A → LateCov X snap id := by
  rcases h with ⟨_, h2⟩ | ⟨_, jn', snap', held', ot, hj2, hot, hg, _, hl⟩
  · rw [h2] at hj; cases hj
  · rw [hj2] at hj; cases hj
    exact ⟨ot, hot, hg, hl⟩

/-- `updConv` without a job in flight: the detach fold may start one -/
theorem step_updConv_jinv (s : St) (name : String) (convs : List String) (st : Started) (h0 : FI s s) :
    JInv s.all (step s (.updConv name convs) st).1 := by
  rw [step_updConv_eq]
  repeat' split
  all_goals first | exact h0.jinv | skip
  rename_i t _ _
  unfold ucAttach ucDetach
  refine JInv.post ?_ (foldl_detach_fi s name st.tag (t.convs.filter (fun c => !convs.contains c)) h0).jinv
  exact ((foldl_quiet _ (fun s c => attachConv_quiet s name c) _ _).trans (startConverter_quiet _)).post

/-- `delTag` without a job in flight: the detach fold may start one, possibly for the tag that is deleted -/
theorem step_delTag_jinv (s : St) (name : String) (st : Started) (hw : Sorted s.tags) (hb : Bounded s.all s.tags)
    (ht : s.tag = false) (hjn : s.jTag = none)
    (href : ∀ t', sget s.tags name = some t' → t'.refBy = [] → ∀ n t, sget s.tags n = some t → name ∉ t.refs)
    (jn : String) (snap : Tag) (held : List Nat)
    (hj' : (step s (.delTag name) st).1.jTag = some (jn, snap, held)) :
    (jn ≠ name ∧ JInv s.all (step s (.delTag name) st).1) ∨
    (jn = name ∧ sget (step s (.delTag name) st).1.tags jn = none ∧ ∃ t, sget s.tags jn = some t ∧ Fld t snap) := by
  rw [step_delTag_eq] at hj' ⊢
  split at hj'
  · rw [hjn] at hj'; cases hj'
  · rename_i t ht0
    split at hj'
    · rw [hjn] at hj'; cases hj'
    · rename_i hrb
      have hrb : t.refBy = [] := by simpa using hrb
      simp only [hrb, List.isEmpty_nil, Bool.not_true, Bool.false_eq_true, if_false] at hj' ⊢
      have hF := foldl_detach_fi s name st.tag t.convs (FI.init s hw hb ht hjn)
      have hq : Quiet { (t.convs.foldl (fun s c => detachConv s name c st.tag) s) with
            tags := sdel (t.convs.foldl (fun s c => detachConv s name c st.tag) s).tags name }
          (dtApply s name t st.tag) := by
        unfold dtApply
        exact foldl_quiet _ (fun s r => delRefBy_quiet s r name) _ _
      generalize t.convs.foldl (fun s c => detachConv s name c st.tag) s = F at hF hq
      have hjF : F.jTag = some (jn, snap, held) := by
        have := hq.post.jk.jTag
        rw [hj'] at this; exact this.symm
      rcases hF.jinv with ⟨_, h2⟩ | ⟨htg, jn', snap', held', ot, hj2, hot, hg, hpf, hl⟩
      · rw [h2] at hjF; cases hjF
      · rw [hj2] at hjF; cases hjF
        by_cases hn : jn = name
        · subst hn
          refine Or.inr ⟨rfl, (hq.tags jn).2 (by simp [sget_sdel]), t, ht0, ?_⟩
          obtain ⟨t', e', r'⟩ := hF.g jn t ht0
          rw [hot] at e'; cases e'
          exact r'.1.trans hg.1.symm
        · refine Or.inl ⟨hn, JInv.post hq.post (Or.inr ⟨htg, jn, snap, held, ot, hj2, ?_, hg, hpf, ?_⟩)⟩
          · simp [sget_sdel, Ne.symm hn, hot]
          · intro id hid hns hlt
            refine LateCov.mono (X := F) (JK.of_jp rfl) ?_ (hl id hid hns hlt)
            intro r hr tr htr
            refine ⟨tr, ?_, fun _ hi => hi⟩
            have hne : name ≠ r := by
              rintro rfl
              cases hs : sget s.tags jn with
              | none => rw [hF.back jn hs] at hot; cases hot
              | some tj =>
                obtain ⟨t', e', r'⟩ := hF.g jn tj hs
                rw [hot] at e'; cases e'
                apply href t ht0 hrb jn tj hs
                obtain ⟨_, _, _, _, a5, a6, _⟩ := r'.1
                obtain ⟨_, _, _, _, b5, b6, _⟩ := hg.1
                rw [mem_refs, ← a5, ← a6, b5, b6]
                exact hr
            simp [sget_sdel, hne, htr]

/-- a tagging job that is in flight after an event during which no job was in flight before, or after a
    tagging completion, was started during that event: its snapshot is the tag of the table up to `refBy`
    (which `addTag` may still extend), `convs`, and -- for `updConv` / `delTag`, where a later `outputDropped`
    of the same detach fold may run after the start of the job -- pending streams that arrived late, each of
    which is justified by the references of the snapshot (and then a during-job mask is not empty); or the
    event is a `delTag` of the very tag whose job the detach fold started -/
theorem job_started (s : St) (e : Ev) (st : Started) (jn : String) (snap : Tag) (held : List Nat)
    (hw : Sorted s.tags)
    (hb : ∀ n t, sget s.tags n = some t → ∀ id, id ∈ t.unc → id < s.all)   -- CHANGED (dropped): pending ids are stream ids
    (href : ∀ name' t', e = .delTag name' → sget s.tags name' = some t' → t'.refBy = [] →
      ∀ n t, sget s.tags n = some t → name' ∉ t.refs)   -- CHANGED (dropped): nobody references a tag that can be deleted
    (hjw : s.tag = true ↔ s.jTag.isSome = true)
    (hev : ∀ n r, e = .tagDone n r → ∀ jn' snap' held', s.jTag = some (jn', snap', held') → jn' = n)
    (h : s.tag = false ∨ ∃ n r, e = .tagDone n r)
    (hj' : (step s e st).1.jTag = some (jn, snap, held)) :
    -- CHANGED (dropped)
    (∃ ot, sget (step s e st).1.tags jn = some ot ∧ ot.mat = snap.mat ∧
      (∀ id, id ∈ snap.unc → id < (step s e st).1.all → id ∈ ot.unc) ∧
      ot.defn = snap.defn ∧ ot.mfeat = snap.mfeat ∧ ot.sfeat = snap.sfeat ∧ ot.mainT = snap.mainT ∧
      ot.subT = snap.subT ∧ ot.gen = snap.gen ∧
      (∀ id, id ∈ ot.unc → id ∉ snap.unc → id < (step s e st).1.all → LateCov (step s e st).1 snap id)) ∨
    (e = .delTag jn ∧ sget (step s e st).1.tags jn = none ∧
      ∃ t, sget s.tags jn = some t ∧ t.mainT = snap.mainT ∧ t.subT = snap.subT ∧ t.mfeat = snap.mfeat ∧
        t.sfeat = snap.sfeat ∧ t.gen = snap.gen) := by
  have hnojob : (∀ n r, e ≠ .tagDone n r) → s.tag = false ∧ s.jTag = none := by
    intro hne
    have ht : s.tag = false := by
      rcases h with h | ⟨n, r, h⟩
      · exact h
      · exact absurd h (hne n r)
    refine ⟨ht, ?_⟩
    cases hq : s.jTag with
    | none => rfl
    | some p =>
      have := hjw.2 (by simp [hq])
      rw [ht] at this; cases this
  have fin : ∀ (X : St), X.all = s.all → X.jTag = some (jn, snap, held) → JInv s.all X →
      ∃ ot, sget X.tags jn = some ot ∧ ot.mat = snap.mat ∧
        (∀ id, id ∈ snap.unc → id < X.all → id ∈ ot.unc) ∧
        ot.defn = snap.defn ∧ ot.mfeat = snap.mfeat ∧ ot.sfeat = snap.sfeat ∧ ot.mainT = snap.mainT ∧
        ot.subT = snap.subT ∧ ot.gen = snap.gen ∧
        (∀ id, id ∈ ot.unc → id ∉ snap.unc → id < X.all → LateCov X snap id) := by
    intro X hall hj hi
    obtain ⟨ot, hot, ⟨⟨f1, f2, f3, f4, f5, f6, f7⟩, hgu⟩, hl⟩ := hi.started hj
    rw [hall]
    exact ⟨ot, hot, f1, hgu, f2, f3, f4, f5, f6, f7, hl⟩
  cases e with
  | updConv name convs =>
    obtain ⟨ht, hjn⟩ := hnojob (by intro _ _ h; cases h)
    exact Or.inl (fin _ (step_updConv_fr s name convs st).all hj'
      (step_updConv_jinv s name convs st (FI.init s hw hb ht hjn)))
  | delTag name =>
    obtain ⟨ht, hjn⟩ := hnojob (by intro _ _ h; cases h)
    rcases step_delTag_jinv s name st hw hb ht hjn (fun t' h1 h2 => href name t' rfl h1 h2) jn snap held hj' with
      ⟨_, hi⟩ | ⟨hn, h1, t, h2, f1, f2, f3, f4, f5, f6, f7⟩
    · exact Or.inl (fin _ (step_delTag_fr s name st).all hj' hi)
    · subst hn
      exact Or.inr ⟨rfl, h1, t, h2, f5.symm, f6.symm, f3.symm, f4.symm, f7.symm⟩
  | _ =>
    obtain ⟨ot, h1, h2, h3, h4, h5, h6, h7, h8, _, _, _, h12⟩ :=
      job_started_plain s _ st jn snap held hw hjw hev h ⟨(by intro _ _ h; cases h), (by intro _ h; cases h)⟩ hj'
    exact Or.inl ⟨ot, h1, h2, fun id hid _ => h3 ▸ hid, h4, h5, h6, h7, h8, h12,
      fun id hid hns _ => absurd (h3 ▸ hid) hns⟩

end Pk.Proofs.MgrTruth
