/-
  Helper lemmas for C16Reach, part 2: a converter that is attached to no tag.

  `Held s c id` : stream `id` is cached or queued for converter `c`.
  `UQ c a b`    : on the way from `a` to `b`, if `c` is attached to no tag of `a` then it is attached to no tag of
                  `b` and nothing was added to what is cached-or-queued for `c` (entries only move between the
                  cache and the queue, or disappear).
  `step_uq`     : every event that does not attach `c` satisfies `UQ c`.
-/
import Pk.Model.Manager
import Pk.Proofs.MgrConv
import Pk.Proofs.MgrConvRun
namespace Pk.Proofs.MgrConvRun
open Pk.Mgr Pk.Proofs.MgrConv

/-- converter `c` is attached to no tag -/
def Unatt (s : St) (c : String) : Prop := ∀ n t, sget s.tags n = some t → c ∉ t.convs

/-- stream `id` is cached or queued for converter `c` -/
def Held (s : St) (c : String) (id : Nat) : Prop := id ∈ cOf s c ∨ id ∈ qOf s c

structure UQ (c : String) (a b : St) : Prop where
  tags : Unatt a c → Unatt b c
  held : Unatt a c → ∀ id, Held b c id → Held a c id

theorem UQ.refl (c : String) (a : St) : UQ c a a := ⟨id, fun _ _ h => h⟩
theorem UQ.trans {c : String} {a b d : St} (h1 : UQ c a b) (h2 : UQ c b d) : UQ c a d :=
  ⟨fun h => h2.tags (h1.tags h), fun h id hh => h1.held h id (h2.held (h1.tags h) id hh)⟩
theorem UQ.trans' {c : String} {a b d : St} (h2 : UQ c b d) (h1 : UQ c a b) : UQ c a d := h1.trans h2

theorem unatt_of_le {a b : St} {c : String} (h : TagsLe b.tags a.tags) (hu : Unatt a c) : Unatt b c := by
  intro n t' ht' hc
  rcases h n t' ht' with h0 | ⟨n0, t, ht, hcs, _⟩
  · simp [h0] at hc
  · exact hu n0 t ht (hcs c hc)

theorem UQ.of_sameK {c : String} {a b : St} (h : SameK a b) : UQ c a b :=
  ⟨unatt_of_le h.tags, fun _ id hh => by simpa only [Held, cOf, qOf, h.cached, h.toconv] using hh⟩
theorem UQ.of_same {c : String} {a b : St} (h : Same a b) : UQ c a b := UQ.of_sameK h.1

theorem uq_foldl {β} {c : String} (f : St → β → St) (l : List β) (hf : ∀ s x, x ∈ l → UQ c s (f s x)) (s : St) :
    UQ c s (l.foldl f s) :=
  foldl_rel (UQ c) (UQ.refl c) (fun _ _ _ => UQ.trans) f l hf s

/-- the same tags, cache and queue -/
theorem UQ.of_eq {c : String} {a b : St} (h1 : b.tags = a.tags) (h2 : b.cached = a.cached) (h3 : b.toconv = a.toconv) :
    UQ c a b :=
  ⟨fun h n t ht => h n t (h1 ▸ ht), fun _ id hh => by simpa only [Held, cOf, qOf, h2, h3] using hh⟩

/-! ## `startConverter` -/

theorem sc2_q (s : St) (c : String) (id : Nat) (h : id ∈ qOf (sc2 s) c) : id ∈ qOf s c := by
  have h2 := add_fold (foundOf ((activeOf s).foldl clr1 s).files (((activeOf s).foldl clr1 s).idx.drop 0))
    (activeOf s) { ((activeOf s).foldl clr1 s) with
      used := lock ((activeOf s).foldl clr1 s).used (((activeOf s).foldl clr1 s).idx.drop 0) }
  simp only [NC, Prod.mk.injEq] at h2
  have e : qOf (sc2 s) c = qOf ((activeOf s).foldl clr1 s) c := by
    simp only [sc2, qOf, h2.2.2.2.2.2.1]
  rw [e, clr_fold_q] at h
  split at h
  · cases h
  · exact h

theorem uq_startConverter (c : String) (s : St) : UQ c s (startConverter s) := by
  rw [startConverter_eq]
  split
  · exact UQ.refl _ _
  · split
    · exact UQ.refl _ _
    · refine ⟨fun h n t ht => h n t ((sc2_frame s).1 ▸ ht), fun _ id hh => ?_⟩
      rcases hh with h | h
      · rw [sc2_cached] at h
        rcases h with h | ⟨_, h, _⟩
        · exact Or.inl h
        · exact Or.inr h
      · exact Or.inr (sc2_q s c id h)

/-! ## `invalidateConverters` -/

theorem ic_fold_held (u : IdSet) (l : List String) (s : St) (c : String) (id : Nat)
    (h : Held (l.foldl (ic1 u) s) c id) : Held s c id := by
  induction l generalizing s with
  | nil => exact h
  | cons a r ih =>
    simp only [List.foldl_cons] at h
    have := ih _ h
    rcases this with h1 | h1
    · rw [cOf_ic1] at h1; exact Or.inl h1.1
    · rw [qOf_ic1] at h1
      rcases h1 with h2 | ⟨e, _, h2⟩
      · exact Or.inr h2
      · exact Or.inl (e ▸ h2)

theorem uq_invalidateConverters (c : String) (s : St) (u : IdSet) : UQ c s (invalidateConverters s u) :=
  ⟨unatt_of_le (invalidateConverters_grow s u).tags, fun _ id hh => ic_fold_held u s.convs s c id hh⟩

/-! ## detach / attach -/

-- CHANGED (dropped): `detachConv` takes the tagging choice
theorem uq_detachConv (c : String) (s : St) (n c' : String) (choice : Option String := none) :
    UQ c s (detachConv s n c' choice) := by
  rw [detachConv_eq]
  split
  · exact UQ.refl _ _
  · next t ht =>
    have hs := (Same_dc3 s n c' t choice).1
    refine ⟨unatt_of_le (TagsLe.trans ?_ hs.tags), fun _ id hh => ?_⟩
    · rw [(dc2_frame s n c' t).1]
      exact TagsLe_sins _ _ t _ ht (fun c' h => (List.mem_filter.1 h).1) (fun _ h => h)
    · have hh' : Held (dc2 s n c' t) c id := by simpa only [Held, cOf, qOf, hs.cached, hs.toconv] using hh
      rcases hh' with h | h
      · rw [dc2_c] at h
        split at h
        · cases h
        · exact Or.inl h
      · rw [dc2_q] at h
        split at h
        · next e => subst e; exact Or.inr ((mem_inter _ _ _).1 h).1
        · exact Or.inr h

theorem uq_attachConv (c : String) (s : St) (n c' : String) (hne : c' ≠ c) : UQ c s (attachConv s n c').1 := by
  unfold attachConv
  split
  · exact UQ.refl _ _
  · next t ht =>
    split
    · exact UQ.refl _ _
    · split
      · exact UQ.refl _ _
      · refine ⟨fun hu m u hm hc => ?_, fun _ id hh => ?_⟩
        · simp only [setTag, sget_sins] at hm
          split at hm
          · cases hm
            simp only [List.mem_append, List.mem_singleton] at hc
            rcases hc with h1 | h1
            · exact hu n t ht h1
            · exact hne h1.symm
          · exact hu m u hm hc
        · simp only [Held, cOf, qOf, setTag, sget_sins, if_neg hne] at hh
          exact hh

/-! ## publishing / mark updates: queueing for the converters of a tag -/

theorem uq_publish (c : String) (s : St) (name n0 : String) (ot t : Tag) (ht : sget s.tags n0 = some ot)
    (hc : t.convs = ot.convs) : UQ c s (setTag (t.convs.foldl (qadd1 t.mat) s) name t) := by
  have e := qadd_fold t.mat t.convs s
  simp only [NQ, Prod.mk.injEq] at e
  obtain ⟨e1, e2, e3, e4, e5, e6, _⟩ := e
  refine ⟨fun hu m u hm hcu => ?_, fun hu id hh => ?_⟩
  · simp only [setTag, sget_sins, e1] at hm
    split at hm
    · cases hm; rw [hc] at hcu; exact hu n0 ot ht hcu
    · exact hu m u hm hcu
  · have hnc : c ∉ t.convs := hc ▸ hu n0 ot ht
    rcases hh with h | h
    · left; simpa only [cOf, setTag, e6] using h
    · right
      have : id ∈ qOf (t.convs.foldl (qadd1 t.mat) s) c := h
      rw [qadd_fold_q] at this
      rcases this with h1 | ⟨h1, _⟩
      · exact h1
      · exact absurd h1 hnc

theorem uq_markUpdate (c : String) (s : St) (name : String) (a d : List Nat) : UQ c s (markUpdate s name a d).1 := by
  rw [markUpdate_eq]
  split
  · exact UQ.refl _ _
  · next t ht =>
    simp only []
    refine UQ.trans ?_ (UQ.of_same (muFin_same _ _ _ _))
    obtain ⟨fresh, a1, a2, a3, a4⟩ := muAdd_props t s a
    obtain ⟨d1, d2⟩ := muDel_props (muAdd t s a).1 d
    simp only [NQ, Prod.mk.injEq] at a3
    obtain ⟨e1, e2, e3, e4, e5, e6, _⟩ := a3
    refine ⟨fun hu m u hm hcu => ?_, fun hu id hh => ?_⟩
    · simp only [setTag, sget_sins, e1] at hm
      split at hm
      · cases hm; rw [d1, a1] at hcu; exact hu name t ht hcu
      · exact hu m u hm hcu
    · rcases hh with h | h
      · left; simpa only [cOf, setTag, e6] using h
      · right
        have : id ∈ qOf (muAdd t s a).2 c := h
        rw [a4] at this
        rcases this with h1 | ⟨h1, _⟩
        · exact h1
        · exact absurd h1 (hu name t ht)

/-! ## `UQ`, event by event (the structure of the `ev_*` lemmas of MgrConv) -/

section events
variable (c : String)

theorem uq_release (s : St) (fs : List Nat) : UQ c s (release s fs) := UQ.of_sameK (release_sameK s fs).1

theorem uq_importPcaps (s : St) (st : Started) (names : List String) : UQ c s (step s (.importPcaps names) st).1 := by
  simp only [step]
  split
  · exact UQ.refl _ _
  · simp only []
    split
    · refine UQ.trans ?_ (UQ.of_same (Same_startImport _))
      exact UQ.of_eq rfl rfl rfl
    · exact UQ.of_eq rfl rfl rfl

theorem uq_viewOpen (s : St) (st : Started) (k : Nat) : UQ c s (step s (.viewOpen k) st).1 := by
  simp only [step]
  split
  · exact UQ.refl _ _
  · exact UQ.of_eq rfl rfl rfl

theorem uq_viewRelease (s : St) (st : Started) (k : Nat) : UQ c s (step s (.viewRelease k) st).1 := by
  simp only [step]
  split
  · exact UQ.refl _ _
  · refine UQ.trans ?_ (uq_release c _ _)
    exact UQ.of_eq rfl rfl rfl

theorem uq_updColor (s : St) (st : Started) (name color : String) : UQ c s (step s (.updColor name color) st).1 := by
  simp only [step]
  split
  · exact UQ.refl _ _
  · next t ht =>
    simp only []
    split
    · exact UQ.refl _ _
    · exact UQ.of_same (Same_setTag s name t _ ht (fun _ h => h) (fun _ h => h))

theorem uq_mergeDone (s : St) (st : Started) (merged : List (Nat × List Nat)) :
    UQ c s (step s (.mergeDone merged) st).1 := by
  simp only [step]
  split
  · exact UQ.refl _ _
  · next off held hj =>
    simp only []
    refine UQ.trans ?_ (uq_release c _ _)
    refine UQ.trans ?_ (UQ.of_same (Same_startMerge _))
    split
    · exact UQ.of_eq rfl rfl rfl
    · refine UQ.trans (b := release { s with jMerge := none } (List.take held.length (List.drop off s.idx))) ?_
        (UQ.of_eq rfl rfl rfl)
      refine UQ.trans ?_ (uq_release c _ _)
      exact UQ.of_eq rfl rfl rfl

theorem uq_tagDone (s : St) (st : Started) (name : String) (result : List Nat) :
    UQ c s (step s (.tagDone name result) st).1 := by
  simp only [step]
  split
  · exact UQ.refl _ _
  · next jn snap held hj =>
    split
    · exact UQ.of_eq rfl rfl rfl
    · simp only []
      refine UQ.trans ?_ (uq_release c _ _)
      refine UQ.trans ?_ (UQ.of_same (Same_startMerge _))
      refine UQ.trans ?_ (uq_startConverter c _)
      refine UQ.trans ?_ (UQ.of_same (Same_startTagging _ _))
      have h0 : UQ c s { s with jTag := none } := UQ.of_eq rfl rfl rfl
      refine UQ.trans ?_ (UQ.of_same (Same_tagflag _ false))
      refine UQ.trans h0 ?_
      split
      · next ot hot =>
        split
        · have hp := uq_publish c { s with jTag := none } name name ot
            { snap with mat := union (diff snap.mat snap.unc) (ofList result), unc := [], color := ot.color, convs := ot.convs, refBy := ot.refBy }
            hot rfl
          split
          · exact hp
          · exact hp.trans (UQ.of_same (Same_invalidateTags _ _ _ _))
        · exact UQ.refl _ _
      · exact UQ.refl _ _

theorem uq_convertDone (s : St) (st : Started) : UQ c s (step s .convertDone st).1 := by
  simp only [step]
  split
  · exact UQ.refl _ _
  · next sets held hj =>
    simp only []
    refine UQ.trans ?_ (uq_release c _ _)
    refine UQ.trans ?_ (uq_startConverter c _)
    refine UQ.trans ?_ (UQ.of_same (Same_startTagging _ _))
    refine UQ.trans ?_ (UQ.of_same (Same_inherit _))
    refine UQ.trans (b := { s with convert := false, jConv := none }) (UQ.of_eq rfl rfl rfl) ?_
    refine UQ.of_same (Same_foldl _ _ ?_ _)
    intro s' x
    split
    · exact Same.refl _
    · refine ⟨⟨rfl, rfl, rfl, rfl, rfl, ?_⟩, rfl, rfl⟩
      apply TagsLe_map
      intro y
      split
      · split <;> exact ⟨rfl, rfl, rfl⟩
      · split <;> exact ⟨rfl, rfl, rfl⟩

theorem uq_markAdd (s : St) (st : Started) (name : String) (ids : List Nat) :
    UQ c s (step s (.markAdd name ids) st).1 := by
  simp only [step]
  repeat' split
  all_goals first | exact UQ.refl _ _ | skip
  simp only []
  refine UQ.trans ?_ (uq_startConverter c _)
  refine UQ.trans ?_ (UQ.of_same (Same_startTagging _ _))
  exact uq_markUpdate c _ _ _ _

theorem uq_markDel (s : St) (st : Started) (name : String) (ids : List Nat) :
    UQ c s (step s (.markDel name ids) st).1 := by
  simp only [step]
  repeat' split
  all_goals first | exact UQ.refl _ _ | skip
  simp only []
  refine UQ.trans ?_ (uq_startConverter c _)
  refine UQ.trans ?_ (UQ.of_same (Same_startTagging _ _))
  exact uq_markUpdate c _ _ _ _

theorem uq_delTag (s : St) (st : Started) (name : String) : UQ c s (step s (.delTag name) st).1 := by
  simp only [step]
  split
  · exact UQ.refl _ _
  · next t ht =>
    split
    · exact UQ.refl _ _
    · simp only []
      refine UQ.trans ?_ (UQ.of_same (Same_foldl _ _ (fun s r => Same_delRefBy s r name) _))
      refine UQ.trans (b := t.convs.foldl (fun s c => detachConv s name c st.tag) s) ?_
        (UQ.of_same ⟨⟨rfl, rfl, rfl, rfl, rfl, TagsLe_sdel _ _⟩, rfl, rfl⟩)
      exact uq_foldl _ _ (fun s c' _ => uq_detachConv c s name c' st.tag) s

theorem uq_addTag (s : St) (st : Started) (name color defn : String) (f : Facts) :
    UQ c s (step s (.addTag name color defn f) st).1 := by
  simp only [step]
  rcases parseTagName name with ⟨typ, sub, isMark⟩
  simp only []
  repeat' split
  all_goals first | exact UQ.refl _ _ | skip
  all_goals
    simp only []
    refine UQ.trans ?_ (UQ.of_same (Same_foldl _ _ (fun s r => Same_addRefBy s r name) _))
  · refine UQ.trans ?_ (UQ.of_same (Same_setTag_new { s with ngen := s.ngen + 1 } _ _ rfl))
    exact UQ.of_eq rfl rfl rfl
  · refine UQ.trans ?_ (UQ.of_same (Same_startTagging _ _))
    refine UQ.trans ?_ (UQ.of_same (Same_setTag_new { s with ngen := s.ngen + 1 } _ _ rfl))
    exact UQ.of_eq rfl rfl rfl

theorem uq_updQuery (s : St) (st : Started) (name defn : String) (f : Facts) :
    UQ c s (step s (.updQuery name defn f) st).1 := by
  simp only [step]
  split
  · exact UQ.refl _ _
  · split
    · exact UQ.refl _ _
    · split
      · exact UQ.refl _ _
      · split
        · exact UQ.refl _ _
        · next t ht =>
          split
          · exact UQ.refl _ _
          · split
            · exact UQ.refl _ _
            · split
              · exact UQ.refl _ _
              · simp only []
                refine UQ.trans ?_ (uq_startConverter c _)
                refine UQ.trans ?_ (UQ.of_same (Same_startTagging _ _))
                refine UQ.trans ?_ (UQ.of_same (Same_invDuring _ _))
                refine UQ.trans ?_ (UQ.of_same (Same_inherit _))
                refine UQ.of_same (Same_setTag' s _ ?_ name name t _ ht (fun _ h => h) (fun _ h => by simp at h))
                exact (Same_foldl _ _ (fun s r => Same_delRefBy s r name) _).trans
                  (Same_foldl _ _ (fun s r => Same_addRefBy s r name) _)

theorem uq_updName (s : St) (st : Started) (name new : String) : UQ c s (step s (.updName name new) st).1 := by
  simp only [step]
  split
  · exact UQ.refl _ _
  · next t ht =>
    split
    · exact UQ.refl _ _
    · rcases parseTagName name with ⟨oldTyp, x1, x2⟩
      rcases parseTagName new with ⟨newTyp, newSub, x3⟩
      simp only []
      split
      · exact UQ.refl _ _
      · split
        · exact UQ.refl _ _
        · split
          · exact UQ.refl _ _
          · split
            · exact UQ.refl _ _
            · simp only []
              refine UQ.trans ?_ (UQ.of_same (Same_foldl _ _ (fun s r => (Same_delRefBy s r name).trans (Same_addRefBy _ r new)) _))
              refine UQ.of_same (Same_tags s _ ?_)
              exact TagsLe_sins' _ _ (TagsLe_sdel _ _) new name t t ht (fun _ h => h) (fun _ h => h)

/-- an `updConv` that does not select `c` -/
theorem uq_updConv (s : St) (st : Started) (name : String) (convs : List String) (hc : c ∉ convs) :
    UQ c s (step s (.updConv name convs) st).1 := by
  simp only [step]
  split
  · exact UQ.refl _ _
  · next t ht =>
    split
    · exact UQ.refl _ _
    · simp only []
      refine UQ.trans ?_ (uq_startConverter c _)
      refine UQ.trans ?_ (uq_foldl _ _ (fun s c' hc' => uq_attachConv c s name c' ?_) _)
      · exact uq_foldl _ _ (fun s c' _ => uq_detachConv c s name c' st.tag) s
      · rintro rfl
        exact hc (List.mem_filter.1 hc').1

theorem uq_importDone (s : St) (st : Started) (processed usednew : Nat)
    (created : List (Nat × List Nat)) (upd rst add : List Nat) :
    UQ c s (step s (.importDone processed usednew created upd rst add) st).1 := by
  rw [MgrConv.step_importDone_eq]
  split
  · exact UQ.refl _ _
  · next jn held hj =>
    simp only []
    unfold impD
    refine UQ.trans ?_ (UQ.of_same (Same_startMerge _))
    refine UQ.trans ?_ (uq_startConverter c _)
    refine UQ.trans ?_ (UQ.of_same (Same_startTagging _ _))
    refine UQ.trans (b := impB (impA s jn held usednew) jn usednew created (ofList upd) (ofList rst) (ofList add)) ?_ ?_
    · have gA : UQ c s (impA s jn held usednew) := by
        unfold impA
        refine UQ.trans ?_ (uq_release c _ _)
        exact UQ.of_eq rfl rfl rfl
      refine gA.trans ?_
      unfold impB
      split
      · exact UQ.refl _ _
      · simp only []
        refine UQ.trans ?_ (uq_invalidateConverters c _ _)
        refine UQ.trans ?_ (uq_invalidateConverters c _ _)
        refine UQ.trans ?_ (UQ.of_same (Same_invalidateTags _ _ _ _))
        exact UQ.of_eq rfl rfl rfl
    · unfold impC
      simp only []
      split
      · exact UQ.of_eq rfl rfl rfl
      · refine UQ.trans ?_ (UQ.of_same (Same_startImport _))
        exact UQ.of_eq rfl rfl rfl

end events

/-- EVERY EVENT that does not select `c` in an `updConv`: while `c` is attached to no tag, it stays so and
    nothing is added to what is cached or queued for it -/
theorem step_uq (c : String) (s : St) (e : Ev) (st : Started) (h : ∀ n cs, e = .updConv n cs → c ∉ cs) :
    UQ c s (step s e st).1 := by
  cases e with
  | nop => exact UQ.refl _ _
  | importPcaps names => exact uq_importPcaps c s st names
  | importDone p u cr a b d => exact uq_importDone c s st p u cr a b d
  | tagDone name result => exact uq_tagDone c s st name result
  | mergeDone merged => exact uq_mergeDone c s st merged
  | convertDone => exact uq_convertDone c s st
  | addTag name color defn f => exact uq_addTag c s st name color defn f
  | updQuery name defn f => exact uq_updQuery c s st name defn f
  | updColor name color => exact uq_updColor c s st name color
  | updName name new => exact uq_updName c s st name new
  | updConv name convs => exact uq_updConv c s st name convs (h name convs rfl)
  | markAdd name ids => exact uq_markAdd c s st name ids
  | markDel name ids => exact uq_markDel c s st name ids
  | delTag name => exact uq_delTag c s st name
  | viewOpen k => exact uq_viewOpen c s st k
  | viewRelease k => exact uq_viewRelease c s st k

/-! ## the dropped-output step keeps every tag's converters (key by key) -/

/-- key by key: a tag exists iff it existed, with the same converters -/
def CK (T T' : List (String × Tag)) : Prop := ∀ n, (sget T' n).map (·.convs) = (sget T n).map (·.convs)

theorem CK.refl (T : List (String × Tag)) : CK T T := fun _ => rfl
theorem CK.trans {A B C : List (String × Tag)} (h1 : CK A B) (h2 : CK B C) : CK A C :=
  fun n => (h2 n).trans (h1 n)

theorem ck_sins {T : List (String × Tag)} {m : String} {t t' : Tag} (hm : sget T m = some t)
    (hc : t'.convs = t.convs) : CK T (sins m t' T) := by
  intro n
  rw [sget_sins]
  split
  · next e => subst e; rw [hm]; simp [hc]
  · rfl

theorem passStep_ck (all : Nat) (T0 : List (String × Tag)) (acc) (nt : String × Tag)
    (h : CK T0 acc.1) : CK T0 (MgrTags.passStep all acc nt).1 := by
  unfold MgrTags.passStep
  split
  · exact h
  · split
    · exact h
    · rename_i t ht
      split
      · exact h.trans (ck_sins ht (inheritOne_convs _ _ _).1)
      · exact h

theorem inherit_ck (s : St) : CK s.tags (inherit s).tags := by
  obtain ⟨res, h, _⟩ := MgrTags.inheritLoop_inv s.all (fun acc => CK s.tags acc.1)
    (passStep_ck s.all s.tags) (s.tags.length + 1) s.tags [] (CK.refl _)
  exact h

theorem outputDropped_ck (s : St) (choice : Option String) : CK s.tags (outputDropped s choice).tags := by
  rw [MgrTags.outputDropped_eq]
  split
  · rw [(MgrTags.startTagging_same _ _).1, (MgrTags.invalidatedDuring_same _ _).1]
    refine CK.trans ?_ (inherit_ck _)
    intro n
    show (sget (s.tags.map fun p => (p.1, MgrTags.odF s.all p.2)) n).map _ = _
    rw [MgrTags.sget_map (fun _ t => MgrTags.odF s.all t)]
    cases sget s.tags n with
    | none => rfl
    | some t =>
      simp only [Option.map_some]
      unfold MgrTags.odF
      split <;> rfl
  · exact CK.refl _

/-! ## detaching from the last tag -/

-- CHANGED (detach): the queue of `c` is EMPTY afterwards (before the fix: "what is still queued was queued before
-- and is not matched by the tag")
-- CHANGED (dropped): `detachConv` takes the tagging choice
/-- after `detachConv s n c choice`, when no OTHER tag has `c` attached: `c` is attached to no tag, its cache and its
    queue are empty -/
theorem detach_last (s : St) (n c : String) (t : Tag) (choice : Option String)
    (hw : (s.tags.map (·.1)).Pairwise (· < ·))
    (ht : sget s.tags n = some t) (hoth : ∀ n2 t2, sget s.tags n2 = some t2 → n2 ≠ n → c ∉ t2.convs) :
    Unatt (detachConv s n c choice) c ∧ cOf (detachConv s n c choice) c = [] ∧
      qOf (detachConv s n c choice) c = [] := by
  have hot : othersOf (sins n { t with convs := t.convs.filter (· != c) } s.tags) n c = [] := by
    cases hl : othersOf (sins n { t with convs := t.convs.filter (· != c) } s.tags) n c with
    | nil => rfl
    | cons id r =>
      exfalso
      have hm : id ∈ othersOf (sins n { t with convs := t.convs.filter (· != c) } s.tags) n c := by
        rw [hl]; exact List.mem_cons_self
      rw [mem_othersOf] at hm
      obtain ⟨⟨n2, t2⟩, hx, h1, h2, _⟩ := hm
      rcases (sins_sorted s.tags hw n _).2 _ hx with e | e
      · cases e; exact h1 rfl
      · exact hoth n2 t2 (mem_sget_of_sorted _ hw _ _ e) h1 h2
  rw [detachConv_eq, ht]
  simp only []
  have hs := (Same_dc3 s n c t choice).1
  have e1 : cOf (dc3 s n c t choice) c = cOf (dc2 s n c t) c := by simp only [cOf, hs.cached]
  have e2 : qOf (dc3 s n c t choice) c = qOf (dc2 s n c t) c := by simp only [qOf, hs.toconv]
  refine ⟨unatt_of_le hs.tags ?_, ?_, ?_⟩
  · intro m u hm hc
    rw [(dc2_frame s n c t).1, sget_sins] at hm
    split at hm
    · cases hm
      simp at hc
    · next hne => exact hoth m u hm (fun e => hne e.symm) hc
  · rw [e1, dc2_c, hot]; simp
  · rw [e2, dc2_q, hot, if_pos rfl]
    apply List.eq_nil_iff_forall_not_mem.2
    intro id hid
    have := ((mem_inter _ _ _).1 hid).2
    cases this

/-! ## the events that detach: `updConv`, `delTag` -/

-- CHANGED (detach): the hypothesis "nothing is queued for `c`" is gone
-- CHANGED (dropped): `detachConv` takes the tagging choice
/-- detaching a list of converters that contains `c` from the last tag that has `c` attached: afterwards `c` is
    attached to no tag and holds nothing -/
theorem detach_fold_clean (c name : String) (choice : Option String) (L : List String) (hL : c ∈ L) (s : St) (t : Tag)
    (hw : (s.tags.map (·.1)).Pairwise (· < ·)) (ht : sget s.tags name = some t)
    (hoth : ∀ n2 t2, sget s.tags n2 = some t2 → n2 ≠ name → c ∉ t2.convs) :
    Unatt (L.foldl (fun s c' => detachConv s name c' choice) s) c ∧
    ∀ id, ¬ Held (L.foldl (fun s c' => detachConv s name c' choice) s) c id := by
  induction L generalizing s t with
  | nil => cases hL
  | cons c' r ih =>
    simp only [List.foldl_cons]
    by_cases hcc : c' = c
    · subst hcc
      obtain ⟨h1, h2, h3⟩ := detach_last s name c' t choice hw ht hoth
      have huq := uq_foldl (c := c') (fun s c'' => detachConv s name c'' choice) r
        (fun s c'' _ => uq_detachConv c' s name c'' choice) (detachConv s name c' choice)
      refine ⟨huq.tags h1, fun id hh => ?_⟩
      rcases huq.held h1 id hh with h | h
      · rw [h2] at h; cases h
      · rw [h3] at h; cases h
    · have hL' : c ∈ r := by
        rcases List.mem_cons.1 hL with e | e
        · exact absurd e.symm hcc
        · exact e
      have hd : detachConv s name c' choice = dc3 s name c' t choice := by rw [detachConv_eq, ht]
      -- key by key the tags after the detach (incl. the dropped-output step) have the converters of `dc2`
      have hck : CK (sins name { t with convs := t.convs.filter (· != c') } s.tags)
          (detachConv s name c' choice).tags := by
        rw [hd]
        rcases dc3_cases s name c' t choice with e | e <;> rw [e]
        · rw [(dc2_frame s name c' t).1]; exact CK.refl _
        · have := outputDropped_ck (dc2 s name c' t) choice
          rwa [(dc2_frame s name c' t).1] at this
      have hsorted : ((detachConv s name c' choice).tags.map (·.1)).Pairwise (· < ·) :=
        (MgrTags.detachConv_fr s name c' choice).sorted hw
      have hname := hck name
      rw [sget_sins, if_pos rfl] at hname
      cases ht' : sget (detachConv s name c' choice).tags name with
      | none => rw [ht'] at hname; cases hname
      | some t' =>
        refine ih hL' (detachConv s name c' choice) t' hsorted ht' ?_
        intro n2 t2 h2 hne hc2
        have h3 := hck n2
        rw [h2, sget_sins, if_neg (fun e => hne e.symm)] at h3
        cases h0 : sget s.tags n2 with
        | none => rw [h0] at h3; cases h3
        | some t0 =>
          rw [h0] at h3
          simp only [Option.map_some, Option.some.injEq] at h3
          exact hoth n2 t0 h0 hne (h3 ▸ hc2)

-- CHANGED (detach): the hypothesis "nothing is queued for `c`" is gone
/-- an accepted `updConv` that deselects `c` on the last tag that has it -/
theorem updConv_detach_clean (c : String) (s : St) (st : Started) (name : String) (cs : List String) (t : Tag)
    (hw : (s.tags.map (·.1)).Pairwise (· < ·)) (ht : sget s.tags name = some t) (hc : c ∈ t.convs) (hcs : c ∉ cs)
    (hoth : ∀ n2 t2, sget s.tags n2 = some t2 → n2 ≠ name → c ∉ t2.convs)
    (hacc : (step s (.updConv name cs) st).2 ≠ Res.err) :
    Unatt (step s (.updConv name cs) st).1 c ∧ ∀ id, ¬ Held (step s (.updConv name cs) st).1 c id := by
  revert hacc
  rw [MgrTags.step_updConv_eq, ht]
  simp only []
  split
  · intro h; exact absurd rfl h
  · intro _
    unfold MgrTags.ucAttach MgrTags.ucDetach
    have hin : c ∈ t.convs.filter (fun c' => !cs.contains c') := by
      rw [List.mem_filter]; exact ⟨hc, by simpa using hcs⟩
    obtain ⟨h1, h2⟩ := detach_fold_clean c name st.tag _ hin s t hw ht hoth
    have huq : UQ c ((t.convs.filter (fun c' => !cs.contains c')).foldl (fun s c' => detachConv s name c' st.tag) s)
        (startConverter (MgrTags.ucAttach (MgrTags.ucDetach s name t cs st.tag) name cs)) := by
      unfold MgrTags.ucAttach MgrTags.ucDetach
      refine UQ.trans ?_ (uq_startConverter c _)
      refine uq_foldl _ _ (fun s c' hc' => uq_attachConv c s name c' ?_) _
      rintro rfl
      exact hcs (List.mem_filter.1 hc').1
    unfold MgrTags.ucAttach MgrTags.ucDetach at huq
    exact ⟨huq.tags h1, fun id hh => h2 id (huq.held h1 id hh)⟩

-- CHANGED (detach): the hypothesis "nothing is queued for `c`" is gone
/-- an accepted `delTag` of the last tag that has `c` attached -/
theorem delTag_detach_clean (c : String) (s : St) (st : Started) (name : String) (t : Tag)
    (hw : (s.tags.map (·.1)).Pairwise (· < ·)) (ht : sget s.tags name = some t) (hc : c ∈ t.convs)
    (hoth : ∀ n2 t2, sget s.tags n2 = some t2 → n2 ≠ name → c ∉ t2.convs)
    (hacc : (step s (.delTag name) st).2 ≠ Res.err) :
    Unatt (step s (.delTag name) st).1 c ∧ ∀ id, ¬ Held (step s (.delTag name) st).1 c id := by
  revert hacc
  rw [MgrTags.step_delTag_eq, ht]
  simp only []
  split
  · intro h; exact absurd rfl h
  · intro _
    unfold MgrTags.dtApply
    obtain ⟨h1, h2⟩ := detach_fold_clean c name st.tag _ hc s t hw ht hoth
    have huq : UQ c (t.convs.foldl (fun s c' => detachConv s name c' st.tag) s) (MgrTags.dtApply s name t st.tag) := by
      unfold MgrTags.dtApply
      refine UQ.trans ?_ (UQ.of_same (Same_foldl _ _ (fun s r => Same_delRefBy s r name) _))
      exact UQ.of_same ⟨⟨rfl, rfl, rfl, rfl, rfl, TagsLe_sdel _ _⟩, rfl, rfl⟩
    unfold MgrTags.dtApply at huq
    exact ⟨huq.tags h1, fun id hh => h2 id (huq.held h1 id hh)⟩

end Pk.Proofs.MgrConvRun
