/- Helper lemmas for C06Reach: the converter completion. -/
import Pk.Proofs.MgrTruthEvA
namespace Pk.Props.C06Reach
open Pk.Mgr Pk.Props.MgrReach Pk.Proofs.MgrTruth Pk.Proofs.MgrTags

theorem attrs_cdAll (all : Nat) (convs : List String) (sets : List (String × IdSet)) (t : Tag) :
    Attrs (cdAll all convs sets t) = Attrs t := by
  unfold cdAll
  induction sets generalizing t with
  | nil => rfl
  | cons p l ih =>
    simp only [List.foldl_cons]
    rw [ih]
    split
    · exact attrs_cdF _ _ _
    · rfl

theorem fdt_of_data {x : Nat} (h : x &&& fData ≠ 0) : x &&& (fData ||| fTimeAbs ||| fTimeRel) ≠ 0 := by
  intro h0
  apply h
  have e : fData = (fData ||| fTimeAbs ||| fTimeRel) &&& fData := by decide
  rw [e, ← Nat.and_assoc, h0, Nat.zero_and]

theorem not_edits_convertDone (n : String) : ¬ C06.Edits .convertDone n := fun h => h

/-- a converter completion -/
theorem good_convertDone (s : St) (st : Started) (T T' g : Truth) (hg : Good s T g)
    (sets : List (String × IdSet)) (held : List Nat) (hj : s.jConv = some (sets, held))
    (hch : ChangesIn s s.next (ConvBase s sets) T T') :
    C06.Inv (step s .convertDone st).1 T' ∧
    (∀ jn' snap held', s.jTag = some (jn', snap, held') → JobInv (step s .convertDone st).1 T' g) := by
  have hr := hg.reach
  have hw := hr.tagsWF
  obtain ⟨s1, htags, hall, hnext, h1all, h1tags⟩ := convertDone_via s st sets held hj
  have hget : ∀ n, sget s1.tags n = (sget s.tags n).map (cdAll s.all s.convs sets) := by
    intro n
    rw [h1tags]
    exact sget_map (fun _ t => cdAll s.all s.convs sets t) s.tags n
  have hsort : Sorted s1.tags := by
    apply sorted_of_keys_eq s.tags s1.tags _ hw
    rw [h1tags]; simp [Function.comp_def]
  have hbnd : Bounded s1.all s1.tags := by
    intro n t1 h1 x hx
    rw [hget] at h1
    cases hs : sget s.tags n with
    | none => rw [hs] at h1; cases h1
    | some t =>
      rw [hs] at h1
      simp only [Option.map_some, Option.some.injEq] at h1
      subst h1
      rw [h1all]
      rcases cdAll_bound _ _ _ _ _ hx with h | h | ⟨p, hp, hxp⟩
      · exact hr.uncBounded n t hs x h
      · exact h
      · exact hr.jobUnc.2.2.2.2.2 sets held hj p hp x hxp
  have hattr : ∀ n, (sget s1.tags n).map Attrs = (sget s.tags n).map Attrs := by
    intro n
    rw [hget]
    cases sget s.tags n with
    | none => rfl
    | some t => simp [attrs_cdAll]
  have htopo : Pk.Proofs.MgrTermination.Topo s1.tags :=
    Pk.Proofs.MgrTermination.topo_of_fq hw (fq_of_attrs hattr) (topo_of_acyclic s hg.acyclic)
  have P : ∀ n id, Dep s.tags s.next (ConvBase s sets) n id → id < s.all →
      Pend (step s .convertDone st).1.tags n id := by
    intro n id hd hid
    rw [htags]
    refine sweep_pending s.tags s1 hsort hbnd htopo (h1all ▸ hr.nextLeAll) ?_ ?_ n id hd (h1all ▸ hid)
    · intro n t0 h0
      refine ⟨cdAll s.all s.convs sets t0, by rw [hget, h0]; rfl, Or.inl ?_⟩
      obtain ⟨e1, e2, _⟩ := attrs_eq (attrs_cdAll s.all s.convs sets t0)
      exact ⟨e1, e2⟩
    · rintro n id ⟨t, ht, p, hp, hpc, hB⟩ hid
      rw [h1all] at hid
      refine ⟨cdAll s.all s.convs sets t, by rw [hget, ht]; rfl, ?_⟩
      rcases hB with ⟨hm, hid'⟩ | ⟨hsf, hne⟩
      · exact cdAll_main _ _ _ _ _ hm p hp hpc hid' hid
      · exact cdAll_sub _ _ _ _ _ hsf p hp hpc hne hid
  have hna : s.next ≤ s.all := hr.nextLeAll
  refine ⟨?_, ?_⟩
  · refine C06.inv_step_stable s _ st T T' hw hg.inv not_edits_convertDone hr.nextLeAll ?_
    intro n t' h' id hid hcase
    rw [hnext] at hid
    have hk := keep_step s .convertDone st n (not_edits_convertDone n)
    cases hsn : sget s.tags n with
    | none => rw [hk.2 hsn] at h'; cases h'
    | some t =>
      rcases hcase with hcase | hcase
      · omega
      · obtain ⟨t2, h2, hu⟩ := P n id (hch n t hsn id hid hcase) (by omega)
        rw [h'] at h2; cases h2; exact hu
  · intro jn' snap held' hjt
    have htag : s.tag = true := hr.jobsWF.1.2 (by rw [hjt]; rfl)
    have mu := convertDone_masks s st sets held hj htag
    have hne : ∀ n r, Ev.convertDone ≠ .tagDone n r := fun n r h => by cases h
    refine jobInv_mono s _ st T T' g hr hg.job hne jn' snap held' hjt ?_ ?_
    · intro id h1 h2
      rw [hnext] at h2; omega
    · intro n' ot' hot' hg' hd'
      obtain ⟨ot, hot, hg0, hd, ha⟩ := pre_of_not_edits s _ st n' snap ot' (not_edits_convertDone n') hot' hg' hd'
      refine Or.inr ⟨n', ot, hot, hg0, hd, ha, ?_⟩
      intro hA id hid hT
      obtain ⟨r1, r2, e1, e2, _⟩ := attrs_eq hA
      have hlt : id < s.all := by omega
      refine job_cover hot r1 r2 (hch n' ot hot id hid hT) ?_ ?_ ?_ ?_
      · rintro ⟨t, ht, p, hp, hpc, hB⟩
        rw [hot] at ht; cases ht
        rcases hB with ⟨hm, hid'⟩ | ⟨hsf, hne'⟩
        · exact Or.inr (Or.inr (Or.inr ⟨mu p hp hpc id hid', by unfold FDT; rw [← e1]; exact fdt_of_data hm⟩))
        · refine Or.inr (Or.inl ⟨?_, ?_⟩)
          · intro h0
            rw [← e2] at h0
            rw [h0, Nat.zero_and] at hsf
            exact hsf rfl
          · cases hp2 : p.2 with
            | nil => exact absurd hp2 hne'
            | cons x l => exact masksNE_of_mem (Or.inl (mu p hp hpc x (by rw [hp2]; simp)))
      · intro r _ hd'
        exact Or.inr (P r id hd' hlt)
      · intro r _ id2 hid2 hd'
        exact Or.inr ⟨id2, P r id2 hd' (by omega)⟩
      · rintro ⟨n0, id0, t, _, p, hp, hpc, hB⟩
        rcases hB with ⟨_, hid'⟩ | ⟨_, hne'⟩
        · exact masksNE_of_mem (Or.inl (mu p hp hpc id0 hid'))
        · cases hp2 : p.2 with
          | nil => exact absurd hp2 hne'
          | cons x l => exact masksNE_of_mem (Or.inl (mu p hp hpc x (by rw [hp2]; simp)))

end Pk.Props.C06Reach
