/- Helper lemmas for C06Reach: the converter completion. -/
import Pk.Proofs.MgrTruthEvA
namespace Pk.Props.C06Reach
open Pk.Mgr Pk.Props.MgrReach Pk.Proofs.MgrTruth Pk.Proofs.MgrTags

theorem attrs_cdAll (convs : List String) (sets : List (String × IdSet)) (t : Tag) :
    Attrs (cdAll convs sets t) = Attrs t := by
  unfold cdAll
  induction sets generalizing t with
  | nil => rfl
  | cons p l ih =>
    simp only [List.foldl_cons]
    rw [ih]
    split
    · exact attrs_cdF _ _
    · rfl

theorem fdt_of_data {x : Nat} (h : x &&& fData ≠ 0) : x &&& (fData ||| fTimeAbs ||| fTimeRel) ≠ 0 := by
  intro h0
  apply h
  have e : fData = (fData ||| fTimeAbs ||| fTimeRel) &&& fData := by decide
  rw [e, ← Nat.and_assoc, h0, Nat.zero_and]

theorem not_edits_convertDone (n : String) : ¬ C06.Edits .convertDone n := fun h => h

/-- a converter completion -/
theorem good_convertDone (s : St) (st : Started) (T T' g : Truth) (hg : Good s T g)
    (sets : List (String × IdSet)) (held : List Nat) (hj : s.jConv = some (sets, held))
    (hch : ChangesIn s s.next (ConvBase s sets) T T') :
    C06.Inv (step s .convertDone st).1 T' ∧
    (∀ jn' snap held', s.jTag = some (jn', snap, held') → JobInv (step s .convertDone st).1 T' g) := by
  have hr := hg.reach
  have hw := hr.tagsWF
  obtain ⟨s1, htags, hall, hnext, h1all, h1tags⟩ := convertDone_via s st sets held hj
  have hget : ∀ n, sget s1.tags n = (sget s.tags n).map (cdAll s.convs sets) := by
    intro n
    rw [h1tags]
    exact sget_map (fun _ t => cdAll s.convs sets t) s.tags n
  have hsort : Sorted s1.tags := by
    apply sorted_of_keys_eq s.tags s1.tags _ hw
    rw [h1tags]; simp [Function.comp_def]
  have hbnd : Bounded s1.all s1.tags := by
    intro n t1 h1 x hx
    rw [hget] at h1
    cases hs : sget s.tags n with
    | none => rw [hs] at h1; cases h1
    | some t =>
      rw [hs] at h1
      simp only [Option.map_some, Option.some.injEq] at h1
      subst h1
      rw [h1all]
      rcases (mem_cdAll_unc _ _ _ _).1 hx with h | ⟨_, p, hp, _, hxp⟩
      · exact hr.uncBounded n t hs x h
      · exact hr.jobUnc.2.2.2.2.2 sets held hj p hp x hxp
  have hattr : ∀ n, (sget s1.tags n).map Attrs = (sget s.tags n).map Attrs := by
    intro n
    rw [hget]
    cases sget s.tags n with
    | none => rfl
    | some t => simp [attrs_cdAll]
  have htopo : Pk.Proofs.MgrTermination.Topo s1.tags :=
    Pk.Proofs.MgrTermination.topo_of_fq hw (fq_of_attrs hattr) (topo_of_acyclic s hg.acyclic)
  have P : ∀ n id, Dep s.tags s.next (ConvBase s sets) n id → id < s.all →
      Pend (step s .convertDone st).1.tags n id := by
    intro n id hd hid
    rw [htags]
    refine sweep_pending s.tags s1 hsort hbnd htopo (h1all ▸ hr.nextLeAll) ?_ ?_ n id hd (h1all ▸ hid)
    · intro n t0 h0
      refine ⟨cdAll s.convs sets t0, by rw [hget, h0]; rfl, Or.inl ?_⟩
      obtain ⟨e1, e2, _, _⟩ := attrs_eq (attrs_cdAll s.convs sets t0)
      exact ⟨e1, e2⟩
    · rintro n id ⟨t, ht, hf, p, hp, hpc, hid'⟩ _
      refine ⟨cdAll s.convs sets t, by rw [hget, ht]; rfl, ?_⟩
      exact (mem_cdAll_unc _ _ _ _).2 (Or.inr ⟨hf, p, hp, hpc, hid'⟩)
  have hna : s.next ≤ s.all := hr.nextLeAll
  refine ⟨?_, ?_⟩
  · refine C06.inv_step_stable s _ st T T' hw hg.inv not_edits_convertDone hr.nextLeAll ?_
    intro n t' h' id hid hcase
    rw [hnext] at hid
    have hk := keep_step s .convertDone st n (not_edits_convertDone n)
    cases hsn : sget s.tags n with
    | none => rw [hk.2 hsn] at h'; cases h'
    | some t =>
      rcases hcase with hcase | hcase
      · omega
      · obtain ⟨t2, h2, hu⟩ := P n id (hch n t hsn id hid hcase) (by omega)
        rw [h'] at h2; cases h2; exact hu
  · intro jn' snap held' hjt
    have htag : s.tag = true := hr.jobsWF.1.2 (by rw [hjt]; rfl)
    have mu := convertDone_masks s st sets held hj htag
    have hne : ∀ n r, Ev.convertDone ≠ .tagDone n r := fun n r h => by cases h
    refine jobInv_mono s _ st T T' g hr hg.job hne jn' snap held' hjt ?_
      (h1_of_not_edits s _ st jn' snap (not_edits_convertDone jn')) ?_
    · intro id h1 h2
      rw [hnext] at h2; omega
    · intro ot hot hd e1 e2 _ id hid hT
      have hrefs := hr.factsOK.1 jn' snap held' ot hjt hot hd
      have hlt : id < s.all := by omega
      refine job_cover hot hrefs.1 hrefs.2 (hch jn' ot hot id hid hT) ?_ ?_ ?_ ?_
      · rintro ⟨t, ht, hf, p, hp, hpc, hid'⟩
        rw [hot] at ht; cases ht
        have hup := mu p hp hpc id hid'
        by_cases hm : ot.mfeat &&& fData = 0
        · have hs0 : ot.sfeat &&& fData ≠ 0 := fun h => hf ⟨hm, h⟩
          refine Or.inr (Or.inl ⟨?_, masksNE_of_mem (Or.inl hup)⟩)
          intro h0
          rw [← e2] at h0
          rw [h0, Nat.zero_and] at hs0
          exact hs0 rfl
        · exact Or.inr (Or.inr (Or.inr ⟨hup, by unfold FDT; rw [← e1]; exact fdt_of_data hm⟩))
      · intro r _ hd'
        exact Or.inr (P r id hd' hlt)
      · intro r _ id2 hid2 hd'
        exact Or.inr ⟨id2, P r id2 hd' (by omega)⟩
      · rintro ⟨n0, id0, t, _, _, p, hp, hpc, hid'⟩
        exact masksNE_of_mem (Or.inl (mu p hp hpc id0 hid'))

end Pk.Props.C06Reach
