/- Helper lemmas for C06Reach: mark updates. -/
import Pk.Proofs.MgrTruthEvC
namespace Pk.Props.C06Reach
open Pk.Mgr Pk.Props.MgrReach Pk.Proofs.MgrTruth Pk.Proofs.MgrTags

/-- the shared part of `markAdd` / `markDel`: `X` is the entry of the mark tag before the sweep, `Q` the
    streams the update adds to its pending set -/
theorem good_mark (s : St) (e : Ev) (st : Started) (T T' g : Truth) (hg : Good s T g)
    (name : String) (t X : Tag) (Q : Nat → Prop) (s1 : St)
    (hEd : ∀ n, C06.Edits e n ↔ name = n) (hne : ∀ n r, e ≠ .tagDone n r)
    (hnq : ∀ n d f, e ≠ .updQuery n d f) (hni : ∀ p u c a b d, e ≠ .importDone p u c a b d)
    (herr : (step s e st).2 ≠ Res.err)
    (ht : sget s.tags name = some t) (hmk : isMarkName name = true)
    (h1all : s1.all = s.all) (h1tags : s1.tags = sins name X s.tags)
    (hall : (step s e st).1.all = s.all) (hnext : (step s e st).1.next = s.next)
    (hvia : ∀ n, n ≠ name → sget (step s e st).1.tags n = sget (inherit s1).tags n)
    (hXa : Attrs X = Attrs t) (hXu : ∀ id, id ∈ X.unc ↔ id ∈ t.unc ∨ Q id) (hQ : ∀ id, Q id → id < s.next)
    (hmat : ∀ t', sget (step s e st).1.tags name = some t' → ∀ id, id < s.next → id ∉ t'.unc →
        (id ∈ t'.mat ↔ T' name id = true))
    (hchg : ∀ id, id < s.next → T' name id ≠ T name id → id ∈ t.unc ∨ Q id)
    (hch : ChangesIn s s.next (fun n id => n = name ∧ id < s.next ∧ T' name id ≠ T name id) T T')
    (hmask : s.tag = true → ∀ id, (id ∈ t.unc ∨ Q id) → id ∈ (step s e st).1.rst)
    (hself : ∃ t', sget (step s e st).1.tags name = some t' ∧ t'.unc = t.unc ∧ Attrs t' = Attrs t)
    (hjt : ∀ jn snap held, s.jTag = some (jn, snap, held) → ∀ t0, sget s.tags name = some t0 → t0.gen = snap.gen →
        (∃ t', sget (step s e st).1.tags name = some t' ∧ t'.defn = snap.defn) →
        t0.defn = snap.defn ∧ ∀ id, id < s.next → T' name id = T name id) :
    C06.Inv (step s e st).1 T' ∧
    (∀ jn' snap held', s.jTag = some (jn', snap, held') → JobInv (step s e st).1 T' g) := by
  have hr := hg.reach
  have hw := hr.tagsWF
  have hna : s.next ≤ s.all := hr.nextLeAll
  have hplain := hr.factsOK.2.1 name t ht hmk
  have hsort : Sorted s1.tags := by rw [h1tags]; exact sorted_sins _ _ _ hw
  have hget : ∀ n, sget s1.tags n = if name = n then some X else sget s.tags n := by
    intro n; rw [h1tags, sget_sins]
  have hbnd : Bounded s1.all s1.tags := by
    intro n t1 h1 x hx
    rw [h1all]
    rw [hget] at h1
    split at h1
    · cases h1
      rcases (hXu x).1 hx with h | h
      · exact hr.uncBounded name t ht x h
      · have := hQ x h; omega
    · exact hr.uncBounded n t1 h1 x hx
  have hattr : ∀ n, (sget s1.tags n).map Attrs = (sget s.tags n).map Attrs := by
    intro n; rw [h1tags]; exact akeep_sins_attrs ht hXa n
  have htopo : Pk.Proofs.MgrTermination.Topo s1.tags :=
    Pk.Proofs.MgrTermination.topo_of_fq hw (fq_of_attrs hattr) (topo_of_acyclic s hg.acyclic)
  have P0 : ∀ n id, Dep s.tags s.next (fun n id => n = name ∧ id < s.next ∧ T' name id ≠ T name id) n id →
      id < s.all → Pend (inherit s1).tags n id := by
    intro n id hd hid
    refine sweep_pending s.tags s1 hsort hbnd htopo (h1all ▸ hna) ?_ ?_ n id hd (h1all ▸ hid)
    · intro n t0 h0
      by_cases hn : name = n
      · subst hn
        rw [ht] at h0; cases h0
        obtain ⟨e1, e2, _, _⟩ := attrs_eq hXa
        exact ⟨X, by rw [hget]; simp, Or.inl ⟨e1, e2⟩⟩
      · exact ⟨t0, by rw [hget]; simp [hn, h0], Or.inl ⟨rfl, rfl⟩⟩
    · rintro n id ⟨hn, hlt, hT⟩ _
      subst hn
      exact ⟨X, by rw [hget]; simp, (hXu id).2 (hchg id hlt hT)⟩
  have P : ∀ n id, n ≠ name →
      Dep s.tags s.next (fun n id => n = name ∧ id < s.next ∧ T' name id ≠ T name id) n id →
      id < s.all → Pend (step s e st).1.tags n id := by
    intro n id hn hd hid
    obtain ⟨t2, h2, hu⟩ := P0 n id hd hid
    exact ⟨t2, by rw [hvia n hn]; exact h2, hu⟩
  -- the mark tag has no references: it is in the closure only through the base
  have hbase_only : ∀ id, Dep s.tags s.next (fun n id => n = name ∧ id < s.next ∧ T' name id ≠ T name id) name id →
      id < s.next ∧ T' name id ≠ T name id := by
    intro id hd
    cases hd with
    | base hB => exact hB.2
    | main h0 hr' _ => rw [ht] at h0; cases h0; rw [hplain.1] at hr'; cases hr'
    | sub h0 hr' _ _ => rw [ht] at h0; cases h0; rw [hplain.2] at hr'; cases hr'
  refine ⟨?_, ?_⟩
  · refine inv_of_frame s e st T T' hr hg.inv hnext hall ?_ ?_
    · intro n hE t' h' id hid hT
      have hn : n ≠ name := fun h => hE ((hEd n).2 h.symm)
      have hk := keep_step s e st n hE
      cases hsn : sget s.tags n with
      | none => rw [hk.2 hsn] at h'; cases h'
      | some t0 =>
        obtain ⟨t2, h2, hu⟩ := P n id hn (hch n t0 hsn id hid hT) (by omega)
        rw [h'] at h2; cases h2; exact hu
    · intro n hE t' h' id hid hnu
      have hn : name = n := (hEd n).1 hE
      subst hn
      exact hmat t' h' id hid hnu
  · intro jn' snap held' hjt'
    have htag : s.tag = true := hr.jobsWF.1.2 (by rw [hjt']; rfl)
    obtain ⟨hm1, hm2⟩ : (name ∈ snap.mainT → F254 snap) ∧ (name ∈ snap.subT → snap.sfeat ≠ 0) := by
      have := markRefOK_of_feat s (.markAdd name []) hg.feats
      exact this jn' snap held' hjt'
    refine jobInv_mono s e st T T' g hr hg.job hne jn' snap held' hjt' ?_ ?_
    · intro id h1 h2
      rw [hnext] at h2; omega
    · intro n' ot' hot' hg' hd'
      by_cases hn : name = n'
      · subst hn
        obtain ⟨t2, h2, _, ha2⟩ := hself
        rw [hot'] at h2; cases h2
        have hgen : t.gen = snap.gen := by rw [← (attrs_eq ha2).2.2.2.2]; exact hg'
        obtain ⟨hd0, hsame⟩ := hjt jn' snap held' hjt' t ht hgen ⟨ot', hot', hd'⟩
        exact Or.inr ⟨name, t, ht, hgen, hd0, ha2, fun _ id hid hT => absurd (hsame id hid) hT⟩
      · have hE : ¬ C06.Edits e n' := fun h => hn ((hEd n').1 h)
        obtain ⟨ot, hot, hg0, hd, ha⟩ := pre_of_not_edits s e st n' snap ot' hE hot' hg' hd'
        refine Or.inr ⟨n', ot, hot, hg0, hd, ha, ?_⟩
        intro hA id hid hT
        obtain ⟨r1, r2, _⟩ := attrs_eq hA
        have hlt : id < s.all := by omega
        refine job_cover hot r1 r2 (hch n' ot hot id hid hT) ?_ ?_ ?_ ?_
        · intro hB; exact absurd hB.1.symm hn
        · intro r hrm hd'
          by_cases hrn : r = name
          · subst hrn
            obtain ⟨h1, h2⟩ := hbase_only id hd'
            exact Or.inl (Or.inr (Or.inr (Or.inl ⟨hmask htag id (hchg id h1 h2), hm1 hrm⟩)))
          · exact Or.inr (P r id hrn hd' hlt)
        · intro r hrs id2 hid2 hd'
          by_cases hrn : r = name
          · subst hrn
            obtain ⟨h1, h2⟩ := hbase_only id2 hd'
            exact Or.inl (Or.inr (Or.inl ⟨hm2 hrs,
              masksNE_of_mem (Or.inr (Or.inl (hmask htag id2 (hchg id2 h1 h2))))⟩))
          · exact Or.inr ⟨id2, P r id2 hrn hd' (by omega)⟩
        · rintro ⟨n0, id0, _, h1, h2⟩
          exact masksNE_of_mem (Or.inr (Or.inl (hmask htag id0 (hchg id0 h1 h2))))

theorem markAdd_acc (s : St) (name : String) (ids : List Nat) (st : Started)
    (hok : (step s (.markAdd name ids) st).2 = Res.ok) (hne : ids ≠ []) :
    isMarkName name = true ∧ (∀ id, id ∈ ids → id < s.next) ∧
    ∀ n, sget (step s (.markAdd name ids) st).1.tags n = sget (markUpdate s name ids []).1.tags n := by
  have hemp : ids.isEmpty = false := by cases ids <;> simp_all
  revert hok
  rw [step_markAdd_eq]
  by_cases hm : isMarkName name = true
  · have hm' : (name.startsWith "mark/" || name.startsWith "generated/") = true := hm
    simp only [hemp, hm', Bool.not_false, Bool.not_true, Bool.and_false, Bool.false_eq_true, if_false]
    split
    · intro h; cases h
    · split
      · intro h; cases h
      · rename_i hlt
        intro _
        refine ⟨hm, ?_, fun n => markTail_sget _ st n⟩
        intro id hid
        have := Pk.Proofs.MgrConv.le_foldl_max ids 0 id (Or.inl hid)
        omega
  · have hm' : (name.startsWith "mark/" || name.startsWith "generated/") = false := by
      cases h : (name.startsWith "mark/" || name.startsWith "generated/") with
      | false => rfl
      | true => exact absurd h hm
    simp only [hemp, hm', Bool.not_false, Bool.and_true, if_true]
    intro h; cases h

theorem markDel_acc (s : St) (name : String) (ids : List Nat) (st : Started)
    (hok : (step s (.markDel name ids) st).2 = Res.ok) (hne : ids ≠ []) :
    isMarkName name = true ∧ (∀ id, id ∈ ids → id < s.next) ∧
    ∀ n, sget (step s (.markDel name ids) st).1.tags n = sget (markUpdate s name [] ids).1.tags n := by
  have hemp : ids.isEmpty = false := by cases ids <;> simp_all
  revert hok
  rw [step_markDel_eq]
  by_cases hm : isMarkName name = true
  · have hm' : (name.startsWith "mark/" || name.startsWith "generated/") = true := hm
    simp only [hemp, hm', Bool.not_false, Bool.not_true, Bool.and_false, Bool.false_eq_true, if_false]
    split
    · intro h; cases h
    · split
      · intro h; cases h
      · rename_i hlt
        intro _
        refine ⟨hm, ?_, fun n => markTail_sget _ st n⟩
        intro id hid
        have := Pk.Proofs.MgrConv.le_foldl_max ids 0 id (Or.inl hid)
        omega
  · have hm' : (name.startsWith "mark/" || name.startsWith "generated/") = false := by
      cases h : (name.startsWith "mark/" || name.startsWith "generated/") with
      | false => rfl
      | true => exact absurd h hm
    simp only [hemp, hm', Bool.not_false, Bool.and_true, if_true]
    intro h; cases h

/-- an accepted mark addition -/
theorem good_markAdd (s : St) (name : String) (ids : List Nat) (st : Started) (T T' g : Truth)
    (hg : Good s T g) (hok : (step s (.markAdd name ids) st).2 = Res.ok) (hne : ids ≠ [])
    (t : Tag) (ht : sget s.tags name = some t)
    (hT1 : ∀ id, id < s.next → T' name id = (T name id || decide (id ∈ ids ∧ id ∉ t.mat)))
    (hch : ChangesIn s s.next (fun n id => n = name ∧ id < s.next ∧ T' name id ≠ T name id) T T')
    (hjt : ∀ jn snap held, s.jTag = some (jn, snap, held) → ∀ t0, sget s.tags name = some t0 → t0.gen = snap.gen →
        (∃ t', sget (step s (.markAdd name ids) st).1.tags name = some t' ∧ t'.defn = snap.defn) →
        t0.defn = snap.defn ∧ ∀ id, id < s.next → T' name id = T name id) :
    C06.Inv (step s (.markAdd name ids) st).1 T' ∧
    (∀ jn' snap held', s.jTag = some (jn', snap, held') → JobInv (step s (.markAdd name ids) st).1 T' g) := by
  obtain ⟨hmk, hlt, hsame⟩ := markAdd_acc s name ids st hok hne
  obtain ⟨s1, h1all, h1tags, hall, hnext, hvia⟩ := markAdd_via s name ids st t hok hne ht
  refine good_mark s _ st T T' g hg name t (muAdd t s ids).1 (fun id => id ∈ ids ∧ id ∉ t.mat) s1
    (fun n => Iff.rfl) (fun n r h => by cases h) (fun n d f h => by cases h) (fun p u c a b d h => by cases h)
    (by rw [hok]; intro h; cases h) ht hmk h1all h1tags hall hnext hvia (attrs_muAdd t s ids)
    (mem_muAdd_unc t s ids) (fun id h => hlt id h.1) ?_ ?_ hch
    (fun htag => markAdd_masks s name ids st t hok hne ht htag) (step_markAdd_self s name ids st t ht) hjt
  · intro t' h' id hid hnu
    obtain ⟨t2, h2, hu, _⟩ := step_markAdd_self s name ids st t ht
    rw [h'] at h2; cases h2
    obtain ⟨t3, h3, hm3⟩ := C06.mark_update_exact s name t ids [] hg.reach.tagsWF ht
    rw [hsame] at h'
    rw [h'] at h3; cases h3
    have hinv := hg.inv name t ht id hid (by rw [← hu]; exact hnu)
    rw [hm3, hT1 id hid]
    by_cases hm : id ∈ t.mat
    · simp [hm, hinv.1 hm]
    · have hf : T name id = false := by
        cases hT : T name id with
        | false => rfl
        | true => exact absurd (hinv.2 hT) hm
      simp [hm, hf]
  · intro id hid hT
    rw [hT1 id hid] at hT
    right
    cases hd : decide (id ∈ ids ∧ id ∉ t.mat) with
    | true => exact of_decide_eq_true hd
    | false => rw [hd, Bool.or_false] at hT; exact absurd rfl hT

/-- an accepted mark removal -/
theorem good_markDel (s : St) (name : String) (ids : List Nat) (st : Started) (T T' g : Truth)
    (hg : Good s T g) (hok : (step s (.markDel name ids) st).2 = Res.ok) (hne : ids ≠ [])
    (t : Tag) (ht : sget s.tags name = some t)
    (hT1 : ∀ id, id < s.next → (T' name id = true ↔ (id ∈ t.mat ∧ id ∉ ids)))
    (hch : ChangesIn s s.next (fun n id => n = name ∧ id < s.next ∧ T' name id ≠ T name id) T T')
    (hjt : ∀ jn snap held, s.jTag = some (jn, snap, held) → ∀ t0, sget s.tags name = some t0 → t0.gen = snap.gen →
        (∃ t', sget (step s (.markDel name ids) st).1.tags name = some t' ∧ t'.defn = snap.defn) →
        t0.defn = snap.defn ∧ ∀ id, id < s.next → T' name id = T name id) :
    C06.Inv (step s (.markDel name ids) st).1 T' ∧
    (∀ jn' snap held', s.jTag = some (jn', snap, held') → JobInv (step s (.markDel name ids) st).1 T' g) := by
  obtain ⟨hmk, hlt, hsame⟩ := markDel_acc s name ids st hok hne
  obtain ⟨s1, h1all, h1tags, hall, hnext, hvia⟩ := markDel_via s name ids st t hok hne ht
  refine good_mark s _ st T T' g hg name t (muDel t ids) (fun id => id ∈ ids ∧ id ∈ t.mat) s1
    (fun n => Iff.rfl) (fun n r h => by cases h) (fun n d f h => by cases h) (fun p u c a b d h => by cases h)
    (by rw [hok]; intro h; cases h) ht hmk h1all h1tags hall hnext hvia (attrs_muDel t ids)
    (mem_muDel_unc t ids) (fun id h => hlt id h.1) ?_ ?_ hch
    (fun htag => markDel_masks s name ids st t hok hne ht htag) (step_markDel_self s name ids st t ht) hjt
  · intro t' h' id hid _
    obtain ⟨t3, h3, hm3⟩ := C06.mark_update_exact s name t [] ids hg.reach.tagsWF ht
    rw [hsame] at h'
    rw [h'] at h3; cases h3
    rw [hm3, hT1 id hid]
    simp
  · intro id hid hT
    by_cases hu : id ∈ t.unc
    · exact Or.inl hu
    · right
      have hinv := hg.inv name t ht id hid hu
      have h1 := hT1 id hid
      by_cases hm : id ∈ t.mat
      · by_cases hi : id ∈ ids
        · exact ⟨hi, hm⟩
        · exfalso; apply hT
          rw [h1.2 ⟨hm, hi⟩, hinv.1 hm]
      · exfalso; apply hT
        have hf : T name id = false := by
          cases hT2 : T name id with
          | false => rfl
          | true => exact absurd (hinv.2 hT2) hm
        have hf' : T' name id = false := by
          cases hT2 : T' name id with
          | false => rfl
          | true => exact absurd (h1.1 hT2).1 hm
        rw [hf, hf']

end Pk.Props.C06Reach
