/- Helper lemmas for C06Reach: what an accepted tag edit does to the table entry of the edited tag. -/
import Pk.Proofs.MgrTagsStep
namespace Pk.Proofs.MgrTruth
open Pk.Mgr Pk.Proofs.MgrTags

/-! ## relations between the old and the new entry of a key -/

/-- answers, pending set, definition, attributes and identity are equal (only `refBy`, `color`, `convs` may differ) -/
def AE (t t' : Tag) : Prop :=  -- CHANGED (gen)
  t'.mat = t.mat ∧ t'.unc = t.unc ∧ t'.defn = t.defn ∧ t'.mainT = t.mainT ∧ t'.subT = t.subT ∧
  t'.mfeat = t.mfeat ∧ t'.sfeat = t.sfeat ∧ t'.gen = t.gen

/-- answers, definition, attributes and identity are equal, pending ids below `all` stay pending -/
def AR (all : Nat) (t t' : Tag) : Prop :=  -- CHANGED (gen)
  t'.mat = t.mat ∧ t'.defn = t.defn ∧ t'.mainT = t.mainT ∧ t'.subT = t.subT ∧
  t'.mfeat = t.mfeat ∧ t'.sfeat = t.sfeat ∧ t'.gen = t.gen ∧ ∀ id, id ∈ t.unc → id < all → id ∈ t'.unc

theorem AE.refl (t : Tag) : AE t t := ⟨rfl, rfl, rfl, rfl, rfl, rfl, rfl, rfl⟩
theorem AE.trans {a b c : Tag} (h1 : AE a b) (h2 : AE b c) : AE a c := by
  obtain ⟨a1, a2, a3, a4, a5, a6, a7, a8⟩ := h1
  obtain ⟨b1, b2, b3, b4, b5, b6, b7, b8⟩ := h2
  exact ⟨b1.trans a1, b2.trans a2, b3.trans a3, b4.trans a4, b5.trans a5, b6.trans a6, b7.trans a7,
    b8.trans a8⟩

theorem AR.refl (all : Nat) (t : Tag) : AR all t t := ⟨rfl, rfl, rfl, rfl, rfl, rfl, rfl, fun _ h _ => h⟩
theorem AR.trans {all : Nat} {a b c : Tag} (h1 : AR all a b) (h2 : AR all b c) : AR all a c := by
  obtain ⟨a1, a2, a3, a4, a5, a6, a8, a7⟩ := h1
  obtain ⟨b1, b2, b3, b4, b5, b6, b8, b7⟩ := h2
  exact ⟨b1.trans a1, b2.trans a2, b3.trans a3, b4.trans a4, b5.trans a5, b6.trans a6, b8.trans a8,
    fun id h hb => b7 id (a7 id h hb) hb⟩

/-- the entry of `n` is related by `R`, and is absent iff it was absent (one direction is enough here) -/
def KeepR (R : Tag → Tag → Prop) (n : String) (T T' : List (String × Tag)) : Prop :=
  (∀ t, sget T n = some t → ∃ t', sget T' n = some t' ∧ R t t') ∧
  (sget T n = none → sget T' n = none)

theorem KeepR.refl {R : Tag → Tag → Prop} (hr : ∀ t, R t t) (n : String) (T : List (String × Tag)) :
    KeepR R n T T := ⟨fun t h => ⟨t, h, hr t⟩, id⟩

theorem KeepR.of_eq {R : Tag → Tag → Prop} (hr : ∀ t, R t t) {n : String} {T T' : List (String × Tag)}
    (h : T' = T) : KeepR R n T T' := h ▸ KeepR.refl hr _ _

theorem KeepR.trans {R : Tag → Tag → Prop} (ht : ∀ {a b c}, R a b → R b c → R a c) {n : String}
    {A B C : List (String × Tag)} (h1 : KeepR R n A B) (h2 : KeepR R n B C) : KeepR R n A C := by
  refine ⟨fun t h => ?_, fun h => h2.2 (h1.2 h)⟩
  obtain ⟨t', h', r'⟩ := h1.1 t h
  obtain ⟨t'', h'', r''⟩ := h2.1 t' h'
  exact ⟨t'', h'', ht r' r''⟩

theorem keepR_sins_rel {R : Tag → Tag → Prop} (hr : ∀ t, R t t) {m : String} {t t' : Tag}
    {T : List (String × Tag)} (hm : sget T m = some t) (h : R t t') (n : String) :
    KeepR R n T (sins m t' T) := by
  by_cases hmn : m = n
  · subst hmn
    constructor
    · intro t2 ht; rw [hm] at ht; cases ht; exact ⟨t', by simp [sget_sins], h⟩
    · intro ht; rw [hm] at ht; cases ht
  · constructor
    · intro t2 ht; exact ⟨t2, by simp [sget_sins, hmn, ht], hr _⟩
    · intro ht; simp [sget_sins, hmn, ht]

abbrev KE (n : String) (s s' : St) : Prop := KeepR AE n s.tags s'.tags

theorem KE.refl (n : String) (s : St) : KE n s s := KeepR.refl AE.refl _ _
theorem KE.trans {n : String} {a b c : St} (h1 : KE n a b) (h2 : KE n b c) : KE n a c :=
  KeepR.trans (R := AE) AE.trans h1 h2
theorem KE.of_same {n : String} {a b : St} (h : Same a b) : KE n a b := KeepR.of_eq AE.refl h.1

theorem foldl_ke {β} (n : String) (f : St → β → St) (h : ∀ s b, KE n s (f s b)) (l : List β) (s : St) :
    KE n s (l.foldl f s) :=
  foldl_inv (fun s' => KE n s s') f (fun a b ha => ha.trans (h a b)) l s (KE.refl n s)

theorem addRefBy_ke (n : String) (s : St) (a b : String) : KE n s (addRefBy s a b) := by
  unfold addRefBy; split
  · rename_i t ht
    exact keepR_sins_rel AE.refl ht (t' := { t with refBy := strIns b t.refBy })
      (by exact ⟨rfl, rfl, rfl, rfl, rfl, rfl, rfl, rfl⟩) n
  · exact KE.refl _ _

theorem delRefBy_ke (n : String) (s : St) (a b : String) : KE n s (delRefBy s a b) := by
  unfold delRefBy; split
  · rename_i t ht
    exact keepR_sins_rel AE.refl ht (t' := { t with refBy := t.refBy.filter (· != b) })
      (by exact ⟨rfl, rfl, rfl, rfl, rfl, rfl, rfl, rfl⟩) n
  · exact KE.refl _ _

/-! ## inherit -/

theorem ar_inheritOne (all : Nat) (tags : List (String × Tag)) (t : Tag) :
    AR all t (inheritOne all tags t) := by
  unfold inheritOne
  split
  · exact AR.refl _ _
  · split
    · exact ⟨rfl, rfl, rfl, rfl, rfl, rfl, rfl, fun id _ hb => by simpa using hb⟩
    · exact ⟨rfl, rfl, rfl, rfl, rfl, rfl, rfl, fun id h _ => by simp [mem_foldl_union, h]⟩

theorem passStep_keepR (all : Nat) (T0 : List (String × Tag)) (acc) (nt : String × Tag)
    (h : ∀ n, KeepR (AR all) n T0 acc.1) : ∀ n, KeepR (AR all) n T0 (passStep all acc nt).1 := by
  unfold passStep
  split
  · exact h
  · split
    · exact h
    · rename_i t ht
      split
      · intro n
        exact KeepR.trans (R := AR all) AR.trans (h n)
          (keepR_sins_rel (AR.refl all) ht (ar_inheritOne _ _ _) n)
      · exact h

theorem inherit_keepR (s : St) (n : String) : KeepR (AR s.all) n s.tags (inherit s).tags := by
  obtain ⟨res, h, _⟩ := inheritLoop_inv s.all (fun acc => ∀ n, KeepR (AR s.all) n s.tags acc.1)
    (passStep_keepR s.all s.tags) (s.tags.length + 1) s.tags [] (fun n => KeepR.refl (AR.refl _) _ _)
  exact h n

/-! ## delTag -/

-- CHANGED (dropped): `dtApply` takes the tagging choice
theorem dtApply_none (s : St) (name : String) (t : Tag) (choice : Option String) :
    sget (dtApply s name t choice).tags name = none := by
  unfold dtApply
  exact (foldl_ke name _ (fun s r => delRefBy_ke name s r name) _ _).2 (by simp [sget_sdel])

theorem delTag_ok (s : St) (name : String) (st : Started)
    (h : (step s (.delTag name) st).2 = Res.ok) :
    ∃ t, sget s.tags name = some t ∧ t.refBy = [] ∧ sget (step s (.delTag name) st).1.tags name = none := by
  revert h
  rw [step_delTag_eq]
  split
  · intro h; cases h
  · rename_i t ht
    split
    · intro h; cases h
    · rename_i hr
      intro _
      refine ⟨t, ht, ?_, dtApply_none _ _ _ _⟩
      simpa using hr

/-! ## updName -/

theorem unApply_get (s : St) (name new : String) (t : Tag) (hne : name ≠ new) :
    sget (unApply s name new t).tags name = none ∧
    ∃ t', sget (unApply s name new t).tags new = some t' ∧ AE t t' := by
  unfold unApply
  have hk : ∀ n, KE n { s with tags := sins new t (sdel s.tags name) }
      (t.refs.foldl (fun s r => addRefBy (delRefBy s r name) r new)
        { s with tags := sins new t (sdel s.tags name) }) :=
    fun n => foldl_ke n _ (fun s r => (delRefBy_ke n s r name).trans (addRefBy_ke n _ r new)) _ _
  refine ⟨(hk name).2 ?_, (hk new).1 t ?_⟩
  · simp [sget_sins, sget_sdel, Ne.symm hne]
  · simp [sget_sins]

theorem updName_ok (s : St) (name new : String) (st : Started)
    (h : (step s (.updName name new) st).2 = Res.ok) :
    (step s (.updName name new) st).1 = s ∨
    (∃ t, sget s.tags name = some t ∧ t.refBy = [] ∧ sget s.tags new = none ∧ name ≠ new ∧
      sget (step s (.updName name new) st).1.tags name = none ∧
      ∃ t', sget (step s (.updName name new) st).1.tags new = some t' ∧ t'.mat = t.mat ∧ t'.unc = t.unc ∧
        t'.defn = t.defn ∧ t'.mainT = t.mainT ∧ t'.subT = t.subT ∧ t'.mfeat = t.mfeat ∧ t'.sfeat = t.sfeat ∧
        t'.gen = t.gen) := by  -- CHANGED (gen)
  revert h
  rw [step_updName_eq]
  split
  · intro h; cases h
  · rename_i t ht
    split
    · intro _; exact Or.inl rfl
    · split
      · intro h; cases h
      · split
        · intro h; cases h
        · split
          · intro h; cases h
          · rename_i hnew
            split
            · intro h; cases h
            · rename_i hr
              intro _
              have hnone : sget s.tags new = none := by
                cases hn : sget s.tags new with
                | none => rfl
                | some x => simp [hn] at hnew
              have hne : name ≠ new := by
                rintro rfl; rw [ht] at hnone; cases hnone
              obtain ⟨h1, t', h2, h3⟩ := unApply_get s name new t hne
              exact Or.inr ⟨t, ht, by simpa using hr, hnone, hne, h1, t', h2, h3⟩

/-! ## updQuery -/

theorem uqRefs_all (s : St) (name : String) (before after : List String) :
    (uqRefs s name before after).all = s.all := by
  unfold uqRefs
  exact ((foldl_fr (N := NT) _ (fun s r => delRefBy_fr s r name) _ s).trans
    (foldl_fr _ (fun s r => addRefBy_fr s r name) _ _)).all

theorem uqApply_get (s : St) (name : String) (t nt : Tag) (st : Started) :
    ∃ t', sget (uqApply s name t nt st).tags name = some t' ∧ AR s.all nt t' := by
  unfold uqApply uqInv
  have hk := inherit_keepR (setTag (uqRefs s name t.refs nt.refs) name nt) name
  obtain ⟨t', h1, h2⟩ := hk.1 nt (by simp [setTag, sget_sins])
  have hall : (setTag (uqRefs s name t.refs nt.refs) name nt).all = s.all := uqRefs_all _ _ _ _
  rw [hall] at h2
  refine ⟨t', ?_, h2⟩
  rw [same_sget (((invalidatedDuring_same _ _).trans (startTagging_same _ _)).trans (startConverter_same _))]
  exact h1

theorem updQuery_ok (s : St) (name defn : String) (f : Facts) (st : Started)
    (h : (step s (.updQuery name defn f) st).2 = Res.ok) :
    ∃ t t', sget s.tags name = some t ∧ sget (step s (.updQuery name defn f) st).1.tags name = some t' ∧
      t'.defn = defn ∧ t'.mainT = f.main ∧ t'.subT = f.sub ∧ t'.mfeat = f.mfeat ∧ t'.sfeat = f.sfeat ∧
      (∀ id, id < s.all → id ∈ t'.unc) ∧ t'.gen = t.gen := by  -- CHANGED (gen)
  revert h
  rw [step_updQuery_eq]
  repeat' split
  all_goals first | (intro h; cases h; done) | skip
  rename_i t ht _ _ _
  intro _
  obtain ⟨t', h1, h2⟩ := uqApply_get s name t (uqTag2 (uqTag defn f) t s.all) st
  obtain ⟨_, a2, a3, a4, a5, a6, a8, a7⟩ := h2
  exact ⟨t, t', ht, h1, a2, a3, a4, a5, a6, fun id hid => a7 id (by simp [uqTag2, hid]) hid, a8⟩

/-! ## addTag -/

theorem atFinish_get (s : St) (name : String) (nt : Tag) (m : Bool) (st : Started) :
    ∃ t', sget (atFinish s name nt m st).tags name = some t' ∧ AE nt t' := by
  unfold atFinish
  refine (foldl_ke name _ (fun s r => addRefBy_ke name s r name) _ _).1 nt ?_
  split
  · simp [setTag, sget_sins]
  · rw [same_sget (startTagging_same _ _)]; simp [setTag, sget_sins]

theorem addRefBy_ngen (s : St) (a b : String) : (addRefBy s a b).ngen = s.ngen := by
  unfold addRefBy; split <;> rfl

theorem startTagging_ngen (s : St) (c : Option String) : (startTagging s c).ngen = s.ngen := by
  unfold startTagging
  split
  · rfl
  · split
    · rfl
    · simp only []
      split
      · split
        · rfl
        · rfl
      · rfl

theorem atFinish_ngen (s : St) (name : String) (nt : Tag) (m : Bool) (st : Started) :
    (atFinish s name nt m st).ngen = s.ngen := by
  unfold atFinish
  refine foldl_inv (fun s' => s'.ngen = s.ngen) _ (fun a b ha => (addRefBy_ngen a b name).trans ha) _ _ ?_
  split
  · rfl
  · exact startTagging_ngen _ _

theorem addTag_ok (s : St) (name color defn : String) (f : Facts) (st : Started)
    (h : (step s (.addTag name color defn f) st).2 = Res.ok) :
    sget s.tags name = none ∧
    (∀ r, (r ∈ f.main ∨ r ∈ f.sub) → (sget s.tags r).isSome = true) ∧
    ∃ t', sget (step s (.addTag name color defn f) st).1.tags name = some t' ∧ t'.defn = defn ∧
      t'.mainT = f.main ∧ t'.subT = f.sub ∧ t'.mfeat = f.mfeat ∧ t'.sfeat = f.sfeat ∧
      (((parseTagName name).2.2 = true ∧ t'.unc = [] ∧ ∀ id, id ∈ t'.mat ↔ id ∈ f.ids) ∨
       ((parseTagName name).2.2 = false ∧ ∀ id, id < s.all → id ∈ t'.unc)) ∧
      t'.gen = s.ngen ∧ (step s (.addTag name color defn f) st).1.ngen = s.ngen + 1 := by  -- CHANGED (gen)
  revert h
  rw [step_addTag_eq]
  generalize parseTagName name = p
  obtain ⟨typ, sub, isMark⟩ := p
  simp only []
  split
  · intro h; cases h
  · split
    · intro h; cases h
    · split
      · intro h; cases h
      · split
        · intro h; cases h
        · split
          · intro h; cases h
          · rename_i hsome
            split
            · intro h; cases h
            · rename_i hrefs
              intro _
              obtain ⟨t', h1, a1, a2, a3, a4, a5, a6, a7, a8⟩ := atFinish_get
                { (atPair s (atTagG s.ngen color defn f isMark) f isMark).1 with
                  ngen := (atPair s (atTagG s.ngen color defn f isMark) f isMark).1.ngen + 1 } name
                (atPair s (atTagG s.ngen color defn f isMark) f isMark).2 isMark st
              have hng := atFinish_ngen
                { (atPair s (atTagG s.ngen color defn f isMark) f isMark).1 with
                  ngen := (atPair s (atTagG s.ngen color defn f isMark) f isMark).1.ngen + 1 } name
                (atPair s (atTagG s.ngen color defn f isMark) f isMark).2 isMark st
              simp only [atPair_fst] at hng
              refine ⟨?_, ?_, t', h1, ?_⟩
              · cases hn : sget s.tags name with
                | none => rfl
                | some x => simp [hn] at hsome
              · intro r hr
                simp only [List.any_eq_true, not_exists, not_and] at hrefs
                have := hrefs r (by simpa [atTag] using hr)
                cases hn : sget s.tags r with
                | none => simp [hn] at this
                | some x => rfl
              · cases isMark with
                | true =>
                  simp only [atPair, atTagG, atTag, if_true] at a1 a2 a3 a4 a5 a6 a7 a8
                  refine ⟨a3, a4, a5, a6, a7, Or.inl ⟨rfl, a2, fun id => ?_⟩, a8, hng⟩
                  rw [a1]; simp
                | false =>
                  simp only [atPair, atTagG, atTag, Bool.false_eq_true, if_false] at a1 a2 a3 a4 a5 a6 a7 a8
                  refine ⟨a3, a4, a5, a6, a7, Or.inr ⟨rfl, fun id hid => ?_⟩, a8, hng⟩
                  rw [a2]; simpa [atPair_fst] using hid

end Pk.Proofs.MgrTruth
