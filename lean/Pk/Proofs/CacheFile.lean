/-
  Helper lemmas for the cache file model (property C15).
-/
import Pk.Model.CacheFile

namespace Pk.Proofs.CacheFile
open Pk.CacheFile

/-! ### varint -/

theorem varintHi_read (rest : List Nat) : ∀ (fuel n : Nat) (acc : List Nat), n < 128 ^ fuel → n < 2 ^ 64 →
    readVarIntAux (varintHi fuel n acc ++ rest) 0 = readVarIntAux (acc ++ rest) n := by
  intro fuel
  induction fuel with
  | zero =>
    intro n acc h _
    have : n = 0 := by simpa using h
    subst this; simp [varintHi]
  | succ fuel ih =>
    intro n acc h h64
    unfold varintHi
    by_cases hn : n = 0
    · subst hn; simp
    · simp only [hn, if_false]
      have h1 : n / 128 < 128 ^ fuel := by
        rw [Nat.pow_succ] at h; omega
      have h2 : n / 128 < 2 ^ 64 := by omega
      rw [ih (n / 128) _ h1 h2]
      simp only [List.cons_append, readVarIntAux]
      have e1 : (n / 128 * 128 + (n % 128 + 128) % 128) % 2 ^ 64 = n := by omega
      have e2 : ¬ (n % 128 + 128 < 128) := by omega
      simp only [e1, e2, if_false]

theorem varint_roundtrip (n : Nat) (rest : List Nat) (h : n < 2 ^ 64) :
    readVarInt (writeVarInt n ++ rest) = some (n, rest) := by
  unfold readVarInt writeVarInt
  rw [varintHi_read rest 10 (n / 128) [n % 128] (by omega) (by omega)]
  simp only [List.cons_append, List.nil_append, readVarIntAux]
  have e1 : (n / 128 * 128 + n % 128 % 128) % 2 ^ 64 = n := by omega
  have e2 : n % 128 < 128 := by omega
  simp only [e1, e2, if_true]

end Pk.Proofs.CacheFile

namespace Pk.Proofs.CacheFile
open Pk.CacheFile

theorem writeVarInt_length_pos (n : Nat) : 0 < (writeVarInt n).length := by
  unfold writeVarInt
  have : ∀ fuel m acc, acc.length ≤ (varintHi fuel m acc).length := by
    intro fuel
    induction fuel with
    | zero => intro m acc; simp [varintHi]
    | succ f ih =>
      intro m acc; unfold varintHi
      by_cases hm : m = 0
      · simp [hm]
      · simp only [hm, if_false]
        have := ih (m / 128) ((m % 128 + 128) :: acc)
        simp only [List.length_cons] at this; omega
  have := this 10 (n / 128) [n % 128]
  simp only [List.length_cons, List.length_nil] at this; omega

/-! ### chunk sizes with direction markers -/

/-- what the size loop of `data` reads back for a chunk list: a `(want, 0)` marker entry wherever the
    direction is not the expected one -/
def entries : List Chunk → Bool → List (Bool × Nat)
  | [], _ => []
  | c :: cs, want =>
    (if c.dir != want then [(want, 0)] else []) ++ (c.dir, c.content.length) :: entries cs (!c.dir)

/-- direction the reader expects after the last chunk -/
def endDir : List Chunk → Bool → Bool
  | [], want => want
  | c :: cs, _ => endDir cs (!c.dir)

def ChunkOk (c : Chunk) : Prop := c.content ≠ [] ∧ c.content.length < 2 ^ 64

theorem readVarInt_zero (rest : List Nat) : readVarInt (0 :: rest) = some (0, rest) := by
  simp [readVarInt, readVarIntAux]

theorem sizes_read (rest : List Nat) : ∀ (cs : List Chunk) (want : Bool) (fuel : Nat),
    (∀ c ∈ cs, ChunkOk c) → (encodeSizes cs want).length ≤ fuel →
    readSizes fuel (encodeSizes cs want ++ rest) false want
      = some (entries cs want ++ [(endDir cs want, 0)], rest) := by
  intro cs
  induction cs with
  | nil =>
    intro want fuel _ hf
    simp only [encodeSizes, List.length_cons, List.length_nil] at hf
    obtain ⟨f, rfl⟩ : ∃ f, fuel = f + 2 := ⟨fuel - 2, by omega⟩
    simp [encodeSizes, readSizes, readVarInt_zero, entries, endDir]
  | cons c cs ih =>
    intro want fuel hok hf
    have hc : ChunkOk c := hok c (by simp)
    have hcs : ∀ c ∈ cs, ChunkOk c := fun x hx => hok x (by simp [hx])
    have hlen : c.content.length ≠ 0 := by
      intro h; exact hc.1 (List.length_eq_zero_iff.mp h)
    have hpos := writeVarInt_length_pos c.content.length
    have hb : (c.content.length == 0) = false := by simp [hlen]
    by_cases hd : c.dir = want
    · -- expected direction: no marker
      subst hd
      simp only [encodeSizes, bne_self_eq_false, Bool.false_eq_true, if_false, List.nil_append,
        List.length_append] at hf ⊢
      obtain ⟨f, rfl⟩ : ∃ f, fuel = f + 1 := ⟨fuel - 1, by omega⟩
      simp only [readSizes, List.append_assoc, varint_roundtrip _ _ hc.2, hlen, false_and, if_false, hb]
      rw [ih (!c.dir) f hcs (by omega)]
      simp [entries, endDir]
    · -- marker first
      have hne : (c.dir != want) = true := by simpa using hd
      have hw : (!want) = c.dir := by
        cases hcd : c.dir <;> cases hwd : want <;> simp_all
      simp only [encodeSizes, hne, if_true, List.length_append, List.length_cons, List.length_nil] at hf ⊢
      obtain ⟨f, rfl⟩ : ∃ f, fuel = f + 2 := ⟨fuel - 2, by omega⟩
      simp only [readSizes, List.cons_append, List.nil_append, readVarInt_zero, List.append_assoc]
      simp only [Bool.false_eq_true, and_false, if_false, hw]
      simp only [varint_roundtrip _ _ hc.2, hlen, false_and, if_false, hb]
      rw [ih (!c.dir) f hcs (by omega)]
      simp [entries, endDir, hne]

end Pk.Proofs.CacheFile

namespace Pk.Proofs.CacheFile
open Pk.CacheFile

/-! ### times -/

theorem tdiv_spec (d : Int) : (0 ≤ d → d.tdiv 1000 = d / 1000) ∧ (d < 0 → d.tdiv 1000 = -((-d) / 1000)) := by
  constructor
  · intro h; exact Int.tdiv_eq_ediv_of_nonneg h
  · intro h
    have : d = -(-d) := by omega
    rw [this, Int.neg_tdiv, Int.tdiv_eq_ediv_of_nonneg (by omega)]
    simp

theorem toI64_toU64 (r : Int) (h1 : -2 ^ 63 ≤ r) (h2 : r < 2 ^ 63) : toI64 (toU64 r) = r := by
  unfold toI64 toU64
  have h := Int.toNat_of_nonneg (Int.emod_nonneg r (b := 2 ^ 64) (by decide))
  split
  · rename_i hge
    have : (2:Int) ^ 63 ≤ ((r % 2 ^ 64).toNat : Int) := by exact_mod_cast hge
    omega
  · rename_i hge
    have : ((r % 2 ^ 64).toNat : Int) < (2:Int) ^ 63 := by
      have := Nat.lt_of_not_ge hge
      exact_mod_cast this
    omega

theorem wrapI64_id (x : Int) (h1 : -2 ^ 63 ≤ x) (h2 : x < 2 ^ 63) : wrapI64 x = x := by
  unfold wrapI64; omega

theorem reltime_back (d : Int) (h1 : -2 ^ 62 < d) (h2 : d < 2 ^ 62) :
    wrapI64 (toI64 (toU64 (d.tdiv 1000)) * 1000) = d.tdiv 1000 * 1000 := by
  obtain ⟨hp, hn⟩ := tdiv_spec d
  have hb : -2 ^ 62 < d.tdiv 1000 * 1000 ∧ d.tdiv 1000 * 1000 < 2 ^ 62 := by
    by_cases h : 0 ≤ d
    · rw [hp h]; omega
    · rw [hn (by omega)]; omega
  rw [toI64_toU64 _ (by omega) (by omega), wrapI64_id _ (by omega) (by omega)]

theorem time_error (d : Int) : -1000 < d - d.tdiv 1000 * 1000 ∧ d - d.tdiv 1000 * 1000 < 1000 := by
  obtain ⟨hp, hn⟩ := tdiv_spec d
  by_cases h : 0 ≤ d
  · rw [hp h]; omega
  · rw [hn (by omega)]; omega

/-- what `data` hands back for a written chunk list (before content types are applied): same directions
    and bytes, times rebuilt from the stored whole microseconds -/
def readBack : List Chunk → Int → List Chunk
  | [], _ => []
  | c :: cs, last =>
    let t := last + (c.time - last).tdiv 1000 * 1000
    { c with time := t, ctype := [] } :: readBack cs t

/-- consecutive times (starting from the first-packet time) are less than 2^62 ns (146 years) apart -/
def TimesOk : List Chunk → Int → Prop
  | [], _ => True
  | c :: cs, last => (-2 ^ 62 < c.time - last ∧ c.time - last < 2 ^ 62) ∧
      TimesOk cs (last + (c.time - last).tdiv 1000 * 1000)

theorem dataOf_cons (c : Chunk) (cs : List Chunk) (d : Bool) :
    dataOf (c :: cs) d = if c.dir = d then c.content ++ dataOf cs d else dataOf cs d := by
  unfold dataOf
  by_cases h : c.dir = d <;> simp [h]

theorem toU64_lt (r : Int) : toU64 r < 2 ^ 64 := by
  unfold toU64
  have h2 := Int.emod_lt_of_pos r (b := 2 ^ 64) (by omega)
  have h3 := Int.emod_nonneg r (b := 2 ^ 64) (by omega)
  omega

theorem splitChunks_zero (d : Bool) (ds : List (Bool × Nat)) (cd sd rest : List Nat) (last : Int) :
    splitChunks ((d, 0) :: ds) cd sd rest last = splitChunks ds cd sd rest last := by
  simp [splitChunks]

theorem split_read (rest : List Nat) : ∀ (cs : List Chunk) (want : Bool) (cd sd : List Nat) (last : Int),
    (∀ c ∈ cs, ChunkOk c) → TimesOk cs last →
    splitChunks (entries cs want) (dataOf cs false ++ cd) (dataOf cs true ++ sd)
        (encodeTimes cs last ++ rest) last
      = some (readBack cs last, rest) := by
  intro cs
  induction cs with
  | nil => intro want cd sd last _ _; simp [entries, splitChunks, encodeTimes, readBack]
  | cons c cs ih =>
    intro want cd sd last hok ht
    have hc : ChunkOk c := hok c (by simp)
    have hcs : ∀ c ∈ cs, ChunkOk c := fun x hx => hok x (by simp [hx])
    have hlen : c.content.length ≠ 0 := by
      intro h; exact hc.1 (List.length_eq_zero_iff.mp h)
    obtain ⟨⟨ht1, ht2⟩, ht3⟩ := ht
    have hu : toU64 ((c.time - last).tdiv 1000) < 2 ^ 64 := toU64_lt _
    -- the entry of the chunk itself
    have main : splitChunks ((c.dir, c.content.length) :: entries cs (!c.dir)) (dataOf (c :: cs) false ++ cd)
        (dataOf (c :: cs) true ++ sd) (encodeTimes (c :: cs) last ++ rest) last
          = some (readBack (c :: cs) last, rest) := by
      simp only [splitChunks, hlen, if_false, encodeTimes, List.append_assoc, varint_roundtrip _ _ hu,
        reltime_back _ ht1 ht2, dataOf_cons]
      cases hd : c.dir
      · simp only [Bool.false_eq_true, if_false, if_true, List.append_assoc, List.take_left',
          List.drop_left']
        rw [ih _ cd sd _ hcs ht3]
        simp [readBack, hd]
      · simp only [Bool.true_eq_false, if_false, if_true, List.append_assoc, List.take_left',
          List.drop_left']
        rw [ih _ cd sd _ hcs ht3]
        simp [readBack, hd]
    by_cases hd : c.dir = want
    · subst hd
      have e : entries (c :: cs) c.dir = (c.dir, c.content.length) :: entries cs (!c.dir) := by
        simp [entries]
      rw [e]; exact main
    · have hne : (c.dir != want) = true := by simpa using hd
      have e : entries (c :: cs) want = (want, 0) :: (c.dir, c.content.length) :: entries cs (!c.dir) := by
        simp [entries, hne]
      rw [e, splitChunks_zero]; exact main

end Pk.Proofs.CacheFile

namespace Pk.Proofs.CacheFile
open Pk.CacheFile

/-! ### the whole record, chunk lists without content types -/

theorem foldl_add (l : List (Bool × Nat)) : ∀ a, l.foldl (fun a e => a + e.2) a = a + l.foldl (fun a e => a + e.2) 0 := by
  induction l with
  | nil => intro a; simp
  | cons x xs ih => intro a; simp only [List.foldl_cons]; rw [ih (a + x.2), ih (0 + x.2)]; omega

theorem sumDir_cons (e : Bool × Nat) (ds : List (Bool × Nat)) (d : Bool) :
    sumDir (e :: ds) d = (if e.1 = d then e.2 else 0) + sumDir ds d := by
  unfold sumDir
  by_cases h : e.1 = d
  · simp only [List.filter_cons, h, beq_self_eq_true, if_true, List.foldl_cons]
    rw [foldl_add]; omega
  · have : (e.1 == d) = false := by simpa using h
    simp [List.filter_cons, this, h]

theorem sumDir_nil (d : Bool) : sumDir [] d = 0 := by simp [sumDir]

theorem sumDir_entries (d : Bool) : ∀ (cs : List Chunk) (want e : Bool),
    sumDir (entries cs want ++ [(e, 0)]) d = (dataOf cs d).length := by
  intro cs
  induction cs with
  | nil => intro want e; simp [entries, sumDir_cons, sumDir_nil, dataOf]
  | cons c cs ih =>
    intro want e
    by_cases hd : c.dir = want
    · subst hd
      simp only [entries, bne_self_eq_false, Bool.false_eq_true, if_false, List.nil_append, List.cons_append,
        sumDir_cons, ih, dataOf_cons]
      by_cases h : c.dir = d <;> simp [h]
    · have hne : (c.dir != want) = true := by simpa using hd
      simp only [entries, hne, if_true, List.cons_append, List.nil_append, sumDir_cons, ih, dataOf_cons]
      by_cases h : c.dir = d <;> simp [h]

theorem collectCts_noct : ∀ (cs : List Chunk) (i : Nat) (m : List (List Nat × List Nat)),
    (∀ c ∈ cs, c.ctype = []) → collectCts cs i m = m := by
  intro cs
  induction cs with
  | nil => intro i m _; simp [collectCts]
  | cons c cs ih =>
    intro i m h
    have hc : c.ctype = [] := h c (by simp)
    simp only [collectCts, hc, if_true]
    exact ih (i + 1) m (fun x hx => h x (by simp [hx]))

theorem readBack_noct : ∀ (cs : List Chunk) (last : Int), ∀ c ∈ readBack cs last, c.ctype = [] := by
  intro cs
  induction cs with
  | nil => intro last c h; simp [readBack] at h
  | cons x xs ih =>
    intro last c h
    simp only [readBack, List.mem_cons] at h
    rcases h with h | h
    · subst h; rfl
    · exact ih _ c h

theorem readVarBytes_zero (rest : List Nat) : readVarBytes (0 :: rest) = some ([], rest) := by
  simp [readVarBytes, readVarBytesAux]

theorem record_roundtrip_noct (cs : List Chunk) (t0 : Int)
    (hok : ∀ c ∈ cs, ChunkOk c) (hct : ∀ c ∈ cs, c.ctype = []) (ht : TimesOk cs t0) :
    decodeRecord (encodeBody cs t0) t0
      = some { chunks := readBack cs t0, clientBytes := (dataOf cs false).length,
               serverBytes := (dataOf cs true).length } := by
  unfold decodeRecord encodeBody
  rw [sizes_read _ cs false _ hok (by simp only [List.length_append]; omega)]
  simp only [List.dropLast_concat, sumDir_entries]
  have h1 : ¬ ((dataOf cs false ++ (dataOf cs true ++ (encodeTimes cs t0 ++ encodeCts (collectCts cs 0 [])))).length
      < (dataOf cs false).length) := by simp only [List.length_append]; omega
  simp only [h1, if_false, List.take_left', List.drop_left']
  have h2 : ¬ ((dataOf cs true ++ (encodeTimes cs t0 ++ encodeCts (collectCts cs 0 []))).length
      < (dataOf cs true).length) := by simp only [List.length_append]; omega
  simp only [h2, if_false, List.take_left', List.drop_left']
  have hs := split_read (encodeCts (collectCts cs 0 [])) cs false [] [] t0 hok ht
  simp only [List.append_nil] at hs
  rw [hs, collectCts_noct cs 0 [] hct]
  simp [encodeCts, readCts, readVarBytes_zero]

end Pk.Proofs.CacheFile

namespace Pk.Proofs.CacheFile
open Pk.CacheFile

/-! ### the file: store then read, invalidate then read -/

theorem lookup_insert_self (m : List (Nat × Info)) (id : Nat) (i : Info) : lookup (insert m id i) id = some i := by
  simp [lookup, Pk.CacheFile.insert, List.find?_cons]

theorem lookup_erase_self (m : List (Nat × Info)) (id : Nat) : lookup (erase m id) id = none := by
  simp [lookup, erase, List.find?_eq_none]

theorem le64_length (n : Nat) : (le64 n).length = 8 := by simp [le64]

theorem drop_patch (bs new : List Nat) (off n : Nat) (h1 : off + new.length ≤ n) (h2 : n ≤ bs.length) :
    (patch bs off new).drop n = bs.drop n := by
  unfold patch
  have hl : (bs.take off).length = off := by simp [List.length_take]; omega
  rw [List.drop_append, List.drop_append, hl]
  have a1 : (bs.take off).drop n = [] := List.drop_eq_nil_of_le (by omega)
  have a2 : new.drop (n - off) = [] := List.drop_eq_nil_of_le (by omega)
  rw [a1, a2, List.drop_drop]
  simp only [List.nil_append]
  congr 1; omega

theorem section_after_store (bytes record : List Nat) (hdr : List Nat) (h8 : hdr.length = 8) :
    ((bytes ++ (hdr ++ record)).drop (bytes.length + 8)).take record.length = record := by
  rw [List.drop_append]
  have a1 : bytes.drop (bytes.length + 8) = [] := List.drop_eq_nil_of_le (by omega)
  have a2 : bytes.length + 8 - bytes.length = hdr.length := by omega
  rw [a1, a2, List.nil_append, List.drop_left, List.take_length]

theorem store_then_read (st : St) (id : Nat) (t0 : Int) (cs : List Chunk)
    (hsz : st.fileSize = st.bytes.length)
    (hno : ¬ (st.freeSize ≥ cleanupMinFreeSize ∧ st.freeSize ≥ st.fileSize / 2))
    (hold : ∀ o, lookup st.infos id = some o → 8 ≤ o.offset ∧ o.offset ≤ st.fileSize) :
    ∃ st', setData st id t0 cs = some st' ∧
      data st' id t0 = (decodeRecord (encodeRecord cs t0) t0).map some := by
  unfold setData
  simp only [hno, if_false]
  cases ho : lookup st.infos id with
  | none =>
    refine ⟨_, rfl, ?_⟩
    simp only [data, lookup_insert_self, section_, streamHeaderSize, hsz]
    rw [section_after_store _ _ _ (le64_length id)]
  | some o =>
    refine ⟨_, rfl, ?_⟩
    obtain ⟨ho1, ho2⟩ := hold o ho
    simp only [data, freeStream, lookup_insert_self, section_, streamHeaderSize, hsz]
    rw [drop_patch _ _ _ _ (by rw [le64_length]; omega)
      (by simp only [List.length_append, le64_length]; omega)]
    rw [section_after_store _ _ _ (le64_length id)]

theorem invalidate_then_read (st : St) (id : Nat) (t0 : Int) :
    data (invalidateOne st id).1 id t0 = some none ∧ contains (invalidateOne st id).1 id = false := by
  unfold invalidateOne
  cases ho : lookup st.infos id with
  | none => simp [data, contains, ho]
  | some o => simp [data, contains, freeStream, lookup_erase_self]

end Pk.Proofs.CacheFile
