/-
  `index.Merge` as a fold of `AddIndex` into one writer, and the agreement of the writer with the stack of
  the inputs merged so far.
-/
import Pk.Proofs.MergeFullReopen

namespace Pk.Index
open Pk Pk.Bytes

/-! ## `AddIndex` always answers `true` and only grows the tables -/

theorem addIndex_true (w w' : Writer) (r : Reader) (b : Bool) (h : w.addIndex r = .ok (w', b)) : b = true := by
  unfold Writer.addIndex at h
  simp only at h
  split at h
  · simp at h
  · split at h
    · exact ((Prod.mk.inj (Except.ok.inj h)).2).symm
    · exact ((Prod.mk.inj (Except.ok.inj h)).2).symm

theorem copyStreams_packets_prefix (r : Reader) (existing importRemap : List Nat) (hgRemap : List HgRemap) (ss : List StreamRec) :
    ∀ (acc acc' : CopyAcc), copyStreams r existing importRemap hgRemap ss acc = .ok acc' → ∃ X, acc'.packets = acc.packets ++ X := by
  induction ss with
  | nil => intro acc acc' h; simp [copyStreams] at h; subst h; exact ⟨[], by simp⟩
  | cons s ss ih =>
    intro acc acc' h
    rw [copyStreams_cons] at h
    split at h
    · exact ih acc acc' h
    · split at h
      · simp at h
      · split at h
        · split at h
          · simp at h
          · split at h
            · simp at h
            · rename_i ps _ _ _ _
              obtain ⟨X, hX⟩ := ih _ acc' h
              exact ⟨ps ++ X, by rw [hX, List.append_assoc]⟩
        · simp at h

theorem addIndex_grows (w w' : Writer) (r : Reader) (b : Bool) (hw : GroupsInv w.hostGroups) (hr : r.HostsInv)
    (h : w.addIndex r = .ok (w', b)) :
    w.packets.length ≤ w'.packets.length ∧ w.imports.length ≤ w'.imports.length ∧
    w.hostGroups.length ≤ w'.hostGroups.length := by
  obtain ⟨acc, hc, hcase⟩ := addIndex_unfold w w' r b h
  obtain ⟨_, hpg2, _⟩ := placeGroups_spec r.hostGroups hr w.hostGroups hw
  have hlen := hpg2.length_le
  rcases hcase with ⟨_, rfl⟩ | ⟨_, rfl⟩
  · refine ⟨Nat.le_refl _, Nat.le_refl _, ?_⟩
    simp only [List.length_take]
    omega
  · obtain ⟨X, hX⟩ := copyStreams_packets_prefix _ _ _ _ _ _ _ hc
    obtain ⟨⟨extra, hmi, _⟩, _⟩ := mergeImports_spec w.imports r.imports
    refine ⟨?_, ?_, hlen⟩
    · simp only [hX, List.length_append]; omega
    · simp only [hmi, List.length_append]; omega

/-! ## the fold -/

/-- `AddIndex` of every input (newest first) into one writer -/
def foldIdx : List Reader → Writer → Except Fail Writer
  | [], w => .ok w
  | r :: rs, w => match w.addIndex r with
    | .error e => .error e
    | .ok (w', _) => foldIdx rs w'

theorem mergeWriters_fold (rs : List Reader) : ∀ (w : Writer),
    mergeWriters rs [w] = match foldIdx rs w with | .ok wf => .ok [wf] | .error e => .error e := by
  induction rs with
  | nil => intro w; rfl
  | cons r rs ih =>
    intro w
    simp only [mergeWriters, tryWriters, foldIdx]
    cases h : w.addIndex r with
    | error e => rfl
    | ok p =>
      obtain ⟨w1, b⟩ := p
      have := addIndex_true w w1 r b h
      subst this
      simp only
      exact ih w1

theorem merge_cases (suf merged : List Reader) (h : merge suf = .ok merged) :
    (suf = [] ∧ merged = []) ∨
    ∃ wf m, foldIdx suf.reverse {} = .ok wf ∧ newReader wf.finalize = .ok m ∧ merged = [m] := by
  unfold merge at h
  cases hrev : suf.reverse with
  | nil =>
    left
    rw [hrev] at h
    simp [mergeWriters, finalizeAll] at h
    exact ⟨by simpa using hrev, h⟩
  | cons r rs =>
    right
    rw [hrev] at h
    simp only [mergeWriters, tryWriters, foldIdx] at h ⊢
    cases h1 : ({} : Writer).addIndex r with
    | error e => rw [h1] at h; simp at h
    | ok p =>
      obtain ⟨w1, b⟩ := p
      rw [h1] at h
      simp only at h ⊢
      rw [mergeWriters_fold] at h
      cases h2 : foldIdx rs w1 with
      | error e => rw [h2] at h; simp at h
      | ok wf =>
        rw [h2] at h
        simp only [finalizeAll] at h
        cases h3 : newReader wf.finalize with
        | error e => rw [h3] at h; simp at h
        | ok m =>
          rw [h3] at h
          simp at h
          exact ⟨wf, m, rfl, h3, h.symm⟩

theorem fold_grows (rs : List Reader) : ∀ (w wf : Writer), foldIdx rs w = .ok wf → GroupsInv w.hostGroups →
    (∀ r ∈ rs, r.HostsInv) →
    w.packets.length ≤ wf.packets.length ∧ w.imports.length ≤ wf.imports.length ∧
    w.hostGroups.length ≤ wf.hostGroups.length := by
  induction rs with
  | nil => intro w wf h _ _; simp [foldIdx] at h; subst h; exact ⟨Nat.le_refl _, Nat.le_refl _, Nat.le_refl _⟩
  | cons r rs ih =>
    intro w wf h hw hrs
    simp only [foldIdx] at h
    cases h1 : w.addIndex r with
    | error e => rw [h1] at h; simp at h
    | ok p =>
      obtain ⟨w1, b⟩ := p
      rw [h1] at h
      simp only at h
      have hr := hrs r (by simp)
      obtain ⟨a1, a2, a3⟩ := addIndex_grows w w1 r b hw hr h1
      obtain ⟨b1, b2, b3⟩ := ih w1 wf h (addIndex_inv w w1 r b hr hw h1) (fun x hx => hrs x (by simp [hx]))
      exact ⟨by omega, by omega, by omega⟩

/-! ## agreement of the writer with the stack merged so far -/

def Agree (w : Writer) (done : List Reader) : Prop :=
  ∀ id, (∀ s, lastWith w.streams id = some s → ∃ v, WView w s v ∧ nvSpec done id = some (some v)) ∧
        (lastWith w.streams id = none → nvSpec done id = none)

theorem step_agree (w w' : Writer) (r : Reader) (b : Bool) (hw : WInv w) (hr : r.WF)
    (h : w.addIndex r = .ok (w', b)) (hfit : w'.Fits) (done : List Reader) (ha : Agree w done) :
    WInv w' ∧ Agree w' (done ++ [r]) := by
  obtain ⟨hw', hold, olds, new, hst, hlen, hnew⟩ := addIndex_step_aux w w' r b hw hr h hfit
  refine ⟨hw', ?_⟩
  have allOld : All₂ (fun s s' => s'.id = s.id ∧ ∀ v, WView w s v → WView w' s' v) w.streams olds := by
    apply All₂.of_index _ _ hlen
    intro j a hj
    obtain ⟨_, k, hl, hk⟩ := hw.streams a (List.mem_of_getElem? hj)
    obtain ⟨s', hs', hid, _⟩ := hold j a _ hj ⟨k, hl, hk, rfl⟩
    have hjl : j < olds.length := by rw [hlen]; exact getElem?_lt' hj
    rw [hst, List.getElem?_append_left hjl] at hs'
    refine ⟨s', hs', hid, ?_⟩
    intro v hv
    obtain ⟨s'', hs'', _, hv''⟩ := hold j a v hj hv
    rw [hst, List.getElem?_append_left hjl, hs'] at hs''
    injection hs'' with e
    rw [e]; exact hv''
  have hnewL := hnew.lastWith (fun a b hab => hab.1)
  have holdL := allOld.lastWith (fun a b hab => hab.1)
  intro id
  rw [hst, lastWith_append, nvSpec_snoc]
  cases hL : lastWith w.streams id with
  | none =>
    have h1 := (holdL id).2 hL
    have h2 := (ha id).2 hL
    have hnone := lastWith_none.mp hL
    have hfil : lastWith (r.f.streams.filter fun s => !(w.streams.map (·.id)).contains s.id) id = lastWith r.f.streams id := by
      apply lastWith_filter
      intro s _ hs
      simp only [Bool.not_eq_eq_eq_not, Bool.not_true, List.contains_eq_mem, List.mem_map, decide_eq_false_iff_not, not_exists, not_and]
      intro x hx heq
      exact hnone x hx (heq.trans hs)
    rw [h1, h2]
    cases hR : lastWith r.f.streams id with
    | none =>
      rw [hR] at hfil
      rw [(hnewL id).2 hfil]
      simp
    | some s =>
      rw [hR] at hfil
      obtain ⟨s', hs', _, _, v, hv1, hv2⟩ := (hnewL id).1 s hfil
      rw [hs']
      simp only [Option.some.injEq, reduceCtorEq, false_implies, and_true, Option.map_some]
      intro s'' e
      subst e
      exact ⟨v, hv2, by rw [hv1]⟩
  | some s =>
    obtain ⟨v, hv, hn⟩ := (ha id).1 s hL
    obtain ⟨s', hs', _, hvv⟩ := (holdL id).1 s hL
    obtain ⟨hmem, hid⟩ := lastWith_some hL
    have hfil : lastWith (r.f.streams.filter fun s => !(w.streams.map (·.id)).contains s.id) id = none := by
      rw [lastWith_none]
      intro x hx heq
      have := (List.mem_filter.mp hx).2
      simp only [Bool.not_eq_eq_eq_not, Bool.not_true, List.contains_eq_mem, List.mem_map, decide_eq_false_iff_not, not_exists, not_and] at this
      exact this s hmem (hid.trans heq.symm)
    rw [(hnewL id).2 hfil, hs', hn]
    simp only [Option.some.injEq, reduceCtorEq, false_implies, and_true]
    intro s'' e
    subst e
    exact ⟨v, hvv v hv, rfl⟩

theorem fold_agree (rs : List Reader) : ∀ (w wf : Writer) (done : List Reader), foldIdx rs w = .ok wf → WInv w →
    (∀ r ∈ rs, r.WF) → wf.Fits → Agree w done → WInv wf ∧ Agree wf (done ++ rs) := by
  induction rs with
  | nil => intro w wf done h hw _ _ ha; simp [foldIdx] at h; subst h; exact ⟨hw, by simpa using ha⟩
  | cons r rs ih =>
    intro w wf done h hw hrs hfit ha
    simp only [foldIdx] at h
    cases h1 : w.addIndex r with
    | error e => rw [h1] at h; simp at h
    | ok p =>
      obtain ⟨w1, b⟩ := p
      rw [h1] at h
      simp only at h
      have hr := hrs r (by simp)
      have hrest : ∀ x ∈ rs, x.WF := fun x hx => hrs x (by simp [hx])
      have hg1 := addIndex_inv w w1 r b hr.hosts hw.groups h1
      obtain ⟨b1, b2, b3⟩ := fold_grows rs w1 wf h hg1 (fun x hx => (hrest x hx).hosts)
      have hfit1 : w1.Fits := ⟨Nat.le_trans b1 hfit.packets, Nat.le_trans b2 hfit.imports, Nat.le_trans b3 hfit.groups⟩
      obtain ⟨hw1, ha1⟩ := step_agree w w1 r b hw hr h1 hfit1 done ha
      have := ih w1 wf (done ++ [r]) h hw1 hrest hfit ha1
      simpa using this

theorem WInv.empty : WInv ({} : Writer) :=
  ⟨fun g hg => by simp at hg, rfl, List.nodup_nil, fun k hk => by simp at hk, by decide, fun s hs => by simp at hs⟩

theorem Agree.empty : Agree ({} : Writer) [] := fun id => ⟨fun s hs => by simp [lastWith] at hs, fun _ => rfl⟩

/-- the view of the merged stack equals the view of the inputs -/
theorem merge_stackView (suf merged : List Reader) (hwf : ∀ r ∈ suf, r.WF) (hm : merge suf = .ok merged)
    (hfit : ∀ m ∈ merged, m.Fits) (id : Nat) : stackView merged id = stackView suf id := by
  rcases merge_cases suf merged hm with ⟨rfl, rfl⟩ | ⟨wf, m, hfold, hnr, rfl⟩
  · rfl
  · have hfitw : wf.Fits := reopen_fits wf m hnr (hfit m (by simp))
    obtain ⟨hw, ha⟩ := fold_agree suf.reverse {} wf [] hfold WInv.empty (fun r hr => hwf r (by simpa using hr)) hfitw Agree.empty
    simp only [List.nil_append] at ha
    rw [stackView_spec suf (fun r hr => (hwf r hr).idRange),
      stackView_spec [m] (fun r hr => by simp at hr; subst hr; exact reopen_idRange _ r hnr)]
    obtain ⟨_, _, _, e4, _, _⟩ := reopen_fields wf hw hfitw m hnr
    simp only [List.reverse_cons, List.reverse_nil, List.nil_append, nvSpec, e4]
    cases hL : lastWith wf.streams id with
    | none => exact ((ha id).2 hL).symm
    | some s =>
      obtain ⟨v, hv, hn⟩ := (ha id).1 s hL
      simp only
      rw [hn, reopen_view wf hw hfitw m hnr s v hv]

end Pk.Index
