/- Helper lemmas for C12 (state-file selection, crash prefixes of saveState). -/
import Pk.Model.Recover
namespace Pk.Proofs.Recover
open Pk.Recover

theorem pickState_append (a b : List StateFile) (best : Option StateFile) :
    pickState (a ++ b) best = pickState b (pickState a best) := by
  induction a generalizing best with
  | nil => simp [pickState]
  | cons f fs ih =>
    simp only [List.cons_append, pickState]
    split
    · exact ih _
    · split
      · exact ih _
      · split <;> exact ih _

theorem pickState_unparsable (f : StateFile) (fs : List StateFile) (best : Option StateFile)
    (h : f.parsable = false) : pickState (f :: fs) best = pickState fs best := by
  simp [pickState, h]

theorem pickState_parsable_none (f : StateFile) (fs : List StateFile)
    (h : f.parsable = true) : pickState (f :: fs) none = pickState fs (some f) := by
  simp [pickState, h]

theorem pickState_parsable_some (f b : StateFile) (fs : List StateFile)
    (h : f.parsable = true) :
    pickState (f :: fs) (some b) =
      if f.saved < b.saved then pickState fs (some b) else pickState fs (some f) := by
  simp [pickState, h]

/-- the result is the accumulator or a parsable member of the list -/
theorem pickState_mem (fs : List StateFile) (best : Option StateFile) (r : StateFile)
    (h : pickState fs best = some r) : best = some r ∨ (r ∈ fs ∧ r.parsable = true) := by
  induction fs generalizing best with
  | nil => left; simpa [pickState] using h
  | cons f fs ih =>
    cases hp : f.parsable with
    | false =>
      rw [pickState_unparsable _ _ _ hp] at h
      rcases ih _ h with h' | ⟨h1, h2⟩
      · exact Or.inl h'
      · exact Or.inr ⟨List.mem_cons_of_mem _ h1, h2⟩
    | true =>
      cases best with
      | none =>
        rw [pickState_parsable_none _ _ hp] at h
        rcases ih _ h with h' | ⟨h1, h2⟩
        · right
          have : f = r := by simpa using h'
          subst this
          exact ⟨List.mem_cons_self, hp⟩
        · exact Or.inr ⟨List.mem_cons_of_mem _ h1, h2⟩
      | some b =>
        rw [pickState_parsable_some _ _ _ hp] at h
        split at h
        · rcases ih _ h with h' | ⟨h1, h2⟩
          · exact Or.inl h'
          · exact Or.inr ⟨List.mem_cons_of_mem _ h1, h2⟩
        · rcases ih _ h with h' | ⟨h1, h2⟩
          · right
            have : f = r := by simpa using h'
            subst this
            exact ⟨List.mem_cons_self, hp⟩
          · exact Or.inr ⟨List.mem_cons_of_mem _ h1, h2⟩

/-- a `some` accumulator never turns into `none` -/
theorem pickState_some_isSome (fs : List StateFile) (b : StateFile) :
    (pickState fs (some b)).isSome = true := by
  induction fs generalizing b with
  | nil => simp [pickState]
  | cons f fs ih =>
    cases hp : f.parsable with
    | false => rw [pickState_unparsable _ _ _ hp]; exact ih b
    | true =>
      rw [pickState_parsable_some _ _ _ hp]
      split
      · exact ih b
      · exact ih f

/-- the result dominates the accumulator and every parsable member -/
theorem pickState_max (fs : List StateFile) (best : Option StateFile) (r : StateFile)
    (h : pickState fs best = some r) :
    (∀ b, best = some b → b.saved ≤ r.saved) ∧ (∀ f ∈ fs, f.parsable = true → f.saved ≤ r.saved) := by
  induction fs generalizing best with
  | nil =>
    simp only [pickState] at h
    subst h
    simp
  | cons f fs ih =>
    cases hp : f.parsable with
    | false =>
      rw [pickState_unparsable _ _ _ hp] at h
      obtain ⟨h1, h2⟩ := ih _ h
      refine ⟨h1, ?_⟩
      intro g hg hgp
      rcases List.mem_cons.mp hg with rfl | hg
      · simp [hp] at hgp
      · exact h2 g hg hgp
    | true =>
      cases best with
      | none =>
        rw [pickState_parsable_none _ _ hp] at h
        obtain ⟨h1, h2⟩ := ih _ h
        refine ⟨by simp, ?_⟩
        intro g hg hgp
        rcases List.mem_cons.mp hg with rfl | hg
        · exact h1 _ rfl
        · exact h2 g hg hgp
      | some b =>
        rw [pickState_parsable_some _ _ _ hp] at h
        split at h
        · obtain ⟨h1, h2⟩ := ih _ h
          refine ⟨h1, ?_⟩
          intro g hg hgp
          rcases List.mem_cons.mp hg with rfl | hg
          · have := h1 b rfl
            omega
          · exact h2 g hg hgp
        · obtain ⟨h1, h2⟩ := ih _ h
          refine ⟨?_, ?_⟩
          · intro b' hb'
            have : b = b' := by simpa using hb'
            subst this
            have := h1 f rfl
            omega
          · intro g hg hgp
            rcases List.mem_cons.mp hg with rfl | hg
            · exact h1 _ rfl
            · exact h2 g hg hgp

/-- some parsable member ⇒ a file is loaded -/
theorem pickState_isSome_of_mem (fs : List StateFile) (best : Option StateFile) (f : StateFile)
    (hf : f ∈ fs) (hp : f.parsable = true) : (pickState fs best).isSome = true := by
  induction fs generalizing best with
  | nil => cases hf
  | cons g fs ih =>
    cases hgp : g.parsable with
    | false =>
      rw [pickState_unparsable _ _ _ hgp]
      rcases List.mem_cons.mp hf with rfl | hf
      · simp [hgp] at hp
      · exact ih _ hf
    | true =>
      cases best with
      | none => rw [pickState_parsable_none _ _ hgp]; exact pickState_some_isSome _ _
      | some b => exact pickState_some_isSome _ _

/-- a parsable file with a stamp strictly above everything before it wins when it comes last -/
theorem pickState_snoc_newer (ss : List StateFile) (n : StateFile) (hn : n.parsable = true)
    (hlt : ∀ f ∈ ss, f.parsable = true → f.saved < n.saved) :
    pickState (ss ++ [n]) none = some n := by
  rw [pickState_append]
  cases hq : pickState ss none with
  | none => simp [pickState, hn]
  | some b =>
    rcases pickState_mem _ _ _ hq with h | ⟨h1, h2⟩
    · cases h
    · have := hlt b h1 h2
      rw [pickState_parsable_some _ _ _ hn]
      simp only [pickState]
      rw [if_neg (by omega)]

/-- an unparsable last file is ignored -/
theorem pickState_snoc_unparsable (ss : List StateFile) (n : StateFile) (hn : n.parsable = false)
    (best : Option StateFile) : pickState (ss ++ [n]) best = pickState ss best := by
  rw [pickState_append, pickState_unparsable _ _ _ hn]
  simp [pickState]

/-- a unique parsable file with the maximal stamp is the one loaded -/
theorem pickState_unique (ss : List StateFile) (cur : StateFile) (hm : cur ∈ ss)
    (hp : cur.parsable = true)
    (hmax : ∀ f ∈ ss, f.parsable = true → f.saved ≤ cur.saved ∧ (f.saved = cur.saved → f = cur)) :
    pickState ss none = some cur := by
  have hs := pickState_isSome_of_mem ss none cur hm hp
  cases hq : pickState ss none with
  | none => simp [hq] at hs
  | some r =>
    rcases pickState_mem _ _ _ hq with h | ⟨h1, h2⟩
    · cases h
    · have h3 := (pickState_max _ _ _ hq).2 cur hm hp
      obtain ⟨h4, h5⟩ := hmax r h1 h2
      rw [h5 (by omega)]

/-- `complete n` leaves files with other names alone -/
theorem map_complete_other (ss : List StateFile) (n : Nat) (h : ∀ f ∈ ss, f.name ≠ n) :
    (ss.map fun f => if f.name = n then { f with parsable := true } else f) = ss := by
  induction ss with
  | nil => rfl
  | cons f fs ih =>
    simp only [List.map_cons]
    rw [if_neg (h f List.mem_cons_self), ih (fun g hg => h g (List.mem_cons_of_mem _ hg))]

/-- the disk after the first operation of `saveState` -/
theorem disk1 (ss : List StateFile) (new : StateFile) :
    applyOp ss (.createPartial new) = ss ++ [{ new with parsable := false }] := rfl

/-- the disk after the first two operations of `saveState` -/
theorem disk2 (ss : List StateFile) (new : StateFile) (h : ∀ f ∈ ss, f.name ≠ new.name) :
    applyOp (applyOp ss (.createPartial new)) (.complete new.name) =
      ss ++ [{ new with parsable := true }] := by
  simp only [applyOp, List.map_append, List.map_cons, List.map_nil, if_true]
  rw [map_complete_other ss new.name h]

/-- the disk after all three operations of `saveState` -/
theorem disk3 (ss : List StateFile) (new : StateFile) (o : Nat) (h : ∀ f ∈ ss, f.name ≠ new.name)
    (ho : new.name ≠ o) :
    applyOp (applyOp (applyOp ss (.createPartial new)) (.complete new.name)) (.remove o) =
      ss.filter (·.name ≠ o) ++ [{ new with parsable := true }] := by
  rw [disk2 ss new h]
  simp [applyOp, List.filter_append, ho]

end Pk.Proofs.Recover
