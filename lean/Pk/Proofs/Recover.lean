/- Helper lemmas for C12 (state-file selection, crash prefixes of saveState). -/
import Pk.Model.Recover
namespace Pk.Proofs.Recover
open Pk.Recover
end Pk.Proofs.Recover
