/-
  Helper lemmas for Pk/Props/C05More.lean, target (3): a wire of several conversations — selecting
  the packets of one conversation, splitting off the conversation of the first packet.
-/
import Pk.Proofs.ImportReasmMoreFlow

namespace Pk.Proofs.ImportReasm
open Pk.Import

theorem sameConv_symm {p q : Pkt} (h : sameConv p q) : sameConv q p := by
  obtain ⟨h0, h1 | h1⟩ := h
  · exact ⟨h0.symm, Or.inl ⟨h1.1.symm, h1.2.1.symm, h1.2.2.1.symm, h1.2.2.2.symm⟩⟩
  · exact ⟨h0.symm, Or.inr ⟨h1.2.1.symm, h1.1.symm, h1.2.2.2.symm, h1.2.2.1.symm⟩⟩

theorem sameConv_trans {p q r : Pkt} (h : sameConv p q) (h' : sameConv q r) : sameConv p r := by
  obtain ⟨h0, h1⟩ := h
  obtain ⟨h0', h1'⟩ := h'
  refine ⟨h0.trans h0', ?_⟩
  rcases h1 with ⟨a1, a2, a3, a4⟩ | ⟨a1, a2, a3, a4⟩ <;> rcases h1' with ⟨b1, b2, b3, b4⟩ | ⟨b1, b2, b3, b4⟩
  · exact Or.inl ⟨a1.trans b1, a2.trans b2, a3.trans b3, a4.trans b4⟩
  · exact Or.inr ⟨a1.trans b1, a2.trans b2, a3.trans b3, a4.trans b4⟩
  · exact Or.inr ⟨a1.trans b2, a2.trans b1, a3.trans b4, a4.trans b3⟩
  · exact Or.inl ⟨a1.trans b2, a2.trans b1, a3.trans b4, a4.trans b3⟩

/-- the packets of the conversation of packet `k` (same transport, same 4-tuple up to direction) -/
def selOf (k : Pkt) : Pkt → Bool := fun p => decide (sameConv p k)

theorem selOf_closed (k : Pkt) : FlowClosed (selOf k) := by
  intro p q h
  unfold selOf
  by_cases hp : sameConv p k
  · have : sameConv q k := sameConv_trans (sameConv_symm h) hp
    simp [hp, this]
  · have : ¬ sameConv q k := fun hq => hp (sameConv_trans h hq)
    simp [hp, this]

theorem flowClosed_not {F : Pkt → Bool} (h : FlowClosed F) : FlowClosed (fun p => !F p) := by
  intro p q hpq
  simp only [h p q hpq]

theorem inWindow_filter {t0 : Nat} {ps : List Pkt} (h : InWindow t0 ps) (F : Pkt → Bool) : InWindow t0 (ps.filter F) :=
  fun p hm => h p (List.mem_filter.mp hm).1

theorem filter_head_split {α : Type} (G : α → Bool) (s x : α) (l : List α) (hs : G s = true)
    (hf : (s :: l).filter G = [x]) : s :: l = x :: (s :: l).filter (fun a => !G a) := by
  rw [List.filter_cons_of_pos hs] at hf
  have h1 : s = x := (List.cons.inj hf).1
  have h2 : l.filter G = [] := (List.cons.inj hf).2
  have h3 : (s :: l).filter (fun a => !G a) = l := by
    rw [List.filter_cons_of_neg (by simp [hs])]
    apply List.filter_eq_self.mpr
    intro a ha
    have := List.filter_eq_nil_iff.mp h2 a ha
    simpa using this
  rw [h3, h1]

/-- within one timeout window: if the packets of the first packet's conversation alone give exactly
    one stream `x`, then `x` is the first stream of the whole wire, and the other streams are those
    of the remaining packets -/
theorem reasm_split_first (t0 : Nat) (p : Pkt) (rest : List Pkt) (hw : InWindow t0 (p :: rest)) (F : Pkt → Bool)
    (hF : FlowClosed F) (hp : F p = true) (x : Stream) (hx : reasm ((p :: rest).filter F) = #[x]) :
    (reasm (p :: rest)).toList = x :: (reasm ((p :: rest).filter (fun q => !F q))).toList := by
  obtain ⟨s, l, hsl, hkey⟩ := reasm_head_window t0 p rest hw
  have hA := reasm_filter_window t0 (p :: rest) F hw hF
  have hB := reasm_filter_window t0 (p :: rest) (fun q => !F q) hw (flowClosed_not hF)
  rw [hx, hsl] at hA
  rw [hsl] at hB
  have hs : F (Stream.keyPkt s) = true := by rw [hF _ _ hkey]; exact hp
  have := filter_head_split (fun s => F (Stream.keyPkt s)) s x l hs (by simpa using hA)
  rw [hsl, this, hB]

end Pk.Proofs.ImportReasm
