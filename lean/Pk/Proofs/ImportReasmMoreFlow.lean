/-
  Flow locality of the reference reassembler within one inactivity-timeout window
  (helper lemmas for Pk/Props/C05): the streams of a flow-closed selection of the packets are
  exactly the streams that the selected packets produce alone (A); the first stream belongs to the
  first packet (B); every stream belongs to the conversation of some packet (C).

  Parts: ImportReasmMoreFlow1 (interface definitions, flushes that do nothing),
  ImportReasmMoreFlow2 (`tcpPacket`/`udpPacket` as find + body; keys, window invariant),
  ImportReasmMoreFlow3 (abstract machine `aStep`/`aRun`, simulation `sim_step`), this file
  (run, entry invariant, filter lemma, the theorems);
  ImportReasmMoreFlow4 is independent of (A)-(C): (D) the flushes beyond the window
  (`tcpFlush_keeps`, `tcpFlush_conns`, `tcpFlush_streams`, `tcpFlush_ext`, `tcpFlush_size`, `tcpFlush_u`,
  `udpFlush_conns`, `udpFlush_streams`, `udpFlush_size`).
-/
import Pk.Proofs.ImportReasmMoreFlow3
import Pk.Proofs.ImportReasmMoreFlow4

namespace Pk.Proofs.ImportReasm
open Pk.Import

/-! ### generic facts about `updFirst` -/

theorem updFirst_all (P : Entry → Prop) (f : Entry → Option Entry) (new : Entry) (a : List Entry)
    (ha : ∀ e ∈ a, P e) (hf : ∀ e ∈ a, ∀ e', f e = some e' → P e') (hn : P new) :
    ∀ e ∈ updFirst f new a, P e := by
  rcases updFirst_spec f new a with ⟨_, h2⟩ | ⟨pre, x, x', post, h1, _, h3, h4⟩
  · rw [h2]
    intro e hm
    rcases List.mem_append.mp hm with hm | hm
    · exact ha e hm
    · rw [List.mem_singleton.mp hm]; exact hn
  · rw [h4]
    intro e hm
    have hx : x ∈ a := by rw [h1]; simp
    rcases List.mem_append.mp hm with hm | hm
    · exact ha e (by rw [h1]; exact List.mem_append_left _ hm)
    · rcases List.mem_cons.mp hm with rfl | hm
      · exact hf x hx _ h3
      · exact ha e (by rw [h1]; exact List.mem_append_right _ (List.mem_cons_of_mem _ hm))

theorem updFirst_filter (G : Entry → Bool) (b : Bool) (f : Entry → Option Entry) (new : Entry) (hn : G new = b) :
    ∀ (a : List Entry), (∀ e ∈ a, ∀ e', f e = some e' → G e = b ∧ G e' = b) →
    (updFirst f new a).filter G = if b then updFirst f new (a.filter G) else a.filter G := by
  intro a
  induction a with
  | nil =>
    intro _
    cases b <;> simp [updFirst, hn]
  | cons e es ih =>
    intro h
    have ih' := ih (fun x hm => h x (List.mem_cons_of_mem _ hm))
    cases hf : f e with
    | some e' =>
      obtain ⟨g1, g2⟩ := h e (List.mem_cons_self ..) e' hf
      cases b with
      | true => simp [updFirst, hf, g1, g2]
      | false => simp [updFirst, hf, g1, g2]
    | none =>
      cases hg : G e with
      | true =>
        cases b with
        | true => simp only [updFirst, hf, List.filter_cons, hg, if_true] at ih' ⊢; rw [ih']
        | false =>
          simp only [updFirst, hf, List.filter_cons, hg, if_true, Bool.false_eq_true, if_false] at ih' ⊢; rw [ih']
      | false =>
        cases b with
        | true => simp only [updFirst, hf, List.filter_cons, hg, Bool.false_eq_true, if_false, if_true] at ih' ⊢; rw [ih']
        | false => simp only [updFirst, hf, List.filter_cons, hg, Bool.false_eq_true, if_false] at ih' ⊢; rw [ih']

/-! ### the window invariant on the abstract machine, the run -/

theorem entryStep_tcp_some (p : Pkt) (c : TcpConn) (st : Stream) (e' : Entry) (h : entryStep p (.tcp c st) = some e') :
    p.udp = false ∧ ∃ d, tcpDir p c = some d ∧ e' = .tcp (tcpBody c st p d).1 (tcpBody c st p d).2 := by
  cases hp : p.udp with
  | true => simp [entryStep, hp] at h
  | false =>
    simp only [entryStep, hp, Bool.false_eq_true, if_false, Option.map_eq_some_iff] at h
    obtain ⟨d, hd, rfl⟩ := h
    exact ⟨rfl, d, hd, rfl⟩

theorem entryStep_udp_some (p : Pkt) (act : Nat) (st : Stream) (e' : Entry) (h : entryStep p (.udp act st) = some e') :
    p.udp = true ∧ ∃ d, udpMatch st p = some d ∧ e' = .udp p.ts (udpBody st p d) := by
  cases hp : p.udp with
  | false => simp [entryStep, hp] at h
  | true =>
    simp only [entryStep, hp, if_true, Option.map_eq_some_iff] at h
    obtain ⟨d, hd, rfl⟩ := h
    exact ⟨rfl, d, hd, rfl⟩

theorem entryStep_win (t0 : Nat) (p : Pkt) (hp : t0 ≤ p.ts) (e e' : Entry) (hw : EntryWin t0 e)
    (h : entryStep p e = some e') : EntryWin t0 e' := by
  cases e with
  | tcp c st =>
    obtain ⟨_, d, _, rfl⟩ := entryStep_tcp_some p c st e' h
    exact tcpBody_win t0 c st p d hw hp
  | udp act st =>
    obtain ⟨_, d, _, rfl⟩ := entryStep_udp_some p act st e' h
    exact hp

theorem newEntry_win (t0 : Nat) (p : Pkt) (hp : t0 ≤ p.ts) : EntryWin t0 (newEntry p) := by
  unfold newEntry
  split
  · exact hp
  · exact tcpBody_win t0 _ _ p false (newConn_win t0 p 0 hp) hp

theorem aStep_win (t0 : Nat) (a : List Entry) (p : Pkt) (hp : t0 ≤ p.ts) (hw : ∀ e ∈ a, EntryWin t0 e) :
    ∀ e ∈ aStep a p, EntryWin t0 e :=
  updFirst_all (EntryWin t0) _ _ a hw (fun e hm e' h => entryStep_win t0 p hp e e' (hw e hm) h) (newEntry_win t0 p hp)

theorem sim_run (t0 : Nat) : ∀ (ps : List Pkt) (r : RState) (a : List Entry), Rel r a → (∀ e ∈ a, EntryWin t0 e) →
    InWindow t0 ps → Rel (ps.foldl reasmPacket r) (aRun a ps) := by
  intro ps
  induction ps with
  | nil => intro r a hr _ _; exact hr
  | cons p ps ih =>
    intro r a hr hw hi
    have hp := hi p (List.mem_cons_self ..)
    simp only [List.foldl_cons, aRun]
    exact ih _ _ (sim_step t0 r a p hr hw hp.2) (aStep_win t0 a p hp.1 hw)
      (fun q hm => hi q (List.mem_cons_of_mem _ hm))

/-- inside one timeout window the reference reassembler is the abstract machine -/
theorem reasm_abs (t0 : Nat) (ps : List Pkt) (hw : InWindow t0 ps) :
    (reasm ps).toList = (aRun [] ps).map Entry.st := by
  have h := sim_run t0 ps {} [] ⟨rfl, rfl, rfl⟩ (by intro e hm; cases hm) hw
  unfold reasm
  rw [h.streams]

/-! ### keys of entries -/

/-- the connection of a TCP entry has the endpoints of its stream; the protocol flag is right -/
def EntryInv : Entry → Prop
  | .tcp c st => c.src = st.caddr ∧ c.dst = st.saddr ∧ c.sport = st.cport ∧ c.dport = st.sport ∧ st.udp = false
  | .udp _ st => st.udp = true

theorem keyPkt_fields {s s' : Stream} (h : Stream.keyPkt s' = Stream.keyPkt s) :
    s'.caddr = s.caddr ∧ s'.saddr = s.saddr ∧ s'.cport = s.cport ∧ s'.sport = s.sport ∧ s'.udp = s.udp :=
  ⟨congrArg Pkt.src h, congrArg Pkt.dst h, congrArg Pkt.sport h, congrArg Pkt.dport h, congrArg Pkt.udp h⟩

theorem entryStep_key (p : Pkt) (e e' : Entry) (h : entryStep p e = some e') : Stream.keyPkt e'.st = Stream.keyPkt e.st := by
  cases e with
  | tcp c st =>
    obtain ⟨_, d, _, rfl⟩ := entryStep_tcp_some p c st e' h
    exact tcpBody_key c st p d
  | udp act st =>
    obtain ⟨_, d, _, rfl⟩ := entryStep_udp_some p act st e' h
    exact udpBody_key st p d

theorem entryStep_inv (p : Pkt) (e e' : Entry) (hi : EntryInv e) (h : entryStep p e = some e') : EntryInv e' := by
  have hk := keyPkt_fields (entryStep_key p e e' h)
  cases e with
  | tcp c st =>
    obtain ⟨_, d, _, rfl⟩ := entryStep_tcp_some p c st e' h
    obtain ⟨f1, f2, f3, f4, _⟩ := tcpBody_frame c st p d
    obtain ⟨i1, i2, i3, i4, i5⟩ := hi
    simp only [Entry.st] at hk
    exact ⟨by rw [f1, hk.1, i1], by rw [f2, hk.2.1, i2], by rw [f3, hk.2.2.1, i3], by rw [f4, hk.2.2.2.1, i4],
      by rw [hk.2.2.2.2, i5]⟩
  | udp act st =>
    obtain ⟨_, d, _, rfl⟩ := entryStep_udp_some p act st e' h
    simp only [Entry.st] at hk
    exact hk.2.2.2.2.trans hi

theorem udpMatch_same (st : Stream) (p : Pkt) (d : Bool) (hu : st.udp = p.udp) (h : udpMatch st p = some d) :
    sameConv (Stream.keyPkt st) p := by
  unfold udpMatch at h
  simp only at h
  split at h
  · cases h
  · rename_i hne
    refine ⟨hu, ?_⟩
    by_cases h1 : (st.caddr = p.src ∧ st.cport = p.sport) ∧ st.saddr = p.dst ∧ st.sport = p.dport
    · left; exact ⟨h1.1.1, h1.2.1, h1.1.2, h1.2.2⟩
    · by_cases h2 : (st.caddr = p.dst ∧ st.cport = p.dport) ∧ st.saddr = p.src ∧ st.sport = p.sport
      · right; exact ⟨h2.1.1, h2.2.1, h2.1.2, h2.2.2⟩
      · exfalso; apply hne; simp only [h1, h2]

theorem entryStep_same (p : Pkt) (e e' : Entry) (hi : EntryInv e) (h : entryStep p e = some e') :
    sameConv (Stream.keyPkt e.st) p := by
  cases e with
  | tcp c st =>
    obtain ⟨hp, d, hd, rfl⟩ := entryStep_tcp_some p c st e' h
    obtain ⟨i1, i2, i3, i4, i5⟩ := hi
    refine ⟨by simp only [Entry.st, Stream.keyPkt, i5, hp], ?_⟩
    unfold tcpDir at hd
    simp only [Entry.st, Stream.keyPkt]
    rw [← i1, ← i2, ← i3, ← i4]
    split at hd
    · left; assumption
    · split at hd
      · right; assumption
      · cases hd
  | udp act st =>
    obtain ⟨hp, d, hd, rfl⟩ := entryStep_udp_some p act st e' h
    exact udpMatch_same st p d (hi.trans hp.symm) hd

theorem newEntry_inv (p : Pkt) : EntryInv (newEntry p) := by
  unfold newEntry
  split
  · exact (keyPkt_fields (udpBody_key (newUdpStream p) p false)).2.2.2.2
  · have hk := keyPkt_fields (tcpBody_key (newConn p 0) (newTcpStream p) p false)
    obtain ⟨f1, f2, f3, f4, _⟩ := tcpBody_frame (newConn p 0) (newTcpStream p) p false
    exact ⟨by rw [f1, hk.1]; rfl, by rw [f2, hk.2.1]; rfl, by rw [f3, hk.2.2.1]; rfl, by rw [f4, hk.2.2.2.1]; rfl,
      by rw [hk.2.2.2.2]; rfl⟩

theorem newEntry_same (p : Pkt) : sameConv (Stream.keyPkt (newEntry p).st) p := by
  unfold newEntry
  split
  · rename_i hp
    simp only [Entry.st, udpBody_key]
    exact ⟨hp.symm, Or.inl ⟨rfl, rfl, rfl, rfl⟩⟩
  · rename_i hp
    simp only [Entry.st, tcpBody_key]
    exact ⟨by simp only [Bool.not_eq_true] at hp; exact hp.symm, Or.inl ⟨rfl, rfl, rfl, rfl⟩⟩

theorem aStep_inv (a : List Entry) (p : Pkt) (hi : ∀ e ∈ a, EntryInv e) : ∀ e ∈ aStep a p, EntryInv e :=
  updFirst_all EntryInv _ _ a hi (fun e hm e' h => entryStep_inv p e e' (hi e hm) h) (newEntry_inv p)

/-! ### (A) -/

theorem aStep_filter (F : Pkt → Bool) (hF : FlowClosed F) (a : List Entry) (p : Pkt) (hi : ∀ e ∈ a, EntryInv e) :
    (aStep a p).filter (fun e => F (Stream.keyPkt e.st)) =
      if F p then aStep (a.filter (fun e => F (Stream.keyPkt e.st))) p else a.filter (fun e => F (Stream.keyPkt e.st)) := by
  unfold aStep
  apply updFirst_filter (fun e => F (Stream.keyPkt e.st)) (F p) (entryStep p) (newEntry p) (hF _ _ (newEntry_same p)) a
  intro e hm e' h
  have h1 : F (Stream.keyPkt e.st) = F p := hF _ _ (entryStep_same p e e' (hi e hm) h)
  exact ⟨h1, by simp only [entryStep_key p e e' h, h1]⟩

theorem aRun_filter (F : Pkt → Bool) (hF : FlowClosed F) : ∀ (ps : List Pkt) (a : List Entry), (∀ e ∈ a, EntryInv e) →
    (aRun a ps).filter (fun e => F (Stream.keyPkt e.st)) = aRun (a.filter (fun e => F (Stream.keyPkt e.st))) (ps.filter F) := by
  intro ps
  induction ps with
  | nil => intro a _; rfl
  | cons p ps ih =>
    intro a hi
    have h := ih (aStep a p) (aStep_inv a p hi)
    simp only [aRun, List.foldl_cons] at h ⊢
    rw [h, aStep_filter F hF a p hi, List.filter_cons]
    cases F p
    · simp only [Bool.false_eq_true, if_false]
    · simp only [if_true, List.foldl_cons]

theorem InWindow.filter {t0 : Nat} {ps : List Pkt} (hw : InWindow t0 ps) (F : Pkt → Bool) : InWindow t0 (ps.filter F) :=
  fun p hm => hw p (List.mem_filter.mp hm).1

/-- (A) flow locality: the streams of the conversations selected by `F`, in creation order, are exactly
    the streams produced from the selected packets alone -/
theorem reasm_filter_window (t0 : Nat) (ps : List Pkt) (F : Pkt → Bool) (hw : InWindow t0 ps) (hF : FlowClosed F) :
    (reasm ps).toList.filter (fun s => F (Stream.keyPkt s)) = (reasm (ps.filter F)).toList := by
  rw [reasm_abs t0 ps hw, reasm_abs t0 _ (hw.filter F), List.filter_map]
  have := aRun_filter F hF ps [] (by intro e hm; cases hm)
  simp only [List.filter_nil] at this
  rw [← this]
  rfl

/-! ### (B) -/

theorem aStep_head (e : Entry) (a : List Entry) (p : Pkt) :
    ∃ e' l, aStep (e :: a) p = e' :: l ∧ Stream.keyPkt e'.st = Stream.keyPkt e.st := by
  unfold aStep
  cases h : entryStep p e with
  | some e' => exact ⟨e', a, by simp only [updFirst, h], entryStep_key p e e' h⟩
  | none => exact ⟨e, updFirst (entryStep p) (newEntry p) a, by simp only [updFirst, h], rfl⟩

theorem aRun_head : ∀ (ps : List Pkt) (e : Entry) (a : List Entry),
    ∃ e' l, aRun (e :: a) ps = e' :: l ∧ Stream.keyPkt e'.st = Stream.keyPkt e.st := by
  intro ps
  induction ps with
  | nil => intro e a; exact ⟨e, a, rfl, rfl⟩
  | cons p ps ih =>
    intro e a
    obtain ⟨e1, l1, h1, k1⟩ := aStep_head e a p
    obtain ⟨e2, l2, h2, k2⟩ := ih e1 l1
    refine ⟨e2, l2, ?_, k2.trans k1⟩
    simp only [aRun, List.foldl_cons] at h2 ⊢
    rw [h1, h2]

/-- (B) the first stream belongs to the conversation of the first packet -/
theorem reasm_head_window (t0 : Nat) (p : Pkt) (ps : List Pkt) (hw : InWindow t0 (p :: ps)) :
    ∃ s l, (reasm (p :: ps)).toList = s :: l ∧ sameConv (Stream.keyPkt s) p := by
  rw [reasm_abs t0 _ hw]
  have h0 : aRun [] (p :: ps) = aRun [newEntry p] ps := rfl
  obtain ⟨e, l, h1, k1⟩ := aRun_head ps (newEntry p) []
  refine ⟨e.st, l.map Entry.st, by rw [h0, h1]; rfl, ?_⟩
  rw [k1]
  exact newEntry_same p

/-! ### (C) -/

theorem aStep_keys (a : List Entry) (p : Pkt) :
    ∀ e ∈ aStep a p, (∃ e0 ∈ a, Stream.keyPkt e.st = Stream.keyPkt e0.st) ∨ sameConv (Stream.keyPkt e.st) p := by
  unfold aStep
  rcases updFirst_spec (entryStep p) (newEntry p) a with ⟨_, h2⟩ | ⟨pre, x, x', post, h1, _, h3, h4⟩
  · rw [h2]
    intro e hm
    rcases List.mem_append.mp hm with hm | hm
    · exact Or.inl ⟨e, hm, rfl⟩
    · rw [List.mem_singleton.mp hm]; exact Or.inr (newEntry_same p)
  · rw [h4]
    intro e hm
    left
    rcases List.mem_append.mp hm with hm | hm
    · exact ⟨e, by rw [h1]; exact List.mem_append_left _ hm, rfl⟩
    · rcases List.mem_cons.mp hm with rfl | hm
      · exact ⟨x, by rw [h1]; simp, entryStep_key p x _ h3⟩
      · exact ⟨e, by rw [h1]; exact List.mem_append_right _ (List.mem_cons_of_mem _ hm), rfl⟩

theorem aRun_keys : ∀ (ps : List Pkt) (a : List Entry),
    ∀ e ∈ aRun a ps, (∃ e0 ∈ a, Stream.keyPkt e.st = Stream.keyPkt e0.st) ∨ ∃ p ∈ ps, sameConv (Stream.keyPkt e.st) p := by
  intro ps
  induction ps with
  | nil => intro a e hm; exact Or.inl ⟨e, hm, rfl⟩
  | cons p ps ih =>
    intro a e hm
    rcases ih (aStep a p) e hm with ⟨e1, m1, k1⟩ | ⟨q, mq, hq⟩
    · rcases aStep_keys a p e1 m1 with ⟨e0, m0, k0⟩ | hs
      · exact Or.inl ⟨e0, m0, k1.trans k0⟩
      · exact Or.inr ⟨p, List.mem_cons_self .., by rw [k1]; exact hs⟩
    · exact Or.inr ⟨q, List.mem_cons_of_mem _ mq, hq⟩

/-- (C) every stream belongs to the conversation of some packet of the wire -/
theorem reasm_stream_key_window (t0 : Nat) (ps : List Pkt) (hw : InWindow t0 ps) :
    ∀ s ∈ (reasm ps).toList, ∃ p ∈ ps, sameConv (Stream.keyPkt s) p := by
  rw [reasm_abs t0 ps hw]
  intro s hm
  obtain ⟨e, me, rfl⟩ := List.mem_map.mp hm
  rcases aRun_keys ps [] e me with ⟨e0, m0, _⟩ | h
  · cases m0
  · exact h

end Pk.Proofs.ImportReasm
