/-
  C15 helper lemmas: `truncateFile` (compaction) on a file that satisfies the invariant.
-/
import Pk.Model.CacheFile
import Pk.Proofs.CacheFile
import Pk.Proofs.CacheFileInv

namespace Pk.Proofs.CacheFile
open Pk.CacheFile

def lives (rs : List Rec) : List Rec := rs.filter fun r => r.id != invalidStreamID

theorem lives_cons (r : Rec) (rs : List Rec) :
    lives (r :: rs) = if r.id = invalidStreamID then lives rs else r :: lives rs := by
  unfold lives
  by_cases h : r.id = invalidStreamID <;> simp [h]

theorem liveIds_lives (rs : List Rec) : liveIds (lives rs) = liveIds rs := by
  induction rs with
  | nil => rfl
  | cons r rs ih =>
    rw [lives_cons, liveIds_cons]
    split
    · exact ih
    · rename_i h; rw [liveIds_cons, if_neg h, ih]

theorem view_lives (rs : List Rec) (y : Nat) : view (lives rs) y = view rs y := by
  induction rs with
  | nil => rfl
  | cons r rs ih =>
    rw [lives_cons]
    by_cases h : r.id = invalidStreamID
    · have : ¬ (r.id = y ∧ y ≠ invalidStreamID) := fun hh => hh.2 (hh.1 ▸ h)
      rw [if_pos h, ih]; simp only [view, if_neg this]
    · rw [if_neg h]; simp only [view, ih]

theorem mem_lives {rs : List Rec} {r : Rec} (h : r ∈ lives rs) : r ∈ rs := (List.mem_filter.mp h).1

theorem length_le_recsLen (rs : List Rec) : rs.length ≤ recsLen rs := by
  induction rs with
  | nil => simp [recsLen]
  | cons r rs ih => simp only [List.length_cons, recsLen]; omega

theorem recBytes_facts (r : Rec) (tl : List Nat) (hid : r.id < 2 ^ 64) :
    let bs := le64 r.id ++ (r.body ++ tl)
    bs ≠ [] ∧ ¬ bs.length < 8 ∧ readLe64 bs = r.id ∧ bs.drop 8 = r.body ++ tl ∧ bs.take 8 = le64 r.id := by
  refine ⟨?_, ?_, readLe64_le64 _ _ hid, List.drop_left' (le64_length _), List.take_left' (le64_length _)⟩
  · simp [le64]
  · simp [le64_length]

theorem compact_spec : ∀ (post : List Rec) (oldOff : Nat) (infos : List (Nat × Info)) (newSize fuel : Nat),
    post.length < fuel → (∀ r ∈ post, RecOk r) → (liveIds post).Nodup →
    lookup infos invalidStreamID = none → (∀ y ∈ liveIds post, lookup infos y = find oldOff post y) →
    ∃ infos', compactLoop fuel (recsBytes post) oldOff infos newSize
        = some (infos', newSize + recsLen (lives post), recsBytes (lives post)) ∧
      ∀ y, lookup infos' y = (find newSize (lives post) y).or (lookup infos y) := by
  intro post
  induction post with
  | nil =>
    intro oldOff infos newSize fuel hfuel _ _ _ _
    obtain ⟨f, rfl⟩ : ∃ f, fuel = f + 1 := ⟨fuel - 1, by simp at hfuel; omega⟩
    exact ⟨infos, by simp [compactLoop, recsBytes, lives, recsLen], by simp [lives, find]⟩
  | cons r post ih =>
    intro oldOff infos newSize fuel hfuel hok hnd hinv hinf
    obtain ⟨f, rfl⟩ : ∃ f, fuel = f + 1 := ⟨fuel - 1, by simp at hfuel; omega⟩
    have hr : RecOk r := hok r (by simp)
    have hok' : ∀ r ∈ post, RecOk r := fun x hx => hok x (by simp [hx])
    obtain ⟨b1, b2, b3, b4, b5⟩ := recBytes_facts r (recsBytes post) hr.1
    rw [liveIds_cons] at hnd hinf
    rw [recsBytes, compactLoop]
    simp only [b1, b2, if_false, b3, b4, b5]
    by_cases hdead : r.id = invalidStreamID
    · -- a dead record: skipped by parsing it
      rw [if_pos hdead] at hnd hinf
      rw [hdead, hinv]
      simp only [hr.2 (recsBytes post)]
      have hl : (r.body ++ recsBytes post).length - (recsBytes post).length = r.body.length := by
        simp
      rw [hl, lives_cons, if_pos hdead]
      apply ih _ _ _ _ (by simp at hfuel; omega) hok' hnd hinv
      intro y hy
      rw [hinf y hy]
      have : ¬ (r.id = y ∧ y ≠ invalidStreamID) := fun hh => hh.2 (hh.1 ▸ hdead)
      simp only [find, if_neg this, streamHeaderSize]
    · -- a live record: the table points at it, it is copied
      rw [if_neg hdead] at hnd hinf
      have hnm : r.id ∉ liveIds post := (List.nodup_cons.mp hnd).1
      have hnd' : (liveIds post).Nodup := (List.nodup_cons.mp hnd).2
      have hl : lookup infos r.id = some { offset := oldOff + 8, size := r.body.length } := by
        rw [hinf r.id (by simp)]
        simp [find, hdead]
      rw [hl]
      simp only [streamHeaderSize, if_true]
      have hlen : ¬ (r.body ++ recsBytes post).length < r.body.length := by simp
      rw [if_neg hlen, List.drop_left, List.take_left, lives_cons, if_neg hdead]
      obtain ⟨infos', e1, e2⟩ := ih (oldOff + 8 + r.body.length)
        (insert infos r.id { offset := newSize + 8, size := r.body.length }) (newSize + 8 + r.body.length) f
        (by simp at hfuel; omega) hok' hnd'
        (by rw [lookup_insert, if_neg (fun h => hdead h.symm)]; exact hinv)
        (by
          intro y hy
          have hne : y ≠ r.id := fun h => hnm (h ▸ hy)
          rw [lookup_insert, if_neg hne, hinf y (by simp [hy])]
          have : ¬ (r.id = y ∧ y ≠ invalidStreamID) := fun hh => hne hh.1.symm
          simp only [find, if_neg this])
      refine ⟨infos', ?_, ?_⟩
      · generalize hc : compactLoop f _ _ _ _ = c at e1 ⊢
        subst e1
        simp only [Option.map_some, recsBytes, recsLen]
        have e : newSize + 8 + r.body.length + recsLen (lives post)
            = newSize + (8 + r.body.length + recsLen (lives post)) := by omega
        rw [e]
      · intro y
        rw [e2 y, lookup_insert]
        by_cases hy : y = r.id
        · subst hy
          have hn : find (newSize + 8 + r.body.length) (lives post) r.id = none :=
            find_none_of_not_mem _ _ _ (by rw [liveIds_lives]; exact hnm)
          simp [hn, find, hdead]
        · have : ¬ (r.id = y ∧ y ≠ invalidStreamID) := fun hh => hy hh.1.symm
          simp only [if_neg hy, find, if_neg this]

theorem layout_append (a b : List Rec) : layout (a ++ b) = layout a ++ recsBytes b := by
  simp [layout, recsBytes_append]

/-- `truncateFile` on a file that satisfies the invariant: it succeeds, keeps the invariant and changes
    no read -/
theorem truncateFile_inv (st : St) (rs : List Rec) (h : Inv st rs) :
    ∃ st' rs', truncateFile st = some st' ∧ Inv st' rs' ∧ ∀ y, view rs' y = view rs y := by
  obtain ⟨a, b, hrs, hfs⟩ := h.fs
  subst hrs
  have hsz := h.fileSize_eq
  have hbytes : st.bytes = layout a ++ recsBytes b := by rw [h.bytes, layout_append]
  have hla : (layout a).length = st.freeStart := by rw [layout_length, hfs]
  have hregion : ((st.bytes.drop st.freeStart).take (st.fileSize - st.freeStart)) = recsBytes b := by
    rw [hbytes, List.drop_left' hla, List.take_of_length_le]
    rw [recsBytes_length, hsz, hfs, recsLen_append]; omega
  have hnd : (liveIds a ++ liveIds b).Nodup := by rw [← liveIds_append]; exact h.nodup
  have hdisj : ∀ y ∈ liveIds b, y ∉ liveIds a := fun y hy hya => (List.nodup_append.mp hnd).2.2 y hya y hy rfl
  obtain ⟨infos', e1, e2⟩ := compact_spec b st.freeStart st.infos st.freeStart ((recsBytes b).length + 1)
    (by rw [recsBytes_length]; have := length_le_recsLen b; omega)
    (fun r hr => h.ok r (by simp [hr])) (List.nodup_append.mp hnd).2.1
    (by rw [h.infos, find_invalid])
    (by
      intro y hy
      rw [h.infos y, find_append, find_none_of_not_mem a 8 y (hdisj y hy), Option.none_or, hfs])
  refine ⟨{ bytes := st.bytes.take st.freeStart ++ recsBytes (lives b), infos := infos',
             fileSize := st.freeStart + recsLen (lives b), freeSize := 0,
             freeStart := st.freeStart + recsLen (lives b) }, a ++ lives b, ?_, ?_, ?_⟩
  · unfold truncateFile
    simp only [hregion]
    generalize hc : compactLoop _ _ _ _ _ = c at e1 ⊢
    subst e1
    rfl
  · refine Inv.mk' ?_ ?_ ?_ ?_ ?_ ?_
    · show st.bytes.take st.freeStart ++ recsBytes (lives b) = _
      rw [hbytes, List.take_left' hla, layout_append]
    · show st.freeStart + recsLen (lives b) = _
      rw [hfs, recsLen_append]; omega
    · intro r hr
      rcases List.mem_append.mp hr with hr | hr
      · exact h.ok r (by simp [hr])
      · exact h.ok r (by simp [mem_lives hr])
    · intro y
      show lookup infos' y = _
      rw [e2 y, h.infos y, find_append, find_append, ← hfs]
      cases hl : find st.freeStart (lives b) y with
      | some i =>
        have hy : y ∈ liveIds b := by
          rw [← liveIds_lives]; exact mem_liveIds_of_find _ _ _ _ hl
        rw [find_none_of_not_mem a 8 y (hdisj y hy)]
        simp
      | none =>
        have hy : y ∉ liveIds b := by
          rw [← liveIds_lives]; exact not_mem_of_find_none _ _ _ hl
        rw [find_none_of_not_mem b st.freeStart y hy]
        simp
    · rw [liveIds_append, liveIds_lives]; exact hnd
    · show Boundary _ (st.freeStart + recsLen (lives b))
      have := boundary_end (a ++ lives b)
      rw [recsLen_append] at this
      rw [hfs]
      have e : 8 + recsLen a + recsLen (lives b) = 8 + (recsLen a + recsLen (lives b)) := by omega
      rw [e]; exact this
  · intro y
    rw [view_append, view_append, view_lives]

end Pk.Proofs.CacheFile
