/-
  Helper lemmas and the proofs of the C20 theorems (statements are re-exported by Pk/Props/C20.lean).
  Model: Pk/Model/Access.lean.
-/
import Pk.Model.Access

namespace Pk.Proofs.Access
open Pk.Access

/-! ### the discipline: bookkeeping -/

theorem disciplineHolds_iff_unsafePairs (tbl : Table) (exc : Exceptions) :
    disciplineHolds tbl exc = true ↔ unsafePairs tbl exc = [] := by
  simp [disciplineHolds, unsafePairs, List.flatMap_eq_nil_iff, List.filter_eq_nil_iff]

theorem pairOK_of_discipline {tbl : Table} {exc : Exceptions} (hd : disciplineHolds tbl exc = true)
    {r1 r2 : Row} (h1 : r1 ∈ tbl) (h2 : r2 ∈ tbl) : pairOK exc r1 r2 = true := by
  simp only [disciplineHolds, List.all_eq_true] at hd
  exact hd r1 h1 r2 h2

theorem ctx_loopOwned (c1 c2 : Ctx) (a1 : c1.main = true ∨ c1 = .loop) (a2 : c2.main = true ∨ c2 = .loop) :
    (sameThread c1 c2 || serialSame c1 c2 || birthOrdered c1 c2 || birthOrdered c2 c1) = true := by
  cases c1 <;> cases c2 <;> first | rfl | (exfalso; revert a1 a2; decide)

/-- DESIGN §5: a field only touched by the service loop and by `New` satisfies the pairwise discipline -/
theorem loopOwned_safe {tbl : Table} {f : Nat} (ho : loopOwned tbl f = true)
    {r1 r2 : Row} (h1 : r1 ∈ tbl) (h2 : r2 ∈ tbl) (f1 : r1.field = f) (f2 : r2.field = f) :
    safePair r1 r2 = true := by
  simp only [loopOwned, rowsOf, List.all_eq_true, List.mem_filter, beq_iff_eq, Bool.or_eq_true, and_imp] at ho
  have a1 := ho r1 h1 f1
  have a2 := ho r2 h2 f2
  have := ctx_loopOwned r1.ctx r2.ctx a1 a2
  simp only [safePair, this, Bool.true_or]

/-- DESIGN §5: a field all of whose accesses hold one common mutex (writes exclusively) -/
theorem guardedBy_safe {tbl : Table} {f l : Nat} (hg : guardedBy tbl f l = true)
    {r1 r2 : Row} (h1 : r1 ∈ tbl) (h2 : r2 ∈ tbl) (f1 : r1.field = f) (f2 : r2.field = f)
    (hc : conflict r1 r2 = true) : safePair r1 r2 = true := by
  simp only [guardedBy, rowsOf, List.all_eq_true, List.mem_filter, beq_iff_eq, and_imp, List.any_eq_true,
    Bool.and_eq_true, Bool.or_eq_true, Bool.not_eq_true'] at hg
  obtain ⟨a, ha, hal, haw⟩ := hg r1 h1 f1
  obtain ⟨b, hb, hbl, hbw⟩ := hg r2 h2 f2
  have hcl : commonLock r1.locks r2.locks = true := by
    simp only [commonLock, List.any_eq_true, Bool.and_eq_true, Bool.or_eq_true, beq_iff_eq]
    refine ⟨a, ha, b, hb, by rw [hal, hbl], ?_⟩
    simp only [conflict, Bool.and_eq_true, Bool.or_eq_true] at hc
    rcases hc.2 with w | w
    · rcases haw with h | h
      · exact Or.inl h
      · rw [w] at h; cases h
    · rcases hbw with h | h
      · exact Or.inr h
      · rw [w] at h; cases h
  simp only [safePair, hcl, Bool.or_true]

theorem ctx_pre (c : Ctx) : (sameThread .pre c || birthOrdered .pre c) = true := by
  cases c <;> rfl

theorem ctx_pre' (c : Ctx) : (sameThread c .pre || birthOrdered .pre c) = true := by
  cases c <;> rfl

/-- DESIGN §5: a field written only before any goroutine is started -/
theorem writtenBeforeStart_safe {tbl : Table} {f : Nat} (hw : writtenBeforeStart tbl f = true)
    {r1 r2 : Row} (h1 : r1 ∈ tbl) (h2 : r2 ∈ tbl) (f1 : r1.field = f) (f2 : r2.field = f)
    (hc : conflict r1 r2 = true) : safePair r1 r2 = true := by
  simp only [writtenBeforeStart, rowsOf, List.all_eq_true, List.mem_filter, beq_iff_eq, and_imp,
    Bool.or_eq_true, Bool.not_eq_true'] at hw
  have a1 := hw r1 h1 f1
  have a2 := hw r2 h2 f2
  simp only [conflict, Bool.and_eq_true, Bool.or_eq_true] at hc
  rcases hc.2 with w | w
  · have c1 : r1.ctx = .pre := by
      rcases a1 with h | h
      · rw [w] at h; cases h
      · exact h
    have := ctx_pre r2.ctx
    simp only [safePair, c1]
    revert this; cases sameThread Ctx.pre r2.ctx <;> cases birthOrdered Ctx.pre r2.ctx <;> simp
  · have c2 : r2.ctx = .pre := by
      rcases a2 with h | h
      · rw [w] at h; cases h
      · exact h
    have := ctx_pre' r1.ctx
    simp only [safePair, c2]
    revert this; cases sameThread r1.ctx Ctx.pre <;> cases birthOrdered Ctx.pre r1.ctx <;> simp


/-! ### executions -/

/-- happens-before follows the time stamps -/
theorem hb_lt {h : History} {a b : Event} (hb : HB h a b) : a.t < b.t := by
  induction hb with
  | po _ _ h _ => exact h
  | start _ _ h _ _ => exact h
  | msg _ _ h _ _ => exact h
  | lock _ _ h _ _ _ => exact h
  | trans _ _ h1 h2 => exact Nat.lt_trans h1 h2

theorem exec_t_lt {tbl : Table} {h : History} (hx : Exec tbl h) {e : Event} (he : e ∈ h) :
    e.t < h.length := by
  induction h with
  | nil => cases he
  | cons x h ih =>
    obtain ⟨hx', ht, -, -⟩ := hx
    rcases List.mem_cons.1 he with rfl | he
    · simp [ht]
    · have := ih hx' he
      simp only [List.length_cons]; omega

theorem exec_suffix {tbl : Table} {h h' : History} (hx : Exec tbl h) (s : h' <:+ h) : Exec tbl h' := by
  induction h with
  | nil => rw [List.suffix_nil.1 s]; exact hx
  | cons x h ih =>
    rcases List.suffix_cons_iff.1 s with rfl | s
    · exact hx
    · exact ih hx.1 s

theorem mem_suffix {h : History} {e : Event} (he : e ∈ h) : ∃ h', (e :: h') <:+ h := by
  obtain ⟨s, t, rfl⟩ := List.append_of_mem he
  exact ⟨t, s, rfl⟩

theorem exec_seg_ge {tbl : Table} {seg base : History} (hx : Exec tbl (seg ++ base)) {e : Event}
    (he : e ∈ seg) : base.length ≤ e.t := by
  induction seg with
  | nil => cases he
  | cons x seg ih =>
    obtain ⟨hx', ht, -, -⟩ := hx
    rcases List.mem_cons.1 he with rfl | he
    · rw [ht]; simp
    · exact ih hx' he

/-- time stamps identify the events of an execution -/
theorem exec_ts_unique {tbl : Table} {h : History} (hx : Exec tbl h) {a b : Event}
    (ha : a ∈ h) (hb : b ∈ h) (ht : a.t = b.t) : a = b := by
  induction h with
  | nil => cases ha
  | cons x h ih =>
    obtain ⟨hx', hxt, -, -⟩ := hx
    rcases List.mem_cons.1 ha with rfl | ha' <;> rcases List.mem_cons.1 hb with rfl | hb'
    · rfl
    · have := exec_t_lt hx' hb'; omega
    · have := exec_t_lt hx' ha'; omega
    · exact ih hx' ha' hb'

theorem holds_cons_other {e : Event} {h : History} {g l : Nat} (hg : e.g ≠ g) :
    holds (e :: h) g l = holds h g l := by
  simp [holds, hg]

theorem holds_cons_cases (e : Event) (h : History) (g l : Nat) :
    (holds (e :: h) g l = holds h g l) ∨
    (e.g = g ∧ ∃ m, e.kind = .acq l m ∧ holds (e :: h) g l = some m) ∨
    (e.g = g ∧ ∃ m, e.kind = .rel l m ∧ holds (e :: h) g l = none) := by
  by_cases hg : e.g = g
  · cases hk : e.kind with
    | acq l' m =>
      by_cases hl : l' = l
      · subst hl; right; left; exact ⟨hg, m, rfl, by simp [holds, hg, hk]⟩
      · left; simp [holds, hg, hk, hl]
    | rel l' m =>
      by_cases hl : l' = l
      · subst hl; right; right; exact ⟨hg, m, rfl, by simp [holds, hg, hk]⟩
      · left; simp [holds, hg, hk, hl]
    | _ => left; simp [holds, hk]
  · left; simp [holds, hg]

/-- mutual exclusion: after any execution two goroutines hold one mutex only if both hold it shared -/
theorem exec_mutex {tbl : Table} {h : History} (hx : Exec tbl h) {g1 g2 l : Nat} {m1 m2 : Mode}
    (hne : g1 ≠ g2) (h1 : holds h g1 l = some m1) (h2 : holds h g2 l = some m2) : m1 = .r ∧ m2 = .r := by
  induction h generalizing m1 m2 with
  | nil => simp [holds] at h1
  | cons e h ih =>
    obtain ⟨hx', -, hl, -⟩ := hx
    by_cases e1 : e.g = g1
    · have e2 : e.g ≠ g2 := by omega
      rw [holds_cons_other e2] at h2
      unfold holds at h1
      rw [if_pos e1] at h1
      unfold lockOK at hl
      split at h1
      · rename_i l' m hk
        rw [hk] at hl
        simp only at hl
        split at h1
        · rename_i hll
          subst hll
          cases h1
          have := hl.2 g2 m2 (by omega) h2
          exact this
        · exact ih hx' h1 h2
      · split at h1
        · cases h1
        · exact ih hx' h1 h2
      · exact ih hx' h1 h2
    · rw [holds_cons_other e1] at h1
      by_cases e2 : e.g = g2
      · unfold holds at h2
        rw [if_pos e2] at h2
        unfold lockOK at hl
        split at h2
        · rename_i l' m hk
          rw [hk] at hl
          simp only at hl
          split at h2
          · rename_i hll
            subst hll
            cases h2
            have := hl.2 g1 m1 (by omega) h1
            exact ⟨this.2, this.1⟩
          · exact ih hx' h1 h2
        · split at h2
          · cases h2
          · exact ih hx' h1 h2
        · exact ih hx' h1 h2
      · rw [holds_cons_other e2] at h2
        exact ih hx' h1 h2

theorem lock_inv {tbl : Table} {base : History} {g1 g2 l : Nat} {m1 : Mode} (hne : g1 ≠ g2)
    (hb : holds base g1 l = some m1) :
    ∀ seg : History, Exec tbl (seg ++ base) →
      holds (seg ++ base) g1 l = some m1 ∨
      ∃ r ∈ seg, r.g = g1 ∧ r.kind = .rel l m1 ∧
        ∀ m2, holds (seg ++ base) g2 l = some m2 → (m1 = .w ∨ m2 = .w) →
          ∃ q ∈ seg, q.g = g2 ∧ q.kind = .acq l m2 ∧ r.t < q.t := by
  intro seg
  induction seg with
  | nil => intro _; left; exact hb
  | cons e seg ih =>
    intro hx
    have hx' : Exec tbl (seg ++ base) := hx.1
    have het : e.t = (seg ++ base).length := hx.2.1
    have hl : lockOK (seg ++ base) e := hx.2.2.1
    rcases ih hx' with i | ⟨r, hr, rg, rk, hq⟩
    · rcases holds_cons_cases e (seg ++ base) g1 l with c | ⟨eg, m, ek, c⟩ | ⟨eg, m, ek, c⟩
      · left; show holds (e :: (seg ++ base)) g1 l = some m1; rw [c]; exact i
      · -- acq while holding: impossible
        exfalso
        unfold lockOK at hl; rw [ek] at hl; simp only at hl
        rw [eg, i] at hl; cases hl.1
      · right
        unfold lockOK at hl; rw [ek] at hl; simp only at hl
        rw [eg, i] at hl
        have hm : m1 = m := by cases hl; rfl
        subst hm
        refine ⟨e, List.mem_cons_self, eg, ek, ?_⟩
        intro m2 h2 hw
        exfalso
        have e2 : e.g ≠ g2 := by omega
        have h2' : holds (seg ++ base) g2 l = some m2 := by
          rw [← holds_cons_other e2]; exact h2
        have := exec_mutex hx' hne i h2'
        rcases hw with w | w
        · rw [this.1] at w; cases w
        · rw [this.2] at w; cases w
    · right
      refine ⟨r, List.mem_cons_of_mem _ hr, rg, rk, ?_⟩
      intro m2 h2 hw
      rcases holds_cons_cases e (seg ++ base) g2 l with c | ⟨eg, m, ek, c⟩ | ⟨eg, m, ek, c⟩
      · have h2' : holds (seg ++ base) g2 l = some m2 := by rw [← c]; exact h2
        obtain ⟨q, hq1, hq2⟩ := hq m2 h2' hw
        exact ⟨q, List.mem_cons_of_mem _ hq1, hq2⟩
      · have : m = m2 := by
          have : holds (e :: (seg ++ base)) g2 l = some m2 := h2
          rw [c] at this; cases this; rfl
        subst this
        refine ⟨e, List.mem_cons_self, eg, ek, ?_⟩
        have := exec_t_lt hx' (List.mem_append_left base hr)
        omega
      · have : holds (e :: (seg ++ base)) g2 l = some m2 := h2
        rw [c] at this; cases this

/-- lock order: if `a` (earlier) and `b` (later) are events of different goroutines that both hold the
    mutex `l` when they happen, at least one of them exclusively, then `a` happens before `b`
    (through the release after `a` and the acquire before `b`) -/
theorem lock_ordered {tbl : Table} {h ha hb : History} {a b : Event} (hx : Exec tbl h)
    (sa : (a :: ha) <:+ h) (sb : (b :: hb) <:+ h) (hlt : a.t < b.t) (hne : a.g ≠ b.g)
    {l : Nat} {m1 m2 : Mode} (h1 : holds ha a.g l = some m1) (h2 : holds hb b.g l = some m2)
    (hw : m1 = .w ∨ m2 = .w)
    (ka : ∀ l' m', a.kind ≠ .acq l' m' ∧ a.kind ≠ .rel l' m') :
    HB h a b := by
  have xa : Exec tbl (a :: ha) := exec_suffix hx sa
  have xb : Exec tbl (b :: hb) := exec_suffix hx sb
  have ta : a.t = ha.length := xa.2.1
  have tb : b.t = hb.length := xb.2.1
  have s1 : (a :: ha) <:+ (b :: hb) :=
    List.suffix_of_suffix_length_le sa sb (by simp only [List.length_cons]; omega)
  have s2 : (a :: ha) <:+ hb := by
    rcases List.suffix_cons_iff.1 s1 with e | s
    · exfalso; have := congrArg List.length e; simp only [List.length_cons] at this; omega
    · exact s
  obtain ⟨seg, hseg⟩ := s2
  have hbx : Exec tbl hb := xb.1
  have hbase : holds (a :: ha) a.g l = some m1 := by
    rcases holds_cons_cases a ha a.g l with c | ⟨_, m, ek, _⟩ | ⟨_, m, ek, _⟩
    · rw [c]; exact h1
    · exact absurd ek (ka l m).1
    · exact absurd ek (ka l m).2
  have inv := lock_inv (tbl := tbl) (g2 := b.g) hne hbase seg (by rw [hseg]; exact hbx)
  rw [hseg] at inv
  rcases inv with i | ⟨r, hr, rg, rk, hq⟩
  · exfalso
    have := exec_mutex hbx hne i h2
    rcases hw with w | w
    · rw [this.1] at w; cases w
    · rw [this.2] at w; cases w
  · obtain ⟨q, hqm, qg, qk, hrq⟩ := hq m2 h2 hw
    have rhb : r ∈ hb := by rw [← hseg]; exact List.mem_append_left _ hr
    have qhb : q ∈ hb := by rw [← hseg]; exact List.mem_append_left _ hqm
    have hbh : hb <:+ h := (List.suffix_cons b hb).trans sb
    have ah : a ∈ h := sa.subset List.mem_cons_self
    have bh : b ∈ h := sb.subset List.mem_cons_self
    have rh := hbh.subset rhb
    have qh := hbh.subset qhb
    have tr : a.t < r.t := by
      have := exec_seg_ge (tbl := tbl) (seg := seg) (base := a :: ha) (by rw [hseg]; exact hbx) hr
      simp only [List.length_cons] at this; omega
    have tq : q.t < b.t := by have := exec_t_lt hbx qhb; omega
    exact .trans (.po ah rh tr rg.symm) (.trans (.lock rh qh hrq rk qk hw) (.po qh bh tq qg))


theorem main_false_g {h : History} (ht : Threads h) {e : Event} (he : e ∈ h) (c : e.ctx.main = false) :
    e.g ≠ 0 := by
  intro g0
  have := (ht.main_ctx e he).1 g0
  rw [c] at this; cases this

theorem g_ne_main_false {h : History} (ht : Threads h) {e : Event} (he : e ∈ h) (g : e.g ≠ 0) :
    e.ctx.main = false := by
  cases hm : e.ctx.main with
  | false => rfl
  | true => exact absurd ((ht.main_ctx e he).2 hm) g

/-- goroutine start: an access in the `pre` part of `New` happens before every event of every other goroutine -/
theorem pre_before_all {tbl : Table} {h : History} (hx : Exec tbl h) (ht : Threads h) {a b : Event}
    (ha : a ∈ h) (hb : b ∈ h) (ca : a.ctx = .pre) (cb : b.ctx.main = false) : HB h a b := by
  have _ := hx
  have a0 : a.g = 0 := (ht.main_ctx a ha).2 (by rw [ca]; rfl)
  suffices H : ∀ n, ∀ b ∈ h, b.t < n → b.ctx.main = false → HB h a b from H (b.t + 1) b hb (by omega) cb
  intro n
  induction n with
  | zero => intro b _ hlt; omega
  | succ n ih =>
    intro b hb hlt cb
    have bg := main_false_g ht hb cb
    obtain ⟨s, hs, sk, st, _⟩ := ht.born b hb bg
    by_cases s0 : s.g = 0
    · have sm := (ht.main_ctx s hs).1 s0
      have sp := ht.no_spawn_pre s hs _ sk
      have si : s.ctx = .init := by
        revert sm sp; cases s.ctx <;> simp [Ctx.main]
      have := ht.pre_first a ha s hs ca si
      exact .trans (.po ha hs this (by omega)) (.start hs hb st sk rfl)
    · have sm := g_ne_main_false ht hs s0
      exact .trans (ih s hs (by omega) sm) (.start hs hb st sk rfl)

/-- goroutine start: an access (not a `go` statement) in the `init` part of `New` happens before every
    event of every goroutine that is not a watcher -/
theorem init_before_nonwatcher {tbl : Table} {h : History} (hx : Exec tbl h) (ht : Threads h) {a b : Event}
    (ha : a ∈ h) (hb : b ∈ h) (ca : a.ctx = .init) (ka : ∀ c, a.kind ≠ .spawn c)
    (cb : b.ctx.main = false) (wb : b.ctx ≠ .watcher) : HB h a b := by
  have a0 : a.g = 0 := (ht.main_ctx a ha).2 (by rw [ca]; rfl)
  suffices H : ∀ n, ∀ b ∈ h, b.t < n → b.ctx.main = false → b.ctx ≠ .watcher → HB h a b from
    H (b.t + 1) b hb (by omega) cb wb
  intro n
  induction n with
  | zero => intro b _ hlt; omega
  | succ n ih =>
    intro b hb hlt cb wb
    have bg := main_false_g ht hb cb
    obtain ⟨s, hs, sk, st, _⟩ := ht.born b hb bg
    by_cases s0 : s.g = 0
    · have le := ht.init_done s hs b hb sk s0 wb a ha a0
      have ne : a.t ≠ s.t := by
        intro e
        have := exec_ts_unique hx ha hs e
        subst this
        exact ka _ sk
      exact .trans (.po ha hs (by omega) (by omega)) (.start hs hb st sk rfl)
    · have sm := g_ne_main_false ht hs s0
      have sw : s.ctx ≠ .watcher := fun w => wb (ht.watcher_children s hs b hb sk w)
      exact .trans (ih s hs (by omega) sm sw) (.start hs hb st sk rfl)

theorem modeGe_some {o : Option Mode} {m : Mode} (h : modeGe o m = true) :
    ∃ m', o = some m' ∧ (m = .w → m' = .w) := by
  cases o with
  | none => simp [modeGe] at h
  | some m' => cases m' <;> cases m <;> simp_all [modeGe]

theorem birthOrdered_iff (c1 c2 : Ctx) : birthOrdered c1 c2 = true ↔
    (c1 = .pre ∧ c2.main = false) ∨ (c1 = .init ∧ c2.main = false ∧ c2 ≠ .watcher) := by
  simp [birthOrdered, and_assoc]

/-- MAIN: under the discipline, every race of every execution is on an excepted (field, context, context) -/
theorem races_only_excused (tbl : Table) (exc : Exceptions) (h : History)
    (hd : disciplineHolds tbl exc = true) (hx : Exec tbl h) (ht : Threads h) :
    ∀ a b, Race h a b → excusedE exc a b := by
  intro a b ⟨ha, hb, hlt, ⟨f, w1, w2, ka, kb, hw⟩, nhb⟩
  obtain ⟨ha', sa⟩ := mem_suffix ha
  obtain ⟨hb', sb⟩ := mem_suffix hb
  have xa := exec_suffix hx sa
  have xb := exec_suffix hx sb
  have oa : accOK tbl ha' a := xa.2.2.2
  have ob : accOK tbl hb' b := xb.2.2.2
  unfold accOK at oa ob
  rw [ka] at oa; rw [kb] at ob
  simp only at oa ob
  obtain ⟨r1, r1m, r1f, r1c, r1w, r1l⟩ := oa
  obtain ⟨r2, r2m, r2f, r2c, r2w, r2l⟩ := ob
  have pk := pairOK_of_discipline hd r1m r2m
  have cf : conflict r1 r2 = true := by
    simp only [conflict, r1f, r2f, r1w, r2w, beq_self_eq_true, Bool.true_and, Bool.or_eq_true]; exact hw
  simp only [pairOK, cf, Bool.not_true, Bool.false_or, Bool.or_eq_true] at pk
  rcases pk with sp | ex
  · exfalso; apply nhb
    by_cases gg : a.g = b.g
    · exact .po ha hb hlt gg
    simp only [safePair, Bool.or_eq_true] at sp
    rcases sp with (((st | ss) | b12) | b21) | cl
    · simp only [sameThread, Bool.or_eq_true, Bool.and_eq_true, beq_iff_eq] at st
      rcases st with ⟨m1, m2⟩ | ⟨l1, l2⟩
      · rw [r1c] at m1; rw [r2c] at m2
        have := (ht.main_ctx a ha).2 m1
        have := (ht.main_ctx b hb).2 m2
        exact absurd (by omega) gg
      · rw [r1c] at l1; rw [r2c] at l2
        exact absurd (ht.one_loop a ha b hb l1 l2) gg
    · simp only [serialSame, Bool.and_eq_true, beq_iff_eq] at ss
      rw [r1c, r2c] at ss
      exact ht.serial_jobs a ha b hb ss.2 ss.1 gg hlt
    · rw [birthOrdered_iff, r1c, r2c] at b12
      rcases b12 with ⟨c1, c2⟩ | ⟨c1, c2, c3⟩
      · exact pre_before_all hx ht ha hb c1 c2
      · exact init_before_nonwatcher hx ht ha hb c1 (by intro c; rw [ka]; intro e; cases e) c2 c3
    · rw [birthOrdered_iff, r1c, r2c] at b21
      have : HB h b a := by
        rcases b21 with ⟨c1, c2⟩ | ⟨c1, c2, c3⟩
        · exact pre_before_all hx ht hb ha c1 c2
        · exact init_before_nonwatcher hx ht hb ha c1 (by intro c; rw [kb]; intro e; cases e) c2 c3
      have := hb_lt this
      omega
    · simp only [commonLock, List.any_eq_true, Bool.and_eq_true, Bool.or_eq_true, beq_iff_eq] at cl
      obtain ⟨x, hx1, y, hy1, hxy, hm⟩ := cl
      obtain ⟨m1, h1, i1⟩ := modeGe_some (r1l x hx1)
      obtain ⟨m2, h2, i2⟩ := modeGe_some (r2l y hy1)
      rw [← hxy] at h2
      refine lock_ordered hx sa sb hlt gg h1 h2 (hm.imp i1 i2) ?_
      intro l' m'; rw [ka]; exact ⟨fun e => (by cases e), fun e => (by cases e)⟩
  · refine ⟨f, w1, ka, ?_⟩
    rw [← r1f, ← r1c, ← r2c]; exact ex

/-- MAIN, no exceptions: discipline ⇒ race freedom, for histories of any length and any number of goroutines -/
theorem race_free (tbl : Table) (h : History)
    (hd : disciplineHolds tbl [] = true) (hx : Exec tbl h) (ht : Threads h) : RaceFree h := by
  intro a b hr
  obtain ⟨f, w, _, he⟩ := races_only_excused tbl [] h hd hx ht a b hr
  simp [excusedBy] at he

/-! ### a concrete execution: hypotheses are satisfiable, and an unsafe pair really races -/

/-- field 0 written by a worker goroutine, read by the service loop, no locks (the shape of finding F17c) -/
def wTable : Table := [⟨0, .worker, true, []⟩, ⟨0, .loop, false, []⟩]

/-- `New` starts the loop (t0); the loop starts a worker (t1); the worker writes (t2); the loop reads (t3) -/
def wHist : History :=
  [⟨3, 1, .loop, .acc 0 false⟩, ⟨2, 2, .worker, .acc 0 true⟩, ⟨1, 1, .loop, .spawn 2⟩, ⟨0, 0, .init, .spawn 1⟩]

theorem wHist_exec : Exec wTable wHist := by
  simp [Exec, wHist, wTable, lockOK, accOK]

theorem wHist_threads : Threads wHist := by
  constructor
  case main_ctx => decide
  case ctx_const => decide
  case pre_first => decide
  case no_spawn_pre =>
    intro s hs c _
    have : ∀ s ∈ wHist, s.ctx ≠ .pre := by decide
    exact this s hs
  case born => decide
  case init_done => decide
  case watcher_children => decide
  case one_loop => decide
  case serial_jobs =>
    intro a ha b _ hs
    exfalso; revert a; decide

theorem wHist_hb_inv {x y : Event} (hb : HB wHist x y) : y.g = 1 → x.g = 1 ∨ x.t = 0 := by
  induction hb with
  | po _ _ _ hg => intro h; left; omega
  | @start a b c ha hb hlt hk hg =>
    intro h
    rw [h] at hg; subst hg
    have : ∀ a ∈ wHist, a.kind = .spawn 1 → a.t = 0 := by decide
    exact Or.inr (this a ha hk)
  | @msg a b m ha hb hlt hk _ =>
    exfalso
    simp only [wHist, List.mem_cons, List.mem_nil_iff, or_false] at ha
    rcases ha with rfl | rfl | rfl | rfl <;> cases hk
  | @lock a b l m1 m2 ha hb hlt hk _ _ =>
    exfalso
    simp only [wHist, List.mem_cons, List.mem_nil_iff, or_false] at ha
    rcases ha with rfl | rfl | rfl | rfl <;> cases hk
  | @trans a b c h1 h2 ih1 ih2 =>
    intro h
    rcases ih2 h with g | t
    · exact ih1 g
    · have := hb_lt h1; omega

theorem wHist_race : Race wHist ⟨2, 2, .worker, .acc 0 true⟩ ⟨3, 1, .loop, .acc 0 false⟩ := by
  refine ⟨by decide, by decide, by decide, ⟨0, true, false, rfl, rfl, Or.inl rfl⟩, ?_⟩
  intro hb
  have := wHist_hb_inv hb rfl
  revert this; decide

/-- the same two accesses under one mutex (worker: exclusive, loop: shared): an execution of the guarded
    table in which the worker releases before the loop acquires -/
def gTable : Table := [⟨0, .worker, true, [(7, .w)]⟩, ⟨0, .loop, false, [(7, .r)]⟩]

def gHist : History :=
  [⟨7, 1, .loop, .rel 7 .r⟩, ⟨6, 1, .loop, .acc 0 false⟩, ⟨5, 1, .loop, .acq 7 .r⟩,
   ⟨4, 2, .worker, .rel 7 .w⟩, ⟨3, 2, .worker, .acc 0 true⟩, ⟨2, 2, .worker, .acq 7 .w⟩,
   ⟨1, 1, .loop, .spawn 2⟩, ⟨0, 0, .init, .spawn 1⟩]

theorem gHist_exec : Exec gTable gHist := by
  simp [Exec, gHist, gTable, lockOK, accOK, holds, modeGe]
  intro g' m' _ h1 h2; exact absurd h2 h1

theorem gHist_threads : Threads gHist := by
  constructor
  case main_ctx => decide
  case ctx_const => decide
  case pre_first => decide
  case no_spawn_pre =>
    intro s hs c _
    have : ∀ s ∈ gHist, s.ctx ≠ .pre := by decide
    exact this s hs
  case born => decide
  case init_done => decide
  case watcher_children => decide
  case one_loop => decide
  case serial_jobs =>
    intro a ha b _ hs
    exfalso; revert a; decide

end Pk.Proofs.Access
