/-
  C15 helper lemmas: the load scan of `NewCacheFile` (`openFile`) on a file that satisfies the
  invariant, complete or cut anywhere.
-/
import Pk.Model.CacheFile
import Pk.Proofs.CacheFile
import Pk.Proofs.CacheFileInv
import Pk.Proofs.CacheFileCompact
import Pk.Proofs.CacheFileSkip

namespace Pk.Proofs.CacheFile
open Pk.CacheFile

/-- what may follow the last complete record: nothing, or something the scan gives up on -/
def TailBad (tail : List Nat) : Prop := tail = [] ∨ tail.length < 8 ∨ skipStream (tail.drop 8) = none

theorem scan_dead (f : Nat) (r : Rec) (tl : List Nat) (s : Scan) (hr : RecOk r) (hd : r.id = invalidStreamID) :
    scanLoop (f + 1) (le64 r.id ++ (r.body ++ tl)) s = scanLoop f tl
      { s with freeStart := if s.freeSize = 0 ∨ s.freeStart > s.fileSize then s.fileSize else s.freeStart
               freeSize := s.freeSize + streamHeaderSize + r.body.length
               fileSize := s.fileSize + streamHeaderSize + r.body.length } := by
  obtain ⟨b1, b2, b3, b4, b5⟩ := recBytes_facts r tl hr.1
  rw [scanLoop]
  simp only [b1, b2, if_false, b3, b4, hr.2 tl]
  have hl : (r.body ++ tl).length - tl.length = r.body.length := by simp
  rw [if_pos hd, hl]

theorem scan_live (f : Nat) (r : Rec) (tl : List Nat) (s : Scan) (hr : RecOk r) (hd : r.id ≠ invalidStreamID)
    (hl : lookup s.infos r.id = none) :
    scanLoop (f + 1) (le64 r.id ++ (r.body ++ tl)) s = scanLoop f tl
      { s with infos := insert s.infos r.id { offset := s.fileSize + streamHeaderSize, size := r.body.length }
               fileSize := s.fileSize + streamHeaderSize + r.body.length } := by
  obtain ⟨b1, b2, b3, b4, b5⟩ := recBytes_facts r tl hr.1
  rw [scanLoop]
  simp only [b1, b2, if_false, b3, b4, hr.2 tl]
  have hl' : (r.body ++ tl).length - tl.length = r.body.length := by simp
  rw [if_neg hd, hl']
  simp only [hl]

theorem scan_tail (f : Nat) (tail : List Nat) (s : Scan) (h : TailBad tail) :
    scanLoop (f + 1) tail s = if tail = [] then s else { s with partialRecord := true } := by
  rw [scanLoop]
  by_cases h1 : tail = []
  · simp [h1]
  · simp only [h1, if_false]
    by_cases h2 : tail.length < 8
    · simp [h2]
    · simp only [h2, if_false]
      rcases h with h | h | h
      · exact absurd h h1
      · exact absurd h h2
      · simp only [h]

theorem scan_spec (tail : List Nat) (ht : TailBad tail) : ∀ (post pre : List Rec) (s : Scan) (fuel : Nat),
    post.length < fuel → s.fileSize = 8 + recsLen pre → (s.freeSize ≠ 0 → Boundary pre s.freeStart) →
    (∀ y, lookup s.infos y = find 8 pre y) → (liveIds (pre ++ post)).Nodup → (∀ r ∈ post, RecOk r) →
    (scanLoop fuel (recsBytes post ++ tail) s).fileSize = 8 + recsLen (pre ++ post) ∧
    ((scanLoop fuel (recsBytes post ++ tail) s).freeSize ≠ 0 →
        Boundary (pre ++ post) (scanLoop fuel (recsBytes post ++ tail) s).freeStart) ∧
    (∀ y, lookup (scanLoop fuel (recsBytes post ++ tail) s).infos y = find 8 (pre ++ post) y) ∧
    (scanLoop fuel (recsBytes post ++ tail) s).partialRecord = (s.partialRecord || decide (tail ≠ [])) := by
  intro post
  induction post with
  | nil =>
    intro pre s fuel hfuel hsz hb hinf _ _
    obtain ⟨f, rfl⟩ : ∃ f, fuel = f + 1 := ⟨fuel - 1, by simp at hfuel; omega⟩
    simp only [recsBytes, List.nil_append, List.append_nil, scan_tail f tail s ht]
    by_cases h1 : tail = []
    · simp [h1, hsz, hinf]; exact hb
    · simp [h1, hsz, hinf]; exact hb
  | cons r post ih =>
    intro pre s fuel hfuel hsz hb hinf hnd hok
    obtain ⟨f, rfl⟩ : ∃ f, fuel = f + 1 := ⟨fuel - 1, by simp at hfuel; omega⟩
    have hr : RecOk r := hok r (by simp)
    have hok' : ∀ r ∈ post, RecOk r := fun x hx => hok x (by simp [hx])
    have hassoc : pre ++ r :: post = (pre ++ [r]) ++ post := by simp
    have hbytes : recsBytes (r :: post) ++ tail = le64 r.id ++ (r.body ++ (recsBytes post ++ tail)) := by
      simp [recsBytes, List.append_assoc]
    have hlen1 : recsLen (pre ++ [r]) = recsLen pre + 8 + r.body.length := by
      rw [recsLen_append]; simp only [recsLen]; omega
    rw [hbytes, hassoc]
    by_cases hdead : r.id = invalidStreamID
    · rw [scan_dead f r _ s hr hdead]
      apply ih (pre ++ [r]) _ f (by simp at hfuel; omega)
      · simp only [streamHeaderSize, hsz, hlen1]; omega
      · intro _
        simp only
        split
        · rw [hsz]; exact ⟨pre, [r], rfl, rfl⟩
        · rename_i hc
          exact boundary_append_right _ _ _ (hb (fun h0 => hc (Or.inl h0)))
      · intro y
        simp only
        have : ¬ (r.id = y ∧ y ≠ invalidStreamID) := fun hh => hh.2 (hh.1 ▸ hdead)
        rw [hinf y, find_append]; simp [find, this]
      · rw [← hassoc]; exact hnd
      · exact hok'
    · have hnone : find 8 pre r.id = none := by
        apply find_none_of_not_mem
        intro hm
        rw [liveIds_append, liveIds_cons, if_neg hdead] at hnd
        exact (List.nodup_append.mp hnd).2.2 _ hm _ (by simp) rfl
      rw [scan_live f r _ s hr hdead (by rw [hinf]; exact hnone)]
      apply ih (pre ++ [r]) _ f (by simp at hfuel; omega)
      · simp only [streamHeaderSize, hsz, hlen1]; omega
      · intro h0
        exact boundary_append_right _ _ _ (hb h0)
      · intro y
        simp only
        rw [lookup_insert, find_append, hinf y]
        by_cases hy : y = r.id
        · subst hy; simp [hnone, find, hdead, hsz, streamHeaderSize]
        · have : ¬ (r.id = y ∧ y ≠ invalidStreamID) := fun hh => hy hh.1.symm
          simp [hy, find, this]
      · rw [← hassoc]; exact hnd
      · exact hok'

/-- `openFile` on the bytes of a well-formed record list, possibly followed by a damaged tail -/
theorem openFile_spec (pre : List Rec) (tail : List Nat) (ht : TailBad tail) (hok : ∀ r ∈ pre, RecOk r)
    (hnd : (liveIds pre).Nodup) :
    ∃ st' rs', openFile (layout pre ++ tail) = some st' ∧ Inv st' rs' ∧ ∀ y, view rs' y = view pre y := by
  have hlen : (layout pre ++ tail).length = 8 + recsLen pre + tail.length := by
    rw [List.length_append, layout_length]
  have htake : (layout pre ++ tail).take 8 = headerBytes := by
    simp only [layout, List.append_assoc]; exact List.take_left' rfl
  have hdrop : (layout pre ++ tail).drop 8 = recsBytes pre ++ tail := by
    simp only [layout, List.append_assoc]; exact List.drop_left' rfl
  obtain ⟨h1, h2, h3, h4⟩ := scan_spec tail ht pre []
    { infos := [], fileSize := 8, freeSize := 0, freeStart := 8, partialRecord := false }
    ((layout pre ++ tail).length + 1) (by have := length_le_recsLen pre; omega) rfl (fun h => absurd rfl h)
    (fun y => rfl) (by simpa using hnd) hok
  unfold openFile
  have hl8 : ¬ (layout pre ++ tail).length < 8 := by omega
  simp only [hl8, if_false, htake, ne_eq, not_true_eq_false, hdrop]
  generalize scanLoop _ _ _ = s at h1 h2 h3 h4
  simp only [List.nil_append, Bool.false_or] at h1 h2 h3 h4
  have hbytes : (if s.partialRecord = true then (layout pre ++ tail).take s.fileSize else layout pre ++ tail)
      = layout pre := by
    rw [h4, h1]
    by_cases htl : tail = []
    · simp [htl]
    · simp only [htl, ne_eq, not_false_eq_true, decide_true, if_true]
      exact List.take_left' (layout_length pre)
  rw [hbytes]
  by_cases hfree : s.freeSize = 0
  · simp only [hfree, if_true]
    refine ⟨_, pre, rfl, Inv.mk' rfl h1 hok h3 hnd ?_, fun y => rfl⟩
    show Boundary pre s.fileSize
    rw [h1]; exact boundary_end pre
  · simp only [hfree, if_false]
    exact truncateFile_inv _ pre (Inv.mk' rfl h1 hok h3 hnd (h2 hfree))

theorem tailBad_nil : TailBad [] := Or.inl rfl

/-- reopening a file that satisfies the invariant -/
theorem reopen_inv (st : St) (rs : List Rec) (h : Inv st rs) :
    ∃ st' rs', openFile st.bytes = some st' ∧ Inv st' rs' ∧ ∀ y, view rs' y = view rs y := by
  have := openFile_spec rs [] tailBad_nil h.ok h.nodup
  rw [List.append_nil, ← h.bytes] at this
  exact this

/-! ### a file cut anywhere -/

theorem split_at (keep : Nat) : ∀ (rs : List Rec) (off : Nat), off ≤ keep →
    ∃ pre post, rs = pre ++ post ∧ off + recsLen pre ≤ keep ∧
      (post = [] ∨ ∃ r post', post = r :: post' ∧ keep < off + recsLen pre + 8 + r.body.length) := by
  intro rs
  induction rs with
  | nil => intro off h; exact ⟨[], [], rfl, by simpa [recsLen] using h, Or.inl rfl⟩
  | cons r rs ih =>
    intro off h
    by_cases hk : off + 8 + r.body.length ≤ keep
    · obtain ⟨pre, post, e, h1, h2⟩ := ih (off + 8 + r.body.length) hk
      refine ⟨r :: pre, post, by rw [e]; rfl, by simp only [recsLen]; omega, ?_⟩
      rcases h2 with h2 | ⟨r', post', e', h2⟩
      · exact Or.inl h2
      · exact Or.inr ⟨r', post', e', by simp only [recsLen]; omega⟩
    · exact ⟨[], r :: rs, rfl, by simpa [recsLen] using h, Or.inr ⟨r, rs, rfl, by simp only [recsLen]; omega⟩⟩

theorem find_end_ge (r : Rec) (post : List Rec) (off x : Nat) (info : Info) (h : find off (r :: post) x = some info) :
    off + 8 + r.body.length ≤ info.offset + info.size := by
  obtain ⟨a, r', b, e, h1, h2⟩ := find_offset_ge _ _ _ _ h
  cases a with
  | nil =>
    simp only [List.nil_append, List.cons.injEq] at e
    rw [h1, h2, ← e.1]; simp only [recsLen]; omega
  | cons r0 a =>
    simp only [List.cons_append, List.cons.injEq] at e
    rw [h1, ← e.1]; simp only [recsLen]; omega

theorem tailBad_cut (r : Rec) (hr : RecOk r) (tl : List Nat) (j : Nat) (hj : j < 8 + r.body.length) :
    TailBad ((le64 r.id ++ (r.body ++ tl)).take j) := by
  by_cases h8 : j < 8
  · refine Or.inr (Or.inl ?_)
    rw [List.length_take]; omega
  · refine Or.inr (Or.inr ?_)
    rw [List.take_append, le64_length, List.take_of_length_le (by rw [le64_length]; omega),
      List.drop_left' (le64_length _), List.take_append_of_le_length (by omega)]
    refine skipStream_prefix_none r.body ?_ (r.body.take (j - 8)) (r.body.drop (j - 8))
      (List.take_append_drop _ _) ?_
    · have := hr.2 []
      rwa [List.append_nil] at this
    · intro h
      have := congrArg List.length h
      simp only [List.length_drop, List.length_nil] at this
      omega

theorem truncated_inv (st : St) (rs : List Rec) (h : Inv st rs) (keep : Nat) :
    ∃ st' rs', openFile (st.bytes.take keep) = some st' ∧ Inv st' rs' ∧
      ∀ id info, lookup st.infos id = some info → info.offset + info.size ≤ keep → view rs' id = view rs id := by
  by_cases hk : keep < 8
  · refine ⟨reset, [], ?_, reset_inv, ?_⟩
    · unfold openFile
      have : (st.bytes.take keep).length < 8 := by rw [List.length_take]; omega
      simp only [this, if_true]
    · intro id info hl hle
      rw [h.infos id] at hl
      obtain ⟨a, r, b, _, h1, _⟩ := find_offset_ge _ _ _ _ hl
      omega
  · obtain ⟨pre, post, hrs, h1, h2⟩ := split_at keep rs 8 (by omega)
    subst hrs
    have hcut : st.bytes.take keep = layout pre ++ (recsBytes post).take (keep - (8 + recsLen pre)) := by
      rw [h.bytes, layout_append, List.take_append, layout_length,
        List.take_of_length_le (by rw [layout_length]; omega)]
    have hbad : TailBad ((recsBytes post).take (keep - (8 + recsLen pre))) := by
      rcases h2 with h2 | ⟨r, post', e, h2⟩
      · subst h2; exact Or.inl (by simp [recsBytes])
      · subst e
        exact tailBad_cut r (h.ok r (by simp)) _ _ (by omega)
    have hnd : (liveIds pre).Nodup := by
      have := h.nodup
      rw [liveIds_append] at this
      exact (List.nodup_append.mp this).1
    obtain ⟨st', rs', e1, e2, e3⟩ := openFile_spec pre _ hbad (fun r hr => h.ok r (by simp [hr])) hnd
    refine ⟨st', rs', by rw [hcut]; exact e1, e2, ?_⟩
    intro id info hl hle
    rw [e3 id, view_append]
    rw [h.infos id, find_append] at hl
    have hv := find_view pre 8 headerBytes id rfl
    cases hf : find 8 pre id with
    | some i => rw [hf] at hv; simp only at hv; rw [hv]; rfl
    | none =>
      exfalso
      rw [hf, Option.none_or] at hl
      rcases h2 with h2 | ⟨r, post', e, h2⟩
      · subst h2; simp [find] at hl
      · subst e
        have := find_end_ge r post' _ id info hl
        omega

end Pk.Proofs.CacheFile
