/-
  Helper lemmas for C11More: a decidable check of `GraphWF` for concrete tables (used by the
  non-vacuity examples).
-/
import Pk.Model.TagGraph
import Pk.Proofs.TagGraph
import Pk.Props.C11

namespace Pk.Proofs.TagGraphMore
open Pk.TagGraph Pk.Proofs.TagGraph

/-- `referencedBy` is the inverse of the references, checked name by name -/
def mirrorCheck (m : TagMap) : Bool :=
  (tkeys m).all fun n =>
    match tget m n with
    | none => true
    | some t =>
      (t.referencedBy ++ tkeys m).all fun x =>
        t.referencedBy.contains x ==
          (match tget m x with
           | some u => u.refs.contains n
           | none => false)

theorem graphWF_of_check (m : TagMap) (h1 : (resolveOrder m).isSome = true) (h2 : mirrorCheck m = true) :
    GraphWF m := by
  obtain ⟨hcl, hac⟩ := (Pk.Props.C11.fixpoint_terminates_iff_acyclic m).mp h1
  refine ⟨hcl, hac, ?_⟩
  intro n t ht x
  have hn : n ∈ tkeys m := (mem_keys m n).mpr (by simp [ht])
  unfold mirrorCheck at h2
  rw [List.all_eq_true] at h2
  have h3 := h2 n hn
  simp only [ht] at h3
  rw [List.all_eq_true] at h3
  constructor
  · intro hx
    have h4 := h3 x (List.mem_append_left _ hx)
    have hc : t.referencedBy.contains x = true := by simpa using hx
    rw [hc] at h4
    cases hu : tget m x with
    | none => rw [hu] at h4; simp at h4
    | some u =>
      rw [hu] at h4
      refine ⟨u, rfl, ?_⟩
      simpa using h4
  · rintro ⟨u, hu, hnu⟩
    have hxk : x ∈ tkeys m := (mem_keys m x).mpr (by simp [hu])
    have h4 := h3 x (List.mem_append_right _ hxk)
    rw [hu] at h4
    have hc : u.refs.contains n = true := by simpa using hnu
    simp only [hc] at h4
    simpa using h4

end Pk.Proofs.TagGraphMore
