/- Helper lemmas for C06Reach: edits of tags (the job invariant under an edit of the job's own tag,
   `updQuery`, mark updates). -/
import Pk.Proofs.MgrTruthEvB
namespace Pk.Props.C06Reach
open Pk.Mgr Pk.Props.MgrReach Pk.Proofs.MgrTruth Pk.Proofs.MgrTags

theorem p5_get {L L' : List (String × Tag)} {n : String} {t0 : Tag}
    (h : (sget L' n).map (fun t => (t.mat, t.unc, t.defn, t.mainT, t.subT)) =
         (sget L n).map (fun t => (t.mat, t.unc, t.defn, t.mainT, t.subT))) (h0 : sget L n = some t0) :
    ∃ t1, sget L' n = some t1 ∧ t1.unc = t0.unc ∧ t1.mainT = t0.mainT ∧ t1.subT = t0.subT := by
  rw [h0] at h
  cases h' : sget L' n with
  | none => rw [h'] at h; cases h
  | some t1 =>
    rw [h'] at h
    simp only [Option.map_some, Option.some.injEq, Prod.mk.injEq] at h
    exact ⟨t1, rfl, h.2.1, h.2.2.2.1, h.2.2.2.2⟩

theorem edits_updQuery (name defn : String) (f : Facts) (n : String) :
    C06.Edits (.updQuery name defn f) n ↔ name = n := Iff.rfl

/-- an accepted edit of a definition -/
theorem good_updQuery (s : St) (name defn : String) (f : Facts) (st : Started) (T T' g : Truth)
    (hg : Good s T g) (hA' : C09.Acyclic (step s (.updQuery name defn f) st).1)
    (hok : (step s (.updQuery name defn f) st).2 = Res.ok)
    (hch : ChangesIn s s.next (fun n _ => n = name) T T')
    (hjt : ∀ jn snap held, s.jTag = some (jn, snap, held) → ∀ t, sget s.tags name = some t →
        t.gen = snap.gen → defn = snap.defn → (F254 snap ∨ snap.sfeat ≠ 0)) :
    C06.Inv (step s (.updQuery name defn f) st).1 T' ∧
    (∀ jn' snap held', s.jTag = some (jn', snap, held') → JobInv (step s (.updQuery name defn f) st).1 T' g) := by
  have hr := hg.reach
  have hw := hr.tagsWF
  have hna : s.next ≤ s.all := hr.nextLeAll
  obtain ⟨s1, t, ht, htags, hall, hnext, h1all, hsort1, h1name, h1other⟩ := updQuery_via s name defn f st hok
  have hsort : Sorted s1.tags := hsort1 hw
  have hbnd : Bounded s1.all s1.tags := by
    intro n t1 h1 x hx
    rw [h1all]
    by_cases hn : n = name
    · subst hn
      rw [h1name] at h1
      cases h1
      simpa [uqTag2] using hx
    · cases hs : sget s.tags n with
      | none =>
        have := h1other n hn
        rw [hs, h1] at this; cases this
      | some t0 =>
        obtain ⟨t2, h2, hu, _, _⟩ := p5_get (h1other n hn) hs
        rw [h1] at h2; cases h2
        rw [hu] at hx
        exact hr.uncBounded n t0 hs x hx
  have htopo : Pk.Proofs.MgrTermination.Topo s1.tags := by
    apply topo_before_inherit s1 hsort
    rw [← htags]
    exact topo_of_acyclic _ hA'
  have P : ∀ n id, Dep s.tags s.next (fun n _ => n = name) n id → id < s.all →
      Pend (step s (.updQuery name defn f) st).1.tags n id := by
    intro n id hd hid
    rw [htags]
    refine sweep_pending s.tags s1 hsort hbnd htopo (h1all ▸ hna) ?_ ?_ n id hd (h1all ▸ hid)
    · intro n t0 h0
      by_cases hn : n = name
      · subst hn
        refine ⟨_, h1name, Or.inr ?_⟩
        intro id hid
        rw [h1all] at hid
        simpa [uqTag2] using hid
      · obtain ⟨t1, h1, _, e1, e2⟩ := p5_get (h1other n hn) h0
        exact ⟨t1, h1, Or.inl ⟨e1, e2⟩⟩
    · intro n id hB hid
      subst hB
      rw [h1all] at hid
      exact ⟨_, h1name, by simpa [uqTag2] using hid⟩
  refine ⟨?_, ?_⟩
  · refine inv_of_frame s _ st T T' hr hg.inv hnext hall ?_ ?_
    · intro n hE t' h' id hid hT
      have hk := keep_step s _ st n hE
      cases hsn : sget s.tags n with
      | none => rw [hk.2 hsn] at h'; cases h'
      | some t0 =>
        obtain ⟨t2, h2, hu⟩ := P n id (hch n t0 hsn id hid hT) (by omega)
        rw [h'] at h2; cases h2; exact hu
    · intro n hE t' h' id hid hnu
      have hn : name = n := hE
      subst hn
      obtain ⟨_, t2, _, h2, _, _, _, _, _, hallp, _⟩ := updQuery_ok s name defn f st hok
      rw [h'] at h2; cases h2
      exact absurd (hallp id (by omega)) hnu
  · intro jn' snap held' hjt'
    have htag : s.tag = true := hr.jobsWF.1.2 (by rw [hjt']; rfl)
    have mr := updQuery_masks s name defn f st hok htag
    have hne : ∀ n r, Ev.updQuery name defn f ≠ .tagDone n r := fun n r h => by cases h
    refine jobInv_mono s _ st T T' g hr hg.job hne jn' snap held' hjt' ?_ ?_
    · intro id h1 h2
      rw [hnext] at h2; omega
    · intro n' ot' hot' hg' hd'
      by_cases hn : name = n'
      · subst hn
        obtain ⟨t0, t2, ht0, h2, hdef, _, _, _, _, _, egen⟩ := updQuery_ok s name defn f st hok
        rw [hot'] at h2; cases h2
        left
        intro id hid
        rw [hnext] at hid
        have hrst := mr id (by omega)
        rcases hjt jn' snap held' hjt' t0 ht0 (egen ▸ hg') (hdef.symm.trans hd') with h | h
        · exact Or.inr (Or.inr (Or.inl ⟨hrst, h⟩))
        · exact Or.inr (Or.inl ⟨h, masksNE_of_mem (Or.inr (Or.inl hrst))⟩)
      · have hE : ¬ C06.Edits (.updQuery name defn f) n' := hn
        obtain ⟨ot, hot, hg0, hd, ha⟩ := pre_of_not_edits s _ st n' snap ot' hE hot' hg' hd'
        refine Or.inr ⟨n', ot, hot, hg0, hd, ha, ?_⟩
        intro hA id hid hT
        obtain ⟨r1, r2, _⟩ := attrs_eq hA
        have hlt : id < s.all := by omega
        refine job_cover hot r1 r2 (hch n' ot hot id hid hT) ?_ ?_ ?_ ?_
        · intro hB; exact absurd hB.symm hn
        · intro r _ hd'
          exact Or.inr (P r id hd' hlt)
        · intro r _ id2 hid2 hd'
          exact Or.inr ⟨id2, P r id2 hd' (by omega)⟩
        · intro _
          exact masksNE_of_mem (Or.inr (Or.inl (mr id hlt)))

end Pk.Props.C06Reach
